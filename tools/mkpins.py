#!/usr/bin/env python3
"""mkpins.py Cxx — (re)generate coq/Pins/Cxx.v from coq/Props/Cxx.v.
Run by hand when a property's theorems are added or deliberately changed; the pin file is
committed and restates every statement (Check name : statement) so that a later weakening
of Props/Cxx.v fails the audit.  Prints the theorem names for tools/props.py."""
import re, sys, os
ROOT = os.path.dirname(os.path.dirname(os.path.abspath(__file__)))
pid = sys.argv[1]
files = [f for f in [pid] + sys.argv[2:] if os.path.exists(os.path.join(ROOT, "coq", "Props", f + ".v"))]
src = "\n".join(open(os.path.join(ROOT, "coq", "Props", f + ".v")).read() for f in files)
# strip comments
out, depth, i = [], 0, 0
while i < len(src):
    if src.startswith("(*", i): depth += 1; i += 2
    elif src.startswith("*)", i) and depth: depth -= 1; i += 2
    else:
        if depth == 0: out.append(src[i])
        i += 1
txt = "".join(out)
imports = re.findall(r"^(?:Require Import|From \S+ Require Import)[^.]*\.", txt, flags=re.M)
thms = re.findall(r"\b(?:Theorem|Corollary)\s+(\w+)\s*:(.*?)\.\s*\n\s*Proof\b", txt, flags=re.S)
with open(os.path.join(ROOT, "coq", "Pins", pid + ".v"), "w") as f:
    f.write("(* Pins for %s: restated statements + assumptions. Generated once by tools/mkpins.py, then committed. *)\n" % pid)
    for imp in imports:
        imp = re.sub(r"Require Import\s+", "Require Import ", imp)
        # qualify with VT.
        names = [n for n in imp[len("Require Import "):-1].split() if n not in files]
        f.write("Require Import " + " ".join(("VT." + n) if not n.startswith(("VT.", "Coq.")) else n for n in names) + ".\n")
    f.write("Require Import %s.\nOpen Scope N_scope.\n" % " ".join("VT.Props." + x for x in files))
    for name, stmt in thms:
        f.write("Check %s :%s.\nPrint Assumptions %s.\n" % (name, stmt, name))
print(pid, [n for n, _ in thms])
