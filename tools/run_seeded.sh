#!/bin/bash
# run_seeded.sh [ids...] : apply each seeded change to /repo, run the property's quick check, undo.
# Writes /verif/seeded/RESULTS.txt lines: <id> <exit> <first VIOLATION line or "-">
cd /verif
ids="$@"; [ -z "$ids" ] && ids=$(ls seeded | grep '^C')
for id in $ids; do
  [ -f seeded/$id/patch.diff ] || continue
  git -C /repo diff --quiet || { echo "/repo is dirty, abort"; exit 2; }
  git -C /repo apply /verif/seeded/$id/patch.diff || { echo "$id patch does not apply"; continue; }
  prop=${id:0:3}
  out=$(VERIF_SEED=${VERIF_SEED:-1} ./check $prop --tier quick 2>&1); rc=$?
  git -C /repo checkout -- .
  git -C /verif checkout -- evidence/$prop.json 2>/dev/null   # evidence of a run against a seeded change is never kept
  v=$(echo "$out" | grep '^VIOLATION' | grep -v no-failing-input-found | head -1); [ -z "$v" ] && v=$(echo "$out" | grep -m1 '^VIOLATION' || echo "-")
  rp=$(echo "$v" | sed -n 's/.*replay=\([^ ]*\).*/\1/p')
  how=$(python3 - "$rp" <<'PY'
import json, sys
try:
    d = json.load(open(sys.argv[1]))
    k = d.get("kind", "?")
    if k == "model-implementation-disagreement":
        k = "correspondence" + ("+oracle(" + d["oracle_failures"][0]["kind"] + ")" if d.get("oracle_failures") else ("+spec-theorems" if "functional specification" in d.get("verdict", "") else "-only"))
    elif k == "oracle-failure":
        k = "oracle(" + d.get("oracle_kind", "") + ")"
    print(k)
except Exception:
    print("-")
PY
)
  summary=$(echo "$out" | tail -1 | sed 's/^[^:]*: //')
  echo "$id exit=$rc $v how=$how [$summary]" | tee -a seeded/RESULTS.txt
done
