#!/bin/bash
# cmpfam.sh <family> <seed> <count>: quick manual correspondence run
set -e
f=$1; seed=$2; n=$3
B=/verif/build
$B/harness-target/debug/gen $f $seed $n /tmp/g-$f.script
( ulimit -s unlimited; $B/ocaml/driver /tmp/g-$f.script > /tmp/g-$f.ml )
$B/harness-target/debug/drive /tmp/g-$f.script > /tmp/g-$f.rs
if cmp -s /tmp/g-$f.ml /tmp/g-$f.rs; then echo "$f SAME ($(wc -l < /tmp/g-$f.rs) lines)"; else echo "$f DIFF"; diff /tmp/g-$f.ml /tmp/g-$f.rs | head -${4:-6}; fi
