#!/usr/bin/env python3
"""Regenerates MANIFEST.json from tools/props.py (levels, notes) — run after editing props.py."""
import json, os, sys
sys.path.insert(0, os.path.dirname(os.path.abspath(__file__)))
import props as P
ROOT = os.path.dirname(os.path.dirname(os.path.abspath(__file__)))
checks = []
for pid in sorted(P.PROPS):
    info = P.PROPS[pid]
    thms = info.get("theorems", [])
    level = info.get("level", "proof" if thms else "translation_validation")
    text = info.get("level_text") or (
        ("Machine-checked Coq theorems about the executable model (%s), re-audited on every run (pins, Print Assumptions), "
         "plus a differential correspondence check tying the model to /repo's current code and an implementation-level oracle that searches for failing inputs."
         % ", ".join(thms)) if thms else
        "Differential correspondence between the executable Coq model and the crate on generated histories; theorems for this property are still being built.")
    checks.append({
        "property_id": pid,
        "quick_cmd": "./check %s --tier quick" % pid,
        "thorough_cmd": "./check %s --tier thorough" % pid,
        "evidence_file": "/verif/evidence/%s.json" % pid,
        "replay_cmd_template": "./check %s --replay {path}" % pid,
        "engine": "coq-model",
        "level_claimed": {"category": level, "text": text, "design_ref": "DESIGN.md section 7, " + pid},
        "level_note": info.get("level_note", "Trusted: Coq kernel + vm_compute; the hand-written model's faithfulness outside the sampled correspondence; extraction/OCaml driver/Rust printers; vte, from_utf8, unicode-width, itoa, Vec modelled not verified. See DESIGN.md section 10."),
        "technique": info.get("technique", "Coq proof over an executable Gallina model + model/implementation differential correspondence"),
    })
m = {
    "version": 1,
    "setup_cmd": "./check --setup",
    "hooks": {
        "guard": "vt100_verif",
        "enable": "RUSTFLAGS='--cfg vt100_verif' (set in /verif/harness/.cargo/config.toml; the harness crate depends on /repo by path)",
        "baseline_off_cmd": "cd /repo && cargo test --workspace --no-fail-fast --offline",
        "source_commits": P.HOOK_COMMITS,
        "add_only": True,
    },
    "engines": [{"name": "coq-model", "path": "/verif/coq", "serves_properties": sorted(P.PROPS),
                 "kind_free_text": "Coq 8.16.1 development: executable model + theorems; extracted to OCaml and compared with the crate by /verif/check"}],
    "checks": checks,
    "notes": "All checks rebuild the harness from /repo's working tree (cargo, offline) on every run. Known findings: /verif/KNOWN_FINDINGS.txt.",
    "not_applicable": P.NOT_APPLICABLE,
}
json.dump(m, open(os.path.join(ROOT, "MANIFEST.json"), "w"), indent=1)
print("MANIFEST.json written: %d checks" % len(checks))
