#!/usr/bin/env python3
"""mkseeded_table.py — rewrites section 12 of DESIGN.md from seeded/RESULTS.txt and seeded/*/meta.json."""
import json, os, re
ROOT = os.path.dirname(os.path.dirname(os.path.abspath(__file__)))
# what had to be added to the checks before the change was caught (hand-maintained history)
STRENGTHENED = {
    "C08": "first run missed it (offset>0 + ICH on a wide pair not generated): added scrolled-view edit idioms to the csi family",
    "C13": "first run missed it (combining mark after a wrap onto a wide char): added idioms 60/61 (wide at the margin, pending wrap + combining mark)",
    "C02b": "missed: added the wrapdiff family (pairs that newly wrap a row whose successor starts with a wide cell)",
    "C13b": "caught only as a state disagreement at first (stale bottom margin is hidden state): added resize-with-region scripts and the probing-suffix search, which now produces the observable failure (cursor row == rows)",
    "C19b": "missed: added the cursorfix family (pending-wrap cursor with empty last cells and a scroll region set)",
    "C03b": "missed: added idiom 67 (origin mode inside a region, then addressing with 65535-class parameters)",
    "C12b": "missed: added idiom 68 (RIS while the alternate screen is active, with scrollback)",
    "C07b": "missed: added idiom 69 (wrapped row ending in a wide character, erase on its last columns)",
    "C01": "caught by the oracle's palette sweep only: added boundary palette indices (idiom 78, sgr family) so the correspondence sees it too",
    "C03": "caught by the oracle's CSI sweep only: added idiom 79 (cursor outside the region + IL/DL/SU/SD)",
    "C04": "detected in runs 1-7 (oracle, then also correspondence after idiom 80). EQUIVALENT since fix 5a439e4: print() no longer receives C1 characters because process() never lets vte resume a split UTF-8 sequence, so the narrowed range is unreachable; the worker's demonstration passes with the change applied and exit 0 is the correct verdict",
    "C09": "as C01",
    "C08e": "caught with 1 disagreement in runs 6-8, missed in run 9 after the random streams shifted (RI with the cursor strictly above the region and not on the first row): idiom 79 got exactly that branch",
    "C10f": "caught with a single disagreement in runs 6 and 7, missed in run 8 after the random streams shifted: the table family now enumerates DECSET/DECRST/SGR/DECSED lists of 31-40 parameters and idiom 76 adds long private-mode lists",
    "C10": "caught by the oracle's mode table only: added multi-parameter DECSET/DECRST with unknown modes in between (idiom 81, modes family)",
    "C11": "caught by the oracle's built-in DECSC scenario only: added idiom 82 (DECSC with origin mode/region/pen, region changed so that it excludes the saved row, DECRC) to the alt and stream families",
    "C11b": "1 disagreement in 1500 at first: idiom 69 got a wide-over-wide variant and the alt family draws wrap idioms while the alternate grid is active",
    "C18c": "MISSED by the first run (sub-parameter on the operation parameter of CSI 8 t was never generated): `param()` now emits sub-parameters for every CSI, the csi family and op 53 generate the window-operation forms `8:x;r;c`, `8;r:x;c:y`",
    "C04c": "1 disagreement in 2500 at first: added idiom 85 (CR/LF/BS/TAB inside an open CSI/OSC/DCS followed by a printable continuation) and a chunk mode that cuts right behind every CR/LF",
    "C12c": "4 disagreements at first: the sb family got a step 'enough history, scrolled-back view, SU by >= rows lines'",
    "C01c": "4 disagreements at first: added idiom 84 (erase runs of blank cells that differ only in text-mode bits)",
    "C04d": "MISSED by the first run (needs a resize callback that applies the request, followed in the same chunk by a sequence that reads the size): the chunk family now uses the resizing policy in a quarter of its cases and appends resize-request + size-reading sequences",
    "C06d": "MISSED by the first run (CUU/CPL starting below the bottom margin of a region whose top is not row 0): idiom 79 got cursor movements, and the csi family sets up 'region + cursor outside it' before its single operation in a sixth of the cases",
    "C14d": "MISSED by the first run (scrolled-back view with rows wider than the screen, window past the right edge): the text family builds mixed-width views; the C14 oracle no longer skips them (its reference reads the cells a row actually has)",
    "C16d": "MISSED by the first run (history at the old width, widening resize, pending-wrap cursor at the new edge, scrolled-back view, then an emitter): added exactly that scenario to the resize family",
    "C18d": "MISSED by the first run (unknown colour-space selector after 48 followed by more parameters): SGR lists and the table family got `38/48;sel;tail` forms; the report carries no-failing-input-found in the C18 check when only the pen differs (that clause is C09's) and is attributed when the event log differs",
    "C15d": "manifests as a failure of the property only at 65535 columns (outside the modelled domain, MAXDIM = 65520); the emitted bytes differ at every size, so the correspondence reports it with no-failing-input-found",
    "C05e": "MISSED by the first run (overflow of col + width only on screens >= 65534 columns wide, outside the modelled domain MAXDIM = 65520 and too slow for the executable model): the oracle got built-in far-edge cases (1x65535, 2x65535, 2x65534, 65535x1) and a replay/no-panic runner for C05-C08",
    "C10e": "MISSED by the first run (DECRST with a sub-parameter on a recognised mode number): the table family enumerates sub-parameter forms of every recognised mode, idiom 81 decorates mode lists with sub-parameters",
    "C18e": "MISSED by the first run (OSC selector that is numerically 0/1/2 but not the literal digit): the table family and idiom 74 got zero-padded / signed / spaced selectors",
    "C03e": "caught by the cost oracle (ICH 65535 takes 1.8 s); the oracle now stops a file after three measured stalls so that the check itself finishes in minutes",
    "C04e": "2 disagreements: flush() on a scrolled-back view is exercised by the W operation (twin parser) only when a scrolled view precedes it",
    "C09g": "MISSED by the first run (semicolon-form extended colour whose argument carries a colon sub-parameter, e.g. 38;5;1:2): the SGR list and the table family got mixed ;/: forms",
    "C04g": "the worker's patch predates fix 5a439e4 (Parser::process); its parser.rs hunk was re-applied by hand on the fixed code (as for C04c, C04d, C04f), suite and demonstration re-confirmed",
    "C05g": "1 disagreement at first: a third of the opx pre-states now carry a non-default pen",
    "C07g": "1 disagreement: opx got rows that are wrapped AND end in a wide character (cursor classes on its first half)",
    "C12g": "1 disagreement at first: the resize family got 'region anchored at the top, shrink to its height, scroll, look at the history'",
    "C18": "the same source change as C04 (C1 range in WrappedScreen::print): detected in runs 1-7, EQUIVALENT since fix 5a439e4 (see C04)",
    "C01h": "MISSED by the first run (batched EL 1 / ED 1 loses the un-wrap when the cursor is on the first half of a wide character in the last two columns of a wrapped row): added idiom 86 (exactly that pre-state, then an erase) to gen_op and as a whole-operation choice of the csi family",
    "C02h": "MISSED by the first run (diff between a scrolled-back view with rows of an older width and an unscrolled snapshot): the resize family's widening scenario now snapshots, scrolls back and diffs both ways (DIFF / ROWSD)",
    "C07h": "MISSED by the first run (cached 'row is blank with pen p' survives a widening resize): the resize family got 'erase with a pen, widen, erase again with the same pen'",
    "C11h": "MISSED by the first run (1049 clears only the rows the cursor has written to; SD / RI / IL move content below them): the alt family pushes content down on the alternate screen, leaves and re-enters through 1049",
    "C19i": "MISSED by the first run (a pen that became faint while still bold keeps a hidden bit that only erased blanks carry; the hook's dump was changed along with it, so only emitted bytes can show it): added the pen family (the same observable pen reached by two histories, erases over the same and over adjacent cells, snapshot and diff in between) to C19, C01 and C02",
    "C18b": "caught by the oracle's token table only: added idiom 83 (ESC with intermediates and every kind of final byte)",
}
res = {}
for line in open(os.path.join(ROOT, "seeded", "RESULTS.txt")):
    m = re.match(r"(\S+) exit=(\d+) (.*)", line.strip())
    if not m:
        continue
    sid, rc, rest = m.groups()
    how = re.search(r"how=(\S+)", rest)
    summ = re.search(r"\[(.*)\]", rest)
    dis = re.search(r"(\d+) disagreements, (\d+) oracle failures", rest)
    res[sid] = (rc, how.group(1) if how else "?", dis.groups() if dis else ("?", "?"), "no-failing-input-found" in rest)
out = []
out.append("## 12. Seeded changes: which check catches which change\n")
out.append("Each row is one change written by an independent worker who saw only the property text and a scratch\n"
           "worktree (never `/verif`); each compiles, passes the unedited 67-test suite + doctest, and breaks the property\n"
           "on a concrete input (the worker's demonstration test, re-run by us with and without the change). The\n"
           "changes live in `seeded/<id>/` (`patch.diff`, `seeded_demo.rs`, `meta.json`; suffix b = second round, c/d/e/f = third to sixth round, g = seventh round (refactoring-style rewrites of whole functions, 10-60 lines, behaviour-identical except in one corner), h = eighth round (optimisation-style changes: caches, fast paths, batching, early returns), i = ninth round (ten properties; two-site changes: two edits that each look harmless alone and break the property only through their interaction), whose workers were told what the earlier changes were and asked for a different function and mechanism; the fourth round was also asked for changes that alter behaviour on as few inputs as possible) and are never committed to `/repo`.\n"
           "`tools/run_seeded.sh` applies one, runs `./check <property> --tier quick` (seed 1), undoes it. Columns:\n"
           "*dis* = cases where model and implementation differ, *orc* = cases where the implementation-level oracle\n"
           "fails; *mechanism* = what the first reported replay rests on (`correspondence+oracle(k)`: the states/bytes\n"
           "differ and oracle kind k fails on the same or the probed input; `correspondence+spec-theorems`: the\n"
           "property's theorems are a functional specification, so the model's answer is the prescribed one;\n"
           "`oracle(k)`: first replay is an oracle failure).\n\n")
out.append("| id | change (file: what) | exit | dis | orc | mechanism | history |\n|---|---|---|---|---|---|---|\n")
ids = sorted(d for d in os.listdir(os.path.join(ROOT, "seeded")) if re.match(r"C\d\d", d) and os.path.isdir(os.path.join(ROOT, "seeded", d)))
ok = 0
for sid in ids:
    meta = json.load(open(os.path.join(ROOT, "seeded", sid, "meta.json")))
    s = meta.get("summary", "").replace("|", "/").replace("\n", " ")
    s = s[:200] + ("…" if len(s) > 200 else "")
    rc, how, (d, o), nf = res.get(sid, ("-", "not run", ("-", "-"), False))
    if rc == "1":
        ok += 1
    out.append("| %s | %s | %s | %s | %s | %s%s | %s |\n" % (sid, s, rc, d, o, how, " (no-failing-input-found)" if nf else "", STRENGTHENED.get(sid, "caught as generated")))
EQUIV = {"C04", "C18"}
out.append("\n%d of %d changes are reported as `VIOLATION` (exit 1) by the quick tier of the property they target (the other %d became behaviour-preserving when defect K04a was repaired: exit 0 is correct for them); %d of the\n"
           "reports end in `no-failing-input-found` (correspondence broken, no concrete failing input: see the history column). On the unchanged tree the same 19 commands exit 0.\n" % (ok, len(ids), len(ids) - ok, sum(1 for v in res.values() if v[3])))
out.append("\nWhat the table shows about the design: every change to *logic* is seen first by the correspondence (the model\n"
           "computes the prescribed result, the crate something else); the oracle then says which clause of the\n"
           "property is violated and supplies the replay. Changes that only manifest on rare inputs were the ones missed at\n"
           "first; every miss was answered by a generator idiom or family (column *history*), never by loosening a check.\n")
txt = "".join(out)
p = os.path.join(ROOT, "DESIGN.md")
s = open(p).read()
if "## 12. Seeded changes" in s:
    i = s.index("## 12. Seeded changes")
    j = s.find("\n## Appendix A", i)
    s = s[:i] + txt + "\n" + s[j + 1:]
else:
    j = s.index("## Appendix A")
    s = s[:j] + txt + "\n\n" + s[j:]
open(p, "w").write(s)
print("section 12 written:", ok, "/", len(ids))
