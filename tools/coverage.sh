#!/bin/bash
# tools/coverage.sh [count-per-family] — model branch coverage of the generator families:
# runs the ocamlprof-instrumented extracted model over every family and lists the model
# functions with branches no generated case reached.  A development aid (not a check).
set -e
ROOT=$(cd "$(dirname "$0")/.." && pwd)
N=${1:-3000}
BIN=$(python3 -c "import sys; sys.path.insert(0,'$ROOT/tools'); import vcheck; print(vcheck.BIN)")
W=$(mktemp -d /root/cov.XXXX)
cd "$W"
for fam in stream emit text chunk sb resize csi modes sgr acc alt wrapdiff cursorfix table; do
  "$BIN/gen" $fam 1 $N $W/$fam.script 0
  (ulimit -s unlimited; "$ROOT/build/ocaml/prof/driver_prof" $W/$fam.script > /dev/null) || true
done
for f in "$ROOT"/corpus/*/*.script; do "$ROOT/build/ocaml/prof/driver_prof" "$f" > /dev/null || true; done
ocamlprof -f ocamlprof.dump "$ROOT/build/ocaml/prof/model.ml" > annotated.ml
python3 - <<'PY'
import re
cur=None; per={}
for line in open('annotated.ml'):
    m=re.match(r"^(?:let rec|let|and)\s+(\w+)", line)
    if m: cur=m.group(1)
    a=len(re.findall(r"\(\* \d+ \*\)", line)); z=line.count("(* 0 *)")
    if cur and a:
        t,zz=per.get(cur,(0,0)); per[cur]=(t+a,zz+z)
tot=sum(t for t,z in per.values()); zer=sum(z for t,z in per.values())
print("points",tot,"unreached",zer)
for k,(t,z) in sorted(per.items(), key=lambda kv:-kv[1][1]):
    if z: print("%-32s %3d/%3d unreached"%(k,z,t))
PY
echo "annotated source: $W/annotated.ml"
