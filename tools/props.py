"""Per-property configuration of the check pipeline.

families: (generator family, cases in the quick tier, cases in the thorough tier)
theorems: names pinned in coq/Pins/<id>.v (Check name : statement + Print Assumptions)
model_decides: the property is a functional specification that determines the result
  uniquely and the theorems prove the model meets it, so a model/implementation
  disagreement on the projection is itself a failing input.
"""

ALLOWED_AXIOMS = []   # every property theorem is expected to be closed under the global context

WIDTH_PROPS = {"C05", "C13"}

TRUSTED_BASE = [
    "Coq 8.16.1 kernel incl. vm_compute (no native_compute); coqchk re-check in the thorough tier",
    "hand-written Gallina model of vt100 (coq/*.v) - tied to /repo by the differential correspondence check on every run",
    "model of vte 0.14.1 (coq/Vte.v), core::str::from_utf8 (coq/Utf8.v), unicode-width table (coq/WidthData.v, regenerated and compared every run), itoa, Vec/VecDeque operations, overflow-checked u16 arithmetic",
    "extraction (ExtrOcamlBasic directives only: bool, option, unit, list, prod, sumbool, sumor, andb, orb), OCaml 4.13.1, ocaml/driver.ml, harness/src/bin/drive.rs printers, the cfg(vt100_verif) dump hook in /repo (commit 2fc300b): a field it does not print is not compared by the state correspondence",
    "axioms: none - every pinned theorem prints 'Closed under the global context'; Section-local Variables/Hypotheses (RowPaint.v, CellInv.v, ModeLast.v) are discharged at End of their Sections; no Axiom/Parameter/Admitted anywhere (grep on every run)",
    "C03 cost clause: the unit charges of the abstract work measure (Vec::insert/remove O(len), Row::new O(cols)) are read off the Rust code by inspection; CPU time is measured by the oracle, not proved",
    "io::Write is exercised on a twin Parser<()> fed the same history (the only instantiation that implements it)",
]

PROPS = {
    "C01": dict(
        level_text='FULL at scrollback offset 0, PARTIAL for scrolled views: C01_reachable_bytes (Props/C01.v) — for EVERY screen reached from Parser::new by any history of process/write/set_size/set_scrollback calls (offset 0), every fresh parser of its size processing the BYTES of state_formatted() ends with no panic, no callback event, a ground vte state and obs = obs S (all visible cells incl. wide/continuation/attributes, every wrap flag, cursor incl. the pending-wrap column, hide, pen, five input modes), and re-emits byte-identical output (C01_reachable_obs, C01_idem_strong); C01_dirty: contents_formatted alone on any receiver previously fed full redraws (canvas); supporting invariants proved for every history: cell_cap (C01_cap_invariant; C01_cap_needed shows it is necessary), last live row never flagged (C01_last_row_invariant), screen_wrapinv (C01w_*), tokens re-parse exactly (C01tok_*). Scrolled views of uniform width: C01_fresh with the bottom-row-flag exemption the property grants (same_obs_minus); views mixing row widths after a resize are outside the theorem and carried by the differential correspondence of the emitted bytes plus the oracle.',
        families=[("emit", 1200, 40000), ("stream", 600, 20000), ("sb", 300, 8000), ("cursorfix", 800, 20000), ("wrapdiff", 500, 20000), ("pen", 200, 4000)],
        projection="contents_formatted / state_formatted bytes (Emit.contents_formatted_t, state_formatted_t) and the screen state they are computed from",
    ),
    "C02": dict(
        level_text='FULL at scrollback offset 0 (after repairing defect D10, fix 99d8cec): the statement is the executable byte-level round trip DiffRound.diff_round_ok (fresh parser, bytes of state_formatted(P), bytes of state_diff(S,P), obs compared). C02sem_all (Props/C02all.v; DiffPaint, DiffGrid, DiffMain, DiffWrap, DiffK10, DiffRoundAll on the C01 receiver infrastructure): for ALL reachable P, S of equal size at offset 0, diff_round_ok P S, with no callback event, a ground parser and a canvas receiver (C02sem_all_strong); C02sem_all_chain: one receiver fed diff(S1,S0), diff(S2,S1), ... stays equal to the latest snapshot for every chain of reachable same-size snapshots. History of the defect kept as theorems: C02_old_loop_refuted (the loop as it was before the fix fails on the D10 pair, DiffHistory.v), C02sem_K (the old loop was correct exactly outside the executable class k10: a row soft-wrapped in both screens with a wide character at column cols-2 in P where S has no contents, and an unchanged first cell in the next row), C02_d10_repaired / C02all_d10 (the witness now round-trips). Before proving, the byte-level round trip was evaluated by vm_compute on 50 250 929 ordered pairs of small screens with wrapped rows: 374 454 failed on the old loop (exactly the k10 pairs, only wrap flags), 0 fail on the repaired loop. C02_total / C02_bytes: for all reachable pairs the diff emitters succeed and every token re-parses. Scrolled views (offset > 0) are outside the theorem and carried by the differential correspondence of the diff bytes plus the oracle.',
        families=[("emit", 1500, 60000), ("wrapdiff", 1500, 40000), ("cursorfix", 500, 10000), ("modes", 300, 4000), ("pen", 200, 4000)],
        projection="contents_diff / state_diff bytes (Emit.contents_diff_t, state_diff_t) against snapshots",
    ),
    "C03": dict(
        level_text='FULL for the state part: Coq theorems C03_process (no operation sequence panics from any construction within bounds, any bytes, any chunking), C03_perform, C03_emitters and C03_text_views (every accessor/emitter for ALL argument values on reachable screens), plus the cost clause as an abstract work measure (Props/C03cost.v: instrumented copies of every looping model operation tied to the model by erasure theorems; action_cost <= 65535*(2R+C+1) + 33RC+2R^2+2C^2+4R+4C+128 for every parsed action on every reachable screen; every action except IL/SD is bounded independently of its parameter values; the unrepaired ICH loop (defect D3) is proved to cost > 2.1e9 units for n=65535 while the repaired one costs <= 2C^2+4C+3). CPU seconds are measured by the oracle (thread CPU time, every CSI final with 65535 on 50x132 and 132x50), not proved; the unit charges of Vec primitives are read off the Rust code by inspection.',
        families=[("acc", 1200, 30000), ("stream", 800, 30000), ("resize", 500, 15000), ("chunk", 300, 8000)],
        projection="panic-vs-panic on every operation and accessor (res monad of the model)",
    ),
    "C04": dict(
        level_text="FULL (after repairing defect K04a, fix 5a439e4): C04_all (Props/C04.v; Pend, Chunking, VteChunk) — for every parser satisfying the invariant parser_ok (which every parser reached through the API satisfies: C04_reachable_ok, C04_ok_step) and any two chunkings cs1, cs2 of the same byte string, process_chunks p cs1 = process_chunks p cs2: the whole resulting parser (screen, callback log, vte state, held-back bytes) or the same panic, with NO side condition on where the cuts fall; C04_unsplit (any chunking equals the unsplit run); C04_write / C04_flush (io::Write is process, reports the whole buffer, flush is the identity). The dependency defect stays modelled faithfully and is still refuted for the vte model alone (C04_vte_refuted: the bug-faithful advance loses the A of e-acute A e-acute cut after byte 1; C04_vte_bug_exact: exact trigger k04a), and C04_process_shields_vte proves that the repaired Parser::process never hands vte a chunk on which the trigger fires (k04a false at every call); C04_witness_repaired: the old witness now gives the unsplit result; C04_partial_not_empty records that vte's partial buffer can still be non-empty (harmlessly) although the repair comment says otherwise.",
        families=[("chunk", 2500, 80000)],
        projection="vte action stream (Vte.advance) and screen + event log under different chunkings",
    ),
    "C05": dict(
        level_text='FULL: case-by-case closed form of Screen::text under the reachable-state invariant (C05_cases: dropped / fits / wraps / zero-width, with pointwise cell description, frame, cursor, wrap flag), deviations from the prose listed in DESIGN 7.',
        families=[("csi", 1500, 40000), ("stream", 800, 20000)],
        projection="Screen.grid_text: full state before/after printing", model_decides=True,
    ),
    "C06": dict(
        level_text='FULL: C06_move (closed-form cursor after every movement command for every parameter value, result = same screen with only the cursor changed), DECSTBM and origin mode, bounds.',
        families=[("csi", 2000, 50000)],
        projection="cursor movement handlers of Screen/Grid: full state before/after", model_decides=True,
    ),
    "C07": dict(
        level_text='FULL: pointwise specification of ED/EL/ECH incl. cut halves and the wrap-flag condition (C07_cells, C07_wrap, C07_grid_unique), unknown modes inert, DEC selective forms identical.',
        families=[("csi", 2000, 50000)],
        projection="erase handlers (scr_ed, scr_el, scr_ech): full state before/after", model_decides=True,
    ),
    "C08": dict(
        level_text='FULL inside the stated contract: k-fold loops equal one shift (closed forms), pointwise line/cell specs for ICH DCH IL DL SU SD LF RI, frame lemmas; rows outside the region untouched for every n.',
        families=[("csi", 2000, 50000), ("sb", 300, 8000)],
        projection="insert/delete/scroll handlers: full state before/after", model_decides=True,
    ),
    "C09": dict(
        level_text='FULL: table semantics of every single parameter, extended colours incl. colon forms and malformed groups, sequencing, encoder round trip C09_diff for all pen pairs, attributes_formatted on any receiver pen, finite sweep 0..255.',
        families=[("sgr", 2000, 60000), ("table", 1500, 45018)],
        projection="Screen.sgr, Attrs.sgr_diff, attributes_formatted bytes", model_decides=True,
    ),
    "C10": dict(
        level_text='FULL: mode_effect table over the 240-state space, independence from all other state and input (C10_independent), most-recent-wins, formatted/diff round trips for all pairs, emptiness iff equal.',
        families=[("modes", 2000, 40000), ("table", 1500, 45018)],
        projection="mode fields of the screen, input_mode_formatted / input_mode_diff bytes", model_decides=True,
    ),
    "C11": dict(
        level_text='FULL: DECSC/DECRC restore (position, origin, pen) across any save-free input, isolation of the inactive grid for every switch-free action, closed forms of 47/1049 entry/exit and all four round trips, alternate grid never has scrollback.',
        families=[("alt", 1500, 40000)],
        projection="both grids, saved cursor and pen across DECSC/DECRC and 47/1049", model_decides=True,
    ),
    "C12": dict(
        level_text='FULL: closed form of scroll_up incl. recording rule and offset rule, history = suffix of all scrolled-off lines bounded by capacity, view formula, view-only theorem (run with set_scrollback calls removed is identical up to the offset, incl. panics), alternate screen never records.',
        families=[("sb", 2000, 50000)],
        projection="scrollback rows, offset, visible rows at every offset",
    ),
    "C13": dict(
        level_text='FULL: C13_reachable (invariant for every history incl. set_size/set_scrollback), shape/cursor/wide-continuation clauses, cell well-formedness for every cell of every reachable state incl. scrollback (C13_cells_reachable), transition clause for the pending column (C13b when present).',
        families=[("stream", 1200, 40000), ("resize", 1500, 30000), ("cursorfix", 300, 5000)],
        projection="full state dump and public-accessor observation after histories",
    ),
    "C14": dict(
        level_text='FULL: declarative text specification (rows, contents, contents_between) for all windows/tuples incl. out-of-range, no-panic corollaries.',
        families=[("text", 2500, 60000)],
        projection="contents(), rows(start,width), contents_between() text", model_decides=True,
    ),
    "C15": dict(
        level_text='FULL at offset 0 for blank receivers and aligned windows; the diff clause FULL at full width, for sub-windows on unwrapped rows: C15_full_reachable_obs — the row-wise protocol (rows_formatted(0,cols) row by row, continuing unpositioned after a wrapped row, then cursor_state_formatted, attributes_formatted, input_mode_formatted) on a blank receiver of the same size reproduces obs S for every reachable screen at offset 0; C15_window / C15_window_row — every aligned proper sub-window, drawing row i at (i,start) on rows blank from start on reproduces the cells inside the window; C15diffK_full (Props/C15diffK.v) — full-width rows_diff with the window protocol on a receiver showing prev ends with the current cells in every row, no class restriction; C15diff_window / C15diff_window_row — sub-window diffs (left-aligned in both screens) on screens without soft-wrapped rows turn the cells inside the window into the current ones and leave the cells before start untouched; rows_formatted/rows_diff never panic for ALL windows (C03), tokens re-parse (C01tok), self-diff empty (C19). Outside the theorems: sub-window diffs on soft-wrapped rows and scrolled views, carried by correspondence of the row bytes plus the protocol oracle.',
        families=[("emit", 1500, 50000), ("wrapdiff", 800, 20000), ("cursorfix", 500, 10000)],
        projection="rows_formatted / rows_diff / cursor_state_formatted / attributes_formatted bytes",
    ),
    "C16": dict(
        level_text='FULL: sizes, exact clamps, pointwise cell preservation/blanking incl. cut wide characters, scrollback kept, invariant re-established so every other theorem applies afterwards, resize callback.',
        families=[("resize", 2000, 50000)],
        projection="set_size on both grids, state after every resize and after the suffix", model_decides=True,
    ),
    "C17": dict(
        level_text='FULL: vte state after ESC c is exactly p_init, screen is exactly the fresh screen, log only extended by events of a string/character the ESC terminates, later runs identical to a fresh parser up to the log prefix (incl. panics).',
        families=[("stream", 1500, 40000)],
        projection="scr_ris and everything after it", model_decides=True,
    ),
    "C18": dict(
        level_text='FULL: events_of table with C18_exact for every action, inertness of reported actions, silence of implemented ones, exactly-one-action theorems for general CSI/ESC/OSC grammars incl. limits.',
        families=[("csi", 1500, 50000), ("chunk", 500, 10000), ("table", 2500, 45018)],
        projection="callback event log and vte action stream", model_decides=True,
    ),
    "C19": dict(
        level_text='FULL: observation record, all formatted emitters factor through it (no offset-0 hypothesis needed), self/obs-equal diffs empty, concatenation laws; CellBytes refinement shows stale bytes are unobservable.',
        families=[("emit", 1500, 50000), ("cursorfix", 1000, 20000), ("wrapdiff", 500, 10000), ("pen", 400, 8000)],
        projection="all emitters as functions of the observable state",
    ),
}


import os, re as _re
_ROOT = os.path.dirname(os.path.dirname(os.path.abspath(__file__)))

# Every check also runs a slice of the broad families: a change that breaks property X often
# manifests only in a scenario another family generates, and the state correspondence compares
# the complete dump on every script whatever its family.
BROAD = [("stream", 400, 8000), ("csi", 400, 8000), ("emit", 300, 6000), ("resize", 200, 4000), ("table", 300, 45018), ("exh", 6000, 1213568), ("opx", 8000, 885120)]
for _pid, _info in PROPS.items():
    _have = {f for f, _, _ in _info["families"]}
    _info["families"] = list(_info["families"]) + [b for b in BROAD if b[0] not in _have]


def theorems_of(pid):
    """The registry of a property's theorems is its committed pin file coq/Pins/<id>.v."""
    path = os.path.join(_ROOT, "coq", "Pins", pid + ".v")
    if not os.path.exists(path):
        return []
    return _re.findall(r"Print\s+Assumptions\s+(\w+)\s*\.", open(path).read())

for _pid in PROPS:
    PROPS[_pid]["theorems"] = theorems_of(_pid)

HOOK_COMMITS = ["2fc300b"]
NOT_APPLICABLE = []
