"""Per-property configuration of the check pipeline.

families: (generator family, cases in the quick tier, cases in the thorough tier)
theorems: names pinned in coq/Pins/<id>.v (Check name : statement + Print Assumptions)
model_decides: the property is a functional specification that determines the result
  uniquely and the theorems prove the model meets it, so a model/implementation
  disagreement on the projection is itself a failing input.
"""

ALLOWED_AXIOMS = []   # every property theorem is expected to be closed under the global context

WIDTH_PROPS = {"C05", "C13"}

TRUSTED_BASE = [
    "Coq 8.16.1 kernel incl. vm_compute (no native_compute); coqchk re-check in the thorough tier",
    "hand-written Gallina model of vt100 (coq/*.v) - tied to /repo by the differential correspondence check on every run",
    "model of vte 0.14.1 (coq/Vte.v), core::str::from_utf8 (coq/Utf8.v), unicode-width table (coq/WidthData.v, regenerated and compared every run), itoa, Vec/VecDeque operations, overflow-checked u16 arithmetic",
    "extraction (ExtrOcamlBasic directives only), OCaml 4.13.1, ocaml/driver.ml, harness/src/bin/drive.rs printers, the cfg(vt100_verif) dump hook in /repo",
]

PROPS = {
    "C01": dict(
        families=[("emit", 1200, 40000), ("stream", 600, 20000), ("sb", 300, 8000), ("cursorfix", 800, 20000), ("wrapdiff", 500, 20000)],
        projection="contents_formatted / state_formatted bytes (Emit.contents_formatted_t, state_formatted_t) and the screen state they are computed from",
    ),
    "C02": dict(
        families=[("emit", 1500, 60000), ("wrapdiff", 1500, 40000), ("cursorfix", 500, 10000), ("modes", 300, 4000)],
        projection="contents_diff / state_diff bytes (Emit.contents_diff_t, state_diff_t) against snapshots",
    ),
    "C03": dict(
        families=[("acc", 1200, 30000), ("stream", 800, 30000), ("resize", 500, 15000), ("chunk", 300, 8000)],
        projection="panic-vs-panic on every operation and accessor (res monad of the model)",
    ),
    "C04": dict(
        families=[("chunk", 2500, 80000)],
        projection="vte action stream (Vte.advance) and screen + event log under different chunkings",
    ),
    "C05": dict(
        families=[("csi", 1500, 40000), ("stream", 800, 20000)],
        projection="Screen.grid_text: full state before/after printing", model_decides=True,
    ),
    "C06": dict(
        families=[("csi", 2000, 50000)],
        projection="cursor movement handlers of Screen/Grid: full state before/after", model_decides=True,
    ),
    "C07": dict(
        families=[("csi", 2000, 50000)],
        projection="erase handlers (scr_ed, scr_el, scr_ech): full state before/after", model_decides=True,
    ),
    "C08": dict(
        families=[("csi", 2000, 50000), ("sb", 300, 8000)],
        projection="insert/delete/scroll handlers: full state before/after", model_decides=True,
    ),
    "C09": dict(
        families=[("sgr", 2500, 60000)],
        projection="Screen.sgr, Attrs.sgr_diff, attributes_formatted bytes", model_decides=True,
    ),
    "C10": dict(
        families=[("modes", 2500, 40000)],
        projection="mode fields of the screen, input_mode_formatted / input_mode_diff bytes", model_decides=True,
    ),
    "C11": dict(
        families=[("alt", 1500, 40000)],
        projection="both grids, saved cursor and pen across DECSC/DECRC and 47/1049",
    ),
    "C12": dict(
        families=[("sb", 2000, 50000)],
        projection="scrollback rows, offset, visible rows at every offset",
    ),
    "C13": dict(
        families=[("stream", 1200, 40000), ("resize", 1500, 30000), ("cursorfix", 300, 5000)],
        projection="full state dump and public-accessor observation after histories",
    ),
    "C14": dict(
        families=[("text", 2500, 60000)],
        projection="contents(), rows(start,width), contents_between() text",
    ),
    "C15": dict(
        families=[("emit", 1500, 50000), ("wrapdiff", 800, 20000), ("cursorfix", 500, 10000)],
        projection="rows_formatted / rows_diff / cursor_state_formatted / attributes_formatted bytes",
    ),
    "C16": dict(
        families=[("resize", 2000, 50000)],
        projection="set_size on both grids, state after every resize and after the suffix",
    ),
    "C17": dict(
        families=[("stream", 1500, 40000)],
        projection="scr_ris and everything after it",
    ),
    "C18": dict(
        families=[("csi", 2000, 50000), ("chunk", 500, 10000)],
        projection="callback event log and vte action stream",
    ),
    "C19": dict(
        families=[("emit", 1500, 50000), ("cursorfix", 1000, 20000), ("wrapdiff", 500, 10000)],
        projection="all emitters as functions of the observable state",
    ),
}


import os, re as _re
_ROOT = os.path.dirname(os.path.dirname(os.path.abspath(__file__)))

def theorems_of(pid):
    """The registry of a property's theorems is its committed pin file coq/Pins/<id>.v."""
    path = os.path.join(_ROOT, "coq", "Pins", pid + ".v")
    if not os.path.exists(path):
        return []
    return _re.findall(r"Print\s+Assumptions\s+(\w+)\s*\.", open(path).read())

for _pid in PROPS:
    PROPS[_pid]["theorems"] = theorems_of(_pid)

HOOK_COMMITS = ["2fc300b"]
NOT_APPLICABLE = []
