"""vcheck — the check pipeline (DESIGN.md section 8).

1. build: harness from /repo's working tree, Coq development, extraction, OCaml driver
2. proof audit of the property's theorems (pins, Print Assumptions, forbidden words)
3. width-table tie
4. correspondence: corpus + generated scripts, model (extracted) vs implementation
5. implementation-level oracle on the same scripts
6. verdict, replay files, evidence
"""
import sys, os, subprocess, json, time, hashlib, fcntl, re, shutil, glob, random

ROOT = os.path.dirname(os.path.dirname(os.path.abspath(__file__)))
BUILD = os.path.join(ROOT, "build")
COQ = os.path.join(ROOT, "coq")
HARNESS = os.path.join(ROOT, "harness")
TARGET = os.path.join(BUILD, "harness-target")
BIN = os.path.join(TARGET, "debug")
OCAML = os.path.join(BUILD, "ocaml")
REPO = "/repo"
NCPU = 16

sys.path.insert(0, os.path.dirname(os.path.abspath(__file__)))
import props as P


def log(msg):
    print(msg, flush=True)


def run(cmd, cwd=None, timeout=None, env=None, capture=True):
    e = dict(os.environ)
    e["CARGO_NET_OFFLINE"] = "true"
    if env:
        e.update(env)
    r = subprocess.run(cmd, cwd=cwd, timeout=timeout, env=e, shell=isinstance(cmd, str),
                       stdout=subprocess.PIPE if capture else None,
                       stderr=subprocess.STDOUT if capture else None, text=True)
    return r.returncode, (r.stdout or "")


class Lock:
    def __init__(self, path):
        self.path = path

    def __enter__(self):
        os.makedirs(os.path.dirname(self.path), exist_ok=True)
        self.f = open(self.path, "w")
        fcntl.flock(self.f, fcntl.LOCK_EX)
        return self

    def __exit__(self, *a):
        fcntl.flock(self.f, fcntl.LOCK_UN)
        self.f.close()


def file_hash(paths):
    h = hashlib.sha256()
    for p in sorted(paths):
        h.update(p.encode())
        try:
            with open(p, "rb") as f:
                h.update(f.read())
        except OSError:
            h.update(b"<missing>")
    return h.hexdigest()


# --------------------------------------------------------------------------- build

class BuildError(Exception):
    pass


def build_harness():
    shutil.copyfile(os.path.join(REPO, "Cargo.lock"), os.path.join(HARNESS, "Cargo.lock"))
    rc, out = run(["cargo", "build", "--offline", "--quiet"], cwd=HARNESS, timeout=1800)
    if rc != 0:
        raise BuildError("cargo build of the harness against /repo failed:\n" + out[-4000:])


def build_coq():
    rc, out = run("coq_makefile -f _CoqProject -o Makefile", cwd=COQ, timeout=120)
    if rc != 0:
        raise BuildError("coq_makefile failed:\n" + out)
    rc, out = run(["make", "-j%d" % NCPU, "-k"], cwd=COQ, timeout=3400)
    with open(os.path.join(BUILD, "coq-build.log"), "w") as f:
        f.write(out)
    return rc, out


def build_ocaml():
    os.makedirs(OCAML, exist_ok=True)
    srcs = [os.path.join(COQ, "model.ml"), os.path.join(COQ, "model.mli"), os.path.join(ROOT, "ocaml", "driver.ml")]
    if not all(os.path.exists(s) for s in srcs):
        raise BuildError("extraction did not produce model.ml (Coq model failed to build)")
    stamp = os.path.join(OCAML, "stamp")
    h = file_hash(srcs)
    if os.path.exists(stamp) and open(stamp).read() == h and os.path.exists(os.path.join(OCAML, "driver")):
        return
    for s in srcs:
        shutil.copyfile(s, os.path.join(OCAML, os.path.basename(s)))
    rc, out = run("ocamlfind ocamlopt -w -a model.mli model.ml driver.ml -o driver", cwd=OCAML, timeout=600)
    if rc != 0:
        raise BuildError("ocamlopt failed:\n" + out[-3000:])
    # instrumented copy for model branch coverage (thorough tier); failure here is not fatal
    prof = os.path.join(OCAML, "prof")
    os.makedirs(prof, exist_ok=True)
    for s_ in srcs:
        shutil.copyfile(s_, os.path.join(prof, os.path.basename(s_)))
    run("ocamlfind ocamloptp -P a -w -a model.mli model.ml driver.ml -o driver_prof", cwd=prof, timeout=900)
    open(stamp, "w").write(h)


def width_table_ok():
    rc, out = run([os.path.join(BIN, "widthtable")], timeout=120)
    if rc != 0:
        return False, "widthtable failed"
    cur = open(os.path.join(COQ, "WidthData.v")).read()
    if out != cur:
        open(os.path.join(BUILD, "WidthData.generated.v"), "w").write(out)
        return False, "unicode-width table differs from coq/WidthData.v (see build/WidthData.generated.v)"
    return True, ""


def build_all():
    os.makedirs(BUILD, exist_ok=True)
    with Lock(os.path.join(BUILD, "lock")):
        t0 = time.time()
        build_harness()
        coq_rc, coq_out = build_coq()
        build_ocaml()
        return coq_rc, coq_out, time.time() - t0


# --------------------------------------------------------------------------- proof audit

FORBIDDEN = re.compile(r"\b(Admitted|admit|Axiom|Axioms|Parameter|Parameters|Conjecture|Conjectures|Hypothesis|Hypotheses|Variable|Variables|Context)\b|Unset\s+Guard|bypass_check|type-in-type|impredicative-set|Admit\s+Obligations|Unset\s+Positivity|Unset\s+Universe")
SECTION_LOCAL = {"Hypothesis", "Hypotheses", "Variable", "Variables", "Context"}
SECTION_EVENT = re.compile(r"^\s*(Section|Module\s+Type|Module|End)\s+(\w+)\s*\.", re.M)


def strip_comments(text):
    out = []
    depth = 0
    i = 0
    while i < len(text):
        if text.startswith("(*", i):
            depth += 1
            i += 2
        elif text.startswith("*)", i) and depth > 0:
            depth -= 1
            i += 2
        else:
            if depth == 0:
                out.append(text[i])
            i += 1
    return "".join(out)


def grep_forbidden():
    bad = []
    for path in glob.glob(os.path.join(COQ, "**", "*.v"), recursive=True):
        txt = strip_comments(open(path).read())
        # Variable/Hypothesis/Context are section-local assumptions (discharged at End) and allowed
        # only while a Section is open; outside one they declare axioms.  Module Types are not used.
        events = []   # (offset, depth of open Sections after the event)
        stack = []
        for m in SECTION_EVENT.finditer(txt):
            kind, name = m.group(1), m.group(2)
            if kind == "Section":
                stack.append(name)
            elif kind == "End" and stack and stack[-1] == name:
                stack.pop()
            elif kind.startswith("Module"):
                if "Type" in kind:
                    bad.append("%s:%d:Module Type" % (os.path.relpath(path, ROOT), txt.count("\n", 0, m.start()) + 1))
            events.append((m.start(), len(stack)))
        def in_section(off):
            d = 0
            for o, depth in events:
                if o > off:
                    break
                d = depth
            return d > 0
        for m in FORBIDDEN.finditer(txt):
            if m.group(0) in SECTION_LOCAL and in_section(m.start()):
                continue
            line = txt.count("\n", 0, m.start()) + 1
            bad.append("%s:%d:%s" % (os.path.relpath(path, ROOT), line, m.group(0)))
    return bad


def proof_audit(prop):
    """Returns (ok, obligations, discharged, details, axioms)."""
    info = P.PROPS[prop]
    thms = info.get("theorems", [])
    details = []
    ok = True
    bad = grep_forbidden()
    if bad:
        ok = False
        details.append("forbidden words in the development: " + ", ".join(bad[:10]))
    pin = os.path.join(COQ, "Pins", prop + ".v")
    if not thms:
        return ok, 0, 0, details + ["no theorem registered for this property yet"], []
    if not os.path.exists(pin):
        return False, len(thms), 0, details + ["missing pin file " + pin], []
    for pf in re.findall(r"VT\.Props\.(\w+)", open(pin).read()):
        if not os.path.exists(os.path.join(COQ, "Props", pf + ".vo")):
            return False, len(thms), 0, details + ["Props/%s.vo was not built (proof broken); see build/coq-build.log" % pf], []
        # the .vo must be the product of the CURRENT sources: after the build above, `make -q` says
        # whether the target is up to date; it is not when the file itself or anything it depends on
        # failed to compile (a stale .vo of an earlier build must not be mistaken for a proof)
        with Lock(os.path.join(BUILD, "lock")):   # not while another check regenerates the Makefile
            rcq, _ = run(["make", "-q", "Props/%s.vo" % pf], cwd=COQ, timeout=300)
        if rcq != 0:
            return False, len(thms), 0, details + ["Props/%s.vo is not up to date: the file or one of its dependencies no longer compiles (see build/coq-build.log)" % pf], []
    # the pin file restates every theorem (Check name : statement) and prints its assumptions
    tmp = os.path.join(BUILD, "pins")
    os.makedirs(tmp, exist_ok=True)
    dst = os.path.join(tmp, "Pin_%s.v" % prop)
    shutil.copyfile(pin, dst)
    rc, out = run(["coqc", "-q", "-noglob", "-R", COQ, "VT", dst], cwd=tmp, timeout=900)
    open(os.path.join(BUILD, "pins", prop + ".log"), "w").write(out)
    pintxt = strip_comments(open(pin).read())
    discharged = 0
    axioms = []
    if rc != 0:
        ok = False
        details.append("pin file does not check: " + out[-1500:])
    else:
        closed = out.count("Closed under the global context")
        ax = re.findall(r"^Axioms:\n((?:.+\n)+)", out, flags=re.M)
        for block in ax:
            for l in block.splitlines():
                m = re.match(r"^(\S+)\s*:", l)
                if m:
                    axioms.append(m.group(1))
        for t in thms:
            if not re.search(r"Check\s+%s\s*:" % re.escape(t), pintxt) or not re.search(r"Print\s+Assumptions\s+%s\s*\." % re.escape(t), pintxt):
                ok = False
                details.append("theorem %s is not pinned in Pins/%s.v" % (t, prop))
        allowed = set(P.ALLOWED_AXIOMS)
        extra = [a for a in axioms if a not in allowed]
        if extra:
            ok = False
            details.append("unexpected axioms: " + ", ".join(sorted(set(extra))))
        npa = len(re.findall(r"Print\s+Assumptions", pintxt))
        if closed + len(ax) < npa:
            ok = False
            details.append("Print Assumptions output incomplete")
        discharged = len(thms) if ok else 0
    return ok, len(thms), discharged, details, sorted(set(axioms))


# --------------------------------------------------------------------------- running scripts

def split_cases(text):
    cases = {}
    cur = None
    buf = []
    order = []
    for line in text.split("\n"):
        if line.startswith("CASE "):
            if cur is not None:
                cases[cur] = buf
            cur = line[5:].strip()
            order.append(cur)
            buf = []
        elif cur is not None and line != "":
            buf.append(line)
    if cur is not None:
        cases[cur] = buf
    return cases, order


def run_drivers(script_path, timeout=300):
    """Run model and implementation on one script file, return (ml_out, rs_out)."""
    ml = subprocess.Popen("ulimit -s unlimited 2>/dev/null; exec %s %s" % (os.path.join(OCAML, "driver"), script_path),
                          shell=True, stdout=subprocess.PIPE, stderr=subprocess.PIPE, text=True, errors="replace")
    rs = subprocess.Popen([os.path.join(BIN, "drive"), script_path], stdout=subprocess.PIPE,
                          stderr=subprocess.PIPE, text=True, errors="replace")
    try:
        mo, me = ml.communicate(timeout=timeout)
    except subprocess.TimeoutExpired:
        ml.kill()
        mo, me = "", "TIMEOUT"
    try:
        ro, re_ = rs.communicate(timeout=timeout)
    except subprocess.TimeoutExpired:
        rs.kill()
        ro, re_ = "", "TIMEOUT"
    return mo, ro, me, re_


DIFF_TAGS = {}   # case id -> tags of all differing output lines (filled by compare_outputs)


def compare_outputs(mo, ro):
    mc, order = split_cases(mo)
    rc, order2 = split_cases(ro)
    dis = []
    ids = list(order)
    for i in order2:
        if i not in mc:
            ids.append(i)
    for cid in ids:
        a = mc.get(cid)
        b = rc.get(cid)
        if a != b:
            # first differing line
            k = 0
            a = a or []
            b = b or []
            while k < len(a) and k < len(b) and a[k] == b[k]:
                k += 1
            dis.append((cid, k, a[k] if k < len(a) else "<end>", b[k] if k < len(b) else "<end>"))
            tags = set()
            for i in range(k, max(len(a), len(b))):
                x = a[i] if i < len(a) else "<end>"
                y = b[i] if i < len(b) else "<end>"
                if x != y:
                    tags.add(x.split(" ", 1)[0])
                    tags.add(y.split(" ", 1)[0])
            DIFF_TAGS[cid] = tags
    return dis, rc, order2


def read_scripts(path):
    scripts = {}
    cur = None
    for line in open(path):
        line = line.rstrip("\n")
        if line.startswith("CASE "):
            cur = line[5:].strip()
            scripts[cur] = []
        elif cur is not None:
            scripts[cur].append(line)
    return scripts


def write_script(path, cases):
    with open(path, "w") as f:
        for cid, lines in cases:
            f.write("CASE %s\n" % cid)
            for l in lines:
                f.write(l + "\n")


def disagree(lines, workdir, tag="shrink"):
    p = os.path.join(workdir, tag + ".script")
    write_script(p, [("x", lines)])
    mo, ro, me, re_ = run_drivers(p, timeout=120)
    d, _, _ = compare_outputs(mo, ro)
    return len(d) > 0, d


def diff_lines(lines, workdir, tag="tags"):
    """All differing output lines (model, implementation) of one script, compared position by position."""
    p = os.path.join(workdir, tag + ".script")
    write_script(p, [("x", lines)])
    mo, ro, me, re_ = run_drivers(p, timeout=120)
    a = mo.splitlines()
    b = ro.splitlines()
    out = []
    for i in range(max(len(a), len(b))):
        x = a[i] if i < len(a) else "<end>"
        y = b[i] if i < len(b) else "<end>"
        if x != y:
            out.append((x, y))
    return out


PROP_TAGS = {"C14": ("TEXT", "ROWS", "BETWEEN"), "C18": ("LOG", "W")}


def shrink(lines, workdir, pred, budget=150):
    """Greedy line removal while pred(lines) stays true."""
    cur = list(lines)
    changed = True
    n = 0
    while changed and n < budget:
        changed = False
        i = len(cur) - 1
        while i >= 1 and n < budget:
            if cur[i].startswith("NEW"):
                i -= 1
                continue
            cand = cur[:i] + cur[i + 1:]
            n += 1
            if pred(cand):
                cur = cand
                changed = True
            i -= 1
    # shrink bytes inside P lines (halve chunks)
    for i in range(len(cur)):
        if n >= budget:
            break
        f = cur[i].split()
        if f and f[0] == "P" and len(f) > 1 and len(f[1]) > 4:
            hx = f[1]
            for cut in (len(hx) // 2 & ~1, ):
                for cand_hex in (hx[:cut], hx[cut:]):
                    cand = cur[:i] + ["P " + cand_hex] + cur[i + 1:]
                    n += 1
                    if pred(cand):
                        cur = cand
                        break
    # trim the last payload to the shortest prefix that still shows the difference (binary search:
    # once the offending sequence is included the difference normally persists), so that the
    # payload ENDS with the operation that causes it
    idx = [i for i, l in enumerate(cur) if l.split() and l.split()[0] in ("P", "W") and len(l.split()) > 1]
    if idx:
        i = idx[-1]
        op, hx = cur[i].split()[0], cur[i].split()[1]
        nbytes = len(hx) // 2
        lo, hi = 1, nbytes
        while lo < hi and n < budget + 12:
            mid = (lo + hi) // 2
            n += 1
            if pred(cur[:i] + ["%s %s" % (op, hx[:2 * mid])] + cur[i + 1:]):
                hi = mid
            else:
                lo = mid + 1
        if lo < nbytes and pred(cur[:i] + ["%s %s" % (op, hx[:2 * lo])] + cur[i + 1:]):
            cur = cur[:i] + ["%s %s" % (op, hx[:2 * lo])] + cur[i + 1:]
    return cur


# --------------------------------------------------------------------------- attribution
def _classify(payload):
    """What the last sequence of a P/W payload is: ('csi', marker, params, final) | ('esc', inter, final) |
    ('c0', byte) | ('text',)."""
    m = re.search(rb"\x1b\[([<=>?]?)([0-9;:]*)([ -/]*)([@-~])$", payload)
    if m:
        return ("csi", m.group(1).decode(), m.group(2).decode(), m.group(4).decode())
    m = re.search(rb"\x1b([ -/]*)([0-~])$", payload)
    if m:
        return ("esc", m.group(1).decode(), m.group(2).decode("latin1"))
    if payload and payload[-1] < 0x20:
        return ("c0", payload[-1])
    return ("text",)


def attributable(prop, script, diffs):
    """A model/implementation difference counts as a definite violation of `prop` (rather than as a
    broken correspondence with no failing input) only when the property's theorems specify exactly
    the result that differs: the last state operation of the shrunk script belongs to the class of
    operations the property is about, or the differing output line is one of the property's own
    observers.  Anything else keeps the no-failing-input-found suffix unless the oracle fails."""
    last = None
    for l in script:
        f = l.split()
        if f and f[0] in ("P", "W", "SIZE", "SB"):
            last = f
    tag = ""
    if diffs:
        d0 = diffs[0]
        line = (d0[2] or d0[3] or "") if len(d0) > 3 else ""
        tag = line.split(" ", 1)[0] if line else ""
    cls = None
    payload = b""
    if last and last[0] in ("P", "W") and len(last) > 1:
        try:
            payload = bytes.fromhex(last[1])
        except ValueError:
            payload = b""
        cls = _classify(payload)
    def csi(finals, marker=None):
        return cls is not None and cls[0] == "csi" and cls[3] in finals and (marker is None or cls[1] == marker)
    if prop == "C05":
        return cls == ("text",)
    if prop == "C06":
        return csi("ABCDEFGHdf`aer") or (csi("hl", "?") and "6" in cls[2].split(";")) or \
            (cls is not None and cls[0] == "c0" and cls[1] in (8, 9, 10, 11, 12, 13)) or \
            (cls is not None and cls[0] == "esc" and cls[1] == "" and cls[2] in "MDE")
    if prop == "C07":
        return csi("JKX")
    if prop == "C08":
        return csi("@PLMST")
    if prop == "C09":
        return csi("m", "")
    if prop == "C10":
        return csi("hl", "?") or (cls is not None and cls[0] == "esc" and cls[1] == "" and cls[2] in "=>")
    if prop == "C11":
        return (cls is not None and cls[0] == "esc" and cls[1] == "" and cls[2] in "78") or csi("su", "") or \
            (csi("hl", "?") and any(x in cls[2].split(";") for x in ("47", "1047", "1049")))
    if prop == "C14":
        return tag in ("TEXT", "ROWS", "BETWEEN")
    if prop == "C16":
        return (last is not None and last[0] == "SIZE") or csi("t")
    if prop == "C17":
        return b"\x1bc" in payload
    if prop == "C18":
        return tag in ("LOG", "W")
    return False


# --------------------------------------------------------------------------- main check

DET_FAMILIES = {"table": 45018, "exh": 1213568, "opx": 885120}   # sizes of the deterministic enumerations (gen prints them)
DET_STRIDE = 104729                                                # prime, coprime to all three sizes


def gen_family(fam, seed, count, workdir, nshards):
    per = max(1, (count + nshards - 1) // nshards)
    files = []
    procs = []
    # deterministic enumerations are not sampled at random: the thorough tier asks for at least as
    # many entries as they have (= all, in order); the quick tier takes `count` entries spread over
    # the whole enumeration (index = base + t * stride mod size, the base moves with the seed)
    size = DET_FAMILIES.get(fam)
    whole = size is not None and count >= size
    if whole:
        count = size
        per = (count + nshards - 1) // nshards
    base = 0 if (size is None or whole) else (seed * 7919 * count) % size
    for s in range(nshards):
        done = s * per
        if done >= count:
            break
        n = min(per, count - done)
        path = os.path.join(workdir, "%s-%d.script" % (fam, s))
        if size is None:
            args = [os.path.join(BIN, "gen"), fam, str(seed), str(n), path, str(done)]
        elif whole:
            args = [os.path.join(BIN, "gen"), fam, str(seed), str(n), path, str(done), "1"]
        else:
            args = [os.path.join(BIN, "gen"), fam, str(seed), str(n), path, str((base + done * DET_STRIDE) % size), str(DET_STRIDE)]
        procs.append(subprocess.Popen(args))
        files.append(path)
    for p in procs:
        if p.wait() != 0:
            raise BuildError("gen failed for family " + fam)
    return files


def run_oracle(prop, script_files, seed, tier, workdir):
    """Runs the implementation-level oracle on the script files (in parallel).
    Returns (fails, stats, known) where fails = [(caseid, kind, detail)]."""
    exe = os.path.join(BIN, "oracle")
    open_ids = {k.get("id") for k in load_known_findings()}
    if not os.path.exists(exe):
        return [], {}, []
    procs = []
    # the first file's oracle also runs the file-independent sweeps (cost sweep, pen sweep); it is
    # started only after the others have finished so that CPU-time measurements are undisturbed
    env_ns = dict(os.environ)
    env_ns["VERIF_NO_SWEEP"] = "1"
    for f in script_files[1:]:
        procs.append((f, subprocess.Popen([exe, prop, f, str(seed), tier], stdout=subprocess.PIPE,
                                          stderr=subprocess.PIPE, text=True, errors="replace", env=env_ns)))
    fails, stats, known = [], {}, []
    first = True
    for f, p in procs + [(script_files[0], None)] if script_files else []:
        if p is None:
            p = subprocess.Popen([exe, prop, f, str(seed), tier], stdout=subprocess.PIPE,
                                 stderr=subprocess.PIPE, text=True, errors="replace")
        try:
            out, err = p.communicate(timeout=3000)
        except subprocess.TimeoutExpired:
            p.kill()
            fails.append(("?", "oracle-timeout", f))
            continue
        if p.returncode != 0:
            fails.append(("?", "oracle-crash", (err or "")[-500:]))
        for line in out.splitlines():
            if line.startswith("OFAIL "):
                parts = line.split(" ", 3)
                fails.append((parts[1], parts[2], parts[3] if len(parts) > 3 else ""))
            elif line.startswith("OKNOWN "):
                parts = line.split(" ", 3)
                # the oracle recognises the class and shape of a finding; only findings that are
                # still OPEN in KNOWN_FINDINGS.txt are suppressed - a fixed one that comes back is a failure
                if parts[2] in open_ids:
                    known.append((parts[1], parts[2], parts[3] if len(parts) > 3 else ""))
                else:
                    fails.append((parts[1], "regression-of-fixed-finding-" + parts[2], parts[3] if len(parts) > 3 else ""))
            elif line.startswith("OSTAT "):
                parts = line.split(" ", 2)
                try:
                    if parts[1].startswith(("slowest", "max_")):
                        stats[parts[1]] = max(stats.get(parts[1], 0), int(parts[2]))
                    else:
                        stats[parts[1]] = stats.get(parts[1], 0) + int(parts[2])
                except ValueError:
                    pass
    return fails, stats, known


def hexlist(h):
    return "[" + "; ".join(str(int(h[i:i + 2], 16)) for i in range(0, len(h), 2)) + "]"


def three_way(all_scripts, work, limit=200):
    """Thorough tier: evaluate a sample of cases with Coq's vm_compute on the Gallina model and compare
    the fingerprints with those of the extracted OCaml model (Fingerprint.v)."""
    # one construction per case: fp_case takes the NEW arguments and then the operations
    ids = [cid for cid, lines in all_scripts.items()
           if lines and lines[0].startswith("NEW") and sum(1 for l in lines if l.startswith("NEW")) == 1
           and not any(l.startswith(("VNEW", "VP")) for l in lines)]
    ids = ids[:limit]
    if not ids:
        return 0, []
    # OCaml side
    sp = os.path.join(work, "fp.script")
    with open(sp, "w") as f:
        for cid in ids:
            f.write("CASE %s\n" % cid)
            for l in all_scripts[cid]:
                if l.split()[0] in ("NEW", "P", "W", "SIZE", "SB"):
                    f.write(l + "\n")
            f.write("FP\n")
    rc, out = run("ulimit -s unlimited 2>/dev/null; %s %s" % (os.path.join(OCAML, "driver"), sp), timeout=600)
    ml = {}
    cur = None
    for line in out.splitlines():
        if line.startswith("CASE "):
            cur = line[5:].strip()
        elif line.startswith("FP ") and cur:
            ml[cur] = line[3:].split()
        elif line.startswith("PANIC") and cur:
            ml.setdefault(cur, ["PANIC"])
    # Coq side, sharded
    shards = [ids[i::8] for i in range(8)]
    procs = []
    for k, sh in enumerate(shards):
        if not sh:
            continue
        vp = os.path.join(work, "cases%d.v" % k)
        with open(vp, "w") as f:
            f.write("Require Import VT.Base VT.Parser VT.Fingerprint.\nOpen Scope N_scope.\nSet Printing Width 2000.\nSet Printing Depth 100000.\n")
            for j, cid in enumerate(sh):
                lines = all_scripts[cid]
                nf = lines[0].split()
                ops = []
                for l in lines[1:]:
                    w = l.split()
                    if w[0] == "P":
                        ops.append("OpProcess %s" % hexlist(w[1] if len(w) > 1 else ""))
                    elif w[0] == "W":
                        ops.append("OpWrite %s" % hexlist(w[1] if len(w) > 1 else ""))
                    elif w[0] == "SIZE":
                        ops.append("OpSetSize %s %s" % (w[1], w[2]))
                    elif w[0] == "SB":
                        ops.append("OpSetScrollback %s" % w[1])
                f.write("Goal True. let v := eval vm_compute in (fp_case %s %s %s %s [%s]) in idtac \"FPC %d\" v. Abort.\n" % (
                    nf[1], nf[2], nf[3], "true" if nf[4] == "1" else "false", "; ".join(ops), j))
        procs.append((sh, subprocess.Popen(["coqc", "-q", "-noglob", "-R", COQ, "VT", vp], cwd=work,
                                           stdout=subprocess.PIPE, stderr=subprocess.STDOUT, text=True)))
    bad = []
    n = 0
    for sh, p in procs:
        try:
            out, _ = p.communicate(timeout=1500)
        except subprocess.TimeoutExpired:
            p.kill()
            bad.append(("?", "coqc timeout"))
            continue
        for m in re.finditer(r"FPC (\d+) \[([^\]]*)\]", out):
            cid = sh[int(m.group(1))]
            coqv = [x.strip() for x in m.group(2).split(";")]
            n += 1
            if ml.get(cid) != coqv and ml.get(cid) != ["PANIC"]:
                bad.append((cid, "coq %s vs ocaml %s" % (coqv, ml.get(cid))))
            if ml.get(cid) == ["PANIC"] and coqv[0] == "2":
                bad.append((cid, "coq %s vs ocaml PANIC" % coqv))
        if "Error" in out:
            bad.append(("?", out[-400:]))
    return n, bad


def model_coverage(script_files, work, funcs, max_files=4):
    """Thorough tier: run the ocamlprof-instrumented extracted model on a sample of the scripts and
    report which branches of the model functions in the property's projection were never reached."""
    prof = os.path.join(OCAML, "prof")
    exe = os.path.join(prof, "driver_prof")
    if not os.path.exists(exe):
        return None
    cdir = os.path.join(work, "cov")
    os.makedirs(cdir, exist_ok=True)
    for f in script_files[:max_files]:
        run("ulimit -s unlimited 2>/dev/null; cd %s && %s %s > /dev/null" % (cdir, exe, f), timeout=900)
    if not os.path.exists(os.path.join(cdir, "ocamlprof.dump")):
        return None
    rc, out = run("cd %s && ocamlprof -f ocamlprof.dump %s" % (cdir, os.path.join(prof, "model.ml")), timeout=300)
    cur, total, zero, per = None, 0, 0, {}
    for line in out.splitlines():
        m = re.match(r"^(?:let rec|let|and)\s+(\w+)", line)
        if m:
            cur = m.group(1)
        n_all = len(re.findall(r"\(\* \d+ \*\)", line))
        n_zero = line.count("(* 0 *)")
        if cur and n_all:
            t, z = per.get(cur, (0, 0))
            per[cur] = (t + n_all, z + n_zero)
    sel = {k: v for k, v in per.items() if (not funcs) or k in funcs}
    return {"functions": len(sel), "points": sum(t for t, z in sel.values()),
            "unreached_points": sum(z for t, z in sel.values()),
            "functions_with_unreached": sorted(k for k, (t, z) in sel.items() if z)[:40]}


PROBE_SUFFIXES = [
    "0a" * 70,                                   # line feeds past any bottom margin
    "78" * 300,                                  # printable text: wraps and scrolls
    "e4b896" * 150,                              # wide characters
    "1b4d" * 70,                                 # reverse index past any top margin
    "1b5b3939393b39393948" + "7878" + "0a0a",    # CUP far corner, print, LF
    "1b5b48" + "1b5b39393942" + "0a0a78",        # home, CUD 999, LF, print
    "1b38" + "7878" + "0a",                      # DECRC then print
    "1b5b3f3130343968" + "78780a" + "1b5b3f313034396c" + "78780a",   # alt screen round trip
    "1b5b4c1b5b4d1b5b531b5b54" + "1b5b401b5b50" + "78",               # IL DL SU SD ICH DCH
    "1b5b324a1b5b4b1b5b58" + "78",               # ED 2, EL, ECH
    "0d" + "78" * 40 + "08" * 50 + "09" * 30 + "78",                  # CR text BS TAB
]


def probe_cases(cid, lines):
    """Extensions of a (shrunk) disagreeing script: the same prefix, then a probing suffix, then
    every observer.  Used only for the failing-input search."""
    base = [l for l in lines if l.split() and l.split()[0] not in ("DUMP", "OBS", "LOG")]
    tail = ["OBS", "FMT contents", "FMT state", "TEXT", "ROWSF 0 65535", "ROWS 0 65535", "DUMP"]
    out = []
    for i, sfx in enumerate(PROBE_SUFFIXES):
        out.append(("%s+probe%d" % (cid, i), base + ["P " + sfx] + tail))
    return out


def load_known_findings():
    res = []
    path = os.path.join(ROOT, "KNOWN_FINDINGS.txt")
    if os.path.exists(path):
        for line in open(path):
            line = line.strip()
            if line.startswith("open:"):
                d = dict(re.findall(r"(\w+)=(\S+)", line))
                d["text"] = line
                res.append(d)
    return res


def nontrivial(lines):
    for l in lines:
        if l.startswith("ROW ") and not l.endswith("*"):
            return True
        if l.startswith("EV ") or l.startswith("ACT "):
            return True
        if l.startswith(("FMT", "DIFF", "ROWSF", "ROWSD", "TEXT", "ROWS", "BETWEEN")) and len(l.split()) > 2:
            return True
    return False


def check_property(prop, tier, seed, replay=None):
    t0 = time.time()
    info = P.PROPS[prop]
    os.makedirs(os.path.join(ROOT, "evidence"), exist_ok=True)
    work = os.path.join(BUILD, "work", prop)
    shutil.rmtree(work, ignore_errors=True)
    os.makedirs(work, exist_ok=True)
    replay_dir = os.path.join(BUILD, "replays")
    os.makedirs(replay_dir, exist_ok=True)
    for old in glob.glob(os.path.join(replay_dir, prop + "-*.json")):
        os.remove(old)

    violations = []   # (replay_path, suffix)
    notes = []

    try:
        coq_rc, coq_out, build_s = build_all()
    except BuildError as e:
        log("BUILD-ERROR: " + str(e))
        rp = os.path.join(replay_dir, "%s-build-error.json" % prop)
        json.dump({"property": prop, "kind": "build-error", "detail": str(e)}, open(rp, "w"), indent=1)
        log("VIOLATION property=%s replay=%s no-failing-input-found" % (prop, rp))
        write_evidence(prop, tier, seed, info, dict(evaluations=0, distinct=0, samples=[], obligations=0, discharged=0,
                       axioms=[], audit=["build error"], stats={}, fam_counts={}, disagreements=0, known=[]), 1, time.time() - t0)
        return 1

    audit_ok, obligations, discharged, audit_details, axioms = proof_audit(prop)
    for d in audit_details:
        notes.append("audit: " + d)
    wt_ok, wt_msg = width_table_ok()
    if not wt_ok and prop in P.WIDTH_PROPS:
        notes.append(wt_msg)

    # ---- scripts: corpus first, then generated
    script_files = []
    fam_counts = {}
    corpus = sorted(glob.glob(os.path.join(ROOT, "corpus", prop, "*.script")) +
                    glob.glob(os.path.join(ROOT, "corpus", "all", "*.script")) +
                    glob.glob(os.path.join(BUILD, "corpus-local", prop, "*.script")))
    if corpus:
        cpath = os.path.join(work, "corpus.script")
        with open(cpath, "w") as out:
            for c in corpus:
                txt = open(c).read()
                if not txt.startswith("CASE"):
                    out.write("CASE corpus:%s\n" % os.path.basename(c))
                out.write(txt if txt.endswith("\n") else txt + "\n")
        script_files.append(cpath)
        fam_counts["corpus"] = len(corpus)
    if replay:
        script_files = []
        rp = json.load(open(replay))
        cpath = os.path.join(work, "replay.script")
        write_script(cpath, [("replay", rp.get("script", []))])
        script_files.append(cpath)
        fam_counts = {"replay": 1}
    else:
        for fam, nq, nt in info["families"]:
            n = nq if tier == "quick" else nt
            fam_counts[fam] = n
            script_files += gen_family(fam, seed, n, work, NCPU)

    # ---- correspondence
    all_scripts = {}
    disagreements = []
    evaluations = 0
    hashes = set()
    samples = []
    procs = []
    for f in script_files:
        all_scripts.update(read_scripts(f))
    # run drivers on all files in parallel (2 processes per file)
    results = {}
    from concurrent.futures import ThreadPoolExecutor
    with ThreadPoolExecutor(max_workers=NCPU) as ex:
        for f, r in zip(script_files, ex.map(run_drivers, script_files)):
            results[f] = r
    for f in script_files:
        mo, ro, me, re_ = results[f]
        if me.strip():
            notes.append("model driver stderr on %s: %s" % (os.path.basename(f), me.strip()[-300:]))
        if re_.strip():
            notes.append("impl driver stderr on %s: %s" % (os.path.basename(f), re_.strip()[-300:]))
        dis, rcases, order = compare_outputs(mo, ro)
        evaluations += len(order)
        for cid in order:
            lines = rcases[cid]
            if nontrivial(lines):
                hashes.add(hashlib.sha1("\n".join(lines).encode()).hexdigest())
        for cid in order[:1]:
            if len(samples) < 3 and cid in all_scripts:
                samples.append({"case": cid, "script": all_scripts[cid][:12]})
        for d in dis:
            disagreements.append(d)

    # ---- input distribution (measured on this run's scripts and outputs)
    op_hist, size_hist, byte_total, panic_cases = {}, {}, 0, 0
    for cid, lines in all_scripts.items():
        for l in lines:
            w = l.split()
            if not w:
                continue
            op_hist[w[0]] = op_hist.get(w[0], 0) + 1
            if w[0] == "NEW":
                r_, c_ = int(w[1]), int(w[2])
                key = "1x1" if (r_, c_) == (1, 1) else "1-row/1-col" if 1 in (r_, c_) else "<=6x8" if r_ <= 6 and c_ <= 8 else "24x80" if (r_, c_) == (24, 80) else "50x132" if (r_, c_) == (50, 132) else "other"
                size_hist[key] = size_hist.get(key, 0) + 1
            elif w[0] in ("P", "W", "VP") and len(w) > 1:
                byte_total += len(w[1]) // 2
    for f in script_files:
        panic_cases += results[f][1].count("\nPANIC")

    # ---- oracle on the same scripts
    ofails, ostats, oknown = run_oracle(prop, script_files, seed, tier, work)

    # ---- thorough: Coq vm_compute vs extracted OCaml on a sample; independent re-check with coqchk
    tw_n, tw_bad, chk_note, cov_info = 0, [], "", None
    if tier == "thorough" and not replay:
        tw_n, tw_bad = three_way(all_scripts, work)
        for cid, msg in tw_bad[:5]:
            notes.append("three-way mismatch %s: %s" % (cid, msg))
        cov_info = model_coverage(script_files, work, set(info.get("model_functions", [])))
        if info.get("theorems"):
            pfs = re.findall(r"VT\.Props\.(\w+)", open(os.path.join(COQ, "Pins", prop + ".v")).read())
            rc, out = run(["coqchk", "-silent", "-o", "-R", COQ, "VT"] + ["VT.Props.%s" % x for x in sorted(set(pfs))], cwd=COQ, timeout=3000)
            tail = out.strip().splitlines()[-12:]
            chk_note = " | ".join(tail)
            if rc != 0:
                notes.append("coqchk failed: " + chk_note[-600:])
                audit_ok = False
                audit_details.append("coqchk failed")

    # ---- known findings
    kf = [k for k in load_known_findings() if k.get("property") == prop]
    for k in kf:
        log("KNOWN-FINDING: %s" % (k["text"].split(" ", 1)[1] if " " in k["text"] else k["text"]))

    # ---- verdict
    status = 0
    if disagreements:
        status = 1
        # pick the first few disagreements; shrink; ask the oracle about each
        seen = 0
        # report first the disagreements in which one of the property's own observers differs
        ptags0 = set(PROP_TAGS.get(prop, ()))
        if ptags0:
            disagreements.sort(key=lambda d: 0 if DIFF_TAGS.get(d[0], set()) & ptags0 else 1)
        for (cid, k, a, b) in disagreements[:3]:
            lines = all_scripts.get(cid, [])
            small = shrink(lines, work, lambda c: disagree(c, work)[0]) if lines else lines
            _, dd = disagree(small, work, "final") if small else (False, [])
            ptags = PROP_TAGS.get(prop)
            if ptags and lines:
                # prefer a shrunk script on which one of the property's OWN observers differs
                has = lambda c: any((x.split(" ", 1)[0] in ptags) or (y.split(" ", 1)[0] in ptags) for x, y in diff_lines(c, work))
                if has(lines):
                    small2 = shrink(lines, work, has)
                    tl = [(x, y) for x, y in diff_lines(small2, work) if x.split(" ", 1)[0] in ptags or y.split(" ", 1)[0] in ptags]
                    if tl:
                        small = small2
                        dd = [(cid, 0, tl[0][0], tl[0][1])]
            sp = os.path.join(work, "dis-%d.script" % seen)
            write_script(sp, [(cid, small)])
            of, _, ok_ = run_oracle(prop, [sp], seed, tier, work)
            of_full = [x for x in ofails if x[0] == cid]
            probe_script = None
            if not of and not of_full and small:
                # the states differ but nothing observable is wrong yet: drive both on from the
                # diverged state with probing suffixes and ask the oracle again
                pcases = probe_cases(cid, small)
                pp = os.path.join(work, "probe-%d.script" % seen)
                write_script(pp, pcases)
                pof, _, _ = run_oracle(prop, [pp], seed, tier, work)
                if pof:
                    of = pof[:3]
                    pid = pof[0][0]
                    probe_script = dict(pcases)[pid]
            rp = os.path.join(replay_dir, "%s-%s.json" % (prop, re.sub(r"[^A-Za-z0-9_.-]", "_", cid)))
            doc = {"property": prop, "kind": "model-implementation-disagreement",
                   "correspondence": P.PROPS[prop].get("projection", ""),
                   "case": cid, "script": probe_script or small, "disagreeing_script": small, "original_script": lines,
                   "first_difference": {"line": k, "model": a, "implementation": b},
                   "shrunk_difference": [{"line": x[1], "model": x[2], "implementation": x[3]} for x in dd[:1]],
                   "oracle_failures": [{"kind": x[1], "detail": x[2]} for x in (of + of_full)[:5]],
                   "how_to_replay": "./check %s --replay %s" % (prop, rp)}
            decided = P.PROPS[prop].get("model_decides", False) and attributable(prop, small, dd or [(cid, k, a, b)])
            doc["attributed_to_property"] = bool(decided)
            if of or of_full:
                doc["verdict"] = "the implementation-level oracle fails on this input"
                suffix = ""
            elif decided and audit_ok and info.get('theorems'):
                doc["verdict"] = ("the property's theorems prove that the model's result is the one the property prescribes "
                                  "(functional specification); the implementation computes a different result on this input")
                suffix = ""
            else:
                doc["verdict"] = "no failing input found by the oracle; the model-implementation correspondence is broken here"
                suffix = " no-failing-input-found"
            json.dump(doc, open(rp, "w"), indent=1)
            violations.append((rp, suffix))
            seen += 1
    # oracle failures on cases where model and implementation agree
    dis_ids = set(d[0] for d in disagreements)
    fresh = [x for x in ofails if x[0] not in dis_ids]
    if fresh:
        status = 1
        for (cid, kind, detail) in fresh[:3]:
            rp = os.path.join(replay_dir, "%s-oracle-%s.json" % (prop, re.sub(r"[^A-Za-z0-9_.-]", "_", cid)))
            json.dump({"property": prop, "kind": "oracle-failure", "oracle_kind": kind, "detail": detail,
                       "case": cid, "script": all_scripts.get(cid, []),
                       "how_to_replay": "./check %s --replay %s" % (prop, rp)}, open(rp, "w"), indent=1)
            violations.append((rp, ""))
    if tw_bad:
        status = 1
        rp = os.path.join(replay_dir, "%s-three-way.json" % prop)
        json.dump({"property": prop, "kind": "extraction-mismatch", "details": tw_bad[:20]}, open(rp, "w"), indent=1)
        violations.append((rp, " no-failing-input-found"))
    if not audit_ok:
        status = 1
        if not violations:
            rp = os.path.join(replay_dir, "%s-proof-audit.json" % prop)
            json.dump({"property": prop, "kind": "proof-obligation-broken", "details": audit_details,
                       "theorems": info.get("theorems", [])}, open(rp, "w"), indent=1)
            violations.append((rp, " no-failing-input-found"))
    if not wt_ok and prop in P.WIDTH_PROPS:
        status = 1
        if not violations:
            rp = os.path.join(replay_dir, "%s-width-table.json" % prop)
            json.dump({"property": prop, "kind": "width-table-mismatch", "detail": wt_msg}, open(rp, "w"), indent=1)
            violations.append((rp, " no-failing-input-found"))

    for n in notes:
        log("note: " + n)
    for (cid, kind, detail) in oknown[:5]:
        log("known-class-hit: %s %s %s" % (cid, kind, detail[:200]))
    for rp, suffix in violations:
        log("VIOLATION property=%s replay=%s%s" % (prop, rp, suffix))
    wall = time.time() - t0
    write_evidence(prop, tier, seed, info, dict(evaluations=evaluations, distinct=len(hashes), samples=samples,
                   obligations=obligations, discharged=discharged, axioms=axioms, audit=audit_details,
                   stats=ostats, fam_counts=fam_counts, disagreements=len(disagreements),
                   known=[k["text"] for k in kf], known_hits=len(oknown), oracle_failures=len(ofails),
                   three_way=tw_n, coqchk=chk_note, op_hist=op_hist, size_hist=size_hist,
                   byte_total=byte_total, panic_cases=panic_cases, cov_info=cov_info),
                   len(violations), wall)
    log("%s %s: %d cases, %d distinct non-trivial, %d disagreements, %d oracle failures, audit %s, %.1fs" % (
        prop, tier, evaluations, len(hashes), len(disagreements), len(ofails), "ok" if audit_ok else "BROKEN", wall))
    return status


def write_evidence(prop, tier, seed, info, c, nviol, wall):
    thms = info.get("theorems", [])
    level = info.get("level", "proof" if thms else "translation_validation")
    cov = {
        "evaluations": max(c["evaluations"], 0),
        "distinct_nontrivial": c["distinct"],
        "rule": ("cases = corpus scripts + seeded generated scripts of the families listed in 'families' (one xorshift stream per "
                 "(family, seed, index)); each case is executed by the extracted Coq model and by the crate built from /repo and every "
                 "output line compared; a case is non-trivial when its implementation output contains a non-blank row, a callback "
                 "event or emitted bytes; distinct = distinct SHA-1 of the implementation's output for the case"),
        "samples": c["samples"] or [{"case": "none", "script": []}],
        "families": c["fam_counts"],
        "disagreements": c["disagreements"],
        "traces_validated_against_impl": c["evaluations"],
        "oracle_statistics": c["stats"],
        "oracle_failures": c.get("oracle_failures", 0),
        "known_findings": c["known"],
        "known_class_hits": c.get("known_hits", 0),
        "three_way_cases_coq_vm_compute_vs_ocaml": c.get("three_way", 0),
        "input_distribution": {"script_ops": c.get("op_hist", {}), "screen_sizes": c.get("size_hist", {}),
                               "payload_bytes": c.get("byte_total", 0), "cases_ending_in_panic": c.get("panic_cases", 0)},
        "coqchk": c.get("coqchk", ""),
        "model_branch_coverage": c.get("cov_info"),
        "audit_notes": c["audit"],
        "theorems": thms,
        "axioms_reported": c["axioms"],
        "programs": max(c["evaluations"], 1),
        "disagreements_checked": c["disagreements"],
    }
    if level == "proof":
        cov.update({
            "obligations": c["obligations"],
            "discharged": c["discharged"],
            "checker_cmd": "make -C coq (coqc 8.16.1, full .vo) && coqc Pins/%s.v (Check statements + Print Assumptions)" % prop,
            "trusted_base": P.TRUSTED_BASE,
        })
    ev = {
        "property_id": prop, "tier": tier, "seed": seed, "level": level,
        "coverage": cov,
        "assumptions": P.TRUSTED_BASE + info.get("assumptions", []),
        "wall_s": round(wall, 2),
        "violations": nviol,
    }
    json.dump(ev, open(os.path.join(ROOT, "evidence", prop + ".json"), "w"), indent=1)


def main(argv):
    if not argv:
        print(__doc__)
        return 2
    if argv[0] == "--setup":
        try:
            rc, out, s = build_all()
        except BuildError as e:
            print("setup failed:", e)
            return 1
        if rc != 0:
            print(out[-3000:])
            print("setup: Coq build reported errors")
            return 1
        print("setup ok (%.0fs)" % s)
        return 0
    prop = argv[0]
    tier = os.environ.get("VERIF_TIER", "quick")
    replay = None
    i = 1
    while i < len(argv):
        if argv[i] == "--tier":
            tier = argv[i + 1]
            i += 2
        elif argv[i] == "--replay":
            replay = argv[i + 1]
            i += 2
        else:
            i += 1
    seed = int(os.environ.get("VERIF_SEED", "1"))
    if prop not in P.PROPS:
        print("unknown property", prop)
        return 2
    return check_property(prop, tier, seed, replay)
