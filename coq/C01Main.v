(* C01Main.v — Stage 4b: assembly of C01.  contents_formatted / state_formatted of a
   screen S, played on a canvas receiver of the same size, reproduce S's observable state. *)
Require Import Tac ListN Utf8 Width Attrs Cell Row Grid Screen Vte Perform Term Emit
  RowInv GridInv TextInv ScreenInv ParseSer CellWf WfGrid WfVte WfInv EraseSpec SgrSpec MoveSpec PrintSpec
  CellBytes EmitSafe WrapInv WrapInvScreen ObsSpec Recv RowPaint Redraw Cursor.
Open Scope N_scope.

(* ------------------------------------------------------------------ *)
(* hypotheses on the source screen                                      *)
(* ------------------------------------------------------------------ *)
(* S satisfies the structural invariant; vr are its visible rows; every visible row has the width
   of the screen (no mixed-width view), is well paired, cell-wise well formed (cell_wf + the
   capacity clause cell_cap), carries colours in range, and is flagged wrapped only if its last
   column is occupied; the pen's colours are in range *)
Record source_ok (S : screen) (vr : list row) : Prop := mkSourceOk {
  so_ok : screen_ok S;
  so_vis : visible_rows (cur S) = Ok vr;
  so_rows : vrows_ok (gcols (cur S)) vr;
  so_pen : pen_ok (pen S) }.

(* what the receiver must reproduce: everything observable except the wrap flag of the last row *)
Record same_obs_minus (S R' : screen) (vr : list row) : Prop := mkSameObs {
  sm_rows : grows (g R') = grows (cur S);
  sm_cols : gcols (g R') = gcols (cur S);
  sm_cells : forall i, i < grows (cur S) -> exists ri src,
      get (live (g R')) i = Some ri /\ get vr i = Some src /\ cells ri = cells src /\
      (i + 1 < grows (cur S) -> wrapped ri = wrapped src) /\
      (i + 1 = grows (cur S) -> wrapped ri = false);
  sm_prow : prow (g R') = prow (cur S);
  sm_pcol : pcol (g R') = pcol (cur S);
  sm_hide : hide R' = hide S;
  sm_pen : pen R' = pen S }.

Definition same_modes (S R' : screen) : Prop :=
  keypad R' = keypad S /\ appcur R' = appcur S /\ paste R' = paste S /\ mmode R' = mmode S /\ menc R' = menc S.

(* ------------------------------------------------------------------ *)
(* the grid part                                                        *)
(* ------------------------------------------------------------------ *)
Lemma Jinv_blank R vr : Jinv R vr 0 (blank_rows (grows (g R)) (gcols (g R))) 0 0.
Proof.
  split.
  - intros i' Hi'. lia.
  - intros i' Hi'. unfold blank_rows. rewrite get_repeatN. destruct (N.ltb_spec i' (grows (g R))); [reflexivity|lia].
  - intros src Hi. lia.
Qed.

Lemma Jinv_agree R vr l r c : Jinv R vr (grows (g R)) l r c -> rows_agree l vr (grows (g R)).
Proof.
  intros [Hd _ _] i Hi. destruct (Hd i Hi) as (ri & src & G1 & G2 & Ec & Ew).
  exists ri, src. split; [exact G1|]. split; [exact G2|]. split; [exact Ec|].
  rewrite Ew. destruct (i + 1 <? grows (g R)); [auto|discriminate].
Qed.

Theorem contents_formatted_plays S R vr ts :
  source_ok S vr -> canvas R -> grows (g R) = grows (cur S) -> gcols (g R) = gcols (cur S) ->
  contents_formatted_t S = Ok ts ->
  exists R', plays R ts R' /\ canvas R' /\ same_obs_minus S R' vr /\
             keypad R' = keypad R /\ appcur R' = appcur R /\ paste R' = paste R /\
             mmode R' = mmode R /\ menc R' = menc R.
Proof.
  intros [Ok Hvis Hrows Ppen] CR Er Ec Ets.
  pose proof (cur_ok _ Ok) as Gk. destruct Gk as (K & Hpr & Hpc).
  destruct (visible_rows_ok (cur S) (cur_ok _ Ok)) as (vr' & Hv' & Lvr & _). rewrite Hvis in Hv'. inv Hv'.
  destruct (clear_lemma R (hide S) CR) as (P0 & C0).
  set (R1 := with_hide R (hide S)) in *.
  assert (canvas R1) as CR1 by (apply canvas_with_hide; exact CR).
  change (grows (g R)) with (grows (g R1)) in *. change (gcols (g R)) with (gcols (g R1)) in *.
  rewrite <- Ec in Hrows. rewrite <- Er in Lvr.
  destruct (rows_loop_paints R1 vr' CR1 Hrows Lvr vr' 0 false (blank_rows (grows (g R1)) (gcols (g R1))) 0 0 dflt [])
    as (ts1 & r1 & c1 & a1 & l1 & E1 & P1 & C1 & Pa1 & HJ); auto.
  { exact pen_ok_dflt. } { apply Jinv_blank. }
  cbn [app] in E1.
  destruct (cursor_fixup R1 l1 r1 c1 a1 (cur S) vr' C1 Pa1 (Jinv_agree _ _ _ _ _ HJ) Hrows Lvr Hvis)
    as (ts2 & R2 & E2 & P2 & C2 & SB); try lia.
  unfold contents_formatted_t, grid_contents_formatted in Ets.
  rewrite Hvis in Ets. cbn [bind] in Ets. rewrite <- Ec in Ets. rewrite E1 in Ets. cbn [bind] in Ets.
  rewrite E2 in Ets. cbn [bind] in Ets. inv Ets.
  exists (rcv R2 l1 (prow (cur S)) (pcol (cur S)) (pen S)).
  split.
  { apply (plays_app R (t_hide_cursor (hide S) :: t_clear_attrs :: t_clear_screen)
                     (rcv R1 (blank_rows (grows (g R1)) (gcols (g R1))) 0 0 dflt)
                     ((ts1 ++ ts2) ++ t_attrs_diff (pen S) a1)); [exact P0|].
    eapply plays_app; [eapply plays_app; [exact P1|exact P2]|].
    now apply plays_attrs_diff. }
  split; [apply cv_canvas_rcv; exact C2|].
  destruct SB as [SBc SBr SBcl SBh SBk SBa SBp SBm SBe].
  split; [|cbn [rcv with_pen with_g keypad appcur paste mmode menc]; rewrite SBk, SBa, SBp, SBm, SBe; repeat split; reflexivity].
  split; cbn [rcv with_pen with_g g live grows gcols prow pcol with_pos with_live hide pen]; try congruence; try reflexivity.
  - intros i Hi. rewrite <- Er in Hi. change (grows (g R)) with (grows (g R1)) in Hi.
    destruct (J_done _ _ _ _ _ _ HJ i Hi) as (ri & src & G1 & G2 & Ecs & Ew).
    exists ri, src. split; [exact G1|]. split; [exact G2|]. split; [exact Ecs|].
    rewrite Ew. rewrite <- Er. change (grows (g R)) with (grows (g R1)).
    split; intros Hlt.
    + destruct (N.ltb_spec (i + 1) (grows (g R1))); [reflexivity|lia].
    + destruct (N.ltb_spec (i + 1) (grows (g R1))); [lia|reflexivity].
  - rewrite SBh. reflexivity.
Qed.

(* ------------------------------------------------------------------ *)
(* input modes                                                          *)
(* ------------------------------------------------------------------ *)
Definition with_modes (R S : screen) : screen :=
  with_menc (with_mmode (with_paste (with_appcur (with_keypad R (keypad S)) (appcur S)) (paste S)) (mmode S)) (menc S).

Lemma canvas_with_modes R S : canvas R -> canvas (with_modes R S).
Proof.
  intros (O & W & rest). split; [|split; [|exact rest]].
  - eapply ok_same_grids; [exact O| | |]; reflexivity.
  - eapply screen_wf_same; [| |exact W]; reflexivity.
Qed.

Lemma plays_input_modes R S : mmode R = MNone -> menc R = EDefault ->
  plays R (input_mode_formatted_t S) (with_modes R S).
Proof.
  intros Hm He. unfold input_mode_formatted_t, with_modes.
  eapply plays_cons; [eapply plays_one_act; [reflexivity|]|].
  { instantiate (1 := with_keypad R (keypad S)). destruct (keypad S); reflexivity. }
  eapply plays_cons; [eapply plays_one_act; [reflexivity|]|].
  { instantiate (1 := with_appcur (with_keypad R (keypad S)) (appcur S)). destruct (appcur S); reflexivity. }
  eapply plays_cons; [eapply plays_one_act; [reflexivity|]|].
  { instantiate (1 := with_paste (with_appcur (with_keypad R (keypad S)) (appcur S)) (paste S)).
    destruct (paste S); reflexivity. }
  set (R3 := with_paste (with_appcur (with_keypad R (keypad S)) (appcur S)) (paste S)).
  assert (mmode R3 = MNone) as Hm3 by exact Hm. assert (menc R3 = EDefault) as He3 by exact He.
  eapply plays_app.
  - instantiate (1 := with_mmode R3 (mmode S)).
    destruct (mmode S) eqn:E; cbn [t_mouse_mode mouse_mode_eqb];
      try (eapply plays_one_act; [reflexivity|reflexivity]).
    replace (with_mmode R3 MNone) with R3; [apply plays_nil|].
    destruct R3; cbn in *; subst; reflexivity.
  - set (R4 := with_mmode R3 (mmode S)). assert (menc R4 = EDefault) as He4 by exact He3.
    destruct (menc S) eqn:E; cbn [t_mouse_enc mouse_enc_eqb];
      try (eapply plays_one_act; [reflexivity|reflexivity]).
    replace (with_menc R4 EDefault) with R4; [apply plays_nil|].
    destruct R4; cbn in *; subst; reflexivity.
Qed.

(* ------------------------------------------------------------------ *)
(* C01                                                                  *)
(* ------------------------------------------------------------------ *)
Theorem C01_dirty S R vr ts :
  source_ok S vr -> canvas R -> grows (g R) = grows (cur S) -> gcols (g R) = gcols (cur S) ->
  contents_formatted_t S = Ok ts ->
  exists R', play false R ts = Ok (R', []) /\ canvas R' /\ same_obs_minus S R' vr /\
             keypad R' = keypad R /\ appcur R' = appcur R /\ paste R' = paste R /\
             mmode R' = mmode R /\ menc R' = menc R.
Proof. exact (contents_formatted_plays S R vr ts). Qed.

Theorem C01_fresh S R vr ts :
  source_ok S vr -> canvas R -> grows (g R) = grows (cur S) -> gcols (g R) = gcols (cur S) ->
  mmode R = MNone -> menc R = EDefault ->
  state_formatted_t S = Ok ts ->
  exists R', play false R ts = Ok (R', []) /\ canvas R' /\ same_obs_minus S R' vr /\ same_modes S R'.
Proof.
  intros Hs CR Er Ec Hm He Ets. unfold state_formatted_t in Ets. bind_inv Ets. inv Ets.
  destruct (contents_formatted_plays S R vr v Hs CR Er Ec E) as (R1 & P1 & C1 & [A1 A2 A3 A4 A5 A6 A7] & M1 & M2 & M3 & M4 & M5).
  exists (with_modes R1 S). split; [|split; [|split]].
  - eapply plays_app; [exact P1|]. apply plays_input_modes; congruence.
  - now apply canvas_with_modes.
  - split; auto.
  - repeat split; reflexivity.
Qed.

(* ------------------------------------------------------------------ *)
(* the hypotheses on the source, from the proved invariants             *)
(* ------------------------------------------------------------------ *)
Lemma visible_rows_Forall (P : row -> Prop) x vr : visible_rows x = Ok vr ->
  Forall P (live x) -> Forall P (sb x) -> Forall P vr.
Proof.
  unfold visible_rows. intros E Hl Hs. bind_inv E. inv E.
  apply Forall_app; split; [apply Forall_firstnN, Forall_skipnN, Hs|apply Forall_firstnN, Hl].
Qed.

Lemma Forall_and' {A} (P Q : A -> Prop) l : Forall P l -> Forall Q l -> Forall (fun x => P x /\ Q x) l.
Proof. intros HP HQ. induction HP; inv HQ; constructor; auto. Qed.

(* screen_cap / screen_attrs_ok, on the visible rows *)
Definition rows_cap (vr : list row) : Prop := Forall (fun r => Forall cell_cap (cells r)) vr.
Definition rows_attrs_ok (vr : list row) : Prop := Forall (fun r => Forall (fun c => pen_ok (cattrs c)) (cells r)) vr.
Definition rows_width (cols : N) (vr : list row) : Prop := Forall (fun r => len (cells r) = cols) vr.

Theorem source_ok_of_inv S vr :
  screen_ok S -> screen_wf S -> screen_wrapinv S -> pen_ok (pen S) ->
  visible_rows (cur S) = Ok vr -> rows_width (gcols (cur S)) vr -> rows_cap vr -> rows_attrs_ok vr ->
  source_ok S vr.
Proof.
  intros Ok Wf Wi Pp Hv Hw Hc Ha. split; auto. split.
  - destruct (visible_rows_ok (cur S) (cur_ok _ Ok)) as (vr' & Hv' & _ & Hvr). rewrite Hv in Hv'. inv Hv'.
    pose proof (visible_rows_Forall row_wf _ _ Hv (proj1 (cur_wf _ Wf)) (proj2 (cur_wf _ Wf))) as Hwf.
    clear Hv. induction Hw as [|r rest Hr _ IH]; [constructor|].
    inv Hc. inv Ha. inv Hvr. inv Hwf. constructor; [|apply IH; auto].
    split; auto. apply H5.
  - exact (visible_rows_Forall row_wrapinv _ _ Hv (proj1 (cur_wrapinv _ Wi)) (proj2 (cur_wrapinv _ Wi))).
Qed.

(* at scrollback offset 0 the width condition is automatic *)
Lemma rows_width_off0 S : screen_ok S -> sb_off (cur S) = 0 -> rows_width (gcols (cur S)) (live (cur S)).
Proof.
  intros Ok _. destruct (cur_ok _ Ok) as (K & _). eapply Forall_impl'; [|apply (gk_rowsok _ K)].
  intros r [Hl _]. exact Hl.
Qed.

(* ------------------------------------------------------------------ *)
(* C01_idem: the receiver re-emits the same tokens                      *)
(* ------------------------------------------------------------------ *)
Theorem same_obs_obs S R' : screen_ok S -> canvas R' -> sb_off (cur S) = 0 ->
  same_obs_minus S R' (live (cur S)) -> same_modes S R' ->
  (forall src, get (live (cur S)) (grows (cur S) - 1) = Some src -> wrapped src = false) ->
  obs R' = obs S.
Proof.
  intros OkS CR Off [A1 A2 A3 A4 A5 A6 A7] (M1 & M2 & M3 & M4 & M5) Hlast.
  rewrite (obs_off0 S Off). rewrite obs_off0 by (rewrite (canvas_cur _ CR); apply CR).
  rewrite (canvas_cur _ CR), A1, A2, A4, A5, A6, A7, M1, M2, M3, M4, M5.
  assert (live (g R') = live (cur S)) as ->; [|reflexivity].
  destruct (canvas_rows_good _ CR) as (Ll & _). rewrite A1 in Ll.
  destruct (cur_ok _ OkS) as (K & _). pose proof (gk_live _ K) as LS.
  apply list_ext_get. intros i. destruct (N.lt_ge_cases i (grows (cur S))) as [Hi|Hi].
  - destruct (A3 i Hi) as (ri & src & G1 & G2 & Ec & W1 & W2). rewrite G1, G2. f_equal.
    apply row_ext; [exact Ec|].
    destruct (N.eq_dec (i + 1) (grows (cur S))) as [E|E].
    + rewrite (W2 E). symmetry. apply Hlast. replace (grows (cur S) - 1) with i by lia. exact G2.
    + apply W1. lia.
  - assert (get (live (g R')) i = None) as -> by (apply get_none_ge; lia).
    symmetry. apply get_none_ge. lia.
Qed.

Theorem C01_idem S R ts :
  source_ok S (live (cur S)) -> sb_off (cur S) = 0 ->
  (forall src, get (live (cur S)) (grows (cur S) - 1) = Some src -> wrapped src = false) ->
  canvas R -> grows (g R) = grows (cur S) -> gcols (g R) = gcols (cur S) ->
  mmode R = MNone -> menc R = EDefault ->
  state_formatted_t S = Ok ts ->
  exists R', play false R ts = Ok (R', []) /\ canvas R' /\ obs R' = obs S /\ state_formatted_t R' = Ok ts.
Proof.
  intros Hs Off Hlast CR Er Ec Hm He Ets.
  destruct (C01_fresh S R _ ts Hs CR Er Ec Hm He Ets) as (R' & P & C' & So & Sm).
  pose proof (same_obs_obs S R' (so_ok _ _ Hs) C' Off So Sm Hlast) as Eo.
  exists R'. split; [exact P|]. split; [exact C'|]. split; [exact Eo|].
  destruct (obs_ok S (so_ok _ _ Hs)) as (o & Ho & _).
  rewrite <- Ets. eapply state_formatted_obs; [|exact Ho]. now rewrite Eo.
Qed.
