(* ResizeExamples.v — non-vacuity examples for the resize specification (C16), on grids built by
   the real byte-level parser (Parser.process). *)
Require Import Tac ListN Utf8 Attrs Cell Row Grid Screen Vte Perform Parser ResizeSpec.
Open Scope N_scope.

Definition parser_after (rows cols : N) (rz : bool) (bs : list N) : option parser :=
  match parser_new rows cols 0 rz with
  | Ok p => match process p bs with Ok q => Some q | Panic _ => None end
  | Panic _ => None
  end.
Definition grid_after (rows cols : N) (bs : list N) : option grid :=
  option_map (fun q => g (scr q)) (parser_after rows cols false bs).
Definition resized (rows cols : N) (bs : list N) (r c : N) : option grid :=
  match grid_after rows cols bs with
  | Some x => match grid_set_size x r c with Ok y => Some y | Panic _ => None end
  | None => None
  end.

(* text, wide flag, continuation flag, intensity of a cell; cells and wrap flag of each row *)
Definition view_cell (c : cell) := (ctext c, cwide c, ccont c, inten (cattrs c)).
Definition view (x : grid) := map (fun rw => (map view_cell (cells rw), wrapped rw)) (live x).

Definition bl := (@nil N, false, false, INormal).
Definition ch (c : N) := ([c], false, false, INormal).

(* "ab" ESC[1m U+4E2D ESC[m "cdefg" on a 3x6 screen: a bold wide character in columns 2-3,
   the first row is full and wrapped, "efg" continues on the second row *)
Definition bs1 : list N :=
  [97; 98] ++ [27; 91; 49; 109] ++ [228; 184; 173] ++ [27; 91; 109] ++ [99; 100; 101; 102; 103].

Example ex_before : option_map view (grid_after 3 6 bs1) = Some
  [([ch 97; ch 98; ([20013], true, false, IBold); ([], false, true, INormal); ch 99; ch 100], true);
   ([ch 101; ch 102; ch 103; bl; bl; bl], false);
   ([bl; bl; bl; bl; bl; bl], false)].
Proof. vm_compute. reflexivity. Qed.

(* shrinking THROUGH the wide character (new width 3: its first half would be the last column):
   the half that remains is blanked and keeps its own attributes (bold) *)
Example ex_shrink_through_wide : option_map view (resized 3 6 bs1 3 3) = Some
  [([ch 97; ch 98; ([], false, false, IBold)], false);
   ([ch 101; ch 102; ch 103], false);
   ([bl; bl; bl], false)].
Proof. vm_compute. reflexivity. Qed.

(* shrinking just after the wide character (new width 4): both halves survive *)
Example ex_shrink_after_wide : option_map view (resized 3 6 bs1 3 4) = Some
  [([ch 97; ch 98; ([20013], true, false, IBold); ([], false, true, INormal)], false);
   ([ch 101; ch 102; ch 103; bl], false);
   ([bl; bl; bl; bl], false)].
Proof. vm_compute. reflexivity. Qed.

(* shrinking to width 2 (the wide character is entirely outside) and to one row *)
Example ex_shrink_small : option_map view (resized 3 6 bs1 1 2) = Some [([ch 97; ch 98], false)].
Proof. vm_compute. reflexivity. Qed.

(* growing in both directions: old cells kept, new cells default blanks *)
Example ex_grow : option_map view (resized 3 6 bs1 4 8) = Some
  [([ch 97; ch 98; ([20013], true, false, IBold); ([], false, true, INormal); ch 99; ch 100; bl; bl], false);
   ([ch 101; ch 102; ch 103; bl; bl; bl; bl; bl], false);
   ([bl; bl; bl; bl; bl; bl; bl; bl], false);
   ([bl; bl; bl; bl; bl; bl; bl; bl], false)].
Proof. vm_compute. reflexivity. Qed.

(* NOTABLE: changing only the height — or nothing at all — also clears the wrap flag of the
   full first row (Row::resize clears it unconditionally) *)
Example ex_height_only_unwraps :
  option_map (fun y => map wrapped (live y)) (grid_after 3 6 bs1) = Some [true; false; false] /\
  option_map (fun y => map wrapped (live y)) (resized 3 6 bs1 4 6) = Some [false; false; false; false] /\
  option_map (fun y => map wrapped (live y)) (resized 3 6 bs1 3 6) = Some [false; false; false].
Proof. vm_compute. repeat split. Qed.

(* cursor and saved cursor.  After bs1 the cursor is at (1,3).  ESC 7 saves it. *)
Definition curs (y : grid) := (prow y, pcol y, sprow y, spcol y).
Example ex_cursor_clamped :
  option_map curs (grid_after 3 6 (bs1 ++ [27; 55])) = Some (1, 3, 1, 3) /\
  option_map curs (resized 3 6 (bs1 ++ [27; 55]) 1 2) = Some (0, 1, 0, 1) /\
  option_map curs (resized 3 6 (bs1 ++ [27; 55]) 5 9) = Some (1, 3, 1, 3).
Proof. vm_compute. repeat split. Qed.

(* a pending-wrap cursor (pcol = cols after writing the last column) is pulled in even when the
   size does not change *)
Example ex_pending_wrap :
  option_map curs (grid_after 3 6 [97; 98; 99; 100; 101; 102]) = Some (0, 6, 0, 0) /\
  option_map curs (resized 3 6 [97; 98; 99; 100; 101; 102] 3 6) = Some (0, 5, 0, 0).
Proof. vm_compute. repeat split. Qed.

(* scroll region cases on a 10-row screen; ESC[t;br sets rows t..b (1-based) *)
Definition reg (y : grid) := (top y, bot y).
Definition decstbm_2_5 : list N := [27; 91; 50; 59; 53; 114].     (* rows 1..4 (0-based) *)
Definition decstbm_4_10 : list N := [27; 91; 52; 59; 49; 48; 114]. (* rows 3..9: bottom-anchored *)

Example ex_region_full : option_map reg (resized 10 6 [] 4 6) = Some (0, 3) /\
                         option_map reg (resized 10 6 [] 20 6) = Some (0, 19).
Proof. vm_compute. repeat split. Qed.

Example ex_region_proper :
  option_map reg (grid_after 10 6 decstbm_2_5) = Some (1, 4) /\
  option_map reg (resized 10 6 decstbm_2_5 20 6) = Some (1, 4) /\   (* still fits: kept *)
  option_map reg (resized 10 6 decstbm_2_5 5 6) = Some (1, 4) /\    (* fits exactly: kept (not bottom-anchored any more) *)
  option_map reg (resized 10 6 decstbm_2_5 4 6) = Some (1, 3) /\    (* bottom clamped *)
  option_map reg (resized 10 6 decstbm_2_5 3 6) = Some (1, 2) /\    (* bottom clamped, two lines left *)
  option_map reg (resized 10 6 decstbm_2_5 2 6) = Some (0, 1) /\    (* would be a single line: reset *)
  option_map reg (resized 10 6 decstbm_2_5 1 6) = Some (0, 0).      (* would be empty: reset *)
Proof. vm_compute. repeat split. Qed.

Example ex_region_bottom_anchored :
  option_map reg (grid_after 10 6 decstbm_4_10) = Some (3, 9) /\
  option_map reg (resized 10 6 decstbm_4_10 20 6) = Some (3, 19) /\ (* the bottom follows the new last line *)
  option_map reg (resized 10 6 decstbm_4_10 5 6) = Some (3, 4) /\
  option_map reg (resized 10 6 decstbm_4_10 4 6) = Some (0, 3).     (* single line: reset *)
Proof. vm_compute. repeat split. Qed.

(* the resize callback, through the byte parser: ESC[8;2;3t *)
Definition csi_8_2_3_t : list N := [27; 91; 56; 59; 50; 59; 51; 116].
Definition csi_8_t : list N := [27; 91; 56; 116].
Definition csi_8_600_3_t : list N := [27; 91; 56; 59; 54; 48; 48; 59; 51; 116].
Definition sizes (q : parser) := (grows (g (scr q)), gcols (g (scr q)), grows (alt (scr q)), gcols (alt (scr q)), log q).

Example ex_callback :
  option_map sizes (parser_after 3 6 true (bs1 ++ csi_8_2_3_t)) = Some (2, 3, 2, 3, [EResize 2 3]) /\
  option_map sizes (parser_after 3 6 false (bs1 ++ csi_8_2_3_t)) = Some (3, 6, 3, 6, [EResize 2 3]) /\
  option_map sizes (parser_after 3 6 true (bs1 ++ csi_8_t)) = Some (3, 6, 3, 6, [EResize 3 6]) /\
  option_map sizes (parser_after 3 6 true (bs1 ++ csi_8_600_3_t)) = Some (3, 6, 3, 6, [EResize 600 3]) /\
  option_map (fun q => view (g (scr q))) (parser_after 3 6 true (bs1 ++ csi_8_2_3_t)) = Some
    [([ch 97; ch 98; ([], false, false, IBold)], false); ([ch 101; ch 102; ch 103], false)].
Proof. vm_compute. repeat split. Qed.

(* the never-used alternate grid is allocated (blank) by a resize *)
Example ex_alt_allocated :
  option_map (fun q => len (live (alt (scr q)))) (parser_after 3 6 true []) = Some 0 /\
  option_map (fun q => view (alt (scr q))) (parser_after 3 6 true csi_8_2_3_t) = Some
    [([bl; bl; bl], false); ([bl; bl; bl], false)].
Proof. vm_compute. repeat split. Qed.
