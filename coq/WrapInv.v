(* WrapInv.v — "a wrapped row's last column is occupied": a row whose [wrapped]
   flag is set has, in its last column, a cell with contents or a wide
   continuation cell.  Needed by the redraw property (C01).  The invariant is
   preserved by every operation of Row.v / Grid.v and by the text path of
   Screen.v (partial-correctness statements, as in WfGrid.v); WrapInvScreen.v
   lifts it to screens, actions, the parser API and histories. *)
Require Import Tac ListN Utf8 Width Attrs Cell Row Grid Screen.
Require Import RowInv GridInv TextInv CellWf WfGrid SbSpec.
Open Scope N_scope.

(* ------------------------------------------------------------------ *)
(* definitions *)

Definition occupied (c : cell) : Prop := has_contents c = true \/ ccont c = true.

Definition last_occupied (cs : list cell) : Prop :=
  exists c, get cs (len cs - 1) = Some c /\ (has_contents c = true \/ ccont c = true).
Definition row_wrapinv (r : row) : Prop := wrapped r = true -> last_occupied (cells r).
Definition grid_wrapinv (x : grid) : Prop := Forall row_wrapinv (live x) /\ Forall row_wrapinv (sb x).
Definition screen_wrapinv (s : screen) : Prop := grid_wrapinv (g s) /\ grid_wrapinv (alt s).

(* ------------------------------------------------------------------ *)
(* cells *)

Lemma cell_set_occupied ch a c : occupied (cell_set ch a c).
Proof. left. reflexivity. Qed.

Lemma cont_of_clear_occupied a c : occupied (cell_set_cont true (cell_clear a c)).
Proof. right. reflexivity. Qed.

(* appending a combining character never empties a cell and keeps its flags *)
Lemma cell_append_occupied ch c : occupied c -> occupied (cell_append ch c).
Proof.
  intros H. unfold cell_append.
  destruct (18 <=? cell_len c); [exact H|].
  destruct (cell_len c =? 0); [left; reflexivity|].
  left. unfold has_contents. cbn [ctext]. destruct (ctext c); reflexivity.
Qed.

(* ------------------------------------------------------------------ *)
(* rows *)

Lemma unflagged_wrapinv r : wrapped r = false -> row_wrapinv r.
Proof. intros E W. congruence. Qed.

Lemma row_new_wrapinv cols : row_wrapinv (row_new cols).
Proof. now apply unflagged_wrapinv. Qed.

Lemma row_clear_wrapinv a r : row_wrapinv (row_clear a r).
Proof. now apply unflagged_wrapinv. Qed.

Lemma row_unwrap_wrapinv r : row_wrapinv (row_wrap false r).
Proof. now apply unflagged_wrapinv. Qed.

(* setting the flag needs the occupancy of the last cell *)
Lemma row_wrap_wrapinv b r : (b = true -> last_occupied (cells r)) -> row_wrapinv (row_wrap b r).
Proof. intros H W. cbn [row_wrap wrapped cells] in *. now apply H. Qed.

Lemma row_insert_wrapinv r i c r' : row_insert r i c = Ok r' -> row_wrapinv r'.
Proof. unfold row_insert. intros E. binv E as cs Ecs. inv E. now apply unflagged_wrapinv. Qed.

Lemma row_remove_wrapinv r i r' : row_remove r i = Ok r' -> row_wrapinv r'.
Proof.
  unfold row_remove. intros E. binv E as r1 E1. binv E as p Ep. destruct p as [x cs]. inv E.
  now apply unflagged_wrapinv.
Qed.

Lemma row_truncate_wrapinv r n r' : row_truncate r n = Ok r' -> row_wrapinv r'.
Proof.
  unfold row_truncate. intros E. binv E as j Ej. binv E as last Elast. inv E. now apply unflagged_wrapinv.
Qed.

Lemma row_resize_wrapinv r n c : row_wrapinv (row_resize r n c).
Proof. now apply unflagged_wrapinv. Qed.

(* overwriting one cell of a row: only the last column matters *)
Lemma row_set_cell_wrapinv r i cl x : row_wrapinv r -> get (cells r) i = Some cl ->
  (wrapped r = true -> i = len (cells r) - 1 -> occupied cl -> occupied x) ->
  row_wrapinv (row_set_cell r i x).
Proof.
  intros H G Hx W. cbn [row_set_cell wrapped cells] in *.
  destruct (H W) as (c0 & G0 & O0).
  pose proof (get_some_lt _ _ _ G) as Li.
  unfold last_occupied. rewrite len_set_at, get_set_at.
  destruct (N.eqb_spec (len (cells r) - 1) i) as [Ei|Ni].
  - destruct (N.ltb_spec i (len (cells r))); [|lia].
    exists x. split; [reflexivity|]. apply Hx; [exact W|lia|].
    rewrite Ei, G in G0. inv G0. exact O0.
  - exists c0. split; [exact G0|exact O0].
Qed.

(* Row::erase clears the flag whenever it blanks the last column: directly
   (i = cols-1) or as the continuation half of a wide cell at cols-2.  No
   pairing invariant is needed: an unpaired wide cell in the last column makes
   clear_wide panic. *)
Lemma row_erase_wrapinv r i a r' : row_erase r i a = Ok r' -> row_wrapinv r -> row_wrapinv r'.
Proof.
  unfold row_erase. intros E H. binv E as c Ec. apply idx_inv in Ec.
  binv E as r1 E1. binv E as c1 Ec1. apply idx_inv in Ec1. binv E as lim Elim. inv E.
  pose proof (get_some_lt _ _ _ Ec) as Li.
  destruct (N.eqb_spec i lim) as [Ei|Ni]; [apply row_unwrap_wrapinv|].
  unfold row_cols in Elim. cbn [row_set_cell cells] in Elim. rewrite len_set_at in Elim.
  unfold clear_wide in E1. rewrite (idx_get _ _ _ Ec) in E1. cbn [bind] in E1.
  destruct (cwide c) eqn:Ew.
  - (* wide: the continuation half i+1 is blanked as well *)
    binv E1 as j Ej. binv E1 as o Eo. inv E1. apply idx_inv in Eo.
    unfold add16 in Ej. destruct (i + 1 <=? U16MAX); inv Ej.
    pose proof (get_some_lt _ _ _ Eo) as Lj.
    cbn [row_set_cell cells] in Elim, Ec1. rewrite len_set_at in Elim.
    unfold sub16 in Elim. destruct (N.leb_spec 2 (len (cells r))); inv Elim.
    eapply row_set_cell_wrapinv; [|exact Ec1|].
    + eapply row_set_cell_wrapinv; [exact H|exact Eo|]. intros _ Ej. exfalso. lia.
    + intros _ Ej. exfalso. cbn [row_set_cell cells] in Ej. rewrite len_set_at in Ej. lia.
  - unfold sub16 in Elim.
    destruct (ccont c) eqn:Ecc.
    + (* continuation: the first half i-1 is blanked as well *)
      binv E1 as j Ej. binv E1 as o Eo. inv E1. apply idx_inv in Eo.
      unfold sub16 in Ej. destruct (N.leb_spec 1 i); inv Ej.
      cbn [row_set_cell cells] in Elim, Ec1. rewrite len_set_at in Elim.
      destruct (N.leb_spec 1 (len (cells r))); inv Elim.
      eapply row_set_cell_wrapinv; [|exact Ec1|].
      * eapply row_set_cell_wrapinv; [exact H|exact Eo|]. intros _ Ej. exfalso. lia.
      * intros _ Ej. exfalso. cbn [row_set_cell cells] in Ej. rewrite len_set_at in Ej. lia.
    + inv E1. destruct (N.leb_spec 1 (len (cells r1))); inv Elim.
      eapply row_set_cell_wrapinv; [exact H|exact Ec1|]. intros _ Ej. exfalso. lia.
Qed.

Lemma erase_range_wrapinv n lo a rw rw' :
  for_range n lo (fun col r => row_erase r col a) rw = Ok rw' -> row_wrapinv rw -> row_wrapinv rw'.
Proof.
  intros E H. eapply (for_range_inv row_wrapinv); eauto.
  cbv beta. intros i x y Ey Hx. eapply row_erase_wrapinv; eauto.
Qed.

Lemma ins_step_wrapinv wide p r r' : ins_step wide p r = Ok r' -> row_wrapinv r'.
Proof.
  unfold ins_step. intros E. binv E as r1 E1. binv E as r2 E2.
  unfold row_insert in E2. binv E2 as cs Ecs. inv E2.
  destruct wide; [|inv E; now apply unflagged_wrapinv].
  unfold row_upd in E. binv E as c Ec. inv E. now apply unflagged_wrapinv.
Qed.

(* ------------------------------------------------------------------ *)
(* grids: operations that leave the rows alone *)

Lemma same_cells_wrapinv x y : same_cells x y -> grid_wrapinv x -> grid_wrapinv y.
Proof. intros [E1 E2] [H1 H2]. unfold grid_wrapinv. rewrite E1, E2. split; assumption. Qed.

Lemma grid_set_pos_wrapinv x r c y : grid_set_pos x r c = Ok y -> grid_wrapinv x -> grid_wrapinv y.
Proof. intros E. apply same_cells_wrapinv. eapply grid_set_pos_cells; eauto. Qed.
Lemma save_cursor_wrapinv x : grid_wrapinv x -> grid_wrapinv (save_cursor x).
Proof. apply same_cells_wrapinv, save_cursor_cells. Qed.
Lemma restore_cursor_wrapinv x : grid_wrapinv x -> grid_wrapinv (restore_cursor x).
Proof. apply same_cells_wrapinv, restore_cursor_cells. Qed.
Lemma set_scroll_region_wrapinv x t b y : set_scroll_region x t b = Ok y -> grid_wrapinv x -> grid_wrapinv y.
Proof. intros E. apply same_cells_wrapinv. eapply set_scroll_region_cells; eauto. Qed.
Lemma set_origin_mode_wrapinv x m y : set_origin_mode x m = Ok y -> grid_wrapinv x -> grid_wrapinv y.
Proof. intros E. apply same_cells_wrapinv. eapply set_origin_mode_cells; eauto. Qed.
Lemma row_inc_clamp_wrapinv x n y : row_inc_clamp x n = Ok y -> grid_wrapinv x -> grid_wrapinv y.
Proof. intros E. apply same_cells_wrapinv. eapply row_inc_clamp_cells; eauto. Qed.
Lemma row_dec_clamp_wrapinv x n : grid_wrapinv x -> grid_wrapinv (row_dec_clamp x n).
Proof. apply same_cells_wrapinv, row_dec_clamp_cells. Qed.
Lemma row_set_wrapinv x i y : row_set x i = Ok y -> grid_wrapinv x -> grid_wrapinv y.
Proof. intros E. apply same_cells_wrapinv. eapply row_set_cells; eauto. Qed.
Lemma col_inc_wrapinv x n : grid_wrapinv x -> grid_wrapinv (col_inc x n).
Proof. apply same_cells_wrapinv, col_inc_cells. Qed.
Lemma col_dec_wrapinv x n : grid_wrapinv x -> grid_wrapinv (col_dec x n).
Proof. apply same_cells_wrapinv, col_dec_cells. Qed.
Lemma col_inc_clamp_wrapinv x n y : col_inc_clamp x n = Ok y -> grid_wrapinv x -> grid_wrapinv y.
Proof. intros E. apply same_cells_wrapinv. eapply col_inc_clamp_cells; eauto. Qed.
Lemma col_tab_wrapinv x y : col_tab x = Ok y -> grid_wrapinv x -> grid_wrapinv y.
Proof. intros E. apply same_cells_wrapinv. eapply col_tab_cells; eauto. Qed.
Lemma col_set_wrapinv x i y : col_set x i = Ok y -> grid_wrapinv x -> grid_wrapinv y.
Proof. intros E. apply same_cells_wrapinv. eapply col_set_cells; eauto. Qed.
Lemma grid_set_scrollback_wrapinv x k : grid_wrapinv x -> grid_wrapinv (grid_set_scrollback x k).
Proof. apply same_cells_wrapinv, grid_set_scrollback_cells. Qed.
Lemma row_clamp_wrapinv x y : row_clamp x = Ok y -> grid_wrapinv x -> grid_wrapinv y.
Proof. intros E. apply same_cells_wrapinv. eapply row_clamp_cells; eauto. Qed.
Lemma col_clamp_wrapinv x y : col_clamp x = Ok y -> grid_wrapinv x -> grid_wrapinv y.
Proof. intros E. apply same_cells_wrapinv. eapply col_clamp_cells; eauto. Qed.

(* ------------------------------------------------------------------ *)
(* grids: operations on the rows *)

Lemma grid_wrapinv_with_live x l : grid_wrapinv x -> Forall row_wrapinv l -> grid_wrapinv (with_live x l).
Proof. intros [_ H2] Hl. split; cbn [with_live live sb]; assumption. Qed.

Lemma grid_wrapinv_live x : grid_wrapinv x -> Forall row_wrapinv (live x).
Proof. intros [H _]; exact H. Qed.

Lemma grid_new_wrapinv rows cols cap x : grid_new rows cols cap = Ok x -> grid_wrapinv x.
Proof. unfold grid_new. intros E. binv E as b Eb. inv E. split; constructor. Qed.

Lemma allocate_rows_wrapinv x : grid_wrapinv x -> grid_wrapinv (allocate_rows x).
Proof.
  intros H. unfold allocate_rows. destruct (live x); [|exact H].
  apply grid_wrapinv_with_live; [exact H|]. apply Forall_repeatN, row_new_wrapinv.
Qed.

Lemma grid_clear_wrapinv x y : grid_clear x = Ok y -> grid_wrapinv x -> grid_wrapinv y.
Proof.
  unfold grid_clear. intros E [H1 H2]. binv E as b Eb. inv E. split; cbn [live sb]; [|exact H2].
  apply Forall_map'. intros r _. apply row_clear_wrapinv.
Qed.

Lemma upd_row_wrapinv x r f y : upd_row x r f = Ok y -> grid_wrapinv x ->
  (forall rw rw', get (live x) r = Some rw -> f rw = Ok rw' -> row_wrapinv rw -> row_wrapinv rw') -> grid_wrapinv y.
Proof.
  unfold upd_row, drawing_row. intros E H Hf. binv E as rw Erw. apply unwrap_inv in Erw. binv E as rw' Erw'. inv E.
  apply grid_wrapinv_with_live; [exact H|]. apply Forall_set_at; [apply (grid_wrapinv_live _ H)|].
  eapply Hf; eauto. eapply Forall_get; [apply (grid_wrapinv_live _ H)|exact Erw].
Qed.

(* updating one cell: only a write to the last column of a flagged row matters *)
Lemma upd_cell_wrapinv x r c f y : upd_cell x r c f = Ok y -> grid_wrapinv x ->
  (forall rw cl, get (live x) r = Some rw -> get (cells rw) c = Some cl -> wrapped rw = true ->
                 c = len (cells rw) - 1 -> occupied cl -> occupied (f cl)) -> grid_wrapinv y.
Proof.
  unfold upd_cell, drawing_row, row_get. intros E H Hf.
  binv E as rw Erw. apply unwrap_inv in Erw. binv E as cl Ecl. apply unwrap_inv in Ecl. inv E.
  apply grid_wrapinv_with_live; [exact H|]. apply Forall_set_at; [apply (grid_wrapinv_live _ H)|].
  eapply row_set_cell_wrapinv; [|exact Ecl|].
  - eapply Forall_get; [apply (grid_wrapinv_live _ H)|exact Erw].
  - intros W Ei O. eapply Hf; eauto.
Qed.

Lemma upd_cell_wrapinv_occ x r c f y : upd_cell x r c f = Ok y -> grid_wrapinv x ->
  (forall cl, occupied cl -> occupied (f cl)) -> grid_wrapinv y.
Proof. intros E H Hf. eapply upd_cell_wrapinv; eauto. Qed.

Lemma erase_all_wrapinv x a : grid_wrapinv x -> grid_wrapinv (erase_all x a).
Proof.
  intros H. unfold erase_all. apply grid_wrapinv_with_live; [exact H|].
  apply Forall_map'. intros r _. apply row_clear_wrapinv.
Qed.

Lemma erase_row_forward_wrapinv x a y : erase_row_forward x a = Ok y -> grid_wrapinv x -> grid_wrapinv y.
Proof.
  unfold erase_row_forward, upd_current_row. intros E H. eapply upd_row_wrapinv; eauto.
  cbv beta. intros rw rw' _ Er Hr. eapply erase_range_wrapinv; eauto.
Qed.

Lemma erase_row_backward_wrapinv x a y : erase_row_backward x a = Ok y -> grid_wrapinv x -> grid_wrapinv y.
Proof.
  unfold erase_row_backward, upd_current_row. intros E H. binv E as m Em. eapply upd_row_wrapinv; eauto.
  cbv beta. intros rw rw' _ Er Hr. eapply erase_range_wrapinv; eauto.
Qed.

Lemma erase_cells_wrapinv x n a y : erase_cells x n a = Ok y -> grid_wrapinv x -> grid_wrapinv y.
Proof.
  unfold erase_cells, upd_current_row. intros E H. eapply upd_row_wrapinv; eauto.
  cbv beta. intros rw rw' _ Er Hr. eapply erase_range_wrapinv; eauto.
Qed.

Lemma erase_all_forward_wrapinv x a y : erase_all_forward x a = Ok y -> grid_wrapinv x -> grid_wrapinv y.
Proof.
  unfold erase_all_forward. intros E H. eapply erase_row_forward_wrapinv; eauto.
  apply grid_wrapinv_with_live; [exact H|]. apply Forall_app; split.
  - apply Forall_firstn', (grid_wrapinv_live _ H).
  - apply Forall_map'. intros r _. apply row_clear_wrapinv.
Qed.

Lemma erase_all_backward_wrapinv x a y : erase_all_backward x a = Ok y -> grid_wrapinv x -> grid_wrapinv y.
Proof.
  unfold erase_all_backward. intros E H. eapply erase_row_backward_wrapinv; eauto.
  apply grid_wrapinv_with_live; [exact H|]. apply Forall_app; split.
  - apply Forall_map'. intros r _. apply row_clear_wrapinv.
  - apply Forall_skipn', (grid_wrapinv_live _ H).
Qed.

Lemma erase_row_wrapinv x a y : erase_row x a = Ok y -> grid_wrapinv x -> grid_wrapinv y.
Proof.
  unfold erase_row, upd_current_row. intros E H. eapply upd_row_wrapinv; eauto.
  cbv beta. intros rw rw' _ Er _. inv Er. apply row_clear_wrapinv.
Qed.

Lemma insert_cells_wrapinv x n y : insert_cells x n = Ok y -> grid_wrapinv x -> grid_wrapinv y.
Proof.
  unfold insert_cells, upd_current_row. intros E H. binv E as wide Ewide. binv E as room Eroom. eapply upd_row_wrapinv; eauto.
  cbv beta. intros rw rw' _ Er Hr. binv Er as rw1 Er1. eapply row_truncate_wrapinv; eauto.
Qed.

Lemma delete_cells_wrapinv x n y : delete_cells x n = Ok y -> grid_wrapinv x -> grid_wrapinv y.
Proof.
  unfold delete_cells, upd_current_row. intros E H. binv E as room Eroom. eapply upd_row_wrapinv; eauto.
  cbv beta. intros rw rw' _ Er Hr. binv Er as rw1 Er1. inv Er. apply row_resize_wrapinv.
Qed.

Lemma new_row_wrapinv x : row_wrapinv (new_row x).
Proof. apply row_new_wrapinv. Qed.

Lemma wrap_false_at_wrapinv l i l' : wrap_false_at l i = Ok l' -> Forall row_wrapinv l -> Forall row_wrapinv l'.
Proof.
  unfold wrap_false_at. intros E H. binv E as r Er. inv E.
  apply Forall_set_at; [exact H|]. apply row_unwrap_wrapinv.
Qed.

Lemma rotate_down_wrapinv x a b l l' :
  (do '(_, l1) <- remove_at l a; do l2 <- insert_at l1 b (new_row x); wrap_false_at l2 a) = Ok l' ->
  Forall row_wrapinv l -> Forall row_wrapinv l'.
Proof.
  intros E H. binv E as p1 E1. destruct p1 as [rm l1]. binv E as l2 E2.
  eapply Forall_remove_at in E1 as [_ W1]; [|exact H].
  eapply wrap_false_at_wrapinv; eauto. eapply Forall_insert_at; eauto. apply new_row_wrapinv.
Qed.

Lemma insert_lines_wrapinv x n y : insert_lines x n = Ok y -> grid_wrapinv x -> grid_wrapinv y.
Proof.
  unfold insert_lines. intros E H. binv E as l0 El0. inv E. apply grid_wrapinv_with_live; [exact H|].
  eapply (iter_res_inv (Forall row_wrapinv)); eauto; [apply (grid_wrapinv_live _ H)|].
  cbv beta. intros l l' El Hl. eapply rotate_down_wrapinv; eauto.
Qed.

Lemma scroll_down_wrapinv x n y : scroll_down x n = Ok y -> grid_wrapinv x -> grid_wrapinv y.
Proof.
  unfold scroll_down. intros E H. binv E as l0 El0. inv E. apply grid_wrapinv_with_live; [exact H|].
  eapply (iter_res_inv (Forall row_wrapinv)); eauto; [apply (grid_wrapinv_live _ H)|].
  cbv beta. intros l l' El Hl. eapply rotate_down_wrapinv; eauto.
Qed.

Lemma delete_lines_wrapinv x n y : delete_lines x n = Ok y -> grid_wrapinv x -> grid_wrapinv y.
Proof.
  unfold delete_lines. intros E H. binv E as room Eroom. binv E as l0 El0. inv E. apply grid_wrapinv_with_live; [exact H|].
  eapply (iter_res_inv (Forall row_wrapinv)); eauto; [apply (grid_wrapinv_live _ H)|].
  cbv beta. intros l l' El Hl. binv El as l1 E1. binv El as p2 E2. destruct p2 as [rm l2]. inv El.
  eapply Forall_remove_at in E2 as [_ W]; [exact W|].
  eapply Forall_insert_at; eauto. apply new_row_wrapinv.
Qed.

(* rows that leave the live list at the top enter the scrollback with their cells and flag *)
Lemma scroll_up_wrapinv x n y : scroll_up x n = Ok y -> grid_wrapinv x -> grid_wrapinv y.
Proof.
  unfold scroll_up. intros E H. binv E as room Eroom. binv E as active Eact.
  eapply (iter_res_inv grid_wrapinv); eauto.
  cbv beta. clear E Eroom Eact H. intros g1 g2 E [Hl Hs]. binv E as l1 E1. binv E as p2 E2. destruct p2 as [removed l2].
  eapply Forall_remove_at in E2 as [Wr W2]; [|eapply Forall_insert_at; eauto; apply new_row_wrapinv].
  assert (grid_wrapinv (with_live g1 l2)) as W by (split; cbn [with_live live sb]; assumption).
  destruct ((0 <? sb_cap (with_live g1 l2)) && negb active); inv E; [|exact W].
  split; cbn [with_sb with_live live sb]; [exact W2|].
  apply Forall_trim_front. apply Forall_app; split; [exact Hs|]. constructor; [exact Wr|constructor].
Qed.

Lemma row_inc_scroll_wrapinv x n y k : row_inc_scroll x n = Ok (y, k) -> grid_wrapinv x -> grid_wrapinv y.
Proof.
  unfold row_inc_scroll. intros E H. binv E as p1 E1. destruct p1 as [g1 lines].
  apply row_clamp_bottom_cells in E1.
  assert (grid_wrapinv g1) as W1.
  { eapply same_cells_wrapinv; [|exact H]. eapply same_cells_trans; [apply with_pos_cells|exact E1]. }
  destruct (in_scroll_region x).
  - binv E as g2 E2. inv E. eapply scroll_up_wrapinv; eauto.
  - inv E. exact W1.
Qed.

Lemma row_dec_scroll_wrapinv x n y : row_dec_scroll x n = Ok y -> grid_wrapinv x -> grid_wrapinv y.
Proof.
  unfold row_dec_scroll. intros E H.
  pose proof (row_clamp_top_cells (with_prow x (sat_sub16 (prow x) n)) (in_scroll_region x)) as C.
  destruct (row_clamp_top _ _) as [g1 lines]. cbn [fst] in C.
  binv E as k Ek. eapply scroll_down_wrapinv; eauto.
  eapply same_cells_wrapinv; [|exact H]. eapply same_cells_trans; [apply with_pos_cells|exact C].
Qed.

(* every live row is unflagged after a resize; the scrollback is untouched *)
Lemma grid_set_size_wrapinv x rows cols y : grid_set_size x rows cols = Ok y -> grid_wrapinv x -> grid_wrapinv y.
Proof.
  unfold grid_set_size. intros E [Hl Hs]. binv E as oldm Eoldm. binv E as newm Enewm. binv E as newc Enewc.
  rewrite row_clamp_top_false in E. binv E as p3 E3. destruct p3 as [g3 k3]. binv E as g4 E4. inv E.
  apply row_clamp_bottom_cells in E3. apply col_clamp_cells in E4.
  eapply same_cells_wrapinv; [apply with_saved_cells|].
  eapply same_cells_wrapinv; [exact E4|]. eapply same_cells_wrapinv; [exact E3|].
  split; cbn [live sb]; [|exact Hs].
  apply Forall_resize_list; [|apply row_new_wrapinv].
  apply Forall_map'. intros r Hr. apply row_resize_wrapinv.
Qed.

Lemma grid_set_size_unflagged x rows cols y : grid_set_size x rows cols = Ok y ->
  Forall (fun r => wrapped r = false) (live y).
Proof.
  unfold grid_set_size. intros E. binv E as oldm Eoldm. binv E as newm Enewm. binv E as newc Enewc.
  rewrite row_clamp_top_false in E. binv E as p3 E3. destruct p3 as [g3 k3]. binv E as g4 E4. inv E.
  apply row_clamp_bottom_cells in E3 as [L3 _]. apply col_clamp_cells in E4 as [L4 _].
  cbn [with_saved live]. rewrite L4, L3. cbn [live].
  apply Forall_resize_list; [|reflexivity].
  apply Forall_map'. intros r Hr. reflexivity.
Qed.

(* ------------------------------------------------------------------ *)
(* the wrap itself: Grid::col_wrap is the only place where the flag is set *)

(* the row the cursor leaves is the same row object after the line feed, also
   when the line feed scrolls the region (it then sits one line higher) *)
Lemma row_inc_scroll_1_row x y k : grid_ok x -> row_inc_scroll x 1 = Ok (y, k) -> k <= prow x ->
  get (live y) (prow x - k) = get (live x) (prow x).
Proof.
  intros H E Hk. okdims. pose proof (gk_live _ K) as Ll.
  unfold row_inc_scroll in E. rewrite row_clamp_bottom_eq in E by (cbn; lia). cbn [bind] in E.
  destruct (in_scroll_region x) eqn:Ein.
  - binv E as g2 E2. inv E.
    cbn [prow bot grows with_prow with_pos pcol] in *.
    unfold in_scroll_region in Ein. apply andb_prop in Ein as [Et Eb].
    apply N.leb_le in Et. apply N.leb_le in Eb.
    set (x1 := with_prow _ _) in E2.
    assert (grid_ok x1) as G1.
    { unfold x1, with_prow. apply ok_with_pos; cbn [with_pos grows gcols pcol]; auto; try lia.
      apply okc_with_pos. exact K. }
    set (k := sat_add16 (prow x) 1 - bot x) in *.
    assert (k = 0 \/ (k = 1 /\ prow x = bot x)) as Hk01 by (unfold k, sat_add16, U16MAX, MAXDIM in *; lia).
    rewrite (scroll_up_inside x1 k y (prow x - k) G1 E2) by (unfold x1, with_prow; cbn [top bot with_pos]; lia).
    unfold x1, with_prow. cbn [top bot grows live with_pos].
    destruct Hk01 as [->|[-> Hpb]].
    + replace (N.min 0 (grows x - top x)) with 0 by lia.
      replace (prow x - 0 + 0) with (prow x) by lia.
      destruct (N.leb_spec (prow x) (bot x)); [reflexivity|lia].
    + replace (N.min 1 (grows x - top x)) with 1 by lia.
      replace (prow x - 1 + 1) with (prow x) by lia.
      destruct (N.leb_spec (prow x) (bot x)); [reflexivity|lia].
  - inv E. cbn [live with_prow with_pos prow]. f_equal. lia.
Qed.

(* [wrap] is what grid_text computed: the last cell of the cursor row is occupied *)
Lemma col_wrap_wrapinv x width wrap y : col_wrap x width wrap = Ok y -> grid_wrapinv x -> grid_ok x ->
  (wrap = true -> exists rw, get (live x) (prow x) = Some rw /\ last_occupied (cells rw)) ->
  grid_wrapinv y.
Proof.
  unfold col_wrap. intros E H Hok Hwrap. binv E as lim Elim.
  destruct (lim <? pcol x); [|now inv E].
  binv E as p1 E1. destruct p1 as [g1 scrolled].
  assert (grid_ok (with_pcol x 0)) as Gx0.
  { okdims. apply ok_with_pos; auto; lia. }
  pose proof (row_inc_scroll_wrapinv _ _ _ _ E1 (same_cells_wrapinv _ _ (with_pos_cells x (prow x) 0) H)) as W1.
  cbn [prow with_pcol with_pos] in E.
  destruct (N.leb_spec scrolled (prow x)) as [Ls|Ls]; [|now inv E].
  binv E as pr1 Epr1. eapply upd_row_wrapinv; eauto.
  cbv beta. intros rw rw' G Er Hr. inv Er.
  apply row_wrap_wrapinv. intros B. apply andb_prop in B as [B _].
  destruct (Hwrap B) as (rw0 & G0 & L0).
  pose proof (row_inc_scroll_1_row (with_pcol x 0) g1 scrolled Gx0 E1) as Same.
  cbn [prow live with_pcol with_pos] in Same. rewrite Same in G by exact Ls.
  rewrite G0 in G. inv G. exact L0.
Qed.

(* ------------------------------------------------------------------ *)
(* the text path (Screen::text) *)

Lemma append_at_wrapinv x r c ch y : append_at x r c ch = Ok y -> grid_wrapinv x -> grid_wrapinv y.
Proof.
  unfold append_at. intros E H. binv E as pc Epc.
  destruct (ccont pc).
  - binv E as c2 Ec2. binv E as d Ed. eapply upd_cell_wrapinv_occ; eauto. apply cell_append_occupied.
  - eapply upd_cell_wrapinv_occ; eauto. apply cell_append_occupied.
Qed.

Lemma text_zero_wrapinv x ch y : text_zero x ch = Ok y -> grid_wrapinv x -> grid_wrapinv y.
Proof.
  unfold text_zero. intros E H.
  destruct (0 <? pcol x).
  - binv E as c1 Ec1. eapply append_at_wrapinv; eauto.
  - destruct (0 <? prow x); [|now inv E].
    binv E as r1 Er1. binv E as prev Eprev.
    destruct (wrapped prev); [|now inv E].
    binv E as c1 Ec1. eapply append_at_wrapinv; eauto.
Qed.

(* every live row has the width of the grid (a fragment of grid_ok that is
   easy to carry through the steps of text_place) *)
Definition cols_ok (x : grid) : Prop := Forall (fun rw => len (cells rw) = gcols x) (live x).

Lemma grid_ok_cols_ok x : grid_ok x -> cols_ok x.
Proof.
  intros [K _]. unfold cols_ok. eapply Forall_impl; [|apply (gk_rowsok _ K)]. intros rw [Hl _]. exact Hl.
Qed.

Lemma upd_cell_cols_ok x r c f y : upd_cell x r c f = Ok y -> cols_ok x -> cols_ok y /\ gcols y = gcols x.
Proof.
  unfold upd_cell, drawing_row, row_get. intros E H.
  binv E as rw Erw. apply unwrap_inv in Erw. binv E as cl Ecl. inv E.
  split; [|reflexivity]. unfold cols_ok. cbn [with_live live gcols].
  apply Forall_set_at; [exact H|]. cbn [row_set_cell cells]. rewrite len_set_at.
  apply (Forall_get _ _ _ _ H Erw).
Qed.

(* blanking a cell and then clearing the flag if that cell was the last one *)
Lemma clear_then_unwrap x r cn a lastc x5a x5 :
  upd_cell x r cn (cell_clear a) = Ok x5a ->
  (if cn =? lastc then upd_row x5a r (fun rw => Ok (row_wrap false rw)) else Ok x5a) = Ok x5 ->
  cols_ok x -> lastc = gcols x - 1 -> grid_wrapinv x -> grid_wrapinv x5.
Proof.
  intros E5a E5 Hc Hlast H.
  destruct (N.eqb_spec cn lastc) as [Ecn|Ncn].
  - unfold upd_cell, drawing_row, row_get in E5a.
    binv E5a as rw Erw. apply unwrap_inv in Erw. binv E5a as cl Ecl. inv E5a.
    unfold upd_row, drawing_row in E5. binv E5 as rw1 Erw1. binv E5 as rw2 Erw2. inv Erw2. inv E5.
    cbn [with_live live]. rewrite set_at_twice.
    split; cbn [with_live live sb]; [|apply H].
    apply Forall_set_at; [apply (grid_wrapinv_live _ H)|]. apply row_unwrap_wrapinv.
  - inv E5. eapply upd_cell_wrapinv; eauto.
    intros rw cl G Gc W Ei O. exfalso. apply Ncn.
    pose proof (Forall_get _ _ _ _ Hc G) as L. cbv beta in L. lia.
Qed.

Lemma text_place_wrapinv x ch width a y : text_place x ch width a = Ok y -> grid_wrapinv x -> cols_ok x ->
  grid_wrapinv y.
Proof.
  unfold text_place. intros E H Hc.
  binv E as c0 Ec0. apply unwrap_inv in Ec0. binv E as x1 E1.
  assert (grid_wrapinv x1 /\ cols_ok x1 /\ gcols x1 = gcols x) as (W1 & C1 & G1).
  { destruct (ccont c0); [|inv E1; auto]. binv E1 as cm Ecm.
    split; [|eapply upd_cell_cols_ok; eauto].
    (* the first half of the pair under the cursor is not in the last column *)
    eapply upd_cell_wrapinv; eauto. intros rw cl G Gc W Ei O. exfalso.
    unfold drawing_cell, drawing_row, row_get in Ec0. rewrite G in Ec0. apply get_some_lt in Ec0.
    unfold sub16 in Ecm. destruct (N.leb_spec 1 (pcol x)); inv Ecm. lia. }
  binv E as c0' Ec0'. binv E as x2 E2.
  assert (grid_wrapinv x2 /\ cols_ok x2 /\ gcols x2 = gcols x) as (W2 & C2 & G2).
  { destruct (cwide c0'); [|inv E2; auto]. binv E2 as cp Ecp.
    destruct (upd_cell_cols_ok _ _ _ _ _ E2 C1) as [C2 G2].
    split; [|split; [exact C2|congruence]].
    eapply upd_cell_wrapinv_occ; eauto. intros cl _. apply cell_set_occupied. }
  binv E as x3 E3.
  assert (grid_wrapinv x3 /\ cols_ok x3 /\ gcols x3 = gcols x) as (W3 & C3 & G3).
  { destruct (upd_cell_cols_ok _ _ _ _ _ E3 C2) as [C3 G3].
    split; [|split; [exact C3|congruence]].
    eapply upd_cell_wrapinv_occ; eauto. intros cl _. apply cell_set_occupied. }
  assert (grid_wrapinv (col_inc x3 1)) as W4 by (now apply col_inc_wrapinv).
  assert (cols_ok (col_inc x3 1)) as C4 by exact C3.
  destruct (1 <? width); [|now inv E].
  binv E as n0 En0. binv E as x5 E5.
  assert (grid_wrapinv x5) as W5.
  { destruct (cwide n0); [|now inv E5]. binv E5 as cn Ecn. binv E5 as x5a E5a. binv E5 as lastc Elastc.
    eapply clear_then_unwrap; eauto.
    unfold sub16 in Elastc. destruct (1 <=? gcols (col_inc x3 1)); inv Elastc. reflexivity. }
  binv E as x6 E6. inv E. apply col_inc_wrapinv.
  eapply upd_cell_wrapinv_occ; eauto. intros cl _. apply cont_of_clear_occupied.
Qed.

(* Screen::text on a grid *)
Theorem grid_text_wrapinv x ch a y : grid_text x ch a = Ok y -> grid_wrapinv x -> grid_ok x -> grid_wrapinv y.
Proof.
  unfold grid_text. intros E H Hok.
  set (width := match wd ch with Some n => n | None => 1 end) in *.
  assert ((wd ch = None /\ ch < 256) \/ ~ (wd ch = None /\ ch < 256)) as [[Wn Lt]|Hn].
  { destruct (wd ch); [right; intros [D _]; discriminate|].
    destruct (N.lt_ge_cases ch 256); [left; split; [reflexivity|assumption]|right; intros [_ D]; lia]. }
  { rewrite Wn in E. destruct (N.ltb_spec ch 256); [|lia]. now inv E. }
  assert ((if gcols x <? width then Ok x
           else do lim <- sub16 (gcols x) width;
                do wrap <- (if lim <? pcol x then
                              do lastc <- sub16 (gcols x) 1;
                              do lc <- unwrap (drawing_cell x (prow x) lastc);
                              Ok (has_contents lc || ccont lc)
                            else Ok false);
                do x1 <- col_wrap x width wrap;
                if width =? 0 then text_zero x1 ch else text_place x1 ch width a) = Ok y) as E'.
  { destruct (wd ch) as [w|] eqn:Ew.
    - exact E.
    - destruct (N.ltb_spec ch 256) as [L|L]; [exfalso; apply Hn; split; [reflexivity|exact L]|exact E]. }
  clear E.
  destruct (N.ltb_spec (gcols x) width) as [Lw|Lw]; [now inv E'|].
  binv E' as lim Elim. binv E' as wrap Ewrap. binv E' as x1 E1.
  destruct (col_wrap_post x width wrap Hok Lw) as (x1' & E1' & Ok1 & _).
  rewrite E1 in E1'. inv E1'.
  assert (grid_wrapinv x1') as W1.
  { eapply col_wrap_wrapinv; eauto. intros B. subst wrap.
    destruct (lim <? pcol x); [|discriminate].
    binv Ewrap as lastc Elastc. binv Ewrap as lc Elc. apply unwrap_inv in Elc. inv Ewrap.
    destruct (drawing_cell_row _ _ _ _ Hok Elc) as (rw & Grw & Glc & _).
    exists rw. split; [exact Grw|].
    pose proof (Forall_get _ _ _ _ (grid_ok_cols_ok _ Hok) Grw) as L. cbv beta in L.
    unfold sub16 in Elastc. destruct (1 <=? gcols x); inv Elastc.
    exists lc. rewrite L. split; [exact Glc|]. now apply orb_prop. }
  destruct (width =? 0).
  - eapply text_zero_wrapinv; eauto.
  - eapply text_place_wrapinv; eauto. now apply grid_ok_cols_ok.
Qed.

(* ------------------------------------------------------------------ *)
(* a boolean version, for testing the extracted model and for examples *)

Definition occupiedb (c : cell) : bool := has_contents c || ccont c.
Definition row_wrapinvb (r : row) : bool :=
  negb (wrapped r) ||
  match get (cells r) (len (cells r) - 1) with Some c => occupiedb c | None => false end.
Definition grid_wrapinvb (x : grid) : bool := forallb row_wrapinvb (live x) && forallb row_wrapinvb (sb x).
Definition screen_wrapinvb (s : screen) : bool := grid_wrapinvb (g s) && grid_wrapinvb (alt s).

Lemma occupiedb_spec c : occupiedb c = true <-> occupied c.
Proof. unfold occupiedb, occupied. apply orb_true_iff. Qed.

Lemma row_wrapinvb_spec r : row_wrapinvb r = true <-> row_wrapinv r.
Proof.
  unfold row_wrapinvb, row_wrapinv, last_occupied. destruct (wrapped r); cbn [negb orb].
  - split.
    + intros B _. destruct (get (cells r) (len (cells r) - 1)) as [c|]; [|discriminate].
      exists c. split; [reflexivity|]. now apply occupiedb_spec.
    + intros H. destruct (H eq_refl) as (c & -> & O). now apply occupiedb_spec.
  - split; [intros _ D; discriminate|reflexivity].
Qed.

Lemma Forall_forallb {A} (P : A -> Prop) (f : A -> bool) l :
  (forall a, f a = true <-> P a) -> (forallb f l = true <-> Forall P l).
Proof.
  intros Hf. rewrite forallb_forall, Forall_forall. split; intros H a Ha; apply Hf, H, Ha.
Qed.

Lemma grid_wrapinvb_spec x : grid_wrapinvb x = true <-> grid_wrapinv x.
Proof.
  unfold grid_wrapinvb, grid_wrapinv. rewrite andb_true_iff.
  rewrite !(Forall_forallb row_wrapinv row_wrapinvb) by apply row_wrapinvb_spec. reflexivity.
Qed.

Lemma screen_wrapinvb_spec s : screen_wrapinvb s = true <-> screen_wrapinv s.
Proof. unfold screen_wrapinvb, screen_wrapinv. rewrite andb_true_iff, !grid_wrapinvb_spec. reflexivity. Qed.

