(* GridInv.v — the structural invariant of a grid and its preservation by every
   operation of Grid.v (no operation panics on a grid that satisfies it). *)
Require Import Tac ListN Attrs Cell Row Grid RowInv.
Open Scope N_scope.

Definition MAXDIM : N := 65520.

(* a row of the scrollback: well-paired, of some legal width (it may predate a resize) *)
Definition sbrow_ok (r : row) : Prop := cells_ok (cells r) /\ 1 <= len (cells r) /\ len (cells r) <= MAXDIM.

(* everything except the cursor position *)
Record grid_okc (x : grid) : Prop := mkGridOkc {
  gk_rows : 1 <= grows x /\ grows x <= MAXDIM;
  gk_cols : 1 <= gcols x /\ gcols x <= MAXDIM;
  gk_live : len (live x) = grows x;
  gk_rowsok : Forall (row_ok (gcols x)) (live x);
  gk_sprow : sprow x < grows x;
  gk_spcol : spcol x <= gcols x;
  gk_bot : bot x < grows x;
  gk_region : top x < bot x \/ (top x = 0 /\ bot x = grows x - 1);
  gk_sboff : sb_off x <= len (sb x);
  gk_sbcap : len (sb x) <= sb_cap x;
  gk_sbrows : Forall sbrow_ok (sb x) }.

Definition grid_ok (x : grid) : Prop := grid_okc x /\ prow x < grows x /\ pcol x <= gcols x.

(* what an operation leaves alone *)
Record frame (x y : grid) : Prop := mkFrame {
  fr_rows : grows y = grows x;
  fr_cols : gcols y = gcols x;
  fr_cap : sb_cap y = sb_cap x;
  fr_sb0 : sb_cap x = 0 -> sb y = sb x }.

Lemma frame_refl x : frame x x.
Proof. split; auto. Qed.
Lemma frame_trans x y z : frame x y -> frame y z -> frame x z.
Proof.
  intros [a b c d] [e f g h]. split; try congruence.
  intros H. rewrite h by congruence. auto.
Qed.

Definition post (x : grid) (r : res grid) : Prop := exists y, r = Ok y /\ grid_ok y /\ frame x y.

Lemma post_bind x r f : post x r -> (forall y, grid_ok y -> frame x y -> post y (f y)) -> post x (bind r f).
Proof.
  intros (y & -> & Oy & Fy) H. cbn [bind]. destruct (H y Oy Fy) as (z & -> & Oz & Fz).
  exists z; split; [reflexivity|]. split; [exact Oz|]. eapply frame_trans; eauto.
Qed.

Lemma post_ok x y : grid_ok y -> frame x y -> post x (Ok y).
Proof. intros; exists y; auto. Qed.

Lemma sub16_ok a b : b <= a -> sub16 a b = Ok (a - b).
Proof. intros H. unfold sub16. destruct (N.leb_spec b a); [reflexivity|lia]. Qed.
Lemma add16_ok a b : a + b <= 65535 -> add16 a b = Ok (a + b).
Proof. intros H. unfold add16, U16MAX. destruct (N.leb_spec (a + b) 65535); [reflexivity|lia]. Qed.

(* ---- cursor-only updates ---- *)
Lemma okc_with_pos x r c : grid_okc x -> grid_okc (with_pos x r c).
Proof. intros []. split; cbn; auto. Qed.
Lemma with_pos_frame x r c : frame x (with_pos x r c).
Proof. split; reflexivity. Qed.
Lemma ok_with_pos x r c : grid_okc x -> r < grows x -> c <= gcols x -> grid_ok (with_pos x r c).
Proof. intros H Hr Hc. split; [now apply okc_with_pos|]. cbn. auto. Qed.

(* closed forms of the clamps *)
Lemma col_clamp_eq x : 1 <= gcols x -> col_clamp x = Ok (with_pcol x (N.min (pcol x) (gcols x - 1))).
Proof.
  intros H. unfold col_clamp. rewrite sub16_ok by lia. cbn [bind].
  destruct (N.ltb_spec (gcols x - 1) (pcol x)).
  - now rewrite N.min_r by lia.
  - rewrite N.min_l by lia. destruct x; reflexivity.
Qed.

Lemma row_clamp_eq x : 1 <= grows x -> row_clamp x = Ok (with_prow x (N.min (prow x) (grows x - 1))).
Proof.
  intros H. unfold row_clamp. rewrite sub16_ok by lia. cbn [bind].
  destruct (N.ltb_spec (grows x - 1) (prow x)).
  - now rewrite N.min_r by lia.
  - rewrite N.min_l by lia. destruct x; reflexivity.
Qed.

Lemma row_clamp_top_eq x lim :
  row_clamp_top x lim = (with_prow x (if lim then N.max (prow x) (top x) else prow x),
                         if lim then top x - prow x else 0).
Proof.
  unfold row_clamp_top. destruct lim; cbn [andb].
  - destruct (N.ltb_spec (prow x) (top x)).
    + now rewrite N.max_r by lia.
    + rewrite N.max_l by lia. replace (top x - prow x) with 0 by lia. destruct x; reflexivity.
  - destruct x; reflexivity.
Qed.

Lemma row_clamp_bottom_eq x lim : 1 <= grows x ->
  row_clamp_bottom x lim =
  Ok (with_prow x (N.min (prow x) (if lim then bot x else grows x - 1)),
      prow x - (if lim then bot x else grows x - 1)).
Proof.
  intros H. unfold row_clamp_bottom.
  destruct lim; [|rewrite sub16_ok by lia]; cbn [bind].
  - destruct (N.ltb_spec (bot x) (prow x)).
    + now rewrite N.min_r by lia.
    + rewrite N.min_l by lia. replace (prow x - bot x) with 0 by lia. destruct x; reflexivity.
  - destruct (N.ltb_spec (grows x - 1) (prow x)).
    + now rewrite N.min_r by lia.
    + rewrite N.min_l by lia. replace (prow x - (grows x - 1)) with 0 by lia. destruct x; reflexivity.
Qed.

(* ---- closed forms of the cursor movements (used by C06 as well) ---- *)
Ltac grid_eq := match goal with |- Ok _ = Ok _ => f_equal | _ => idtac end;
                match goal with x : grid |- _ => destruct x end; cbn in *; try reflexivity; f_equal; try lia.

Lemma col_set_eq x i : 1 <= gcols x -> col_set x i = Ok (with_pcol x (N.min i (gcols x - 1))).
Proof. intros H. unfold col_set. rewrite col_clamp_eq by exact H. destruct x; reflexivity. Qed.

Lemma col_inc_clamp_eq x n : 1 <= gcols x ->
  col_inc_clamp x n = Ok (with_pcol x (N.min (sat_add16 (pcol x) n) (gcols x - 1))).
Proof. intros H. unfold col_inc_clamp, col_inc. rewrite col_clamp_eq by exact H. destruct x; reflexivity. Qed.

Lemma col_tab_eq x : 1 <= gcols x -> pcol x <= MAXDIM ->
  col_tab x = Ok (with_pcol x (N.min (pcol x - (pcol x) mod 8 + 8) (gcols x - 1))).
Proof.
  intros H Hp. unfold col_tab. rewrite add16_ok by (unfold MAXDIM in *; lia). cbn [bind].
  rewrite col_clamp_eq by exact H. destruct x; reflexivity.
Qed.

Lemma row_set_eq x i : 1 <= grows x -> row_set x i = Ok (with_prow x (N.min i (grows x - 1))).
Proof. intros H. unfold row_set. rewrite row_clamp_eq by exact H. destruct x; reflexivity. Qed.

Definition lower_limit (x : grid) (inr : bool) : N := if inr then bot x else grows x - 1.

Lemma row_inc_clamp_eq x n : 1 <= grows x ->
  row_inc_clamp x n = Ok (with_prow x (N.min (sat_add16 (prow x) n) (lower_limit x (in_scroll_region x)))).
Proof.
  intros H. unfold row_inc_clamp. rewrite row_clamp_bottom_eq by exact H. cbn [bind].
  unfold lower_limit. destruct x; reflexivity.
Qed.

Lemma row_dec_clamp_eq x n :
  row_dec_clamp x n = with_prow x (if in_scroll_region x then N.max (sat_sub16 (prow x) n) (top x)
                                    else sat_sub16 (prow x) n).
Proof. unfold row_dec_clamp. rewrite row_clamp_top_eq. destruct x; reflexivity. Qed.

Lemma grid_set_pos_eq x r c : 1 <= grows x -> 1 <= gcols x ->
  grid_set_pos x r c =
  Ok (with_pos x (if origin x then N.min (N.max (sat_add16 r (top x)) (top x)) (bot x) else N.min r (grows x - 1))
                 (N.min c (gcols x - 1))).
Proof.
  intros Hr Hc. unfold grid_set_pos. rewrite row_clamp_top_eq.
  rewrite row_clamp_bottom_eq by (destruct x; exact Hr). cbn [bind].
  rewrite col_clamp_eq by (destruct x; exact Hc).
  destruct x; cbn. destruct origin; reflexivity.
Qed.

Lemma okc_with_region x t b : grid_okc x -> b < grows x -> (t < b \/ (t = 0 /\ b = grows x - 1)) ->
  grid_okc (with_region x t b).
Proof. intros [] Hb Hr. split; cbn; auto. Qed.
Lemma okc_with_origin x o : grid_okc x -> grid_okc (with_origin x o).
Proof. intros []. split; cbn; auto. Qed.
Lemma okc_with_saved x r c o : grid_okc x -> r < grows x -> c <= gcols x -> grid_okc (with_saved x r c o).
Proof. intros [] Hr Hc. split; cbn; auto. Qed.

Lemma set_scroll_region_eq x t b : 1 <= grows x ->
  set_scroll_region x t b =
  Ok (let b' := N.min b (grows x - 1) in
      if t <? b' then with_pos (with_region x t b') t 0 else with_pos (with_region x 0 (grows x - 1)) 0 0).
Proof.
  intros H. unfold set_scroll_region. rewrite sub16_ok by lia. cbn [bind]. cbv zeta.
  destruct (t <? N.min b (grows x - 1)); destruct x; reflexivity.
Qed.

(* ---- preservation for the cursor operations ---- *)
Lemma frame_pos x r c : frame x (with_pos x r c). Proof. split; reflexivity. Qed.
Lemma frame_region x t b : frame x (with_region x t b). Proof. split; reflexivity. Qed.
Lemma frame_origin x o : frame x (with_origin x o). Proof. split; reflexivity. Qed.
Lemma frame_saved x r c o : frame x (with_saved x r c o). Proof. split; reflexivity. Qed.

Ltac okdims_in H :=
    let K := fresh "K" in let Hr := fresh "Hr" in let Hc := fresh "Hc" in
    pose proof H as (K & Hr & Hc);
    pose proof (gk_rows _ K); pose proof (gk_cols _ K); pose proof (gk_bot _ K); pose proof (gk_region _ K).
Ltac okdims := match goal with H : grid_ok ?x |- _ => okdims_in H end.

Lemma col_set_post x i : grid_ok x -> post x (col_set x i).
Proof.
  intros H. okdims. rewrite col_set_eq by lia.
  apply post_ok; [|apply frame_pos]. apply ok_with_pos; auto; lia.
Qed.
Lemma col_inc_clamp_post x n : grid_ok x -> post x (col_inc_clamp x n).
Proof.
  intros H. okdims. rewrite col_inc_clamp_eq by lia.
  apply post_ok; [|apply frame_pos]. apply ok_with_pos; auto; lia.
Qed.
Lemma col_dec_post x n : grid_ok x -> post x (Ok (col_dec x n)).
Proof.
  intros H. okdims. apply post_ok; [|apply frame_pos]. apply ok_with_pos; auto. unfold sat_sub16. lia.
Qed.
Lemma col_tab_post x : grid_ok x -> post x (col_tab x).
Proof.
  intros H. okdims. rewrite col_tab_eq by lia.
  apply post_ok; [|apply frame_pos]. apply ok_with_pos; auto; lia.
Qed.
Lemma row_set_post x i : grid_ok x -> post x (row_set x i).
Proof.
  intros H. okdims. rewrite row_set_eq by lia.
  apply post_ok; [|apply frame_pos]. apply ok_with_pos; auto; lia.
Qed.
Lemma row_inc_clamp_post x n : grid_ok x -> post x (row_inc_clamp x n).
Proof.
  intros H. okdims. rewrite row_inc_clamp_eq by lia.
  apply post_ok; [|apply frame_pos]. apply ok_with_pos; auto.
  unfold lower_limit. destruct (in_scroll_region x); lia.
Qed.
Lemma row_dec_clamp_post x n : grid_ok x -> post x (Ok (row_dec_clamp x n)).
Proof.
  intros H. okdims. rewrite row_dec_clamp_eq.
  apply post_ok; [|apply frame_pos]. apply ok_with_pos; auto.
  unfold sat_sub16. destruct (in_scroll_region x); lia.
Qed.
Lemma grid_set_pos_post x r c : grid_ok x -> post x (grid_set_pos x r c).
Proof.
  intros H. okdims. rewrite grid_set_pos_eq by lia.
  apply post_ok; [|apply frame_pos]. apply ok_with_pos; auto; [|lia].
  destruct (origin x); lia.
Qed.
Lemma set_scroll_region_post x t b : grid_ok x -> post x (set_scroll_region x t b).
Proof.
  intros H. okdims. rewrite set_scroll_region_eq by lia. cbv zeta.
  destruct (N.ltb_spec t (N.min b (grows x - 1))).
  - apply post_ok; [|eapply frame_trans; [apply frame_region|apply frame_pos]].
    apply ok_with_pos; cbn; try lia. apply okc_with_region; auto; lia.
  - apply post_ok; [|eapply frame_trans; [apply frame_region|apply frame_pos]].
    apply ok_with_pos; cbn; try lia. apply okc_with_region; auto; lia.
Qed.
Lemma set_origin_mode_post x m : grid_ok x -> post x (set_origin_mode x m).
Proof.
  intros H. unfold set_origin_mode.
  assert (grid_ok (with_origin x m)) as H' by (destruct H as (K & ? & ?); split; [now apply okc_with_origin|auto]).
  destruct (grid_set_pos_post (with_origin x m) 0 0 H') as (y & -> & Oy & Fy).
  exists y; split; [reflexivity|split; [exact Oy|]].
  eapply frame_trans; [apply frame_origin|exact Fy].
Qed.
Lemma save_cursor_post x : grid_ok x -> post x (Ok (save_cursor x)).
Proof.
  intros H. okdims. apply post_ok; [|apply frame_saved].
  split; [apply okc_with_saved; auto|cbn; auto].
Qed.
Lemma restore_cursor_post x : grid_ok x -> post x (Ok (restore_cursor x)).
Proof.
  intros H. okdims. apply post_ok; [|eapply frame_trans; [apply frame_pos|apply frame_origin]].
  unfold restore_cursor. split; [apply okc_with_origin, okc_with_pos; auto|].
  cbn. split; [apply (gk_sprow _ K)|apply (gk_spcol _ K)].
Qed.

(* ---- operations on the rows ---- *)
Lemma okc_with_live x l : grid_okc x -> len l = grows x -> Forall (row_ok (gcols x)) l -> grid_okc (with_live x l).
Proof. intros [] Hl Hf. split; cbn; auto. Qed.
Lemma frame_live x l : frame x (with_live x l). Proof. split; reflexivity. Qed.

Lemma ok_with_live x l : grid_ok x -> len l = grows x -> Forall (row_ok (gcols x)) l -> grid_ok (with_live x l).
Proof. intros (K & Hr & Hc) Hl Hf. split; [now apply okc_with_live|]. cbn. auto. Qed.

Lemma live_get x r : grid_ok x -> r < grows x -> exists rw, get (live x) r = Some rw /\ row_ok (gcols x) rw.
Proof.
  intros (K & _) Hr. destruct (get_lt_some (live x) r) as (rw & Hg); [rewrite (gk_live _ K); exact Hr|].
  exists rw; split; [exact Hg|]. eapply Forall_get; [apply (gk_rowsok _ K)|exact Hg].
Qed.

Lemma upd_row_post' x r f : grid_ok x -> r < grows x ->
  (forall rw, get (live x) r = Some rw -> row_ok (gcols x) rw -> exists rw', f rw = Ok rw' /\ row_ok (gcols x) rw') ->
  post x (upd_row x r f).
Proof.
  intros H Hr Hf. destruct (live_get x r H Hr) as (rw & Hg & Hrw).
  unfold upd_row, drawing_row. rewrite Hg. cbn [unwrap bind].
  destruct (Hf rw Hg Hrw) as (rw' & -> & Hrw'). cbn [bind].
  apply post_ok; [|apply frame_live].
  destruct H as (K & ? & ?).
  apply ok_with_live; [split; auto| |].
  - rewrite len_set_at. apply (gk_live _ K).
  - apply Forall_set_at; [apply (gk_rowsok _ K)|exact Hrw'].
Qed.

Lemma upd_row_post x r f : grid_ok x -> r < grows x ->
  (forall rw, row_ok (gcols x) rw -> exists rw', f rw = Ok rw' /\ row_ok (gcols x) rw') ->
  post x (upd_row x r f).
Proof. intros H Hr Hf. apply upd_row_post'; auto. Qed.

Lemma erase_all_post x a : grid_ok x -> post x (Ok (erase_all x a)).
Proof.
  intros H. apply post_ok; [|apply frame_live]. destruct H as (K & ? & ?).
  apply ok_with_live; [split; auto| |].
  - rewrite len_map. apply (gk_live _ K).
  - apply Forall_map'. intros rw Hin. apply row_clear_ok.
    pose proof (gk_rowsok _ K) as F. rewrite Forall_forall in F. apply (F rw Hin).
Qed.

Lemma erase_row_post x a : grid_ok x -> post x (erase_row x a).
Proof.
  intros H. apply upd_row_post; [exact H|apply H|].
  intros rw [Hl _]. eexists; split; [reflexivity|]. now apply row_clear_ok.
Qed.

Lemma erase_range_ok cols rw a lo n : row_ok cols rw -> cols <= 65535 -> lo + N.of_nat n <= cols ->
  exists rw', for_range n lo (fun col r => row_erase r col a) rw = Ok rw' /\ row_ok cols rw'.
Proof.
  intros Hrw Hc Hn. apply (for_range_ok (row_ok cols)); [exact Hrw|].
  intros i r Hi Hr. apply row_erase_ok; auto. lia.
Qed.

Lemma erase_row_forward_post x a : grid_ok x -> post x (erase_row_forward x a).
Proof.
  intros H. okdims. apply upd_row_post; [exact H|exact Hr|].
  intros rw Hrw. apply erase_range_ok; auto; unfold MAXDIM in *; lia.
Qed.

Lemma erase_row_backward_post x a : grid_ok x -> post x (erase_row_backward x a).
Proof.
  intros H. okdims. unfold erase_row_backward. rewrite sub16_ok by lia. cbn [bind].
  apply upd_row_post; [exact H|exact Hr|].
  intros rw Hrw. apply erase_range_ok; auto; unfold MAXDIM in *; lia.
Qed.

Lemma erase_cells_post x n a : grid_ok x -> post x (erase_cells x n a).
Proof.
  intros H. okdims. apply upd_row_post; [exact H|exact Hr|].
  intros rw Hrw. apply erase_range_ok; auto; unfold MAXDIM in *; lia.
Qed.

Lemma Forall_app_clear cols a k l : Forall (row_ok cols) l ->
  Forall (row_ok cols) (firstn k l ++ map (row_clear a) (skipn k l)) /\
  Forall (row_ok cols) (map (row_clear a) (firstn k l) ++ skipn k l).
Proof.
  intros F. pose proof F as F'. rewrite <- (firstn_skipn k l) in F'. apply Forall_app in F' as [F1 F2].
  split; apply Forall_app; split; auto; apply Forall_map'; intros rw Hin; apply row_clear_ok;
    rewrite Forall_forall in F1, F2; [apply (F2 rw Hin)|apply (F1 rw Hin)].
Qed.

Lemma len_app_clear1 a k (l : list row) : len (firstn k l ++ map (row_clear a) (skipn k l)) = len l.
Proof. unfold len. rewrite app_length, map_length, <- app_length, firstn_skipn. reflexivity. Qed.
Lemma len_app_clear2 a k (l : list row) : len (map (row_clear a) (firstn k l) ++ skipn k l) = len l.
Proof. unfold len. rewrite app_length, map_length, <- app_length, firstn_skipn. reflexivity. Qed.

Lemma erase_all_forward_post x a : grid_ok x -> post x (erase_all_forward x a).
Proof.
  intros H. unfold erase_all_forward.
  set (x1 := with_live x _).
  assert (grid_ok x1) as H1.
  { destruct H as (K & ? & ?). apply ok_with_live; [split; auto| |].
    - rewrite len_app_clear1. apply (gk_live _ K).
    - apply Forall_app_clear. apply (gk_rowsok _ K). }
  destruct (erase_row_forward_post x1 a H1) as (y & -> & Oy & Fy).
  exists y; split; [reflexivity|split; [exact Oy|]]. eapply frame_trans; [apply frame_live|exact Fy].
Qed.

Lemma erase_all_backward_post x a : grid_ok x -> post x (erase_all_backward x a).
Proof.
  intros H. unfold erase_all_backward.
  set (x1 := with_live x _).
  assert (grid_ok x1) as H1.
  { destruct H as (K & ? & ?). apply ok_with_live; [split; auto| |].
    - rewrite len_app_clear2. apply (gk_live _ K).
    - apply Forall_app_clear. apply (gk_rowsok _ K). }
  destruct (erase_row_backward_post x1 a H1) as (y & -> & Oy & Fy).
  exists y; split; [reflexivity|split; [exact Oy|]]. eapply frame_trans; [apply frame_live|exact Fy].
Qed.

Lemma insert_cells_post x n : grid_ok x -> post x (insert_cells x n).
Proof.
  intros H. okdims. unfold insert_cells.
  destruct (live_get x (prow x) H Hr) as (rw0 & Hg0 & Hrw0).
  assert (exists wide, (if pcol x <? gcols x
                        then do c <- unwrap (drawing_cell x (prow x) (pcol x)); Ok (ccont c)
                        else Ok false) = Ok wide /\ (pcol x < gcols x -> wide = fc (cells rw0) (pcol x))) as (wide & -> & Hwide).
  { destruct (N.ltb_spec (pcol x) (gcols x)) as [Hlt|Hge].
    - unfold drawing_cell, drawing_row. rewrite Hg0. unfold row_get.
      destruct Hrw0 as [Hl Hok]. destruct (get_lt_some (cells rw0) (pcol x)) as (c & Hc'); [lia|].
      rewrite Hc'. cbn. eexists; split; [reflexivity|]. intros _. symmetry. now apply fc_get.
    - eexists; split; [reflexivity|]. lia. }
  cbn [bind]. rewrite sub16_ok by lia. cbn [bind].
  apply upd_row_post'; [exact H|exact Hr|].
  intros rw Hg Hrw. rewrite Hg0 in Hg; inv Hg. destruct Hrw as [Hl Hok].
  set (k := N.to_nat (N.min n (gcols x - pcol x))).
  destruct (iter_res_ok_idx
              (fun j r => cells_ok (cells r) /\ len (cells r) = gcols x + N.of_nat j /\
                          (pcol x < gcols x -> fc (cells r) (pcol x) = wide))
              (ins_step wide (pcol x)) k rw) as (rw' & -> & Hok' & Hl' & _).
  - split; [exact Hok|]. split; [lia|]. intros Hlt. symmetry. auto.
  - intros j r Hj (Ho & Hlen & Hfc).
    assert (pcol x < gcols x) as Hlt by (unfold k in Hj; lia).
    destruct (ins_step_ok r (pcol x) Ho) as (r' & E & Ho' & Hl' & Hfc'); [lia|].
    rewrite (Hfc Hlt) in E, Hfc'. exists r'. split; [exact E|]. split; [exact Ho'|]. split; [lia|]. auto.
  - cbn [bind]. destruct (row_truncate_ok rw' (gcols x) Hok') as (r'' & -> & Hr'' & _); [lia|lia|].
    eauto.
Qed.

Lemma delete_cells_post x n : grid_ok x -> post x (delete_cells x n).
Proof.
  intros H. okdims. unfold delete_cells. rewrite sub16_ok by lia. cbn [bind].
  apply upd_row_post; [exact H|exact Hr|].
  intros rw [Hl Hok].
  set (k := N.to_nat (N.min n (gcols x - pcol x))).
  destruct (iter_res_ok_idx
              (fun j r => cells_ok (cells r) /\ len (cells r) + N.of_nat j = gcols x)
              (fun r => row_remove r (pcol x)) k rw) as (rw' & -> & Hok' & Hl').
  - split; [exact Hok|lia].
  - intros j r Hj (Ho & Hlen).
    destruct (row_remove_ok r (pcol x) Ho) as (r' & E & Hl' & Ho' & _); [unfold MAXDIM in *; lia|unfold k in Hj; lia|].
    exists r'. split; [exact E|]. split; [exact Ho'|]. unfold k in Hj. lia.
  - cbn [bind]. eexists; split; [reflexivity|]. apply row_resize_ok; [exact Hok'|lia].
Qed.

(* ---- line operations ---- *)
Definition rows_ok (rows cols : N) (l : list row) : Prop := len l = rows /\ Forall (row_ok cols) l.

Lemma wrap_false_at_ok rows cols l i : rows_ok rows cols l -> i < rows ->
  exists l', wrap_false_at l i = Ok l' /\ rows_ok rows cols l'.
Proof.
  intros [Hl Hf] Hi. unfold wrap_false_at.
  destruct (get_lt_some l i) as (r & Hg); [lia|]. rewrite (idx_get _ _ _ Hg). cbn [bind].
  eexists; split; [reflexivity|]. split; [now rewrite len_set_at|].
  apply Forall_set_at; [exact Hf|]. apply row_wrap_ok. eapply Forall_get; eauto.
Qed.

(* remove the line at index a, insert a fresh one at index b (a, b < rows) *)
Lemma rotate_ok rows cols l a b : rows_ok rows cols l -> a < rows -> b < rows ->
  exists x l1 l2, remove_at l a = Ok (x, l1) /\ insert_at l1 b (row_new cols) = Ok l2 /\ rows_ok rows cols l2.
Proof.
  intros [Hl Hf] Ha Hb.
  destruct (get_lt_some l a) as (x & Hg); [lia|].
  assert (len (firstnN a l ++ skipnN (a + 1) l) = rows - 1) as L1 by (rewrite len_remove; lia).
  exists x, (firstnN a l ++ skipnN (a + 1) l), (firstnN b (firstnN a l ++ skipnN (a + 1) l) ++ row_new cols :: skipnN b (firstnN a l ++ skipnN (a + 1) l)).
  split; [now apply remove_at_ok|]. split; [apply insert_at_ok; lia|].
  split.
  - rewrite len_insert by lia. lia.
  - apply Forall_insert; [now apply Forall_remove|apply row_new_ok].
Qed.

(* insert a fresh line at index b (<= rows), then remove the line at index a (< rows + 1) *)
Lemma rotate2_ok rows cols l a b : rows_ok rows cols l -> a <= rows -> b <= rows ->
  exists l1 x l2, insert_at l b (row_new cols) = Ok l1 /\ remove_at l1 a = Ok (x, l2) /\ rows_ok rows cols l2 /\
                  (rows_ok 1 cols [x]).
Proof.
  intros [Hl Hf] Ha Hb.
  set (l1 := firstnN b l ++ row_new cols :: skipnN b l).
  assert (len l1 = rows + 1) as L1 by (unfold l1; rewrite len_insert; lia).
  assert (Forall (row_ok cols) l1) as F1 by (apply Forall_insert; [exact Hf|apply row_new_ok]).
  destruct (get_lt_some l1 a) as (x & Hg); [lia|].
  exists l1, x, (firstnN a l1 ++ skipnN (a + 1) l1).
  split; [apply insert_at_ok; lia|]. split; [now apply remove_at_ok|].
  split; [split|].
  - rewrite len_remove by lia. lia.
  - now apply Forall_remove.
  - split; [reflexivity|]. constructor; [|constructor]. eapply Forall_get; eauto.
Qed.

Lemma insert_lines_post x n : grid_ok x -> post x (insert_lines x n).
Proof.
  intros H. okdims. unfold insert_lines.
  destruct (iter_res_ok (rows_ok (grows x) (gcols x))
              (fun l => do '(_, l1) <- remove_at l (bot x); do l2 <- insert_at l1 (prow x) (new_row x); wrap_false_at l2 (bot x))
              (N.to_nat n) (live x)) as (l' & -> & Hl' & Hf').
  - split; [apply (gk_live _ K)|apply (gk_rowsok _ K)].
  - intros l Hl. destruct (rotate_ok _ _ l (bot x) (prow x) Hl) as (r0 & l1 & l2 & -> & E2 & Hl2); auto.
    cbn [bind]. unfold new_row. rewrite E2. cbn [bind]. now apply (wrap_false_at_ok (grows x) (gcols x)).
  - cbn [bind]. apply post_ok; [|apply frame_live]. now apply ok_with_live.
Qed.

Lemma scroll_down_post x n : grid_ok x -> post x (scroll_down x n).
Proof.
  intros H. okdims. unfold scroll_down.
  destruct (iter_res_ok (rows_ok (grows x) (gcols x))
              (fun l => do '(_, l1) <- remove_at l (bot x); do l2 <- insert_at l1 (top x) (new_row x); wrap_false_at l2 (bot x))
              (N.to_nat n) (live x)) as (l' & -> & Hl' & Hf').
  - split; [apply (gk_live _ K)|apply (gk_rowsok _ K)].
  - intros l Hl. destruct (rotate_ok _ _ l (bot x) (top x) Hl) as (r0 & l1 & l2 & -> & E2 & Hl2); auto; [lia|].
    cbn [bind]. unfold new_row. rewrite E2. cbn [bind]. now apply (wrap_false_at_ok (grows x) (gcols x)).
  - cbn [bind]. apply post_ok; [|apply frame_live]. now apply ok_with_live.
Qed.

Lemma delete_lines_post x n : grid_ok x -> post x (delete_lines x n).
Proof.
  intros H. okdims. unfold delete_lines. rewrite sub16_ok by lia. cbn [bind].
  destruct (iter_res_ok (rows_ok (grows x) (gcols x))
              (fun l => do l1 <- insert_at l (bot x + 1) (new_row x); do '(_, l2) <- remove_at l1 (prow x); Ok l2)
              (N.to_nat (N.min n (grows x - prow x))) (live x)) as (l' & -> & Hl' & Hf').
  - split; [apply (gk_live _ K)|apply (gk_rowsok _ K)].
  - intros l Hl. destruct (rotate2_ok _ _ l (prow x) (bot x + 1) Hl) as (l1 & r0 & l2 & E1 & E2 & Hl2 & _); [lia|lia|].
    unfold new_row. rewrite E1. cbn [bind]. rewrite E2. cbn [bind]. eauto.
  - cbn [bind]. apply post_ok; [|apply frame_live]. now apply ok_with_live.
Qed.

Lemma len_trim_front {A} (l : list A) cap : len (trim_front l cap) = N.min (len l) cap.
Proof. unfold trim_front. rewrite len_skipnN. lia. Qed.

Lemma okc_with_sb x s off : grid_okc x -> off <= len s -> len s <= sb_cap x -> Forall sbrow_ok s -> grid_okc (with_sb x s off).
Proof. intros [] H1 H2 H3. split; cbn; auto. Qed.

Lemma scroll_up_post x n : grid_ok x -> post x (scroll_up x n).
Proof.
  intros H. okdims. unfold scroll_up. rewrite sub16_ok by lia. cbn [bind].
  unfold scroll_region_active. rewrite sub16_ok by lia. cbn [bind].
  set (active := negb (top x =? 0) || negb (bot x =? grows x - 1)).
  set (step := fun g : grid => _).
  assert (forall y, grid_ok y /\ frame x y /\ top y = top x /\ bot y = bot x ->
                    exists z, step y = Ok z /\ (grid_ok z /\ frame x z /\ top z = top x /\ bot z = bot x)) as Hstep.
  { intros y (Oy & Fy & Ty & By). unfold step.
    destruct Oy as (Ky & Hry & Hcy). destruct Fy as [Fr Fc Fcap Fsb0].
    destruct (rotate2_ok (grows y) (gcols y) (live y) (top y) (bot y + 1)) as (l1 & r0 & l2 & E1 & E2 & Hl2 & [_ Hr0]).
    - split; [apply (gk_live _ Ky)|apply (gk_rowsok _ Ky)].
    - rewrite Ty, Fr. lia.
    - rewrite By, Fr. lia.
    - unfold new_row. rewrite E1. cbn [bind]. rewrite E2. cbn [bind].
      destruct Hl2 as [L2 F2].
      assert (grid_okc (with_live y l2)) as K1 by (apply okc_with_live; auto).
      destruct ((0 <? sb_cap (with_live y l2)) && negb active) eqn:Erec.
      + eexists; split; [reflexivity|]. cbn [sb_cap sb sb_off with_live] in *.
        set (s := trim_front (sb y ++ [r0]) (sb_cap y)).
        assert (len s <= sb_cap y) as Ls by (unfold s; rewrite len_trim_front; lia).
        split; [|split; [|split; [exact Ty|exact By]]].
        * split; [apply okc_with_sb; auto|cbn; auto].
          -- cbn. destruct (N.ltb_spec 0 (sb_off y)); lia.
          -- unfold s, trim_front. apply Forall_skipnN. apply Forall_app; split; [apply (gk_sbrows _ Ky)|].
             apply Forall_inv in Hr0. destruct Hr0 as [Hl5 Hc5]. pose proof (gk_cols _ Ky).
             constructor; [|constructor]. split; [exact Hc5|lia].
        * split; cbn; auto. intros Hz. rewrite Fcap, Hz in Erec. discriminate.
      + eexists; split; [reflexivity|]. split; [|split; [|split; [exact Ty|exact By]]].
        * split; [exact K1|cbn; auto].
        * split; cbn; auto. }
  destruct (iter_res_ok (fun y => grid_ok y /\ frame x y /\ top y = top x /\ bot y = bot x) step
                        (N.to_nat (N.min n (grows x - top x))) x) as (z & -> & Oz & Fz & _).
  - split; [exact H|]. split; [apply frame_refl|auto].
  - exact Hstep.
  - exists z. auto.
Qed.

Lemma scroll_up_cursor x n y : scroll_up x n = Ok y -> pcol y = pcol x /\ prow y = prow x.
Proof.
  unfold scroll_up. intros E. repeat bind_inv E.
  eapply (iter_res_inv (fun g => pcol g = pcol x /\ prow g = prow x)); [exact E|auto|].
  intros g g' Eg [P1 P2]. repeat bind_inv Eg. destruct v2 as [rem l2].
  destruct ((0 <? sb_cap (with_live g l2)) && negb v0); inv Eg; cbn; auto.
Qed.

(* ---- scrolling cursor moves ---- *)
Lemma post_weaken x y r : frame x y -> post y r -> post x r.
Proof. intros F (z & -> & Oz & Fz). exists z; split; [reflexivity|split; [exact Oz|]]. eapply frame_trans; eauto. Qed.

Lemma row_inc_scroll_post x n : grid_ok x ->
  exists y k, row_inc_scroll x n = Ok (y, k) /\ grid_ok y /\ frame x y /\ pcol y = pcol x /\ k <= 65535.
Proof.
  intros H. okdims. unfold row_inc_scroll. rewrite row_clamp_bottom_eq by (cbn; lia). cbn [bind].
  replace (with_prow (with_prow x (sat_add16 (prow x) n)) _)
    with (with_prow x (N.min (sat_add16 (prow x) n) (lower_limit x (in_scroll_region x))))
    by (unfold lower_limit; destruct x; reflexivity).
  replace (prow (with_prow x (sat_add16 (prow x) n)) - _)
    with (sat_add16 (prow x) n - lower_limit x (in_scroll_region x))
    by (unfold lower_limit; destruct x; reflexivity).
  set (x1 := with_prow _ _).
  assert (grid_ok x1) as Gx1.
  { unfold x1. apply ok_with_pos; auto. unfold lower_limit. destruct (in_scroll_region x); lia. }
  destruct (in_scroll_region x) eqn:Ein.
  - change (lower_limit x true) with (bot x).
    destruct (scroll_up_post x1 (sat_add16 (prow x) n - bot x) Gx1) as (y & E & Oy & Fy).
    rewrite E. cbn [bind].
    exists y, (sat_add16 (prow x) n - bot x). split; [reflexivity|]. split; [exact Oy|]. split; [eapply frame_trans; [apply frame_pos|exact Fy]|].
    split; [apply (scroll_up_cursor _ _ _ E)|unfold sat_add16, U16MAX; lia].
  - exists x1, 0. split; [reflexivity|]. split; [exact Gx1|]. split; [apply frame_pos|]. split; [reflexivity|lia].
Qed.

Lemma row_dec_scroll_post x n : grid_ok x -> n <= 65535 -> post x (row_dec_scroll x n).
Proof.
  intros H Hn. okdims. unfold row_dec_scroll. rewrite row_clamp_top_eq.
  set (inr := in_scroll_region x).
  replace (with_prow (with_prow x (sat_sub16 (prow x) n)) _)
    with (with_prow x (if inr then N.max (sat_sub16 (prow x) n) (top x) else sat_sub16 (prow x) n))
    by (destruct x; reflexivity).
  replace (if inr then top (with_prow x (sat_sub16 (prow x) n)) - prow (with_prow x (sat_sub16 (prow x) n)) else 0)
    with (if inr then top x - sat_sub16 (prow x) n else 0) by (destruct x; reflexivity).
  set (x1 := with_prow _ _).
  assert (grid_ok x1) as Gx1.
  { unfold x1. apply ok_with_pos; auto. unfold sat_sub16. destruct inr; lia. }
  rewrite add16_ok.
  2:{ unfold sat_sub16. unfold inr, in_scroll_region.
      destruct (N.leb_spec (top x) (prow x)), (N.leb_spec (prow x) (bot x)), (N.ltb_spec (prow x) n);
        cbn [andb]; unfold MAXDIM in *; lia. }
  cbn [bind]. eapply post_weaken; [apply frame_pos|]. apply scroll_down_post. exact Gx1.
Qed.

Lemma col_wrap_post x width wrap : grid_ok x -> width <= gcols x -> post x (col_wrap x width wrap).
Proof.
  intros H Hw. okdims. unfold col_wrap. rewrite sub16_ok by lia. cbn [bind].
  destruct (N.ltb_spec (gcols x - width) (pcol x)); [|apply post_ok; [exact H|apply frame_refl]].
  assert (grid_ok (with_pcol x 0)) as Gx0 by (apply ok_with_pos; auto; lia).
  destruct (row_inc_scroll_post (with_pcol x 0) 1 Gx0) as (y & k & -> & Oy & Fy & Py & Hk). cbn [bind].
  cbn [prow with_pcol with_pos].
  destruct (N.leb_spec k (prow x)); [|apply post_ok; [exact Oy|eapply frame_trans; [apply frame_pos|exact Fy]]].
  assert (prow x - k < grows y) as Hlt by (rewrite (fr_rows _ _ Fy); cbn; lia).
  rewrite add16_ok by (unfold MAXDIM in *; lia). cbn [bind].
  eapply post_weaken; [eapply frame_trans; [apply frame_pos|exact Fy]|].
  apply upd_row_post; [exact Oy|exact Hlt|].
  intros rw Hrw. eexists; split; [reflexivity|]. now apply row_wrap_ok.
Qed.

Lemma grid_set_scrollback_post x k : grid_ok x -> post x (Ok (grid_set_scrollback x k)).
Proof.
  intros (K & Hr & Hc). apply post_ok.
  - split; [|cbn; auto]. apply okc_with_sb; auto; [lia|apply (gk_sbcap _ K)|apply (gk_sbrows _ K)].
  - split; cbn; auto.
Qed.

(* ---- construction, clearing, resizing ---- *)
Lemma allocate_rows_ok x : grid_okc (with_live x (repeatN (row_new (gcols x)) (grows x))) -> True.
Proof. auto. Qed.

(* a grid as created by Grid::new, before its rows are allocated *)
Record grid_shape (x : grid) : Prop := mkShape {
  sh_rows : 1 <= grows x /\ grows x <= MAXDIM;
  sh_cols : 1 <= gcols x /\ gcols x <= MAXDIM;
  sh_prow : prow x < grows x; sh_pcol : pcol x <= gcols x;
  sh_sprow : sprow x < grows x; sh_spcol : spcol x <= gcols x;
  sh_bot : bot x < grows x;
  sh_region : top x < bot x \/ (top x = 0 /\ bot x = grows x - 1);
  sh_sboff : sb_off x <= len (sb x);
  sh_sbcap : len (sb x) <= sb_cap x;
  sh_sbrows : Forall sbrow_ok (sb x) }.

(* allocated or not: what every grid of a screen satisfies *)
Definition grid_ok0 (x : grid) : Prop := grid_shape x /\ (live x = [] \/ grid_ok x).

Lemma grid_ok_shape x : grid_ok x -> grid_shape x.
Proof. intros ([] & ? & ?). split; auto. Qed.

Lemma grid_ok_ok0 x : grid_ok x -> grid_ok0 x.
Proof. intros H. split; [now apply grid_ok_shape|now right]. Qed.

Lemma shape_alloc_ok x : grid_shape x -> len (live x) = grows x -> Forall (row_ok (gcols x)) (live x) -> grid_ok x.
Proof. intros [] Hl Hf. split; [split; auto|auto]. Qed.

Lemma allocate_rows_post x : grid_ok0 x -> grid_ok (allocate_rows x) /\ frame x (allocate_rows x).
Proof.
  intros [Sh [Hl|Hok]]; unfold allocate_rows.
  - rewrite Hl. split; [|apply frame_live].
    apply shape_alloc_ok; cbn.
    + destruct Sh. split; auto.
    + apply len_repeatN.
    + apply Forall_repeatN, row_new_ok.
  - destruct (live x) eqn:E; [|split; [exact Hok|apply frame_refl]].
    destruct Hok as (K & _). pose proof (gk_live _ K) as L. pose proof (gk_rows _ K). rewrite E in L. cbn in L. lia.
Qed.

Lemma grid_new_ok0 rows cols cap : 1 <= rows <= MAXDIM -> 1 <= cols <= MAXDIM ->
  exists x, grid_new rows cols cap = Ok x /\ grid_ok0 x /\ grows x = rows /\ gcols x = cols /\ sb_cap x = cap /\ sb x = [] /\ live x = [].
Proof.
  intros Hr Hc. unfold grid_new. rewrite sub16_ok by lia. cbn [bind].
  eexists; split; [reflexivity|]. cbn. repeat split; cbn; auto; try lia.
Qed.

Lemma grid_clear_post x : grid_ok0 x ->
  exists y, grid_clear x = Ok y /\ grid_ok0 y /\ frame x y /\ sb y = sb x /\ (grid_ok x -> grid_ok y).
Proof.
  intros [Sh Hl]. unfold grid_clear. pose proof (sh_rows _ Sh). rewrite sub16_ok by lia. cbn [bind].
  eexists; split; [reflexivity|].
  assert (grid_shape (mkGrid (grows x) (gcols x) 0 0 0 0 (map (row_clear dflt) (live x)) 0 (grows x - 1) false false
                             (sb x) (sb_cap x) (sb_off x))) as Sh'.
  { destruct Sh. split; cbn; auto; lia. }
  assert (grid_ok x -> grid_ok (mkGrid (grows x) (gcols x) 0 0 0 0 (map (row_clear dflt) (live x)) 0 (grows x - 1) false false
                             (sb x) (sb_cap x) (sb_off x))) as Hok'.
  { intros (K & _).
    apply shape_alloc_ok; [exact Sh'| |]; cbn.
    - rewrite len_map. apply (gk_live _ K).
    - apply Forall_map'. intros rw Hin. apply row_clear_ok.
      pose proof (gk_rowsok _ K) as F. rewrite Forall_forall in F. apply (F rw Hin). }
  split; [|split; [split; reflexivity|split; [reflexivity|exact Hok']]].
  split; [exact Sh'|].
  destruct Hl as [Hl|Hok]; [left; cbn; now rewrite Hl|right; auto].
Qed.

(* Grid::set_size *)
Lemma grid_set_size_post x rows cols : grid_ok0 x -> 1 <= rows <= MAXDIM -> 1 <= cols <= MAXDIM ->
  exists y, grid_set_size x rows cols = Ok y /\ grid_ok y /\ grows y = rows /\ gcols y = cols /\
            sb_cap y = sb_cap x /\ sb y = sb x.
Proof.
  intros [Sh Hl] Hr Hc. unfold grid_set_size.
  pose proof (sh_rows _ Sh). rewrite !sub16_ok by lia. cbn [bind].
  set (l1 := if negb (cols =? gcols x) then map (row_wrap false) (live x) else live x).
  set (l3 := resize_list (map (fun r => row_resize r cols cell_new) l1) rows (row_new cols)).
  set (b1 := if bot x =? grows x - 1 then rows - 1 else bot x).
  set (b2 := if rows <=? b1 then rows - 1 else b1).
  set (t2 := if b2 <=? top x then 0 else top x).
  set (g1 := mkGrid rows cols (prow x) (pcol x) (sprow x) (spcol x) l3 t2 b2 (origin x) (sorigin x) (sb x) (sb_cap x) (sb_off x)).
  rewrite row_clamp_top_eq. rewrite row_clamp_bottom_eq by (cbn; lia). cbn [bind].
  rewrite col_clamp_eq by (cbn; lia). cbn [bind].
  eexists; split; [reflexivity|].
  assert (Forall (fun r => cells_ok (cells r)) l1) as F1.
  { unfold l1. destruct Hl as [Hl|(K & _)].
    - rewrite Hl. destruct (negb (cols =? gcols x)); constructor.
    - pose proof (gk_rowsok _ K) as F.
      destruct (negb (cols =? gcols x)).
      + apply Forall_map'. intros rw Hin. rewrite Forall_forall in F. apply (F rw Hin).
      + eapply Forall_impl; [|exact F]. intros rw [_ Hk]. exact Hk. }
  assert (Forall (row_ok cols) l3) as F3.
  { unfold l3. apply Forall_resize_list; [|apply row_new_ok].
    apply Forall_map'. intros rw Hin. apply row_resize_ok; [|lia].
    rewrite Forall_forall in F1. apply (F1 rw Hin). }
  assert (len l3 = rows) as L3 by (unfold l3; apply len_resize_list).
  assert (b2 < rows) as Hb2 by (unfold b2, b1; destruct (N.leb_spec rows (if bot x =? grows x - 1 then rows - 1 else bot x)); lia).
  assert (t2 < b2 \/ (t2 = 0 /\ b2 = rows - 1)) as Hreg.
  { pose proof (sh_region _ Sh) as R. pose proof (sh_bot _ Sh) as B. unfold t2.
    destruct (N.leb_spec b2 (top x)) as [Hle|Hgt]; [right|left; lia].
    split; [reflexivity|]. unfold b2, b1 in *.
    destruct (N.eqb_spec (bot x) (grows x - 1)); destruct (N.leb_spec rows (rows - 1)); try lia;
      destruct (N.leb_spec rows (bot x)); lia. }
  split; [|cbn; auto].
  split; [|cbn; lia].
  destruct Sh. split; cbn; auto; try lia.
Qed.
