(* SbSpec.v — C12, parts 1 and 3: closed form of scroll_up (rows, history, offset) and of the
   scrolled-back view, for grids satisfying the structural invariant grid_ok. *)
Require Import Tac ListN Attrs Cell Row Grid RowInv GridInv.
Open Scope N_scope.

(* case-split every comparison in the goal, closing arithmetic contradictions *)
Ltac ncases :=
  repeat match goal with
  | |- context[N.eqb ?a ?b] => destruct (N.eqb_spec a b); try lia
  | |- context[N.ltb ?a ?b] => destruct (N.ltb_spec a b); try lia
  | |- context[N.leb ?a ?b] => destruct (N.leb_spec a b); try lia
  end.

(* ---- list facts ---- *)
Lemma firstnN_all {A} n (l : list A) : len l <= n -> firstnN n l = l.
Proof. unfold firstnN, len. intros H. apply firstn_all2. lia. Qed.
Lemma skipnN_0 {A} (l : list A) : skipnN 0 l = l.
Proof. reflexivity. Qed.
Lemma skipnN_all {A} n (l : list A) : len l <= n -> skipnN n l = [].
Proof. unfold skipnN, len. intros H. apply skipn_all2. lia. Qed.
Lemma firstnN_0 {A} (l : list A) : firstnN 0 l = [].
Proof. reflexivity. Qed.

Lemma firstnN_succ {A} (l : list A) j a : get l j = Some a -> firstnN (j + 1) l = firstnN j l ++ [a].
Proof.
  intros G. apply list_ext_get. intros i.
  rewrite get_app, !get_firstnN, len_firstnN, get_cons.
  pose proof (get_some_lt _ _ _ G) as Hlt.
  ncases; try reflexivity.
  - subst. replace i with j by lia. exact G.
  - symmetry. unfold get. destruct (N.to_nat (i - N.min j (len l) - 1)); reflexivity.
Qed.

Lemma trim_front_small {A} (l : list A) cap : len l <= cap -> trim_front l cap = l.
Proof. intros H. unfold trim_front. replace (len l - cap) with 0 by lia. reflexivity. Qed.

Lemma get_trim_front {A} (l : list A) cap i : get (trim_front l cap) i = get l (len l - cap + i).
Proof. unfold trim_front. apply get_skipnN. Qed.

(* trimming after every push = trimming once at the end *)
Lemma trim_front_app {A} (a b : list A) cap :
  trim_front (trim_front a cap ++ b) cap = trim_front (a ++ b) cap.
Proof.
  apply list_ext_get. intros i.
  rewrite !get_trim_front, !get_app, !len_app, !len_trim_front, get_trim_front.
  ncases; f_equal; lia.
Qed.

(* ---- the rows after j one-line scrolls of the region [t, b] ---- *)
Definition sul (l : list row) (t b j : N) (nw : row) : list row :=
  firstnN t l ++ firstnN (b - t + 1 - j) (skipnN (t + j) l) ++ repeatN nw (N.min j (b - t + 1)) ++ skipnN (b + 1) l.

Lemma len_sul l t b j nw : t <= b -> b < len l -> len (sul l t b j nw) = len l.
Proof.
  intros H1 H2. unfold sul. rewrite !len_app, !len_firstnN, len_repeatN, !len_skipnN. lia.
Qed.

Lemma get_sul l t b j nw i : t <= b -> b < len l ->
  get (sul l t b j nw) i =
  if i <? t then get l i
  else if i <? t + (b - t + 1 - j) then get l (i + j)
  else if i <=? b then Some nw else get l i.
Proof.
  intros H1 H2. unfold sul.
  rewrite !get_app, !len_firstnN, !get_firstnN, !len_skipnN, !get_skipnN, len_repeatN, get_repeatN.
  ncases; try reflexivity; f_equal; lia.
Qed.

Lemma sul_0 l t b nw : t <= b -> b < len l -> sul l t b 0 nw = l.
Proof.
  intros H1 H2. apply list_ext_get. intros i. rewrite get_sul by assumption.
  ncases; try reflexivity; f_equal; lia.
Qed.

(* one iteration: insert a fresh row below the region, remove the region's top row *)
Lemma sul_step l t b j nw : t <= b -> b < len l ->
  exists r, insert_at (sul l t b j nw) (b + 1) nw
              = Ok (firstnN (b + 1) (sul l t b j nw) ++ nw :: skipnN (b + 1) (sul l t b j nw)) /\
            remove_at (firstnN (b + 1) (sul l t b j nw) ++ nw :: skipnN (b + 1) (sul l t b j nw)) t
              = Ok (r, sul l t b (j + 1) nw) /\
            get (sul l t b j nw) t = Some r.
Proof.
  intros H1 H2. pose proof (len_sul l t b j nw H1 H2) as L.
  destruct (get_lt_some (sul l t b j nw) t) as (r & Gr); [lia|].
  exists r. split; [apply insert_at_ok; lia|]. split; [|exact Gr].
  set (l1 := firstnN (b + 1) (sul l t b j nw) ++ nw :: skipnN (b + 1) (sul l t b j nw)).
  assert (len l1 = len l + 1) as L1 by (unfold l1; rewrite len_insert; lia).
  assert (get l1 t = Some r) as G1.
  { unfold l1. rewrite get_insert by lia. destruct (N.ltb_spec t (b + 1)); [exact Gr|lia]. }
  rewrite (remove_at_ok _ _ _ G1). f_equal. f_equal.
  apply list_ext_get. intros i.
  rewrite get_remove by lia. unfold l1. rewrite !get_insert by lia. rewrite !get_sul by assumption.
  ncases; try reflexivity; f_equal; lia.
Qed.

Lemma get_sul_top l t b j nw : t <= b -> b < len l ->
  get (sul l t b j nw) t = if j <? b - t + 1 then get l (t + j) else Some nw.
Proof. intros H1 H2. rewrite get_sul by assumption. ncases; reflexivity. Qed.

(* ---- Part 1: scroll_up in closed form ---- *)
Definition su_count (x : grid) (n : N) : N := N.min n (grows x - top x).
Definition su_height (x : grid) : N := bot x - top x + 1.

(* rows above the region ++ the region shifted up by k ++ min k height blank rows ++ rows below *)
Definition su_live (x : grid) (k : N) : list row :=
  firstnN (top x) (live x) ++
  firstnN (su_height x - k) (skipnN (top x + k) (live x)) ++
  repeatN (row_new (gcols x)) (N.min k (su_height x)) ++
  skipnN (bot x + 1) (live x).

(* lines are recorded iff the capacity is positive and no scroll region is active *)
Definition su_rec (x : grid) : bool := (0 <? sb_cap x) && (top x =? 0) && (bot x =? grows x - 1).

Definition su_sb (x : grid) (k : N) : list row :=
  if su_rec x then trim_front (sb x ++ firstnN k (live x)) (sb_cap x) else sb x.

Definition su_off (x : grid) (k : N) : N :=
  if su_rec x && (0 <? sb_off x) then N.min (len (su_sb x k)) (sb_off x + k) else sb_off x.

Definition su_result (x : grid) (k : N) : grid := with_sb (with_live x (su_live x k)) (su_sb x k) (su_off x k).

Lemma su_live_sul x k : su_live x k = sul (live x) (top x) (bot x) k (row_new (gcols x)).
Proof. reflexivity. Qed.

Lemma su_result_0 x : grid_ok x -> su_result x 0 = x.
Proof.
  intros H. okdims. pose proof (gk_live _ K) as Ll. pose proof (gk_sboff _ K). pose proof (gk_sbcap _ K).
  unfold su_result. rewrite su_live_sul, sul_0 by lia.
  assert (su_sb x 0 = sb x) as Es.
  { unfold su_sb. destruct (su_rec x); [|reflexivity]. rewrite firstnN_0, app_nil_r. now apply trim_front_small. }
  assert (su_off x 0 = sb_off x) as Eo.
  { unfold su_off. rewrite Es. destruct (su_rec x && (0 <? sb_off x)); lia. }
  rewrite Es, Eo. destruct x; reflexivity.
Qed.

Lemma region_active_eq x : grid_ok x ->
  scroll_region_active x = Ok (negb ((top x =? 0) && (bot x =? grows x - 1))).
Proof.
  intros H. okdims. unfold scroll_region_active. rewrite sub16_ok by lia. cbn [bind].
  f_equal. destruct (top x =? 0), (bot x =? grows x - 1); reflexivity.
Qed.

(* one loop iteration takes the j-th closed form to the (j+1)-th *)
Lemma su_step x j : grid_ok x -> j < grows x - top x ->
  (let g := su_result x j in
   do l1 <- insert_at (live g) (bot g + 1) (new_row g);
   do '(removed, l2) <- remove_at l1 (top g);
   let g1 := with_live g l2 in
   if (0 <? sb_cap g1) && negb (negb ((top x =? 0) && (bot x =? grows x - 1))) then
     let s := trim_front (sb g1 ++ [removed]) (sb_cap g1) in
     let off := if 0 <? sb_off g1 then N.min (len s) (sb_off g1 + 1) else sb_off g1 in
     Ok (with_sb g1 s off)
   else Ok g1) = Ok (su_result x (j + 1)).
Proof.
  intros H Hj. okdims. pose proof (gk_live _ K) as Ll. pose proof (gk_sboff _ K) as Ho. pose proof (gk_sbcap _ K) as Hcap.
  cbv zeta. unfold su_result, new_row.
  cbn [grows gcols prow pcol sprow spcol live top bot origin sorigin sb sb_cap sb_off with_sb with_live].
  rewrite su_live_sul.
  destruct (sul_step (live x) (top x) (bot x) j (row_new (gcols x))) as (r & E1 & E2 & Gr); [lia|lia|].
  rewrite E1. cbn [bind]. rewrite E2. cbn [bind].
  rewrite negb_involutive.
  assert (su_rec x = (0 <? sb_cap x) && ((top x =? 0) && (bot x =? grows x - 1))) as Erec
    by (unfold su_rec; now rewrite andb_assoc).
  rewrite <- Erec. rewrite <- su_live_sul.
  destruct (su_rec x) eqn:Hrec.
  - (* recording: region inactive, so the removed row is row j of the original screen *)
    assert (0 < sb_cap x /\ top x = 0 /\ bot x = grows x - 1) as (Hc0 & Ht & Hb).
    { unfold su_rec in Hrec. apply andb_prop in Hrec as [Hrec H3']. apply andb_prop in Hrec as [H1' H2']. lia. }
    assert (get (live x) j = Some r) as Gj.
    { rewrite <- Gr, get_sul_top by lia. destruct (N.ltb_spec j (bot x - top x + 1)); [|lia].
      f_equal. lia. }
    assert (su_sb x (j + 1) = trim_front (su_sb x j ++ [r]) (sb_cap x)) as Es.
    { unfold su_sb. rewrite Hrec. rewrite trim_front_app, <- app_assoc, <- (firstnN_succ _ _ _ Gj). reflexivity. }
    assert (len (su_sb x j) = N.min (len (sb x) + j) (sb_cap x)) as Lj.
    { unfold su_sb. rewrite Hrec, len_trim_front, len_app, len_firstnN. lia. }
    assert ((if 0 <? su_off x j
             then N.min (len (trim_front (su_sb x j ++ [r]) (sb_cap x))) (su_off x j + 1)
             else su_off x j) = su_off x (j + 1)) as Eo.
    { unfold su_off. rewrite Hrec. cbn [andb]. rewrite Es.
      rewrite !len_trim_front, !len_app, Lj. change (len [r]) with 1.
      destruct (N.ltb_spec 0 (sb_off x)).
      + destruct (N.ltb_spec 0 (N.min (N.min (len (sb x) + j) (sb_cap x)) (sb_off x + j))); lia.
      + destruct (N.ltb_spec 0 (sb_off x)); lia. }
    rewrite Eo, <- Es. reflexivity.
  - (* not recording *)
    unfold su_sb, su_off. rewrite Hrec. reflexivity.
Qed.

Theorem scroll_up_eq x n : grid_ok x -> scroll_up x n = Ok (su_result x (su_count x n)).
Proof.
  intros H. okdims. unfold scroll_up. rewrite sub16_ok by lia. cbn [bind].
  rewrite region_active_eq by exact H. cbn [bind].
  unfold su_count. set (k := N.min n (grows x - top x)).
  assert (k <= grows x - top x) as Hk by (unfold k; lia).
  clearbody k.
  set (step := fun g : grid => _).
  assert (forall m j, N.of_nat m + j = k -> iter_res m step (su_result x j) = Ok (su_result x k)) as G.
  { induction m as [|m IH]; intros j Hm; cbn [iter_res].
    - replace j with k by lia. reflexivity.
    - assert (step (su_result x j) = Ok (su_result x (j + 1))) as ->.
      { unfold step. apply (su_step x j H). lia. }
      cbn [bind]. apply IH. lia. }
  rewrite <- (su_result_0 x H) at 1. apply G. lia.
Qed.

Lemma su_rec_iff x : su_rec x = true <-> 0 < sb_cap x /\ top x = 0 /\ bot x = grows x - 1.
Proof.
  unfold su_rec. rewrite !andb_true_iff, N.ltb_lt, !N.eqb_eq. tauto.
Qed.

(* the statement of the task, field by field *)
Theorem scroll_up_spec x n y : grid_ok x -> scroll_up x n = Ok y ->
  let k := N.min n (grows x - top x) in
  let h := bot x - top x + 1 in
  live y = firstnN (top x) (live x) ++ firstnN (h - k) (skipnN (top x + k) (live x)) ++
           repeatN (row_new (gcols x)) (N.min k h) ++ skipnN (bot x + 1) (live x) /\
  (0 < sb_cap x /\ top x = 0 /\ bot x = grows x - 1 ->
     sb y = trim_front (sb x ++ firstnN k (live x)) (sb_cap x) /\
     sb_off y = (if 0 <? sb_off x then N.min (len (sb y)) (sb_off x + k) else 0)) /\
  (sb_cap x = 0 \/ top x <> 0 \/ bot x <> grows x - 1 -> sb y = sb x /\ sb_off y = sb_off x) /\
  y = with_sb (with_live x (live y)) (sb y) (sb_off y).
Proof.
  intros H E. rewrite (scroll_up_eq x n H) in E. inv E. cbv zeta.
  unfold su_result, su_count. cbn [live sb sb_off with_sb with_live].
  split; [reflexivity|]. split; [|split; [|reflexivity]].
  - intros Hrec. apply su_rec_iff in Hrec. unfold su_off, su_sb. rewrite Hrec. cbn [andb].
    split; [reflexivity|]. pose proof (gk_sboff _ (proj1 H)).
    destruct (N.ltb_spec 0 (sb_off x)); [reflexivity|lia].
  - intros Hno. assert (su_rec x = false) as Hrec.
    { destruct (su_rec x) eqn:Hr; [|reflexivity]. apply su_rec_iff in Hr. lia. }
    unfold su_off, su_sb. rewrite Hrec. auto.
Qed.

(* rows outside the region never move -- also when the count exceeds the region height *)
Theorem scroll_up_outside x n y i : grid_ok x -> scroll_up x n = Ok y ->
  i < top x \/ bot x < i -> get (live y) i = get (live x) i.
Proof.
  intros H E Hi. okdims. pose proof (gk_live _ K) as Ll.
  rewrite (scroll_up_eq x n H) in E. inv E. unfold su_result. cbn [live with_sb with_live].
  rewrite su_live_sul, get_sul by lia. ncases; reflexivity.
Qed.

(* inside the region: shifted up by k, blank below *)
Theorem scroll_up_inside x n y i : grid_ok x -> scroll_up x n = Ok y ->
  top x <= i <= bot x ->
  get (live y) i = if i + N.min n (grows x - top x) <=? bot x then get (live x) (i + N.min n (grows x - top x))
                   else Some (row_new (gcols x)).
Proof.
  intros H E Hi. okdims. pose proof (gk_live _ K) as Ll.
  rewrite (scroll_up_eq x n H) in E. inv E. unfold su_result, su_count. cbn [live with_sb with_live].
  rewrite su_live_sul, get_sul by lia. ncases; reflexivity.
Qed.

(* the history is a suffix of old history ++ removed lines: nothing is reordered or altered *)
Lemma trim_front_suffix {A} (l : list A) cap : l = firstnN (len l - cap) l ++ trim_front l cap.
Proof. unfold trim_front, firstnN, skipnN. symmetry. apply firstn_skipn. Qed.

Theorem scroll_up_history x n y : grid_ok x -> scroll_up x n = Ok y ->
  0 < sb_cap x -> top x = 0 -> bot x = grows x - 1 ->
  let k := N.min n (grows x) in
  let all := sb x ++ firstnN k (live x) in
  all = firstnN (len all - sb_cap x) all ++ sb y /\
  len (sb y) = N.min (len (sb x) + k) (sb_cap x) /\
  (forall i, i < k -> get (firstnN k (live x)) i = get (live x) i).
Proof.
  intros H E Hc Ht Hb. cbv zeta. okdims. pose proof (gk_live _ K) as Ll.
  destruct (scroll_up_spec x n y H E) as (_ & Hrec & _). destruct Hrec as (Hs & _); [auto|].
  rewrite Ht, N.sub_0_r in Hs. rewrite Hs. split; [apply trim_front_suffix|]. split.
  - rewrite len_trim_front, len_app, len_firstnN. lia.
  - intros i Hi. rewrite get_firstnN. destruct (N.ltb_spec i (N.min n (grows x))); [reflexivity|lia].
Qed.

(* ---- Part 3: the view ---- *)
Definition lastnN {A} (k : N) (l : list A) : list A := skipnN (len l - k) l.

Lemma len_lastnN {A} k (l : list A) : len (lastnN k l) = N.min k (len l).
Proof. unfold lastnN. rewrite len_skipnN. lia. Qed.

(* visible_rows never panics on a grid_ok grid, and is given by the model's formula *)
Theorem visible_rows_eq x : grid_ok x ->
  visible_rows x = Ok (firstnN (grows x) (lastnN (sb_off x) (sb x)) ++ firstnN (grows x - sb_off x) (live x)).
Proof.
  intros (K & _). unfold visible_rows, subz. pose proof (gk_sboff _ K).
  destruct (N.leb_spec (sb_off x) (len (sb x))); [|lia]. cbn [bind]. rewrite (gk_live _ K). reflexivity.
Qed.

(* offset within the screen: the last k history lines, then the first rows-k live lines *)
Theorem visible_rows_small x : grid_ok x -> sb_off x <= grows x ->
  visible_rows x = Ok (lastnN (sb_off x) (sb x) ++ firstnN (grows x - sb_off x) (live x)).
Proof.
  intros H Hk. rewrite visible_rows_eq by exact H. rewrite firstnN_all; [reflexivity|].
  rewrite len_lastnN. lia.
Qed.

(* offset beyond the screen: a window of rows history lines starting at len sb - off *)
Theorem visible_rows_large x : grid_ok x -> grows x <= sb_off x ->
  visible_rows x = Ok (firstnN (grows x) (skipnN (len (sb x) - sb_off x) (sb x))).
Proof.
  intros H Hk. rewrite visible_rows_eq by exact H.
  replace (grows x - sb_off x) with 0 by lia. rewrite firstnN_0, app_nil_r. reflexivity.
Qed.

Theorem visible_rows_len x v : grid_ok x -> visible_rows x = Ok v -> len v = grows x.
Proof.
  intros H E. rewrite visible_rows_eq in E by exact H. inv E. destruct H as (K & _).
  pose proof (gk_sboff _ K). rewrite len_app, !len_firstnN, len_lastnN, (gk_live _ K). lia.
Qed.

(* row by row *)
Theorem visible_rows_get x v i : grid_ok x -> visible_rows x = Ok v -> i < grows x ->
  get v i = if i <? sb_off x then get (sb x) (len (sb x) - sb_off x + i) else get (live x) (i - sb_off x).
Proof.
  intros H E Hi. rewrite visible_rows_eq in E by exact H. inv E. destruct H as (K & _).
  pose proof (gk_sboff _ K). pose proof (gk_live _ K).
  unfold lastnN. rewrite get_app, !len_firstnN, len_skipnN, !get_firstnN, get_skipnN.
  ncases; try reflexivity; f_equal; lia.
Qed.

Theorem visible_rows_off0 x : grid_ok x -> sb_off x = 0 -> visible_rows x = Ok (live x).
Proof.
  intros H H0. rewrite visible_rows_small by (try exact H; lia). rewrite H0.
  unfold lastnN. rewrite N.sub_0_r, skipnN_all by lia. cbn [app].
  rewrite firstnN_all; [reflexivity|]. destruct H as (K & _). rewrite (gk_live _ K). lia.
Qed.

(* set_scrollback: clamp, store, nothing else *)
Theorem grid_set_scrollback_eq x k :
  grid_set_scrollback x k = with_sb x (sb x) (N.min k (len (sb x))).
Proof. reflexivity. Qed.

Theorem set_scrollback_view x k : grid_ok x ->
  let k' := N.min k (len (sb x)) in
  sb_off (grid_set_scrollback x k) = k' /\
  grid_ok (grid_set_scrollback x k) /\
  (k' <= grows x ->
     visible_rows (grid_set_scrollback x k) = Ok (lastnN k' (sb x) ++ firstnN (grows x - k') (live x))).
Proof.
  intros H. cbv zeta. split; [reflexivity|].
  destruct (grid_set_scrollback_post x k H) as (y & E & Oy & _). inv E.
  split; [exact Oy|]. intros Hk. rewrite visible_rows_small; [reflexivity|exact Oy|exact Hk].
Qed.

(* ---- new output keeps the same lines in view ---- *)
(* While scrolled back (offset > 0) and as long as the lines in view are not pushed out of the
   bounded history (offset + k <= capacity), a recording scroll changes nothing on screen. *)
Theorem scroll_up_view_stable x n y : grid_ok x -> scroll_up x n = Ok y ->
  0 < sb_cap x -> top x = 0 -> bot x = grows x - 1 ->
  0 < sb_off x -> sb_off x + N.min n (grows x) <= sb_cap x ->
  sb_off y = sb_off x + N.min n (grows x) /\ visible_rows y = visible_rows x.
Proof.
  intros H E Hc Ht Hb Ho Hfit.
  destruct (scroll_up_post x n H) as (y' & E' & Oy & Fy). rewrite E in E'. inv E'.
  destruct (scroll_up_spec x n y' H E) as (Hl & Hrec & _ & _). destruct Hrec as (Hs & Hoff); [auto|].
  okdims_in H. pose proof (gk_live _ K) as Ll. pose proof (gk_sboff _ K) as Hso. pose proof (gk_sbcap _ K) as Hsc.
  assert (forall j, get (live y') j =
            if j <? top x then get (live x) j
            else if j <? top x + (bot x - top x + 1 - N.min n (grows x - top x)) then get (live x) (j + N.min n (grows x - top x))
            else if j <=? bot x then Some (row_new (gcols x)) else get (live x) j) as Hg.
  { intros j. rewrite Hl. apply (get_sul (live x) (top x) (bot x) (N.min n (grows x - top x)) (row_new (gcols x))); lia. }
  clear Hl.
  rewrite Ht, N.sub_0_r in *. set (k := N.min n (grows x)) in *.
  assert (len (sb y') = N.min (len (sb x) + k) (sb_cap x)) as Ls.
  { rewrite Hs, len_trim_front, len_app, len_firstnN. lia. }
  assert (sb_off y' = sb_off x + k) as Eo.
  { rewrite Hoff. destruct (N.ltb_spec 0 (sb_off x)); lia. }
  split; [exact Eo|].
  destruct (visible_rows x) as [v|] eqn:Ev; [|rewrite visible_rows_eq in Ev by exact H; discriminate].
  destruct (visible_rows y') as [v'|] eqn:Ev'; [|rewrite visible_rows_eq in Ev' by exact Oy; discriminate].
  f_equal. apply list_ext_get. intros i.
  pose proof (visible_rows_len _ _ H Ev) as Lv. pose proof (visible_rows_len _ _ Oy Ev') as Lv'.
  pose proof (fr_rows _ _ Fy) as Gr.
  destruct (N.ltb_spec i (grows x)) as [Hi|Hi].
  2:{ assert (get v' i = None) as -> by (apply get_none_ge; lia). symmetry. apply get_none_ge. lia. }
  rewrite (visible_rows_get _ _ _ H Ev Hi), (visible_rows_get _ _ _ Oy Ev') by lia.
  rewrite Eo, Ls, Hs, get_trim_front, Hg, len_app, len_firstnN, Ll.
  rewrite get_app, get_firstnN.
  ncases; try reflexivity; f_equal; lia.
Qed.
