(* WfVte.v — every character the vte parser prints is a Unicode scalar value,
   and the pending partial UTF-8 bytes stay below 256. *)
Require Import Tac Utf8 Vte.
Require Import ListN.
Require Import Utf8Lemmas.
Open Scope N_scope.

Definition action_scalar (a : action) : Prop :=
  match a with APrint c => is_scalar c = true | _ => True end.

Definition bytes (bs : list N) : Prop := Forall (fun b => b < 256) bs.
Definition pbytes (p : pstate) : Prop := bytes (partial p).

Lemma is_scalar_REPL : is_scalar REPL = true. Proof. vm_compute. reflexivity. Qed.
Lemma is_scalar_0 : is_scalar 0 = true. Proof. vm_compute. reflexivity. Qed.

(* decode1 checks all the ranges itself: no hypothesis on the bytes is needed *)
Lemma ok3_spec' a b : ok3 a b = true ->
  224 <= a <= 239 /\ 128 <= b <= 191 /\ (a = 224 -> 160 <= b) /\ (a = 237 -> b <= 159).
Proof.
  unfold ok3, in_range.
  repeat match goal with |- context[if ?c then _ else _] => destruct c eqn:? end; lia.
Qed.

Lemma ok4_spec' a b : ok4 a b = true ->
  240 <= a <= 244 /\ 128 <= b <= 191 /\ (a = 240 -> 144 <= b) /\ (a = 244 -> b <= 143).
Proof.
  unfold ok4, in_range.
  repeat match goal with |- context[if ?c then _ else _] => destruct c eqn:? end; lia.
Qed.

Ltac okspec' :=
  repeat match goal with
  | H : ok3 _ _ = true |- _ => apply ok3_spec' in H
  | H : ok4 _ _ = true |- _ => apply ok4_spec' in H
  end.

Lemma decode1_scalar_strong bs c n : decode1 bs = DChar c n -> is_scalar c = true.
Proof.
  intros H; dec_start bs; dsplit; try discriminate; inv H; okspec'; unfold is_scalar; lia.
Qed.

Lemma decode1_scalar bs c n : decode1 bs = DChar c n -> bytes bs -> is_scalar c = true.
Proof. intros H _. eapply decode1_scalar_strong; eauto. Qed.

Definition scalars (cs : list N) : Prop := Forall (fun c => is_scalar c = true) cs.

Lemma from_utf8_scalar_aux n : forall bs, (length bs <= n)%nat -> forall chars valid stop,
  from_utf8 bs = (chars, valid, stop) -> scalars chars.
Proof.
  induction n as [|n IH]; intros bs Hn chars valid stop H; rewrite from_utf8_unfold in H.
  - destruct bs; [|cbn [length] in Hn; lia]. cbn in H. inv H. constructor.
  - destruct (decode1 bs) as [c k| | |] eqn:E.
    + pose proof (decode1_char_inv _ _ _ E) as (E1 & E2 & _).
      destruct (from_utf8 (skipnN k bs)) as [[chars' valid'] stop'] eqn:F.
      inv H. constructor; [eapply decode1_scalar_strong; eauto|].
      eapply IH; [|exact F]. unfold skipnN; rewrite skipn_length; unfold len in *; lia.
    + inv H. constructor.
    + inv H. constructor.
    + inv H. constructor.
Qed.

Lemma from_utf8_scalar bs chars valid stop : from_utf8 bs = (chars, valid, stop) -> scalars chars.
Proof. apply (from_utf8_scalar_aux (length bs)); lia. Qed.

Lemma hd_scalar cs : scalars cs -> is_scalar (hd 0 cs) = true.
Proof. intros H. destruct H as [|c cs Hc _]; [apply is_scalar_0|exact Hc]. Qed.

Lemma ground_action_scalar c : is_scalar c = true -> action_scalar (ground_action c).
Proof. intros H. unfold ground_action. destruct ((c <=? 31) || rng 128 159 c); [exact I|exact H]. Qed.

Lemma map_ground_scalar cs : scalars cs -> Forall action_scalar (map ground_action cs).
Proof.
  intros H. induction H as [|c cs Hc _ IH]; cbn [map]; constructor; [now apply ground_action_scalar|exact IH].
Qed.

Lemma advance_ground_scalar p bs q a n : advance_ground p bs = (q, a, n) -> Forall action_scalar a.
Proof.
  unfold advance_ground. intros H.
  destruct (find_esc bs =? 0); [inv H; constructor|].
  destruct (from_utf8 (firstnN (find_esc bs) bs)) as [[chars valid] stop] eqn:F.
  apply from_utf8_scalar, map_ground_scalar in F.
  destruct stop as [|el|].
  - destruct (find_esc bs <? len bs); inv H; exact F.
  - inv H. apply Forall_app; split; [exact F|]. constructor; [|constructor].
    destruct ((_ =? 1) && (nth (N.to_nat valid) bs 0 <=? 159)); [exact I|apply is_scalar_REPL].
  - destruct (find_esc bs <? len bs); inv H; [|exact F].
    apply Forall_app; split; [exact F|]. constructor; [apply is_scalar_REPL|constructor].
Qed.

Lemma advance_partial_scalar p bs q a n : advance_partial p bs = (q, a, n) -> Forall action_scalar a.
Proof.
  unfold advance_partial. intros H.
  destruct (from_utf8 _) as [[chars valid] stop] eqn:F.
  apply from_utf8_scalar, hd_scalar in F.
  destruct stop.
  - inv H. constructor; [exact F|constructor].
  - destruct (0 <? valid); inv H; (constructor; [|constructor]); [exact F|apply is_scalar_REPL].
  - destruct (0 <? valid); inv H; [|constructor]. constructor; [exact F|constructor].
Qed.

(* the escape-sequence states never print, and never touch the partial buffer *)
Lemma change_state_scalar p b : Forall action_scalar (snd (change_state p b)) /\
  partial (fst (change_state p b)) = partial p.
Proof.
  unfold change_state.
  destruct (vst p);
  unfold adv_csi_entry, adv_csi_ignore, adv_csi_intermediate, adv_csi_param, adv_dcs_entry,
         adv_dcs_intermediate, adv_dcs_param, adv_dcs_passthrough, adv_esc, adv_esc_intermediate,
         adv_osc_string, anywhere, csi_dispatch, action_hook, esc_dispatch, osc_end;
  repeat match goal with
  | |- context[if ?c then _ else _] => destruct c
  end;
  cbn [fst snd app];
  (split; [repeat constructor|]);
  unfold set_vst, reset_params, action_collect, action_param, action_subparam, action_paramnext,
         push_param, set_ignoring, set_osc, osc_put_param, osc_put, params_full;
  repeat match goal with
  | |- context[if ?c then _ else _] => destruct c
  | |- context[match osc_params ?p with _ => _ end] => destruct (osc_params p)
  end;
  reflexivity.
Qed.

Lemma advance_loop_scalar fuel : forall p bs acc,
  Forall action_scalar acc -> Forall action_scalar (snd (advance_loop fuel p bs acc)).
Proof.
  induction fuel as [|fuel IH]; intros p bs acc Hacc; cbn [advance_loop]; [exact Hacc|].
  destruct bs as [|b rest]; [exact Hacc|].
  destruct (vst p);
  try (pose proof (change_state_scalar p b) as [S _]; destruct (change_state p b) as [q a];
       cbn [snd] in S; apply IH; apply Forall_app; split; assumption).
  destruct (advance_ground p (b :: rest)) as [[q a] n] eqn:G.
  apply advance_ground_scalar in G. apply IH. apply Forall_app; split; assumption.
Qed.

Theorem advance_scalar_strong p bs : Forall action_scalar (snd (advance p bs)).
Proof.
  unfold advance. destruct (partial p) as [|b0 l0].
  - apply advance_loop_scalar. constructor.
  - destruct (advance_partial p bs) as [[q a] k] eqn:A. apply advance_partial_scalar in A.
    now apply advance_loop_scalar.
Qed.

(* ---- the partial buffer holds bytes ---- *)
Lemma bytes_app a b : bytes a -> bytes b -> bytes (a ++ b).
Proof. intros Ha Hb. apply Forall_app; split; assumption. Qed.
Lemma bytes_firstnN n l : bytes l -> bytes (firstnN n l).
Proof. apply Forall_firstnN. Qed.
Lemma bytes_skipnN n l : bytes l -> bytes (skipnN n l).
Proof. apply Forall_skipnN. Qed.

Lemma advance_ground_pbytes p bs q a n : advance_ground p bs = (q, a, n) -> pbytes p -> bytes bs -> pbytes q.
Proof.
  unfold advance_ground, pbytes. intros H Hp Hb.
  destruct (find_esc bs =? 0); [inv H; exact Hp|].
  destruct (from_utf8 (firstnN (find_esc bs) bs)) as [[chars valid] stop].
  destruct stop.
  - destruct (find_esc bs <? len bs); inv H; exact Hp.
  - inv H. exact Hp.
  - destruct (find_esc bs <? len bs); inv H; [exact Hp|].
    cbn [set_partial partial]. apply bytes_app; [exact Hp|now apply bytes_skipnN].
Qed.

Lemma advance_partial_pbytes p bs q a n : advance_partial p bs = (q, a, n) -> pbytes p -> bytes bs -> pbytes q.
Proof.
  unfold advance_partial, pbytes. intros H Hp Hb.
  destruct (from_utf8 _) as [[chars valid] stop].
  assert (bytes []) as Hnil by constructor.
  destruct stop.
  - inv H. exact Hnil.
  - destruct (0 <? valid); inv H; exact Hnil.
  - destruct (0 <? valid); inv H; [exact Hnil|].
    cbn [set_partial partial]. apply bytes_app; [exact Hp|now apply bytes_firstnN].
Qed.

Lemma advance_loop_pbytes fuel : forall p bs acc,
  pbytes p -> bytes bs -> pbytes (fst (advance_loop fuel p bs acc)).
Proof.
  induction fuel as [|fuel IH]; intros p bs acc Hp Hb; cbn [advance_loop]; [exact Hp|].
  destruct bs as [|b rest]; [exact Hp|].
  assert (bytes rest) as Hrest by (inv Hb; assumption).
  destruct (vst p);
  try (pose proof (change_state_scalar p b) as [_ S]; destruct (change_state p b) as [q a];
       cbn [fst] in S; apply IH; [unfold pbytes; rewrite S; exact Hp|exact Hrest]).
  destruct (advance_ground p (b :: rest)) as [[q a] n] eqn:G.
  apply advance_ground_pbytes in G; [|exact Hp|exact Hb]. apply IH; [exact G|now apply bytes_skipnN].
Qed.

Theorem advance_pbytes p bs : pbytes p -> bytes bs -> pbytes (fst (advance p bs)).
Proof.
  intros Hp Hb. unfold advance. destruct (partial p) as [|b0 l0] eqn:Ep.
  - now apply advance_loop_pbytes.
  - destruct (advance_partial p bs) as [[q a] k] eqn:A.
    apply advance_partial_pbytes in A; [|exact Hp|exact Hb].
    apply advance_loop_pbytes; [exact A|now apply bytes_skipnN].
Qed.

(* the statement in the requested form *)
Theorem advance_scalar p bs q acts : advance p bs = (q, acts) -> pbytes p -> bytes bs ->
  Forall action_scalar acts /\ pbytes q.
Proof.
  intros E Hp Hb. split.
  - pose proof (advance_scalar_strong p bs) as S. rewrite E in S. exact S.
  - pose proof (advance_pbytes p bs Hp Hb) as S. rewrite E in S. exact S.
Qed.

Lemma pbytes_init : pbytes p_init.
Proof. constructor. Qed.
