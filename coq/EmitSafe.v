(* EmitSafe.v — the emitters of Emit.v never panic on a screen that satisfies
   the invariant (accessor part of property C03). *)
Require Import Tac ListN Attrs Cell Row Grid Screen Term Emit RowInv GridInv TextInv ScreenInv.
Open Scope N_scope.

(* ------------------------------------------------------------------ *)
(* 1. visible_rows                                                      *)
(* ------------------------------------------------------------------ *)

(* what live rows and scrollback rows have in common *)
Definition vrow_ok (r : row) : Prop :=
  cells_ok (cells r) /\ 1 <= len (cells r) <= MAXDIM.

Lemma sbrow_vrow r : sbrow_ok r -> vrow_ok r.
Proof. intros (H1 & H2 & H3). split; [exact H1|split; assumption]. Qed.

Lemma liverow_vrow cols r : 1 <= cols <= MAXDIM -> row_ok cols r -> vrow_ok r.
Proof. intros Hc [Hl Hok]. split; [exact Hok|rewrite Hl; exact Hc]. Qed.

Lemma Forall_impl' {A} (P Q : A -> Prop) l : (forall a, P a -> Q a) -> Forall P l -> Forall Q l.
Proof. intros H F. eapply Forall_impl; eauto. Qed.

Theorem visible_rows_ok x : grid_ok x ->
  exists vr, visible_rows x = Ok vr /\ len vr = grows x /\ Forall vrow_ok vr.
Proof.
  intros (K & Hr & Hc). destruct K as [Kr Kc Kl Kro _ _ _ _ Ko _ Ksb].
  unfold visible_rows, subz.
  destruct (N.leb_spec (sb_off x) (len (sb x))) as [_|]; [|lia]. cbn [bind].
  eexists; split; [reflexivity|]. split.
  - rewrite len_app, !len_firstnN, len_skipnN. lia.
  - apply Forall_app; split.
    + apply Forall_firstnN, Forall_skipnN. eapply Forall_impl'; [|exact Ksb]. apply sbrow_vrow.
    + apply Forall_firstnN. eapply Forall_impl'; [|exact Kro]. intros r. apply liverow_vrow; lia.
Qed.

(* the weaker form asked for in the task statement *)
Corollary visible_rows_ok_le x : grid_ok x ->
  exists vr, visible_rows x = Ok vr /\ len vr <= grows x /\ Forall vrow_ok vr.
Proof.
  intros H. destruct (visible_rows_ok x H) as (vr & E & L & F). exists vr. repeat split; auto; lia.
Qed.

(* ------------------------------------------------------------------ *)
(* 2. cursor movement tokens                                            *)
(* ------------------------------------------------------------------ *)

(* the largest row/column value a cursor-move may mention: r + 1 must fit in a u16 *)
Definition POSMAX : N := 65534.

Lemma MAXDIM_POSMAX : MAXDIM <= POSMAX.
Proof. unfold MAXDIM, POSMAX. lia. Qed.

Lemma t_move_to_ok r c : r <= POSMAX -> c <= POSMAX -> exists ts, t_move_to r c = Ok ts.
Proof.
  unfold POSMAX. intros Hr Hc. unfold t_move_to.
  destruct ((r =? 0) && (c =? 0)); [eauto|].
  rewrite !add16_ok by lia. cbn [bind]. eauto.
Qed.

Lemma t_move_from_to_ok fr fc tr tc : fr <= POSMAX -> tr <= POSMAX -> tc <= POSMAX ->
  exists ts, t_move_from_to fr fc tr tc = Ok ts.
Proof.
  intros Hf Hr Hc. unfold t_move_from_to. rewrite add16_ok by (unfold POSMAX in *; lia). cbn [bind].
  destruct ((tr =? fr + 1) && (tc =? 0)); [eauto|].
  destruct ((fr =? tr) && (fc <? tc)); [eauto|].
  destruct (negb ((tr =? fr) && (tc =? fc))); [|eauto].
  now apply t_move_to_ok.
Qed.

Lemma move_opt_ok ppos tr tc :
  (forall pr pc, ppos = Some (pr, pc) -> pr <= POSMAX) -> tr <= POSMAX -> tc <= POSMAX ->
  exists ts, move_opt ppos tr tc = Ok ts.
Proof.
  intros Hp Hr Hc. unfold move_opt. destruct ppos as [[pr pc]|].
  - apply t_move_from_to_ok; auto. eapply Hp; reflexivity.
  - now apply t_move_to_ok.
Qed.

(* ------------------------------------------------------------------ *)
(* 3. the emitter state                                                 *)
(* ------------------------------------------------------------------ *)

Lemma er_e_attrs e a : er (e_attrs e a) = er e.
Proof. unfold e_attrs. destruct (attrs_eqb _ _); reflexivity. Qed.
Lemma ec_e_attrs e a : ec (e_attrs e a) = ec e.
Proof. unfold e_attrs. destruct (attrs_eqb _ _); reflexivity. Qed.
Lemma eerase_e_attrs e a : eerase (e_attrs e a) = eerase e.
Proof. unfold e_attrs. destruct (attrs_eqb _ _); reflexivity. Qed.

Lemma e_move_ok e tr tc : er e <= POSMAX -> tr <= POSMAX -> tc <= POSMAX ->
  exists ts, e_move e tr tc = Ok (e_out e ts).
Proof.
  intros H1 H2 H3. unfold e_move.
  destruct (t_move_from_to_ok (er e) (ec e) tr tc H1 H2 H3) as (ts & ->). cbn [bind]. eauto.
Qed.

(* Invariant of the emitter state inside the row loop.
   M bounds the tracked row, C the tracked column; an open erase run started
   at a column of the row that is not to the right of the current column. *)
Record einv (M C cols col : N) (e : est) : Prop := mkEinv {
  ei_r : er e <= M;
  ei_c : ec e <= C;
  ei_erase : forall pc a, eerase e = Some (pc, a) -> pc <= col /\ pc < cols }.

Lemma einv_mono M C cols col col' e : col <= col' -> einv M C cols col e -> einv M C cols col' e.
Proof.
  intros H [a b c]. split; auto. intros pc at' E. destruct (c pc at' E). split; lia.
Qed.

(* flush_erase: ends at (rowi, pc) with no open run *)
Lemma flush_erase_ok diffmode wrapping cols rowi e pc a stop M :
  M <= POSMAX -> rowi <= M -> er e <= M -> pc <= POSMAX ->
  (forall col, stop = Some col -> pc <= col) ->
  exists e', flush_erase diffmode wrapping cols rowi e pc a stop = Ok e' /\
             er e' = rowi /\ ec e' = pc /\ eerase e' = None.
Proof.
  intros HM Hrow He Hpc Hstop. unfold flush_erase.
  assert (exists through, (if wrapping then
                   do r1 <- add16 (er e) 1;
                   Ok ((r1 =? rowi) && (cols <=? ec e) && (if diffmode then pc =? 0 else true))
                 else Ok false) = Ok through) as (through & ->).
  { destruct wrapping; [|eauto]. rewrite add16_ok by (unfold POSMAX in *; lia). cbn [bind]. eauto. }
  cbn [bind].
  assert (exists e1, (if through then
              Ok (if 0 <? pc then e_out e [TChars (repeatN 32 pc)]
                  else e_out e [TChars [32]; t_bs])
            else e_move e rowi pc) = Ok e1) as (e1 & ->).
  { destruct through; [eauto|]. destruct (e_move_ok e rowi pc) as (ts & ->); eauto; lia. }
  cbn [bind].
  destruct stop as [col|].
  - rewrite sub16_ok by (apply Hstop; reflexivity). cbn [bind].
    eexists; split; [reflexivity|]. cbn [e_erase e_out er ec eerase].
    rewrite er_e_attrs, ec_e_attrs. cbn. auto.
  - eexists; split; [reflexivity|]. cbn [e_erase e_out er ec eerase].
    rewrite er_e_attrs, ec_e_attrs. cbn. auto.
Qed.

Lemma adv_n_le c : 1 <= adv_n c <= 2.
Proof. unfold adv_n. destruct (cwide c); lia. Qed.
Lemma wide_n_le c : wide_n c <= 1.
Proof. unfold wide_n. destruct (cwide c); lia. Qed.

(* one cell of the row loop *)
Lemma emit_cell_ok diffmode wrapping cols rowi e col c skip M C :
  M <= POSMAX -> rowi <= M -> col < cols -> cols <= MAXDIM -> col + adv_n c <= C ->
  einv M C cols col e ->
  exists e', emit_cell diffmode wrapping cols rowi e col c skip = Ok e' /\ einv M C cols (col + 1) e'.
Proof.
  intros HM Hrow Hcol Hcols HC Hinv.
  pose proof (adv_n_le c) as Hadv. pose proof (wide_n_le c) as Hwn.
  assert (HP : POSMAX = 65534) by reflexivity. assert (HD : MAXDIM = 65520) by reflexivity.
  unfold emit_cell.
  (* closing an open erase run *)
  assert (exists e1, match eerase e with
           | Some (pc, a) =>
             if has_contents c || negb (attrs_eqb (cattrs c) a)
             then flush_erase diffmode wrapping cols rowi e pc a (Some col)
             else Ok e
           | None => Ok e
           end = Ok e1 /\ einv M C cols col e1) as (e1 & -> & Hinv1).
  { destruct (eerase e) as [[pc a]|] eqn:Ee; [|eauto].
    destruct (has_contents c || negb (attrs_eqb (cattrs c) a)); [|eauto].
    destruct (ei_erase _ _ _ _ _ Hinv pc a Ee) as [Hpc1 Hpc2].
    destruct (flush_erase_ok diffmode wrapping cols rowi e pc a (Some col) M) as (e' & -> & R1 & R2 & R3);
      auto; try lia.
    { apply (ei_r _ _ _ _ _ Hinv). }
    { intros col' E; inv E; exact Hpc1. }
    eexists; split; [reflexivity|]. split; try lia. intros pc' a' E. congruence. }
  cbn [bind].
  destruct skip. { eexists; split; [reflexivity|]. eapply einv_mono; [|exact Hinv1]. lia. }
  destruct Hinv1 as [I1 I2 I3].
  destruct (has_contents c).
  - (* a cell with contents: move there, write it *)
    assert (exists e2, (if (er e1 =? rowi) && (ec e1 =? col) then Ok e1
              else
                do need <- (if wrapping then
                              do r1 <- add16 (er e1) 1;
                              if negb (r1 =? rowi) then Ok true
                              else do lim <- sub16 cols (wide_n c);
                                   Ok ((ec e1 <? lim) || negb (col =? 0))
                            else Ok true);
                do e' <- (if need then e_move e1 rowi col else Ok e1);
                Ok (e_pos e' rowi col)) = Ok e2 /\ er e2 = rowi /\ ec e2 = col /\ eerase e2 = eerase e1)
      as (e2 & -> & R1 & R2 & R3).
    { destruct (N.eqb_spec (er e1) rowi) as [Er|Er]; cbn [andb].
      - destruct (N.eqb_spec (ec e1) col) as [Ec|Ec]; [eauto|].
        assert (exists need, (if wrapping then
                              do r1 <- add16 (er e1) 1;
                              if negb (r1 =? rowi) then Ok true
                              else do lim <- sub16 cols (wide_n c);
                                   Ok ((ec e1 <? lim) || negb (col =? 0))
                            else Ok true) = Ok need) as (need & ->).
        { destruct wrapping; [|eauto]. rewrite add16_ok by lia. cbn [bind].
          destruct (negb (er e1 + 1 =? rowi)); [eauto|]. rewrite sub16_ok by lia. cbn [bind]. eauto. }
        cbn [bind]. destruct need.
        + destruct (e_move_ok e1 rowi col) as (ts & ->); try lia. cbn [bind]. eexists; split; [reflexivity|]. cbn. auto.
        + cbn [bind]. eexists; split; [reflexivity|]. cbn. auto.
      - assert (exists need, (if wrapping then
                              do r1 <- add16 (er e1) 1;
                              if negb (r1 =? rowi) then Ok true
                              else do lim <- sub16 cols (wide_n c);
                                   Ok ((ec e1 <? lim) || negb (col =? 0))
                            else Ok true) = Ok need) as (need & ->).
        { destruct wrapping; [|eauto]. rewrite add16_ok by lia. cbn [bind].
          destruct (negb (er e1 + 1 =? rowi)); [eauto|]. rewrite sub16_ok by lia. cbn [bind]. eauto. }
        cbn [bind]. destruct need.
        + destruct (e_move_ok e1 rowi col) as (ts & ->); try lia. cbn [bind]. eexists; split; [reflexivity|]. cbn. auto.
        + cbn [bind]. eexists; split; [reflexivity|]. cbn. auto. }
    cbn [bind]. rewrite ec_e_attrs, R2. rewrite add16_ok by lia. cbn [bind].
    eexists; split; [reflexivity|]. split; cbn [e_out e_pos er ec eerase].
    + rewrite er_e_attrs. lia.
    + lia.
    + intros pc a E. rewrite eerase_e_attrs, R3 in E. destruct (I3 pc a E). split; lia.
  - destruct (eerase e1) as [[pc a]|] eqn:Ee.
    + eexists; split; [reflexivity|]. split; auto. intros pc' a' E. rewrite Ee in E. destruct (I3 pc' a' E). split; lia.
    + eexists; split; [reflexivity|]. split; auto. cbn [e_erase eerase]. intros pc' a' E. inv E. split; lia.
Qed.

(* the cells handed to the loop lie inside the row, and a wide cell fits with its second half *)
Definition win_ok (cols C col : N) (cs : list (cell * bool)) : Prop :=
  forall k c s, get cs k = Some (c, s) -> col + k < cols /\ col + k + adv_n c <= C.

Lemma win_ok_tail cols C col x cs : win_ok cols C col (x :: cs) -> win_ok cols C (col + 1) cs.
Proof.
  intros H k c s G. destruct (H (k + 1) c s) as [H1 H2].
  - rewrite get_cons. destruct (N.eqb_spec (k + 1) 0); [lia|]. replace (k + 1 - 1) with k by lia. exact G.
  - split; lia.
Qed.

Lemma emit_loop_ok diffmode wrapping cols rowi M C :
  M <= POSMAX -> rowi <= M -> cols <= MAXDIM ->
  forall cs col pw e, win_ok cols C col cs -> einv M C cols col e ->
  exists e', emit_loop diffmode wrapping cols rowi cs col pw e = Ok e' /\ einv M C cols (col + len cs) e'.
Proof.
  intros HM Hrow Hcols. induction cs as [|[c skip] rest IH]; intros col pw e Hw Hinv; cbn [emit_loop].
  - eexists; split; [reflexivity|]. eapply einv_mono; [|exact Hinv]. lia.
  - rewrite len_cons. replace (col + (len rest + 1)) with (col + 1 + len rest) by lia.
    pose proof (win_ok_tail _ _ _ _ _ Hw) as Hw'.
    destruct pw.
    + apply IH; [exact Hw'|]. eapply einv_mono; [|exact Hinv]. lia.
    + destruct (Hw 0 c skip) as [W1 W2]; [reflexivity|].
      destruct (emit_cell_ok diffmode wrapping cols rowi e col c skip M C) as (e1 & -> & Hinv1); auto; try lia.
      cbn [bind]. apply IH; assumption.
Qed.

Lemma finish_erase_ok diffmode wrapping cols rowi e M C col :
  M <= POSMAX -> rowi <= M -> cols <= MAXDIM -> cols <= C -> einv M C cols col e ->
  exists e', finish_erase diffmode wrapping cols rowi e = Ok e' /\ er e' <= M /\ ec e' <= C.
Proof.
  intros HM Hrow Hcols HC [I1 I2 I3]. unfold finish_erase.
  destruct (eerase e) as [[pc a]|] eqn:Ee; [|eauto].
  destruct (I3 pc a eq_refl) as [P1 P2].
  destruct (flush_erase_ok diffmode wrapping cols rowi e pc a None M) as (e' & -> & R1 & R2 & R3); auto.
  - unfold MAXDIM, POSMAX in *; lia.
  - intros col' E; discriminate.
  - eexists; split; [reflexivity|]. lia.
Qed.

(* windows *)
Lemma get_window {A} (l : list A) start width k x :
  get (window start width l) k = Some x -> get l (start + k) = Some x.
Proof.
  unfold window. rewrite get_firstnN, get_skipnN. destruct (k <? width); [auto|discriminate].
Qed.

Lemma get_map_some {A B} (f : A -> B) l k y : get (map f l) k = Some y -> exists x, get l k = Some x /\ y = f x.
Proof. rewrite get_map. destruct (get l k); cbn; [|discriminate]. intros E; inv E. eauto. Qed.

Lemma adv_fits cs i c : cells_ok cs -> get cs i = Some c -> i + adv_n c <= len cs.
Proof.
  intros Hok Hg. pose proof (get_some_lt _ _ _ Hg). unfold adv_n. destruct (cwide c) eqn:E; [|lia].
  destruct (ok_wide_next _ _ _ Hok Hg E) as (d & Hd & _). apply get_some_lt in Hd. lia.
Qed.

Lemma win_ok_cells r start width (f : cell -> bool) C : cells_ok (cells r) -> len (cells r) <= C ->
  win_ok (len (cells r)) C start (map (fun c => (c, f c)) (window start width (cells r))).
Proof.
  intros Hok HC k c s G. apply get_map_some in G as (x & G & E). inv E.
  apply get_window in G. pose proof (get_some_lt _ _ _ G). pose proof (adv_fits _ _ _ Hok G). split; lia.
Qed.

Lemma get_zip {A B} (a : list A) (b : list B) k x y :
  get (zip a b) k = Some (x, y) -> get a k = Some x /\ get b k = Some y.
Proof.
  unfold get. generalize (N.to_nat k) as n. revert b.
  induction a as [|x0 a IH]; intros [|y0 b] [|n]; cbn; try discriminate.
  - intros E; inv E; auto.
  - apply IH.
Qed.

Lemma win_ok_zip r prev start width C : cells_ok (cells r) -> len (cells r) <= C ->
  win_ok (len (cells r)) C start
    (map (fun cp : cell * cell => (fst cp, cell_eqb (fst cp) (snd cp))) (window start width (zip (cells r) (cells prev)))).
Proof.
  intros Hok HC k c s G. apply get_map_some in G as ([x y] & G & E). inv E. cbn [fst snd].
  apply get_window in G. apply get_zip in G as [G _].
  pose proof (get_some_lt _ _ _ G). pose proof (adv_fits _ _ _ Hok G). split; lia.
Qed.

(* ------------------------------------------------------------------ *)
(* 4. Row::write_contents_formatted                                     *)
(* ------------------------------------------------------------------ *)

(* the general form: any start/width (no bound at all is needed), any tracked column *)
Lemma row_formatted_gen r start width rowi wrapping ppos pattrs M C :
  vrow_ok r -> M <= POSMAX -> rowi <= M -> len (cells r) <= C ->
  match ppos with
  | Some (pr, pc) => pr <= M /\ pc <= C
  | None => (wrapping = true -> 1 <= rowi) /\ start <= C
  end ->
  exists ts pr' pc' a', row_formatted r start width rowi wrapping ppos pattrs = Ok (ts, (pr', pc'), a') /\
                        pr' <= M /\ pc' <= C.
Proof.
  intros (Hok & Hl1 & Hl2) HM Hrow HC Hp. unfold row_formatted, row_cols.
  assert (exists pr pc, match ppos with
                  | Some p => Ok p
                  | None => if wrapping then do r1 <- sub16 rowi 1; Ok (r1, len (cells r)) else Ok (rowi, start)
                  end = Ok (pr, pc) /\ pr <= M /\ pc <= C) as (pr & pc & -> & Hpr & Hpc).
  { destruct ppos as [[pr pc]|]; [eauto|]. destruct Hp as [Hp1 Hp2]. destruct wrapping.
    - rewrite sub16_ok by auto. cbn [bind]. do 2 eexists; split; [reflexivity|]. lia.
    - eauto. }
  cbn [bind]. cbv zeta.
  set (e0 := mkE [] pr pc match pattrs with Some a => a | None => dflt end None).
  set (e1 := match row_get r start with
            | Some fc =>
              if wrapping && cell_eqb fc cell_new then
                let e' := e_attrs e0 dflt in
                e_pos (e_out e' ([TChars [32]; t_bs] ++ t_erase_char 1)) rowi 0
              else e0
            | None => e0
            end).
  assert (einv M C (len (cells r)) start e1) as Hinv.
  { assert (einv M C (len (cells r)) start e0) as H0.
    { split; cbn; auto. intros; discriminate. }
    unfold e1. destruct (row_get r start); [|exact H0].
    destruct (wrapping && cell_eqb c cell_new); [|exact H0].
    split; cbn [e_pos e_out er ec eerase]; try lia. rewrite eerase_e_attrs. cbn. intros; discriminate. }
  destruct (emit_loop_ok false wrapping (len (cells r)) rowi M C HM Hrow Hl2
              (map (fun c => (c, cell_eqb c cell_new)) (window start width (cells r))) start false e1)
    as (e2 & -> & Hinv2); [now apply win_ok_cells|exact Hinv|].
  cbn [bind].
  destruct (finish_erase_ok false wrapping (len (cells r)) rowi e2 M C _ HM Hrow Hl2 HC Hinv2) as (e3 & -> & R1 & R2).
  cbn [bind]. do 4 eexists; split; [reflexivity|]. auto.
Qed.

(* ------------------------------------------------------------------ *)
(* 5. Row::write_contents_diff                                          *)
(* ------------------------------------------------------------------ *)

(* nothing at all is required of the previous row *)
Lemma row_diff_gen r prev start width rowi wrapping pwrapping pr pc pattrs M C :
  vrow_ok r -> M <= POSMAX -> rowi <= M -> len (cells r) <= C -> pr <= M -> pc <= C ->
  exists ts pr' pc' a',
    row_diff r prev start width rowi wrapping pwrapping (pr, pc) pattrs = Ok (ts, (pr', pc'), a') /\
    pr' <= M /\ pc' <= C.
Proof.
  intros (Hok & Hl1 & Hl2) HM Hrow HC Hpr Hpc. unfold row_diff, row_cols.
  assert (HP : POSMAX = 65534) by reflexivity. assert (HD : MAXDIM = 65520) by reflexivity.
  destruct (row_get r start) as [fc|]; [|do 4 eexists; split; [reflexivity|auto]].
  destruct (row_get prev start) as [pfc|]; [|do 4 eexists; split; [reflexivity|auto]].
  cbv zeta. cbn [fst snd].
  set (e0 := mkE [] pr pc pattrs None).
  pose proof (wide_n_le pfc) as Hwn.
  lazymatch goal with |- exists _ _ _ _, bind ?X _ = _ /\ _ =>
    assert (exists pro, X = Ok pro) as (pro & ->) end.
  { destruct (wrapping && negb pwrapping && cell_eqb fc pfc); [|eauto].
    rewrite add16_ok by (cbn [e0 er]; lia). cbn [bind].
    destruct (er e0 + 1 =? rowi); [|eauto]. rewrite sub16_ok by lia. cbn [bind]. eauto. }
  cbn [bind].
  lazymatch goal with |- exists _ _ _ _, bind (emit_loop _ _ _ _ _ _ _ ?E) _ = _ /\ _ => set (e1 := E) end.
  assert (einv M C (len (cells r)) start e1) as Hinv.
  { unfold e1. destruct pro.
    - split; cbn [e_pos e_out er ec eerase]; try lia. rewrite eerase_e_attrs. cbn. intros; discriminate.
    - split; cbn; auto. intros; discriminate. }
  destruct (emit_loop_ok true wrapping (len (cells r)) rowi M C HM Hrow Hl2
              (map (fun cp : cell * cell => (fst cp, cell_eqb (fst cp) (snd cp)))
                   (window start width (zip (cells r) (cells prev)))) start false e1)
    as (e2 & -> & Hinv2); [now apply win_ok_zip|exact Hinv|].
  cbn [bind].
  destruct (finish_erase_ok true wrapping (len (cells r)) rowi e2 M C _ HM Hrow Hl2 HC Hinv2) as (e3 & -> & R1 & R2).
  cbn [bind].
  lazymatch goal with |- exists _ _ _ _, bind ?X _ = _ /\ _ =>
    assert (exists e4, X = Ok e4 /\ er e4 <= M /\ ec e4 <= C) as (e4 & -> & R3 & R4) end.
  { destruct (negb (Bool.eqb (wrapped r) (wrapped prev))); [|eauto].
    rewrite sub16_ok by lia. cbn [bind].
    destruct (get_lt_some (cells r) (len (cells r) - 1)) as (lc & Hlc); [lia|].
    rewrite (idx_get _ _ _ Hlc). cbn [bind].
    assert (exists endc, (if ccont lc then sub16 (len (cells r)) 2 else Ok (len (cells r) - 1)) = Ok endc /\
                         endc < len (cells r)) as (endc & -> & Hendc).
    { destruct (ccont lc) eqn:Ec; [|eexists; split; [reflexivity|lia]].
      destruct (ok_cont_prev _ _ _ Hok Hlc Ec) as (Hpos & _).
      rewrite sub16_ok by lia. eexists; split; [reflexivity|lia]. }
    cbn [bind].
    destruct (e_move_ok e3 rowi endc) as (ts & ->); try lia. cbn [bind].
    destruct (get_lt_some (cells r) endc Hendc) as (endcell & Hec).
    rewrite (idx_get _ _ _ Hec). cbn [bind].
    pose proof (adv_fits _ _ _ Hok Hec) as Hfit. pose proof (adv_n_le endcell) as Hadv.
    set (e''' := if negb (wrapped r) then e_out (e_pos (e_out e3 ts) rowi endc) (t_erase_char 1)
                 else e_pos (e_out e3 ts) rowi endc).
    assert (er e''' = rowi /\ ec e''' = endc) as [Q1 Q2].
    { unfold e'''. destruct (negb (wrapped r)); cbn; auto. }
    destruct (has_contents endcell).
    - rewrite ec_e_attrs, Q2. rewrite add16_ok by lia. cbn [bind].
      eexists; split; [reflexivity|]. cbn [e_pos e_out er ec]. rewrite er_e_attrs. lia.
    - eexists; split; [reflexivity|]. lia. }
  cbn [bind]. do 4 eexists; split; [reflexivity|]. auto.
Qed.

(* ------------------------------------------------------------------ *)
(* 6. Grid::write_cursor_position_formatted                             *)
(* ------------------------------------------------------------------ *)

Lemma vcell_cont_pos vr r c : Forall vrow_ok vr -> ccont (vcell vr r c) = true -> 0 < c.
Proof.
  intros F. unfold vcell. destruct (get vr r) as [rw|] eqn:Er; [|cbn; discriminate].
  unfold row_get. destruct (get (cells rw) c) as [x|] eqn:Ex; [|cbn; discriminate].
  intros Hc. destruct (Forall_get _ _ _ _ F Er) as (Hok & _).
  now destruct (ok_cont_prev _ _ _ Hok Ex Hc).
Qed.

Lemma last_col_ok vr cols i : Forall vrow_ok vr -> 1 <= cols ->
  exists c, (if ccont (vcell vr i (cols - 1)) then sub16 cols 2 else Ok (cols - 1)) = Ok c /\ c < cols.
Proof.
  intros F Hc. destruct (ccont (vcell vr i (cols - 1))) eqn:E.
  - apply vcell_cont_pos in E; [|exact F]. rewrite sub16_ok by lia. eexists; split; [reflexivity|lia].
  - eexists; split; [reflexivity|lia].
Qed.

Lemma find_filled_ok vr cols n : Forall vrow_ok vr -> 1 <= cols ->
  exists o, find_filled vr cols n = Ok o /\
            forall i ci cli, o = Some (i, ci, cli) -> i < N.of_nat n /\ ci < cols.
Proof.
  intros F Hc. induction n as [|k IH]; cbn [find_filled].
  - eexists; split; [reflexivity|]. intros; discriminate.
  - rewrite sub16_ok by lia. cbn [bind].
    destruct (last_col_ok vr cols (N.of_nat k) F Hc) as (c & -> & Hlt). cbn [bind].
    destruct (has_contents (vcell vr (N.of_nat k) c)).
    + eexists; split; [reflexivity|]. intros i ci cli E. inv E. split; lia.
    + destruct IH as (o & -> & Ho). eexists; split; [reflexivity|].
      intros i ci cli E. destruct (Ho i ci cli E). split; lia.
Qed.

Theorem cursor_position_formatted_ok x ppos pattrs : grid_ok x ->
  (forall pr pc, ppos = Some (pr, pc) -> pr <= POSMAX) ->
  exists ts, cursor_position_formatted x ppos pattrs = Ok ts.
Proof.
  intros Hx Hp. pose proof Hx as (K & Hr & Hc). destruct K as [Kr Kc _ _ _ _ _ _ _ _ _].
  assert (HP : POSMAX = 65534) by reflexivity. assert (HD : MAXDIM = 65520) by reflexivity.
  unfold cursor_position_formatted. cbv zeta.
  lazymatch goal with |- exists _, (if ?b then _ else _) = _ => destruct b end.
  2:{ apply move_opt_ok; auto; lia. }
  destruct (visible_rows_ok x Hx) as (vr & -> & Hlen & F). cbn [bind].
  rewrite sub16_ok by lia. cbn [bind].
  destruct (last_col_ok vr (gcols x) (prow x) F) as (c & -> & Hlt); [lia|]. cbn [bind].
  destruct (has_contents (vcell vr (prow x) c)).
  - destruct (move_opt_ok ppos (prow x) c Hp) as (mv & ->); try lia. cbn [bind]. eauto.
  - destruct (find_filled_ok vr (gcols x) (N.to_nat (prow x)) F) as (o & -> & Ho); [lia|]. cbn [bind].
    destruct o as [[[i ci] cli]|].
    + destruct (Ho i ci cli eq_refl) as [Hi Hci].
      lazymatch goal with |- exists _, bind ?X _ = _ => assert (exists pre, X = Ok pre) as (pre & ->) end.
      { destruct ppos as [[pr pc]|].
        - destruct (negb (pr =? i) || (pc <? gcols x)); [|eauto].
          destruct (t_move_from_to_ok pr pc i ci) as (mv & ->); try lia. { eapply Hp; reflexivity. }
          cbn [bind]. eauto.
        - destruct (t_move_to_ok i ci) as (mv & ->); try lia. cbn [bind]. eauto. }
      cbn [bind]. eauto.
    + destruct (move_opt_ok ppos (prow x) (gcols x - 1) Hp) as (mv & ->); try lia. cbn [bind]. eauto.
Qed.

(* ------------------------------------------------------------------ *)
(* 7. Grid level                                                        *)
(* ------------------------------------------------------------------ *)

Lemma rows_formatted_loop_ok cols : forall vr i wrapping pr pc a acc,
  Forall vrow_ok vr -> i + len vr <= MAXDIM -> pr <= MAXDIM -> pc <= MAXDIM ->
  exists ts pr' pc' a', rows_formatted_loop cols vr i wrapping (pr, pc) a acc = Ok (ts, (pr', pc'), a') /\
                        pr' <= MAXDIM /\ pc' <= MAXDIM.
Proof.
  induction vr as [|rw rest IH]; intros i wrapping pr pc a acc F Hi Hpr Hpc; cbn [rows_formatted_loop].
  - do 4 eexists; split; [reflexivity|auto].
  - inversion F as [|? ? Frw Frest]; subst. rewrite len_cons in Hi.
    destruct (row_formatted_gen rw 0 cols i wrapping (Some (pr, pc)) (Some a) MAXDIM MAXDIM)
      as (ts & pr' & pc' & a' & -> & Hpr' & Hpc'); auto.
    { apply MAXDIM_POSMAX. } { lia. } { destruct Frw as (_ & _ & H); exact H. }
    cbn [bind]. apply IH; auto. lia.
Qed.

Theorem grid_contents_formatted_ok x : grid_ok x -> exists r, grid_contents_formatted x = Ok r.
Proof.
  intros Hx. pose proof Hx as (K & _ & _). destruct K as [Kr Kc _ _ _ _ _ _ _ _ _].
  unfold grid_contents_formatted.
  destruct (visible_rows_ok x Hx) as (vr & -> & Hlen & F). cbn [bind].
  destruct (rows_formatted_loop_ok (gcols x) vr 0 false 0 0 dflt [] F) as (ts & pr & pc & a & -> & Hpr & Hpc);
    try (unfold MAXDIM in *; lia).
  cbn [bind].
  destruct (cursor_position_formatted_ok x (Some (pr, pc)) (Some a) Hx) as (cur & ->).
  { intros pr0 pc0 E. inv E. pose proof MAXDIM_POSMAX. lia. }
  cbn [bind]. eauto.
Qed.

Lemma zip_len_le {A B} (a : list A) (b : list B) : len (zip a b) <= len a.
Proof.
  revert b. induction a as [|x a IH]; intros [|y b]; cbn [zip]; rewrite ?len_nil, ?len_cons; try lia.
  specialize (IH b). lia.
Qed.

Lemma Forall_zip_fst {A B} (P : A -> Prop) (a : list A) (b : list B) :
  Forall P a -> Forall (fun p => P (fst p)) (zip a b).
Proof.
  intros F. revert b. induction F as [|x a Px Fa IH]; intros [|y b]; cbn [zip]; constructor; auto.
Qed.

Lemma rows_diff_loop_ok cols : forall vr i wrapping pwrapping pr pc a acc,
  Forall (fun p : row * row => vrow_ok (fst p)) vr -> i + len vr <= MAXDIM -> pr <= MAXDIM -> pc <= MAXDIM ->
  exists ts pr' pc' a', rows_diff_loop cols vr i wrapping pwrapping (pr, pc) a acc = Ok (ts, (pr', pc'), a') /\
                        pr' <= MAXDIM /\ pc' <= MAXDIM.
Proof.
  induction vr as [|[rw prw] rest IH]; intros i wrapping pwrapping pr pc a acc F Hi Hpr Hpc; cbn [rows_diff_loop].
  - do 4 eexists; split; [reflexivity|auto].
  - inversion F as [|? ? Frw Frest]; subst. rewrite len_cons in Hi. cbn [fst] in Frw.
    destruct (row_diff_gen rw prw 0 cols i wrapping pwrapping pr pc a MAXDIM MAXDIM)
      as (ts & pr' & pc' & a' & -> & Hpr' & Hpc'); auto.
    { apply MAXDIM_POSMAX. } { lia. } { destruct Frw as (_ & _ & H); exact H. }
    cbn [bind]. apply IH; auto. lia.
Qed.

(* the previous grid only has to satisfy its own invariant; no same-size requirement *)
Theorem grid_contents_diff_ok x prev pattrs : grid_ok x -> grid_ok prev ->
  exists r, grid_contents_diff x prev pattrs = Ok r.
Proof.
  intros Hx Hprev. pose proof Hx as (K & _ & _). destruct K as [Kr Kc _ _ _ _ _ _ _ _ _].
  pose proof Hprev as (K' & Hpr0 & Hpc0). destruct K' as [Kr' Kc' _ _ _ _ _ _ _ _ _].
  unfold grid_contents_diff.
  destruct (visible_rows_ok x Hx) as (vr & -> & Hlen & F). cbn [bind].
  destruct (visible_rows_ok prev Hprev) as (pvr & -> & Hlen' & F'). cbn [bind].
  destruct (rows_diff_loop_ok (gcols x) (zip vr pvr) 0 false false (prow prev) (pcol prev) pattrs [])
    as (ts & pr & pc & a & -> & Hpr & Hpc); try lia.
  { now apply Forall_zip_fst. }
  { pose proof (zip_len_le vr pvr). lia. }
  cbn [bind].
  destruct (cursor_position_formatted_ok x (Some (pr, pc)) (Some a) Hx) as (cur & ->).
  { intros pr0 pc0 E. inv E. pose proof MAXDIM_POSMAX. lia. }
  cbn [bind]. eauto.
Qed.

Lemma rows_formatted_rows_ok fullw start width : forall vr i wrapping,
  Forall vrow_ok vr -> i + len vr <= MAXDIM -> (wrapping = true -> 1 <= i) ->
  exists out, rows_formatted_rows fullw vr start width i wrapping = Ok out.
Proof.
  induction vr as [|rw rest IH]; intros i wrapping F Hi Hw; cbn [rows_formatted_rows]; [eauto|].
  inversion F as [|? ? Frw Frest]; subst. rewrite len_cons in Hi.
  destruct (row_formatted_gen rw start width i wrapping None None MAXDIM (N.max start MAXDIM))
    as (ts & pr' & pc' & a' & -> & _ & _); auto.
  { apply MAXDIM_POSMAX. } { lia. } { destruct Frw as (_ & _ & H); lia. } { split; [exact Hw|lia]. }
  cbn [bind].
  destruct (IH (i + 1) (if fullw then wrapped rw else wrapping)) as (more & ->); auto; try lia.
  cbn [bind]. eauto.
Qed.

Lemma rows_diff_rows_ok start width : forall vr i,
  Forall (fun p : row * row => vrow_ok (fst p)) vr -> i + len vr <= MAXDIM ->
  exists out, rows_diff_rows vr start width i = Ok out.
Proof.
  induction vr as [|[rw prw] rest IH]; intros i F Hi; cbn [rows_diff_rows]; [eauto|].
  inversion F as [|? ? Frw Frest]; subst. rewrite len_cons in Hi. cbn [fst] in Frw.
  destruct (row_diff_gen rw prw start width i false false i start dflt MAXDIM (N.max start MAXDIM))
    as (ts & pr' & pc' & a' & -> & _ & _); auto; try lia.
  { apply MAXDIM_POSMAX. } { destruct Frw as (_ & _ & H); lia. }
  cbn [bind].
  destruct (IH (i + 1)) as (more & ->); auto; try lia.
  cbn [bind]. eauto.
Qed.

(* ------------------------------------------------------------------ *)
(* 8. Row level, as stated in the task (bounds in terms of MAXDIM)      *)
(* ------------------------------------------------------------------ *)

(* start, width, the previous column and the attributes are completely arbitrary
   (not even the u16 range is needed); the tracked column stays <= max(pc, cols). *)
Theorem row_formatted_ok r start width rowi wrapping pr pc a :
  vrow_ok r -> rowi <= MAXDIM -> pr <= MAXDIM ->
  exists ts pr' pc' a',
    row_formatted r start width rowi wrapping (Some (pr, pc)) (Some a) = Ok (ts, (pr', pc'), a') /\
    pr' <= MAXDIM /\ pc' <= N.max pc (len (cells r)).
Proof.
  intros Hr Hrow Hpr.
  apply (row_formatted_gen r start width rowi wrapping (Some (pr, pc)) (Some a) MAXDIM (N.max pc (len (cells r))));
    auto; try lia. apply MAXDIM_POSMAX.
Qed.

Theorem row_formatted_none_ok r start width rowi wrapping :
  vrow_ok r -> rowi <= MAXDIM -> (wrapping = true -> 1 <= rowi) ->
  exists out, row_formatted r start width rowi wrapping None None = Ok out.
Proof.
  intros Hr Hrow Hw.
  destruct (row_formatted_gen r start width rowi wrapping None None MAXDIM (N.max start (len (cells r))))
    as (ts & pr' & pc' & a' & -> & _); auto; try lia.
  - apply MAXDIM_POSMAX.
  - split; [exact Hw|lia].
  - eauto.
Qed.

Theorem row_diff_ok r prev start width rowi wrapping pwrapping pr pc a :
  vrow_ok r -> rowi <= MAXDIM -> pr <= MAXDIM ->
  exists ts pr' pc' a',
    row_diff r prev start width rowi wrapping pwrapping (pr, pc) a = Ok (ts, (pr', pc'), a') /\
    pr' <= MAXDIM /\ pc' <= N.max pc (len (cells r)).
Proof.
  intros Hr Hrow Hpr.
  apply (row_diff_gen r prev start width rowi wrapping pwrapping pr pc a MAXDIM (N.max pc (len (cells r))));
    auto; try lia. apply MAXDIM_POSMAX.
Qed.

(* ------------------------------------------------------------------ *)
(* 9. Screen level                                                      *)
(* ------------------------------------------------------------------ *)

Theorem contents_formatted_ok s : screen_ok s -> exists ts, contents_formatted_t s = Ok ts.
Proof.
  intros H. unfold contents_formatted_t.
  destruct (grid_contents_formatted_ok (cur s) (cur_ok _ H)) as ([ts a] & ->). cbn [bind]. eauto.
Qed.

Theorem state_formatted_ok s : screen_ok s -> exists ts, state_formatted_t s = Ok ts.
Proof.
  intros H. unfold state_formatted_t. destruct (contents_formatted_ok s H) as (ts & ->). cbn [bind]. eauto.
Qed.

Theorem cursor_state_formatted_ok s : screen_ok s -> exists ts, cursor_state_formatted_t s = Ok ts.
Proof.
  intros H. unfold cursor_state_formatted_t.
  destruct (cursor_position_formatted_ok (cur s) None None (cur_ok _ H)) as (ts & ->); [intros; discriminate|].
  cbn [bind]. eauto.
Qed.

(* the previous screen only needs its own invariant: no same-size hypothesis *)
Theorem contents_diff_ok s p : screen_ok s -> screen_ok p -> exists ts, contents_diff_t s p = Ok ts.
Proof.
  intros H Hp. unfold contents_diff_t.
  destruct (grid_contents_diff_ok (cur s) (cur p) (pen p) (cur_ok _ H) (cur_ok _ Hp)) as ([ts a] & ->).
  cbn [bind]. eauto.
Qed.

Theorem state_diff_ok s p : screen_ok s -> screen_ok p -> exists ts, state_diff_t s p = Ok ts.
Proof.
  intros H Hp. unfold state_diff_t. destruct (contents_diff_ok s p H Hp) as (ts & ->). cbn [bind]. eauto.
Qed.

Theorem rows_formatted_ok s start width : screen_ok s -> exists out, rows_formatted_t s start width = Ok out.
Proof.
  intros H. pose proof (cur_ok _ H) as Hx. pose proof Hx as (K & _ & _). destruct K as [Kr _ _ _ _ _ _ _ _ _ _].
  unfold rows_formatted_t.
  destruct (visible_rows_ok (cur s) Hx) as (vr & -> & Hlen & F). cbn [bind].
  apply rows_formatted_rows_ok; auto; [lia|discriminate].
Qed.

Theorem rows_diff_ok s p start width : screen_ok s -> screen_ok p ->
  exists out, rows_diff_t s p start width = Ok out.
Proof.
  intros H Hp. pose proof (cur_ok _ H) as Hx. pose proof Hx as (K & _ & _). destruct K as [Kr _ _ _ _ _ _ _ _ _ _].
  unfold rows_diff_t.
  destruct (visible_rows_ok (cur s) Hx) as (vr & -> & Hlen & F). cbn [bind].
  destruct (visible_rows_ok (cur p) (cur_ok _ Hp)) as (pvr & -> & Hlen' & F'). cbn [bind].
  apply rows_diff_rows_ok; [now apply Forall_zip_fst|]. pose proof (zip_len_le vr pvr). lia.
Qed.

(* Property C03, emitter part.  The same-size hypotheses are kept to match the
   property text; contents_diff_ok etc. show they are not needed. *)
Theorem C03_emitters s p start width :
  screen_ok s -> screen_ok p ->
  grows (g p) = grows (g s) -> gcols (g p) = gcols (g s) ->
  (exists ts, contents_formatted_t s = Ok ts) /\
  (exists ts, state_formatted_t s = Ok ts) /\
  (exists ts, cursor_state_formatted_t s = Ok ts) /\
  (exists ts, contents_diff_t s p = Ok ts) /\
  (exists ts, state_diff_t s p = Ok ts) /\
  (exists out, rows_formatted_t s start width = Ok out) /\
  (exists out, rows_diff_t s p start width = Ok out).
Proof.
  intros H Hp _ _. repeat split.
  - now apply contents_formatted_ok.
  - now apply state_formatted_ok.
  - now apply cursor_state_formatted_ok.
  - now apply contents_diff_ok.
  - now apply state_diff_ok.
  - now apply rows_formatted_ok.
  - now apply rows_diff_ok.
Qed.
