(* Attrs.v — attrs.rs: colours, text attributes, and the SGR diff
   (Attrs::write_escape_code_diff -> term::Attrs) as a parameter list. *)
Require Import Base.

Inductive color := CDefault | CIdx (i : N) | CRgb (r g b : N).

Definition color_eqb (a b : color) : bool :=
  match a, b with
  | CDefault, CDefault => true
  | CIdx i, CIdx j => i =? j
  | CRgb r g b, CRgb r' g' b' => (r =? r') && (g =? g') && (b =? b')
  | _, _ => false
  end.

Inductive intensity := INormal | IBold | IDim.

Definition intensity_eqb (a b : intensity) : bool :=
  match a, b with
  | INormal, INormal | IBold, IBold | IDim, IDim => true
  | _, _ => false
  end.

Record attrs := mkAttrs {
  fg : color; bg : color;
  inten : intensity; italic : bool; underline : bool; inverse : bool }.

Definition dflt : attrs := mkAttrs CDefault CDefault INormal false false false.

Definition attrs_eqb (a b : attrs) : bool :=
  color_eqb (fg a) (fg b) && color_eqb (bg a) (bg b) && intensity_eqb (inten a) (inten b)
  && Bool.eqb (italic a) (italic b) && Bool.eqb (underline a) (underline b)
  && Bool.eqb (inverse a) (inverse b).

Definition set_fg c a := mkAttrs c (bg a) (inten a) (italic a) (underline a) (inverse a).
Definition set_bg c a := mkAttrs (fg a) c (inten a) (italic a) (underline a) (inverse a).
Definition set_inten i a := mkAttrs (fg a) (bg a) i (italic a) (underline a) (inverse a).
Definition set_italic b a := mkAttrs (fg a) (bg a) (inten a) b (underline a) (inverse a).
Definition set_underline b a := mkAttrs (fg a) (bg a) (inten a) (italic a) b (inverse a).
Definition set_inverse b a := mkAttrs (fg a) (bg a) (inten a) (italic a) (underline a) b.

Definition bold a := match inten a with IBold => true | _ => false end.
Definition dim a := match inten a with IDim => true | _ => false end.

(* term::Attrs::write_buf parameter lists *)
Definition fg_params (c : color) : list N :=
  match c with
  | CDefault => [39]
  | CIdx i => if i <? 8 then [i + 30] else if i <? 16 then [i + 82] else [38; 5; i]
  | CRgb r g b => [38; 2; r; g; b]
  end.
Definition bg_params (c : color) : list N :=
  match c with
  | CDefault => [49]
  | CIdx i => if i <? 8 then [i + 40] else if i <? 16 then [i + 92] else [48; 5; i]
  | CRgb r g b => [48; 2; r; g; b]
  end.
Definition inten_params (i : intensity) : list N :=
  match i with INormal => [22] | IBold => [1] | IDim => [2] end.

(* Attrs::write_escape_code_diff: the SGR that turns pen [other] into pen [self].
   None  = nothing is written;
   Some [] = ESC[m ;  Some ps = ESC[ps m  *)
Definition sgr_diff (self other : attrs) : option (list N) :=
  if negb (attrs_eqb self other) && attrs_eqb self dflt then Some []
  else
    let ps :=
      (if color_eqb (fg self) (fg other) then [] else fg_params (fg self)) ++
      (if color_eqb (bg self) (bg other) then [] else bg_params (bg self)) ++
      (if intensity_eqb (inten self) (inten other) then [] else inten_params (inten self)) ++
      (if Bool.eqb (italic self) (italic other) then [] else [if italic self then 3 else 23]) ++
      (if Bool.eqb (underline self) (underline other) then [] else [if underline self then 4 else 24]) ++
      (if Bool.eqb (inverse self) (inverse other) then [] else [if inverse self then 7 else 27]) in
    match ps with [] => None | _ => Some ps end.
