(* AttrsInv.v — every attribute record stored anywhere in the terminal (cells of
   both grids including the scrollback, the pen, the saved pen) has colour
   components in the u8 range ([pen_ok], SgrSpec.v).  Cells only ever get their
   attributes from the pen, from [dflt], or keep their own; the pen only
   changes through [sgr] (which preserves [pen_ok]), save/restore and RIS.
   Partial-correctness statements in the style of WfGrid.v / WfInv.v; no
   structural invariant ([screen_ok]) is needed at all. *)
Require Import Tac ListN Utf8 Width Attrs Cell Row Grid Screen Vte Perform Parser.
Require Import Chunking.
Require Import CellWf WfGrid SgrSpec.
Open Scope N_scope.

Definition cell_aok (c : cell) : Prop := pen_ok (cattrs c).
Definition row_aok (r : row) : Prop := Forall cell_aok (cells r).
Definition grid_aok (x : grid) : Prop := Forall row_aok (live x) /\ Forall row_aok (sb x).
Definition screen_attrs_ok (s : screen) : Prop :=
  grid_aok (g s) /\ grid_aok (alt s) /\ pen_ok (pen s) /\ pen_ok (spen s).

(* ------------------------------------------------------------------ *)
(* cells *)

Lemma cell_new_aok : cell_aok cell_new.
Proof. exact pen_ok_dflt. Qed.
Lemma cell_clear_aok a c : pen_ok a -> cell_aok (cell_clear a c).
Proof. intros H; exact H. Qed.
Lemma clear_own_aok c : cell_aok c -> cell_aok (clear_own c).
Proof. intros H; exact H. Qed.
Lemma cell_set_aok ch a c : pen_ok a -> cell_aok (cell_set ch a c).
Proof. intros H; exact H. Qed.
Lemma cell_set_cont_aok b c : cell_aok c -> cell_aok (cell_set_cont b c).
Proof. intros H; exact H. Qed.
Lemma cell_append_aok ch c : cell_aok c -> cell_aok (cell_append ch c).
Proof.
  intros H. unfold cell_append.
  destruct (18 <=? cell_len c); [exact H|]. destruct (cell_len c =? 0); exact H.
Qed.

(* ------------------------------------------------------------------ *)
(* rows *)

Lemma row_aok_get r i c : row_aok r -> get (cells r) i = Some c -> cell_aok c.
Proof. intros H G. eapply Forall_get; eauto. Qed.

Lemma row_new_aok cols : row_aok (row_new cols).
Proof. unfold row_aok, row_new; cbn [cells]. apply Forall_repeatN, cell_new_aok. Qed.

Lemma row_clear_aok a r : pen_ok a -> row_aok (row_clear a r).
Proof. intros Ha. unfold row_aok, row_clear; cbn [cells]. apply Forall_map'. intros c _. now apply cell_clear_aok. Qed.

Lemma row_wrap_aok b r : row_aok r -> row_aok (row_wrap b r).
Proof. intros H; exact H. Qed.

Lemma row_set_cell_aok r i c : row_aok r -> cell_aok c -> row_aok (row_set_cell r i c).
Proof. intros H Hc. unfold row_aok, row_set_cell; cbn [cells]. now apply Forall_set_at. Qed.

Lemma row_upd_aok r i f r' : row_upd r i f = Ok r' -> row_aok r ->
  (forall c, cell_aok c -> cell_aok (f c)) -> row_aok r'.
Proof.
  unfold row_upd, row_get. intros E H Hf. binv E as c Ec. apply unwrap_inv in Ec. inv E.
  apply row_set_cell_aok; [exact H|]. apply Hf. eapply row_aok_get; eauto.
Qed.

Lemma clear_wide_aok r i r' : clear_wide r i = Ok r' -> row_aok r -> row_aok r'.
Proof.
  unfold clear_wide. intros E H. binv E as c Ec.
  destruct (cwide c).
  - binv E as j Ej. binv E as o Eo. inv E. apply idx_inv in Eo.
    apply row_set_cell_aok; [exact H|]. apply clear_own_aok. eapply row_aok_get; eauto.
  - destruct (ccont c).
    + binv E as j Ej. binv E as o Eo. inv E. apply idx_inv in Eo.
      apply row_set_cell_aok; [exact H|]. apply clear_own_aok. eapply row_aok_get; eauto.
    + now inv E.
Qed.

Lemma row_insert_aok r i c r' : row_insert r i c = Ok r' -> row_aok r -> cell_aok c -> row_aok r'.
Proof.
  unfold row_insert. intros E H Hc. binv E as cs Ecs. inv E. unfold row_aok; cbn [cells].
  eapply Forall_insert_at; eauto.
Qed.

Lemma row_remove_aok r i r' : row_remove r i = Ok r' -> row_aok r -> row_aok r'.
Proof.
  unfold row_remove. intros E H. binv E as r1 E1. apply clear_wide_aok in E1; [|exact H].
  binv E as p Ep. destruct p as [x cs]. inv E. unfold row_aok; cbn [cells].
  eapply Forall_remove_at in Ep; [|exact E1]. apply Ep.
Qed.

Lemma row_erase_aok r i a r' : row_erase r i a = Ok r' -> pen_ok a -> row_aok r -> row_aok r'.
Proof.
  unfold row_erase. intros E Ha H. binv E as c Ec. binv E as r1 E1. apply clear_wide_aok in E1; [|exact H].
  binv E as c1 Ec1. binv E as lim Elim. inv E.
  assert (row_aok (row_set_cell r1 i (cell_clear a c1))) as W.
  { apply row_set_cell_aok; [exact E1|now apply cell_clear_aok]. }
  destruct (i =? lim); [apply row_wrap_aok|]; exact W.
Qed.

Lemma row_truncate_aok r n r' : row_truncate r n = Ok r' -> row_aok r -> row_aok r'.
Proof.
  unfold row_truncate. intros E H. binv E as j Ej. binv E as last Elast. inv E. unfold row_aok; cbn [cells].
  assert (Forall cell_aok (firstnN n (cells r))) as W by (now apply Forall_firstnN).
  destruct (cwide last); [|exact W]. apply Forall_set_at; [exact W|].
  apply clear_own_aok. apply idx_inv in Elast. eapply Forall_get; eauto.
Qed.

Lemma row_resize_aok r n c : row_aok r -> cell_aok c -> row_aok (row_resize r n c).
Proof.
  intros H Hc. unfold row_resize, row_aok; cbn [cells].
  assert (Forall cell_aok (resize_list (cells r) n c)) as W by (now apply Forall_resize_list).
  destruct (len (resize_list (cells r) n c)); [exact W|].
  destruct (get _ _) as [last|] eqn:G; [|exact W].
  destruct (cwide last); [|exact W]. apply Forall_set_at; [exact W|].
  apply clear_own_aok. eapply Forall_get; eauto.
Qed.

Lemma ins_step_aok wide p r r' : ins_step wide p r = Ok r' -> row_aok r -> row_aok r'.
Proof.
  unfold ins_step. intros E H. binv E as r1 E1. binv E as r2 E2.
  assert (row_aok r1) as W1.
  { destruct wide; [|now inv E1]. eapply row_upd_aok; [exact E1|exact H|]. intros c Hc. now apply cell_set_cont_aok. }
  assert (row_aok r2) as W2 by (eapply row_insert_aok; eauto; apply cell_new_aok).
  destruct wide; [|now inv E].
  eapply row_upd_aok; [exact E|exact W2|]. intros c Hc. now apply cell_set_cont_aok.
Qed.

(* ------------------------------------------------------------------ *)
(* grids *)

Lemma same_cells_aok x y : same_cells x y -> grid_aok x -> grid_aok y.
Proof. intros [E1 E2] [H1 H2]. unfold grid_aok. rewrite E1, E2. split; assumption. Qed.

Lemma grid_aok_with_live x l : grid_aok x -> Forall row_aok l -> grid_aok (with_live x l).
Proof. intros [_ H2] Hl. split; cbn [with_live live sb]; assumption. Qed.

Lemma grid_aok_live x : grid_aok x -> Forall row_aok (live x).
Proof. intros [H _]; exact H. Qed.

Lemma grid_new_aok rows cols cap x : grid_new rows cols cap = Ok x -> grid_aok x.
Proof. unfold grid_new. intros E. binv E as b Eb. inv E. split; constructor. Qed.

Lemma allocate_rows_aok x : grid_aok x -> grid_aok (allocate_rows x).
Proof.
  intros H. unfold allocate_rows. destruct (live x); [|exact H].
  apply grid_aok_with_live; [exact H|]. apply Forall_repeatN, row_new_aok.
Qed.

Lemma grid_clear_aok x y : grid_clear x = Ok y -> grid_aok x -> grid_aok y.
Proof.
  unfold grid_clear. intros E [H1 H2]. binv E as b Eb. inv E. split; cbn [live sb]; [|exact H2].
  apply Forall_map'. intros r _. apply row_clear_aok, pen_ok_dflt.
Qed.

Lemma upd_row_aok x r f y : upd_row x r f = Ok y -> grid_aok x ->
  (forall rw rw', f rw = Ok rw' -> row_aok rw -> row_aok rw') -> grid_aok y.
Proof.
  unfold upd_row, drawing_row. intros E H Hf. binv E as rw Erw. apply unwrap_inv in Erw. binv E as rw' Erw'. inv E.
  apply grid_aok_with_live; [exact H|]. apply Forall_set_at; [apply (grid_aok_live _ H)|].
  eapply Hf; eauto. eapply Forall_get; [apply (grid_aok_live _ H)|exact Erw].
Qed.

Lemma upd_cell_aok x r c f y : upd_cell x r c f = Ok y -> grid_aok x ->
  (forall cl, cell_aok cl -> cell_aok (f cl)) -> grid_aok y.
Proof.
  unfold upd_cell, drawing_row, row_get. intros E H Hf.
  binv E as rw Erw. apply unwrap_inv in Erw. binv E as cl Ecl. apply unwrap_inv in Ecl. inv E.
  assert (row_aok rw) as Wv by (eapply Forall_get; [apply (grid_aok_live _ H)|exact Erw]).
  apply grid_aok_with_live; [exact H|]. apply Forall_set_at; [apply (grid_aok_live _ H)|].
  apply row_set_cell_aok; [exact Wv|]. apply Hf. eapply row_aok_get; eauto.
Qed.

Lemma erase_all_aok x a : pen_ok a -> grid_aok x -> grid_aok (erase_all x a).
Proof.
  intros Ha H. unfold erase_all. apply grid_aok_with_live; [exact H|].
  apply Forall_map'. intros r _. now apply row_clear_aok.
Qed.

Lemma erase_range_aok n lo a rw rw' : pen_ok a ->
  for_range n lo (fun col r => row_erase r col a) rw = Ok rw' -> row_aok rw -> row_aok rw'.
Proof.
  intros Ha E H. eapply (for_range_inv row_aok); eauto.
  cbv beta. intros i x y Ey Hx. eapply row_erase_aok; eauto.
Qed.

Lemma erase_row_forward_aok x a y : pen_ok a -> erase_row_forward x a = Ok y -> grid_aok x -> grid_aok y.
Proof.
  unfold erase_row_forward, upd_current_row. intros Ha E H. eapply upd_row_aok; eauto.
  cbv beta. intros rw rw' Er Hr. eapply erase_range_aok; eauto.
Qed.

Lemma erase_row_backward_aok x a y : pen_ok a -> erase_row_backward x a = Ok y -> grid_aok x -> grid_aok y.
Proof.
  unfold erase_row_backward, upd_current_row. intros Ha E H. binv E as m Em. eapply upd_row_aok; eauto.
  cbv beta. intros rw rw' Er Hr. eapply erase_range_aok; eauto.
Qed.

Lemma erase_all_forward_aok x a y : pen_ok a -> erase_all_forward x a = Ok y -> grid_aok x -> grid_aok y.
Proof.
  unfold erase_all_forward. intros Ha E H. eapply erase_row_forward_aok; eauto.
  apply grid_aok_with_live; [exact H|]. apply Forall_app; split.
  - apply Forall_firstn', (grid_aok_live _ H).
  - apply Forall_map'. intros r _. now apply row_clear_aok.
Qed.

Lemma erase_all_backward_aok x a y : pen_ok a -> erase_all_backward x a = Ok y -> grid_aok x -> grid_aok y.
Proof.
  unfold erase_all_backward. intros Ha E H. eapply erase_row_backward_aok; eauto.
  apply grid_aok_with_live; [exact H|]. apply Forall_app; split.
  - apply Forall_map'. intros r _. now apply row_clear_aok.
  - apply Forall_skipn', (grid_aok_live _ H).
Qed.

Lemma erase_row_aok x a y : pen_ok a -> erase_row x a = Ok y -> grid_aok x -> grid_aok y.
Proof.
  unfold erase_row, upd_current_row. intros Ha E H. eapply upd_row_aok; eauto.
  cbv beta. intros rw rw' Er _. inv Er. now apply row_clear_aok.
Qed.

Lemma erase_cells_aok x n a y : pen_ok a -> erase_cells x n a = Ok y -> grid_aok x -> grid_aok y.
Proof.
  unfold erase_cells, upd_current_row. intros Ha E H. eapply upd_row_aok; eauto.
  cbv beta. intros rw rw' Er Hr. eapply erase_range_aok; eauto.
Qed.

Lemma insert_cells_aok x n y : insert_cells x n = Ok y -> grid_aok x -> grid_aok y.
Proof.
  unfold insert_cells, upd_current_row. intros E H. binv E as wide Ewide. binv E as room Eroom. eapply upd_row_aok; eauto.
  cbv beta. intros rw rw' Er Hr. binv Er as rw1 Er1. eapply row_truncate_aok; eauto.
  eapply (iter_res_inv row_aok); eauto. intros r1 r2 E12 H1. eapply ins_step_aok; eauto.
Qed.

Lemma delete_cells_aok x n y : delete_cells x n = Ok y -> grid_aok x -> grid_aok y.
Proof.
  unfold delete_cells, upd_current_row. intros E H. binv E as room Eroom. eapply upd_row_aok; eauto.
  cbv beta. intros rw rw' Er Hr. binv Er as rw1 Er1. inv Er. apply row_resize_aok; [|apply cell_new_aok].
  eapply (iter_res_inv row_aok); eauto. cbv beta. intros r1 r2 E12 H1. eapply row_remove_aok; eauto.
Qed.

Lemma new_row_aok x : row_aok (new_row x).
Proof. apply row_new_aok. Qed.

Lemma wrap_false_at_aok l i l' : wrap_false_at l i = Ok l' -> Forall row_aok l -> Forall row_aok l'.
Proof.
  unfold wrap_false_at. intros E H. binv E as r Er. inv E. apply idx_inv in Er.
  apply Forall_set_at; [exact H|]. apply row_wrap_aok. eapply Forall_get; eauto.
Qed.

Lemma rotate_down_aok x a b l l' :
  (do '(_, l1) <- remove_at l a; do l2 <- insert_at l1 b (new_row x); wrap_false_at l2 a) = Ok l' ->
  Forall row_aok l -> Forall row_aok l'.
Proof.
  intros E H. binv E as p1 E1. destruct p1 as [rm l1]. binv E as l2 E2.
  eapply Forall_remove_at in E1 as [_ W1]; [|exact H].
  eapply wrap_false_at_aok; eauto. eapply Forall_insert_at; eauto. apply new_row_aok.
Qed.

Lemma insert_lines_aok x n y : insert_lines x n = Ok y -> grid_aok x -> grid_aok y.
Proof.
  unfold insert_lines. intros E H. binv E as l0 El0. inv E. apply grid_aok_with_live; [exact H|].
  eapply (iter_res_inv (Forall row_aok)); eauto; [apply (grid_aok_live _ H)|].
  cbv beta. intros l l' El Hl. eapply rotate_down_aok; eauto.
Qed.

Lemma scroll_down_aok x n y : scroll_down x n = Ok y -> grid_aok x -> grid_aok y.
Proof.
  unfold scroll_down. intros E H. binv E as l0 El0. inv E. apply grid_aok_with_live; [exact H|].
  eapply (iter_res_inv (Forall row_aok)); eauto; [apply (grid_aok_live _ H)|].
  cbv beta. intros l l' El Hl. eapply rotate_down_aok; eauto.
Qed.

Lemma delete_lines_aok x n y : delete_lines x n = Ok y -> grid_aok x -> grid_aok y.
Proof.
  unfold delete_lines. intros E H. binv E as room Eroom. binv E as l0 El0. inv E. apply grid_aok_with_live; [exact H|].
  eapply (iter_res_inv (Forall row_aok)); eauto; [apply (grid_aok_live _ H)|].
  cbv beta. intros l l' El Hl. binv El as l1 E1. binv El as p2 E2. destruct p2 as [rm l2]. inv El.
  eapply Forall_remove_at in E2 as [_ W]; [exact W|].
  eapply Forall_insert_at; eauto. apply new_row_aok.
Qed.

Lemma scroll_up_aok x n y : scroll_up x n = Ok y -> grid_aok x -> grid_aok y.
Proof.
  unfold scroll_up. intros E H. binv E as room Eroom. binv E as active Eact.
  eapply (iter_res_inv grid_aok); eauto.
  cbv beta. clear E Eroom Eact H. intros g1 g2 E [Hl Hs]. binv E as l1 E1. binv E as p2 E2. destruct p2 as [removed l2].
  eapply Forall_remove_at in E2 as [Wr W2]; [|eapply Forall_insert_at; eauto; apply new_row_aok].
  assert (grid_aok (with_live g1 l2)) as W by (split; cbn [with_live live sb]; assumption).
  destruct ((0 <? sb_cap (with_live g1 l2)) && negb active); inv E; [|exact W].
  split; cbn [with_sb with_live live sb]; [exact W2|].
  apply Forall_trim_front. apply Forall_app; split; [exact Hs|]. constructor; [exact Wr|constructor].
Qed.

Lemma row_inc_scroll_aok x n y k : row_inc_scroll x n = Ok (y, k) -> grid_aok x -> grid_aok y.
Proof.
  unfold row_inc_scroll. intros E H. binv E as p1 E1. destruct p1 as [g1 lines].
  apply row_clamp_bottom_cells in E1.
  assert (grid_aok g1) as W1.
  { eapply same_cells_aok; [|exact H]. eapply same_cells_trans; [apply with_pos_cells|exact E1]. }
  destruct (in_scroll_region x).
  - binv E as g2 E2. inv E. eapply scroll_up_aok; eauto.
  - inv E. exact W1.
Qed.

Lemma row_dec_scroll_aok x n y : row_dec_scroll x n = Ok y -> grid_aok x -> grid_aok y.
Proof.
  unfold row_dec_scroll. intros E H.
  pose proof (row_clamp_top_cells (with_prow x (sat_sub16 (prow x) n)) (in_scroll_region x)) as C.
  destruct (row_clamp_top _ _) as [g1 lines]. cbn [fst] in C.
  binv E as k Ek. eapply scroll_down_aok; eauto.
  eapply same_cells_aok; [|exact H]. eapply same_cells_trans; [apply with_pos_cells|exact C].
Qed.

Lemma col_wrap_aok x width wrap y : col_wrap x width wrap = Ok y -> grid_aok x -> grid_aok y.
Proof.
  unfold col_wrap. intros E H. binv E as lim Elim.
  destruct (lim <? pcol x); [|now inv E].
  binv E as p1 E1. destruct p1 as [g1 scrolled].
  apply row_inc_scroll_aok in E1; [|eapply same_cells_aok; [apply with_pos_cells|exact H]].
  destruct (scrolled <=? prow x); [|now inv E].
  binv E as pr1 Epr1. eapply upd_row_aok; eauto.
  cbv beta. intros rw rw' Er Hr. inv Er. now apply row_wrap_aok.
Qed.

Lemma grid_set_size_aok x rows cols y : grid_set_size x rows cols = Ok y -> grid_aok x -> grid_aok y.
Proof.
  unfold grid_set_size. intros E [Hl Hs]. binv E as oldm Eoldm. binv E as newm Enewm. binv E as newc Enewc.
  rewrite row_clamp_top_false in E. binv E as p3 E3. destruct p3 as [g3 k3]. binv E as g4 E4. inv E.
  apply row_clamp_bottom_cells in E3. apply col_clamp_cells in E4.
  eapply same_cells_aok; [apply with_saved_cells|].
  eapply same_cells_aok; [exact E4|]. eapply same_cells_aok; [exact E3|].
  split; cbn [live sb]; [|exact Hs].
  apply Forall_resize_list; [|apply row_new_aok].
  apply Forall_map'. intros r Hr. apply row_resize_aok; [|apply cell_new_aok].
  destruct (negb (cols =? gcols x)).
  - apply in_map_iff in Hr as (r0 & <- & Hr0). apply row_wrap_aok.
    rewrite Forall_forall in Hl. now apply Hl.
  - rewrite Forall_forall in Hl. now apply Hl.
Qed.

(* operations that leave the cells alone *)
Lemma grid_set_pos_aok x r c y : grid_set_pos x r c = Ok y -> grid_aok x -> grid_aok y.
Proof. intros E. apply same_cells_aok. eapply grid_set_pos_cells; eauto. Qed.
Lemma save_cursor_aok x : grid_aok x -> grid_aok (save_cursor x).
Proof. apply same_cells_aok, save_cursor_cells. Qed.
Lemma restore_cursor_aok x : grid_aok x -> grid_aok (restore_cursor x).
Proof. apply same_cells_aok, restore_cursor_cells. Qed.
Lemma set_scroll_region_aok x t b y : set_scroll_region x t b = Ok y -> grid_aok x -> grid_aok y.
Proof. intros E. apply same_cells_aok. eapply set_scroll_region_cells; eauto. Qed.
Lemma set_origin_mode_aok x m y : set_origin_mode x m = Ok y -> grid_aok x -> grid_aok y.
Proof. intros E. apply same_cells_aok. eapply set_origin_mode_cells; eauto. Qed.
Lemma row_inc_clamp_aok x n y : row_inc_clamp x n = Ok y -> grid_aok x -> grid_aok y.
Proof. intros E. apply same_cells_aok. eapply row_inc_clamp_cells; eauto. Qed.
Lemma row_dec_clamp_aok x n : grid_aok x -> grid_aok (row_dec_clamp x n).
Proof. apply same_cells_aok, row_dec_clamp_cells. Qed.
Lemma row_set_aok x i y : row_set x i = Ok y -> grid_aok x -> grid_aok y.
Proof. intros E. apply same_cells_aok. eapply row_set_cells; eauto. Qed.
Lemma col_inc_aok x n : grid_aok x -> grid_aok (col_inc x n).
Proof. apply same_cells_aok, col_inc_cells. Qed.
Lemma col_dec_aok x n : grid_aok x -> grid_aok (col_dec x n).
Proof. apply same_cells_aok, col_dec_cells. Qed.
Lemma col_inc_clamp_aok x n y : col_inc_clamp x n = Ok y -> grid_aok x -> grid_aok y.
Proof. intros E. apply same_cells_aok. eapply col_inc_clamp_cells; eauto. Qed.
Lemma col_tab_aok x y : col_tab x = Ok y -> grid_aok x -> grid_aok y.
Proof. intros E. apply same_cells_aok. eapply col_tab_cells; eauto. Qed.
Lemma col_set_aok x i y : col_set x i = Ok y -> grid_aok x -> grid_aok y.
Proof. intros E. apply same_cells_aok. eapply col_set_cells; eauto. Qed.
Lemma grid_set_scrollback_aok x k : grid_aok x -> grid_aok (grid_set_scrollback x k).
Proof. apply same_cells_aok, grid_set_scrollback_cells. Qed.

(* ------------------------------------------------------------------ *)
(* the text path *)

Lemma append_at_aok x r c ch y : append_at x r c ch = Ok y -> grid_aok x -> grid_aok y.
Proof.
  unfold append_at. intros E H. binv E as pc Epc.
  destruct (ccont pc).
  - binv E as c2 Ec2. binv E as d Ed. eapply upd_cell_aok; eauto. intros cl Hcl. now apply cell_append_aok.
  - eapply upd_cell_aok; eauto. intros cl Hcl. now apply cell_append_aok.
Qed.

Lemma text_zero_aok x ch y : text_zero x ch = Ok y -> grid_aok x -> grid_aok y.
Proof.
  unfold text_zero. intros E H.
  destruct (0 <? pcol x).
  - binv E as c1 Ec1. eapply append_at_aok; eauto.
  - destruct (0 <? prow x); [|now inv E].
    binv E as r1 Er1. binv E as prev Eprev.
    destruct (wrapped prev); [|now inv E].
    binv E as c1 Ec1. eapply append_at_aok; eauto.
Qed.

Lemma upd_cell_aok' x r c f y : upd_cell x r c f = Ok y -> grid_aok x -> (forall cl, cell_aok (f cl)) -> grid_aok y.
Proof. intros E H Hf. eapply upd_cell_aok; eauto. Qed.

Lemma text_place_aok x ch width a y : pen_ok a -> text_place x ch width a = Ok y -> grid_aok x -> grid_aok y.
Proof.
  unfold text_place. intros Ha E H.
  binv E as c0 Ec0. binv E as x1 E1.
  assert (grid_aok x1) as W1.
  { destruct (ccont c0); [|now inv E1]. binv E1 as cm Ecm.
    eapply upd_cell_aok'; eauto; intros cl; exact Ha. }
  binv E as c0' Ec0'. binv E as x2 E2.
  assert (grid_aok x2) as W2.
  { destruct (cwide c0'); [|now inv E2]. binv E2 as cp Ecp.
    eapply upd_cell_aok'; eauto; intros cl; exact Ha. }
  binv E as x3 E3.
  assert (grid_aok x3) as W3.
  { eapply upd_cell_aok'; eauto; intros cl; exact Ha. }
  assert (grid_aok (col_inc x3 1)) as W4 by (now apply col_inc_aok).
  destruct (1 <? width); [|now inv E].
  binv E as n0 En0. binv E as x5 E5.
  assert (grid_aok x5) as W5.
  { destruct (cwide n0); [|now inv E5]. binv E5 as cn Ecn. binv E5 as x5a E5a. binv E5 as lastc Elastc.
    assert (grid_aok x5a) as W5a by (eapply upd_cell_aok'; eauto; intros cl; exact Ha).
    destruct (cn =? lastc); [|now inv E5].
    eapply upd_row_aok; eauto. cbv beta. intros rw rw' Er Hr. inv Er. now apply row_wrap_aok. }
  binv E as x6 E6. inv E. apply col_inc_aok.
  eapply upd_cell_aok'; [exact E6|exact W5|]. intros cl. exact pen_ok_dflt.
Qed.

Theorem grid_text_aok x ch a y : pen_ok a -> grid_text x ch a = Ok y -> grid_aok x -> grid_aok y.
Proof.
  unfold grid_text. intros Ha E H.
  set (width := match wd ch with Some n => n | None => 1 end) in *.
  assert (y = x \/
          (if gcols x <? width then Ok x
           else do lim <- sub16 (gcols x) width;
                do wrap <- (if lim <? pcol x then
                              do lastc <- sub16 (gcols x) 1;
                              do lc <- unwrap (drawing_cell x (prow x) lastc);
                              Ok (has_contents lc || ccont lc)
                            else Ok false);
                do x1 <- col_wrap x width wrap;
                if width =? 0 then text_zero x1 ch else text_place x1 ch width a) = Ok y) as [->|E'].
  { destruct (wd ch) as [w|].
    - right. exact E.
    - destruct (ch <? 256); [left; now inv E|right; exact E]. }
  { exact H. }
  clear E.
  destruct (gcols x <? width); [now inv E'|].
  binv E' as lim Elim. binv E' as wrap Ewrap. binv E' as x1 E1.
  pose proof (col_wrap_aok _ _ _ _ E1 H) as W1.
  destruct (width =? 0).
  - eapply text_zero_aok; eauto.
  - eapply text_place_aok; eauto.
Qed.

(* ------------------------------------------------------------------ *)
(* screens *)

Lemma sa_g s : screen_attrs_ok s -> grid_aok (g s). Proof. intros (H & _); exact H. Qed.
Lemma sa_alt s : screen_attrs_ok s -> grid_aok (alt s). Proof. intros (_ & H & _); exact H. Qed.
Lemma sa_pen s : screen_attrs_ok s -> pen_ok (pen s). Proof. intros (_ & _ & H & _); exact H. Qed.
Lemma sa_spen s : screen_attrs_ok s -> pen_ok (spen s). Proof. intros (_ & _ & _ & H); exact H. Qed.

Lemma screen_aok_same s s' : g s' = g s -> alt s' = alt s -> pen s' = pen s -> spen s' = spen s ->
  screen_attrs_ok s -> screen_attrs_ok s'.
Proof. intros E1 E2 E3 E4 (H1 & H2 & H3 & H4). unfold screen_attrs_ok. rewrite E1, E2, E3, E4. auto. Qed.

Lemma cur_aok s : screen_attrs_ok s -> grid_aok (cur s).
Proof. intros (H1 & H2 & _). unfold cur. destruct (altmode s); assumption. Qed.

Lemma with_cur_aok s y : screen_attrs_ok s -> grid_aok y -> screen_attrs_ok (with_cur s y).
Proof.
  intros (H1 & H2 & H3 & H4) Hy. unfold with_cur. destruct (altmode s); (split; [|split; [|split]]); cbn; assumption.
Qed.

Definition aokp {A} (proj : A -> screen) (r : res A) : Prop := forall a, r = Ok a -> screen_attrs_ok (proj a).
Notation aokp1 := (aokp (fun s : screen => s)).
Notation aokp2 := (aokp (@fst screen N)).
Notation aokpe := (aokp (@fst screen (list event))).

Lemma aokp_ok {A} (proj : A -> screen) a : screen_attrs_ok (proj a) -> aokp proj (Ok a).
Proof. intros H a' E. inv E. exact H. Qed.

Lemma on_cur_aokp s f : screen_attrs_ok s -> (forall y, f (cur s) = Ok y -> grid_aok y) -> aokp1 (on_cur s f).
Proof.
  intros H Hf s' E. unfold on_cur in E. binv E as y Ey. inv E. apply with_cur_aok; [exact H|now apply Hf].
Qed.

Lemma aokp_lift1 {B} r (k : B) : aokp1 r -> aokp (@fst screen B) (do s1 <- r; Ok (s1, k)).
Proof. intros Hr a E. binv E as s1 E1. pose proof (Hr _ E1) as W. inv E. exact W. Qed.

Lemma aokp_noev r : aokp1 r -> aokpe (noev r).
Proof. intros Hr a E. unfold noev in E. binv E as s1 E1. pose proof (Hr _ E1) as W. inv E. exact W. Qed.

Lemma aokp_lift2 r (e : N -> list event) : aokp2 r -> aokpe (do '(s1, k) <- r; Ok (s1, e k)).
Proof. intros Hr a E. binv E as p1 E1. destruct p1 as [s1 k]. pose proof (Hr _ E1) as W. inv E. exact W. Qed.

Lemma screen_new_aok rows cols cap : aokp1 (screen_new rows cols cap).
Proof.
  intros s E. unfold screen_new in E. binv E as g0 Eg. binv E as a0 Ea. inv E.
  split; [|split; [|split]]; cbn [g alt pen spen]; try exact pen_ok_dflt.
  - apply (allocate_rows_aok g0). eapply grid_new_aok; eauto.
  - apply (grid_new_aok _ _ _ _ Ea).
Qed.

Lemma screen_set_size_aok s rows cols : screen_attrs_ok s -> aokp1 (screen_set_size s rows cols).
Proof.
  intros (H1 & H2 & H3 & H4) s' E. unfold screen_set_size in E. binv E as g1 Eg. binv E as a1 Ea. inv E.
  split; [|split; [|split]]; cbn; try assumption; eapply grid_set_size_aok; eauto.
Qed.

Lemma screen_set_scrollback_aok s k : screen_attrs_ok s -> screen_attrs_ok (screen_set_scrollback s k).
Proof.
  intros H. unfold screen_set_scrollback. apply with_cur_aok; [exact H|].
  apply grid_set_scrollback_aok, cur_aok, H.
Qed.

Lemma enter_alternate_grid_aok s : screen_attrs_ok s -> screen_attrs_ok (enter_alternate_grid s).
Proof.
  intros H. unfold enter_alternate_grid.
  pose proof (screen_set_scrollback_aok s 0 H) as (H1 & H2 & H3 & H4). unfold screen_set_scrollback in H1, H2, H3, H4.
  split; [|split; [|split]]; cbn [g alt pen spen with_alt with_altmode]; try assumption.
  apply allocate_rows_aok. exact H2.
Qed.

Lemma exit_alternate_grid_aok s : screen_attrs_ok s -> screen_attrs_ok (exit_alternate_grid s).
Proof. apply screen_aok_same; reflexivity. Qed.

Lemma with_pen_aok s a : pen_ok a -> screen_attrs_ok s -> screen_attrs_ok (with_pen s a).
Proof. intros Ha (H1 & H2 & H3 & H4). split; [|split; [|split]]; cbn; assumption. Qed.
Lemma with_spen_aok s a : pen_ok a -> screen_attrs_ok s -> screen_attrs_ok (with_spen s a).
Proof. intros Ha (H1 & H2 & H3 & H4). split; [|split; [|split]]; cbn; assumption. Qed.

Lemma scr_save_cursor_aok s : screen_attrs_ok s -> screen_attrs_ok (scr_save_cursor s).
Proof.
  intros H. unfold scr_save_cursor. apply with_spen_aok; [apply sa_pen, H|]. apply with_cur_aok; [exact H|].
  apply save_cursor_aok, cur_aok, H.
Qed.

Lemma scr_restore_cursor_aok s : screen_attrs_ok s -> screen_attrs_ok (scr_restore_cursor s).
Proof.
  intros H. unfold scr_restore_cursor.
  assert (screen_attrs_ok (with_cur s (restore_cursor (cur s)))) as W.
  { apply with_cur_aok; [exact H|]. apply restore_cursor_aok, cur_aok, H. }
  cbv zeta. apply with_pen_aok; [apply sa_spen, W|exact W].
Qed.

Lemma clear_mouse_mode_aok s m : screen_attrs_ok s -> screen_attrs_ok (clear_mouse_mode s m).
Proof. intros H. unfold clear_mouse_mode. destruct (mouse_mode_eqb _ _); [|exact H]. revert H. apply screen_aok_same; reflexivity. Qed.
Lemma clear_mouse_enc_aok s m : screen_attrs_ok s -> screen_attrs_ok (clear_mouse_enc s m).
Proof. intros H. unfold clear_mouse_enc. destruct (mouse_enc_eqb _ _); [|exact H]. revert H. apply screen_aok_same; reflexivity. Qed.

Ltac cur_aok_op L :=
  let H := fresh "H" in let y := fresh "y" in let Ey := fresh "Ey" in
  intros H; apply on_cur_aokp; [exact H|]; intros y Ey; cbv beta in Ey;
  first [ eapply L; [exact Ey|apply cur_aok, H]
        | eapply L; [apply sa_pen, H|exact Ey|apply cur_aok, H]
        | inv Ey; apply L; apply cur_aok, H
        | inv Ey; apply L; [apply sa_pen, H|apply cur_aok, H] ].

Lemma scr_text_aok s ch : screen_attrs_ok s -> aokp1 (scr_text s ch).
Proof. unfold scr_text. cur_aok_op grid_text_aok. Qed.

Lemma scr_bs_aok s : screen_attrs_ok s -> aokp1 (scr_bs s). Proof. unfold scr_bs. cur_aok_op col_dec_aok. Qed.
Lemma scr_tab_aok s : screen_attrs_ok s -> aokp1 (scr_tab s). Proof. unfold scr_tab. cur_aok_op col_tab_aok. Qed.
Lemma scr_cr_aok s : screen_attrs_ok s -> aokp1 (scr_cr s). Proof. unfold scr_cr. cur_aok_op col_set_aok. Qed.
Lemma scr_lf_aok s : screen_attrs_ok s -> aokp1 (scr_lf s).
Proof.
  intros H. apply on_cur_aokp; [exact H|]. intros y Ey. binv Ey as p1 E1. destruct p1 as [x1 k]. inv Ey.
  eapply row_inc_scroll_aok; eauto. apply cur_aok, H.
Qed.
Lemma scr_ri_aok s : screen_attrs_ok s -> aokp1 (scr_ri s). Proof. unfold scr_ri. cur_aok_op row_dec_scroll_aok. Qed.
Lemma scr_ris_aok s : aokp1 (scr_ris s). Proof. apply screen_new_aok. Qed.

Lemma scr_ich_aok s n : screen_attrs_ok s -> aokp1 (scr_ich s n). Proof. unfold scr_ich. cur_aok_op insert_cells_aok. Qed.
Lemma scr_cuu_aok s n : screen_attrs_ok s -> aokp1 (scr_cuu s n). Proof. unfold scr_cuu. cur_aok_op row_dec_clamp_aok. Qed.
Lemma scr_cud_aok s n : screen_attrs_ok s -> aokp1 (scr_cud s n). Proof. unfold scr_cud. cur_aok_op row_inc_clamp_aok. Qed.
Lemma scr_cuf_aok s n : screen_attrs_ok s -> aokp1 (scr_cuf s n). Proof. unfold scr_cuf. cur_aok_op col_inc_clamp_aok. Qed.
Lemma scr_cub_aok s n : screen_attrs_ok s -> aokp1 (scr_cub s n). Proof. unfold scr_cub. cur_aok_op col_dec_aok. Qed.
Lemma scr_il_aok s n : screen_attrs_ok s -> aokp1 (scr_il s n). Proof. unfold scr_il. cur_aok_op insert_lines_aok. Qed.
Lemma scr_dl_aok s n : screen_attrs_ok s -> aokp1 (scr_dl s n). Proof. unfold scr_dl. cur_aok_op delete_lines_aok. Qed.
Lemma scr_dch_aok s n : screen_attrs_ok s -> aokp1 (scr_dch s n). Proof. unfold scr_dch. cur_aok_op delete_cells_aok. Qed.
Lemma scr_su_aok s n : screen_attrs_ok s -> aokp1 (scr_su s n). Proof. unfold scr_su. cur_aok_op scroll_up_aok. Qed.
Lemma scr_sd_aok s n : screen_attrs_ok s -> aokp1 (scr_sd s n). Proof. unfold scr_sd. cur_aok_op scroll_down_aok. Qed.
Lemma scr_ech_aok s n : screen_attrs_ok s -> aokp1 (scr_ech s n). Proof. unfold scr_ech. cur_aok_op erase_cells_aok. Qed.

Lemma scr_cnl_aok s n : screen_attrs_ok s -> aokp1 (scr_cnl s n).
Proof.
  intros H. apply on_cur_aokp; [exact H|]. intros y Ey. binv Ey as x1 E1.
  eapply row_inc_clamp_aok; eauto. eapply col_set_aok; eauto. apply cur_aok, H.
Qed.
Lemma scr_cpl_aok s n : screen_attrs_ok s -> aokp1 (scr_cpl s n).
Proof.
  intros H. apply on_cur_aokp; [exact H|]. intros y Ey. binv Ey as x1 E1. inv Ey.
  apply row_dec_clamp_aok. eapply col_set_aok; eauto. apply cur_aok, H.
Qed.
Lemma scr_cha_aok s n : screen_attrs_ok s -> aokp1 (scr_cha s n).
Proof.
  intros H. apply on_cur_aokp; [exact H|]. intros y Ey. binv Ey as c Ec.
  eapply col_set_aok; eauto. apply cur_aok, H.
Qed.
Lemma scr_vpa_aok s n : screen_attrs_ok s -> aokp1 (scr_vpa s n).
Proof.
  intros H. apply on_cur_aokp; [exact H|]. intros y Ey. binv Ey as r Er.
  eapply row_set_aok; eauto. apply cur_aok, H.
Qed.
Lemma scr_cup_aok s r c : screen_attrs_ok s -> aokp1 (scr_cup s r c).
Proof.
  intros H. apply on_cur_aokp; [exact H|]. intros y Ey. binv Ey as r1 Er. binv Ey as c1 Ec.
  eapply grid_set_pos_aok; eauto. apply cur_aok, H.
Qed.
Lemma scr_decstbm_aok s t b : screen_attrs_ok s -> aokp1 (scr_decstbm s t b).
Proof.
  intros H. apply on_cur_aokp; [exact H|]. intros y Ey. binv Ey as t1 Et. binv Ey as b1 Eb.
  eapply set_scroll_region_aok; eauto. apply cur_aok, H.
Qed.

Lemma scr_ed_aok s m : screen_attrs_ok s -> aokp2 (scr_ed s m).
Proof.
  intros H. unfold scr_ed.
  destruct (m =? 0); [apply aokp_lift1; revert H; cur_aok_op erase_all_forward_aok|].
  destruct (m =? 1); [apply aokp_lift1; revert H; cur_aok_op erase_all_backward_aok|].
  destruct (m =? 2); [apply aokp_lift1; revert H; cur_aok_op erase_all_aok|].
  now apply aokp_ok.
Qed.
Lemma scr_el_aok s m : screen_attrs_ok s -> aokp2 (scr_el s m).
Proof.
  intros H. unfold scr_el.
  destruct (m =? 0); [apply aokp_lift1; revert H; cur_aok_op erase_row_forward_aok|].
  destruct (m =? 1); [apply aokp_lift1; revert H; cur_aok_op erase_row_backward_aok|].
  destruct (m =? 2); [apply aokp_lift1; revert H; cur_aok_op erase_row_aok|].
  now apply aokp_ok.
Qed.

Lemma set_origin_aok s m : screen_attrs_ok s -> aokp1 (on_cur s (fun x => set_origin_mode x m)).
Proof. cur_aok_op set_origin_mode_aok. Qed.

Ltac same_aok H := apply aokp_ok; cbn [fst]; revert H; apply screen_aok_same; reflexivity.

Lemma decset1_aok s p : screen_attrs_ok s -> aokp2 (decset1 s p).
Proof.
  intros H. unfold decset1. destruct (Screen.single p) as [n|]; [|now apply aokp_ok].
  repeat match goal with
  | |- aokp _ (if ?c then _ else _) => destruct c
  end;
  try (now apply aokp_ok); try (same_aok H).
  - apply aokp_lift1. now apply set_origin_aok.
  - apply aokp_ok. cbn [fst]. now apply enter_alternate_grid_aok.
  - (* 1049 *)
    pose proof (scr_save_cursor_aok s H) as (H1 & H2 & H3 & H4).
    intros a E. binv E as a1 Ea. inv E. cbn [fst]. apply enter_alternate_grid_aok.
    split; [|split; [|split]]; cbn [g alt pen spen with_alt]; try assumption. eapply grid_clear_aok; eauto.
Qed.

Lemma decrst1_aok s p : screen_attrs_ok s -> aokp2 (decrst1 s p).
Proof.
  intros H. unfold decrst1. destruct (Screen.single p) as [n|]; [|now apply aokp_ok].
  repeat match goal with
  | |- aokp _ (if ?c then _ else _) => destruct c
  end;
  try (now apply aokp_ok); try (same_aok H);
  try (apply aokp_ok; cbn [fst]; first [now apply clear_mouse_mode_aok | now apply clear_mouse_enc_aok]).
  - apply aokp_lift1. now apply set_origin_aok.
  - apply aokp_ok. cbn [fst]. apply scr_restore_cursor_aok. now apply exit_alternate_grid_aok.
Qed.

Lemma fold_params_aok f : (forall s p, screen_attrs_ok s -> aokp2 (f s p)) ->
  forall ps s n, screen_attrs_ok s -> aokp2 (fold_params f ps s n).
Proof.
  intros Hf. induction ps as [|p ps IH]; intros s n H; cbn [fold_params].
  - now apply aokp_ok.
  - intros a E. binv E as p1 E1. destruct p1 as [s1 k]. eapply IH; [|exact E].
    apply (Hf s p H _ E1).
Qed.

Lemma scr_decset_aok s ps : screen_attrs_ok s -> aokp2 (scr_decset s ps).
Proof. intros H. apply fold_params_aok; [apply decset1_aok|exact H]. Qed.
Lemma scr_decrst_aok s ps : screen_attrs_ok s -> aokp2 (scr_decrst s ps).
Proof. intros H. apply fold_params_aok; [apply decrst1_aok|exact H]. Qed.

Lemma scr_sgr_aok s ps : screen_attrs_ok s -> screen_attrs_ok (fst (scr_sgr s ps)).
Proof.
  intros H. unfold scr_sgr. pose proof (sgr_pen_ok ps (pen s) (sa_pen _ H)) as Q.
  destruct (sgr ps (pen s)) as [a k]. cbn [fst] in *. now apply with_pen_aok.
Qed.

(* ------------------------------------------------------------------ *)
(* perform *)

Lemma do_execute_aok s b : screen_attrs_ok s -> aokpe (do_execute s b).
Proof.
  intros H. unfold do_execute.
  repeat match goal with |- aokp _ (if ?c then _ else _) => destruct c end;
    try (now apply aokp_ok); apply aokp_lift1.
  - now apply scr_bs_aok.
  - now apply scr_tab_aok.
  - now apply scr_lf_aok.
  - now apply scr_cr_aok.
Qed.

Lemma do_print_aok s c : screen_attrs_ok s -> aokpe (do_print s c).
Proof.
  intros H. unfold do_print.
  destruct ((128 <=? c) && (c <? 160)); [now apply do_execute_aok|].
  destruct (c =? REPL); [now apply aokp_ok|].
  apply aokp_lift1. now apply scr_text_aok.
Qed.

Lemma do_esc_aok s inter b : screen_attrs_ok s -> aokpe (do_esc s inter b).
Proof.
  intros H. unfold do_esc. destruct inter; [|now apply aokp_ok].
  repeat match goal with |- aokp _ (if ?c then _ else _) => destruct c end;
    try (now apply aokp_ok); try (same_aok H).
  - apply aokp_ok. now apply scr_save_cursor_aok.
  - apply aokp_ok. now apply scr_restore_cursor_aok.
  - apply aokp_lift1. now apply scr_ri_aok.
  - apply aokp_lift1. apply scr_ris_aok.
Qed.

Lemma do_csi_aok rz s ps inter c : screen_attrs_ok s -> aokpe (do_csi rz s ps inter c).
Proof.
  intros H. unfold do_csi. destruct inter as [|i inter'].
  - repeat match goal with |- aokp _ (if ?c then _ else _) => destruct c end;
      try (now apply aokp_ok);
      try (apply aokp_noev;
           first [ now apply scr_ich_aok | now apply scr_cuu_aok | now apply scr_cud_aok | now apply scr_cuf_aok
                 | now apply scr_cub_aok | now apply scr_cnl_aok | now apply scr_cpl_aok | now apply scr_cha_aok
                 | now apply scr_il_aok | now apply scr_dl_aok | now apply scr_dch_aok | now apply scr_su_aok
                 | now apply scr_sd_aok | now apply scr_ech_aok | now apply scr_vpa_aok ]).
    + (* CUP *) destruct (canon2 ps 1 1) as [r cc]. apply aokp_noev. now apply scr_cup_aok.
    + apply aokp_lift2. now apply scr_ed_aok.
    + apply aokp_lift2. now apply scr_el_aok.
    + (* SGR *) pose proof (scr_sgr_aok s ps H) as O. destruct (scr_sgr s ps) as [s1 k]. now apply aokp_ok.
    + (* DECSTBM *) destruct (canon2 ps 1 (grows (cur s))) as [t b]. apply aokp_noev. now apply scr_decstbm_aok.
    + (* CSI t *) destruct ps as [|[|op sub] rest]; try (now apply aokp_ok).
      destruct (op =? 8); [|now apply aokp_ok].
      match goal with |- aokp _ (if ?c then _ else _) => destruct c end; [|now apply aokp_ok].
      apply aokp_lift1. now apply screen_set_size_aok.
  - destruct (i =? 63); [|now apply aokp_ok].
    repeat match goal with |- aokp _ (if ?c then _ else _) => destruct c end;
      try (now apply aokp_ok); apply aokp_lift2.
    + now apply scr_ed_aok.
    + now apply scr_el_aok.
    + now apply scr_decset_aok.
    + now apply scr_decrst_aok.
Qed.

Lemma do_osc_aok s ps : screen_attrs_ok s -> screen_attrs_ok (fst (do_osc s ps)).
Proof.
  intros H. unfold do_osc. destruct ps as [|k [|v [|]]]; try exact H.
  repeat match goal with |- context[if ?c then _ else _] => destruct c end; exact H.
Qed.

Theorem perform_attrs_ok rz s a s' evs : perform rz s a = Ok (s', evs) ->
  screen_attrs_ok s -> screen_attrs_ok s'.
Proof.
  intros E H.
  assert (aokpe (perform rz s a)) as W.
  { destruct a; cbn [perform]; try (now apply aokp_ok).
    - now apply do_print_aok.
    - now apply do_execute_aok.
    - apply aokp_ok. now apply do_osc_aok.
    - now apply do_csi_aok.
    - now apply do_esc_aok. }
  apply (W _ E).
Qed.

Theorem perform_all_attrs_ok rz acts : forall s evs s' evs', perform_all rz s acts evs = Ok (s', evs') ->
  screen_attrs_ok s -> screen_attrs_ok s'.
Proof.
  induction acts as [|a r IH]; intros s evs s' evs' E H; cbn [perform_all] in E.
  - now inv E.
  - binv E as p1 E1. destruct p1 as [s1 e]. eapply IH; eauto. eapply perform_attrs_ok; eauto.
Qed.

(* ------------------------------------------------------------------ *)
(* the parser API *)

Theorem parser_new_attrs_ok rows cols cap rz p : parser_new rows cols cap rz = Ok p -> screen_attrs_ok (scr p).
Proof.
  unfold parser_new. intros E. binv E as s Es. inv E. cbn [scr]. apply (screen_new_aok _ _ _ _ Es).
Qed.

Theorem process_attrs_ok p bs q : process p bs = Ok q -> screen_attrs_ok (scr p) -> screen_attrs_ok (scr q).
Proof.
  rewrite process_unfold. intros E H. destruct (advance (vt p) _) as [v acts].
  binv E as p1 E1. destruct p1 as [s evs]. inv E. cbn [scr]. eapply perform_all_attrs_ok; eauto.
Qed.

Theorem step_attrs_ok p o q : step p o = Ok q -> screen_attrs_ok (scr p) -> screen_attrs_ok (scr q).
Proof.
  intros E H. destruct o; cbn [step] in E.
  - eapply process_attrs_ok; eauto.
  - unfold write in E. binv E as p1 E1. destruct p1 as [q1 k]. inv E. binv E1 as q2 E2. inv E1.
    eapply process_attrs_ok; eauto.
  - binv E as s Es. inv E. cbn [scr]. apply (screen_set_size_aok _ _ _ H _ Es).
  - inv E. cbn [scr]. now apply screen_set_scrollback_aok.
Qed.

(* no hypothesis on the operations or on the input bytes *)
Theorem run_attrs_ok : forall ops p q, screen_attrs_ok (scr p) -> run p ops = Ok q -> screen_attrs_ok (scr q).
Proof.
  induction ops as [|o r IH]; intros p q H E; cbn [run] in E.
  - now inv E.
  - binv E as p1 E1. apply (IH p1 q); [|exact E]. eapply step_attrs_ok; eauto.
Qed.
