(* Utf8Lemmas.v — facts about [decode1] and [from_utf8] used by the vte proofs. *)
Require Import Tac Utf8.
Open Scope N_scope.

(* ---------- small list / N helpers ---------- *)

Definition hi (l : list N) : Prop := Forall (fun b => 128 <= b) l.

Ltac nn :=
  change (N.to_nat 0) with 0%nat in *;
  change (N.to_nat 1) with 1%nat in *;
  change (N.to_nat 2) with 2%nat in *;
  change (N.to_nat 3) with 3%nat in *;
  change (N.to_nat 4) with 4%nat in *.

Lemma len_nil {A} : len (@nil A) = 0.
Proof. reflexivity. Qed.

Lemma len_cons {A} (a : A) l : len (a :: l) = 1 + len l.
Proof. unfold len; cbn [length]; lia. Qed.

Lemma len_app {A} (l m : list A) : len (l ++ m) = len l + len m.
Proof. unfold len; rewrite app_length; lia. Qed.

Lemma len_0 {A} (l : list A) : len l = 0 -> l = [].
Proof. destruct l; [auto|]; rewrite len_cons; lia. Qed.

Lemma len_firstnN {A} n (l : list A) : len (firstnN n l) = N.min n (len l).
Proof. unfold len, firstnN; rewrite firstn_length; lia. Qed.

Lemma len_skipnN {A} n (l : list A) : len (skipnN n l) = len l - n.
Proof. unfold len, skipnN; rewrite skipn_length; lia. Qed.

Lemma firstnN_skipnN {A} n (l : list A) : firstnN n l ++ skipnN n l = l.
Proof. apply firstn_skipn. Qed.

Lemma firstnN_all {A} n (l : list A) : len l <= n -> firstnN n l = l.
Proof. intros; apply firstn_all2; unfold len in *; lia. Qed.

Lemma skipnN_all {A} n (l : list A) : len l <= n -> skipnN n l = [].
Proof. intros; apply skipn_all2; unfold len in *; lia. Qed.

Lemma skipnN_0 {A} (l : list A) : skipnN 0 l = l.
Proof. reflexivity. Qed.

Lemma firstnN_app_le {A} n (l m : list A) : n <= len l -> firstnN n (l ++ m) = firstnN n l.
Proof.
  intros; unfold firstnN; rewrite firstn_app.
  replace (N.to_nat n - length l)%nat with 0%nat by (unfold len in *; lia).
  cbn [firstn]; apply app_nil_r.
Qed.

Lemma skipnN_app_le {A} n (l m : list A) : n <= len l -> skipnN n (l ++ m) = skipnN n l ++ m.
Proof.
  intros; unfold skipnN; rewrite skipn_app.
  replace (N.to_nat n - length l)%nat with 0%nat by (unfold len in *; lia).
  reflexivity.
Qed.

Lemma skipnN_app_ge {A} n (l m : list A) : len l <= n -> skipnN n (l ++ m) = skipnN (n - len l) m.
Proof.
  intros; unfold skipnN; rewrite skipn_app.
  rewrite skipn_all2 by (unfold len in *; lia).
  replace (N.to_nat n - length l)%nat with (N.to_nat (n - len l)) by (unfold len in *; lia).
  reflexivity.
Qed.

Lemma firstnN_app_ge {A} n (l m : list A) : len l <= n -> firstnN n (l ++ m) = l ++ firstnN (n - len l) m.
Proof.
  intros; unfold firstnN; rewrite firstn_app.
  rewrite firstn_all2 by (unfold len in *; lia).
  replace (N.to_nat n - length l)%nat with (N.to_nat (n - len l)) by (unfold len in *; lia).
  reflexivity.
Qed.

Lemma firstnN_firstnN {A} n m (l : list A) : firstnN n (firstnN m l) = firstnN (N.min n m) l.
Proof.
  unfold firstnN; rewrite firstn_firstn; f_equal; lia.
Qed.

Lemma skipnN_firstnN {A} n m (l : list A) :
  skipnN n (firstnN (n + m) l) = firstnN m (skipnN n l).
Proof.
  unfold firstnN, skipnN.
  replace (N.to_nat (n + m)) with (N.to_nat n + N.to_nat m)%nat by lia.
  symmetry; apply firstn_skipn_comm.
Qed.

Lemma skipn_skipn' {A} (n m : nat) (l : list A) : skipn n (skipn m l) = skipn (m + n) l.
Proof.
  revert l; induction m; intros l; [reflexivity|].
  destruct l; [now rewrite !skipn_nil|]. cbn [skipn Nat.add]. apply IHm.
Qed.

Lemma skipnN_skipnN {A} n m (l : list A) : skipnN n (skipnN m l) = skipnN (m + n) l.
Proof.
  unfold skipnN; rewrite skipn_skipn'; f_equal; lia.
Qed.

Lemma hd_firstnN {A} (d : A) n l : 1 <= n -> hd d (firstnN n l) = hd d l.
Proof.
  intros; unfold firstnN; destruct (N.to_nat n) eqn:E; [lia|]; destruct l; reflexivity.
Qed.

Lemma hd_app {A} (d : A) l m : l <> [] -> hd d (l ++ m) = hd d l.
Proof. destruct l; [congruence | reflexivity]. Qed.

(* ---------- ok3 / ok4 ---------- *)

Lemma ok3_spec a b : ok3 a b = true ->
  224 <= a <= 239 /\ 128 <= b <= 191 /\ (a = 224 -> 160 <= b).
Proof.
  unfold ok3, in_range.
  repeat match goal with |- context[if ?c then _ else _] => destruct c eqn:? end; lia.
Qed.

Lemma ok4_spec a b : ok4 a b = true ->
  240 <= a <= 244 /\ 128 <= b <= 191 /\ (a = 240 -> 144 <= b).
Proof.
  unfold ok4, in_range.
  repeat match goal with |- context[if ?c then _ else _] => destruct c eqn:? end; lia.
Qed.

Ltac okspec :=
  repeat match goal with
  | H : ok3 _ _ = true |- _ => apply ok3_spec in H
  | H : ok4 _ _ = true |- _ => apply ok4_spec in H
  end.

Ltac dsplit :=
  repeat match goal with
  | H : context[if ?c then _ else _] |- _ => destruct c eqn:?
  | |- context[if ?c then _ else _] => destruct c eqn:?
  end.

Ltac dec_start l :=
  destruct l as [|?b0 [|?b1 [|?b2 [|?b3 ?r]]]];
  unfold decode1, in_range, is_cont in *.

(* ---------- decode1 ---------- *)

Lemma decode1_firstn4 l : decode1 (firstn 4 l) = decode1 l.
Proof. destruct l as [|b0 [|b1 [|b2 [|b3 r]]]]; reflexivity. Qed.

Lemma decode1_end l : decode1 l = DEnd -> l = [].
Proof.
  intros H; dec_start l; auto; dsplit; discriminate.
Qed.

Lemma hi_cons b l : 128 <= b -> hi l -> hi (b :: l).
Proof. intros; constructor; auto. Qed.

Lemma hi_nil : hi [].
Proof. constructor. Qed.

#[global] Hint Resolve hi_cons hi_nil : hi.

Ltac lens := rewrite ?len_cons, ?len_nil in *.

Lemma decode1_char_inv l c n : decode1 l = DChar c n ->
  1 <= n /\ n <= len l /\ utf8_len c = n /\ n <= 4 /\
  ((n = 1 /\ c = hd 0 l /\ c < 128) \/ (2 <= n /\ 128 <= c /\ 194 <= hd 0 l /\ hi (firstnN n l))).
Proof.
  intros H; dec_start l; dsplit; try discriminate; inv H; okspec;
  lens; unfold utf8_len, firstnN; nn; cbn [firstn hd];
  (split; [lia|]); (split; [lia|]); (split; [dsplit; lia|]); (split; [lia|]);
  try (left; lia);
  right; (split; [lia|]); (split; [lia|]); (split; [lia|]);
  repeat (apply hi_cons; [lia|]); apply hi_nil.
Qed.

Lemma decode1_char_firstn l c n : decode1 l = DChar c n -> decode1 (firstnN n l) = DChar c n.
Proof.
  intros H; dec_start l; dsplit; try discriminate; inv H;
  unfold firstnN; nn; cbn [firstn];
  repeat match goal with H : _ = _ |- _ => rewrite H end; reflexivity.
Qed.

Lemma decode1_char_app l m c n : decode1 l = DChar c n -> decode1 (l ++ m) = DChar c n.
Proof.
  intros H; dec_start l; dsplit; try discriminate; inv H; cbn [app];
  repeat match goal with H : _ = _ |- _ => rewrite H end; reflexivity.
Qed.

Lemma decode1_err_app l m k : decode1 l = DErr k -> decode1 (l ++ m) = DErr k.
Proof.
  intros H; dec_start l; dsplit; try discriminate; inv H; cbn [app];
  repeat match goal with H : _ = _ |- _ => rewrite H end; reflexivity.
Qed.

Lemma decode1_err_firstn l k : decode1 l = DErr k -> decode1 (firstnN (k + 1) l) = DErr k.
Proof.
  intros H; dec_start l; dsplit; try discriminate; inv H;
  unfold firstnN; change (1 + 1) with 2; change (2 + 1) with 3; change (3 + 1) with 4; nn; cbn [firstn];
  repeat match goal with H : _ = _ |- _ => rewrite H end; reflexivity.
Qed.

Lemma decode1_err_inv l k : decode1 l = DErr k ->
  1 <= k <= 3 /\ k <= len l /\ 128 <= hd 0 l /\ hi (firstnN k l) /\
  ((k = 1 /\ decode1 (firstnN k l) = DErr k) \/
   (decode1 (firstnN k l) = DIncomplete /\ k < len l /\ 194 <= hd 0 l)).
Proof.
  intros H; dec_start l; dsplit; try discriminate; inv H;
  lens; unfold firstnN; nn; cbn [firstn hd];
  repeat match goal with H : _ = _ |- _ => rewrite H end; okspec;
  (split; [lia|]); (split; [lia|]); (split; [lia|]);
  (split; [repeat (apply hi_cons; [lia|]); apply hi_nil|]);
  try (left; split; [lia|reflexivity]);
  right; (split; [reflexivity|]); lia.
Qed.

Lemma decode1_inc_inv l : decode1 l = DIncomplete ->
  1 <= len l <= 3 /\ hi l /\ 194 <= hd 0 l.
Proof.
  intros H; dec_start l; dsplit; try discriminate; okspec;
  lens; cbn [hd];
  (split; [lia|]);
  (split; [repeat (apply hi_cons; [lia|]); apply hi_nil|]); lia.
Qed.

Lemma decode1_inc_app_char l m c n :
  decode1 l = DIncomplete -> decode1 (l ++ m) = DChar c n -> len l < n.
Proof.
  intros H H2; dec_start l; cbn [app] in *; dsplit; try discriminate;
  destruct m as [|m0 [|m1 [|m2 m3]]]; cbn [app] in *; dsplit; try discriminate; inv H2; lens; lia.
Qed.

Lemma decode1_inc_app_err l m k :
  decode1 l = DIncomplete -> decode1 (l ++ m) = DErr k -> len l <= k.
Proof.
  intros H H2; dec_start l; cbn [app] in *; dsplit; try discriminate;
  destruct m as [|m0 [|m1 [|m2 m3]]]; cbn [app] in *; dsplit; try discriminate; inv H2; lens; lia.
Qed.

(* ---------- from_utf8 ---------- *)

Lemma from_utf8_fuel_acc fuel : forall bs acc used,
  from_utf8_fuel fuel bs acc used =
  let '(chars, valid, stop) := from_utf8_fuel fuel bs [] 0 in
  (rev acc ++ chars, used + valid, stop).
Proof.
  induction fuel as [|fuel IH]; intros bs acc used; cbn [from_utf8_fuel].
  - cbn [rev]. rewrite app_nil_r. f_equal. f_equal. lia.
  - destruct (decode1 bs) as [c n| | |] eqn:E; cbn [rev]; rewrite ?app_nil_r;
      try (f_equal; f_equal; lia).
    rewrite (IH _ (c :: acc)). rewrite (IH _ [c]).
    destruct (from_utf8_fuel fuel (skipnN n bs) [] 0) as [[chars valid] stop].
    cbn [rev app]. rewrite <- app_assoc. cbn [app]. f_equal. f_equal. lia.
Qed.

Lemma from_utf8_fuel_irrel f1 : forall f2 bs acc used,
  (length bs < f1)%nat -> (length bs < f2)%nat ->
  from_utf8_fuel f1 bs acc used = from_utf8_fuel f2 bs acc used.
Proof.
  induction f1 as [|f1 IH]; intros f2 bs acc used H1 H2; [lia|].
  destruct f2 as [|f2]; [lia|]. cbn [from_utf8_fuel].
  destruct (decode1 bs) as [c n| | |] eqn:E; try reflexivity.
  apply decode1_char_inv in E. destruct E as (E1 & E2 & _).
  apply IH; unfold skipnN; rewrite skipn_length; unfold len in *; lia.
Qed.

Lemma from_utf8_unfold bs :
  from_utf8 bs =
  match decode1 bs with
  | DEnd => ([], 0, UOk)
  | DChar c n => let '(chars, valid, stop) := from_utf8 (skipnN n bs) in (c :: chars, n + valid, stop)
  | DErr l => ([], 0, UErr l)
  | DIncomplete => ([], 0, UPartial)
  end.
Proof.
  unfold from_utf8 at 1. cbn [from_utf8_fuel].
  destruct (decode1 bs) as [c n| | |] eqn:E; try reflexivity.
  rewrite from_utf8_fuel_acc. unfold from_utf8.
  apply decode1_char_inv in E. destruct E as (E1 & E2 & _).
  rewrite (from_utf8_fuel_irrel (length bs) (S (length (skipnN n bs)))).
  - destruct (from_utf8_fuel _ _ _ _) as [[chars valid] stop]. cbn [rev app].
    replace (0 + n + valid) with (n + valid) by lia. reflexivity.
  - unfold skipnN; rewrite skipn_length; unfold len in *; lia.
  - lia.
Qed.

Definition sum_len (chars : list N) : N := fold_right (fun c s => utf8_len c + s) 0 chars.

Lemma utf8_len_pos c : 1 <= utf8_len c <= 4.
Proof. unfold utf8_len; dsplit; lia. Qed.

Lemma from_utf8_spec_aux n : forall bs, (length bs <= n)%nat -> forall chars valid stop,
  from_utf8 bs = (chars, valid, stop) ->
  valid <= len bs /\ valid = sum_len chars /\
  match stop with
  | UOk => valid = len bs
  | UErr l => decode1 (skipnN valid bs) = DErr l
  | UPartial => decode1 (skipnN valid bs) = DIncomplete
  end.
Proof.
  induction n as [|n IH]; intros bs Hn chars valid stop H; rewrite from_utf8_unfold in H.
  - destruct bs; [|cbn [length] in Hn; lia]. cbn in H. inv H. cbn. repeat split; lia.
  - destruct (decode1 bs) as [c k| | |] eqn:E.
    + pose proof (decode1_char_inv _ _ _ E) as (E1 & E2 & E3 & _).
      destruct (from_utf8 (skipnN k bs)) as [[chars' valid'] stop'] eqn:F.
      inv H. apply IH in F.
      2:{ unfold skipnN; rewrite skipn_length; unfold len in *; lia. }
      destruct F as (F1 & F2 & F3). rewrite len_skipnN in *.
      split; [lia|]. split; [cbn [sum_len fold_right]; fold (sum_len chars'); lia|].
      destruct stop; [lia| |]; rewrite <- skipnN_skipnN; exact F3.
    + inv H. cbn [sum_len fold_right]. rewrite skipnN_0. repeat split; try lia. exact E.
    + inv H. cbn [sum_len fold_right]. rewrite skipnN_0. repeat split; try lia. exact E.
    + inv H. apply decode1_end in E. subst. cbn. repeat split; lia.
Qed.

Lemma from_utf8_spec bs chars valid stop :
  from_utf8 bs = (chars, valid, stop) ->
  valid <= len bs /\ valid = sum_len chars /\
  match stop with
  | UOk => valid = len bs
  | UErr l => decode1 (skipnN valid bs) = DErr l
  | UPartial => decode1 (skipnN valid bs) = DIncomplete
  end.
Proof. apply (from_utf8_spec_aux (length bs)); lia. Qed.

Lemma sum_len_hd chars : 0 < sum_len chars -> utf8_len (hd 0 chars) <= sum_len chars.
Proof.
  destruct chars; cbn [sum_len fold_right hd]; [lia|]. fold (sum_len chars). lia.
Qed.
