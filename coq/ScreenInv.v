(* ScreenInv.v — the invariant of a whole screen / parser and its preservation by
   every action, API call and history (backbone of C03, C13, C16). *)
Require Import Tac ListN Attrs Cell Row Grid Screen Vte Perform Parser RowInv GridInv TextInv.
Require Import Chunking.
Open Scope N_scope.

Record screen_ok (s : screen) : Prop := mkScreenOk {
  so_g : grid_ok (g s);
  so_alt : grid_ok0 (alt s);
  so_altmode : altmode s = true -> grid_ok (alt s);
  so_rows : grows (alt s) = grows (g s);
  so_cols : gcols (alt s) = gcols (g s);
  so_altcap : sb_cap (alt s) = 0;
  so_altsb : sb (alt s) = [] }.

Lemma cur_ok s : screen_ok s -> grid_ok (cur s).
Proof. intros H. unfold cur. destruct (altmode s) eqn:E; [apply (so_altmode _ H E)|apply (so_g _ H)]. Qed.

(* replacing the current grid by one that satisfies grid_ok and the frame conditions *)
Lemma with_cur_ok s y : screen_ok s -> grid_ok y -> frame (cur s) y -> screen_ok (with_cur s y).
Proof.
  intros H Oy [Fr Fc Fcap Fsb]. unfold with_cur, cur in *. destruct (altmode s) eqn:E.
  - destruct H. split; cbn; auto; try congruence.
    + now apply grid_ok_ok0.
    + rewrite Fsb; auto.
  - destruct H. split; cbn; auto; try congruence.
Qed.

Definition spost (s : screen) (r : res screen) : Prop := exists s', r = Ok s' /\ screen_ok s'.

Lemma on_cur_spost s f : screen_ok s -> post (cur s) (f (cur s)) -> spost s (on_cur s f).
Proof.
  intros H (y & E & Oy & Fy). unfold on_cur. rewrite E. cbn [bind].
  eexists; split; [reflexivity|]. now apply with_cur_ok.
Qed.

(* fields other than the grids never matter for screen_ok *)
Lemma ok_same_grids s s' : screen_ok s -> g s' = g s -> alt s' = alt s -> altmode s' = altmode s -> screen_ok s'.
Proof. intros [] E1 E2 E3. split; rewrite ?E1, ?E2, ?E3; auto. Qed.

Ltac same_grids := eapply ok_same_grids; [eassumption|reflexivity|reflexivity|reflexivity].

Lemma with_pen_ok s a : screen_ok s -> screen_ok (with_pen s a). Proof. intros; same_grids. Qed.
Lemma with_spen_ok s a : screen_ok s -> screen_ok (with_spen s a). Proof. intros; same_grids. Qed.
Lemma with_keypad_ok s b : screen_ok s -> screen_ok (with_keypad s b). Proof. intros; same_grids. Qed.
Lemma with_appcur_ok s b : screen_ok s -> screen_ok (with_appcur s b). Proof. intros; same_grids. Qed.
Lemma with_hide_ok s b : screen_ok s -> screen_ok (with_hide s b). Proof. intros; same_grids. Qed.
Lemma with_paste_ok s b : screen_ok s -> screen_ok (with_paste s b). Proof. intros; same_grids. Qed.
Lemma with_mmode_ok s m : screen_ok s -> screen_ok (with_mmode s m). Proof. intros; same_grids. Qed.
Lemma with_menc_ok s m : screen_ok s -> screen_ok (with_menc s m). Proof. intros; same_grids. Qed.

Lemma screen_new_ok rows cols cap : 1 <= rows <= MAXDIM -> 1 <= cols <= MAXDIM ->
  exists s, screen_new rows cols cap = Ok s /\ screen_ok s /\ grows (g s) = rows /\ gcols (g s) = cols /\ sb_cap (g s) = cap.
Proof.
  intros Hr Hc. unfold screen_new.
  destruct (grid_new_ok0 rows cols cap Hr Hc) as (g0 & -> & O0 & R0 & C0 & Cap0 & Sb0 & L0). cbn [bind].
  destruct (grid_new_ok0 rows cols 0 Hr Hc) as (a0 & -> & OA & RA & CA & CapA & SbA & LA). cbn [bind].
  destruct (allocate_rows_post g0 O0) as [Og [Fr Fc Fcap _]].
  eexists; split; [reflexivity|]. cbn [g alt].
  split; [|split; [congruence|split; congruence]].
  split; cbn [g alt altmode]; auto; try congruence; try discriminate.
Qed.

(* ---- Screen-level operations ---- *)
Lemma screen_set_size_ok s rows cols : screen_ok s -> 1 <= rows <= MAXDIM -> 1 <= cols <= MAXDIM ->
  exists s', screen_set_size s rows cols = Ok s' /\ screen_ok s' /\ grows (g s') = rows /\ gcols (g s') = cols.
Proof.
  intros H Hr Hc. unfold screen_set_size.
  destruct (grid_set_size_post (g s) rows cols (grid_ok_ok0 _ (so_g _ H)) Hr Hc) as (g1 & -> & O1 & R1 & C1 & Cap1 & Sb1).
  cbn [bind].
  destruct (grid_set_size_post (alt s) rows cols (so_alt _ H) Hr Hc) as (a1 & -> & OA & RA & CA & CapA & SbA).
  cbn [bind]. eexists; split; [reflexivity|]. cbn.
  split; [|auto]. destruct H. split; cbn; auto; try congruence. now apply grid_ok_ok0.
Qed.

Lemma screen_set_scrollback_ok s k : screen_ok s -> screen_ok (screen_set_scrollback s k).
Proof.
  intros H. unfold screen_set_scrollback.
  destruct (grid_set_scrollback_post (cur s) k (cur_ok _ H)) as (y & E & Oy & Fy). inv E.
  now apply with_cur_ok.
Qed.

Lemma enter_alternate_grid_ok s : screen_ok s -> screen_ok (enter_alternate_grid s).
Proof.
  intros H. unfold enter_alternate_grid.
  pose proof (screen_set_scrollback_ok s 0 H) as H1. unfold screen_set_scrollback in H1.
  set (s1 := with_cur s (grid_set_scrollback (cur s) 0)) in *.
  destruct (allocate_rows_post (alt s1) (so_alt _ H1)) as [Oa [Fr Fc Fcap Fsb]].
  destruct H1. split; cbn; auto; try congruence.
  - now apply grid_ok_ok0.
  - rewrite Fsb; auto.
Qed.

Lemma exit_alternate_grid_ok s : screen_ok s -> screen_ok (exit_alternate_grid s).
Proof. intros []. split; cbn; auto. discriminate. Qed.

Lemma scr_save_cursor_ok s : screen_ok s -> screen_ok (scr_save_cursor s).
Proof.
  intros H. unfold scr_save_cursor. apply with_spen_ok.
  destruct (save_cursor_post (cur s) (cur_ok _ H)) as (y & E & Oy & Fy). inv E. now apply with_cur_ok.
Qed.
Lemma scr_restore_cursor_ok s : screen_ok s -> screen_ok (scr_restore_cursor s).
Proof.
  intros H. unfold scr_restore_cursor. apply with_pen_ok.
  destruct (restore_cursor_post (cur s) (cur_ok _ H)) as (y & E & Oy & Fy). inv E. now apply with_cur_ok.
Qed.
Lemma clear_mouse_mode_ok s m : screen_ok s -> screen_ok (clear_mouse_mode s m).
Proof. intros H. unfold clear_mouse_mode. destruct (mouse_mode_eqb _ _); [now apply with_mmode_ok|exact H]. Qed.
Lemma clear_mouse_enc_ok s m : screen_ok s -> screen_ok (clear_mouse_enc s m).
Proof. intros H. unfold clear_mouse_enc. destruct (mouse_enc_eqb _ _); [now apply with_menc_ok|exact H]. Qed.

Ltac cur_op' H L := apply on_cur_spost; [exact H|]; try (apply L; apply (cur_ok _ H)).
Ltac cur_op L := let H := fresh "H" in intros H; cur_op' H L.

Lemma scr_text_ok s ch : screen_ok s -> spost s (scr_text s ch).
Proof. cur_op grid_text_post. Qed.
Lemma scr_bs_ok s : screen_ok s -> spost s (scr_bs s).
Proof. cur_op col_dec_post. Qed.
Lemma scr_tab_ok s : screen_ok s -> spost s (scr_tab s).
Proof. cur_op col_tab_post. Qed.
Lemma scr_cr_ok s : screen_ok s -> spost s (scr_cr s).
Proof. cur_op col_set_post. Qed.
Lemma scr_lf_ok s : screen_ok s -> spost s (scr_lf s).
Proof.
  intros H; apply on_cur_spost; [exact H|].
  destruct (row_inc_scroll_post (cur s) 1 (cur_ok _ H)) as (y & k & -> & Oy & Fy & _). cbn [bind].
  now apply post_ok.
Qed.
Lemma scr_ri_ok s : screen_ok s -> spost s (scr_ri s).
Proof. intros H; apply on_cur_spost; [exact H|]. apply row_dec_scroll_post; [apply (cur_ok _ H)|lia]. Qed.
Lemma scr_ris_ok s : screen_ok s -> spost s (scr_ris s).
Proof.
  intros H. unfold scr_ris. destruct (so_g _ H) as (K & _).
  destruct (screen_new_ok (grows (g s)) (gcols (g s)) (sb_cap (g s)) (gk_rows _ K) (gk_cols _ K)) as (s' & -> & O & _).
  now exists s'.
Qed.

Lemma scr_ich_ok s n : screen_ok s -> spost s (scr_ich s n). Proof. cur_op insert_cells_post. Qed.
Lemma scr_cuu_ok s n : screen_ok s -> spost s (scr_cuu s n). Proof. cur_op row_dec_clamp_post. Qed.
Lemma scr_cud_ok s n : screen_ok s -> spost s (scr_cud s n). Proof. cur_op row_inc_clamp_post. Qed.
Lemma scr_cuf_ok s n : screen_ok s -> spost s (scr_cuf s n). Proof. cur_op col_inc_clamp_post. Qed.
Lemma scr_cub_ok s n : screen_ok s -> spost s (scr_cub s n). Proof. cur_op col_dec_post. Qed.
Lemma scr_il_ok s n : screen_ok s -> spost s (scr_il s n). Proof. cur_op insert_lines_post. Qed.
Lemma scr_dl_ok s n : screen_ok s -> spost s (scr_dl s n). Proof. cur_op delete_lines_post. Qed.
Lemma scr_dch_ok s n : screen_ok s -> spost s (scr_dch s n). Proof. cur_op delete_cells_post. Qed.
Lemma scr_su_ok s n : screen_ok s -> spost s (scr_su s n). Proof. cur_op scroll_up_post. Qed.
Lemma scr_sd_ok s n : screen_ok s -> spost s (scr_sd s n). Proof. cur_op scroll_down_post. Qed.
Lemma scr_ech_ok s n : screen_ok s -> spost s (scr_ech s n). Proof. cur_op erase_cells_post. Qed.

Lemma scr_cnl_ok s n : screen_ok s -> spost s (scr_cnl s n).
Proof.
  intros H; apply on_cur_spost; [exact H|]. apply post_bind; [apply col_set_post, (cur_ok _ H)|].
  intros y Oy _. now apply row_inc_clamp_post.
Qed.
Lemma scr_cpl_ok s n : screen_ok s -> spost s (scr_cpl s n).
Proof.
  intros H; apply on_cur_spost; [exact H|]. apply post_bind; [apply col_set_post, (cur_ok _ H)|].
  intros y Oy _. now apply row_dec_clamp_post.
Qed.
Lemma scr_cha_ok s n : screen_ok s -> 1 <= n -> spost s (scr_cha s n).
Proof.
  intros H Hn; apply on_cur_spost; [exact H|]. rewrite sub16_ok by lia. cbn [bind]. apply col_set_post, (cur_ok _ H).
Qed.
Lemma scr_vpa_ok s n : screen_ok s -> 1 <= n -> spost s (scr_vpa s n).
Proof.
  intros H Hn; apply on_cur_spost; [exact H|]. rewrite sub16_ok by lia. cbn [bind]. apply row_set_post, (cur_ok _ H).
Qed.
Lemma scr_cup_ok s r c : screen_ok s -> 1 <= r -> 1 <= c -> spost s (scr_cup s r c).
Proof.
  intros H Hr Hc; apply on_cur_spost; [exact H|]. rewrite !sub16_ok by lia. cbn [bind].
  apply grid_set_pos_post, (cur_ok _ H).
Qed.
Lemma scr_decstbm_ok s t b : screen_ok s -> 1 <= t -> 1 <= b -> spost s (scr_decstbm s t b).
Proof.
  intros H Ht Hb; apply on_cur_spost; [exact H|]. rewrite !sub16_ok by lia. cbn [bind].
  apply set_scroll_region_post, (cur_ok _ H).
Qed.

Definition spost2 (s : screen) (r : res (screen * N)) : Prop := exists s' k, r = Ok (s', k) /\ screen_ok s'.

Lemma spost_lift s r k : spost s r -> spost2 s (do s1 <- r; Ok (s1, k)).
Proof. intros (s' & -> & O). cbn [bind]. now exists s', k. Qed.

Lemma scr_ed_ok s m : screen_ok s -> spost2 s (scr_ed s m).
Proof.
  intros H. unfold scr_ed.
  destruct (m =? 0); [apply spost_lift; cur_op' H erase_all_forward_post|].
  destruct (m =? 1); [apply spost_lift; cur_op' H erase_all_backward_post|].
  destruct (m =? 2); [apply spost_lift; cur_op' H erase_all_post|].
  now exists s, 1.
Qed.
Lemma scr_el_ok s m : screen_ok s -> spost2 s (scr_el s m).
Proof.
  intros H. unfold scr_el.
  destruct (m =? 0); [apply spost_lift; cur_op' H erase_row_forward_post|].
  destruct (m =? 1); [apply spost_lift; cur_op' H erase_row_backward_post|].
  destruct (m =? 2); [apply spost_lift; cur_op' H erase_row_post|].
  now exists s, 1.
Qed.

(* ---- DECSET / DECRST / SGR ---- *)
Lemma decset1_ok s p : screen_ok s -> spost2 s (decset1 s p).
Proof.
  intros H. unfold decset1. destruct (single p) as [n|]; [|now exists s, 1].
  repeat match goal with
  | |- spost2 _ (if ?c then _ else _) => destruct c
  end;
  try (eexists _, _; split; [reflexivity|];
       first [now apply with_appcur_ok | now apply with_mmode_ok | now apply with_hide_ok
             | now apply with_menc_ok | now apply with_paste_ok | now apply enter_alternate_grid_ok | exact H]).
  - apply spost_lift. cur_op' H set_origin_mode_post.
  - (* 1049 *)
    pose proof (scr_save_cursor_ok s H) as H1.
    destruct (grid_clear_post (alt (scr_save_cursor s)) (so_alt _ H1)) as (a1 & -> & Oa & [Fr Fc Fcap Fsb] & Sb & Keep).
    cbn [bind]. eexists _, _; split; [reflexivity|]. apply enter_alternate_grid_ok.
    destruct H1. split; cbn [g alt altmode with_alt]; auto; try congruence.
Qed.

Lemma decrst1_ok s p : screen_ok s -> spost2 s (decrst1 s p).
Proof.
  intros H. unfold decrst1. destruct (single p) as [n|]; [|now exists s, 1].
  repeat match goal with
  | |- spost2 _ (if ?c then _ else _) => destruct c
  end;
  try (eexists _, _; split; [reflexivity|];
       first [now apply with_appcur_ok | now apply clear_mouse_mode_ok | now apply with_hide_ok
             | now apply clear_mouse_enc_ok | now apply with_paste_ok | now apply exit_alternate_grid_ok
             | now apply scr_restore_cursor_ok, exit_alternate_grid_ok | exact H]).
  apply spost_lift. cur_op' H set_origin_mode_post.
Qed.

Lemma fold_params_ok f : (forall s p, screen_ok s -> spost2 s (f s p)) ->
  forall ps s n, screen_ok s -> spost2 s (fold_params f ps s n).
Proof.
  intros Hf. induction ps as [|p ps IH]; intros s n H; cbn [fold_params].
  - now exists s, n.
  - destruct (Hf s p H) as (s1 & k & -> & H1). cbn [bind]. destruct (IH s1 (n + k) H1) as (s2 & k2 & E & H2).
    exists s2, k2. split; [exact E|exact H2].
Qed.

Lemma scr_decset_ok s ps : screen_ok s -> spost2 s (scr_decset s ps).
Proof. intros H. apply fold_params_ok; [apply decset1_ok|exact H]. Qed.
Lemma scr_decrst_ok s ps : screen_ok s -> spost2 s (scr_decrst s ps).
Proof. intros H. apply fold_params_ok; [apply decrst1_ok|exact H]. Qed.

Lemma scr_sgr_ok s ps : screen_ok s -> screen_ok (fst (scr_sgr s ps)).
Proof. intros H. unfold scr_sgr. destruct (sgr ps (pen s)) as [a k]. cbn [fst]. now apply with_pen_ok. Qed.

(* ---- perform ---- *)
Definition ppost (s : screen) (r : res (screen * list event)) : Prop := exists s' evs, r = Ok (s', evs) /\ screen_ok s'.

Lemma ppost_noev s r : spost s r -> ppost s (noev r).
Proof. intros (s' & -> & O). cbn. now exists s', []. Qed.
Lemma ppost_lift s r (f : screen -> list event) : spost s r -> ppost s (do s1 <- r; Ok (s1, f s1)).
Proof. intros (s' & -> & O). cbn [bind]. now exists s', (f s'). Qed.
Lemma ppost2 s r (e : N -> list event) : spost2 s r -> ppost s (do '(s1, k) <- r; Ok (s1, e k)).
Proof. intros (s' & k & -> & O). cbn [bind]. now exists s', (e k). Qed.
Lemma ppost_same s evs : screen_ok s -> ppost s (Ok (s, evs)).
Proof. intros H. now exists s, evs. Qed.

Lemma do_execute_ok s b : screen_ok s -> ppost s (do_execute s b).
Proof.
  intros H. unfold do_execute.
  repeat match goal with |- ppost _ (if ?c then _ else _) => destruct c end;
    try (now apply ppost_same);
    match goal with |- ppost _ (do s1 <- ?r; Ok (s1, [])) => apply (ppost_lift s r (fun _ => [])) end.
  - now apply scr_bs_ok.
  - now apply scr_tab_ok.
  - now apply scr_lf_ok.
  - now apply scr_cr_ok.
Qed.

Lemma do_print_ok s c : screen_ok s -> ppost s (do_print s c).
Proof.
  intros H. unfold do_print.
  destruct ((128 <=? c) && (c <? 160)); [now apply do_execute_ok|].
  destruct (c =? REPL); [now apply ppost_same|].
  apply (ppost_lift s _ (fun _ => [])). now apply scr_text_ok.
Qed.

Lemma do_esc_ok s inter b : screen_ok s -> ppost s (do_esc s inter b).
Proof.
  intros H. unfold do_esc. destruct inter; [|now apply ppost_same].
  repeat match goal with |- ppost _ (if ?c then _ else _) => destruct c end;
    try (now apply ppost_same).
  - apply ppost_same. now apply scr_save_cursor_ok.
  - apply ppost_same. now apply scr_restore_cursor_ok.
  - apply ppost_same. now apply with_keypad_ok.
  - apply ppost_same. now apply with_keypad_ok.
  - apply (ppost_lift s _ (fun _ => [])). now apply scr_ri_ok.
  - apply (ppost_lift s _ (fun _ => [])). now apply scr_ris_ok.
Qed.

Lemma canon1_pos ps : 1 <= canon1 ps 1.
Proof. unfold canon1. destruct (N.eqb_spec (first_sub (hd_error ps)) 0); lia. Qed.
Lemma canon2_pos ps d : 1 <= d -> 1 <= fst (canon2 ps 1 d) /\ 1 <= snd (canon2 ps 1 d).
Proof.
  intros Hd. unfold canon2. cbn [fst snd].
  destruct (N.eqb_spec (first_sub (hd_error ps)) 0), (N.eqb_spec (first_sub (hd_error (tl ps))) 0); lia.
Qed.

Lemma do_csi_ok rz s ps inter c : screen_ok s -> ppost s (do_csi rz s ps inter c).
Proof.
  intros H. unfold do_csi. destruct inter as [|i inter'].
  - repeat match goal with |- ppost _ (if ?c then _ else _) => destruct c end;
      try (now apply ppost_same);
      try (apply ppost_noev;
           first [ now apply scr_ich_ok | now apply scr_cuu_ok | now apply scr_cud_ok | now apply scr_cuf_ok
                 | now apply scr_cub_ok | now apply scr_cnl_ok | now apply scr_cpl_ok
                 | apply scr_cha_ok; [exact H|apply canon1_pos]
                 | now apply scr_il_ok | now apply scr_dl_ok | now apply scr_dch_ok | now apply scr_su_ok
                 | now apply scr_sd_ok | now apply scr_ech_ok
                 | apply scr_vpa_ok; [exact H|apply canon1_pos] ]).
    + (* CUP *) destruct (canon2 ps 1 1) as [r cc] eqn:E. apply ppost_noev.
      pose proof (canon2_pos ps 1) as P. rewrite E in P. cbn [fst snd] in P. apply scr_cup_ok; [exact H|apply P; lia|apply P; lia].
    + apply ppost2. now apply scr_ed_ok.
    + apply ppost2. now apply scr_el_ok.
    + (* SGR *) pose proof (scr_sgr_ok s ps H) as O. destruct (scr_sgr s ps) as [s1 k]. now exists s1, (repeat_ev k (EUnhCsi (nth_inter [] 0) (nth_inter [] 1) ps c)).
    + (* DECSTBM *) pose proof (cur_ok _ H) as (K & _). pose proof (gk_rows _ K).
      destruct (canon2 ps 1 (grows (cur s))) as [t b] eqn:E. apply ppost_noev.
      pose proof (canon2_pos ps (grows (cur s))) as P. rewrite E in P. cbn [fst snd] in P.
      apply scr_decstbm_ok; [exact H|apply P; lia|apply P; lia].
    + (* CSI t *) destruct ps as [|[|op sub] rest]; try (now apply ppost_same).
      destruct (op =? 8); [|now apply ppost_same].
      match goal with |- ppost _ (if ?c then _ else _) => destruct c eqn:Ec end; [|now apply ppost_same].
      apply andb_prop in Ec as [Ec Ec4]. apply andb_prop in Ec as [Ec Ec3]. apply andb_prop in Ec as [Ec Ec2]. apply andb_prop in Ec as [_ Ec1].
      apply (ppost_lift s _ (fun _ => _)).
      edestruct (screen_set_size_ok s) as (s' & E & O & _); [exact H| | |rewrite E; now exists s'];
        unfold MAXDIM; lia.
  - destruct (i =? 63); [|now apply ppost_same].
    repeat match goal with |- ppost _ (if ?c then _ else _) => destruct c end;
      try (now apply ppost_same); apply ppost2.
    + now apply scr_ed_ok.
    + now apply scr_el_ok.
    + now apply scr_decset_ok.
    + now apply scr_decrst_ok.
Qed.

Lemma perform_ok rz s a : screen_ok s -> ppost s (perform rz s a).
Proof.
  intros H. destruct a; cbn [perform]; try (now apply ppost_same).
  - now apply do_print_ok.
  - now apply do_execute_ok.
  - unfold do_osc. destruct params as [|k [|v [|]]]; try (now apply ppost_same).
    repeat match goal with |- ppost _ (Ok (if ?c then _ else _)) => destruct c end; now apply ppost_same.
  - now apply do_csi_ok.
  - now apply do_esc_ok.
Qed.

Lemma perform_all_ok rz acts : forall s evs, screen_ok s -> ppost s (perform_all rz s acts evs).
Proof.
  induction acts as [|a r IH]; intros s evs H; cbn [perform_all].
  - now apply ppost_same.
  - destruct (perform_ok rz s a H) as (s1 & e & -> & O). cbn [bind]. now apply IH.
Qed.

(* ---- the parser API ---- *)
(* the screen invariant, plus the invariant of the held-back utf-8 tail (Chunking.pend_inv):
   vte's state is well-formed, [pend p] is empty or an incomplete utf-8 sequence (at most 3 bytes),
   and vte's own partial buffer is empty whenever nothing is held back *)
Definition parser_ok (p : parser) : Prop := screen_ok (scr p) /\ pend_inv p.

Lemma parser_ok_scr p : parser_ok p -> screen_ok (scr p).
Proof. intros [H _]. exact H. Qed.
Lemma parser_ok_pend p : parser_ok p -> pend_inv p.
Proof. intros [_ H]. exact H. Qed.
Lemma parser_ok_with_scr p s : parser_ok p -> screen_ok s -> parser_ok (with_scr p s).
Proof. intros [_ [W P T]] O. split; [exact O|]. split; assumption. Qed.

Lemma process_ok p bs : parser_ok p -> exists q, process p bs = Ok q /\ parser_ok q.
Proof.
  intros [H I].
  assert (X : exists q, process p bs = Ok q /\ screen_ok (scr q)).
  { rewrite process_unfold. destruct (advance (vt p) _) as [v acts].
    destruct (perform_all_ok (resizing p) acts (scr p) [] H) as (s & e & -> & O). cbn [bind].
    eexists; split; [reflexivity|exact O]. }
  destruct X as (q & E & O). exists q. split; [exact E|]. split; [exact O|].
  exact (process_pend_inv p bs q I E).
Qed.

(* API arguments in the contract: sizes between 1 and MAXDIM *)
Definition op_ok (o : api_op) : Prop :=
  match o with
  | OpSetSize r c => 1 <= r <= MAXDIM /\ 1 <= c <= MAXDIM
  | _ => True
  end.

Lemma step_ok p o : parser_ok p -> op_ok o -> exists q, step p o = Ok q /\ parser_ok q.
Proof.
  intros H Ho. destruct o; cbn [step].
  - now apply process_ok.
  - unfold write. destruct (process_ok p bs H) as (q & -> & O). cbn [bind]. eauto.
  - destruct Ho as [Hr Hc]. destruct (screen_set_size_ok (scr p) r c (parser_ok_scr p H) Hr Hc) as (s & -> & O & _). cbn [bind].
    eexists; split; [reflexivity|exact (parser_ok_with_scr p s H O)].
  - eexists; split; [reflexivity|]. apply (parser_ok_with_scr p _ H). apply screen_set_scrollback_ok. exact (parser_ok_scr p H).
Qed.

Theorem run_ok ops : forall p, parser_ok p -> Forall op_ok ops -> exists q, run p ops = Ok q /\ parser_ok q.
Proof.
  induction ops as [|o r IH]; intros p H F; cbn [run].
  - eauto.
  - inv F. destruct (step_ok p o H H2) as (q & -> & O). cbn [bind]. now apply IH.
Qed.

Theorem parser_new_ok rows cols cap rz : 1 <= rows <= MAXDIM -> 1 <= cols <= MAXDIM ->
  exists p, parser_new rows cols cap rz = Ok p /\ parser_ok p.
Proof.
  intros Hr Hc. destruct (screen_new_ok rows cols cap Hr Hc) as (s & E & O & _).
  assert (E' : parser_new rows cols cap rz = Ok (mkParser p_init s [] rz [])) by (unfold parser_new; now rewrite E).
  eexists; split; [exact E'|]. split; [exact O|exact (pend_inv_new _ _ _ _ _ E')].
Qed.
