(* WrapInvScreen.v — the wrapped-row invariant (WrapInv.v) lifted from grids to
   screens, vte actions, the parser API and arbitrary histories, in the style of
   WfInv.v.  The structural invariant [screen_ok] is needed only where text is
   written (the one place where the flag is set); cell well-formedness is never
   needed. *)
Require Import Tac ListN Utf8 Width Attrs Cell Row Grid Screen Vte Perform Parser.
Require Import Chunking.
Require Import RowInv GridInv TextInv ScreenInv CellWf WfGrid WfVte WfInv.
Require Export WrapInv.
Open Scope N_scope.

(* ------------------------------------------------------------------ *)
(* screens *)

Lemma screen_wrapinv_same s s' : g s' = g s -> alt s' = alt s -> screen_wrapinv s -> screen_wrapinv s'.
Proof. intros E1 E2 [H1 H2]. unfold screen_wrapinv. rewrite E1, E2. split; assumption. Qed.

Lemma cur_wrapinv s : screen_wrapinv s -> grid_wrapinv (cur s).
Proof. intros [H1 H2]. unfold cur. destruct (altmode s); assumption. Qed.

Lemma with_cur_wrapinv s y : screen_wrapinv s -> grid_wrapinv y -> screen_wrapinv (with_cur s y).
Proof. intros [H1 H2] Hy. unfold with_cur. destruct (altmode s); split; cbn; assumption. Qed.

(* "if the computation succeeds, the screen it returns satisfies the invariant" *)
Definition wip {A} (proj : A -> screen) (r : res A) : Prop := forall a, r = Ok a -> screen_wrapinv (proj a).
Notation wip1 := (wip sid).
Notation wip2 := (wip (@fst screen N)).
Notation wipe := (wip (@fst screen (list event))).

Lemma wip_ok {A} (proj : A -> screen) a : screen_wrapinv (proj a) -> wip proj (Ok a).
Proof. intros H a' E. inv E. exact H. Qed.

Lemma on_cur_wip s f : screen_wrapinv s -> (forall y, f (cur s) = Ok y -> grid_wrapinv y) -> wip1 (on_cur s f).
Proof.
  intros H Hf s' E. unfold on_cur in E. binv E as y Ey. inv E. unfold sid. apply with_cur_wrapinv; [exact H|now apply Hf].
Qed.

Lemma wip_lift1 {B} r (k : B) : wip1 r -> wip (@fst screen B) (do s1 <- r; Ok (s1, k)).
Proof. intros Hr a E. binv E as s1 E1. pose proof (Hr _ E1) as W. inv E. exact W. Qed.

Lemma wip_noev r : wip1 r -> wipe (noev r).
Proof. intros Hr a E. unfold noev in E. binv E as s1 E1. pose proof (Hr _ E1) as W. inv E. exact W. Qed.

Lemma wip_lift2 r (e : N -> list event) : wip2 r -> wipe (do '(s1, k) <- r; Ok (s1, e k)).
Proof. intros Hr a E. binv E as p1 E1. destruct p1 as [s1 k]. pose proof (Hr _ E1) as W. inv E. exact W. Qed.

Lemma screen_new_wrapinv rows cols cap : wip1 (screen_new rows cols cap).
Proof.
  intros s E. unfold screen_new in E. binv E as g0 Eg. binv E as a0 Ea. inv E.
  split; cbn [sid g alt].
  - apply allocate_rows_wrapinv. eapply grid_new_wrapinv; eauto.
  - eapply grid_new_wrapinv; eauto.
Qed.

Lemma screen_set_size_wrapinv s rows cols : screen_wrapinv s -> wip1 (screen_set_size s rows cols).
Proof.
  intros [H1 H2] s' E. unfold screen_set_size in E. binv E as g1 Eg. binv E as a1 Ea. inv E.
  split; cbn; eapply grid_set_size_wrapinv; eauto.
Qed.

Lemma screen_set_scrollback_wrapinv s k : screen_wrapinv s -> screen_wrapinv (screen_set_scrollback s k).
Proof.
  intros H. unfold screen_set_scrollback. apply with_cur_wrapinv; [exact H|].
  apply grid_set_scrollback_wrapinv, cur_wrapinv, H.
Qed.

Lemma enter_alternate_grid_wrapinv s : screen_wrapinv s -> screen_wrapinv (enter_alternate_grid s).
Proof.
  intros H. unfold enter_alternate_grid.
  pose proof (screen_set_scrollback_wrapinv s 0 H) as [H1 H2]. unfold screen_set_scrollback in H1, H2.
  split; cbn [g alt with_alt with_altmode]; [exact H1|]. apply allocate_rows_wrapinv. exact H2.
Qed.

Lemma exit_alternate_grid_wrapinv s : screen_wrapinv s -> screen_wrapinv (exit_alternate_grid s).
Proof. apply screen_wrapinv_same; reflexivity. Qed.

Lemma with_pen_wrapinv s a : screen_wrapinv s -> screen_wrapinv (with_pen s a).
Proof. apply screen_wrapinv_same; reflexivity. Qed.
Lemma with_spen_wrapinv s a : screen_wrapinv s -> screen_wrapinv (with_spen s a).
Proof. apply screen_wrapinv_same; reflexivity. Qed.

Lemma scr_save_cursor_wrapinv s : screen_wrapinv s -> screen_wrapinv (scr_save_cursor s).
Proof.
  intros H. unfold scr_save_cursor. apply with_spen_wrapinv. apply with_cur_wrapinv; [exact H|].
  apply save_cursor_wrapinv, cur_wrapinv, H.
Qed.

Lemma scr_restore_cursor_wrapinv s : screen_wrapinv s -> screen_wrapinv (scr_restore_cursor s).
Proof.
  intros H. unfold scr_restore_cursor. apply with_pen_wrapinv. apply with_cur_wrapinv; [exact H|].
  apply restore_cursor_wrapinv, cur_wrapinv, H.
Qed.

Lemma clear_mouse_mode_wrapinv s m : screen_wrapinv s -> screen_wrapinv (clear_mouse_mode s m).
Proof. intros H. unfold clear_mouse_mode. destruct (mouse_mode_eqb _ _); [|exact H]. revert H. apply screen_wrapinv_same; reflexivity. Qed.
Lemma clear_mouse_enc_wrapinv s m : screen_wrapinv s -> screen_wrapinv (clear_mouse_enc s m).
Proof. intros H. unfold clear_mouse_enc. destruct (mouse_enc_eqb _ _); [|exact H]. revert H. apply screen_wrapinv_same; reflexivity. Qed.

(* operations on the current grid that do not need the structural invariant *)
Ltac cur_wi_op L :=
  let H := fresh "H" in let y := fresh "y" in let Ey := fresh "Ey" in
  intros H; apply on_cur_wip; [exact H|]; intros y Ey; cbv beta in Ey;
  first [ eapply L; [exact Ey|apply cur_wrapinv, H]
        | inv Ey; apply L; apply cur_wrapinv, H ].

(* ... and the one that does (writing text) *)
Ltac cur_wi_op_ok L :=
  let Hok := fresh "Hok" in let H := fresh "H" in let y := fresh "y" in let Ey := fresh "Ey" in
  intros Hok H; apply on_cur_wip; [exact H|]; intros y Ey; cbv beta in Ey;
  eapply L; [exact Ey|apply cur_wrapinv, H|apply cur_ok, Hok].

(* the only place where the flag is set *)
Lemma scr_text_wrapinv s ch : screen_ok s -> screen_wrapinv s -> wip1 (scr_text s ch).
Proof. unfold scr_text. cur_wi_op_ok grid_text_wrapinv. Qed.

Lemma scr_bs_wrapinv s : screen_wrapinv s -> wip1 (scr_bs s). Proof. unfold scr_bs. cur_wi_op col_dec_wrapinv. Qed.
Lemma scr_tab_wrapinv s : screen_wrapinv s -> wip1 (scr_tab s). Proof. unfold scr_tab. cur_wi_op col_tab_wrapinv. Qed.
Lemma scr_cr_wrapinv s : screen_wrapinv s -> wip1 (scr_cr s). Proof. unfold scr_cr. cur_wi_op col_set_wrapinv. Qed.
Lemma scr_lf_wrapinv s : screen_wrapinv s -> wip1 (scr_lf s).
Proof.
  intros H. apply on_cur_wip; [exact H|]. intros y Ey. binv Ey as p1 E1. destruct p1 as [x1 k]. inv Ey.
  eapply row_inc_scroll_wrapinv; eauto. apply cur_wrapinv, H.
Qed.
Lemma scr_ri_wrapinv s : screen_wrapinv s -> wip1 (scr_ri s). Proof. unfold scr_ri. cur_wi_op row_dec_scroll_wrapinv. Qed.
Lemma scr_ris_wrapinv s : wip1 (scr_ris s). Proof. apply screen_new_wrapinv. Qed.

Lemma scr_ich_wrapinv s n : screen_wrapinv s -> wip1 (scr_ich s n). Proof. unfold scr_ich. cur_wi_op insert_cells_wrapinv. Qed.
Lemma scr_cuu_wrapinv s n : screen_wrapinv s -> wip1 (scr_cuu s n). Proof. unfold scr_cuu. cur_wi_op row_dec_clamp_wrapinv. Qed.
Lemma scr_cud_wrapinv s n : screen_wrapinv s -> wip1 (scr_cud s n). Proof. unfold scr_cud. cur_wi_op row_inc_clamp_wrapinv. Qed.
Lemma scr_cuf_wrapinv s n : screen_wrapinv s -> wip1 (scr_cuf s n). Proof. unfold scr_cuf. cur_wi_op col_inc_clamp_wrapinv. Qed.
Lemma scr_cub_wrapinv s n : screen_wrapinv s -> wip1 (scr_cub s n). Proof. unfold scr_cub. cur_wi_op col_dec_wrapinv. Qed.
Lemma scr_il_wrapinv s n : screen_wrapinv s -> wip1 (scr_il s n). Proof. unfold scr_il. cur_wi_op insert_lines_wrapinv. Qed.
Lemma scr_dl_wrapinv s n : screen_wrapinv s -> wip1 (scr_dl s n). Proof. unfold scr_dl. cur_wi_op delete_lines_wrapinv. Qed.
Lemma scr_dch_wrapinv s n : screen_wrapinv s -> wip1 (scr_dch s n). Proof. unfold scr_dch. cur_wi_op delete_cells_wrapinv. Qed.
Lemma scr_su_wrapinv s n : screen_wrapinv s -> wip1 (scr_su s n). Proof. unfold scr_su. cur_wi_op scroll_up_wrapinv. Qed.
Lemma scr_sd_wrapinv s n : screen_wrapinv s -> wip1 (scr_sd s n). Proof. unfold scr_sd. cur_wi_op scroll_down_wrapinv. Qed.
Lemma scr_ech_wrapinv s n : screen_wrapinv s -> wip1 (scr_ech s n). Proof. unfold scr_ech. cur_wi_op erase_cells_wrapinv. Qed.

Lemma scr_cnl_wrapinv s n : screen_wrapinv s -> wip1 (scr_cnl s n).
Proof.
  intros H. apply on_cur_wip; [exact H|]. intros y Ey. binv Ey as x1 E1.
  eapply row_inc_clamp_wrapinv; eauto. eapply col_set_wrapinv; eauto. apply cur_wrapinv, H.
Qed.
Lemma scr_cpl_wrapinv s n : screen_wrapinv s -> wip1 (scr_cpl s n).
Proof.
  intros H. apply on_cur_wip; [exact H|]. intros y Ey. binv Ey as x1 E1. inv Ey.
  apply row_dec_clamp_wrapinv. eapply col_set_wrapinv; eauto. apply cur_wrapinv, H.
Qed.
Lemma scr_cha_wrapinv s n : screen_wrapinv s -> wip1 (scr_cha s n).
Proof.
  intros H. apply on_cur_wip; [exact H|]. intros y Ey. binv Ey as c Ec.
  eapply col_set_wrapinv; eauto. apply cur_wrapinv, H.
Qed.
Lemma scr_vpa_wrapinv s n : screen_wrapinv s -> wip1 (scr_vpa s n).
Proof.
  intros H. apply on_cur_wip; [exact H|]. intros y Ey. binv Ey as r Er.
  eapply row_set_wrapinv; eauto. apply cur_wrapinv, H.
Qed.
Lemma scr_cup_wrapinv s r c : screen_wrapinv s -> wip1 (scr_cup s r c).
Proof.
  intros H. apply on_cur_wip; [exact H|]. intros y Ey. binv Ey as r1 Er. binv Ey as c1 Ec.
  eapply grid_set_pos_wrapinv; eauto. apply cur_wrapinv, H.
Qed.
Lemma scr_decstbm_wrapinv s t b : screen_wrapinv s -> wip1 (scr_decstbm s t b).
Proof.
  intros H. apply on_cur_wip; [exact H|]. intros y Ey. binv Ey as t1 Et. binv Ey as b1 Eb.
  eapply set_scroll_region_wrapinv; eauto. apply cur_wrapinv, H.
Qed.

Lemma scr_ed_wrapinv s m : screen_wrapinv s -> wip2 (scr_ed s m).
Proof.
  intros H. unfold scr_ed.
  destruct (m =? 0); [apply wip_lift1; revert H; cur_wi_op erase_all_forward_wrapinv|].
  destruct (m =? 1); [apply wip_lift1; revert H; cur_wi_op erase_all_backward_wrapinv|].
  destruct (m =? 2); [apply wip_lift1; revert H; cur_wi_op erase_all_wrapinv|].
  now apply wip_ok.
Qed.
Lemma scr_el_wrapinv s m : screen_wrapinv s -> wip2 (scr_el s m).
Proof.
  intros H. unfold scr_el.
  destruct (m =? 0); [apply wip_lift1; revert H; cur_wi_op erase_row_forward_wrapinv|].
  destruct (m =? 1); [apply wip_lift1; revert H; cur_wi_op erase_row_backward_wrapinv|].
  destruct (m =? 2); [apply wip_lift1; revert H; cur_wi_op erase_row_wrapinv|].
  now apply wip_ok.
Qed.

Lemma set_origin_wrapinv s m : screen_wrapinv s -> wip1 (on_cur s (fun x => set_origin_mode x m)).
Proof. cur_wi_op set_origin_mode_wrapinv. Qed.

Ltac same_wi H := apply wip_ok; cbn [fst]; revert H; apply screen_wrapinv_same; reflexivity.

Lemma decset1_wrapinv s p : screen_wrapinv s -> wip2 (decset1 s p).
Proof.
  intros H. unfold decset1. destruct (single p) as [n|]; [|now apply wip_ok].
  repeat match goal with
  | |- wip _ (if ?c then _ else _) => destruct c
  end;
  try (now apply wip_ok); try (same_wi H).
  - apply wip_lift1. now apply set_origin_wrapinv.
  - apply wip_ok. cbn [fst]. now apply enter_alternate_grid_wrapinv.
  - (* 1049 *)
    pose proof (scr_save_cursor_wrapinv s H) as [H1 H2].
    intros a E. binv E as a1 Ea. inv E. cbn [fst]. apply enter_alternate_grid_wrapinv.
    split; cbn [g alt with_alt]; [exact H1|]. eapply grid_clear_wrapinv; eauto.
Qed.

Lemma decrst1_wrapinv s p : screen_wrapinv s -> wip2 (decrst1 s p).
Proof.
  intros H. unfold decrst1. destruct (single p) as [n|]; [|now apply wip_ok].
  repeat match goal with
  | |- wip _ (if ?c then _ else _) => destruct c
  end;
  try (now apply wip_ok); try (same_wi H);
  try (apply wip_ok; cbn [fst]; first [now apply clear_mouse_mode_wrapinv | now apply clear_mouse_enc_wrapinv]).
  apply wip_lift1. now apply set_origin_wrapinv.
Qed.

(* DECSET/DECRST: a list of parameters; the structural invariant is threaded
   along only because later parameters see the screen left by earlier ones *)
Lemma fold_params_wrapinv f : (forall s p, screen_wrapinv s -> wip2 (f s p)) ->
  forall ps s n, screen_wrapinv s -> wip2 (fold_params f ps s n).
Proof.
  intros Hf. induction ps as [|p ps IH]; intros s n H; cbn [fold_params].
  - now apply wip_ok.
  - intros a E. binv E as p1 E1. destruct p1 as [s1 k]. eapply IH; [|exact E].
    apply (Hf s p H _ E1).
Qed.

Lemma scr_decset_wrapinv s ps : screen_wrapinv s -> wip2 (scr_decset s ps).
Proof. intros H. apply fold_params_wrapinv; [apply decset1_wrapinv|exact H]. Qed.
Lemma scr_decrst_wrapinv s ps : screen_wrapinv s -> wip2 (scr_decrst s ps).
Proof. intros H. apply fold_params_wrapinv; [apply decrst1_wrapinv|exact H]. Qed.

Lemma scr_sgr_wrapinv s ps : screen_wrapinv s -> screen_wrapinv (fst (scr_sgr s ps)).
Proof. intros H. unfold scr_sgr. destruct (sgr ps (pen s)) as [a k]. cbn [fst]. now apply with_pen_wrapinv. Qed.

(* ------------------------------------------------------------------ *)
(* perform *)

Lemma do_execute_wrapinv s b : screen_wrapinv s -> wipe (do_execute s b).
Proof.
  intros H. unfold do_execute.
  repeat match goal with |- wip _ (if ?c then _ else _) => destruct c end;
    try (now apply wip_ok); apply wip_lift1.
  - now apply scr_bs_wrapinv.
  - now apply scr_tab_wrapinv.
  - now apply scr_lf_wrapinv.
  - now apply scr_cr_wrapinv.
Qed.

Lemma do_print_wrapinv s c : screen_ok s -> screen_wrapinv s -> wipe (do_print s c).
Proof.
  intros Hok H. unfold do_print.
  destruct ((128 <=? c) && (c <? 160)); [now apply do_execute_wrapinv|].
  destruct (c =? REPL); [now apply wip_ok|].
  apply wip_lift1. now apply scr_text_wrapinv.
Qed.

Lemma do_esc_wrapinv s inter b : screen_wrapinv s -> wipe (do_esc s inter b).
Proof.
  intros H. unfold do_esc. destruct inter; [|now apply wip_ok].
  repeat match goal with |- wip _ (if ?c then _ else _) => destruct c end;
    try (now apply wip_ok); try (same_wi H).
  - apply wip_ok. now apply scr_save_cursor_wrapinv.
  - apply wip_ok. now apply scr_restore_cursor_wrapinv.
  - apply wip_lift1. now apply scr_ri_wrapinv.
  - apply wip_lift1. apply scr_ris_wrapinv.
Qed.

Lemma do_csi_wrapinv rz s ps inter c : screen_wrapinv s -> wipe (do_csi rz s ps inter c).
Proof.
  intros H. unfold do_csi. destruct inter as [|i inter'].
  - repeat match goal with |- wip _ (if ?c then _ else _) => destruct c end;
      try (now apply wip_ok);
      try (apply wip_noev;
           first [ now apply scr_ich_wrapinv | now apply scr_cuu_wrapinv | now apply scr_cud_wrapinv | now apply scr_cuf_wrapinv
                 | now apply scr_cub_wrapinv | now apply scr_cnl_wrapinv | now apply scr_cpl_wrapinv | now apply scr_cha_wrapinv
                 | now apply scr_il_wrapinv | now apply scr_dl_wrapinv | now apply scr_dch_wrapinv | now apply scr_su_wrapinv
                 | now apply scr_sd_wrapinv | now apply scr_ech_wrapinv | now apply scr_vpa_wrapinv ]).
    + (* CUP *) destruct (canon2 ps 1 1) as [r cc]. apply wip_noev. now apply scr_cup_wrapinv.
    + apply wip_lift2. now apply scr_ed_wrapinv.
    + apply wip_lift2. now apply scr_el_wrapinv.
    + (* SGR *) pose proof (scr_sgr_wrapinv s ps H) as O. destruct (scr_sgr s ps) as [s1 k]. now apply wip_ok.
    + (* DECSTBM *) destruct (canon2 ps 1 (grows (cur s))) as [t b]. apply wip_noev. now apply scr_decstbm_wrapinv.
    + (* CSI t *) destruct ps as [|[|op sub] rest]; try (now apply wip_ok).
      destruct (op =? 8); [|now apply wip_ok].
      match goal with |- wip _ (if ?c then _ else _) => destruct c end; [|now apply wip_ok].
      apply wip_lift1. now apply screen_set_size_wrapinv.
  - destruct (i =? 63); [|now apply wip_ok].
    repeat match goal with |- wip _ (if ?c then _ else _) => destruct c end;
      try (now apply wip_ok); apply wip_lift2.
    + now apply scr_ed_wrapinv.
    + now apply scr_el_wrapinv.
    + now apply scr_decset_wrapinv.
    + now apply scr_decrst_wrapinv.
Qed.

Lemma do_osc_wrapinv s ps : screen_wrapinv s -> screen_wrapinv (fst (do_osc s ps)).
Proof.
  intros H. unfold do_osc. destruct ps as [|k [|v [|]]]; try exact H.
  repeat match goal with |- context[if ?c then _ else _] => destruct c end; exact H.
Qed.

Theorem perform_wrapinv rz s a s' evs : perform rz s a = Ok (s', evs) ->
  screen_ok s -> screen_wrapinv s -> screen_wrapinv s'.
Proof.
  intros E Hok H.
  assert (wipe (perform rz s a)) as W.
  { destruct a; cbn [perform]; try (now apply wip_ok).
    - now apply do_print_wrapinv.
    - now apply do_execute_wrapinv.
    - apply wip_ok. now apply do_osc_wrapinv.
    - now apply do_csi_wrapinv.
    - now apply do_esc_wrapinv. }
  apply (W _ E).
Qed.

Lemma perform_all_wrapinv rz acts : forall s evs s' evs', perform_all rz s acts evs = Ok (s', evs') ->
  screen_ok s -> screen_wrapinv s -> screen_wrapinv s'.
Proof.
  induction acts as [|a r IH]; intros s evs s' evs' E Hok H; cbn [perform_all] in E.
  - now inv E.
  - binv E as p1 E1. destruct p1 as [s1 e].
    destruct (perform_ok rz s a Hok) as (s1' & e' & E1' & Hok1). rewrite E1 in E1'. inv E1'.
    eapply IH; eauto. eapply perform_wrapinv; eauto.
Qed.

(* ------------------------------------------------------------------ *)
(* the parser API *)

Theorem parser_new_wrapinv rows cols cap rz p : parser_new rows cols cap rz = Ok p -> screen_wrapinv (scr p).
Proof.
  unfold parser_new. intros E. binv E as s Es. inv E. cbn [scr]. apply (screen_new_wrapinv _ _ _ _ Es).
Qed.

(* no hypothesis on the input bytes is needed *)
Theorem process_wrapinv p bs q : process p bs = Ok q -> parser_ok p -> screen_wrapinv (scr p) -> screen_wrapinv (scr q).
Proof.
  rewrite process_unfold. intros E Hok H.
  destruct (advance (vt p) _) as [v acts].
  binv E as p1 E1. destruct p1 as [s evs]. inv E. cbn [scr].
  pose proof (parser_ok_scr _ Hok) as Hscr. eapply perform_all_wrapinv; eauto.
Qed.

Theorem step_wrapinv p o q : step p o = Ok q -> parser_ok p -> screen_wrapinv (scr p) -> screen_wrapinv (scr q).
Proof.
  intros E Hok H. destruct o; cbn [step] in E.
  - eapply process_wrapinv; eauto.
  - unfold write in E. binv E as p1 E1. destruct p1 as [q1 k]. inv E. binv E1 as q2 E2. inv E1.
    eapply process_wrapinv; eauto.
  - binv E as s Es. inv E. cbn [scr]. apply (screen_set_size_wrapinv _ _ _ H _ Es).
  - inv E. cbn [scr]. now apply screen_set_scrollback_wrapinv.
Qed.

(* the invariant along an arbitrary history of API calls; cell well-formedness
   is not needed *)
Theorem run_wrapinv_strong : forall ops p q, parser_ok p -> screen_wrapinv (scr p) ->
  Forall op_ok ops -> run p ops = Ok q -> screen_wrapinv (scr q).
Proof.
  induction ops as [|o r IH]; intros p q Hok H Fo E; cbn [run] in E.
  - now inv E.
  - inv Fo. binv E as p1 E1.
    destruct (step_ok p o Hok) as (p1' & E1' & Hok1); [assumption|]. rewrite E1 in E1'. inv E1'.
    eapply IH; eauto. eapply step_wrapinv; eauto.
Qed.

(* the statement of the task *)
Theorem run_wrapinv : forall ops p q, parser_ok p -> screen_wf (scr p) -> screen_wrapinv (scr p) ->
  Forall op_ok ops -> run p ops = Ok q -> screen_wrapinv (scr q).
Proof. intros ops p q Hok _ H Fo E. eapply run_wrapinv_strong; eauto. Qed.

(* from a fresh parser *)
Corollary history_wrapinv rows cols cap rz ops p q :
  1 <= rows <= MAXDIM -> 1 <= cols <= MAXDIM ->
  parser_new rows cols cap rz = Ok p -> Forall op_ok ops -> run p ops = Ok q -> screen_wrapinv (scr q).
Proof.
  intros Hr Hc En Fo E.
  destruct (parser_new_ok rows cols cap rz Hr Hc) as (p' & En' & Hok). rewrite En in En'. inv En'.
  eapply run_wrapinv_strong; eauto. eapply parser_new_wrapinv; eauto.
Qed.

(* ------------------------------------------------------------------ *)
(* what C01 reads off the invariant *)

(* the rows a renderer sees *)
Lemma visible_rows_wrapinv x l : visible_rows x = Ok l -> grid_wrapinv x -> Forall row_wrapinv l.
Proof.
  unfold visible_rows. intros E [Hl Hs]. binv E as k Ek. inv E. apply Forall_app; split.
  - apply Forall_firstnN, Forall_skipnN, Hs.
  - apply Forall_firstnN, Hl.
Qed.

(* a flagged live row of a structurally sound grid: its cell in column cols-1
   has contents or is a continuation cell (and then column cols-2 is wide) *)
Theorem wrapped_row_last_cell x r rw : grid_ok x -> grid_wrapinv x -> get (live x) r = Some rw ->
  wrapped rw = true ->
  exists c, get (cells rw) (gcols x - 1) = Some c /\ (has_contents c = true \/ ccont c = true).
Proof.
  intros Hok [Hl _] G W.
  pose proof (Forall_get _ _ _ _ Hl G W) as (c & Gc & O).
  pose proof (Forall_get _ _ _ _ (grid_ok_cols_ok _ Hok) G) as L. cbv beta in L.
  exists c. rewrite <- L. split; assumption.
Qed.
