(* DiffMain.v — Stage 3 of C02: contents_diff / state_diff of S against P, played on a canvas
   receiver that shows P, make it show S — for pairs without soft-wrapped visible rows. *)
Require Import Tac ListN Utf8 Width Attrs Cell Row Grid Screen Vte Perform Term Emit
  RowInv GridInv TextInv ScreenInv ParseSer CellWf WfGrid WfVte WfInv EraseSpec SgrSpec MoveSpec PrintSpec
  CellBytes EmitSafe WrapInv WrapInvScreen ObsSpec Recv RowPaint Redraw Cursor C01Main DiffPaint DiffGrid.
Open Scope N_scope.

(* ------------------------------------------------------------------ *)
(* "the receiver R shows the screen S" (everything observable but the input modes) *)
(* ------------------------------------------------------------------ *)
Record shows (S R : screen) (vr : list row) : Prop := mkShows {
  sh_canvas : canvas R;
  sh_rows : grows (g R) = grows (cur S);
  sh_cols : gcols (g R) = gcols (cur S);
  sh_live : live (g R) = vr;
  sh_prow : prow (g R) = prow (cur S);
  sh_pcol : pcol (g R) = pcol (cur S);
  sh_hide : hide R = hide S;
  sh_pen : pen R = pen S }.

(* what C01 delivers is [shows] when the last visible row of the source is not flagged *)
Lemma same_obs_shows S R vr : canvas R -> same_obs_minus S R vr -> len vr = grows (cur S) ->
  (forall src, get vr (grows (cur S) - 1) = Some src -> wrapped src = false) ->
  shows S R vr.
Proof.
  intros CR [A1 A2 A3 A4 A5 A6 A7] Lvr Hlast. split; auto.
  destruct (canvas_rows_good _ CR) as (Ll & _). rewrite A1 in Ll.
  apply list_ext_get. intros i. destruct (N.lt_ge_cases i (grows (cur S))) as [Hi|Hi].
  - destruct (A3 i Hi) as (ri & src & G1 & G2 & Ec & W1 & W2). rewrite G1, G2. f_equal.
    apply row_ext; [exact Ec|].
    destruct (N.eq_dec (i + 1) (grows (cur S))) as [E|E].
    + rewrite (W2 E). symmetry. apply Hlast. replace (grows (cur S) - 1) with i by lia. exact G2.
    + apply W1. lia.
  - assert (get (live (g R)) i = None) as -> by (apply get_none_ge; lia).
    symmetry. apply get_none_ge. lia.
Qed.

(* a receiver that shows S and has its input modes has S's observation *)
Lemma shows_obs S R : sb_off (cur S) = 0 -> shows S R (live (cur S)) -> same_modes S R -> obs R = obs S.
Proof.
  intros Off [CR A1 A2 A3 A4 A5 A6 A7] (M1 & M2 & M3 & M4 & M5).
  rewrite (obs_off0 S Off). rewrite obs_off0 by (rewrite (canvas_cur _ CR); apply CR).
  rewrite (canvas_cur _ CR), A1, A2, A3, A4, A5, A6, A7, M1, M2, M3, M4, M5. reflexivity.
Qed.

(* ------------------------------------------------------------------ *)
(* contents_diff                                                        *)
(* ------------------------------------------------------------------ *)
Lemma with_hide_same R : with_hide R (hide R) = R.
Proof. destruct R; reflexivity. Qed.

Lemma source_dims S vr : source_ok S vr ->
  len vr = grows (cur S) /\ prow (cur S) < grows (cur S) /\ pcol (cur S) <= gcols (cur S).
Proof.
  intros [Ok Hvis _ _]. destruct (cur_ok _ Ok) as (K & Hpr & Hpc).
  destruct (visible_rows_ok (cur S) (cur_ok _ Ok)) as (vr' & Hv' & Lvr & _). rewrite Hvis in Hv'. inv Hv'. auto.
Qed.

Theorem contents_diff_plays_W S P R vr pvr ts :
  source_ok S vr -> source_ok P pvr -> untouched_wraps vr pvr ->
  grows (cur S) = grows (cur P) -> gcols (cur S) = gcols (cur P) ->
  shows P R pvr -> contents_diff_t S P = Ok ts ->
  exists R', plays R ts R' /\ shows S R' vr /\
             keypad R' = keypad R /\ appcur R' = appcur R /\ paste R' = paste R /\
             mmode R' = mmode R /\ menc R' = menc R.
Proof.
  intros HS HP HW Er Ec [CR B1 B2 B3 B4 B5 B6 B7] Ets.
  destruct (source_dims _ _ HS) as (Lvr & Hpr & Hpc). destruct (source_dims _ _ HP) as (Lpvr & _ & _).
  set (R1 := with_hide R (hide S)).
  assert (canvas R1) as CR1 by (apply canvas_with_hide; exact CR).
  assert (plays R (if Bool.eqb (hide S) (hide P) then [] else [t_hide_cursor (hide S)]) R1) as P0.
  { destruct (Bool.eqb (hide S) (hide P)) eqn:Eh; [|apply plays_hide].
    apply eqb_prop in Eh. unfold R1. rewrite Eh, <- B6, with_hide_same. apply plays_nil. }
  assert (R1 = rcv R1 pvr (prow (cur P)) (pcol (cur P)) (pen P)) as ER1.
  { rewrite <- (rcv_id R1) at 1. change (g R1) with (g R). change (pen R1) with (pen R). congruence. }
  assert (cv R1 pvr (prow (cur P)) (pcol (cur P))) as Hcv.
  { pose proof (cv_id _ CR1) as H. change (g R1) with (g R) in H. rewrite B3, B4, B5 in H. exact H. }
  change (g R1) with (g R) in Hcv.
  assert (vrows_ok (gcols (g R)) vr) as Q1 by (rewrite B2, <- Ec; apply (so_rows _ _ HS)).
  assert (Forall (srow_ok (gcols (g R))) pvr) as Q2 by (rewrite B2; apply (proj1 (so_rows _ _ HP))).
  assert (len vr = grows (g R)) as Q3 by congruence.
  assert (len pvr = grows (g R)) as Q4 by congruence.
  assert (gcols (cur S) = gcols (g R)) as Q5 by congruence.
  assert (prow (cur S) < grows (g R)) as Q6 by (rewrite B1, <- Er; exact Hpr).
  assert (pcol (cur S) <= gcols (g R)) as Q7 by (rewrite B2, <- Ec; exact Hpc).
  destruct (grid_diff_plays_W R1 (cur S) (cur P) vr pvr (pen P) CR1 Q1 Q2 HW (so_vis _ _ HS) (so_vis _ _ HP)
              Q3 Q4 Q5 Q6 Q7 Hcv (so_pen _ _ HP)) as (ts1 & a1 & R2 & E1 & P1 & C1 & SB & Pa1).
  unfold contents_diff_t in Ets. rewrite E1 in Ets. cbn [bind] in Ets. inv Ets.
  exists (rcv R2 vr (prow (cur S)) (pcol (cur S)) (pen S)).
  destruct SB as [SBc SBr SBcl SBh SBk SBa SBp SBm SBe].
  change (g R1) with (g R) in SBr, SBcl.
  split; [|split].
  - eapply plays_app; [exact P0|]. rewrite ER1. eapply plays_app; [exact P1|].
    apply plays_attrs_diff. apply (so_pen _ _ HS).
  - split; cbn [rcv with_pen with_g g live grows gcols prow pcol with_pos with_live hide pen]; try congruence; try reflexivity.
    + apply cv_canvas_rcv. exact C1.
    + rewrite SBh. reflexivity.
  - cbn [rcv with_pen with_g keypad appcur paste mmode menc]. rewrite SBk, SBa, SBp, SBm, SBe. repeat split; reflexivity.
Qed.

Corollary contents_diff_plays S P R vr pvr ts :
  source_ok S vr -> source_ok P pvr -> unwrapped_rows vr -> unwrapped_rows pvr ->
  grows (cur S) = grows (cur P) -> gcols (cur S) = gcols (cur P) ->
  shows P R pvr -> contents_diff_t S P = Ok ts ->
  exists R', plays R ts R' /\ shows S R' vr /\
             keypad R' = keypad R /\ appcur R' = appcur R /\ paste R' = paste R /\
             mmode R' = mmode R /\ menc R' = menc R.
Proof. intros HS HP Uv Up. apply contents_diff_plays_W; auto. now apply unwrapped_untouched. Qed.

(* ------------------------------------------------------------------ *)
(* input_mode_diff                                                      *)
(* ------------------------------------------------------------------ *)
Lemma plays_opt R (b b' : bool) t R' : (b = b' -> R' = R) -> plays R [t] R' ->
  plays R (if Bool.eqb b b' then [] else [t]) R'.
Proof.
  intros Hs Hp. destruct (Bool.eqb b b') eqn:E; [|exact Hp]. apply eqb_prop in E. rewrite (Hs E). apply plays_nil.
Qed.

Lemma plays_input_mode_diff R S P :
  keypad R = keypad P -> appcur R = appcur P -> paste R = paste P -> mmode R = mmode P -> menc R = menc P ->
  plays R (input_mode_diff_t S P) (with_modes R S).
Proof.
  intros Hk Ha Hp Hm He. unfold input_mode_diff_t, with_modes.
  eapply plays_app.
  { apply plays_opt with (R' := with_keypad R (keypad S)).
    - intros E. rewrite E, <- Hk. destruct R; reflexivity.
    - eapply plays_one_act; [reflexivity|]. destruct (keypad S); reflexivity. }
  set (R1 := with_keypad R (keypad S)).
  eapply plays_app.
  { apply plays_opt with (R' := with_appcur R1 (appcur S)).
    - intros E. rewrite E, <- Ha. unfold R1. destruct R; reflexivity.
    - eapply plays_one_act; [reflexivity|]. destruct (appcur S); reflexivity. }
  set (R2 := with_appcur R1 (appcur S)).
  eapply plays_app.
  { apply plays_opt with (R' := with_paste R2 (paste S)).
    - intros E. rewrite E, <- Hp. unfold R2, R1. destruct R; reflexivity.
    - eapply plays_one_act; [reflexivity|]. destruct (paste S); reflexivity. }
  set (R3 := with_paste R2 (paste S)).
  assert (mmode R3 = mmode P) as Hm3 by exact Hm. assert (menc R3 = menc P) as He3 by exact He.
  clearbody R3. clear R1 R2 Hk Ha Hp Hm He.
  eapply plays_app.
  - instantiate (1 := with_mmode R3 (mmode S)).
    destruct R3 as [f1 f2 f3 f4 f5 f6 f7 f8 f9 f10 f11]; cbn [mmode menc] in Hm3, He3; subst.
    destruct (mmode S), (mmode P); cbn [t_mouse_mode mouse_mode_eqb];
      try (apply plays_nil); eapply plays_one_act; reflexivity.
  - set (R4 := with_mmode R3 (mmode S)). assert (menc R4 = menc P) as He4 by exact He3.
    clearbody R4.
    destruct R4 as [f1 f2 f3 f4 f5 f6 f7 f8 f9 f10 f11]; cbn [menc] in He4; subst.
    destruct (menc S), (menc P); cbn [t_mouse_enc mouse_enc_eqb];
      try (apply plays_nil); eapply plays_one_act; reflexivity.
Qed.

(* ------------------------------------------------------------------ *)
(* state_diff: Stage 3                                                  *)
(* ------------------------------------------------------------------ *)
(* R shows P and has P's input modes; after S.state_diff(P) it shows S and has S's input modes *)
Theorem state_diff_plays_W S P R vr pvr ts :
  source_ok S vr -> source_ok P pvr -> untouched_wraps vr pvr ->
  grows (cur S) = grows (cur P) -> gcols (cur S) = gcols (cur P) ->
  shows P R pvr -> same_modes P R -> state_diff_t S P = Ok ts ->
  exists R', plays R ts R' /\ shows S R' vr /\ same_modes S R'.
Proof.
  intros HS HP HW Er Ec Sh (M1 & M2 & M3 & M4 & M5) Ets.
  unfold state_diff_t in Ets. bind_inv Ets. inv Ets.
  destruct (contents_diff_plays_W S P R vr pvr v HS HP HW Er Ec Sh E)
    as (R1 & P1 & [A0 A1 A2 A3 A4 A5 A6 A7] & K1 & K2 & K3 & K4 & K5).
  exists (with_modes R1 S). split; [|split].
  - eapply plays_app; [exact P1|]. apply plays_input_mode_diff; congruence.
  - split; auto. now apply canvas_with_modes.
  - repeat split; reflexivity.
Qed.

Corollary state_diff_plays S P R vr pvr ts :
  source_ok S vr -> source_ok P pvr -> unwrapped_rows vr -> unwrapped_rows pvr ->
  grows (cur S) = grows (cur P) -> gcols (cur S) = gcols (cur P) ->
  shows P R pvr -> same_modes P R -> state_diff_t S P = Ok ts ->
  exists R', plays R ts R' /\ shows S R' vr /\ same_modes S R'.
Proof. intros HS HP Uv Up. apply state_diff_plays_W; auto. now apply unwrapped_untouched. Qed.

(* ... hence the receiver's observation is S's (scrollback offset 0, as in C01) *)
Corollary state_diff_obs_W S P R ts :
  source_ok S (live (cur S)) -> source_ok P (live (cur P)) ->
  untouched_wraps (live (cur S)) (live (cur P)) ->
  sb_off (cur S) = 0 ->
  grows (cur S) = grows (cur P) -> gcols (cur S) = gcols (cur P) ->
  shows P R (live (cur P)) -> same_modes P R -> state_diff_t S P = Ok ts ->
  exists R', play false R ts = Ok (R', []) /\ canvas R' /\ obs R' = obs S /\
             shows S R' (live (cur S)) /\ same_modes S R'.
Proof.
  intros HS HP HW Off Er Ec Sh Sm Ets.
  destruct (state_diff_plays_W S P R _ _ ts HS HP HW Er Ec Sh Sm Ets) as (R' & P' & Sh' & Sm').
  exists R'. split; [exact P'|]. split; [apply Sh'|]. split; [now apply shows_obs|]. auto.
Qed.

Corollary state_diff_obs S P R ts :
  source_ok S (live (cur S)) -> source_ok P (live (cur P)) ->
  unwrapped_rows (live (cur S)) -> unwrapped_rows (live (cur P)) ->
  sb_off (cur S) = 0 ->
  grows (cur S) = grows (cur P) -> gcols (cur S) = gcols (cur P) ->
  shows P R (live (cur P)) -> same_modes P R -> state_diff_t S P = Ok ts ->
  exists R', play false R ts = Ok (R', []) /\ canvas R' /\ obs R' = obs S /\
             shows S R' (live (cur S)) /\ same_modes S R'.
Proof. intros HS HP Uv Up. apply state_diff_obs_W; auto. now apply unwrapped_untouched. Qed.
