(* CellInv.v — a generic cell invariant: any predicate P on cells (with a predicate Q on
   attributes for the pens) that is closed under the four Cell operations is an invariant of every
   row / grid / screen operation, of perform, and of arbitrary API histories.
   Instances (CapInv.v): the capacity clause cell_cap, and "colours in range" (screen_attrs_ok).
   Same structure as WfGrid.v / WfInv.v, but no side conditions on the characters are needed. *)
Require Import Tac ListN Utf8 Width Attrs Cell Row Grid Screen Vte Perform Parser.
Require Import Chunking.
Require Import RowInv GridInv TextInv ScreenInv WfGrid WfInv.
Open Scope N_scope.

Section CellInv.
Variable P : cell -> Prop.
Variable Q : attrs -> Prop.
Hypothesis Q_dflt : Q dflt.
Hypothesis P_clear : forall a c, Q a -> P (cell_clear a c).
Hypothesis P_set : forall ch a c, Q a -> P (cell_set ch a c).
Hypothesis P_append : forall ch c, P c -> P (cell_append ch c).
Hypothesis P_cont : forall b c, P c -> P (cell_set_cont b c).
Hypothesis P_attrs : forall c, P c -> Q (cattrs c).
Hypothesis Q_sgr : forall ps a, Q a -> Q (fst (sgr ps a)).

Definition rowP (r : row) : Prop := Forall P (cells r).
Definition gridP (x : grid) : Prop := Forall rowP (live x) /\ Forall rowP (sb x).
Definition screenP (s : screen) : Prop := gridP (g s) /\ gridP (alt s) /\ Q (pen s) /\ Q (spen s).

Lemma P_new : P cell_new.
Proof. exact (P_clear dflt cell_new Q_dflt). Qed.
Lemma P_clear_own c : P c -> P (clear_own c).
Proof. intros H. apply P_clear, P_attrs, H. Qed.

(* ---- rows ---- *)
Lemma rowP_get r i c : rowP r -> get (cells r) i = Some c -> P c.
Proof. intros H G. eapply Forall_get; eauto. Qed.
Lemma row_new_P cols : rowP (row_new cols).
Proof. unfold rowP, row_new; cbn [cells]. apply Forall_repeatN, P_new. Qed.
Lemma row_clear_P a r : Q a -> rowP (row_clear a r).
Proof. intros Ha. unfold rowP, row_clear; cbn [cells]. apply Forall_map'. intros c _. now apply P_clear. Qed.
Lemma row_wrap_P b r : rowP r -> rowP (row_wrap b r).
Proof. intros H; exact H. Qed.
Lemma row_set_cell_P r i c : rowP r -> P c -> rowP (row_set_cell r i c).
Proof. intros H Hc. unfold rowP, row_set_cell; cbn [cells]. now apply Forall_set_at. Qed.

Lemma row_upd_P r i f r' : row_upd r i f = Ok r' -> rowP r ->
  (forall c, get (cells r) i = Some c -> P c -> P (f c)) -> rowP r'.
Proof.
  unfold row_upd, row_get. intros E H Hf. binv E as c Ec. apply unwrap_inv in Ec. inv E.
  apply row_set_cell_P; [exact H|]. apply Hf; [exact Ec|]. eapply rowP_get; eauto.
Qed.

Lemma clear_wide_P r i r' : clear_wide r i = Ok r' -> rowP r -> rowP r'.
Proof.
  unfold clear_wide. intros E H. binv E as c Ec.
  destruct (cwide c).
  - binv E as j Ej. binv E as o Eo. inv E. apply idx_inv in Eo.
    apply row_set_cell_P; [exact H|]. apply P_clear_own. eapply rowP_get; eauto.
  - destruct (ccont c).
    + binv E as j Ej. binv E as o Eo. inv E. apply idx_inv in Eo.
      apply row_set_cell_P; [exact H|]. apply P_clear_own. eapply rowP_get; eauto.
    + now inv E.
Qed.

Lemma row_insert_P r i c r' : row_insert r i c = Ok r' -> rowP r -> P c -> rowP r'.
Proof.
  unfold row_insert. intros E H Hc. binv E as cs Ecs. inv E. unfold rowP; cbn [cells].
  eapply Forall_insert_at; eauto.
Qed.

Lemma row_remove_P r i r' : row_remove r i = Ok r' -> rowP r -> rowP r'.
Proof.
  unfold row_remove. intros E H. binv E as r1 E1. apply clear_wide_P in E1; [|exact H].
  binv E as p Ep. destruct p as [x cs]. inv E. unfold rowP; cbn [cells].
  eapply Forall_remove_at in Ep; [|exact E1]. apply Ep.
Qed.

Lemma row_erase_P r i a r' : row_erase r i a = Ok r' -> Q a -> rowP r -> rowP r'.
Proof.
  unfold row_erase. intros E Ha H. binv E as c Ec. binv E as r1 E1. apply clear_wide_P in E1; [|exact H].
  binv E as c1 Ec1. binv E as lim Elim. inv E.
  assert (rowP (row_set_cell r1 i (cell_clear a c1))) as W.
  { apply row_set_cell_P; [exact E1|now apply P_clear]. }
  destruct (i =? lim); [apply row_wrap_P|]; exact W.
Qed.

Lemma row_truncate_P r n r' : row_truncate r n = Ok r' -> rowP r -> rowP r'.
Proof.
  unfold row_truncate. intros E H. binv E as j Ej. binv E as last Elast. inv E. unfold rowP; cbn [cells].
  assert (Forall P (firstnN n (cells r))) as W by (now apply Forall_firstnN).
  apply idx_inv in Elast.
  destruct (cwide last); [|exact W]. apply Forall_set_at; [exact W|]. apply P_clear_own. eapply Forall_get; eauto.
Qed.

Lemma row_resize_P r n : rowP r -> rowP (row_resize r n cell_new).
Proof.
  intros H. unfold row_resize, rowP; cbn [cells].
  assert (Forall P (resize_list (cells r) n cell_new)) as W by (apply Forall_resize_list; [exact H|apply P_new]).
  destruct (len (resize_list (cells r) n cell_new)); [exact W|].
  destruct (get _ _) as [last|] eqn:G; [|exact W].
  destruct (cwide last); [|exact W]. apply Forall_set_at; [exact W|]. apply P_clear_own. eapply Forall_get; eauto.
Qed.

Lemma ins_step_P wide p r r' : ins_step wide p r = Ok r' -> rowP r -> rowP r'.
Proof.
  unfold ins_step. intros E H. binv E as r1 E1. binv E as r2 E2.
  assert (rowP r1) as W1.
  { destruct wide; [|now inv E1]. eapply row_upd_P; [exact E1|exact H|]. intros c _ Hc. now apply P_cont. }
  assert (rowP r2) as W2 by (eapply row_insert_P; eauto; apply P_new).
  destruct wide; [|now inv E].
  eapply row_upd_P; [exact E|exact W2|]. intros c _ Hc. now apply P_cont.
Qed.

(* ---- grids ---- *)
Lemma same_cells_P x y : same_cells x y -> gridP x -> gridP y.
Proof. intros [E1 E2] [H1 H2]. unfold gridP. rewrite E1, E2. split; assumption. Qed.

Lemma gridP_with_live x l : gridP x -> Forall rowP l -> gridP (with_live x l).
Proof. intros [_ H2] Hl. split; cbn [with_live live sb]; assumption. Qed.
Lemma gridP_live x : gridP x -> Forall rowP (live x).
Proof. intros [H _]; exact H. Qed.

Lemma grid_new_P rows cols cap x : grid_new rows cols cap = Ok x -> gridP x.
Proof. unfold grid_new. intros E. binv E as b Eb. inv E. split; constructor. Qed.

Lemma allocate_rows_P x : gridP x -> gridP (allocate_rows x).
Proof.
  intros H. unfold allocate_rows. destruct (live x); [|exact H].
  apply gridP_with_live; [exact H|]. apply Forall_repeatN, row_new_P.
Qed.

Lemma grid_clear_P x y : grid_clear x = Ok y -> gridP x -> gridP y.
Proof.
  unfold grid_clear. intros E [H1 H2]. binv E as b Eb. inv E. split; cbn [live sb]; [|exact H2].
  apply Forall_map'. intros r _. now apply row_clear_P.
Qed.

Lemma upd_row_P x r f y : upd_row x r f = Ok y -> gridP x ->
  (forall rw rw', get (live x) r = Some rw -> f rw = Ok rw' -> rowP rw -> rowP rw') -> gridP y.
Proof.
  unfold upd_row, drawing_row. intros E H Hf. binv E as rw Erw. apply unwrap_inv in Erw. binv E as rw' Erw'. inv E.
  apply gridP_with_live; [exact H|]. apply Forall_set_at; [apply (gridP_live _ H)|].
  eapply Hf; eauto. eapply Forall_get; [apply (gridP_live _ H)|exact Erw].
Qed.

Lemma upd_cell_P x r c f y : upd_cell x r c f = Ok y -> gridP x ->
  (forall cl, P cl -> P (f cl)) -> gridP y.
Proof.
  unfold upd_cell, drawing_row, row_get. intros E H Hf.
  binv E as rw Erw. apply unwrap_inv in Erw. binv E as cl Ecl. apply unwrap_inv in Ecl. inv E.
  assert (rowP rw) as Wv by (eapply Forall_get; [apply (gridP_live _ H)|exact Erw]).
  apply gridP_with_live; [exact H|]. apply Forall_set_at; [apply (gridP_live _ H)|].
  apply row_set_cell_P; [exact Wv|]. apply Hf. eapply rowP_get; eauto.
Qed.

Lemma erase_all_P x a : Q a -> gridP x -> gridP (erase_all x a).
Proof.
  intros Ha H. unfold erase_all. apply gridP_with_live; [exact H|].
  apply Forall_map'. intros r _. now apply row_clear_P.
Qed.

Lemma erase_range_P n lo a rw rw' :
  for_range n lo (fun col r => row_erase r col a) rw = Ok rw' -> Q a -> rowP rw -> rowP rw'.
Proof.
  intros E Ha H. eapply (for_range_inv rowP); eauto.
  cbv beta. intros i x y Ey Hx. eapply row_erase_P; eauto.
Qed.

Lemma erase_row_forward_P x a y : erase_row_forward x a = Ok y -> Q a -> gridP x -> gridP y.
Proof.
  unfold erase_row_forward, upd_current_row. intros E Ha H. eapply upd_row_P; eauto.
  cbv beta. intros rw rw' _ Er Hr. eapply erase_range_P; eauto.
Qed.
Lemma erase_row_backward_P x a y : erase_row_backward x a = Ok y -> Q a -> gridP x -> gridP y.
Proof.
  unfold erase_row_backward, upd_current_row. intros E Ha H. binv E as m Em. eapply upd_row_P; eauto.
  cbv beta. intros rw rw' _ Er Hr. eapply erase_range_P; eauto.
Qed.
Lemma erase_all_forward_P x a y : erase_all_forward x a = Ok y -> Q a -> gridP x -> gridP y.
Proof.
  unfold erase_all_forward. intros E Ha H. eapply erase_row_forward_P; eauto.
  apply gridP_with_live; [exact H|]. apply Forall_app; split.
  - apply Forall_firstn', (gridP_live _ H).
  - apply Forall_map'. intros r _. now apply row_clear_P.
Qed.
Lemma erase_all_backward_P x a y : erase_all_backward x a = Ok y -> Q a -> gridP x -> gridP y.
Proof.
  unfold erase_all_backward. intros E Ha H. eapply erase_row_backward_P; eauto.
  apply gridP_with_live; [exact H|]. apply Forall_app; split.
  - apply Forall_map'. intros r _. now apply row_clear_P.
  - apply Forall_skipn', (gridP_live _ H).
Qed.
Lemma erase_row_P x a y : erase_row x a = Ok y -> Q a -> gridP x -> gridP y.
Proof.
  unfold erase_row, upd_current_row. intros E Ha H. eapply upd_row_P; eauto.
  cbv beta. intros rw rw' _ Er _. inv Er. now apply row_clear_P.
Qed.
Lemma erase_cells_P x n a y : erase_cells x n a = Ok y -> Q a -> gridP x -> gridP y.
Proof.
  unfold erase_cells, upd_current_row. intros E Ha H. eapply upd_row_P; eauto.
  cbv beta. intros rw rw' _ Er Hr. eapply erase_range_P; eauto.
Qed.

Lemma insert_cells_P x n y : insert_cells x n = Ok y -> gridP x -> gridP y.
Proof.
  unfold insert_cells, upd_current_row. intros E H. binv E as wide Ewide. binv E as room Eroom. eapply upd_row_P; eauto.
  cbv beta. intros rw rw' _ Er Hr. binv Er as rw1 Er1. eapply row_truncate_P; eauto.
  eapply (iter_res_inv rowP); eauto. intros r1 r2 E12 H1. eapply ins_step_P; eauto.
Qed.
Lemma delete_cells_P x n y : delete_cells x n = Ok y -> gridP x -> gridP y.
Proof.
  unfold delete_cells, upd_current_row. intros E H. binv E as room Eroom. eapply upd_row_P; eauto.
  cbv beta. intros rw rw' _ Er Hr. binv Er as rw1 Er1. inv Er. apply row_resize_P.
  eapply (iter_res_inv rowP); eauto. cbv beta. intros r1 r2 E12 H1. eapply row_remove_P; eauto.
Qed.

Lemma new_row_P x : rowP (new_row x).
Proof. apply row_new_P. Qed.

Lemma wrap_false_at_P l i l' : wrap_false_at l i = Ok l' -> Forall rowP l -> Forall rowP l'.
Proof.
  unfold wrap_false_at. intros E H. binv E as r Er. inv E. apply idx_inv in Er.
  apply Forall_set_at; [exact H|]. apply row_wrap_P. eapply Forall_get; eauto.
Qed.

Lemma rotate_down_P x a b l l' :
  (do '(_, l1) <- remove_at l a; do l2 <- insert_at l1 b (new_row x); wrap_false_at l2 a) = Ok l' ->
  Forall rowP l -> Forall rowP l'.
Proof.
  intros E H. binv E as p1 E1. destruct p1 as [rm l1]. binv E as l2 E2.
  eapply Forall_remove_at in E1 as [_ W1]; [|exact H].
  eapply wrap_false_at_P; eauto. eapply Forall_insert_at; eauto. apply new_row_P.
Qed.

Lemma insert_lines_P x n y : insert_lines x n = Ok y -> gridP x -> gridP y.
Proof.
  unfold insert_lines. intros E H. binv E as l0 El0. inv E. apply gridP_with_live; [exact H|].
  eapply (iter_res_inv (Forall rowP)); eauto; [apply (gridP_live _ H)|].
  cbv beta. intros l l' El Hl. eapply rotate_down_P; eauto.
Qed.
Lemma scroll_down_P x n y : scroll_down x n = Ok y -> gridP x -> gridP y.
Proof.
  unfold scroll_down. intros E H. binv E as l0 El0. inv E. apply gridP_with_live; [exact H|].
  eapply (iter_res_inv (Forall rowP)); eauto; [apply (gridP_live _ H)|].
  cbv beta. intros l l' El Hl. eapply rotate_down_P; eauto.
Qed.
Lemma delete_lines_P x n y : delete_lines x n = Ok y -> gridP x -> gridP y.
Proof.
  unfold delete_lines. intros E H. binv E as room Eroom. binv E as l0 El0. inv E. apply gridP_with_live; [exact H|].
  eapply (iter_res_inv (Forall rowP)); eauto; [apply (gridP_live _ H)|].
  cbv beta. intros l l' El Hl. binv El as l1 E1. binv El as p2 E2. destruct p2 as [rm l2]. inv El.
  eapply Forall_remove_at in E2 as [_ W]; [exact W|].
  eapply Forall_insert_at; eauto. apply new_row_P.
Qed.

Lemma scroll_up_P x n y : scroll_up x n = Ok y -> gridP x -> gridP y.
Proof.
  unfold scroll_up. intros E H. binv E as room Eroom. binv E as active Eact.
  eapply (iter_res_inv gridP); eauto.
  cbv beta. clear E Eroom Eact H. intros g1 g2 E [Hl Hs]. binv E as l1 E1. binv E as p2 E2. destruct p2 as [removed l2].
  eapply Forall_remove_at in E2 as [Wr W2]; [|eapply Forall_insert_at; eauto; apply new_row_P].
  assert (gridP (with_live g1 l2)) as W by (split; cbn [with_live live sb]; assumption).
  destruct ((0 <? sb_cap (with_live g1 l2)) && negb active); inv E; [|exact W].
  split; cbn [with_sb with_live live sb]; [exact W2|].
  apply Forall_trim_front. apply Forall_app; split; [exact Hs|]. constructor; [exact Wr|constructor].
Qed.

Lemma row_inc_scroll_P x n y k : row_inc_scroll x n = Ok (y, k) -> gridP x -> gridP y.
Proof.
  unfold row_inc_scroll. intros E H. binv E as p1 E1. destruct p1 as [g1 lines].
  apply row_clamp_bottom_cells in E1.
  assert (gridP g1) as W1.
  { eapply same_cells_P; [|exact H]. eapply same_cells_trans; [apply with_pos_cells|exact E1]. }
  destruct (in_scroll_region x).
  - binv E as g2 E2. inv E. eapply scroll_up_P; eauto.
  - inv E. exact W1.
Qed.

Lemma row_dec_scroll_P x n y : row_dec_scroll x n = Ok y -> gridP x -> gridP y.
Proof.
  unfold row_dec_scroll. intros E H.
  pose proof (row_clamp_top_cells (with_prow x (sat_sub16 (prow x) n)) (in_scroll_region x)) as C.
  destruct (row_clamp_top _ _) as [g1 lines]. cbn [fst] in C.
  binv E as k Ek. eapply scroll_down_P; eauto.
  eapply same_cells_P; [|exact H]. eapply same_cells_trans; [apply with_pos_cells|exact C].
Qed.

Lemma col_wrap_P x width wrap y : col_wrap x width wrap = Ok y -> gridP x -> gridP y.
Proof.
  unfold col_wrap. intros E H. binv E as lim Elim.
  destruct (lim <? pcol x); [|now inv E].
  binv E as p1 E1. destruct p1 as [g1 scrolled].
  apply row_inc_scroll_P in E1; [|eapply same_cells_P; [apply with_pos_cells|exact H]].
  destruct (scrolled <=? prow x); [|now inv E].
  binv E as pr1 Epr1. eapply upd_row_P; eauto.
  cbv beta. intros rw rw' _ Er Hr. inv Er. now apply row_wrap_P.
Qed.

Lemma grid_set_size_P x rows cols y : grid_set_size x rows cols = Ok y -> gridP x -> gridP y.
Proof.
  unfold grid_set_size. intros E [Hl Hs]. binv E as oldm Eoldm. binv E as newm Enewm. binv E as newc Enewc.
  rewrite row_clamp_top_false in E. binv E as p3 E3. destruct p3 as [g3 k3]. binv E as g4 E4. inv E.
  apply row_clamp_bottom_cells in E3. apply col_clamp_cells in E4.
  eapply same_cells_P; [apply with_saved_cells|].
  eapply same_cells_P; [exact E4|]. eapply same_cells_P; [exact E3|].
  split; cbn [live sb]; [|exact Hs].
  apply Forall_resize_list; [|apply row_new_P].
  apply Forall_map'. intros r Hr. apply row_resize_P.
  destruct (negb (cols =? gcols x)).
  - apply in_map_iff in Hr as (r0 & <- & Hr0). apply row_wrap_P.
    rewrite Forall_forall in Hl. now apply Hl.
  - rewrite Forall_forall in Hl. now apply Hl.
Qed.

(* ---- the text path ---- *)
Lemma append_at_P x r c ch y : append_at x r c ch = Ok y -> gridP x -> gridP y.
Proof.
  unfold append_at. intros E H. binv E as pc Epc.
  destruct (ccont pc).
  - binv E as c2 Ec2. binv E as d Ed. eapply upd_cell_P; [eassumption|eassumption|intros cl; apply P_append].
  - eapply upd_cell_P; [eassumption|eassumption|intros cl; apply P_append].
Qed.

Lemma text_zero_P x ch y : text_zero x ch = Ok y -> gridP x -> gridP y.
Proof.
  unfold text_zero. intros E H.
  destruct (0 <? pcol x).
  - binv E as c1 Ec1. eapply append_at_P; eauto.
  - destruct (0 <? prow x); [|now inv E].
    binv E as r1 Er1. binv E as prev Eprev.
    destruct (wrapped prev); [|now inv E].
    binv E as c1 Ec1. eapply append_at_P; eauto.
Qed.

Lemma text_place_P x ch width a y : text_place x ch width a = Ok y -> Q a -> gridP x -> gridP y.
Proof.
  unfold text_place. intros E Ha H.
  binv E as c0 Ec0. binv E as x1 E1.
  assert (gridP x1) as W1.
  { destruct (ccont c0); [|now inv E1]. binv E1 as cm Ecm.
    eapply upd_cell_P; [eassumption|eassumption|intros cl _; now apply P_clear]. }
  binv E as c0' Ec0'. binv E as x2 E2.
  assert (gridP x2) as W2.
  { destruct (cwide c0'); [|now inv E2]. binv E2 as cp Ecp.
    eapply upd_cell_P; [eassumption|eassumption|intros cl _; now apply P_set]. }
  binv E as x3 E3.
  assert (gridP x3) as W3.
  { eapply upd_cell_P; [eassumption|eassumption|intros cl _; now apply P_set]. }
  assert (gridP (col_inc x3 1)) as W4 by (eapply same_cells_P; [apply col_inc_cells|exact W3]).
  destruct (1 <? width); [|now inv E].
  binv E as n0 En0. binv E as x5 E5.
  assert (gridP x5) as W5.
  { destruct (cwide n0); [|now inv E5]. binv E5 as cn Ecn. binv E5 as x5a E5a. binv E5 as lastc Elastc.
    assert (gridP x5a) as W5a by (eapply upd_cell_P; [eassumption|eassumption|intros cl _; now apply P_clear]).
    destruct (cn =? lastc); [|now inv E5].
    eapply upd_row_P; [eassumption|eassumption|]. cbv beta. intros rw rw' _ Er Hr. inv Er. now apply row_wrap_P. }
  binv E as x6 E6. inv E. eapply same_cells_P; [apply col_inc_cells|].
  eapply upd_cell_P; [eassumption|eassumption|intros cl _; apply P_cont; now apply P_clear].
Qed.

Theorem grid_text_P x ch a y : grid_text x ch a = Ok y -> Q a -> gridP x -> gridP y.
Proof.
  unfold grid_text. intros E Ha H.
  set (width := match wd ch with Some n => n | None => 1 end) in *.
  assert ((if gcols x <? width then Ok x
           else do lim <- sub16 (gcols x) width;
                do wrap <- (if lim <? pcol x then
                              do lastc <- sub16 (gcols x) 1;
                              do lc <- unwrap (drawing_cell x (prow x) lastc);
                              Ok (has_contents lc || ccont lc)
                            else Ok false);
                do x1 <- col_wrap x width wrap;
                if width =? 0 then text_zero x1 ch else text_place x1 ch width a) = Ok y \/ y = x) as [E'|Eyx].
  { destruct (wd ch) as [w|] eqn:Ew; [left; exact E|].
    destruct (ch <? 256); [right; now inv E|left; exact E]. }
  2:{ subst y. exact H. }
  clear E.
  destruct (gcols x <? width); [now inv E'|].
  binv E' as lim Elim. binv E' as wrap Ewrap. binv E' as x1 E1.
  pose proof (col_wrap_P _ _ _ _ E1 H) as W1.
  destruct (width =? 0); [eapply text_zero_P; eauto|eapply text_place_P; eauto].
Qed.

(* ---- screens ---- *)
Lemma cur_P s : screenP s -> gridP (cur s).
Proof. intros (H1 & H2 & _). unfold cur. destruct (altmode s); assumption. Qed.

Lemma with_cur_P s y : screenP s -> gridP y -> screenP (with_cur s y).
Proof. intros (H1 & H2 & H3 & H4) Hy. unfold with_cur. destruct (altmode s); unfold screenP; cbn [g alt pen spen with_g with_alt]; auto. Qed.

Lemma screenP_same s s' : g s' = g s -> alt s' = alt s -> pen s' = pen s -> spen s' = spen s ->
  screenP s -> screenP s'.
Proof. intros E1 E2 E3 E4 (H1 & H2 & H3 & H4). unfold screenP. rewrite E1, E2, E3, E4. auto. Qed.

Definition okp {A} (proj : A -> screen) (r : res A) : Prop := forall a, r = Ok a -> screenP (proj a).
Notation okp1 := (okp sid).
Notation okp2 := (okp (@fst screen N)).
Notation okpe := (okp (@fst screen (list event))).

Lemma okp_ok {A} (proj : A -> screen) a : screenP (proj a) -> okp proj (Ok a).
Proof. intros H a' E. inv E. exact H. Qed.

Lemma on_cur_okp s f : screenP s -> (forall y, f (cur s) = Ok y -> gridP y) -> okp1 (on_cur s f).
Proof.
  intros H Hf s' E. unfold on_cur in E. binv E as y Ey. inv E. unfold sid. apply with_cur_P; [exact H|now apply Hf].
Qed.

Lemma okp_lift1 {B} r (k : B) : okp1 r -> okp (@fst screen B) (do s1 <- r; Ok (s1, k)).
Proof. intros Hr a E. binv E as s1 E1. pose proof (Hr _ E1) as W. inv E. exact W. Qed.
Lemma okp_noev r : okp1 r -> okpe (noev r).
Proof. intros Hr a E. unfold noev in E. binv E as s1 E1. pose proof (Hr _ E1) as W. inv E. exact W. Qed.
Lemma okp_lift2 r (e : N -> list event) : okp2 r -> okpe (do '(s1, k) <- r; Ok (s1, e k)).
Proof. intros Hr a E. binv E as p1 E1. destruct p1 as [s1 k]. pose proof (Hr _ E1) as W. inv E. exact W. Qed.

Lemma screen_new_P rows cols cap : okp1 (screen_new rows cols cap).
Proof.
  intros s E. unfold screen_new in E. binv E as g0 Eg. binv E as a0 Ea. inv E.
  unfold screenP, sid; cbn [g alt pen spen].
  split; [apply (allocate_rows_P g0); eapply grid_new_P; eauto|].
  split; [eapply grid_new_P; eauto|]. split; exact Q_dflt.
Qed.

Lemma screen_set_size_P s rows cols : screenP s -> okp1 (screen_set_size s rows cols).
Proof.
  intros (H1 & H2 & H3 & H4) s' E. unfold screen_set_size in E. binv E as g1 Eg. binv E as a1 Ea. inv E.
  unfold screenP, sid; cbn [g alt pen spen with_g with_alt].
  split; [eapply grid_set_size_P; eauto|]. split; [eapply grid_set_size_P; eauto|]. split; assumption.
Qed.

Lemma screen_set_scrollback_P s k : screenP s -> screenP (screen_set_scrollback s k).
Proof.
  intros H. unfold screen_set_scrollback. apply with_cur_P; [exact H|].
  eapply same_cells_P; [apply grid_set_scrollback_cells|]. apply cur_P, H.
Qed.

Lemma enter_alternate_grid_P s : screenP s -> screenP (enter_alternate_grid s).
Proof.
  intros H. unfold enter_alternate_grid.
  pose proof (screen_set_scrollback_P s 0 H) as (H1 & H2 & H3 & H4). unfold screen_set_scrollback in *.
  unfold screenP; cbn [g alt pen spen with_alt with_altmode].
  split; [exact H1|]. split; [apply allocate_rows_P; exact H2|]. split; assumption.
Qed.

Lemma scr_save_cursor_P s : screenP s -> screenP (scr_save_cursor s).
Proof.
  intros H. unfold scr_save_cursor.
  pose proof (with_cur_P s (save_cursor (cur s)) H
                (same_cells_P _ _ (save_cursor_cells (cur s)) (cur_P _ H))) as (A & B & C & D).
  destruct H as (_ & _ & Hp & _).
  unfold screenP; cbn [with_spen g alt pen spen].
  split; [exact A|]. split; [exact B|]. split; [exact C|exact Hp].
Qed.

Lemma scr_restore_cursor_P s : screenP s -> screenP (scr_restore_cursor s).
Proof.
  intros H. unfold scr_restore_cursor. cbv zeta.
  pose proof (with_cur_P s (restore_cursor (cur s)) H
                (same_cells_P _ _ (restore_cursor_cells (cur s)) (cur_P _ H))) as (A & B & C & D).
  unfold screenP; cbn [with_pen g alt pen spen].
  split; [exact A|]. split; [exact B|]. split; exact D.
Qed.

Ltac cur_P_op L :=
  let H := fresh "H" in let y := fresh "y" in let Ey := fresh "Ey" in
  intros H; apply on_cur_okp; [exact H|]; intros y Ey; cbv beta in Ey;
  first [ eapply L; [exact Ey|apply cur_P, H]
        | inv Ey; apply L; apply cur_P, H ].

Ltac cells_op L :=
  let H := fresh "H" in let y := fresh "y" in let Ey := fresh "Ey" in
  intros H; apply on_cur_okp; [exact H|]; intros y Ey; cbv beta in Ey;
  first [ eapply same_cells_P; [eapply L; exact Ey|apply cur_P, H]
        | inv Ey; eapply same_cells_P; [apply L|apply cur_P, H] ].

Lemma scr_text_P s ch : screenP s -> okp1 (scr_text s ch).
Proof.
  intros H. unfold scr_text. apply on_cur_okp; [exact H|]. intros y Ey.
  eapply grid_text_P; eauto; [apply H|apply cur_P, H].
Qed.

Lemma scr_bs_P s : screenP s -> okp1 (scr_bs s). Proof. unfold scr_bs. cells_op col_dec_cells. Qed.
Lemma scr_tab_P s : screenP s -> okp1 (scr_tab s). Proof. unfold scr_tab. cells_op col_tab_cells. Qed.
Lemma scr_cr_P s : screenP s -> okp1 (scr_cr s). Proof. unfold scr_cr. cells_op col_set_cells. Qed.
Lemma scr_lf_P s : screenP s -> okp1 (scr_lf s).
Proof.
  intros H. apply on_cur_okp; [exact H|]. intros y Ey. binv Ey as p1 E1. destruct p1 as [x1 k]. inv Ey.
  eapply row_inc_scroll_P; eauto. apply cur_P, H.
Qed.
Lemma scr_ri_P s : screenP s -> okp1 (scr_ri s). Proof. unfold scr_ri. cur_P_op row_dec_scroll_P. Qed.
Lemma scr_ris_P s : okp1 (scr_ris s). Proof. apply screen_new_P. Qed.

Lemma scr_ich_P s n : screenP s -> okp1 (scr_ich s n). Proof. unfold scr_ich. cur_P_op insert_cells_P. Qed.
Lemma scr_cuu_P s n : screenP s -> okp1 (scr_cuu s n). Proof. unfold scr_cuu. cells_op row_dec_clamp_cells. Qed.
Lemma scr_cud_P s n : screenP s -> okp1 (scr_cud s n). Proof. unfold scr_cud. cells_op row_inc_clamp_cells. Qed.
Lemma scr_cuf_P s n : screenP s -> okp1 (scr_cuf s n). Proof. unfold scr_cuf. cells_op col_inc_clamp_cells. Qed.
Lemma scr_cub_P s n : screenP s -> okp1 (scr_cub s n). Proof. unfold scr_cub. cells_op col_dec_cells. Qed.
Lemma scr_il_P s n : screenP s -> okp1 (scr_il s n). Proof. unfold scr_il. cur_P_op insert_lines_P. Qed.
Lemma scr_dl_P s n : screenP s -> okp1 (scr_dl s n). Proof. unfold scr_dl. cur_P_op delete_lines_P. Qed.
Lemma scr_dch_P s n : screenP s -> okp1 (scr_dch s n). Proof. unfold scr_dch. cur_P_op delete_cells_P. Qed.
Lemma scr_su_P s n : screenP s -> okp1 (scr_su s n). Proof. unfold scr_su. cur_P_op scroll_up_P. Qed.
Lemma scr_sd_P s n : screenP s -> okp1 (scr_sd s n). Proof. unfold scr_sd. cur_P_op scroll_down_P. Qed.
Lemma scr_ech_P s n : screenP s -> okp1 (scr_ech s n).
Proof.
  intros H. unfold scr_ech. apply on_cur_okp; [exact H|]. intros y Ey.
  eapply erase_cells_P; eauto; [apply H|apply cur_P, H].
Qed.

Lemma scr_cnl_P s n : screenP s -> okp1 (scr_cnl s n).
Proof.
  intros H. apply on_cur_okp; [exact H|]. intros y Ey. binv Ey as x1 E1.
  eapply same_cells_P; [eapply row_inc_clamp_cells; eauto|].
  eapply same_cells_P; [eapply col_set_cells; eauto|]. apply cur_P, H.
Qed.
Lemma scr_cpl_P s n : screenP s -> okp1 (scr_cpl s n).
Proof.
  intros H. apply on_cur_okp; [exact H|]. intros y Ey. binv Ey as x1 E1. inv Ey.
  eapply same_cells_P; [apply row_dec_clamp_cells|].
  eapply same_cells_P; [eapply col_set_cells; eauto|]. apply cur_P, H.
Qed.
Lemma scr_cha_P s n : screenP s -> okp1 (scr_cha s n).
Proof.
  intros H. apply on_cur_okp; [exact H|]. intros y Ey. binv Ey as c Ec.
  eapply same_cells_P; [eapply col_set_cells; eauto|]. apply cur_P, H.
Qed.
Lemma scr_vpa_P s n : screenP s -> okp1 (scr_vpa s n).
Proof.
  intros H. apply on_cur_okp; [exact H|]. intros y Ey. binv Ey as r Er.
  eapply same_cells_P; [eapply row_set_cells; eauto|]. apply cur_P, H.
Qed.
Lemma scr_cup_P s r c : screenP s -> okp1 (scr_cup s r c).
Proof.
  intros H. apply on_cur_okp; [exact H|]. intros y Ey. binv Ey as r1 Er. binv Ey as c1 Ec.
  eapply same_cells_P; [eapply grid_set_pos_cells; eauto|]. apply cur_P, H.
Qed.
Lemma scr_decstbm_P s t b : screenP s -> okp1 (scr_decstbm s t b).
Proof.
  intros H. apply on_cur_okp; [exact H|]. intros y Ey. binv Ey as t1 Et. binv Ey as b1 Eb.
  eapply same_cells_P; [eapply set_scroll_region_cells; eauto|]. apply cur_P, H.
Qed.

Lemma scr_ed_P s m : screenP s -> okp2 (scr_ed s m).
Proof.
  intros H. unfold scr_ed. assert (Q (pen s)) as Hq by apply H.
  destruct (m =? 0).
  { apply okp_lift1. apply on_cur_okp; [exact H|]. intros y Ey. eapply erase_all_forward_P; eauto. apply cur_P, H. }
  destruct (m =? 1).
  { apply okp_lift1. apply on_cur_okp; [exact H|]. intros y Ey. eapply erase_all_backward_P; eauto. apply cur_P, H. }
  destruct (m =? 2).
  { apply okp_lift1. apply on_cur_okp; [exact H|]. intros y Ey. inv Ey. apply erase_all_P; auto. apply cur_P, H. }
  now apply okp_ok.
Qed.
Lemma scr_el_P s m : screenP s -> okp2 (scr_el s m).
Proof.
  intros H. unfold scr_el. assert (Q (pen s)) as Hq by apply H.
  destruct (m =? 0).
  { apply okp_lift1. apply on_cur_okp; [exact H|]. intros y Ey. eapply erase_row_forward_P; eauto. apply cur_P, H. }
  destruct (m =? 1).
  { apply okp_lift1. apply on_cur_okp; [exact H|]. intros y Ey. eapply erase_row_backward_P; eauto. apply cur_P, H. }
  destruct (m =? 2).
  { apply okp_lift1. apply on_cur_okp; [exact H|]. intros y Ey. eapply erase_row_P; eauto. apply cur_P, H. }
  now apply okp_ok.
Qed.

Lemma set_origin_P s m : screenP s -> okp1 (on_cur s (fun x => set_origin_mode x m)).
Proof. cells_op set_origin_mode_cells. Qed.

Ltac same_P H := apply okp_ok; cbn [fst]; revert H; apply screenP_same; reflexivity.

Lemma clear_mouse_mode_P s m : screenP s -> screenP (clear_mouse_mode s m).
Proof. intros H. unfold clear_mouse_mode. destruct (mouse_mode_eqb _ _); [|exact H]. revert H. apply screenP_same; reflexivity. Qed.
Lemma clear_mouse_enc_P s m : screenP s -> screenP (clear_mouse_enc s m).
Proof. intros H. unfold clear_mouse_enc. destruct (mouse_enc_eqb _ _); [|exact H]. revert H. apply screenP_same; reflexivity. Qed.

Lemma exit_alternate_grid_P s : screenP s -> screenP (exit_alternate_grid s).
Proof. apply screenP_same; reflexivity. Qed.

Lemma decset1_P s p : screenP s -> okp2 (decset1 s p).
Proof.
  intros H. unfold decset1. destruct (single p) as [n|]; [|now apply okp_ok].
  repeat match goal with
  | |- okp _ (if ?c then _ else _) => destruct c
  end;
  try (now apply okp_ok); try (same_P H).
  - apply okp_lift1. now apply set_origin_P.
  - apply okp_ok. cbn [fst]. now apply enter_alternate_grid_P.
  - (* 1049 *)
    pose proof (scr_save_cursor_P s H) as (H1 & H2 & H3 & H4).
    intros a E. binv E as a1 Ea. inv E. cbn [fst]. apply enter_alternate_grid_P.
    unfold screenP; cbn [g alt pen spen with_alt].
    split; [exact H1|]. split; [eapply grid_clear_P; eauto|]. split; assumption.
Qed.

Lemma decrst1_P s p : screenP s -> okp2 (decrst1 s p).
Proof.
  intros H. unfold decrst1. destruct (single p) as [n|]; [|now apply okp_ok].
  repeat match goal with
  | |- okp _ (if ?c then _ else _) => destruct c
  end;
  try (now apply okp_ok); try (same_P H);
  try (apply okp_ok; cbn [fst]; first [now apply clear_mouse_mode_P | now apply clear_mouse_enc_P]).
  - apply okp_lift1. now apply set_origin_P.
  - apply okp_ok. cbn [fst]. apply scr_restore_cursor_P. now apply exit_alternate_grid_P.
Qed.

Lemma fold_params_P f : (forall s p, screenP s -> okp2 (f s p)) ->
  forall ps s n, screenP s -> okp2 (fold_params f ps s n).
Proof.
  intros Hf. induction ps as [|p ps IH]; intros s n H; cbn [fold_params].
  - now apply okp_ok.
  - intros a E. binv E as p1 E1. destruct p1 as [s1 k]. eapply IH; [|exact E].
    apply (Hf s p H _ E1).
Qed.

Lemma scr_sgr_P s ps : screenP s -> screenP (fst (scr_sgr s ps)).
Proof.
  intros (H1 & H2 & H3 & H4). unfold scr_sgr. pose proof (Q_sgr ps (pen s) H3) as Hq.
  destruct (sgr ps (pen s)) as [a k]. cbn [fst] in *. unfold screenP; cbn [with_pen g alt pen spen]. auto.
Qed.

(* ---- perform ---- *)
Lemma do_execute_P s b : screenP s -> okpe (do_execute s b).
Proof.
  intros H. unfold do_execute.
  repeat match goal with |- okp _ (if ?c then _ else _) => destruct c end;
    try (now apply okp_ok); apply okp_lift1.
  - now apply scr_bs_P.
  - now apply scr_tab_P.
  - now apply scr_lf_P.
  - now apply scr_cr_P.
Qed.

Lemma do_print_P s c : screenP s -> okpe (do_print s c).
Proof.
  intros H. unfold do_print.
  destruct ((128 <=? c) && (c <? 160)); [now apply do_execute_P|].
  destruct (c =? REPL); [now apply okp_ok|].
  apply okp_lift1. now apply scr_text_P.
Qed.

Lemma do_esc_P s inter b : screenP s -> okpe (do_esc s inter b).
Proof.
  intros H. unfold do_esc. destruct inter; [|now apply okp_ok].
  repeat match goal with |- okp _ (if ?c then _ else _) => destruct c end;
    try (now apply okp_ok); try (same_P H).
  - apply okp_ok. now apply scr_save_cursor_P.
  - apply okp_ok. now apply scr_restore_cursor_P.
  - apply okp_lift1. now apply scr_ri_P.
  - apply okp_lift1. apply scr_ris_P.
Qed.

Lemma do_csi_P rz s ps inter c : screenP s -> okpe (do_csi rz s ps inter c).
Proof.
  intros H. unfold do_csi. destruct inter as [|i inter'].
  - repeat match goal with |- okp _ (if ?c then _ else _) => destruct c end;
      try (now apply okp_ok);
      try (apply okp_noev;
           first [ now apply scr_ich_P | now apply scr_cuu_P | now apply scr_cud_P | now apply scr_cuf_P
                 | now apply scr_cub_P | now apply scr_cnl_P | now apply scr_cpl_P | now apply scr_cha_P
                 | now apply scr_il_P | now apply scr_dl_P | now apply scr_dch_P | now apply scr_su_P
                 | now apply scr_sd_P | now apply scr_ech_P | now apply scr_vpa_P ]).
    + destruct (canon2 ps 1 1) as [r cc]. apply okp_noev. now apply scr_cup_P.
    + apply okp_lift2. now apply scr_ed_P.
    + apply okp_lift2. now apply scr_el_P.
    + pose proof (scr_sgr_P s ps H) as O. destruct (scr_sgr s ps) as [s1 k]. now apply okp_ok.
    + destruct (canon2 ps 1 (grows (cur s))) as [t b]. apply okp_noev. now apply scr_decstbm_P.
    + destruct ps as [|[|op sub] rest]; try (now apply okp_ok).
      destruct (op =? 8); [|now apply okp_ok].
      match goal with |- okp _ (if ?c then _ else _) => destruct c end; [|now apply okp_ok].
      apply okp_lift1. now apply screen_set_size_P.
  - destruct (i =? 63); [|now apply okp_ok].
    repeat match goal with |- okp _ (if ?c then _ else _) => destruct c end;
      try (now apply okp_ok); apply okp_lift2.
    + now apply scr_ed_P.
    + now apply scr_el_P.
    + apply fold_params_P; [apply decset1_P|exact H].
    + apply fold_params_P; [apply decrst1_P|exact H].
Qed.

Lemma do_osc_P s ps : screenP s -> screenP (fst (do_osc s ps)).
Proof.
  intros H. unfold do_osc. destruct ps as [|k [|v [|]]]; try exact H.
  repeat match goal with |- context[if ?c then _ else _] => destruct c end; exact H.
Qed.

Theorem perform_P rz s a s' evs : perform rz s a = Ok (s', evs) -> screenP s -> screenP s'.
Proof.
  intros E H.
  assert (okpe (perform rz s a)) as W.
  { destruct a; cbn [perform]; try (now apply okp_ok).
    - now apply do_print_P.
    - now apply do_execute_P.
    - apply okp_ok. now apply do_osc_P.
    - now apply do_csi_P.
    - now apply do_esc_P. }
  apply (W _ E).
Qed.

Lemma perform_all_P rz acts : forall s evs s' evs', perform_all rz s acts evs = Ok (s', evs') ->
  screenP s -> screenP s'.
Proof.
  induction acts as [|a r IH]; intros s evs s' evs' E H; cbn [perform_all] in E.
  - now inv E.
  - binv E as p1 E1. destruct p1 as [s1 e]. eapply IH; eauto. eapply perform_P; eauto.
Qed.

(* ---- the parser API ---- *)
Lemma process_P p bs q : process p bs = Ok q -> screenP (scr p) -> screenP (scr q).
Proof.
  rewrite process_unfold. intros E H. destruct (advance (vt p) _) as [v acts].
  binv E as p1 E1. destruct p1 as [s evs]. inv E. cbn [scr]. eapply perform_all_P; eauto.
Qed.

Lemma step_P p o q : step p o = Ok q -> screenP (scr p) -> screenP (scr q).
Proof.
  intros E H. destruct o; cbn [step] in E.
  - eapply process_P; eauto.
  - unfold write in E. binv E as p1 E1. destruct p1 as [q1 k]. inv E. binv E1 as q2 E2. inv E1.
    eapply process_P; eauto.
  - binv E as s Es. inv E. cbn [scr]. apply (screen_set_size_P _ _ _ H _ Es).
  - inv E. cbn [scr]. now apply screen_set_scrollback_P.
Qed.

Theorem run_P : forall ops p q, run p ops = Ok q -> screenP (scr p) -> screenP (scr q).
Proof.
  induction ops as [|o r IH]; intros p q E H; cbn [run] in E.
  - now inv E.
  - binv E as p1 E1. eapply IH; eauto. eapply step_P; eauto.
Qed.

Theorem parser_new_P rows cols cap rz p : parser_new rows cols cap rz = Ok p -> screenP (scr p).
Proof.
  unfold parser_new. intros E. binv E as s Es. inv E. cbn [scr]. apply (screen_new_P _ _ _ _ Es).
Qed.

End CellInv.
