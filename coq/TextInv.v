(* TextInv.v — Screen::text (grid_text) never panics on a grid satisfying the
   structural invariant and preserves it; cursor facts for zero-width and
   control characters; exact form of the plain width-1 case. *)
Require Import Tac ListN Utf8 Width Attrs Cell Row Grid Screen RowInv GridInv.
Open Scope N_scope.

(* ------------------------------------------------------------------ *)
(* 1. the width table only contains the codes 0..3                     *)
(* ------------------------------------------------------------------ *)
Fixpoint tree_ok (t : wtree) : bool :=
  match t with
  | WLeaf => true
  | WNode l _ _ code r => tree_ok l && (code <=? 3) && tree_ok r
  end.

Lemma wd_lookup_le3 t c : tree_ok t = true -> wd_lookup t c <= 3.
Proof.
  induction t as [|l IHl lo hi code r IHr]; cbn [tree_ok wd_lookup]; intros H.
  - lia.
  - apply andb_prop in H as [H Hr]. apply andb_prop in H as [Hl Hc].
    destruct (c <? lo); [now apply IHl|].
    destruct (hi <? c); [now apply IHr|].
    apply N.leb_le. exact Hc.
Qed.

Lemma wd_tree_ok : tree_ok wd_tree = true.
Proof. vm_compute. reflexivity. Qed.

Lemma wd_le2 : forall c w, wd c = Some w -> w <= 2.
Proof.
  intros c w. unfold wd.
  pose proof (wd_lookup_le3 wd_tree c wd_tree_ok) as L.
  revert L. generalize (wd_lookup wd_tree c). intros k L.
  destruct (N.eqb_spec k 3) as [E|E]; [discriminate|].
  intros H. injection H as <-. lia.
Qed.

(* ------------------------------------------------------------------ *)
(* list facts                                                          *)
(* ------------------------------------------------------------------ *)
Lemma set_at_twice {A} (l : list A) i a b : set_at (set_at l i a) i b = set_at l i b.
Proof.
  apply list_ext_get. intros k. rewrite !get_set_at, len_set_at.
  destruct (k =? i); reflexivity.
Qed.

Lemma set_at_same {A} (l : list A) i a : get l i = Some a -> set_at l i a = l.
Proof.
  intros H. apply list_ext_get. intros k. rewrite get_set_at.
  destruct (N.eqb_spec k i) as [->|]; [|reflexivity].
  pose proof (get_some_lt _ _ _ H). destruct (N.ltb_spec i (len l)); [now rewrite H|lia].
Qed.

(* ------------------------------------------------------------------ *)
(* col_wrap leaves room for the character                              *)
(* ------------------------------------------------------------------ *)
Lemma upd_row_fields x r f y : upd_row x r f = Ok y ->
  prow y = prow x /\ pcol y = pcol x /\ gcols y = gcols x /\ grows y = grows x.
Proof.
  unfold upd_row. intros E. bind_inv E. bind_inv E. inv E. cbn. auto.
Qed.

Lemma upd_cell_fields x r c f y : upd_cell x r c f = Ok y ->
  prow y = prow x /\ pcol y = pcol x /\ gcols y = gcols x /\ grows y = grows x.
Proof.
  unfold upd_cell. intros E. bind_inv E. bind_inv E. inv E. cbn. auto.
Qed.

Lemma col_wrap_room x w wrap y :
  col_wrap x w wrap = Ok y -> w <= gcols x -> grid_ok x -> pcol y + w <= gcols y.
Proof.
  intros E Hw H. okdims. unfold col_wrap in E. rewrite sub16_ok in E by lia. cbn [bind] in E.
  destruct (N.ltb_spec (gcols x - w) (pcol x)) as [Hlt|Hge]; [|inv E; lia].
  assert (grid_ok (with_pcol x 0)) as Gx0 by (apply ok_with_pos; auto; lia).
  destruct (row_inc_scroll_post (with_pcol x 0) 1 Gx0) as (z & k & Ez & Oz & Fz & Pz & Hk).
  rewrite Ez in E. cbn [bind] in E.
  pose proof (fr_cols _ _ Fz) as Cz. cbn in Cz, Pz.
  destruct (k <=? prow x).
  - bind_inv E. apply upd_row_fields in E as (_ & P & C & _). lia.
  - inv E. lia.
Qed.

(* no wrap when there is room *)
Lemma col_wrap_noop x w wrap : w <= gcols x -> pcol x + w <= gcols x -> col_wrap x w wrap = Ok x.
Proof.
  intros Hw Hp. unfold col_wrap. rewrite sub16_ok by lia. cbn [bind].
  destruct (N.ltb_spec (gcols x - w) (pcol x)); [lia|reflexivity].
Qed.

(* ------------------------------------------------------------------ *)
(* updating one cell without changing its flags                        *)
(* ------------------------------------------------------------------ *)
Definition keeps_flags (f : cell -> cell) : Prop :=
  forall cl, cwide (f cl) = cwide cl /\ ccont (f cl) = ccont cl.

Lemma cell_append_keeps ch : keeps_flags (cell_append ch).
Proof.
  intros cl. unfold cell_append.
  destruct (18 <=? cell_len cl); [auto|]. destruct (cell_len cl =? 0); cbn; auto.
Qed.

Lemma cell_get x r c : grid_ok x -> r < grows x -> c < gcols x ->
  exists rw cl, get (live x) r = Some rw /\ row_ok (gcols x) rw /\ get (cells rw) c = Some cl /\
                drawing_cell x r c = Some cl.
Proof.
  intros H Hr Hc. destruct (live_get x r H Hr) as (rw & Hg & Hrw).
  destruct (get_lt_some (cells rw) c) as (cl & Hcl); [destruct Hrw as [-> _]; exact Hc|].
  exists rw, cl. repeat split; try apply Hrw; auto.
  unfold drawing_cell, drawing_row, row_get. now rewrite Hg.
Qed.

Lemma upd_cell_keeps_post x r c f : grid_ok x -> r < grows x -> c < gcols x -> keeps_flags f ->
  exists y, upd_cell x r c f = Ok y /\ grid_ok y /\ frame x y /\ prow y = prow x /\ pcol y = pcol x.
Proof.
  intros H Hr Hc Hf. destruct (cell_get x r c H Hr Hc) as (rw & cl & Hg & [Hl Hok] & Hcl & _).
  unfold upd_cell, drawing_row, row_get. rewrite Hg. cbn [unwrap bind]. rewrite Hcl. cbn [unwrap bind].
  eexists; split; [reflexivity|]. split; [|split; [apply frame_live|cbn; auto]].
  pose proof H as (K & _ & _).
  apply ok_with_live; [exact H| |].
  - rewrite len_set_at. apply (gk_live _ K).
  - apply Forall_set_at; [apply (gk_rowsok _ K)|].
    split; cbn [row_set_cell cells]; [now rewrite len_set_at|].
    destruct (Hf cl) as [Fw Fc]. eapply cells_ok_same_flags; eauto.
Qed.

Definition same_cursor (x y : grid) : Prop := prow y = prow x /\ pcol y = pcol x.

Lemma append_at_post x r c ch : grid_ok x -> r < grows x -> c < gcols x ->
  exists y, append_at x r c ch = Ok y /\ grid_ok y /\ frame x y /\ same_cursor x y.
Proof.
  intros H Hr Hc. destruct (cell_get x r c H Hr Hc) as (rw & cl & Hg & [Hl Hok] & Hcl & Hd).
  unfold append_at. rewrite Hd. cbn [unwrap bind].
  destruct (ccont cl) eqn:Ec.
  - destruct (ok_cont_prev _ _ _ Hok Hcl Ec) as (Hi & d & Hdg & _).
    rewrite sub16_ok by lia. cbn [bind].
    destruct (cell_get x r (c - 1) H Hr) as (rw' & cl' & Hg' & _ & _ & Hd'); [lia|].
    rewrite Hd'. cbn [unwrap bind].
    destruct (upd_cell_keeps_post x r (c - 1) (cell_append ch) H Hr) as (y & E & Oy & Fy & Cy);
      [lia|apply cell_append_keeps|].
    exists y. auto.
  - destruct (upd_cell_keeps_post x r c (cell_append ch) H Hr Hc (cell_append_keeps ch)) as (y & E & Oy & Fy & Cy).
    exists y. auto.
Qed.

Lemma text_zero_post x ch : grid_ok x -> post x (text_zero x ch).
Proof.
  intros H. okdims. unfold text_zero.
  destruct (N.ltb_spec 0 (pcol x)).
  - rewrite sub16_ok by lia. cbn [bind].
    destruct (append_at_post x (prow x) (pcol x - 1) ch H Hr) as (y & E & Oy & Fy & _); [lia|].
    exists y. auto.
  - destruct (N.ltb_spec 0 (prow x)); [|apply post_ok; [exact H|apply frame_refl]].
    rewrite sub16_ok by lia. cbn [bind].
    destruct (live_get x (prow x - 1) H) as (rw & Hg & _); [lia|].
    unfold drawing_row. rewrite Hg. cbn [unwrap bind].
    destruct (wrapped rw); [|apply post_ok; [exact H|apply frame_refl]].
    rewrite sub16_ok by lia. cbn [bind].
    destruct (append_at_post x (prow x - 1) (gcols x - 1) ch H) as (y & E & Oy & Fy & _); [lia|lia|].
    exists y. auto.
Qed.

(* the cursor does not move, whatever the grid *)
Lemma append_at_cursor x r c ch y : append_at x r c ch = Ok y -> same_cursor x y.
Proof.
  unfold append_at. intros E. bind_inv E.
  destruct (ccont v).
  - bind_inv E. bind_inv E. apply upd_cell_fields in E as (P & Q & _). split; auto.
  - apply upd_cell_fields in E as (P & Q & _). split; auto.
Qed.

Lemma text_zero_cursor x ch y : text_zero x ch = Ok y -> same_cursor x y.
Proof.
  unfold text_zero. intros E.
  destruct (0 <? pcol x).
  - bind_inv E. eapply append_at_cursor; eauto.
  - destruct (0 <? prow x); [|inv E; split; reflexivity].
    bind_inv E. bind_inv E. destruct (wrapped v0); [|inv E; split; reflexivity].
    bind_inv E. eapply append_at_cursor; eauto.
Qed.

(* ------------------------------------------------------------------ *)
(* the grid with the cursor row replaced and the cursor column moved   *)
(* ------------------------------------------------------------------ *)
Definition put (x : grid) (cs : list cell) (w : bool) (pc : N) : grid :=
  with_pos (with_live x (set_at (live x) (prow x) (mkRow cs w))) (prow x) pc.

Lemma prow_put x cs w pc : prow (put x cs w pc) = prow x. Proof. reflexivity. Qed.
Lemma pcol_put x cs w pc : pcol (put x cs w pc) = pc. Proof. reflexivity. Qed.
Lemma gcols_put x cs w pc : gcols (put x cs w pc) = gcols x. Proof. reflexivity. Qed.

Lemma put_id x rw : get (live x) (prow x) = Some rw -> put x (cells rw) (wrapped rw) (pcol x) = x.
Proof.
  intros H. unfold put. replace (mkRow (cells rw) (wrapped rw)) with rw by (destruct rw; reflexivity).
  rewrite (set_at_same _ _ _ H). destruct x; reflexivity.
Qed.

Lemma drawing_row_put x cs w pc : prow x < len (live x) ->
  drawing_row (put x cs w pc) (prow x) = Some (mkRow cs w).
Proof.
  intros H. unfold drawing_row, put. cbn [live with_pos with_live]. rewrite get_set_at.
  destruct (N.eqb_spec (prow x) (prow x)); [|lia]. destruct (N.ltb_spec (prow x) (len (live x))); [reflexivity|lia].
Qed.

Lemma drawing_cell_put x cs w pc c : prow x < len (live x) ->
  drawing_cell (put x cs w pc) (prow x) c = get cs c.
Proof. intros H. unfold drawing_cell. rewrite drawing_row_put by exact H. reflexivity. Qed.

Lemma put_put_live x cs w pc r' :
  with_live (put x cs w pc) (set_at (live (put x cs w pc)) (prow x) r') = put x (cells r') (wrapped r') pc.
Proof.
  unfold put. cbn [live with_pos with_live]. rewrite set_at_twice.
  replace (mkRow (cells r') (wrapped r')) with r' by (destruct r'; reflexivity).
  destruct x; reflexivity.
Qed.

Lemma upd_cell_put x cs w pc c f cl : prow x < len (live x) -> get cs c = Some cl ->
  upd_cell (put x cs w pc) (prow x) c f = Ok (put x (set_at cs c (f cl)) w pc).
Proof.
  intros H Hc. unfold upd_cell. rewrite drawing_row_put by exact H. cbn [unwrap bind].
  unfold row_get. cbn [cells]. rewrite Hc. cbn [unwrap bind].
  rewrite put_put_live. reflexivity.
Qed.

Lemma upd_row_put_wrap x cs w pc b : prow x < len (live x) ->
  upd_row (put x cs w pc) (prow x) (fun rw => Ok (row_wrap b rw)) = Ok (put x cs b pc).
Proof.
  intros H. unfold upd_row. rewrite drawing_row_put by exact H. cbn [unwrap bind].
  rewrite put_put_live. reflexivity.
Qed.

Lemma col_inc_put x cs w pc : pc + 1 <= 65535 -> col_inc (put x cs w pc) 1 = put x cs w (pc + 1).
Proof.
  intros H. unfold col_inc, sat_add16, U16MAX. rewrite pcol_put. rewrite N.min_l by lia.
  destruct x; reflexivity.
Qed.

Lemma put_ok x cs w pc : grid_ok x -> len cs = gcols x -> cells_ok cs -> pc <= gcols x ->
  grid_ok (put x cs w pc) /\ frame x (put x cs w pc).
Proof.
  intros H Hl Hok Hpc. pose proof H as (K & Hr & Hc). split.
  - unfold put. apply ok_with_pos; cbn; auto.
    apply okc_with_live; [exact K| |].
    + rewrite len_set_at. apply (gk_live _ K).
    + apply Forall_set_at; [apply (gk_rowsok _ K)|]. split; assumption.
  - split; reflexivity.
Qed.

(* ------------------------------------------------------------------ *)
(* pairing invariant after placing a wide character                    *)
(* ------------------------------------------------------------------ *)
(* rewrite a flag of the base list at an index that lia can identify *)
Ltac flag_at f cs H :=
  repeat match goal with
  | |- context[f cs ?t] => rewrite (H t) by lia
  end.

Lemma cells_ok_place_wide B p W Y C n0 :
  cells_ok B -> p + 2 <= len B -> fw B p = false -> fc B p = false ->
  get B (p + 1) = Some n0 ->
  cwide W = true -> ccont W = false -> noflags Y -> cwide C = false -> ccont C = true ->
  cells_ok (set_at (if cwide n0 then set_at (set_at B p W) (p + 2) Y else set_at B p W) (p + 1) C).
Proof.
  intros Hok Hlen Fwp Fcp Hn Ww Wc [Yw Yc] Cw Cc.
  pose proof Hok as [H0 Hp Hb].
  assert (fc B (p + 1) = false) as Fc1 by (rewrite <- Hp; exact Fwp).
  pose proof (fw_get _ _ _ Hn) as Fw1.
  destruct (cwide n0) eqn:En.
  - destruct (ok_wide_next _ _ _ Hok Hn En) as (d & Hd & Dc & Dw & _).
    replace (p + 1 + 1) with (p + 2) in Hd by lia.
    assert (p + 2 < len B) as L2 by (eapply get_some_lt; eauto).
    pose proof (fw_get _ _ _ Hd) as Fw2. pose proof (fc_get _ _ _ Hd) as Fc2. rewrite Dw in Fw2. rewrite Dc in Fc2.
    assert (fc B (p + 3) = false) as Fc3 by (replace (p + 3) with (p + 2 + 1) by lia; rewrite <- Hp; exact Fw2).
    assert (forall t, t = p -> fw B t = false) as A1 by (intros; subst; auto).
    assert (forall t, t = p -> fc B t = false) as A2 by (intros; subst; auto).
    assert (forall t, t = p + 1 -> fc B t = false) as A3 by (intros; subst; auto).
    assert (forall t, t = p + 3 -> fc B t = false) as A4 by (intros; subst; auto).
    assert (forall t, t = p + 2 -> fw B t = false) as A5 by (intros; subst; auto).
    split.
    + rewrite !fc_set_at, !len_set_at. fcases; bclose.
    + intros k. pose proof (Hp k) as Pk. rewrite !fw_set_at, !fc_set_at, !len_set_at.
      fcases; bclose; flag_at fw B A1; flag_at fw B A5; flag_at fc B A2; flag_at fc B A3; flag_at fc B A4; bclose.
    + intros k. pose proof (Hb k) as Bk. rewrite !fw_set_at, !fc_set_at, !len_set_at.
      fcases; bclose.
  - assert (fc B (p + 2) = false) as Fc2 by (replace (p + 2) with (p + 1 + 1) by lia; rewrite <- Hp; exact Fw1).
    assert (forall t, t = p -> fw B t = false) as A1 by (intros; subst; auto).
    assert (forall t, t = p -> fc B t = false) as A2 by (intros; subst; auto).
    assert (forall t, t = p + 1 -> fc B t = false) as A3 by (intros; subst; auto).
    assert (forall t, t = p + 2 -> fc B t = false) as A4 by (intros; subst; auto).
    assert (forall t, t = p + 1 -> fw B t = false) as A5 by (intros; subst; auto).
    split.
    + rewrite !fc_set_at, !len_set_at. fcases; bclose.
    + intros k. pose proof (Hp k) as Pk. rewrite !fw_set_at, !fc_set_at, !len_set_at.
      fcases; bclose; flag_at fw B A1; flag_at fw B A5; flag_at fc B A2; flag_at fc B A3; flag_at fc B A4; bclose.
    + intros k. pose proof (Hb k) as Bk. rewrite !fw_set_at, !fc_set_at, !len_set_at.
      fcases; bclose.
Qed.

(* ------------------------------------------------------------------ *)
(* text_place                                                          *)
(* ------------------------------------------------------------------ *)
(* the part of text_place after the neighbouring halves were blanked *)
Definition place_tail (x2 : grid) (r c ch width : N) (a : attrs) : res grid :=
  do x3 <- upd_cell x2 r c (cell_set ch a);
  let x4 := col_inc x3 1 in
  if 1 <? width then
    let c' := pcol x4 in
    do n0 <- unwrap (drawing_cell x4 r c');
    do x5 <- (if cwide n0 then
                do cn <- add16 c' 1;
                do x5a <- upd_cell x4 r cn (cell_clear a);
                do lastc <- sub16 (gcols x4) 1;
                if cn =? lastc then upd_row x5a r (fun rw => Ok (row_wrap false rw)) else Ok x5a
              else Ok x4);
    do x6 <- upd_cell x5 r c' (fun cl => cell_set_cont true (cell_clear dflt cl));
    Ok (col_inc x6 1)
  else Ok x4.

Lemma text_place_eq x ch width a :
  text_place x ch width a =
  (do c0 <- unwrap (drawing_cell x (prow x) (pcol x));
   do x1 <- (if ccont c0 then do cm <- sub16 (pcol x) 1; upd_cell x (prow x) cm (cell_clear a) else Ok x);
   do c0' <- unwrap (drawing_cell x1 (prow x) (pcol x));
   do x2 <- (if cwide c0' then do cp <- add16 (pcol x) 1; upd_cell x1 (prow x) cp (cell_set 32 a) else Ok x1);
   place_tail x2 (prow x) (pcol x) ch width a).
Proof. reflexivity. Qed.

Lemma place_tail_put x cs1 w pc ch width a c0 :
  grid_ok x -> get cs1 pc = Some c0 -> len cs1 = gcols x ->
  (forall X, noflags X -> cells_ok (set_at cs1 pc X)) ->
  1 <= width <= 2 -> pc + width <= gcols x -> char_is_wide ch = (1 <? width) ->
  exists cs' w', place_tail (put x cs1 w pc) (prow x) pc ch width a = Ok (put x cs' w' (pc + width)) /\
                 len cs' = gcols x /\ cells_ok cs'.
Proof.
  intros H Hc0 Hl HA Hwd Hroom Hcw. okdims.
  assert (prow x < len (live x)) as Lr by (rewrite (gk_live _ K); exact Hr).
  unfold MAXDIM in *.
  unfold place_tail. rewrite (upd_cell_put x _ _ _ _ _ c0 Lr Hc0). cbn [bind]. cbv zeta.
  rewrite col_inc_put by lia. rewrite pcol_put, gcols_put.
  set (W := cell_set ch a c0).
  assert (cwide W = (1 <? width)) as Ww by exact Hcw.
  assert (ccont W = false) as Wc by reflexivity.
  destruct (N.ltb_spec 1 width) as [Hw2|Hw1].
  - (* width 2 *)
    assert (width = 2) as -> by lia. replace (pc + 2) with (pc + 1 + 1) by lia.
    set (B := set_at cs1 pc cell_new).
    assert (cells_ok B) as BOK by (apply HA; split; reflexivity).
    assert (len B = gcols x) as BL by (unfold B; now rewrite len_set_at).
    assert (set_at cs1 pc W = set_at B pc W) as EB by (unfold B; now rewrite set_at_twice).
    rewrite EB.
    assert (fw B pc = false) as Fwp.
    { unfold B. rewrite fw_set_at. fcases; reflexivity. }
    assert (fc B pc = false) as Fcp.
    { unfold B. rewrite fc_set_at. fcases; reflexivity. }
    destruct (get_lt_some B (pc + 1)) as (n0 & Hn0); [lia|].
    assert (get (set_at B pc W) (pc + 1) = Some n0) as Hn0'.
    { rewrite get_set_at. destruct (N.eqb_spec (pc + 1) pc); [lia|exact Hn0]. }
    rewrite drawing_cell_put by exact Lr. rewrite Hn0'. cbn [unwrap bind].
    pose proof (cells_ok_place_wide B pc W (cell_clear a cell_new)
                  (cell_set_cont true (cell_clear dflt cell_new)) n0 BOK ltac:(lia) Fwp Fcp Hn0 Ww Wc
                  (clear_noflags _ _) eq_refl eq_refl) as P.
    destruct (cwide n0) eqn:En.
    + destruct (ok_wide_next _ _ _ BOK Hn0 En) as (d & Hd & _).
      assert (pc + 1 + 1 < len B) as L2 by (eapply get_some_lt; eauto).
      rewrite add16_ok by lia. cbn [bind].
      assert (get (set_at B pc W) (pc + 1 + 1) = Some d) as Hd'.
      { rewrite get_set_at. destruct (N.eqb_spec (pc + 1 + 1) pc); [lia|exact Hd]. }
      rewrite (upd_cell_put x _ _ _ _ _ d Lr Hd'). cbn [bind].
      rewrite sub16_ok by lia. cbn [bind].
      set (cs5 := set_at (set_at B pc W) (pc + 1 + 1) (cell_clear a d)).
      assert (get cs5 (pc + 1) = Some n0) as Hn5.
      { unfold cs5. rewrite get_set_at. destruct (N.eqb_spec (pc + 1) (pc + 1 + 1)); [lia|exact Hn0']. }
      replace (pc + 2) with (pc + 1 + 1) in P by lia.
      destruct (pc + 1 + 1 =? gcols x - 1);
        [rewrite upd_row_put_wrap by exact Lr|]; cbn [bind];
        rewrite (upd_cell_put x _ _ _ _ _ n0 Lr Hn5); cbn [bind];
        rewrite col_inc_put by lia;
        (eexists _, _; split; [reflexivity|]; split; [unfold cs5; rewrite !len_set_at; exact BL|exact P]).
    + cbn [bind].
      rewrite (upd_cell_put x _ _ _ _ _ n0 Lr Hn0'). cbn [bind].
      rewrite col_inc_put by lia.
      eexists _, _; split; [reflexivity|]. split; [rewrite !len_set_at; exact BL|exact P].
  - (* width 1 *)
    assert (width = 1) as -> by lia.
    eexists _, _; split; [reflexivity|]. split; [now rewrite len_set_at|].
    apply HA. split; [exact Ww|exact Wc].
Qed.

Lemma ciw32 : char_is_wide 32 = false.
Proof. vm_compute. reflexivity. Qed.

Lemma text_place_put x cs w pc ch width a :
  grid_ok x -> len cs = gcols x -> cells_ok cs ->
  1 <= width <= 2 -> pc + width <= gcols x -> char_is_wide ch = (1 <? width) ->
  exists cs' w', text_place (put x cs w pc) ch width a = Ok (put x cs' w' (pc + width)) /\
                 len cs' = gcols x /\ cells_ok cs'.
Proof.
  intros H Hl Hok Hwd Hroom Hcw. okdims.
  assert (prow x < len (live x)) as Lr by (rewrite (gk_live _ K); exact Hr).
  unfold MAXDIM in *.
  rewrite text_place_eq, !prow_put, !pcol_put.
  rewrite drawing_cell_put by exact Lr.
  destruct (get_lt_some cs pc) as (c0 & Hc0); [lia|]. rewrite Hc0. cbn [unwrap bind].
  destruct (ccont c0) eqn:Ec.
  - (* on the second half of a wide character *)
    destruct (ok_cont_prev _ _ _ Hok Hc0 Ec) as (Hi & d & Hd & _ & _ & Cw).
    rewrite sub16_ok by lia. cbn [bind].
    rewrite (upd_cell_put x _ _ _ _ _ d Lr Hd). cbn [bind].
    rewrite drawing_cell_put by exact Lr.
    assert (get (set_at cs (pc - 1) (cell_clear a d)) pc = Some c0) as Hc1.
    { rewrite get_set_at. destruct (N.eqb_spec pc (pc - 1)); [lia|exact Hc0]. }
    rewrite Hc1. cbn [unwrap bind]. rewrite Cw. cbn [bind].
    apply (place_tail_put x _ w pc ch width a c0); auto.
    + now rewrite len_set_at.
    + intros X HX. eapply cells_ok_clear_cont; eauto. apply clear_noflags.
  - cbn [bind]. rewrite drawing_cell_put by exact Lr. rewrite Hc0. cbn [unwrap bind].
    destruct (cwide c0) eqn:Ew.
    + (* on the first half of a wide character *)
      destruct (ok_wide_next _ _ _ Hok Hc0 Ew) as (e & He & _).
      assert (pc + 1 < len cs) as L1 by (eapply get_some_lt; eauto).
      rewrite add16_ok by lia. cbn [bind].
      rewrite (upd_cell_put x _ _ _ _ _ e Lr He).
      apply (place_tail_put x _ w pc ch width a c0); auto.
      * rewrite get_set_at. destruct (N.eqb_spec pc (pc + 1)); [lia|exact Hc0].
      * now rewrite len_set_at.
      * intros X HX. eapply cells_ok_clear_wide; eauto. split; [exact ciw32|reflexivity].
    + apply (place_tail_put x _ w pc ch width a c0); auto.
      intros X HX. eapply cells_ok_clear_narrow; eauto. split; assumption.
Qed.

Lemma text_place_post x ch width a :
  grid_ok x -> 1 <= width <= 2 -> pcol x + width <= gcols x -> char_is_wide ch = (1 <? width) ->
  post x (text_place x ch width a).
Proof.
  intros H Hwd Hroom Hcw. okdims.
  destruct (live_get x (prow x) H Hr) as (rw & Hg & [Hl Hok]).
  destruct (text_place_put x (cells rw) (wrapped rw) (pcol x) ch width a H Hl Hok Hwd Hroom Hcw)
    as (cs' & w' & E & L' & O').
  rewrite (put_id x rw Hg) in E. rewrite E.
  destruct (put_ok x cs' w' (pcol x + width) H L' O' Hroom) as [G F].
  apply post_ok; assumption.
Qed.

(* ------------------------------------------------------------------ *)
(* 2. grid_text                                                        *)
(* ------------------------------------------------------------------ *)
Definition text_body (x : grid) (ch width : N) (a : attrs) : res grid :=
  if gcols x <? width then Ok x
  else
    do lim <- sub16 (gcols x) width;
    do wrap <- (if lim <? pcol x then
                  do lastc <- sub16 (gcols x) 1;
                  do lc <- unwrap (drawing_cell x (prow x) lastc);
                  Ok (has_contents lc || ccont lc)
                else Ok false);
    do x1 <- col_wrap x width wrap;
    if width =? 0 then text_zero x1 ch else text_place x1 ch width a.

Lemma grid_text_eq x ch a :
  grid_text x ch a =
  match wd ch, ch <? 256 with
  | None, true => Ok x
  | _, _ => text_body x ch (match wd ch with Some n => n | None => 1 end) a
  end.
Proof. reflexivity. Qed.

Lemma text_body_post x ch width a :
  grid_ok x -> width <= 2 -> char_is_wide ch = (1 <? width) -> post x (text_body x ch width a).
Proof.
  intros H Hw2 Hcw. okdims. unfold text_body.
  destruct (N.ltb_spec (gcols x) width) as [Hlt|Hge]; [apply post_ok; [exact H|apply frame_refl]|].
  rewrite sub16_ok by lia. cbn [bind].
  assert (exists wrap, (if gcols x - width <? pcol x then
                          do lastc <- sub16 (gcols x) 1;
                          do lc <- unwrap (drawing_cell x (prow x) lastc);
                          Ok (has_contents lc || ccont lc)
                        else Ok false) = Ok wrap) as (wrap & ->).
  { destruct (gcols x - width <? pcol x); [|eauto].
    rewrite sub16_ok by lia. cbn [bind].
    destruct (cell_get x (prow x) (gcols x - 1) H Hr) as (rw & cl & _ & _ & _ & ->); [lia|].
    cbn [unwrap bind]. eauto. }
  cbn [bind].
  pose proof (col_wrap_post x width wrap H Hge) as (x1 & E1 & O1 & F1).
  pose proof (col_wrap_room x width wrap x1 E1 Hge H) as Room.
  rewrite E1. cbn [bind].
  apply (post_weaken x x1); [exact F1|].
  destruct (N.eqb_spec width 0) as [->|Hnz].
  - now apply text_zero_post.
  - apply text_place_post; auto. lia.
Qed.

Theorem grid_text_post : forall x ch a, grid_ok x -> post x (grid_text x ch a).
Proof.
  intros x ch a H. rewrite grid_text_eq.
  destruct (wd ch) as [wv|] eqn:Ew.
  - assert (post x (text_body x ch wv a)) as P.
    { apply text_body_post; [exact H|eapply wd_le2; eauto|]. unfold char_is_wide. now rewrite Ew. }
    destruct (ch <? 256); exact P.
  - destruct (ch <? 256); [apply post_ok; [exact H|apply frame_refl]|].
    apply text_body_post; [exact H|lia|]. unfold char_is_wide. now rewrite Ew.
Qed.

(* ------------------------------------------------------------------ *)
(* 3. cursor facts                                                     *)
(* ------------------------------------------------------------------ *)
Theorem grid_text_zero_cursor : forall x ch a y,
  pcol x <= gcols x -> wd ch = Some 0 -> grid_text x ch a = Ok y ->
  prow y = prow x /\ pcol y = pcol x.
Proof.
  intros x ch a y Hp Ew E. rewrite grid_text_eq, Ew in E.
  assert (text_body x ch 0 a = Ok y) as E' by (destruct (ch <? 256); exact E). clear E.
  unfold text_body in E'.
  destruct (N.ltb_spec (gcols x) 0); [lia|].
  rewrite sub16_ok in E' by lia. cbn [bind] in E'.
  destruct (N.ltb_spec (gcols x - 0) (pcol x)); [lia|]. cbn [bind] in E'.
  rewrite col_wrap_noop in E' by lia. cbn [bind] in E'.
  destruct (N.eqb_spec 0 0); [|lia].
  apply text_zero_cursor in E'. exact E'.
Qed.

Corollary grid_text_zero_cursor_ok : forall x ch a y,
  grid_ok x -> wd ch = Some 0 -> grid_text x ch a = Ok y -> prow y = prow x /\ pcol y = pcol x.
Proof. intros x ch a y (_ & _ & Hc). now apply grid_text_zero_cursor. Qed.

Theorem grid_text_control : forall x ch a y,
  wd ch = None -> ch < 256 -> grid_text x ch a = Ok y -> y = x.
Proof.
  intros x ch a y Ew Hc E. rewrite grid_text_eq, Ew in E.
  destruct (N.ltb_spec ch 256); [|lia]. now inv E.
Qed.

(* without the bound on the cursor column the width-0 fact fails: the pending
   wrap is performed first *)
Definition cex_grid : grid :=
  mkGrid 2 1 0 2 0 0 [row_new 1; row_new 1] 0 1 false false [] 0 0.
Lemma grid_text_zero_cursor_needs_bound :
  wd 768 = Some 0 /\
  exists y, grid_text cex_grid 768 dflt = Ok y /\ prow y = 1 /\ pcol y = 0 /\
            prow cex_grid = 0 /\ pcol cex_grid = 2.
Proof. split; [vm_compute; reflexivity|]. eexists. split; [vm_compute; reflexivity|]. cbn. auto. Qed.

(* cursor after a placement that does not wrap *)
Theorem grid_text_nowrap_cursor : forall x ch a w y,
  grid_ok x -> wd ch = Some w -> 1 <= w -> pcol x + w <= gcols x -> grid_text x ch a = Ok y ->
  prow y = prow x /\ pcol y = pcol x + w.
Proof.
  intros x ch a w y H Ew Hw1 Hroom E. okdims.
  pose proof (wd_le2 _ _ Ew) as Hw2.
  rewrite grid_text_eq, Ew in E.
  assert (text_body x ch w a = Ok y) as E' by (destruct (ch <? 256); exact E). clear E.
  unfold text_body in E'.
  destruct (N.ltb_spec (gcols x) w); [lia|].
  rewrite sub16_ok in E' by lia. cbn [bind] in E'.
  destruct (N.ltb_spec (gcols x - w) (pcol x)); [lia|]. cbn [bind] in E'.
  rewrite col_wrap_noop in E' by lia. cbn [bind] in E'.
  destruct (N.eqb_spec w 0); [lia|].
  destruct (live_get x (prow x) H Hr) as (rw & Hg & [Hl Hok]).
  destruct (text_place_put x (cells rw) (wrapped rw) (pcol x) ch w a H Hl Hok) as (cs' & w' & E & _);
    [lia|lia|unfold char_is_wide; now rewrite Ew|].
  rewrite (put_id x rw Hg) in E. rewrite E in E'. inv E'. split; reflexivity.
Qed.

(* ------------------------------------------------------------------ *)
(* 4. the plain width-1 case, exactly                                  *)
(* ------------------------------------------------------------------ *)
Theorem grid_text_plain1 : forall x ch a rw c0,
  grid_ok x -> wd ch = Some 1 -> pcol x < gcols x ->
  get (live x) (prow x) = Some rw -> get (cells rw) (pcol x) = Some c0 ->
  cwide c0 = false -> ccont c0 = false ->
  grid_text x ch a =
  Ok (with_pcol (with_live x (set_at (live x) (prow x) (row_set_cell rw (pcol x) (cell_set ch a c0))))
                (pcol x + 1)).
Proof.
  intros x ch a rw c0 H Ew Hlt Hg Hc0 Cw Cc. okdims. unfold MAXDIM in *.
  assert (prow x < len (live x)) as Lr by (rewrite (gk_live _ K); exact Hr).
  rewrite grid_text_eq, Ew.
  assert (text_body x ch 1 a =
          Ok (with_pcol (with_live x (set_at (live x) (prow x) (row_set_cell rw (pcol x) (cell_set ch a c0))))
                        (pcol x + 1))) as E; [|destruct (ch <? 256); exact E].
  unfold text_body.
  destruct (N.ltb_spec (gcols x) 1); [lia|].
  rewrite sub16_ok by lia. cbn [bind].
  destruct (N.ltb_spec (gcols x - 1) (pcol x)); [lia|]. cbn [bind].
  rewrite col_wrap_noop by lia. cbn [bind].
  destruct (N.eqb_spec 1 0); [lia|].
  rewrite <- (put_id x rw Hg) at 1.
  rewrite text_place_eq, !prow_put, !pcol_put.
  rewrite drawing_cell_put by exact Lr. rewrite Hc0. cbn [unwrap bind]. rewrite Cc. cbn [bind].
  rewrite drawing_cell_put by exact Lr. rewrite Hc0. cbn [unwrap bind]. rewrite Cw. cbn [bind].
  unfold place_tail. rewrite (upd_cell_put x _ _ _ _ _ c0 Lr Hc0). cbn [bind]. cbv zeta.
  rewrite col_inc_put by lia.
  destruct (N.ltb_spec 1 1); [lia|].
  unfold put, row_set_cell. destruct x; reflexivity.
Qed.
