(* PrintSpec.v — exact case-by-case characterisation of Screen::text (grid_text)
   on a grid that satisfies the invariant (property C05). *)
Require Import Tac ListN Utf8 Width Attrs Cell Row Grid Screen Vte Perform RowInv GridInv.
Open Scope N_scope.

(* ================================================================== *)
(* 1. the width table only yields None, Some 0, Some 1, Some 2         *)
(* ================================================================== *)
Fixpoint codes_le3 (t : wtree) : bool :=
  match t with
  | WLeaf => true
  | WNode l _ _ code r => codes_le3 l && (code <=? 3) && codes_le3 r
  end.

Lemma wd_lookup_le3 t c : codes_le3 t = true -> wd_lookup t c <= 3.
Proof.
  induction t as [|l IHl lo hi code r IHr]; cbn [wd_lookup codes_le3]; intros H.
  - lia.
  - apply andb_prop in H as [H Hr]. apply andb_prop in H as [Hl Hc].
    destruct (c <? lo); [auto|]. destruct (hi <? c); [auto|]. lia.
Qed.

Lemma wd_tree_le3 : codes_le3 wd_tree = true.
Proof. vm_compute. reflexivity. Qed.

Lemma wd_range ch : wd ch = None \/ wd ch = Some 0 \/ wd ch = Some 1 \/ wd ch = Some 2.
Proof.
  unfold wd. pose proof (wd_lookup_le3 wd_tree ch wd_tree_le3) as H.
  destruct (N.eqb_spec (wd_lookup wd_tree ch) 3) as [E|E]; [now left|right].
  assert (wd_lookup wd_tree ch = 0 \/ wd_lookup wd_tree ch = 1 \/ wd_lookup wd_tree ch = 2) as [-> | [-> | ->]] by lia; auto.
Qed.

(* The ranges with code 3 (for which wd = None) are the C0/DEL/C1 controls only.  (unicode-width
   reports Some(3) for U+17D8 = 6104; since the W1 repair the crate clamps widths to 2 and the
   table generator emits min(width, 2), so wd 6104 = Some 2.) *)
Fixpoint ctl_ranges (t : wtree) : bool :=
  match t with
  | WLeaf => true
  | WNode l lo hi code r =>
    ctl_ranges l && (negb (code =? 3) || (hi <? 160) || ((lo =? 6104) && (hi =? 6104))) && ctl_ranges r
  end.

Lemma wd_lookup_ctl t c : ctl_ranges t = true -> wd_lookup t c = 3 -> c < 160 \/ c = 6104.
Proof.
  induction t as [|l IHl lo hi code r IHr]; cbn [wd_lookup ctl_ranges]; intros H E.
  - lia.
  - apply andb_prop in H as [H Hr]. apply andb_prop in H as [Hl Hc].
    destruct (N.ltb_spec c lo); [auto|]. destruct (N.ltb_spec hi c); [auto|].
    subst code. cbn in Hc. lia.
Qed.

Lemma wd_none_cases ch : wd ch = None -> ch < 160 \/ ch = 6104.
Proof.
  unfold wd. destruct (N.eqb_spec (wd_lookup wd_tree ch) 3) as [E|E]; [|discriminate].
  intros _. apply (wd_lookup_ctl wd_tree ch); [vm_compute; reflexivity|exact E].
Qed.

Lemma wd_6104 : wd 6104 = Some 2.
Proof. vm_compute. reflexivity. Qed.

(* the display width used by Screen::text *)
Definition cwidth (ch : N) : N := match wd ch with Some n => n | None => 1 end.

Lemma cwidth_le2 ch : cwidth ch <= 2.
Proof. unfold cwidth. destruct (wd_range ch) as [-> | [-> | [-> | ->]]]; lia. Qed.

Lemma char_is_wide_cwidth ch : char_is_wide ch = (1 <? cwidth ch).
Proof. unfold char_is_wide, cwidth. destruct (wd ch); reflexivity. Qed.

Lemma space_not_wide : char_is_wide 32 = false.
Proof. vm_compute. reflexivity. Qed.

(* ================================================================== *)
(* 2. vocabulary: rows and cells of a grid, replacing one row          *)
(* ================================================================== *)
(* live row r / cell (r, c) of the drawing grid; total functions, the defaults are never used on a
   grid that satisfies grid_ok (lemmas lrow_get, lcell_get) *)
Definition lrow (x : grid) (r : N) : row :=
  match get (live x) r with Some rw => rw | None => new_row x end.
Definition lcell (x : grid) (r c : N) : cell :=
  match get (cells (lrow x r)) c with Some cl => cl | None => cell_new end.
Definition set_row (x : grid) (r : N) (rw : row) : grid := with_live x (set_at (live x) r rw).

Lemma lrow_get x r : grid_ok x -> r < grows x ->
  get (live x) r = Some (lrow x r) /\ row_ok (gcols x) (lrow x r).
Proof.
  intros H Hr. destruct (live_get x r H Hr) as (rw & Hg & Hrw). unfold lrow. rewrite Hg. auto.
Qed.

Lemma lcell_get x r c : grid_ok x -> r < grows x -> c < gcols x ->
  get (cells (lrow x r)) c = Some (lcell x r c).
Proof.
  intros H Hr Hc. destruct (lrow_get x r H Hr) as (_ & Hl & _).
  destruct (get_lt_some (cells (lrow x r)) c) as (cl & Hg); [lia|]. unfold lcell. rewrite Hg. reflexivity.
Qed.

Lemma drawing_cell_lcell x r c : grid_ok x -> r < grows x -> c < gcols x ->
  drawing_cell x r c = Some (lcell x r c).
Proof.
  intros H Hr Hc. unfold drawing_cell, drawing_row, row_get.
  destruct (lrow_get x r H Hr) as (-> & _). now apply lcell_get.
Qed.

Lemma set_at_set_at {A} (l : list A) i a b : set_at (set_at l i a) i b = set_at l i b.
Proof.
  apply list_ext_get. intros k. rewrite !get_set_at, len_set_at.
  destruct (k =? i); reflexivity.
Qed.

Lemma set_at_self {A} (l : list A) i a : get l i = Some a -> set_at l i a = l.
Proof.
  intros H. apply list_ext_get. intros k. rewrite get_set_at.
  destruct (N.eqb_spec k i) as [->|]; [|reflexivity].
  pose proof (get_some_lt _ _ _ H). destruct (N.ltb_spec i (len l)); [now rewrite H|lia].
Qed.

Lemma set_at_comm {A} (l : list A) i j a b : i <> j -> set_at (set_at l i a) j b = set_at (set_at l j b) i a.
Proof.
  intros Hn. apply list_ext_get. intros k. rewrite !get_set_at, !len_set_at.
  destruct (N.eqb_spec k j), (N.eqb_spec k i); try reflexivity. lia.
Qed.

Lemma with_live_self x : with_live x (live x) = x.
Proof. destruct x; reflexivity. Qed.

Lemma set_row_self x r : grid_ok x -> r < grows x -> set_row x r (lrow x r) = x.
Proof.
  intros H Hr. destruct (lrow_get x r H Hr) as (Hg & _). unfold set_row.
  rewrite (set_at_self _ _ _ Hg). apply with_live_self.
Qed.

Lemma lrow_set_row x r rw : r < len (live x) -> lrow (set_row x r rw) r = rw.
Proof.
  intros Hr. unfold lrow, set_row. cbn [live with_live]. rewrite get_set_at.
  destruct (N.eqb_spec r r); [|lia]. destruct (N.ltb_spec r (len (live x))); [reflexivity|lia].
Qed.

Lemma lrow_set_row_other x r rw r' : r' <> r -> lrow (set_row x r rw) r' = lrow x r'.
Proof.
  intros Hn. unfold lrow, set_row. cbn [live with_live]. rewrite get_set_at.
  destruct (N.eqb_spec r' r); [lia|]. reflexivity.
Qed.

Lemma set_row_set_row x r a b : set_row (set_row x r a) r b = set_row x r b.
Proof. unfold set_row. cbn [live with_live]. rewrite set_at_set_at. destruct x; reflexivity. Qed.

(* the grid x with its current row replaced by rw and the cursor column set to pc *)
Definition G (x : grid) (rw : row) (pc : N) : grid := with_pcol (set_row x (prow x) rw) pc.

Lemma G_self x : grid_ok x -> G x (lrow x (prow x)) (pcol x) = x.
Proof.
  intros H. unfold G. rewrite set_row_self; [destruct x; reflexivity|exact H|apply H].
Qed.

Lemma G_drawing_cell x rw pc j : prow x < len (live x) ->
  drawing_cell (G x rw pc) (prow x) j = get (cells rw) j.
Proof.
  intros Hr. unfold drawing_cell, drawing_row, G, set_row. cbn [live with_pcol with_pos with_live prow].
  rewrite get_set_at. destruct (N.eqb_spec (prow x) (prow x)); [|lia].
  destruct (N.ltb_spec (prow x) (len (live x))); [reflexivity|lia].
Qed.

Lemma G_upd_cell x rw pc j f cl : prow x < len (live x) -> get (cells rw) j = Some cl ->
  upd_cell (G x rw pc) (prow x) j f = Ok (G x (row_set_cell rw j (f cl)) pc).
Proof.
  intros Hr Hg. unfold upd_cell, drawing_row, G, set_row. cbn [live with_pcol with_pos with_live prow].
  rewrite get_set_at. destruct (N.eqb_spec (prow x) (prow x)); [|lia].
  destruct (N.ltb_spec (prow x) (len (live x))); [|lia]. cbn [unwrap bind]. unfold row_get. rewrite Hg.
  cbn [unwrap bind]. rewrite set_at_set_at. reflexivity.
Qed.

Lemma G_upd_row x rw pc f rw' : prow x < len (live x) -> f rw = Ok rw' ->
  upd_row (G x rw pc) (prow x) f = Ok (G x rw' pc).
Proof.
  intros Hr Hf. unfold upd_row, drawing_row, G, set_row. cbn [live with_pcol with_pos with_live prow].
  rewrite get_set_at. destruct (N.eqb_spec (prow x) (prow x)); [|lia].
  destruct (N.ltb_spec (prow x) (len (live x))); [|lia]. cbn [unwrap bind]. rewrite Hf.
  cbn [bind]. rewrite set_at_set_at. reflexivity.
Qed.

Lemma G_col_inc x rw pc : col_inc (G x rw pc) 1 = G x rw (sat_add16 pc 1).
Proof. reflexivity. Qed.
Lemma G_pcol x rw pc : pcol (G x rw pc) = pc. Proof. reflexivity. Qed.
Lemma G_prow x rw pc : prow (G x rw pc) = prow x. Proof. reflexivity. Qed.
Lemma G_gcols x rw pc : gcols (G x rw pc) = gcols x. Proof. reflexivity. Qed.

Lemma G_upd_cell_const x rw pc j f v : prow x < len (live x) -> j < len (cells rw) -> (forall cl, f cl = v) ->
  upd_cell (G x rw pc) (prow x) j f = Ok (G x (row_set_cell rw j v) pc).
Proof.
  intros Hr Hj Hf. destruct (get_lt_some _ _ Hj) as (cl & Hg).
  rewrite (G_upd_cell x rw pc j f cl Hr Hg), Hf. reflexivity.
Qed.

Lemma get_flags cs j : j < len cs -> exists cl, get cs j = Some cl /\ cwide cl = fw cs j /\ ccont cl = fc cs j.
Proof.
  intros Hj. destruct (get_lt_some _ _ Hj) as (cl & Hg). exists cl.
  rewrite (fw_get _ _ _ Hg), (fc_get _ _ _ Hg). auto.
Qed.

(* ================================================================== *)
(* 3. placing a character of width 1 or 2 that fits (text_place)       *)
(* ================================================================== *)
Definition blank (a : attrs) : cell := mkCell [] false false a.                    (* = cell_clear a _ *)
Definition glyph (ch : N) (a : attrs) : cell := mkCell [ch] (char_is_wide ch) false a.   (* = cell_set ch a _ *)
Definition cont_cell : cell := mkCell [] false true dflt.                          (* second half of a wide character *)

(* the row after printing ch (of width w) with pen a at column c; the conditions refer to the flags of
   the row BEFORE printing *)
Definition place_row (rw : row) (c ch w : N) (a : attrs) : row :=
  let cs := cells rw in
  let r1 := if fc cs c then row_set_cell rw (c - 1) (blank a) else rw in
  let r2 := if fw cs c then row_set_cell r1 (c + 1) (glyph 32 a) else r1 in
  let r3 := row_set_cell r2 c (glyph ch a) in
  if 1 <? w then
    let r4 := if fw cs (c + 1) then
                let r4a := row_set_cell r3 (c + 2) (blank a) in
                if c + 2 =? len cs - 1 then row_wrap false r4a else r4a
              else r3 in
    row_set_cell r4 (c + 1) cont_cell
  else r3.

Lemma text_place_G x rw c ch w a :
  prow x < len (live x) -> cells_ok (cells rw) -> len (cells rw) = gcols x -> gcols x <= MAXDIM ->
  (w = 1 \/ w = 2) -> c + w <= gcols x ->
  text_place (G x rw c) ch w a = Ok (G x (place_row rw c ch w a) (c + w)).
Proof.
  intros Hr Hok Hl Hmax Hw Hfit. unfold MAXDIM in Hmax.
  assert (c < len (cells rw)) as Hc by lia.
  unfold text_place. cbv zeta. rewrite !G_prow, !G_pcol.
  (* cell under the cursor *)
  rewrite G_drawing_cell by exact Hr.
  destruct (get_flags _ _ Hc) as (c0 & Hc0 & W0 & C0). rewrite Hc0. cbn [unwrap bind]. rewrite C0.
  (* step A *)
  set (r1 := if fc (cells rw) c then row_set_cell rw (c - 1) (blank a) else rw).
  assert ((if fc (cells rw) c then do cm <- sub16 c 1; upd_cell (G x rw c) (prow x) cm (cell_clear a) else Ok (G x rw c))
          = Ok (G x r1 c)) as ->.
  { unfold r1. destruct (fc (cells rw) c) eqn:Efc; [|reflexivity].
    destruct (ok_cont_prev _ _ _ Hok Hc0 C0) as (Hpos & _).
    rewrite sub16_ok by lia. cbn [bind]. apply G_upd_cell_const; [exact Hr|lia|reflexivity]. }
  cbn [bind].
  assert (len (cells r1) = len (cells rw)) as L1.
  { unfold r1. destruct (fc (cells rw) c); [apply len_set_at|reflexivity]. }
  assert (get (cells r1) c = Some c0) as G1.
  { unfold r1. destruct (fc (cells rw) c) eqn:Efc; [|exact Hc0].
    destruct (ok_cont_prev _ _ _ Hok Hc0 C0) as (Hpos & _).
    cbn [cells row_set_cell]. rewrite get_set_at. destruct (N.eqb_spec c (c - 1)); [lia|exact Hc0]. }
  rewrite G_drawing_cell by exact Hr. rewrite G1. cbn [unwrap bind]. rewrite W0.
  (* step B *)
  set (r2 := if fw (cells rw) c then row_set_cell r1 (c + 1) (glyph 32 a) else r1).
  assert ((if fw (cells rw) c then do cp <- add16 c 1; upd_cell (G x r1 c) (prow x) cp (cell_set 32 a) else Ok (G x r1 c))
          = Ok (G x r2 c)) as ->.
  { unfold r2. destruct (fw (cells rw) c) eqn:Efw; [|reflexivity].
    destruct (ok_wide_next _ _ _ Hok Hc0 W0) as (d & Hd & _). apply get_some_lt in Hd.
    rewrite add16_ok by lia. cbn [bind]. apply G_upd_cell_const; [exact Hr|lia|reflexivity]. }
  cbn [bind].
  assert (len (cells r2) = len (cells rw)) as L2.
  { unfold r2. destruct (fw (cells rw) c); [cbn [cells row_set_cell]; rewrite len_set_at|]; exact L1. }
  rewrite (G_upd_cell_const x r2 c c _ (glyph ch a)); [|exact Hr|lia|reflexivity]. cbn [bind].
  rewrite G_col_inc.
  assert (sat_add16 c 1 = c + 1) as -> by (unfold sat_add16, U16MAX; lia).
  set (r3 := row_set_cell r2 c (glyph ch a)).
  assert (len (cells r3) = len (cells rw)) as L3 by (unfold r3; cbn [cells row_set_cell]; rewrite len_set_at; exact L2).
  unfold place_row. cbv zeta. fold r1. fold r2. fold r3.
  destruct Hw as [-> | ->].
  { (* narrow *) change (1 <? 1) with false. cbv iota. reflexivity. }
  change (1 <? 2) with true. cbv iota. rewrite G_pcol.
  assert (fw (cells r3) (c + 1) = fw (cells rw) (c + 1)) as F3.
  { destruct Hok as [H0 Hp Hb]. pose proof (Hp c) as Pc. pose proof (Hb (c + 1)) as Bc.
    unfold r3, r2, r1.
    destruct (fc (cells rw) c) eqn:Efc, (fw (cells rw) c) eqn:Efw; cbn [cells row_set_cell];
      rewrite ?fw_set_at, ?len_set_at; fcases; try reflexivity.
    all: rewrite <- Pc, andb_true_r in Bc; rewrite Bc; apply space_not_wide. }
  assert (c + 1 < len (cells r3)) as Hc1 by lia.
  rewrite G_drawing_cell by exact Hr.
  destruct (get_flags _ _ Hc1) as (n0 & Hn0 & Wn & _). rewrite Hn0. cbn [unwrap bind]. rewrite Wn, F3.
  set (r4 := if fw (cells rw) (c + 1) then
               if c + 2 =? len (cells rw) - 1 then row_wrap false (row_set_cell r3 (c + 2) (blank a))
               else row_set_cell r3 (c + 2) (blank a)
             else r3).
  assert ((if fw (cells rw) (c + 1) then
             do cn <- add16 (c + 1) 1;
             do x5a <- upd_cell (G x r3 (c + 1)) (prow x) cn (cell_clear a);
             do lastc <- sub16 (gcols (G x r3 (c + 1))) 1;
             if cn =? lastc then upd_row x5a (prow x) (fun rw0 : row => Ok (row_wrap false rw0)) else Ok x5a
           else Ok (G x r3 (c + 1))) = Ok (G x r4 (c + 1))) as ->.
  { unfold r4. destruct (fw (cells rw) (c + 1)) eqn:Efw1; [|reflexivity].
    apply fw_true in Efw1 as (d & Hd & Dw).
    destruct (ok_wide_next _ _ _ Hok Hd Dw) as (e & He & _). apply get_some_lt in He.
    rewrite add16_ok by lia. cbn [bind].
    rewrite (G_upd_cell_const x r3 (c + 1) (c + 1 + 1) _ (blank a)); [|exact Hr|lia|reflexivity]. cbn [bind].
    rewrite G_gcols, sub16_ok by lia. cbn [bind].
    replace (c + 1 + 1) with (c + 2) by lia. rewrite <- Hl.
    destruct (c + 2 =? len (cells rw) - 1); [|reflexivity].
    apply G_upd_row; [exact Hr|reflexivity]. }
  cbn [bind].
  assert (len (cells r4) = len (cells rw)) as L4.
  { unfold r4. destruct (fw (cells rw) (c + 1)); [|exact L3].
    destruct (c + 2 =? len (cells rw) - 1); cbn [cells row_set_cell row_wrap]; rewrite len_set_at; exact L3. }
  rewrite (G_upd_cell_const x r4 (c + 1) (c + 1) _ cont_cell); [|exact Hr|lia|reflexivity]. cbn [bind].
  rewrite G_col_inc.
  assert (sat_add16 (c + 1) 1 = c + 2) as -> by (unfold sat_add16, U16MAX; lia).
  reflexivity.
Qed.


(* pointwise description of place_row *)
Definition placed (cs : list cell) (c ch w : N) (a : attrs) (j : N) : option cell :=
  if j =? c then Some (glyph ch a)
  else if (j =? c + 1) && (1 <? w) then Some cont_cell
  else if (j + 1 =? c) && fc cs c then Some (blank a)
  else if (j =? c + 1) && fw cs c then Some (glyph 32 a)
  else if (j =? c + 2) && (1 <? w) && fw cs (c + 1) then Some (blank a)
  else get cs j.

Lemma place_row_len rw c ch w a : len (cells (place_row rw c ch w a)) = len (cells rw).
Proof.
  unfold place_row. cbv zeta.
  destruct (1 <? w), (fc (cells rw) c), (fw (cells rw) c), (fw (cells rw) (c + 1)), (c + 2 =? len (cells rw) - 1);
    cbn [cells row_set_cell row_wrap]; rewrite ?len_set_at; reflexivity.
Qed.

Lemma place_row_get rw c ch w a j : cells_ok (cells rw) -> (w = 1 \/ w = 2) -> c + w <= len (cells rw) ->
  get (cells (place_row rw c ch w a)) j = placed (cells rw) c ch w a j.
Proof.
  intros Hok Hw Hfit. unfold place_row, placed. cbv zeta.
  pose proof (ok_pair _ Hok c) as Pc. pose proof (ok_pair _ Hok (c + 1)) as Pc1.
  pose proof (ok_both _ Hok c) as Bc. pose proof (ok_both _ Hok (c + 1)) as Bc1.
  pose proof (ok_first _ Hok) as P0.
  destruct Hw as [-> | ->]; [change (1 <? 1) with false|change (1 <? 2) with true]; cbv iota.
  - destruct (fc (cells rw) c) eqn:Efc, (fw (cells rw) c) eqn:Efw;
      cbn [cells row_set_cell row_wrap]; rewrite ?get_set_at, ?len_set_at; fcases; cbn [andb]; try reflexivity.
    all: try (rewrite fc_out in Pc by lia; discriminate).
  - destruct (fc (cells rw) c) eqn:Efc, (fw (cells rw) c) eqn:Efw, (fw (cells rw) (c + 1)) eqn:Efw1;
      try discriminate;
      try destruct (N.eqb_spec (c + 2) (len (cells rw) - 1));
      cbn [cells row_set_cell row_wrap]; rewrite ?get_set_at, ?len_set_at; fcases; cbn [andb]; try reflexivity.
    all: try (rewrite fc_out in Pc1 by lia; discriminate).
Qed.

Lemma place_row_wrapped rw c ch w a :
  wrapped (place_row rw c ch w a) =
  if (1 <? w) && fw (cells rw) (c + 1) && (c + 2 =? len (cells rw) - 1) then false else wrapped rw.
Proof.
  unfold place_row. cbv zeta.
  destruct (1 <? w), (fc (cells rw) c), (fw (cells rw) c), (fw (cells rw) (c + 1)), (c + 2 =? len (cells rw) - 1);
    reflexivity.
Qed.



(* the cells that printing at column c may touch *)
Definition touched (cs : list cell) (c w j : N) : Prop :=
  j = c \/ (j = c + 1 /\ (w = 2 \/ fw cs c = true)) \/ (j + 1 = c /\ fc cs c = true) \/
  (j = c + 2 /\ w = 2 /\ fw cs (c + 1) = true).

Lemma placed_untouched cs c ch w a j : (w = 1 \/ w = 2) -> ~ touched cs c w j -> placed cs c ch w a j = get cs j.
Proof.
  intros Hw Hn. unfold touched in Hn. unfold placed.
  destruct Hw as [-> | ->]; [change (1 <? 1) with false|change (1 <? 2) with true];
  destruct (N.eqb_spec j c); [tauto| |tauto|];
  destruct (N.eqb_spec j (c + 1)), (N.eqb_spec (j + 1) c), (N.eqb_spec j (c + 2)),
           (fc cs c), (fw cs c), (fw cs (c + 1)); cbn [andb]; try reflexivity; try lia; exfalso; tauto.
Qed.

(* grid level *)
Definition place (x : grid) (ch w : N) (a : attrs) : grid :=
  with_pcol (set_row x (prow x) (place_row (lrow x (prow x)) (pcol x) ch w a)) (pcol x + w).

Theorem text_place_eq x ch w a : grid_ok x -> (w = 1 \/ w = 2) -> pcol x + w <= gcols x ->
  text_place x ch w a = Ok (place x ch w a).
Proof.
  intros H Hw Hfit. okdims.
  destruct (lrow_get x (prow x) H Hr) as (Hg & Hl & Hok).
  transitivity (text_place (G x (lrow x (prow x)) (pcol x)) ch w a); [now rewrite G_self|].
  apply text_place_G; auto; try lia. rewrite (gk_live _ K). exact Hr.
Qed.

Lemma grid_text_unfold x ch a : ~ (wd ch = None /\ ch < 256) ->
  grid_text x ch a =
  if gcols x <? cwidth ch then Ok x
  else
    do lim <- sub16 (gcols x) (cwidth ch);
    do wrap <- (if lim <? pcol x then
                  do lastc <- sub16 (gcols x) 1;
                  do lc <- unwrap (drawing_cell x (prow x) lastc);
                  Ok (has_contents lc || ccont lc)
                else Ok false);
    do x1 <- col_wrap x (cwidth ch) wrap;
    if cwidth ch =? 0 then text_zero x1 ch else text_place x1 ch (cwidth ch) a.
Proof.
  intros Hn. unfold grid_text, cwidth.
  destruct (wd ch) eqn:E; [reflexivity|].
  destruct (N.ltb_spec ch 256); [exfalso; auto|reflexivity].
Qed.

Lemma col_wrap_fits x w b : w <= gcols x -> pcol x + w <= gcols x -> col_wrap x w b = Ok x.
Proof.
  intros Hw Hfit. unfold col_wrap. rewrite sub16_ok by lia. cbn [bind].
  destruct (N.ltb_spec (gcols x - w) (pcol x)); [lia|reflexivity].
Qed.

(* case 1: the character fits in the columns left *)
Theorem grid_text_fits x ch a : grid_ok x -> ~ (wd ch = None /\ ch < 256) ->
  1 <= cwidth ch -> pcol x + cwidth ch <= gcols x ->
  grid_text x ch a = Ok (place x ch (cwidth ch) a).
Proof.
  intros H Hn Hw Hfit. okdims. pose proof (cwidth_le2 ch) as Hw2.
  rewrite grid_text_unfold by exact Hn.
  destruct (N.ltb_spec (gcols x) (cwidth ch)); [lia|].
  rewrite sub16_ok by lia. cbn [bind].
  destruct (N.ltb_spec (gcols x - cwidth ch) (pcol x)); [lia|]. cbn [bind].
  rewrite col_wrap_fits by lia. cbn [bind].
  destruct (N.eqb_spec (cwidth ch) 0); [lia|].
  apply text_place_eq; [exact H|lia|exact Hfit].
Qed.

(* case 0 *)
Theorem grid_text_control x ch a : wd ch = None -> ch < 256 -> grid_text x ch a = Ok x.
Proof.
  intros E Hc. unfold grid_text. rewrite E. destruct (N.ltb_spec ch 256); [reflexivity|lia].
Qed.

Theorem grid_text_too_wide x ch a : gcols x < cwidth ch -> grid_text x ch a = Ok x.
Proof.
  intros Hw. destruct (wd ch) eqn:E.
  - rewrite grid_text_unfold by (intros [E' _]; congruence).
    destruct (N.ltb_spec (gcols x) (cwidth ch)); [reflexivity|lia].
  - unfold grid_text. rewrite E. unfold cwidth in Hw. rewrite E in Hw.
    destruct (ch <? 256); [reflexivity|]. destruct (N.ltb_spec (gcols x) 1); [reflexivity|lia].
Qed.


(* ================================================================== *)
(* 4. zero-width characters                                            *)
(* ================================================================== *)
Lemma upd_cell_eq x r c f : grid_ok x -> r < grows x -> c < gcols x ->
  upd_cell x r c f = Ok (set_row x r (row_set_cell (lrow x r) c (f (lcell x r c)))).
Proof.
  intros H Hr Hc. unfold upd_cell, drawing_row, row_get.
  destruct (lrow_get x r H Hr) as (-> & _). cbn [unwrap bind].
  rewrite (lcell_get x r c H Hr Hc). reflexivity.
Qed.

(* the column a combining character attaches to when the cell before the cursor is at column c *)
Definition append_col (x : grid) (r c : N) : N := if ccont (lcell x r c) then c - 1 else c.
Definition append_cell (x : grid) (r c ch : N) : grid :=
  set_row x r (row_set_cell (lrow x r) c (cell_append ch (lcell x r c))).

Lemma append_col_lt x r c : grid_ok x -> r < grows x -> c < gcols x -> append_col x r c < gcols x.
Proof. intros. unfold append_col. destruct (ccont (lcell x r c)); lia. Qed.

Lemma append_at_eq x r c ch : grid_ok x -> r < grows x -> c < gcols x ->
  append_at x r c ch = Ok (append_cell x r (append_col x r c) ch).
Proof.
  intros H Hr Hc. unfold append_at, append_col, append_cell.
  rewrite (drawing_cell_lcell x r c H Hr Hc). cbn [unwrap bind].
  destruct (ccont (lcell x r c)) eqn:Ec.
  - destruct (lrow_get x r H Hr) as (_ & _ & Hok).
    destruct (ok_cont_prev _ _ _ Hok (lcell_get x r c H Hr Hc) Ec) as (Hpos & _).
    rewrite sub16_ok by lia. cbn [bind].
    rewrite (drawing_cell_lcell x r (c - 1) H Hr) by lia. cbn [unwrap bind].
    apply upd_cell_eq; auto; lia.
  - apply upd_cell_eq; auto.
Qed.

(* the cell a zero-width character is appended to, if any *)
Definition zero_target (x : grid) : option (N * N) :=
  if 0 <? pcol x then Some (prow x, append_col x (prow x) (pcol x - 1))
  else if (0 <? prow x) && wrapped (lrow x (prow x - 1))
       then Some (prow x - 1, append_col x (prow x - 1) (gcols x - 1))
  else None.

Definition zero_result (x : grid) (ch : N) : grid :=
  match zero_target x with Some (r, c) => append_cell x r c ch | None => x end.

Lemma text_zero_eq x ch : grid_ok x -> text_zero x ch = Ok (zero_result x ch).
Proof.
  intros H. okdims. unfold text_zero, zero_result, zero_target.
  destruct (N.ltb_spec 0 (pcol x)).
  - rewrite sub16_ok by lia. cbn [bind]. apply append_at_eq; auto; lia.
  - destruct (N.ltb_spec 0 (prow x)); cbn [andb]; [|reflexivity].
    rewrite sub16_ok by lia. cbn [bind]. unfold drawing_row.
    destruct (lrow_get x (prow x - 1) H) as (-> & _); [lia|]. cbn [unwrap bind].
    destruct (wrapped (lrow x (prow x - 1))); [|reflexivity].
    rewrite sub16_ok by lia. cbn [bind]. apply append_at_eq; auto; lia.
Qed.

(* case 3 *)
Theorem grid_text_zero x ch a : grid_ok x -> wd ch = Some 0 -> grid_text x ch a = Ok (zero_result x ch).
Proof.
  intros H E. okdims.
  rewrite grid_text_unfold by (intros [E' _]; congruence).
  assert (cwidth ch = 0) as -> by (unfold cwidth; now rewrite E).
  destruct (N.ltb_spec (gcols x) 0); [lia|].
  rewrite sub16_ok by lia. cbn [bind].
  destruct (N.ltb_spec (gcols x - 0) (pcol x)); [lia|]. cbn [bind].
  rewrite col_wrap_fits by lia. cbn [bind].
  change (0 =? 0) with true. cbv iota. now apply text_zero_eq.
Qed.

Lemma zero_target_bounds x r c : grid_ok x -> zero_target x = Some (r, c) -> r < grows x /\ c < gcols x.
Proof.
  intros H. okdims. unfold zero_target.
  destruct (N.ltb_spec 0 (pcol x)).
  - intros E; inv E. split; [exact Hr|apply append_col_lt; auto; lia].
  - destruct (N.ltb_spec 0 (prow x)); cbn [andb]; [|discriminate].
    destruct (wrapped (lrow x (prow x - 1))); [|discriminate].
    intros E; inv E. split; [lia|apply append_col_lt; auto; lia].
Qed.

(* the cursor never moves; only the target cell changes *)
Lemma zero_result_cursor x ch : prow (zero_result x ch) = prow x /\ pcol (zero_result x ch) = pcol x.
Proof. unfold zero_result. destruct (zero_target x) as [[r c]|]; split; reflexivity. Qed.

Lemma lcell_append_cell x r c ch r' c' : grid_ok x -> r < grows x -> c < gcols x ->
  lcell (append_cell x r c ch) r' c' =
  if (r' =? r) && (c' =? c) then cell_append ch (lcell x r c) else lcell x r' c'.
Proof.
  intros H Hr Hc. destruct (lrow_get x r H Hr) as (Hg & Hl & _). unfold append_cell.
  destruct (N.eqb_spec r' r) as [->|Hn]; cbn [andb].
  - unfold lcell at 1. rewrite lrow_set_row by (destruct H as (K & _); rewrite (gk_live _ K); exact Hr).
    cbn [cells row_set_cell]. rewrite get_set_at.
    destruct (N.eqb_spec c' c) as [->|]; [|reflexivity].
    destruct (N.ltb_spec c (len (cells (lrow x r)))); [reflexivity|lia].
  - unfold lcell. now rewrite lrow_set_row_other.
Qed.

Lemma append_cell_rest x r c ch :
  let y := append_cell x r c ch in
  grows y = grows x /\ gcols y = gcols x /\ prow y = prow x /\ pcol y = pcol x /\ sprow y = sprow x /\
  spcol y = spcol x /\ top y = top x /\ bot y = bot x /\ origin y = origin x /\ sorigin y = sorigin x /\
  sb y = sb x /\ sb_cap y = sb_cap x /\ sb_off y = sb_off x /\
  (forall r', wrapped (lrow y r') = wrapped (lrow x r')).
Proof.
  cbv zeta. repeat split. intros r'. unfold append_cell.
  destruct (N.eqb_spec r' r) as [->|Hn]; [|now rewrite lrow_set_row_other].
  unfold lrow at 1, set_row. cbn [live with_live]. rewrite get_set_at.
  destruct (N.eqb_spec r r); [|lia]. destruct (N.ltb_spec r (len (live x))); [reflexivity|].
  unfold lrow. destruct (get_none_ge (live x) r) as [_ ->]; [|lia]. reflexivity.
Qed.

(* Cell::append *)
Lemma text_len_zero t : text_len t = 0 <-> t = [].
Proof.
  destruct t as [|c t]; cbn [text_len fold_right]; [tauto|].
  assert (1 <= utf8_len c) by (unfold utf8_len; destruct (c <? 128), (c <? 2048), (c <? 65536); lia). split; [lia|discriminate].
Qed.

Lemma cell_append_full ch cl : 18 <= cell_len cl -> cell_append ch cl = cl.
Proof. intros H. unfold cell_append. destruct (N.leb_spec 18 (cell_len cl)); [reflexivity|lia]. Qed.
Lemma cell_append_empty ch cl : ctext cl = [] ->
  cell_append ch cl = mkCell [32; ch] (cwide cl) (ccont cl) (cattrs cl).
Proof. intros H. unfold cell_append, cell_len. rewrite H. reflexivity. Qed.
Lemma cell_append_some ch cl : ctext cl <> [] -> cell_len cl < 18 ->
  cell_append ch cl = mkCell (ctext cl ++ [ch]) (cwide cl) (ccont cl) (cattrs cl).
Proof.
  intros Hne H. unfold cell_append. destruct (N.leb_spec 18 (cell_len cl)); [lia|].
  destruct (N.eqb_spec (cell_len cl) 0) as [E|]; [|reflexivity].
  apply text_len_zero in E. contradiction.
Qed.


(* ================================================================== *)
(* 5. wrapping to the next line (col_wrap)                             *)
(* ================================================================== *)
(* one step of Grid::scroll_up *)
Definition scroll1_rows (x : grid) : list row :=
  let l1 := firstnN (bot x + 1) (live x) ++ new_row x :: skipnN (bot x + 1) (live x) in
  firstnN (top x) l1 ++ skipnN (top x + 1) l1.

Definition scroll1 (x : grid) : grid :=
  let g1 := with_live x (scroll1_rows x) in
  if (0 <? sb_cap x) && negb (negb (top x =? 0) || negb (bot x =? grows x - 1)) then
    let s := trim_front (sb x ++ [lrow x (top x)]) (sb_cap x) in
    with_sb g1 s (if 0 <? sb_off x then N.min (len s) (sb_off x + 1) else sb_off x)
  else g1.

Lemma top_le_bot x : grid_ok x -> top x <= bot x /\ bot x < grows x.
Proof. intros H. okdims. lia. Qed.

Lemma scroll_up_0 x : grid_ok x -> scroll_up x 0 = Ok x.
Proof.
  intros H. okdims. unfold scroll_up, scroll_region_active. rewrite !sub16_ok by lia. cbn [bind].
  replace (N.min 0 (grows x - top x)) with 0 by lia. reflexivity.
Qed.

Lemma scroll_up_1 x : grid_ok x -> scroll_up x 1 = Ok (scroll1 x).
Proof.
  intros H. okdims. pose proof (gk_live _ K) as Ll.
  unfold scroll_up, scroll_region_active. rewrite !sub16_ok by lia. cbn [bind].
  replace (N.min 1 (grows x - top x)) with 1 by lia. change (N.to_nat 1) with 1%nat. cbn [iter_res].
  rewrite insert_at_ok by lia. cbn [bind].
  destruct (lrow_get x (top x) H) as (Hg & _); [lia|].
  rewrite (remove_at_ok _ _ (lrow x (top x))).
  2:{ rewrite get_insert by lia. destruct (N.ltb_spec (top x) (bot x + 1)); [exact Hg|lia]. }
  cbn [bind]. unfold scroll1, scroll1_rows. cbn [sb_cap with_live sb sb_off].
  destruct ((0 <? sb_cap x) && negb (negb (top x =? 0) || negb (bot x =? grows x - 1))); reflexivity.
Qed.

Lemma get_scroll1_rows x j : grid_ok x ->
  get (scroll1_rows x) j =
  if j <? top x then get (live x) j
  else if j <? bot x then get (live x) (j + 1)
  else if j =? bot x then Some (new_row x) else get (live x) j.
Proof.
  intros H. okdims. pose proof (gk_live _ K) as Ll. unfold scroll1_rows. cbv zeta.
  rewrite get_remove by (rewrite len_insert; lia). rewrite !get_insert by lia.
  fcases; try reflexivity. all: f_equal; lia.
Qed.

Lemma scroll1_shape x :
  grows (scroll1 x) = grows x /\ gcols (scroll1 x) = gcols x /\ prow (scroll1 x) = prow x /\
  pcol (scroll1 x) = pcol x /\ top (scroll1 x) = top x /\ bot (scroll1 x) = bot x /\
  live (scroll1 x) = scroll1_rows x.
Proof. unfold scroll1. cbv zeta. destruct (_ && _); repeat split. Qed.

Lemma upd_row_eq x r f rw' : grid_ok x -> r < grows x -> f (lrow x r) = Ok rw' ->
  upd_row x r f = Ok (set_row x r rw').
Proof.
  intros H Hr Hf. unfold upd_row, drawing_row. destruct (lrow_get x r H Hr) as (-> & _).
  cbn [unwrap bind]. rewrite Hf. reflexivity.
Qed.

(* was the last column of the cursor line occupied? *)
Definition last_occupied (x : grid) : bool :=
  let lc := lcell x (prow x) (gcols x - 1) in has_contents lc || ccont lc.

(* the grid after col_wrap when the character does not fit; b = value for the wrap flag *)
Definition wrap_grid (x : grid) (b : bool) : grid :=
  let r := prow x in
  if in_scroll_region x && (r =? bot x) then
    let y := scroll1 (with_pos x r 0) in
    if 1 <=? r then set_row y (r - 1) (row_wrap b (lrow x r)) else y
  else if r + 1 <? grows x then with_pos (set_row x r (row_wrap b (lrow x r))) (r + 1) 0
  else with_pos (set_row x r (row_wrap false (lrow x r))) r 0.

Lemma col_wrap_eq x w b : grid_ok x -> w <= gcols x -> gcols x < pcol x + w ->
  col_wrap x w b = Ok (wrap_grid x b).
Proof.
  intros H Hw Hover. okdims. unfold MAXDIM in *.
  unfold col_wrap. rewrite sub16_ok by lia. cbn [bind].
  destruct (N.ltb_spec (gcols x - w) (pcol x)); [|lia].
  unfold row_inc_scroll. rewrite row_clamp_bottom_eq by (cbn; lia). cbn [bind].
  change (in_scroll_region (with_pcol x 0)) with (in_scroll_region x).
  cbn [prow with_pcol with_prow with_pos bot grows].
  assert (sat_add16 (prow x) 1 = prow x + 1) as -> by (unfold sat_add16, U16MAX; lia).
  unfold wrap_grid. cbv zeta.
  destruct (in_scroll_region x) eqn:Ein; cbn [andb].
  - unfold in_scroll_region in Ein. apply andb_prop in Ein as [E1 E2].
    apply N.leb_le in E1, E2.
    destruct (N.eqb_spec (prow x) (bot x)) as [Eb|Nb].
    + (* at the bottom margin: scroll *)
      replace (with_prow _ _) with (with_pos x (prow x) 0)
        by (unfold with_prow, with_pcol, with_pos; cbn [grows gcols prow pcol sprow spcol live top bot origin sorigin sb sb_cap sb_off]; f_equal; lia).
      replace (prow x + 1 - bot x) with 1 by lia.
      assert (grid_ok (with_pos x (prow x) 0)) as G0 by (apply ok_with_pos; auto; lia).
      rewrite (scroll_up_1 _ G0). cbn [bind].
      destruct (scroll1_shape (with_pos x (prow x) 0)) as (S1 & S2 & S3 & S4 & S5 & S6 & S7).
      destruct (N.leb_spec 1 (prow x)) as [Hge|Hlt]; [|reflexivity].
      rewrite add16_ok by lia. cbn [bind].
      destruct (scroll_up_post _ 1 G0) as (y & Ey & Oy & Fy). rewrite (scroll_up_1 _ G0) in Ey. inv Ey.
      assert (lrow (scroll1 (with_pos x (prow x) 0)) (prow x - 1) = lrow x (prow x)) as Hl.
      { unfold lrow at 1. rewrite S7, (get_scroll1_rows _ _ G0). cbn [top bot with_pos live].
        destruct (N.ltb_spec (prow x - 1) (top x)); [lia|].
        destruct (N.ltb_spec (prow x - 1) (bot x)); [|lia].
        replace (prow x - 1 + 1) with (prow x) by lia.
        destruct (lrow_get x (prow x) H Hr) as (-> & _). reflexivity. }
      apply upd_row_eq; [exact Oy|rewrite S1; cbn; lia|].
      rewrite Hl, S3. cbn [prow with_pos].
      replace (prow x - 1 + 1 =? prow x) with true by (symmetry; apply N.eqb_eq; lia).
      now rewrite andb_true_r.
    + (* inside the region, above the bottom margin *)
      replace (with_prow _ _) with (with_pos x (prow x + 1) 0)
        by (unfold with_prow, with_pcol, with_pos; cbn [grows gcols prow pcol sprow spcol live top bot origin sorigin sb sb_cap sb_off]; f_equal; lia).
      replace (prow x + 1 - bot x) with 0 by lia.
      assert (grid_ok (with_pos x (prow x + 1) 0)) as G0 by (apply ok_with_pos; auto; lia).
      rewrite (scroll_up_0 _ G0). cbn [bind].
      destruct (N.leb_spec 0 (prow x)); [|lia].
      replace (prow x - 0) with (prow x) by lia.
      rewrite add16_ok by lia. cbn [bind].
      destruct (N.ltb_spec (prow x + 1) (grows x)); [|lia].
      rewrite (upd_row_eq _ (prow x) _ (row_wrap b (lrow x (prow x)))); [reflexivity|exact G0|exact Hr|].
      cbn [prow with_pos]. rewrite N.eqb_refl, andb_true_r. reflexivity.
  - (* outside the scroll region *)
    cbn [bind].
    destruct (N.leb_spec 0 (prow x)); [|lia].
    replace (prow x - 0) with (prow x) by lia.
    rewrite add16_ok by lia. cbn [bind].
    destruct (N.ltb_spec (prow x + 1) (grows x)).
    + replace (with_prow _ _) with (with_pos x (prow x + 1) 0)
        by (unfold with_prow, with_pcol, with_pos; cbn [grows gcols prow pcol sprow spcol live top bot origin sorigin sb sb_cap sb_off]; f_equal; lia).
      assert (grid_ok (with_pos x (prow x + 1) 0)) as G0 by (apply ok_with_pos; auto; lia).
      rewrite (upd_row_eq _ (prow x) _ (row_wrap b (lrow x (prow x)))); [reflexivity|exact G0|exact Hr|].
      cbn [prow with_pos]. rewrite N.eqb_refl, andb_true_r. reflexivity.
    + replace (with_prow _ _) with (with_pos x (prow x) 0)
        by (unfold with_prow, with_pcol, with_pos; cbn [grows gcols prow pcol sprow spcol live top bot origin sorigin sb sb_cap sb_off]; f_equal; lia).
      assert (grid_ok (with_pos x (prow x) 0)) as G0 by (apply ok_with_pos; auto; lia).
      rewrite (upd_row_eq _ (prow x) _ (row_wrap false (lrow x (prow x)))); [reflexivity|exact G0|exact Hr|].
      cbn [prow with_pos].
      replace (prow x + 1 =? prow x) with false by (symmetry; apply N.eqb_neq; lia).
      now rewrite andb_false_r.
Qed.


Lemma wrap_grid_ok x w b : grid_ok x -> w <= gcols x -> gcols x < pcol x + w ->
  grid_ok (wrap_grid x b) /\ frame x (wrap_grid x b).
Proof.
  intros H Hw Hover. destruct (col_wrap_post x w b H Hw) as (y & E & Oy & Fy).
  rewrite (col_wrap_eq x w b H Hw Hover) in E. inv E. auto.
Qed.

Lemma wrap_grid_pcol x b : pcol (wrap_grid x b) = 0.
Proof.
  unfold wrap_grid. cbv zeta.
  destruct (in_scroll_region x && (prow x =? bot x)).
  - destruct (scroll1_shape (with_pos x (prow x) 0)) as (_ & _ & _ & S4 & _).
    destruct (1 <=? prow x); [cbn [pcol set_row with_live]|]; exact S4.
  - destruct (prow x + 1 <? grows x); reflexivity.
Qed.

(* the row the cursor is on after wrapping *)
Definition wrap_row (x : grid) : N :=
  if in_scroll_region x && (prow x =? bot x) then prow x
  else if prow x + 1 <? grows x then prow x + 1 else prow x.

Lemma wrap_grid_prow x b : prow (wrap_grid x b) = wrap_row x.
Proof.
  unfold wrap_grid, wrap_row. cbv zeta.
  destruct (in_scroll_region x && (prow x =? bot x)).
  - destruct (scroll1_shape (with_pos x (prow x) 0)) as (_ & _ & S3 & _).
    destruct (1 <=? prow x); [cbn [prow set_row with_live]|]; exact S3.
  - destruct (prow x + 1 <? grows x); reflexivity.
Qed.

(* the three sub-cases of wrapping *)
Lemma wrap_grid_next x b : in_scroll_region x && (prow x =? bot x) = false -> prow x + 1 < grows x ->
  wrap_grid x b = with_pos (set_row x (prow x) (row_wrap b (lrow x (prow x)))) (prow x + 1) 0.
Proof.
  intros E Hlt. unfold wrap_grid. cbv zeta. rewrite E.
  destruct (N.ltb_spec (prow x + 1) (grows x)); [reflexivity|lia].
Qed.

Lemma wrap_grid_stay x b : in_scroll_region x = false -> prow x + 1 = grows x ->
  wrap_grid x b = with_pos (set_row x (prow x) (row_wrap false (lrow x (prow x)))) (prow x) 0.
Proof.
  intros E Hlt. unfold wrap_grid. cbv zeta. rewrite E. cbn [andb].
  destruct (N.ltb_spec (prow x + 1) (grows x)); [lia|reflexivity].
Qed.

Lemma wrap_grid_scroll x b : in_scroll_region x = true -> prow x = bot x ->
  wrap_grid x b =
  let y := scroll1 (with_pos x (prow x) 0) in
  if 1 <=? prow x then set_row y (prow x - 1) (row_wrap b (lrow x (prow x))) else y.
Proof.
  intros E Hb. unfold wrap_grid. cbv zeta. rewrite E. cbn [andb].
  destruct (N.eqb_spec (prow x) (bot x)); [reflexivity|lia].
Qed.

(* inside the region the last line is never left "staying put": exhaustiveness of the three cases *)
Lemma wrap_cases x : grid_ok x ->
  (in_scroll_region x = true /\ prow x = bot x) \/
  (in_scroll_region x && (prow x =? bot x) = false /\ prow x + 1 < grows x) \/
  (in_scroll_region x = false /\ prow x + 1 = grows x /\ bot x < prow x).
Proof.
  intros H. okdims. unfold in_scroll_region.
  destruct (N.leb_spec (top x) (prow x)), (N.leb_spec (prow x) (bot x)), (N.eqb_spec (prow x) (bot x));
    cbn [andb]; try lia; auto.
  all: destruct (N.ltb_spec (prow x + 1) (grows x)); [right; left; split; [reflexivity|lia]|].
  all: right; right; split; [reflexivity|lia].
Qed.

(* rows of the grid after scrolling at the bottom margin *)
Lemma lrow_scroll1 x j : grid_ok x -> j < grows x ->
  lrow (scroll1 x) j =
  if j <? top x then lrow x j
  else if j <? bot x then lrow x (j + 1)
  else if j =? bot x then new_row x else lrow x j.
Proof.
  intros H Hj. okdims. destruct (scroll1_shape x) as (_ & S2 & _ & _ & _ & _ & S7).
  unfold lrow at 1. rewrite S7, (get_scroll1_rows _ _ H).
  destruct (N.ltb_spec j (top x)).
  - destruct (lrow_get x j H Hj) as (-> & _). reflexivity.
  - destruct (N.ltb_spec j (bot x)).
    + destruct (lrow_get x (j + 1) H) as (-> & _); [lia|reflexivity].
    + destruct (N.eqb_spec j (bot x)); [reflexivity|].
      destruct (lrow_get x j H Hj) as (-> & _). reflexivity.
Qed.

(* case 2: the character does not fit in the columns left *)
Theorem grid_text_wraps x ch a : grid_ok x -> ~ (wd ch = None /\ ch < 256) ->
  1 <= cwidth ch -> cwidth ch <= gcols x -> gcols x < pcol x + cwidth ch ->
  grid_text x ch a = Ok (place (wrap_grid x (last_occupied x)) ch (cwidth ch) a).
Proof.
  intros H Hn Hw Hle Hover. okdims. pose proof (cwidth_le2 ch) as Hw2.
  rewrite grid_text_unfold by exact Hn.
  destruct (N.ltb_spec (gcols x) (cwidth ch)); [lia|].
  rewrite sub16_ok by lia. cbn [bind].
  destruct (N.ltb_spec (gcols x - cwidth ch) (pcol x)); [|lia].
  rewrite sub16_ok by lia. cbn [bind].
  rewrite (drawing_cell_lcell x (prow x) (gcols x - 1) H Hr) by lia. cbn [unwrap bind].
  fold (last_occupied x).
  rewrite (col_wrap_eq x (cwidth ch) _ H Hle Hover). cbn [bind].
  destruct (N.eqb_spec (cwidth ch) 0); [lia|].
  destruct (wrap_grid_ok x (cwidth ch) (last_occupied x) H Hle Hover) as (Oy & Fy).
  apply text_place_eq; [exact Oy|lia|].
  rewrite wrap_grid_pcol, (fr_cols _ _ Fy). lia.
Qed.

(* ================================================================== *)
(* 6. screen level and Perform                                         *)
(* ================================================================== *)
Theorem scr_text_eq s ch : scr_text s ch = do y <- grid_text (cur s) ch (pen s); Ok (with_cur s y).
Proof. reflexivity. Qed.

(* with_cur replaces the current grid and nothing else *)
Theorem with_cur_fields s y :
  let s' := with_cur s y in
  cur s' = y /\ pen s' = pen s /\ spen s' = spen s /\ keypad s' = keypad s /\ appcur s' = appcur s /\
  hide s' = hide s /\ altmode s' = altmode s /\ paste s' = paste s /\ mmode s' = mmode s /\ menc s' = menc s /\
  (if altmode s then g s' = g s else alt s' = alt s).
Proof. cbv zeta. unfold with_cur, cur. destruct (altmode s) eqn:E; cbn; rewrite ?E; repeat split. Qed.

Theorem scr_text_pen s ch s' : scr_text s ch = Ok s' ->
  pen s' = pen s /\ spen s' = spen s /\ altmode s' = altmode s /\ grid_text (cur s) ch (pen s) = Ok (cur s') /\
  (if altmode s then g s' = g s else alt s' = alt s).
Proof.
  rewrite scr_text_eq. intros E. bind_inv E. inv E.
  destruct (with_cur_fields s v) as (F1 & F2 & F3 & _ & _ & _ & F7 & _ & _ & _ & F11).
  rewrite F1. auto.
Qed.

(* routing of printable input in WrappedScreen::print *)
Theorem do_print_c1 s c : 128 <= c < 160 -> do_print s c = do_execute s c.
Proof.
  intros [H1 H2]. unfold do_print.
  destruct (N.leb_spec 128 c); [|lia]. destruct (N.ltb_spec c 160); [reflexivity|lia].
Qed.
Theorem do_print_repl s : do_print s REPL = Ok (s, [EUnhChar REPL]).
Proof. reflexivity. Qed.
Theorem do_print_text s c : ~ (128 <= c < 160) -> c <> REPL ->
  do_print s c = do s1 <- scr_text s c; Ok (s1, []).
Proof.
  intros H1 H2. unfold do_print.
  destruct (N.leb_spec 128 c), (N.ltb_spec c 160); cbn [andb]; try lia;
    destruct (N.eqb_spec c REPL); try contradiction; reflexivity.
Qed.


(* ================================================================== *)
(* 7. visible corollaries: what changes and what does not              *)
(* ================================================================== *)
Lemma cell_set_glyph ch a cl : cell_set ch a cl = glyph ch a. Proof. reflexivity. Qed.
Lemma cell_clear_blank a cl : cell_clear a cl = blank a. Proof. reflexivity. Qed.
Lemma cont_cell_eq cl : cell_set_cont true (cell_clear dflt cl) = cont_cell. Proof. reflexivity. Qed.
Lemma glyph_fields ch a :
  ctext (glyph ch a) = [ch] /\ cwide (glyph ch a) = (1 <? cwidth ch) /\ ccont (glyph ch a) = false /\
  cattrs (glyph ch a) = a.
Proof. cbn. rewrite char_is_wide_cwidth. auto. Qed.

(* everything but the current row and the cursor column is untouched by place *)
Lemma place_frame x ch w a :
  let y := place x ch w a in
  grows y = grows x /\ gcols y = gcols x /\ prow y = prow x /\ pcol y = pcol x + w /\ sprow y = sprow x /\
  spcol y = spcol x /\ top y = top x /\ bot y = bot x /\ origin y = origin x /\ sorigin y = sorigin x /\
  sb y = sb x /\ sb_cap y = sb_cap x /\ sb_off y = sb_off x /\
  live y = set_at (live x) (prow x) (place_row (lrow x (prow x)) (pcol x) ch w a).
Proof. cbv zeta. repeat split. Qed.

Lemma place_lrow_cur x ch w a : grid_ok x ->
  lrow (place x ch w a) (prow x) = place_row (lrow x (prow x)) (pcol x) ch w a.
Proof.
  intros H. okdims. unfold place.
  change (lrow (with_pcol ?g ?c) ?r) with (lrow g r).
  apply lrow_set_row. rewrite (gk_live _ K). exact Hr.
Qed.

Lemma place_lrow_other x ch w a r' : r' <> prow x -> lrow (place x ch w a) r' = lrow x r'.
Proof.
  intros Hn. unfold place. change (lrow (with_pcol ?g ?c) ?r) with (lrow g r).
  now apply lrow_set_row_other.
Qed.

Theorem place_drawing_cell x ch w a r' c' : grid_ok x -> (w = 1 \/ w = 2) -> pcol x + w <= gcols x ->
  drawing_cell (place x ch w a) r' c' =
  if r' =? prow x then placed (cells (lrow x (prow x))) (pcol x) ch w a c' else drawing_cell x r' c'.
Proof.
  intros H Hw Hfit. okdims. destruct (lrow_get x (prow x) H Hr) as (Hg & Hl & Hok).
  unfold drawing_cell, drawing_row, place, set_row, row_get. cbn [live with_pcol with_pos with_live].
  rewrite get_set_at. destruct (N.eqb_spec r' (prow x)) as [->|]; [|reflexivity].
  destruct (N.ltb_spec (prow x) (len (live x))) as [_|Hge]; [|rewrite (gk_live _ K) in Hge; lia].
  apply place_row_get; auto. lia.
Qed.

(* "no other cell changes" *)
Theorem place_untouched x ch w a r' c' : grid_ok x -> (w = 1 \/ w = 2) -> pcol x + w <= gcols x ->
  r' <> prow x \/ ~ touched (cells (lrow x (prow x))) (pcol x) w c' ->
  drawing_cell (place x ch w a) r' c' = drawing_cell x r' c'.
Proof.
  intros H Hw Hfit Hn. okdims. rewrite place_drawing_cell by auto.
  destruct (N.eqb_spec r' (prow x)) as [->|]; [|reflexivity].
  destruct Hn as [Hn|Hn]; [contradiction|].
  rewrite placed_untouched by auto.
  unfold drawing_cell, drawing_row, row_get. destruct (lrow_get x (prow x) H Hr) as (-> & _). reflexivity.
Qed.

(* the cells written *)
Theorem place_cursor_cells x ch w a : grid_ok x -> (w = 1 \/ w = 2) -> pcol x + w <= gcols x ->
  drawing_cell (place x ch w a) (prow x) (pcol x) = Some (glyph ch a) /\
  (w = 2 -> drawing_cell (place x ch w a) (prow x) (pcol x + 1) = Some cont_cell).
Proof.
  intros H Hw Hfit. rewrite !place_drawing_cell by auto. rewrite N.eqb_refl. unfold placed.
  rewrite N.eqb_refl. split; [reflexivity|]. intros ->.
  destruct (N.eqb_spec (pcol x + 1) (pcol x)); [lia|]. rewrite N.eqb_refl. reflexivity.
Qed.

(* wrap flags after place: only the flag of the current row can change, and only to false *)
Theorem place_wrapped x ch w a r' : grid_ok x ->
  wrapped (lrow (place x ch w a) r') =
  if (r' =? prow x) && (1 <? w) && fw (cells (lrow x (prow x))) (pcol x + 1) && (pcol x + 2 =? gcols x - 1)
  then false else wrapped (lrow x r').
Proof.
  intros H. okdims. destruct (N.eqb_spec r' (prow x)) as [->|Hn]; cbn [andb].
  - rewrite place_lrow_cur by exact H. rewrite place_row_wrapped.
    destruct (lrow_get x (prow x) H Hr) as (_ & -> & _). reflexivity.
  - now rewrite place_lrow_other.
Qed.

(* the line left by a wrap *)
Theorem wrap_left_line x b : grid_ok x ->
  (in_scroll_region x && (prow x =? bot x) = false -> prow x + 1 < grows x ->
     lrow (wrap_grid x b) (prow x) = row_wrap b (lrow x (prow x))) /\
  (in_scroll_region x = false -> prow x + 1 = grows x ->
     lrow (wrap_grid x b) (prow x) = row_wrap false (lrow x (prow x))) /\
  (in_scroll_region x = true -> prow x = bot x -> 1 <= prow x ->
     lrow (wrap_grid x b) (prow x - 1) = row_wrap b (lrow x (prow x)) /\
     lrow (wrap_grid x b) (prow x) = new_row x) /\
  (in_scroll_region x = true -> prow x = bot x -> prow x = 0 ->
     wrap_grid x b = scroll1 (with_pos x 0 0) /\ lrow (wrap_grid x b) 0 = new_row x).
Proof.
  intros H. okdims. pose proof (gk_live _ K) as Ll.
  split; [|split; [|split]].
  - intros E Hlt. rewrite wrap_grid_next by auto.
    change (lrow (with_pos ?g ?r ?c) ?j) with (lrow g j). apply lrow_set_row. lia.
  - intros E Hlt. rewrite wrap_grid_stay by auto.
    change (lrow (with_pos ?g ?r ?c) ?j) with (lrow g j). apply lrow_set_row. lia.
  - intros E Hb Hge. rewrite wrap_grid_scroll by auto. cbv zeta.
    destruct (N.leb_spec 1 (prow x)); [|lia].
    assert (grid_ok (with_pos x (prow x) 0)) as G0 by (apply ok_with_pos; auto; lia).
    destruct (scroll1_shape (with_pos x (prow x) 0)) as (_ & _ & _ & _ & _ & _ & S7).
    split.
    + apply lrow_set_row. rewrite S7.
      destruct (scroll_up_post _ 1 G0) as (y & Ey & (Ky & _) & Fy). rewrite (scroll_up_1 _ G0) in Ey. inv Ey.
      rewrite <- S7, (gk_live _ Ky), (fr_rows _ _ Fy). cbn. lia.
    + rewrite lrow_set_row_other by lia. rewrite (lrow_scroll1 _ _ G0) by (cbn; lia).
      cbn [top bot with_pos].
      destruct (N.ltb_spec (prow x) (top x)); [lia|]. destruct (N.ltb_spec (prow x) (bot x)); [lia|].
      destruct (N.eqb_spec (prow x) (bot x)); [reflexivity|lia].
  - intros E Hb Hz. rewrite wrap_grid_scroll by auto. cbv zeta. rewrite Hz.
    change (1 <=? 0) with false. cbv iota. split; [reflexivity|].
    assert (grid_ok (with_pos x 0 0)) as G0 by (apply ok_with_pos; auto; lia).
    rewrite (lrow_scroll1 _ _ G0) by (cbn; lia). cbn [top bot with_pos].
    destruct (N.ltb_spec 0 (top x)); [lia|]. destruct (N.ltb_spec 0 (bot x)); [lia|].
    destruct (N.eqb_spec 0 (bot x)); [reflexivity|lia].
Qed.


(* all rows after a wrap that scrolls (cursor on the bottom margin, inside the region) *)
Theorem wrap_scroll_rows x b j : grid_ok x -> in_scroll_region x = true -> prow x = bot x -> j < grows x ->
  lrow (wrap_grid x b) j =
  if j <? top x then lrow x j
  else if j <? bot x then (if j + 1 =? bot x then row_wrap b (lrow x (bot x)) else lrow x (j + 1))
  else if j =? bot x then new_row x else lrow x j.
Proof.
  intros H E Hb Hj. okdims. rewrite wrap_grid_scroll by auto. cbv zeta.
  assert (grid_ok (with_pos x (prow x) 0)) as G0 by (apply ok_with_pos; auto; lia).
  destruct (scroll1_shape (with_pos x (prow x) 0)) as (_ & _ & _ & _ & _ & _ & S7).
  assert (len (live (scroll1 (with_pos x (prow x) 0))) = grows x) as Ls.
  { destruct (scroll_up_post _ 1 G0) as (y & Ey & (Ky & _) & Fy). rewrite (scroll_up_1 _ G0) in Ey. inv Ey.
    rewrite (gk_live _ Ky), (fr_rows _ _ Fy). reflexivity. }
  pose proof (lrow_scroll1 _ j G0 Hj) as L. cbn [top bot with_pos] in L.
  change (lrow (with_pos x (prow x) 0)) with (lrow x) in L.
  change (new_row (with_pos x (prow x) 0)) with (new_row x) in L.
  destruct (N.leb_spec 1 (prow x)).
  - destruct (N.eqb_spec j (prow x - 1)) as [->|Hn].
    + rewrite lrow_set_row by lia.
      destruct (N.ltb_spec (prow x - 1) (top x)); [lia|].
      destruct (N.ltb_spec (prow x - 1) (bot x)); [|lia].
      destruct (N.eqb_spec (prow x - 1 + 1) (bot x)); [|lia]. now rewrite Hb.
    + rewrite lrow_set_row_other by exact Hn. rewrite L.
      destruct (N.ltb_spec j (top x)); [reflexivity|].
      destruct (N.ltb_spec j (bot x)); [|reflexivity].
      destruct (N.eqb_spec (j + 1) (bot x)); [lia|reflexivity].
  - rewrite L.
    destruct (N.ltb_spec j (top x)); [reflexivity|].
    destruct (N.ltb_spec j (bot x)); [lia|reflexivity].
Qed.

(* cursor after printing *)
Theorem wraps_cursor x ch a : let y := place (wrap_grid x (last_occupied x)) ch (cwidth ch) a in
  prow y = wrap_row x /\ pcol y = cwidth ch.
Proof.
  cbv zeta. split.
  - change (prow (place ?g _ _ _)) with (prow g). apply wrap_grid_prow.
  - change (pcol (place ?g _ ?w _)) with (pcol g + w). rewrite wrap_grid_pcol. lia.
Qed.


(* ================================================================== *)
(* 8. place preserves the invariant (independent of TextInv.v)         *)
(* ================================================================== *)
Definition pflag (f : cell -> bool) (cs : list cell) (c ch w : N) (a : attrs) (j : N) : bool :=
  match placed cs c ch w a j with Some cl => f cl | None => false end.

Lemma fw_place rw c ch w a j : cells_ok (cells rw) -> (w = 1 \/ w = 2) -> c + w <= len (cells rw) ->
  fw (cells (place_row rw c ch w a)) j = pflag cwide (cells rw) c ch w a j.
Proof. intros. unfold fw, pflag. now rewrite place_row_get. Qed.
Lemma fc_place rw c ch w a j : cells_ok (cells rw) -> (w = 1 \/ w = 2) -> c + w <= len (cells rw) ->
  fc (cells (place_row rw c ch w a)) j = pflag ccont (cells rw) c ch w a j.
Proof. intros. unfold fc, pflag. now rewrite place_row_get. Qed.

Lemma pflag_w cs c ch w a j : char_is_wide ch = (1 <? w) ->
  pflag cwide cs c ch w a j =
  if j =? c then (1 <? w)
  else if (j =? c + 1) && (1 <? w) then false
  else if (j + 1 =? c) && fc cs c then false
  else if (j =? c + 1) && fw cs c then false
  else if (j =? c + 2) && (1 <? w) && fw cs (c + 1) then false
  else fw cs j.
Proof.
  intros Hch. unfold pflag, placed.
  destruct (j =? c); [exact Hch|].
  destruct ((j =? c + 1) && (1 <? w)); [reflexivity|].
  destruct ((j + 1 =? c) && fc cs c); [reflexivity|].
  destruct ((j =? c + 1) && fw cs c); [apply space_not_wide|].
  destruct ((j =? c + 2) && (1 <? w) && fw cs (c + 1)); reflexivity.
Qed.
Lemma pflag_c cs c ch w a j :
  pflag ccont cs c ch w a j =
  if j =? c then false
  else if (j =? c + 1) && (1 <? w) then true
  else if (j + 1 =? c) && fc cs c then false
  else if (j =? c + 1) && fw cs c then false
  else if (j =? c + 2) && (1 <? w) && fw cs (c + 1) then false
  else fc cs j.
Proof.
  unfold pflag, placed.
  destruct (j =? c); [reflexivity|].
  destruct ((j =? c + 1) && (1 <? w)); [reflexivity|].
  destruct ((j + 1 =? c) && fc cs c); [reflexivity|].
  destruct ((j =? c + 1) && fw cs c); [reflexivity|].
  destruct ((j =? c + 2) && (1 <? w) && fw cs (c + 1)); reflexivity.
Qed.

Ltac bdestr :=
  repeat match goal with
         | |- context[fw ?cs ?i] => let E := fresh "E" in destruct (fw cs i) eqn:E
         | |- context[fc ?cs ?i] => let E := fresh "E" in destruct (fc cs i) eqn:E
         end.

Ltac nrm :=
  repeat match goal with
  | H : context[?k + 1 + 1] |- _ => replace (k + 1 + 1) with (k + 2) in * by lia
  | H : context[?k + 2 + 1] |- _ => replace (k + 2 + 1) with (k + 3) in * by lia
  | H : context[?k - 1 + 1] |- _ => replace (k - 1 + 1) with k in * by lia
  | H : context[?k - 2 + 1] |- _ => replace (k - 2 + 1) with (k - 1) in * by lia
  | H : context[?k + 1 - 1] |- _ => replace (k + 1 - 1) with k in * by lia
  | H : context[?k + 2 - 1] |- _ => replace (k + 2 - 1) with (k + 1) in * by lia
  | H : context[?k + 2 - 2] |- _ => replace (k + 2 - 2) with k in * by lia
  | H : context[?k + 1 - 2] |- _ => replace (k + 1 - 2) with (k - 1) in * by lia
  end.
Ltac bsym :=
  repeat match goal with
         | H : true = false |- _ => discriminate H
         | H : false = true |- _ => discriminate H
         | H : ?b = ?b |- _ => clear H
         | H : true = _ |- _ => symmetry in H
         | H : false = _ |- _ => symmetry in H
         end.
Ltac is_flag t := lazymatch t with fw _ _ => idtac | fc _ _ => idtac end.
Ltac brew1 :=
  match goal with
  | H : ?t = true, H' : context[?t] |- _ =>
      is_flag t; tryif constr_eq H H' then fail else
      (rewrite H in H'; cbn [andb] in H'; rewrite ?andb_true_r, ?andb_false_r in H')
  | H : ?t = false, H' : context[?t] |- _ =>
      is_flag t; tryif constr_eq H H' then fail else
      (rewrite H in H'; cbn [andb] in H'; rewrite ?andb_true_r, ?andb_false_r in H')
  end.
Ltac bfin := exfalso; nrm; repeat (bsym; brew1); congruence.

Lemma place_row_cells_ok rw c ch w a : cells_ok (cells rw) -> (w = 1 \/ w = 2) -> c + w <= len (cells rw) ->
  char_is_wide ch = (1 <? w) -> cells_ok (cells (place_row rw c ch w a)).
Proof.
  intros Hok Hw Hfit Hch. pose proof Hok as [H0 Hp Hb].
  pose proof (Hp c) as Pc. pose proof (Hp (c + 1)) as Pc1. pose proof (Hp (c + 2)) as Pc2.
  pose proof (Hp (c - 1)) as Pm1. pose proof (Hp (c - 2)) as Pm2.
  pose proof (Hb c) as Bc. pose proof (Hb (c + 1)) as Bc1. pose proof (Hb (c + 2)) as Bc2.
  pose proof (Hb (c - 1)) as Bm1.
  split.
  - rewrite fc_place, pflag_c by auto.
    destruct Hw as [-> | ->]; [change (1 <? 1) with false|change (1 <? 2) with true]; cbn [andb];
      fcases; cbn [andb]; bdestr; try reflexivity; try congruence.
  - intros i. pose proof (Hp i) as Pi. pose proof (Hb i) as Bi. pose proof (Hb (i + 1)) as Bi1.
    rewrite fw_place, fc_place, pflag_w, pflag_c by auto.
    destruct Hw as [-> | ->]; [change (1 <? 1) with false|change (1 <? 2) with true]; cbn [andb];
      fcases; cbn [andb]; subst; inorm; bdestr; try reflexivity; try congruence.
    all: clear Hok Hp Hb; bfin.
  - intros i. pose proof (Hb i) as Bi.
    rewrite fw_place, fc_place, pflag_w, pflag_c by auto.
    destruct Hw as [-> | ->]; [change (1 <? 1) with false|change (1 <? 2) with true]; cbn [andb];
      fcases; cbn [andb]; subst; inorm; bdestr; try reflexivity; try congruence.
    all: clear Hok Hp Hb; bfin.
Qed.

Theorem place_ok x ch w a : grid_ok x -> (w = 1 \/ w = 2) -> pcol x + w <= gcols x ->
  char_is_wide ch = (1 <? w) -> grid_ok (place x ch w a) /\ frame x (place x ch w a).
Proof.
  intros H Hw Hfit Hch. okdims. destruct (lrow_get x (prow x) H Hr) as (Hg & Hl & Hok).
  split; [|split; reflexivity].
  unfold place. apply ok_with_pos; cbn [grows gcols set_row with_live]; [|exact Hr|lia].
  apply okc_with_live; [exact K|rewrite len_set_at; apply (gk_live _ K)|].
  apply Forall_set_at; [apply (gk_rowsok _ K)|].
  split; [rewrite place_row_len; exact Hl|].
  apply place_row_cells_ok; auto. lia.
Qed.

(* the results of cases 1 and 2 satisfy the invariant again *)
Corollary grid_text_fits_ok x ch a : grid_ok x -> 1 <= cwidth ch -> pcol x + cwidth ch <= gcols x ->
  grid_ok (place x ch (cwidth ch) a).
Proof.
  intros H Hw Hfit. pose proof (cwidth_le2 ch).
  apply place_ok; auto; [lia|apply char_is_wide_cwidth].
Qed.

Corollary grid_text_wraps_ok x ch a : grid_ok x -> 1 <= cwidth ch -> cwidth ch <= gcols x ->
  gcols x < pcol x + cwidth ch -> grid_ok (place (wrap_grid x (last_occupied x)) ch (cwidth ch) a).
Proof.
  intros H Hw Hle Hover. pose proof (cwidth_le2 ch).
  destruct (wrap_grid_ok x (cwidth ch) (last_occupied x) H Hle Hover) as (Oy & Fy).
  apply place_ok; auto; [lia| |apply char_is_wide_cwidth].
  rewrite wrap_grid_pcol, (fr_cols _ _ Fy). lia.
Qed.

Lemma append_cell_ok x r c ch : grid_ok x -> r < grows x -> c < gcols x -> grid_ok (append_cell x r c ch).
Proof.
  intros H Hr Hc. destruct (lrow_get x r H Hr) as (Hg & Hl & Hok). destruct H as (K & Hpr & Hpc).
  unfold append_cell, set_row. split; [|cbn; auto].
  apply okc_with_live; [exact K|rewrite len_set_at; apply (gk_live _ K)|].
  apply Forall_set_at; [apply (gk_rowsok _ K)|].
  split; cbn [cells row_set_cell]; [rewrite len_set_at; exact Hl|].
  assert (get (cells (lrow x r)) c = Some (lcell x r c)) as Hgc.
  { unfold lcell. destruct (get_lt_some (cells (lrow x r)) c) as (cl & ->); [lia|reflexivity]. }
  eapply cells_ok_same_flags; [exact Hok|exact Hgc| |];
    unfold cell_append; destruct (18 <=? _); [reflexivity| |reflexivity|]; destruct (_ =? 0); reflexivity.
Qed.

Corollary grid_text_zero_ok x ch : grid_ok x -> grid_ok (zero_result x ch).
Proof.
  intros H. unfold zero_result. destruct (zero_target x) as [[r c]|] eqn:E; [|exact H].
  destruct (zero_target_bounds x r c H E). now apply append_cell_ok.
Qed.

(* every character falls in exactly one of the cases; Screen::text never panics and re-establishes
   the invariant (proved here without TextInv.v) *)
Theorem grid_text_cases x ch a : grid_ok x ->
  (wd ch = None /\ ch < 256 /\ grid_text x ch a = Ok x) \/
  (~ (wd ch = None /\ ch < 256) /\ gcols x < cwidth ch /\ grid_text x ch a = Ok x) \/
  (wd ch = Some 0 /\ grid_text x ch a = Ok (zero_result x ch)) \/
  (~ (wd ch = None /\ ch < 256) /\ 1 <= cwidth ch <= 2 /\ pcol x + cwidth ch <= gcols x /\
     grid_text x ch a = Ok (place x ch (cwidth ch) a)) \/
  (~ (wd ch = None /\ ch < 256) /\ 1 <= cwidth ch <= 2 /\ cwidth ch <= gcols x /\ gcols x < pcol x + cwidth ch /\
     grid_text x ch a = Ok (place (wrap_grid x (last_occupied x)) ch (cwidth ch) a)).
Proof.
  intros H. pose proof (cwidth_le2 ch) as Hw2.
  assert (forall n, wd ch = Some n -> ~ (wd ch = None /\ ch < 256)) as HnS by (intros n E [E' _]; congruence).
  assert (~ (wd ch = None /\ ch < 256) -> 1 <= cwidth ch ->
          (~ (wd ch = None /\ ch < 256) /\ gcols x < cwidth ch /\ grid_text x ch a = Ok x) \/
          (~ (wd ch = None /\ ch < 256) /\ 1 <= cwidth ch <= 2 /\ pcol x + cwidth ch <= gcols x /\
             grid_text x ch a = Ok (place x ch (cwidth ch) a)) \/
          (~ (wd ch = None /\ ch < 256) /\ 1 <= cwidth ch <= 2 /\ cwidth ch <= gcols x /\ gcols x < pcol x + cwidth ch /\
             grid_text x ch a = Ok (place (wrap_grid x (last_occupied x)) ch (cwidth ch) a))) as Hpr.
  { intros Hn Hw1.
    destruct (N.ltb_spec (gcols x) (cwidth ch)).
    { left. split; [exact Hn|]. split; [assumption|now apply grid_text_too_wide]. }
    destruct (N.leb_spec (pcol x + cwidth ch) (gcols x)).
    + right; left. repeat split; try assumption. now apply grid_text_fits.
    + right; right. repeat split; try assumption. now apply grid_text_wraps. }
  destruct (wd_range ch) as [E | [E | [E | E]]].
  - destruct (N.ltb_spec ch 256).
    { left. split; [exact E|]. split; [assumption|now apply grid_text_control]. }
    assert (cwidth ch = 1) as Hcw by (unfold cwidth; now rewrite E).
    destruct Hpr as [P | [P | P]]; [intros [_ ?]; lia|lia|auto|auto|auto 6].
  - right; right; left. split; [exact E|now apply grid_text_zero].
  - assert (cwidth ch = 1) as Hcw by (unfold cwidth; now rewrite E).
    destruct Hpr as [P | [P | P]]; [eapply HnS; eauto|lia|auto|auto|auto 6].
  - assert (cwidth ch = 2) as Hcw by (unfold cwidth; now rewrite E).
    destruct Hpr as [P | [P | P]]; [eapply HnS; eauto|lia|auto|auto|auto 6].
Qed.

Theorem grid_text_post_c05 x ch a : grid_ok x -> post x (grid_text x ch a).
Proof.
  intros H.
  destruct (grid_text_cases x ch a H) as
    [(_ & _ & E) | [(_ & _ & E) | [(_ & E) | [(_ & Hw & Hfit & E) | (_ & Hw & Hle & Hover & E)]]]];
    rewrite E.
  - apply post_ok; [exact H|apply frame_refl].
  - apply post_ok; [exact H|apply frame_refl].
  - apply post_ok; [now apply grid_text_zero_ok|].
    unfold zero_result. destruct (zero_target x) as [[r c]|]; [split; reflexivity|apply frame_refl].
  - apply post_ok; [apply grid_text_fits_ok; auto; lia|split; reflexivity].
  - apply post_ok; [apply grid_text_wraps_ok; auto; lia|].
    destruct (wrap_grid_ok x (cwidth ch) (last_occupied x) H Hle Hover) as (_ & Fy).
    eapply frame_trans; [exact Fy|split; reflexivity].
Qed.

