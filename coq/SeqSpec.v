(* SeqSpec.v — C18, "exactly once" at the vte level: one well-formed control
   sequence yields exactly one action.  Generalises ParseSer.v to

   - general CSI sequences:  ESC [ <marker 0x3C..0x3F>? <parameters with ';' and ':'>
                             <intermediates 0x20..0x2F> <final 0x40..0x7E>
   - general ESC sequences:  ESC <0..2 intermediates> <final>
   - OSC strings:            ESC ] <fields separated by ';'> (BEL | ESC \)
   - single characters (C0, C1, U+FFFD, printable) in their UTF-8 encoding        *)
Require Import Tac ListN Utf8 Vte Term Utf8Lemmas VteInv VteChunk ParseSer.
Open Scope N_scope.

(* ------------------------------------------------------------------ *)
(* States                                                              *)
(* ------------------------------------------------------------------ *)

(* a parser state with empty OSC buffers, no pending UTF-8 bytes, not ignoring *)
Definition K (v : vstate) (iv : list N) (gs : list (list N)) (o : list N) (par : N) : pstate :=
  mkP v iv false gs o par [] [] [].

Lemma ground_K iv gs o par : ground (K Ground iv gs o par).
Proof.
  split; [reflexivity|]. split; [reflexivity|].
  split; cbn; intros; try discriminate; try congruence; auto.
Qed.

Lemma C_K v iv gs par : C v iv gs par = K v iv gs [] par.
Proof. reflexivity. Qed.

(* parameter state: closed groups, open subparameters, current value *)
Definition pst : Type := list (list N) * list N * N.
Definition Kst (v : vstate) (iv : list N) (st : pst) : pstate :=
  K v iv (fst (fst st)) (snd (fst st)) (snd st).
Definition plen_st (st : pst) : N := len (concat (fst (fst st))) + len (snd (fst st)).

(* the effect of one parameter byte (a digit, ':' = 58 or ';' = 59) *)
Definition pstep (st : pst) (b : N) : pst :=
  let '(gs, o, par) := st in
  if b =? 59 then (gs ++ [o ++ [par]], [], 0)
  else if b =? 58 then (gs, o ++ [par], 0)
  else (gs, o, sat_add16 (sat_mul16 par 10) (b - 48)).

Definition pbyte (b : N) : Prop := is_digit b \/ b = 58 \/ b = 59.
Definition is_sep (b : N) : bool := (b =? 58) || (b =? 59).
Definition nsep (bs : list N) : N := len (filter is_sep bs).

(* the parameters delivered when the final byte arrives *)
Definition finish (st : pst) : list (list N) := fst (fst st) ++ [snd (fst st) ++ [snd st]].

Lemma plen_pstep st b : pbyte b ->
  plen_st (pstep st b) = plen_st st + (if is_sep b then 1 else 0).
Proof.
  destruct st as [[gs o] par]. unfold pbyte, is_digit, plen_st, pstep, is_sep. intros H.
  destruct (N.eqb_spec b 59) as [->|H59].
  - cbn [fst snd orb]. rewrite concat_app. cbn [concat]. rewrite app_nil_r, !len_app.
    rewrite len_cons, !len_nil. change (59 =? 58) with false. cbn [orb]. lia.
  - destruct (N.eqb_spec b 58) as [->|H58]; cbn [fst snd orb].
    + rewrite len_app, len_cons, len_nil. lia.
    + lia.
Qed.

(* ------------------------------------------------------------------ *)
(* Single transitions                                                  *)
(* ------------------------------------------------------------------ *)

(* states in which intermediates / the final byte are accepted *)
Definition csi_w (v : vstate) : Prop := v = CsiEntry \/ v = CsiParam \/ v = CsiIntermediate.

Lemma csi_v_w v : csi_v v -> csi_w v.
Proof. intros [-> | ->]; unfold csi_w; auto. Qed.

Lemma csi_w_ng v iv st : csi_w v -> vst (Kst v iv st) <> Ground.
Proof. intros [-> | [-> | ->]]; discriminate. Qed.

Lemma cs_pbyte v iv st b :
  csi_v v -> pbyte b -> plen_st st < 32 ->
  change_state (Kst v iv st) b = (Kst CsiParam iv (pstep st b), []).
Proof.
  destruct st as [[gs o] par]. unfold plen_st, pbyte, is_digit. cbn [fst snd]. intros Hv Hb Hl.
  unfold Kst, K, pstep. cbn [fst snd].
  destruct (N.eqb_spec b 59) as [->|H59]; [|destruct (N.eqb_spec b 58) as [->|H58]].
  - destruct Hv as [-> | ->]; unfold change_state; cbn [vst];
      unfold adv_csi_entry, adv_csi_param; ifs;
      unfold action_param, params_full, plen, MAX_PARAMS, push_param, set_vst;
      cbn [groups opn vst inter ignoring param osc_raw osc_params partial]; ifs; reflexivity.
  - destruct Hv as [-> | ->]; unfold change_state; cbn [vst];
      unfold adv_csi_entry, adv_csi_param; ifs;
      unfold action_subparam, params_full, plen, MAX_PARAMS, set_vst;
      cbn [groups opn vst inter ignoring param osc_raw osc_params partial]; ifs; reflexivity.
  - destruct Hv as [-> | ->]; unfold change_state; cbn [vst];
      unfold adv_csi_entry, adv_csi_param; ifs;
      unfold action_paramnext, params_full, plen, MAX_PARAMS, set_vst;
      cbn [groups opn vst inter ignoring param osc_raw osc_params partial]; ifs; reflexivity.
Qed.

Definition ibyte (b : N) : Prop := 32 <= b <= 47.

Lemma cs_inter v iv st b :
  csi_w v -> ibyte b -> len iv < 2 ->
  change_state (Kst v iv st) b = (Kst CsiIntermediate (iv ++ [b]) st, []).
Proof.
  destruct st as [[gs o] par]. unfold ibyte. intros Hv Hb Hl.
  unfold Kst, K. cbn [fst snd].
  destruct Hv as [-> | [-> | ->]]; unfold change_state; cbn [vst];
    unfold adv_csi_entry, adv_csi_param, adv_csi_intermediate; ifs;
    unfold action_collect, set_vst;
    cbn [groups opn vst inter ignoring param osc_raw osc_params partial]; ifs; reflexivity.
Qed.

Lemma cs_final_w v iv st f :
  csi_w v -> 64 <= f <= 126 -> plen_st st < 32 ->
  change_state (Kst v iv st) f =
  (K Ground iv (finish st) [] (snd st), [ACsi (finish st) iv false f]).
Proof.
  destruct st as [[gs o] par]. unfold plen_st, finish. cbn [fst snd]. intros Hv Hf Hl.
  unfold Kst, K. cbn [fst snd].
  destruct Hv as [-> | [-> | ->]]; unfold change_state; cbn [vst];
    unfold adv_csi_entry, adv_csi_param, adv_csi_intermediate; ifs;
    unfold csi_dispatch, params_full, plen, MAX_PARAMS, push_param, params_of, set_vst;
    cbn [groups opn vst inter ignoring param osc_raw osc_params partial]; ifs;
    cbn [groups opn vst inter ignoring param osc_raw osc_params partial app];
    rewrite app_nil_r; reflexivity.
Qed.

Lemma cs_marker m : 60 <= m <= 63 ->
  change_state (K CsiEntry [] [] [] 0) m = (K CsiParam [m] [] [] 0, []).
Proof.
  intros Hm. unfold K, change_state; cbn [vst]. unfold adv_csi_entry; ifs.
  unfold action_collect, set_vst. cbn [groups opn vst inter ignoring param osc_raw osc_params partial].
  change (len (@nil N) =? 2) with false. reflexivity.
Qed.

(* ------------------------------------------------------------------ *)
(* Runs of parameter bytes and of intermediates                        *)
(* ------------------------------------------------------------------ *)

Lemma run_pbytes bs : forall v iv st tail,
  csi_v v -> Forall pbyte bs -> plen_st st + nsep bs <= 31 ->
  exists v', csi_v v' /\
    run (Kst v iv st) (bs ++ tail) = run (Kst v' iv (fold_left pstep bs st)) tail.
Proof.
  induction bs as [|b bs IH]; intros v iv st tail Hv Hb Hl.
  - exists v. split; [exact Hv|reflexivity].
  - inversion Hb as [|b' bs' Hb1 Hb2]; subst.
    unfold nsep in Hl. cbn [filter] in Hl. fold (nsep bs) in Hl.
    assert (Hl1 : plen_st st < 32).
    { destruct (is_sep b); rewrite ?len_cons in Hl; lia. }
    cbn [app fold_left].
    rewrite (run_step _ b _ _ _ (csi_w_ng v iv st (csi_v_w v Hv)) (cs_pbyte v iv st b Hv Hb1 Hl1)).
    rewrite cat_nil.
    apply IH; [right; reflexivity|exact Hb2|].
    rewrite plen_pstep by exact Hb1.
    destruct (is_sep b); rewrite ?len_cons in Hl; fold (nsep bs) in Hl; lia.
Qed.

Lemma run_inters bs : forall v iv st tail,
  csi_w v -> Forall ibyte bs -> len iv + len bs <= 2 ->
  exists v', csi_w v' /\
    run (Kst v iv st) (bs ++ tail) = run (Kst v' (iv ++ bs) st) tail.
Proof.
  induction bs as [|b bs IH]; intros v iv st tail Hv Hb Hl.
  - exists v. split; [exact Hv|]. rewrite app_nil_r. reflexivity.
  - inversion Hb as [|b' bs' Hb1 Hb2]; subst. rewrite len_cons in Hl.
    cbn [app].
    rewrite (run_step _ b _ _ _ (csi_w_ng v iv st Hv) (cs_inter v iv st b Hv Hb1 ltac:(lia))).
    rewrite cat_nil.
    destruct (IH CsiIntermediate (iv ++ [b]) st tail) as (v' & Hv' & E).
    + right; right; reflexivity.
    + exact Hb2.
    + rewrite len_app, len_cons, len_nil. lia.
    + exists v'. split; [exact Hv'|]. rewrite E. rewrite <- app_assoc. reflexivity.
Qed.

(* ------------------------------------------------------------------ *)
(* The grammar of parameters (pure list lemmas)                        *)
(* ------------------------------------------------------------------ *)

Fixpoint join (sep : N) (l : list (list N)) : list N :=
  match l with
  | [] => []
  | [x] => x
  | x :: r => x ++ sep :: join sep r
  end.

Lemma join_cons2 sep x y r : join sep (x :: y :: r) = x ++ sep :: join sep (y :: r).
Proof. reflexivity. Qed.

(* a number is a (possibly empty) string of decimal digits; its value saturates at
   65535, the empty string is 0 *)
Definition num_val (ds : list N) : N := parse_digits ds 0.
Definition num_ok (ds : list N) : Prop := Forall is_digit ds.
(* a parameter: one or more numbers separated by ':' *)
Definition group_ok (g : list (list N)) : Prop := g <> [] /\ Forall num_ok g.
Definition ser_group (g : list (list N)) : list N := join 58 g.
(* the parameter string: one or more parameters separated by ';' *)
Definition ser_params (G : list (list (list N))) : list N := join 59 (map ser_group G).
Definition params_val (G : list (list (list N))) : list (list N) := map (map num_val) G.

Lemma fold_digits ds : forall gs o par, num_ok ds ->
  fold_left pstep ds (gs, o, par) = (gs, o, parse_digits ds par).
Proof.
  induction ds as [|d ds IH]; intros gs o par H; [reflexivity|].
  inversion H as [|d' ds' H1 H2]; subst. unfold is_digit in H1.
  cbn [fold_left]. unfold pstep at 2.
  replace (d =? 59) with false by lia. replace (d =? 58) with false by lia.
  rewrite IH by exact H2. reflexivity.
Qed.

Lemma nsep_app a b : nsep (a ++ b) = nsep a + nsep b.
Proof. unfold nsep. rewrite filter_app, len_app. reflexivity. Qed.

Lemma nsep_digits ds : num_ok ds -> nsep ds = 0.
Proof.
  induction 1 as [|d ds H1 H2 IH]; [reflexivity|].
  unfold nsep, is_digit in *. cbn [filter]. unfold is_sep at 1.
  replace ((d =? 58) || (d =? 59)) with false by lia. exact IH.
Qed.

Lemma pbyte_digits ds : num_ok ds -> Forall pbyte ds.
Proof. intros H. eapply Forall_impl; [|exact H]. intros d Hd. left. exact Hd. Qed.

Lemma fold_group g : forall gs o, group_ok g ->
  exists o' par',
    fold_left pstep (ser_group g) (gs, o, 0) = (gs, o', par') /\
    o' ++ [par'] = o ++ map num_val g.
Proof.
  unfold ser_group.
  induction g as [|d g IH]; intros gs o [Hne Hall]; [congruence|].
  inversion Hall as [|d' g' Hd Hg]; subst.
  destruct g as [|e g].
  - cbn [join map]. rewrite fold_digits by exact Hd. eexists _, _. split; reflexivity.
  - rewrite join_cons2, fold_left_app, fold_digits by exact Hd.
    cbn [fold_left]. unfold pstep at 2. change (58 =? 59) with false. change (58 =? 58) with true.
    cbv iota.
    destruct (IH gs (o ++ [parse_digits d 0])) as (o' & par' & E1 & E2).
    { split; [discriminate|exact Hg]. }
    exists o', par'. split; [exact E1|]. rewrite E2. cbn [map]. rewrite <- app_assoc. reflexivity.
Qed.

Lemma ser_group_bytes g : group_ok g ->
  Forall pbyte (ser_group g) /\ nsep (ser_group g) + 1 = len g.
Proof.
  unfold ser_group.
  induction g as [|d g IH]; intros [Hne Hall]; [congruence|].
  inversion Hall as [|d' g' Hd Hg]; subst.
  destruct g as [|e g].
  - cbn [join]. split; [apply pbyte_digits, Hd|]. rewrite nsep_digits by exact Hd.
    change (len [d]) with 1. lia.
  - rewrite join_cons2. destruct IH as [I1 I2]; [split; [discriminate|exact Hg]|].
    split.
    + apply Forall_app. split; [apply pbyte_digits, Hd|].
      constructor; [right; left; reflexivity|exact I1].
    + rewrite nsep_app, nsep_digits by exact Hd.
      change (58 :: join 58 (e :: g)) with ([58] ++ join 58 (e :: g)).
      rewrite nsep_app. change (nsep [58]) with 1. rewrite (len_cons d). lia.
Qed.

Lemma fold_params_str G : forall gs, G <> [] -> Forall group_ok G ->
  finish (fold_left pstep (ser_params G) (gs, [], 0)) = gs ++ params_val G.
Proof.
  unfold ser_params, params_val.
  induction G as [|g G IH]; intros gs Hne Hall; [congruence|].
  inversion Hall as [|g' G' Hg HG]; subst.
  destruct G as [|h G].
  - cbn [map join]. destruct (fold_group g gs [] Hg) as (o' & par' & E1 & E2).
    rewrite E1. unfold finish. cbn [fst snd]. rewrite E2. reflexivity.
  - cbn [map]. rewrite join_cons2, fold_left_app.
    destruct (fold_group g gs [] Hg) as (o' & par' & E1 & E2). rewrite E1.
    cbn [fold_left]. unfold pstep at 2. change (59 =? 59) with true. cbv iota.
    rewrite E2. cbn [app].
    change (join 59 (ser_group h :: map ser_group G)) with (join 59 (map ser_group (h :: G))).
    rewrite IH; [|discriminate|exact HG].
    cbn [map]. rewrite <- app_assoc. reflexivity.
Qed.

Lemma ser_params_bytes G : G <> [] -> Forall group_ok G ->
  Forall pbyte (ser_params G) /\ nsep (ser_params G) + 1 = len (concat G).
Proof.
  unfold ser_params.
  induction G as [|g G IH]; intros Hne Hall; [congruence|].
  inversion Hall as [|g' G' Hg HG]; subst.
  destruct (ser_group_bytes g Hg) as [B1 B2].
  destruct G as [|h G].
  - cbn [map join concat]. rewrite app_nil_r. auto.
  - cbn [map]. rewrite join_cons2. destruct IH as [I1 I2]; [discriminate|exact HG|].
    cbn [map] in I1, I2. split.
    + apply Forall_app. split; [exact B1|]. constructor; [right; right; reflexivity|exact I1].
    + rewrite nsep_app.
      change (59 :: join 59 (ser_group h :: map ser_group G))
        with ([59] ++ join 59 (ser_group h :: map ser_group G)).
      rewrite nsep_app. change (nsep [59]) with 1.
      cbn [concat]. rewrite (len_app g). cbn [concat] in I2. lia.
Qed.

(* ------------------------------------------------------------------ *)
(* General CSI sequences                                               *)
(* ------------------------------------------------------------------ *)

Definition marker_ok (mk : list N) : Prop := mk = [] \/ exists m, mk = [m] /\ 60 <= m <= 63.

Record csi_ok (mk : list N) (G : list (list (list N))) (ins : list N) (f : N) : Prop := mkCsiOk {
  co_marker : marker_ok mk;                 (* optional private marker  < = > ?            *)
  co_params : G <> [] /\ Forall group_ok G; (* >= 1 parameter, each >= 1 (possibly empty) number *)
  co_count : len (concat G) <= 32;          (* at most 32 numbers in total (MAX_PARAMS)     *)
  co_inters : Forall ibyte ins;             (* intermediates 0x20..0x2F                     *)
  co_two : len mk + len ins <= 2;           (* marker + intermediates: at most 2 are kept   *)
  co_final : 64 <= f <= 126 }.

Definition csi_bytes (mk : list N) (G : list (list (list N))) (ins : list N) (f : N) : list N :=
  27 :: 91 :: mk ++ ser_params G ++ ins ++ [f].

Definition csi_action (mk : list N) (G : list (list (list N))) (ins : list N) (f : N) : action :=
  ACsi (params_val G) (mk ++ ins) false f.

Theorem run_csi_general : forall p mk G ins f rest,
  ground p -> csi_ok mk G ins f ->
  exists q, ground q /\
    run p (csi_bytes mk G ins f ++ rest) = cat [csi_action mk G ins f] (run q rest).
Proof.
  intros p mk G ins f rest Hg [Hmk [HG1 HG2] Hcnt Hins Htwo Hf].
  unfold csi_bytes, csi_action. cbn [app].
  rewrite run_esc by exact (proj1 Hg). rewrite (enter_escape_ground p Hg).
  rewrite (run_step (C Escape [] [] 0) 91 _ _ _ ltac:(discriminate) cs_esc_bracket). rewrite cat_nil.
  destruct (ser_params_bytes G HG1 HG2) as [PB PN].
  (* after the optional marker *)
  assert (M : exists v, csi_v v /\
    run (C CsiEntry [] [] 0) ((mk ++ ser_params G ++ ins ++ [f]) ++ rest) =
    run (Kst v mk ([], [], 0)) (ser_params G ++ (ins ++ f :: rest))).
  { destruct Hmk as [->|(m & -> & Hm)].
    - exists CsiEntry. split; [left; reflexivity|]. cbn [app].
      rewrite <- !app_assoc. cbn [app]. reflexivity.
    - exists CsiParam. split; [right; reflexivity|]. cbn [app].
      change (C CsiEntry [] [] 0) with (K CsiEntry [] [] [] 0).
      rewrite (run_step (K CsiEntry [] [] [] 0) m _ _ _ ltac:(discriminate) (cs_marker m Hm)). rewrite cat_nil.
      rewrite <- !app_assoc. cbn [app]. reflexivity. }
  destruct M as (v & Hv & ->).
  (* the parameter string *)
  destruct (run_pbytes (ser_params G) v mk ([], [], 0) (ins ++ f :: rest) Hv PB) as (v1 & Hv1 & ->).
  { change (plen_st ([], [], 0)) with 0. lia. }
  set (st := fold_left pstep (ser_params G) ([], [], 0)).
  assert (Hst : plen_st st < 32).
  { assert (A : forall bs st0, Forall pbyte bs -> plen_st (fold_left pstep bs st0) = plen_st st0 + nsep bs).
    { induction bs as [|b bs IH]; intros st0 Hb; [change (nsep []) with 0; cbn [fold_left]; lia|].
      inversion Hb as [|b' bs' Hb1 Hb2]; subst. cbn [fold_left]. rewrite IH by exact Hb2.
      rewrite plen_pstep by exact Hb1. unfold nsep. cbn [filter].
      destruct (is_sep b); rewrite ?len_cons; lia. }
    unfold st. rewrite A by exact PB. change (plen_st ([], [], 0)) with 0. lia. }
  (* the intermediates *)
  destruct (run_inters ins v1 mk st (f :: rest) (csi_v_w v1 Hv1) Hins Htwo) as (v2 & Hv2 & ->).
  (* the final byte *)
  rewrite (run_step _ f _ _ _ (csi_w_ng v2 (mk ++ ins) st Hv2) (cs_final_w v2 (mk ++ ins) st f Hv2 Hf Hst)).
  assert (Fin : finish st = params_val G).
  { unfold st. rewrite (fold_params_str G [] HG1 HG2). reflexivity. }
  rewrite Fin. eexists. split; [apply ground_K|reflexivity].
Qed.

Theorem advance_csi_general : forall p mk G ins f,
  ground p -> csi_ok mk G ins f ->
  exists q, ground q /\ advance p (csi_bytes mk G ins f) = (q, [csi_action mk G ins f]).
Proof.
  intros p mk G ins f Hg Hok.
  destruct (run_csi_general p mk G ins f [] Hg Hok) as (q & Gq & E).
  exists q. split; [exact Gq|].
  rewrite advance_run by exact (proj1 (proj2 Hg)).
  rewrite app_nil_r in E. rewrite E, run_nil. reflexivity.
Qed.

(* the numeric form: parameters given as numbers <= 65535, printed in decimal *)
Definition csi_num_bytes (mk : list N) (ps : list (list N)) (ins : list N) (f : N) : list N :=
  csi_bytes mk (map (map itoa) ps) ins f.

Lemma params_val_itoa ps : Forall (Forall (fun x => x <= 65535)) ps ->
  params_val (map (map itoa) ps) = ps.
Proof.
  unfold params_val. induction 1 as [|g ps Hg Hps IH]; [reflexivity|].
  cbn [map]. rewrite IH. f_equal.
  induction Hg as [|x g Hx Hg IHg]; [reflexivity|].
  cbn [map]. rewrite IHg. unfold num_val. rewrite itoa_parse by exact Hx. reflexivity.
Qed.

Theorem advance_csi_numeric : forall p mk ps ins f,
  ground p -> marker_ok mk ->
  ps <> [] -> Forall (fun g => g <> []) ps -> Forall (Forall (fun x => x <= 65535)) ps ->
  len (concat ps) <= 32 -> Forall ibyte ins -> len mk + len ins <= 2 -> 64 <= f <= 126 ->
  exists q, ground q /\ advance p (csi_num_bytes mk ps ins f) = (q, [ACsi ps (mk ++ ins) false f]).
Proof.
  intros p mk ps ins f Hg Hmk Hne Hne2 Hr Hc Hi Ht Hf.
  assert (Hok : csi_ok mk (map (map itoa) ps) ins f).
  { split; auto.
    - split; [destruct ps; [congruence|discriminate]|].
      apply Forall_forall. intros g Hin. apply in_map_iff in Hin. destruct Hin as (g0 & <- & Hin).
      rewrite Forall_forall in Hne2. split.
      + specialize (Hne2 g0 Hin). destruct g0; [congruence|discriminate].
      + apply Forall_forall. intros d Hd. apply in_map_iff in Hd. destruct Hd as (x & <- & _).
        apply itoa_digits.
    - assert (E : len (concat (map (map itoa) ps)) = len (concat ps)).
      { clear. induction ps as [|g ps IH]; [reflexivity|]. cbn [map concat].
        rewrite !len_app, IH. f_equal. unfold len. rewrite map_length. reflexivity. }
      rewrite E. exact Hc. }
  destruct (advance_csi_general p mk _ ins f Hg Hok) as (q & Gq & E).
  exists q. split; [exact Gq|]. unfold csi_num_bytes. rewrite E. unfold csi_action.
  rewrite params_val_itoa by exact Hr. reflexivity.
Qed.

(* ------------------------------------------------------------------ *)
(* General ESC sequences                                               *)
(* ------------------------------------------------------------------ *)

Definition esc_v (v : vstate) : Prop := v = Escape \/ v = EscapeIntermediate.

Lemma cs_esc_inter v iv b :
  esc_v v -> ibyte b -> len iv < 2 ->
  change_state (K v iv [] [] 0) b = (K EscapeIntermediate (iv ++ [b]) [] [] 0, []).
Proof.
  unfold ibyte. intros Hv Hb Hl. unfold K.
  destruct Hv as [-> | ->]; unfold change_state; cbn [vst];
    unfold adv_esc, adv_esc_intermediate; ifs;
    unfold action_collect, set_vst;
    cbn [groups opn vst inter ignoring param osc_raw osc_params partial]; ifs; reflexivity.
Qed.

Lemma cs_escint_final iv f : 48 <= f <= 126 ->
  change_state (K EscapeIntermediate iv [] [] 0) f = (K Ground iv [] [] 0, [AEsc iv false f]).
Proof.
  intros Hf. unfold K, change_state; cbn [vst]. unfold adv_esc_intermediate; ifs. reflexivity.
Qed.

Lemma run_esc_inters bs : forall v iv tail,
  esc_v v -> bs <> [] -> Forall ibyte bs -> len iv + len bs <= 2 ->
  run (K v iv [] [] 0) (bs ++ tail) = run (K EscapeIntermediate (iv ++ bs) [] [] 0) tail.
Proof.
  induction bs as [|b bs IH]; intros v iv tail Hv Hne Hb Hl; [congruence|].
  inversion Hb as [|b' bs' Hb1 Hb2]; subst. rewrite len_cons in Hl. cbn [app].
  assert (Hng : vst (K v iv [] [] 0) <> Ground) by (destruct Hv as [-> | ->]; discriminate).
  rewrite (run_step _ b _ _ _ Hng (cs_esc_inter v iv b Hv Hb1 ltac:(lia))). rewrite cat_nil.
  destruct bs as [|c bs].
  - rewrite app_nil_l. reflexivity.
  - rewrite (IH EscapeIntermediate (iv ++ [b]) tail); [|right; reflexivity|discriminate|exact Hb2|].
    + rewrite <- app_assoc. reflexivity.
    + rewrite len_app, len_cons, len_nil. lia.
Qed.

(* final bytes: 0x30..0x7E; without an intermediate, the finals P X [ ] ^ _ open
   DCS / SOS / CSI / OSC / PM / APC instead *)
Record esc_ok (ins : list N) (f : N) : Prop := mkEscOk {
  eo_inters : Forall ibyte ins;
  eo_two : len ins <= 2;
  eo_final : 48 <= f <= 126;
  eo_excl : ins = [] -> f <> 80 /\ f <> 88 /\ f <> 91 /\ f <> 93 /\ f <> 94 /\ f <> 95 }.

Definition esc_bytes (ins : list N) (f : N) : list N := 27 :: ins ++ [f].

Theorem run_esc_general : forall p ins f rest,
  ground p -> esc_ok ins f ->
  run p (esc_bytes ins f ++ rest) = cat [AEsc ins false f] (run (K Ground ins [] [] 0) rest).
Proof.
  intros p ins f rest Hg [Hi Ht Hf Hx]. unfold esc_bytes. cbn [app].
  rewrite run_esc by exact (proj1 Hg). rewrite (enter_escape_ground p Hg).
  destruct ins as [|i ins].
  - cbn [app]. destruct (Hx eq_refl) as (X1 & X2 & X3 & X4 & X5 & X6).
    apply run_step; [discriminate|]. apply cs_esc_final. cbn [token_okw]. lia.
  - rewrite <- app_assoc. rewrite C_K.
    rewrite (run_esc_inters (i :: ins) Escape [] ([f] ++ rest)); [|left; reflexivity|discriminate|exact Hi|].
    2:{ rewrite len_nil. lia. }
    cbn [app]. apply run_step; [discriminate|]. apply cs_escint_final. exact Hf.
Qed.

Theorem advance_esc_general : forall p ins f,
  ground p -> esc_ok ins f ->
  advance p (esc_bytes ins f) = (K Ground ins [] [] 0, [AEsc ins false f]) /\
  ground (K Ground ins [] [] 0).
Proof.
  intros p ins f Hg Hok. split; [|apply ground_K].
  rewrite advance_run by exact (proj1 (proj2 Hg)).
  rewrite <- (app_nil_r (esc_bytes ins f)). rewrite (run_esc_general p ins f [] Hg Hok), run_nil.
  reflexivity.
Qed.

(* ------------------------------------------------------------------ *)
(* OSC strings                                                         *)
(* ------------------------------------------------------------------ *)

(* the OSC state: raw bytes collected so far, parameter index pairs *)
Definition O (raw : list N) (ps : list (N * N)) : pstate :=
  mkP OscString [] false [] [] 0 raw ps [].

(* bytes stored in an OSC field: everything from 0x20 upwards (including DEL and
   all bytes >= 0x80, i.e. UTF-8) except ';' *)
Definition obyte (b : N) : Prop := 32 <= b /\ b <> 59.

(* index pairs of consecutive fields *)
Fixpoint offs (start : N) (fs : list (list N)) : list (N * N) :=
  match fs with
  | [] => []
  | f :: r => (start, start + len f) :: offs (start + len f) r
  end.

Lemma offs_app s a b : offs s (a ++ b) = offs s a ++ offs (s + len (concat a)) b.
Proof.
  revert s. induction a as [|f a IH]; intros s; cbn [app offs concat].
  - rewrite len_nil, N.add_0_r. reflexivity.
  - rewrite IH, len_app. rewrite N.add_assoc. reflexivity.
Qed.

Lemma len_offs s fs : len (offs s fs) = len fs.
Proof. revert s. induction fs as [|f r IH]; intros s; cbn [offs]; [reflexivity|]. rewrite !len_cons, IH. reflexivity. Qed.

Lemma snd_last_offs fs : forall s d, fs <> [] -> snd (last (offs s fs) d) = s + len (concat fs).
Proof.
  induction fs as [|f r IH]; intros s d Hne; [congruence|].
  destruct r as [|f2 r].
  - cbn [offs last snd concat]. rewrite app_nil_r. reflexivity.
  - change (offs s (f :: f2 :: r)) with ((s, s + len f) :: offs (s + len f) (f2 :: r)).
    change (last ((s, s + len f) :: offs (s + len f) (f2 :: r)) d)
      with (last (offs (s + len f) (f2 :: r)) d).
    rewrite IH by discriminate. cbn [concat]. rewrite !len_app. lia.
Qed.

Lemma slices_offs fs : forall pre post,
  map (fun be : N * N => firstnN (snd be - fst be) (skipnN (fst be) (pre ++ concat fs ++ post)))
      (offs (len pre) fs) = fs.
Proof.
  induction fs as [|f r IH]; intros pre post; [reflexivity|].
  cbn [offs map fst snd concat]. f_equal.
  - rewrite skipnN_app_ge by lia. rewrite N.sub_diag, skipnN_0.
    replace (len pre + len f - len pre) with (len f) by lia.
    rewrite <- app_assoc. rewrite firstnN_app_le by lia. apply firstnN_all. lia.
  - rewrite <- (len_app pre f).
    replace (pre ++ (f ++ concat r) ++ post) with ((pre ++ f) ++ concat r ++ post)
      by (rewrite <- !app_assoc; reflexivity).
    apply IH.
Qed.

(* closing a field: ';' or a terminator *)
Lemma put_param_closed done cur : len done < 16 ->
  osc_put_param (O (concat done ++ cur) (offs 0 done)) =
  O (concat (done ++ [cur])) (offs 0 (done ++ [cur])).
Proof.
  intros Hl. unfold osc_put_param, O, set_osc.
  cbn [vst inter ignoring groups opn param osc_raw osc_params partial].
  rewrite concat_app. cbn [concat]. rewrite app_nil_r.
  rewrite offs_app. cbn [offs]. rewrite N.add_0_l.
  destruct done as [|d0 done].
  - cbn [offs concat app]. change (len (@nil N)) with 0. rewrite ?N.add_0_l. reflexivity.
  - change (offs 0 (d0 :: done)) with ((0, 0 + len d0) :: offs (0 + len d0) done).
    cbv iota.
    change ((0, 0 + len d0) :: offs (0 + len d0) done) with (offs 0 (d0 :: done)).
    rewrite len_offs. unfold MAX_OSC_PARAMS.
    destruct (N.eqb_spec (len (d0 :: done)) 16) as [E|_]; [lia|].
    rewrite snd_last_offs by discriminate. rewrite N.add_0_l, len_app. reflexivity.
Qed.

Lemma cs_osc_byte raw ps b : obyte b -> len raw < 1024 ->
  change_state (O raw ps) b = (O (raw ++ [b]) ps, []).
Proof.
  unfold obyte. intros [H32 H59] Hl. unfold O, change_state; cbn [vst]. unfold adv_osc_string.
  ifs. unfold osc_put, MAX_OSC_RAW, set_osc.
  cbn [vst inter ignoring groups opn param osc_raw osc_params partial]. ifs. reflexivity.
Qed.

Lemma run_field f : forall raw ps tail,
  Forall obyte f -> len raw + len f <= 1024 ->
  run (O raw ps) (f ++ tail) = run (O (raw ++ f) ps) tail.
Proof.
  induction f as [|b f IH]; intros raw ps tail Hb Hl.
  - rewrite app_nil_r. reflexivity.
  - inversion Hb as [|b' f' Hb1 Hb2]; subst. rewrite len_cons in Hl. cbn [app].
    rewrite (run_step (O raw ps) b _ _ _ ltac:(discriminate)
               (cs_osc_byte raw ps b Hb1 ltac:(lia))).
    rewrite cat_nil. rewrite IH; [|exact Hb2|rewrite len_app, len_cons, len_nil; lia].
    rewrite <- app_assoc. reflexivity.
Qed.

Lemma cs_osc_sep done cur :
  len done < 16 -> len (concat done ++ cur) < 1024 ->
  change_state (O (concat done ++ cur) (offs 0 done)) 59 =
  (O (concat (done ++ [cur])) (offs 0 (done ++ [cur])), []).
Proof.
  intros Hd Hl. rewrite <- (put_param_closed done cur Hd).
  unfold change_state. cbn [vst O]. unfold adv_osc_string.
  change (59 <=? 6) with false. change (rng 8 23 59) with false. change (59 =? 25) with false.
  change (rng 28 31 59) with false. change (59 =? 7) with false. change (59 =? 24) with false.
  change (59 =? 26) with false. change (59 =? 27) with false. change (59 =? 59) with true.
  cbn [orb]. cbv iota. unfold MAX_OSC_RAW.
  change (osc_raw (O (concat done ++ cur) (offs 0 done))) with (concat done ++ cur).
  destruct (N.eqb_spec (len (concat done ++ cur)) 1024); [lia|reflexivity].
Qed.

(* the end of the string: BEL (bell = true) or ESC (bell = false) *)
Lemma cs_osc_bel done cur : len done < 16 ->
  change_state (O (concat done ++ cur) (offs 0 done)) 7 =
  (p_init, [AOsc (done ++ [cur]) true]).
Proof.
  intros Hd. unfold change_state. cbn [vst O]. unfold adv_osc_string.
  change (7 <=? 6) with false. change (rng 8 23 7) with false. change (7 =? 25) with false.
  change (rng 28 31 7) with false. change (7 =? 7) with true. cbn [orb]. cbv iota.
  unfold osc_end. fold (O (concat done ++ cur) (offs 0 done)).
  rewrite (put_param_closed done cur Hd).
  unfold osc_slices, O. cbn [osc_raw osc_params].
  pose proof (slices_offs (done ++ [cur]) [] []) as S. cbn [app] in S. rewrite app_nil_r in S.
  change (len (@nil N)) with 0 in S. rewrite S. reflexivity.
Qed.

Lemma cs_osc_esc done cur : len done < 16 ->
  change_state (O (concat done ++ cur) (offs 0 done)) 27 =
  (K Escape [] [] [] 0, [AOsc (done ++ [cur]) false]).
Proof.
  intros Hd. unfold change_state. cbn [vst O]. unfold adv_osc_string.
  change (27 <=? 6) with false. change (rng 8 23 27) with false. change (27 =? 25) with false.
  change (rng 28 31 27) with false. change (27 =? 7) with false. change (27 =? 24) with false.
  change (27 =? 26) with false. change (27 =? 27) with true. cbn [orb]. cbv iota.
  unfold osc_end. fold (O (concat done ++ cur) (offs 0 done)).
  rewrite (put_param_closed done cur Hd).
  unfold osc_slices, O. cbn [osc_raw osc_params].
  pose proof (slices_offs (done ++ [cur]) [] []) as S. cbn [app] in S. rewrite app_nil_r in S.
  change (len (@nil N)) with 0 in S. rewrite S. reflexivity.
Qed.

(* the buffer limit: the raw buffer holds 1024 bytes; a ';' arriving when it is full
   is dropped.  [osc_fits used fs]: every field fits, and the buffer is not yet full
   when a separator arrives *)
Fixpoint osc_fits (used : N) (fs : list (list N)) : Prop :=
  match fs with
  | [] => True
  | [f] => used + len f <= 1024
  | f :: r => used + len f < 1024 /\ osc_fits (used + len f) r
  end.

Lemma osc_fits_small fs : forall used, used + len (concat fs) < 1024 -> osc_fits used fs.
Proof.
  induction fs as [|f r IH]; intros used H; [exact I|].
  cbn [concat] in H. rewrite len_app in H.
  destruct r as [|f2 r]; [cbn [osc_fits]; lia|].
  change (osc_fits used (f :: f2 :: r)) with (used + len f < 1024 /\ osc_fits (used + len f) (f2 :: r)).
  split; [lia|]. apply IH. lia.
Qed.

Record osc_ok (fs : list (list N)) : Prop := mkOscOk {
  oo_ne : fs <> [];                     (* at least one (possibly empty) field      *)
  oo_bytes : Forall (Forall obyte) fs;  (* field bytes: >= 0x20, not ';'            *)
  oo_count : len fs <= 16;              (* MAX_OSC_PARAMS                            *)
  oo_fits : osc_fits 0 fs }.            (* MAX_OSC_RAW = 1024                        *)

(* [t] is what follows the fields: the terminator and the rest of the stream *)
Lemma run_fields fs : forall done,
  fs <> [] -> Forall (Forall obyte) fs -> len done + len fs <= 16 ->
  osc_fits (len (concat done)) fs ->
  (forall rest, run (O (concat done) (offs 0 done)) (join 59 fs ++ 7 :: rest) =
                cat [AOsc (done ++ fs) true] (run p_init rest)) /\
  (forall rest, run (O (concat done) (offs 0 done)) (join 59 fs ++ 27 :: 92 :: rest) =
                cat [AOsc (done ++ fs) false; AEsc [] false 92] (run p_init rest)).
Proof.
  induction fs as [|f fs IH]; intros done Hne Hb Hc Hf; [congruence|].
  inversion Hb as [|f' fs' Hb1 Hb2]; subst. rewrite len_cons in Hc.
  destruct fs as [|f2 fs].
  - cbn [join osc_fits] in *. split; intros rest.
    + rewrite run_field by assumption.
      rewrite (run_step (O (concat done ++ f) (offs 0 done)) 7 _ _ _ ltac:(discriminate) (cs_osc_bel done f ltac:(lia))). reflexivity.
    + rewrite run_field by assumption.
      rewrite (run_step (O (concat done ++ f) (offs 0 done)) 27 _ _ _ ltac:(discriminate) (cs_osc_esc done f ltac:(lia))).
      rewrite (run_step (K Escape [] [] [] 0) 92 rest (K Ground [] [] [] 0) [AEsc [] false 92]
                 ltac:(discriminate)).
      2:{ apply cs_esc_final. reflexivity. }
      rewrite cat_cat. reflexivity.
  - change (osc_fits (len (concat done)) (f :: f2 :: fs))
      with (len (concat done) + len f < 1024 /\ osc_fits (len (concat done) + len f) (f2 :: fs)) in Hf.
    destruct Hf as [Hf1 Hf2].
    assert (Hd : len done < 16) by (rewrite len_cons in Hc; lia).
    destruct (IH (done ++ [f])) as [I1 I2].
    + discriminate.
    + exact Hb2.
    + rewrite len_app, len_cons, len_nil. lia.
    + rewrite concat_app, len_app. cbn [concat]. rewrite app_nil_r. exact Hf2.
    + rewrite join_cons2. split; intros rest.
      * rewrite <- app_assoc. cbn [app]. rewrite run_field by (auto; lia).
        rewrite (run_step (O (concat done ++ f) (offs 0 done)) 59 _ _ _ ltac:(discriminate)
                   (cs_osc_sep done f Hd ltac:(rewrite len_app; lia))).
        rewrite cat_nil. rewrite I1. rewrite <- app_assoc. reflexivity.
      * rewrite <- app_assoc. cbn [app]. rewrite run_field by (auto; lia).
        rewrite (run_step (O (concat done ++ f) (offs 0 done)) 59 _ _ _ ltac:(discriminate)
                   (cs_osc_sep done f Hd ltac:(rewrite len_app; lia))).
        rewrite cat_nil. rewrite I2. rewrite <- app_assoc. reflexivity.
Qed.

Definition osc_bytes_bel (fs : list (list N)) : list N := 27 :: 93 :: join 59 fs ++ [7].
Definition osc_bytes_st (fs : list (list N)) : list N := 27 :: 93 :: join 59 fs ++ [27; 92].

Lemma cs_esc_rbracket : change_state (C Escape [] [] 0) 93 = (O [] [], []).
Proof. vm_compute. reflexivity. Qed.

Theorem run_osc_bel : forall p fs rest,
  ground p -> osc_ok fs ->
  run p (osc_bytes_bel fs ++ rest) = cat [AOsc fs true] (run p_init rest).
Proof.
  intros p fs rest Hg [Hne Hb Hc Hf]. unfold osc_bytes_bel. cbn [app].
  rewrite run_esc by exact (proj1 Hg). rewrite (enter_escape_ground p Hg).
  rewrite (run_step (C Escape [] [] 0) 93 _ _ _ ltac:(discriminate) cs_esc_rbracket). rewrite cat_nil.
  rewrite <- app_assoc. cbn [app].
  destruct (run_fields fs [] Hne Hb) as [R _].
  - rewrite len_nil. lia.
  - exact Hf.
  - cbn [concat offs app] in R. apply R.
Qed.

(* with the ST terminator ESC \ the parser ADDITIONALLY dispatches the ESC sequence
   "ESC \" (final byte 92), which the performer reports as an unhandled escape *)
Theorem run_osc_st : forall p fs rest,
  ground p -> osc_ok fs ->
  run p (osc_bytes_st fs ++ rest) = cat [AOsc fs false; AEsc [] false 92] (run p_init rest).
Proof.
  intros p fs rest Hg [Hne Hb Hc Hf]. unfold osc_bytes_st. cbn [app].
  rewrite run_esc by exact (proj1 Hg). rewrite (enter_escape_ground p Hg).
  rewrite (run_step (C Escape [] [] 0) 93 _ _ _ ltac:(discriminate) cs_esc_rbracket). rewrite cat_nil.
  rewrite <- app_assoc. cbn [app].
  destruct (run_fields fs [] Hne Hb) as [_ R].
  - rewrite len_nil. lia.
  - exact Hf.
  - cbn [concat offs app] in R. apply R.
Qed.

Theorem advance_osc_bel : forall p fs, ground p -> osc_ok fs ->
  advance p (osc_bytes_bel fs) = (p_init, [AOsc fs true]).
Proof.
  intros p fs Hg Hok. rewrite advance_run by exact (proj1 (proj2 Hg)).
  rewrite <- (app_nil_r (osc_bytes_bel fs)). rewrite run_osc_bel by assumption. reflexivity.
Qed.

Theorem advance_osc_st : forall p fs, ground p -> osc_ok fs ->
  advance p (osc_bytes_st fs) = (p_init, [AOsc fs false; AEsc [] false 92]).
Proof.
  intros p fs Hg Hok. rewrite advance_run by exact (proj1 (proj2 Hg)).
  rewrite <- (app_nil_r (osc_bytes_st fs)). rewrite run_osc_st by assumption. reflexivity.
Qed.

(* ------------------------------------------------------------------ *)
(* Single characters                                                   *)
(* ------------------------------------------------------------------ *)

(* any scalar value other than ESC, in its UTF-8 encoding, yields exactly one action:
   AExecute for C0 and C1 characters, APrint otherwise (in particular APrint 65533
   for U+FFFD) *)
Theorem run_one_char : forall p c rest,
  vst p = Ground -> is_scalar c = true -> c <> 27 ->
  run p (utf8_encode c ++ rest) = cat [ground_action c] (run p rest).
Proof.
  intros p c rest Hg Hs H27.
  pose proof (decode1_encode c rest Hs) as D.
  rewrite (run_char p _ c (utf8_len c) Hg D).
  - rewrite skipnN_app_ge by (rewrite utf8_encode_len; lia).
    rewrite utf8_encode_len, N.sub_diag, skipnN_0. reflexivity.
  - pose proof (decode1_char_inv _ _ _ D) as (I1 & I2 & I3 & I4 & I5).
    destruct I5 as [(_ & I5 & I6)|(_ & _ & I5 & _)]; lia.
Qed.

Theorem advance_one_char : forall p c,
  ground p -> is_scalar c = true -> c <> 27 ->
  advance p (utf8_encode c) = (p, [ground_action c]).
Proof.
  intros p c Hg Hs H27. rewrite advance_run by exact (proj1 (proj2 Hg)).
  rewrite <- (app_nil_r (utf8_encode c)). rewrite run_one_char by (auto; exact (proj1 Hg)).
  rewrite run_nil. reflexivity.
Qed.

Lemma ground_action_cases c :
  (c <= 31 \/ 128 <= c <= 159 -> ground_action c = AExecute c) /\
  (32 <= c <= 127 \/ 160 <= c -> ground_action c = APrint c).
Proof.
  unfold ground_action, rng. split; intros H.
  - replace ((c <=? 31) || (128 <=? c) && (c <=? 159)) with true by lia. reflexivity.
  - replace ((c <=? 31) || (128 <=? c) && (c <=? 159)) with false by lia. reflexivity.
Qed.

(* a byte that cannot start a UTF-8 sequence (0x80..0xBF, 0xC0, 0xC1, 0xF5..0xFF):
   exactly one action; raw C1 bytes 0x80..0x9F are executed, the others are
   replaced by U+FFFD *)
Theorem run_invalid_byte : forall p b rest,
  vst p = Ground -> 128 <= b -> ~ (194 <= b <= 244) ->
  run p (b :: rest) = cat [if b <=? 159 then AExecute b else APrint REPL] (run p rest).
Proof.
  intros p b rest Hg H1 H2.
  assert (D : decode1 (b :: rest) = DErr 1).
  { unfold decode1, in_range.
    replace (b <? 128) with false by lia.
    replace ((194 <=? b) && (b <=? 223)) with false by lia.
    replace ((224 <=? b) && (b <=? 239)) with false by lia.
    replace ((240 <=? b) && (b <=? 244)) with false by lia. reflexivity. }
  rewrite (run_err p (b :: rest) 1 Hg D). unfold erract. cbn [hd].
  change (1 =? 1) with true. cbn [andb]. reflexivity.
Qed.
