(* DiffRoundU.v — Stage 4 (and the composition part of Stage 5) of C02: composition with C01.
   For reachable screens P and S of equal size, viewed at scrollback offset 0,
     class U: none of whose visible rows is soft-wrapped, or more generally
     class W: every soft-wrapped row is flagged in both, cell-wise equal in both, and so is the
              row after it,
   the round trip of DiffRound.v holds: a fresh parser fed the BYTES of P.state_formatted() and
   then the BYTES of S.state_diff(P) ends with the observation of S.  Also along chains. *)
Require Import Tac ListN Utf8 Width Attrs Cell Row Grid Screen Vte Perform Parser Term Emit.
Require Import RowInv GridInv TextInv ScreenInv ParseSer CellWf WfInv WrapInv WrapInvScreen SgrSpec EmitSafe ObsSpec.
Require Import AttrsInv EmitTokens CellInv Recv RowPaint Redraw Cursor C01Main C15Main CapInv Idem LastRow C01Examples Bytes.
Require Import DiffRound DiffPaint DiffGrid DiffMain.
Require Import Chunking PendTok.
Open Scope N_scope.

(* class U (one screen): scrollback offset 0 and no soft-wrapped visible row *)
Definition in_U (s : screen) : Prop := sb_off (cur s) = 0 /\ unwrapped_rows (live (cur s)).

(* class W (a pair): scrollback offset 0 in both and every soft-wrapped row untouched *)
Definition in_W (P S : screen) : Prop :=
  sb_off (cur P) = 0 /\ sb_off (cur S) = 0 /\ untouched_wraps (live (cur S)) (live (cur P)).

Lemma in_U_W P S : in_U P -> in_U S -> in_W P S.
Proof. intros [O1 U1] [O2 U2]. split; [exact O1|]. split; [exact O2|]. now apply unwrapped_untouched. Qed.

Lemma reachable_source s : reachable s -> sb_off (cur s) = 0 -> source_ok s (live (cur s)).
Proof.
  intros (rows & cols & cap & rz & ops & p & q & Hr & Hc & En & Fo & Er & <-) Off.
  exact (reachable_source_ok rows cols cap rz ops p q Hr Hc En Fo Er Off).
Qed.

(* the last live row of a reachable screen is never flagged (LastRow.v) *)
Lemma reachable_lastu s : reachable s ->
  forall src, get (live (cur s)) (grows (cur s) - 1) = Some src -> wrapped src = false.
Proof.
  intros (rows & cols & cap & rz & ops & p & q & Hr & Hc & En & Fo & Er & <-).
  exact (history_lastu rows cols cap rz ops p q Hr Hc En Fo Er).
Qed.

Lemma unwrapped_last s : unwrapped_rows (live (cur s)) ->
  forall src, get (live (cur s)) (grows (cur s) - 1) = Some src -> wrapped src = false.
Proof. intros U src G. exact (Forall_get _ _ _ _ U G). Qed.

(* ------------------------------------------------------------------ *)
(* action level                                                         *)
(* ------------------------------------------------------------------ *)
(* C01 delivers a receiver that shows P *)
Lemma C01_shows P R ts : source_ok P (live (cur P)) ->
  (forall src, get (live (cur P)) (grows (cur P) - 1) = Some src -> wrapped src = false) ->
  canvas R -> grows (g R) = grows (cur P) -> gcols (g R) = gcols (cur P) ->
  mmode R = MNone -> menc R = EDefault -> state_formatted_t P = Ok ts ->
  exists R1, play false R ts = Ok (R1, []) /\ shows P R1 (live (cur P)) /\ same_modes P R1.
Proof.
  intros HP UP CR Er Ec Hm He Ets.
  destruct (C01_fresh P R _ ts HP CR Er Ec Hm He Ets) as (R1 & P1 & C1 & So & Sm).
  exists R1. split; [exact P1|]. split; [|exact Sm].
  apply same_obs_shows; auto. apply (source_dims _ _ HP).
Qed.

Theorem diff_round_play_W P S R tsP tsD :
  source_ok P (live (cur P)) -> source_ok S (live (cur S)) ->
  (forall src, get (live (cur P)) (grows (cur P) - 1) = Some src -> wrapped src = false) ->
  untouched_wraps (live (cur S)) (live (cur P)) -> sb_off (cur S) = 0 ->
  grows (cur S) = grows (cur P) -> gcols (cur S) = gcols (cur P) ->
  canvas R -> grows (g R) = grows (cur P) -> gcols (g R) = gcols (cur P) ->
  mmode R = MNone -> menc R = EDefault ->
  state_formatted_t P = Ok tsP -> state_diff_t S P = Ok tsD ->
  exists R1 R2, play false R tsP = Ok (R1, []) /\ play false R1 tsD = Ok (R2, []) /\
                canvas R2 /\ obs R2 = obs S.
Proof.
  intros HP HS LP HW Off Er Ec CR Rr Rc Hm He EP ED.
  destruct (C01_shows P R tsP HP LP CR Rr Rc Hm He EP) as (R1 & P1 & Sh1 & Sm1).
  destruct (state_diff_obs_W S P R1 tsD HS HP HW Off Er Ec Sh1 Sm1 ED) as (R2 & P2 & C2 & Eo & _).
  exists R1, R2. auto.
Qed.

Theorem diff_round_play_U P S R tsP tsD :
  source_ok P (live (cur P)) -> source_ok S (live (cur S)) ->
  unwrapped_rows (live (cur P)) -> unwrapped_rows (live (cur S)) -> sb_off (cur S) = 0 ->
  grows (cur S) = grows (cur P) -> gcols (cur S) = gcols (cur P) ->
  canvas R -> grows (g R) = grows (cur P) -> gcols (g R) = gcols (cur P) ->
  mmode R = MNone -> menc R = EDefault ->
  state_formatted_t P = Ok tsP -> state_diff_t S P = Ok tsD ->
  exists R1 R2, play false R tsP = Ok (R1, []) /\ play false R1 tsD = Ok (R2, []) /\
                canvas R2 /\ obs R2 = obs S.
Proof.
  intros HP HS UP US. apply diff_round_play_W; auto.
  - now apply unwrapped_last.
  - now apply unwrapped_untouched.
Qed.

(* ------------------------------------------------------------------ *)
(* byte level: one diff step on a parser                                *)
(* ------------------------------------------------------------------ *)
Lemma diff_step_bytes_W P S r :
  reachable P -> reachable S -> in_W P S ->
  grows (cur S) = grows (cur P) -> gcols (cur S) = gcols (cur P) ->
  pend r = [] -> ground (vt r) -> shows P (scr r) (live (cur P)) -> same_modes P (scr r) ->
  exists ts r', state_diff_t S P = Ok ts /\ process r (ser_all ts) = Ok r' /\
    log r' = log r /\ ground (vt r') /\ resizing r' = resizing r /\
    shows S (scr r') (live (cur S)) /\ same_modes S (scr r') /\ obs (scr r') = obs S /\ pend r' = [].
Proof.
  intros RP RS (OffP & OffS & HW) Er Ec Hpd Gr Sh Sm.
  pose proof (reachable_source P RP OffP) as HP. pose proof (reachable_source S RS OffS) as HS.
  destruct (reachable_tokens_ok S P 0 0 RS RP) as (_ & _ & _ & _ & (ts & Ets & Tok & _) & _).
  destruct (state_diff_obs_W S P (scr r) ts HS HP HW OffS Er Ec Sh Sm Ets) as (R' & P' & C' & Eo & Sh' & Sm').
  destruct (process_tokens r ts R' Hpd Gr Tok P') as (r' & Ep & <- & El & Gq & Rz).
  pose proof (process_ser_all_pend r ts r' Hpd Tok Ep) as Hpd'.
  exists ts, r'. auto 12.
Qed.

Lemma diff_step_bytes P S r :
  reachable P -> reachable S -> in_U P -> in_U S ->
  grows (cur S) = grows (cur P) -> gcols (cur S) = gcols (cur P) ->
  pend r = [] -> ground (vt r) -> shows P (scr r) (live (cur P)) -> same_modes P (scr r) ->
  exists ts r', state_diff_t S P = Ok ts /\ process r (ser_all ts) = Ok r' /\
    log r' = log r /\ ground (vt r') /\ resizing r' = resizing r /\
    shows S (scr r') (live (cur S)) /\ same_modes S (scr r') /\ obs (scr r') = obs S /\ pend r' = [].
Proof. intros RP RS UP US. apply diff_step_bytes_W; auto. now apply in_U_W. Qed.

(* the reproduction of P *)
Lemma reproduce_shows P : reachable P -> sb_off (cur P) = 0 ->
  exists r, reproduce P = Ok r /\ log r = [] /\ ground (vt r) /\
            shows P (scr r) (live (cur P)) /\ same_modes P (scr r).
Proof.
  intros RP OffP. pose proof (reachable_source P RP OffP) as HP.
  destruct (reachable_inv _ RP) as (I1 & I2 & I3).
  destruct (cur_ok _ I1) as (K & _).
  destruct (parser_new_ok (grows (cur P)) (gcols (cur P)) 0 false (gk_rows _ K) (gk_cols _ K)) as (r0 & En & _).
  destruct (fresh_canvas _ _ 0 false r0 (gk_rows _ K) (gk_cols _ K) En) as (CR & R1 & R2 & M1 & M2 & _).
  destruct (fresh_ground _ _ _ _ _ En) as [G0 L0].
  destruct (state_formatted_ok P I1) as (ts & Ets).
  pose proof (state_formatted_tok P ts I1 I2 I3 Ets) as Tok.
  destruct (C01_shows P (scr r0) ts HP (reachable_lastu P RP) CR R1 R2 M1 M2 Ets) as (R' & P' & Sh & Sm).
  destruct (process_tokens r0 ts R' (parser_new_pend _ _ _ _ _ En) G0 Tok P') as (r & Ep & <- & El & Gq & _).
  exists r. unfold reproduce. rewrite En. cbn [bind]. rewrite Ets. cbn [bind].
  split; [exact Ep|]. split; [congruence|]. auto.
Qed.

(* ------------------------------------------------------------------ *)
(* C02: the executable round trip of DiffRound.v                        *)
(* ------------------------------------------------------------------ *)
Theorem diff_round_W_strong P S :
  reachable P -> reachable S -> in_W P S ->
  grows (cur P) = grows (cur S) -> gcols (cur P) = gcols (cur S) ->
  exists r, diff_round P S = Ok r /\ obs (scr r) = obs S /\ log r = [] /\ ground (vt r) /\ canvas (scr r).
Proof.
  intros RP RS HW Er Ec.
  destruct (reproduce_shows P RP (proj1 HW)) as (r & Erp & Lr & Gr & Sh & Sm).
  destruct (diff_step_bytes_W P S r RP RS HW (eq_sym Er) (eq_sym Ec) (reproduce_pend P r RP Erp) Gr Sh Sm)
    as (ts & r' & Ets & Ep & El & Gq & _ & Sh' & _ & Eo & _).
  exists r'. unfold diff_round. rewrite Erp. cbn [bind]. rewrite Ets. cbn [bind].
  split; [exact Ep|]. split; [exact Eo|]. split; [congruence|]. split; [exact Gq|apply Sh'].
Qed.

Theorem diff_round_ok_W P S :
  reachable P -> reachable S -> in_W P S ->
  grows (cur P) = grows (cur S) -> gcols (cur P) = gcols (cur S) ->
  diff_round_ok P S.
Proof.
  intros RP RS HW Er Ec.
  destruct (diff_round_W_strong P S RP RS HW Er Ec) as (r & E & Eo & _).
  destruct (reachable_inv _ RS) as (I1 & _). destruct (obs_ok S I1) as (o & Ho & _).
  exists r, o. split; [exact E|]. split; [now rewrite Eo|exact Ho].
Qed.

(* class U *)
Theorem diff_round_ok_U P S :
  reachable P -> reachable S -> in_U P -> in_U S ->
  grows (cur P) = grows (cur S) -> gcols (cur P) = gcols (cur S) ->
  diff_round_ok P S.
Proof. intros RP RS UP US. apply diff_round_ok_W; auto. now apply in_U_W. Qed.

Theorem diff_round_U_strong P S :
  reachable P -> reachable S -> in_U P -> in_U S ->
  grows (cur P) = grows (cur S) -> gcols (cur P) = gcols (cur S) ->
  exists r, diff_round P S = Ok r /\ obs (scr r) = obs S /\ log r = [] /\ ground (vt r) /\ canvas (scr r).
Proof. intros RP RS UP US. apply diff_round_W_strong; auto. now apply in_U_W. Qed.

(* ------------------------------------------------------------------ *)
(* chains                                                               *)
(* ------------------------------------------------------------------ *)
Fixpoint last_snap (prev : screen) (snaps : list screen) : screen :=
  match snaps with
  | [] => prev
  | s :: rest => last_snap s rest
  end.

(* every snapshot is reachable, of the common size, and each consecutive pair is in class W *)
Fixpoint chain_W (rows cols : N) (prev : screen) (snaps : list screen) : Prop :=
  match snaps with
  | [] => True
  | s :: rest => reachable s /\ grows (cur s) = rows /\ gcols (cur s) = cols /\ in_W prev s /\
                 chain_W rows cols s rest
  end.

Theorem diff_chain_W rows cols : forall snaps prev r,
  reachable prev -> sb_off (cur prev) = 0 -> grows (cur prev) = rows -> gcols (cur prev) = cols ->
  chain_W rows cols prev snaps ->
  pend r = [] -> ground (vt r) -> shows prev (scr r) (live (cur prev)) -> same_modes prev (scr r) ->
  exists r', diff_chain r prev snaps = Ok r' /\ log r' = log r /\ ground (vt r') /\
             shows (last_snap prev snaps) (scr r') (live (cur (last_snap prev snaps))) /\
             same_modes (last_snap prev snaps) (scr r') /\
             obs (scr r') = obs (last_snap prev snaps).
Proof.
  induction snaps as [|s rest IH]; intros prev r RP Off Pr Pc Hs Hpd Gr Sh Sm.
  - exists r. cbn [diff_chain last_snap]. split; [reflexivity|]. split; [reflexivity|]. split; [exact Gr|].
    split; [exact Sh|]. split; [exact Sm|]. now apply shows_obs.
  - destruct Hs as (RS & Sr & Sc & HW & Hrest).
    destruct (diff_step_bytes_W prev s r RP RS HW ltac:(congruence) ltac:(congruence) Hpd Gr Sh Sm)
      as (ts & r1 & Ets & Ep & El & G1 & _ & Sh1 & Sm1 & _ & Pd1).
    destruct HW as (_ & OffS & _).
    destruct (IH s r1 RS OffS Sr Sc Hrest Pd1 G1 Sh1 Sm1) as (r' & E' & L' & G' & Sh' & Sm' & Eo').
    exists r'. cbn [diff_chain last_snap]. rewrite Ets. cbn [bind]. rewrite Ep. cbn [bind].
    split; [exact E'|]. split; [congruence|]. auto.
Qed.

(* the chain statement of C02: reproduce S0, then feed diff(S1,S0), diff(S2,S1), ... *)
Theorem diff_chain_round_W rows cols S0 snaps :
  reachable S0 -> sb_off (cur S0) = 0 -> grows (cur S0) = rows -> gcols (cur S0) = cols ->
  chain_W rows cols S0 snaps ->
  exists r r', reproduce S0 = Ok r /\ diff_chain r S0 snaps = Ok r' /\
               obs (scr r') = obs (last_snap S0 snaps) /\ log r' = [] /\ ground (vt r').
Proof.
  intros R0 Off Rr Rc Hs.
  destruct (reproduce_shows S0 R0 Off) as (r & Erp & Lr & Gr & Sh & Sm).
  destruct (diff_chain_W rows cols snaps S0 r R0 Off Rr Rc Hs (reproduce_pend S0 r R0 Erp) Gr Sh Sm) as (r' & E' & L' & G' & _ & _ & Eo).
  exists r, r'. split; [exact Erp|]. split; [exact E'|]. split; [exact Eo|]. split; [congruence|exact G'].
Qed.

(* class U: every snapshot reachable, in U, of the common size *)
Definition snap_ok (rows cols : N) (s : screen) : Prop :=
  reachable s /\ in_U s /\ grows (cur s) = rows /\ gcols (cur s) = cols.

Lemma snaps_chain_W rows cols : forall snaps prev, in_U prev -> Forall (snap_ok rows cols) snaps ->
  chain_W rows cols prev snaps.
Proof.
  induction snaps as [|s rest IH]; intros prev UP Hs; cbn [chain_W]; [exact I|].
  inv Hs. destruct H1 as (RS & US & Sr & Sc).
  split; [exact RS|]. split; [exact Sr|]. split; [exact Sc|]. split; [now apply in_U_W|]. now apply IH.
Qed.

Theorem diff_chain_U rows cols : forall snaps prev r,
  snap_ok rows cols prev -> Forall (snap_ok rows cols) snaps ->
  pend r = [] -> ground (vt r) -> shows prev (scr r) (live (cur prev)) -> same_modes prev (scr r) ->
  exists r', diff_chain r prev snaps = Ok r' /\ log r' = log r /\ ground (vt r') /\
             shows (last_snap prev snaps) (scr r') (live (cur (last_snap prev snaps))) /\
             same_modes (last_snap prev snaps) (scr r') /\
             obs (scr r') = obs (last_snap prev snaps).
Proof.
  intros snaps prev r (RP & UP & Pr & Pc) Hs. apply (diff_chain_W rows cols); auto.
  - apply UP.
  - now apply snaps_chain_W.
Qed.

Theorem diff_chain_round_U rows cols S0 snaps :
  snap_ok rows cols S0 -> Forall (snap_ok rows cols) snaps ->
  exists r r', reproduce S0 = Ok r /\ diff_chain r S0 snaps = Ok r' /\
               obs (scr r') = obs (last_snap S0 snaps) /\ log r' = [] /\ ground (vt r').
Proof.
  intros (R0 & U0 & Rr & Rc) Hs. apply (diff_chain_round_W rows cols); auto.
  - apply U0.
  - now apply snaps_chain_W.
Qed.
