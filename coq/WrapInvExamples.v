(* WrapInvExamples.v — non-vacuity examples for the wrapped-row invariant
   (WrapInv.v) on concrete byte streams through the real parser: rows do get
   flagged, the flag follows the row into the scrollback, and the operations
   that blank the last column clear it. *)
Require Import Tac ListN Utf8 Width Attrs Cell Row Grid Screen Vte Perform Parser.
Require Import GridInv ScreenInv WrapInv WrapInvScreen.
Open Scope N_scope.

Definition scr_after (rows cols cap : N) (ops : list api_op) : option screen :=
  match parser_new rows cols cap false with
  | Ok p => match run p ops with Ok q => Some (scr q) | Panic _ => None end
  | Panic _ => None
  end.

(* flags of the live rows, flags of the scrollback rows, the boolean invariant *)
Definition summary (o : option screen) : option (list bool * list bool * bool) :=
  match o with
  | Some s => Some (map wrapped (live (g s)), map wrapped (sb (g s)), screen_wrapinvb s)
  | None => None
  end.

Definition WIDE : list N := [228; 184; 150].          (* U+4E16, two columns *)
Definition CUU : list N := [27; 91; 65].              (* CSI A *)
Definition CHA (d : N) : list N := [27; 91; 48 + d; 71].   (* CSI d G *)
Definition EL0 : list N := [27; 91; 75].              (* CSI K *)
Definition ECH1 : list N := [27; 91; 88].             (* CSI X *)
Definition abcdef : list N := [97; 98; 99; 100; 101; 102].

(* six characters on a five-column screen: row 0 is flagged, its last cell holds 'e' *)
Example ex_wrap_narrow :
  summary (scr_after 3 5 0 [OpProcess abcdef]) = Some ([true; false; false], [], true).
Proof. vm_compute. reflexivity. Qed.

(* a wide character that does not fit after "abcd" moves to the next row, but the
   last column of row 0 is empty, so row 0 is NOT flagged *)
Example ex_wide_at_margin :
  summary (scr_after 3 5 0 [OpProcess ([97; 98; 99; 100] ++ WIDE)]) = Some ([false; false; false], [], true).
Proof. vm_compute. reflexivity. Qed.

(* "abc", a wide character in columns 3-4, then 'x': row 0 is flagged and its last
   cell is a continuation cell *)
Example ex_wrap_after_wide :
  summary (scr_after 3 5 0 [OpProcess ([97; 98; 99] ++ WIDE ++ [120])]) = Some ([true; false; false], [], true).
Proof. vm_compute. reflexivity. Qed.

(* erasing the last column clears the flag ... *)
Example ex_erase_last :
  summary (scr_after 3 5 0 [OpProcess (abcdef ++ CUU ++ CHA 5 ++ EL0)]) = Some ([false; false; false], [], true).
Proof. vm_compute. reflexivity. Qed.

(* ... erasing another column does not *)
Example ex_erase_other :
  summary (scr_after 3 5 0 [OpProcess (abcdef ++ CUU ++ CHA 4 ++ ECH1)]) = Some ([true; false; false], [], true).
Proof. vm_compute. reflexivity. Qed.

(* erasing the first half of the wide character in columns 3-4 blanks the last
   column as the cut half: the flag is cleared *)
Example ex_erase_cut_wide :
  summary (scr_after 3 5 0 [OpProcess ([97; 98; 99] ++ WIDE ++ [120] ++ CUU ++ CHA 4 ++ ECH1)])
  = Some ([false; false; false], [], true).
Proof. vm_compute. reflexivity. Qed.

(* a wide character written at column 2 lands on the first half of the wide
   character in columns 3-4: the old continuation cell in the last column is
   cleared and so is the flag *)
Example ex_overwrite_wide :
  summary (scr_after 3 5 0 [OpProcess ([97; 98; 99] ++ WIDE ++ [120] ++ CUU ++ CHA 3 ++ WIDE)])
  = Some ([false; false; false], [], true).
Proof. vm_compute. reflexivity. Qed.

(* flagged rows keep their flag (and their cells) when they scroll into the history *)
Example ex_scrollback :
  summary (scr_after 2 3 10 [OpProcess [97; 98; 99; 100; 101; 102; 103; 104; 105; 106]])
  = Some ([true; false], [true; true], true).
Proof. vm_compute. reflexivity. Qed.

(* a resize (even to the same size) clears the flags of all live rows *)
Example ex_set_size :
  summary (scr_after 3 5 0 [OpProcess abcdef; OpSetSize 3 5]) = Some ([false; false; false], [], true).
Proof. vm_compute. reflexivity. Qed.

(* the general theorem instantiated: no computation needed *)
Example ex_theorem ops q :
  Forall op_ok ops -> (match parser_new 24 80 100 false with Ok p => run p ops | Panic k => Panic k end) = Ok q ->
  screen_wrapinvb (scr q) = true.
Proof.
  intros Fo E. destruct (parser_new 24 80 100 false) as [p|k] eqn:En; [|discriminate].
  apply screen_wrapinvb_spec. eapply (history_wrapinv 24 80 100 false ops p q); eauto; unfold MAXDIM; lia.
Qed.
