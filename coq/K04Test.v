(* K04Test.v — milestone 1: the repaired Parser.process is tested by vm_compute on all 1- and
   2-point cuts of 39 byte strings, before anything is proved about it. *)
Require Import Base Utf8 Screen Vte Perform Parser.
Open Scope N_scope.

Goal map incomplete_tail [[195]; [228;184]; [240;159;152]; [195;169]; [65]; [169]; [228;65]; [27;91;195]; []; [237;160]]
   = [1;2;3;0;0;0;0;1;0;0].
Proof. vm_compute. reflexivity. Qed.

Fixpoint pchunks (p : parser) (cs : list (list N)) : res parser :=
  match cs with
  | [] => Ok p
  | c :: r => do q <- process p c; pchunks q r
  end.

(* all [a; b; c] with a ++ b ++ c = s (includes empty chunks, hence all 1-point cuts too) *)
Definition cuts2 (s : list N) : list (list (list N)) :=
  flat_map (fun i => map (fun j => [firstn i s; firstn j (skipn i s); skipn j (skipn i s)])
                         (seq 0 (S (length s - i)))) (seq 0 (S (length s))).

Definition p0 : res parser := parser_new 4 10 5 true.

Definition same (s : list N) : Prop :=
  match p0 with
  | Ok p => map (pchunks p) (cuts2 s) = map (fun _ => pchunks p [s]) (cuts2 s)
  | Panic _ => False
  end.

Definition strings : list (list N) := [
  [195;169;65;195;169];                                (* the K04a witness: e-acute A e-acute *)
  [65;195;169;66;228;184;150;67];                      (* ascii, 2-byte, 3-byte *)
  [240;159;152;128;65;240;159;152;128];                (* 4-byte characters *)
  [228;184;150;228;184;150;228;184;150;228;184;150];   (* wide characters wrapping *)
  [27;91;51;49;109;195;169;27;91;109;65];              (* CSI SGR around text *)
  [27;93;48;59;195;169;228;184;150;7;65];              (* OSC title with utf-8 inside, BEL *)
  [27;93;50;59;240;159;152;128;27;92;66];              (* OSC with 4-byte char, ST *)
  [27;93;48;59;195];                                   (* OSC truncated inside a character *)
  [27;91;195;169;109];                                 (* utf-8 inside a CSI *)
  [27;80;195;169;27;92;195;169];                       (* DCS with utf-8 inside *)
  [169;65;169;169];                                    (* lone continuation bytes *)
  [195;65;195;195;169];                                (* lead byte followed by ascii / lead *)
  [192;128;65];                                        (* C0 (overlong lead) *)
  [255;65;254;195;169];                                (* FF FE *)
  [237;160;128;65];                                    (* surrogate ED A0 80 *)
  [237;159;191;237;160];                               (* last pre-surrogate, then surrogate prefix *)
  [224;128;128;224;160;128];                           (* overlong 3-byte, minimal 3-byte *)
  [240;128;128;128;240;144;128;128];                   (* overlong 4-byte, minimal 4-byte *)
  [244;143;191;191;244;144;128;128];                   (* U+10FFFF, then above range *)
  [245;128;128;128];                                   (* invalid lead F5 *)
  [228;184];                                           (* truncated 3-byte *)
  [240;159;152];                                       (* truncated 4-byte *)
  [65;66;240;159];                                     (* text then truncated *)
  [228;184;27;91;65;150];                              (* ESC inside a character *)
  [240;159;27;93;48;59;152;128;7];                     (* OSC start inside a character *)
  [195;169;13;10;195;169;8;195;169];                   (* controls between characters *)
  [194;133;194;155;51;49;109;65];                      (* C1 controls NEL, CSI encoded as utf-8 *)
  [155;51;49;109;144;65;156];                          (* raw C1 bytes *)
  [27;195;169;27;40;195;169];                          (* ESC followed by utf-8 *)
  [27;91;63;49;48;52;57;104;195;169;27;91;63;49;48;52;57;108;228;184;150];  (* alt screen *)
  [27;91;56;59;50;48;116;228;184;150;228];             (* resize request, then text, truncated *)
  [101;204;129;228;184;150;204;129;204];               (* combining characters, truncated *)
  [24;195;26;169;27;24;228;184;150];                   (* CAN / SUB *)
  [27;93;195;169;59;228;184;7;150;128;191];            (* OSC params with utf-8, stray conts *)
  (* an incomplete sequence followed by a lead byte: the delivered prefix itself ends incomplete, so
     vte's own partial buffer is NOT empty at such a cut (see REPORT: the invariant partial = [] is false) *)
  [195;195;169;65;195;169];
  [228;184;228;184;150;65;228;184;150];
  [240;159;152;240;159;152;128;65;195;169];
  [195;228;240;195;169;66;228;184;150];
  [65;228;184;195;169;65;195;169;240;159;195;169;66;195;169]
].

Goal Forall same strings.
Proof. unfold strings. repeat (apply Forall_cons; [vm_compute; reflexivity|]). apply Forall_nil. Qed.

(* the same from a parser that already holds back a tail and sits inside an OSC string *)
Definition same_from (pre s : list N) : Prop :=
  match p0 with
  | Ok p => match process p pre with
            | Ok p1 => map (pchunks p1) (cuts2 s) = map (fun _ => pchunks p1 [s]) (cuts2 s)
            | Panic _ => False
            end
  | Panic _ => False
  end.

Goal Forall (same_from [65; 228; 184]) strings.
Proof. unfold strings. repeat (apply Forall_cons; [vm_compute; reflexivity|]). apply Forall_nil. Qed.
Goal Forall (same_from [27; 93; 48; 59; 240; 159]) strings.
Proof. unfold strings. repeat (apply Forall_cons; [vm_compute; reflexivity|]). apply Forall_nil. Qed.

(* the number of chunkings evaluated per starting state *)
Eval vm_compute in fold_right (fun s n => length (cuts2 s) + n)%nat 0%nat strings.

(* control: the same harness does detect K04a when the bytes go to vte unshielded (old process) *)
Definition process_old (p : parser) (bs : list N) : res parser :=
  let '(v, acts) := advance (vt p) bs in
  do '(s, evs) <- perform_all (resizing p) (scr p) acts [];
  Ok (mkParser v s (log p ++ evs) (resizing p) []).
Goal match p0 with
     | Ok p => (do q <- process_old p [195]; process_old q [169;65;195;169]) <> process_old p [195;169;65;195;169]
     | Panic _ => False end.
Proof. vm_compute. discriminate. Qed.
