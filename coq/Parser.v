(* Parser.v — parser.rs: Parser::new / process / io::Write, plus the public
   Screen mutators reachable through screen_mut(). *)
Require Import Base Screen Vte Perform.

Record parser := mkParser {
  vt : pstate;
  scr : screen;
  log : list event;          (* callback events, oldest first *)
  resizing : bool }.

Definition parser_new (rows cols cap : N) (resizing : bool) : res parser :=
  do s <- screen_new rows cols cap; Ok (mkParser p_init s [] resizing).

Definition process (p : parser) (bs : list N) : res parser :=
  let '(v, acts) := advance (vt p) bs in
  do '(s, evs) <- perform_all (resizing p) (scr p) acts [];
  Ok (mkParser v s (log p ++ evs) (resizing p)).

(* io::Write::write = process, reports the whole buffer; flush = identity *)
Definition write (p : parser) (bs : list N) : res (parser * N) :=
  do q <- process p bs; Ok (q, len bs).
Definition flush (p : parser) : parser := p.

Inductive api_op :=
| OpProcess (bs : list N)
| OpWrite (bs : list N)
| OpSetSize (r c : N)
| OpSetScrollback (k : N).

Definition with_scr (p : parser) (s : screen) : parser := mkParser (vt p) s (log p) (resizing p).

Definition step (p : parser) (o : api_op) : res parser :=
  match o with
  | OpProcess bs => process p bs
  | OpWrite bs => do '(q, _) <- write p bs; Ok q
  | OpSetSize r c => do s <- screen_set_size (scr p) r c; Ok (with_scr p s)
  | OpSetScrollback k => Ok (with_scr p (screen_set_scrollback (scr p) k))
  end.

Fixpoint run (p : parser) (ops : list api_op) : res parser :=
  match ops with
  | [] => Ok p
  | o :: rest => do q <- step p o; run q rest
  end.
