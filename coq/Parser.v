(* Parser.v — parser.rs: Parser::new / process / io::Write, plus the public
   Screen mutators reachable through screen_mut(). *)
Require Import Base Utf8 Screen Vte Perform.

Record parser := mkParser {
  vt : pstate;
  scr : screen;
  log : list event;          (* callback events, oldest first *)
  resizing : bool;
  pend : list N }.           (* bytes held back: an incomplete utf-8 tail of the input so far *)

Definition parser_new (rows cols cap : N) (resizing : bool) : res parser :=
  do s <- screen_new rows cols cap; Ok (mkParser p_init s [] resizing []).

(* incomplete_utf8_tail: the length of the longest suffix (at most 3 bytes) which is a proper
   prefix of a utf-8 encoded character (from_utf8 fails with valid_up_to = 0, error_len = None) *)
Definition tail_incomplete (n : N) (bs : list N) : bool :=
  (n <=? len bs) &&
  (let '(_, valid, stop) := from_utf8 (skipnN (len bs - n) bs) in
   (valid =? 0) && match stop with UPartial => true | _ => false end).

Definition incomplete_tail (bs : list N) : N :=
  if tail_incomplete 3 bs then 3
  else if tail_incomplete 2 bs then 2
  else if tail_incomplete 1 bs then 1
  else 0.

(* Parser::process: vte never sees an incomplete utf-8 sequence at the end of a chunk (repair of
   finding K04a); the held-back tail is prepended to the next chunk *)
Definition process (p : parser) (bs : list N) : res parser :=
  let buf := pend p ++ bs in
  let keep := incomplete_tail buf in
  let head := firstnN (len buf - keep) buf in
  let tail := skipnN (len buf - keep) buf in
  let '(v, acts) := advance (vt p) head in
  do '(s, evs) <- perform_all (resizing p) (scr p) acts [];
  Ok (mkParser v s (log p ++ evs) (resizing p) tail).

(* io::Write::write = process, reports the whole buffer; flush = identity *)
Definition write (p : parser) (bs : list N) : res (parser * N) :=
  do q <- process p bs; Ok (q, len bs).
Definition flush (p : parser) : parser := p.

Inductive api_op :=
| OpProcess (bs : list N)
| OpWrite (bs : list N)
| OpSetSize (r c : N)
| OpSetScrollback (k : N).

Definition with_scr (p : parser) (s : screen) : parser := mkParser (vt p) s (log p) (resizing p) (pend p).

Definition step (p : parser) (o : api_op) : res parser :=
  match o with
  | OpProcess bs => process p bs
  | OpWrite bs => do '(q, _) <- write p bs; Ok q
  | OpSetSize r c => do s <- screen_set_size (scr p) r c; Ok (with_scr p s)
  | OpSetScrollback k => Ok (with_scr p (screen_set_scrollback (scr p) k))
  end.

Fixpoint run (p : parser) (ops : list api_op) : res parser :=
  match ops with
  | [] => Ok p
  | o :: rest => do q <- step p o; run q rest
  end.
