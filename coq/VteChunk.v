(* VteChunk.v — the repaired parser [advance'], chunking independence modulo
   [norm], relation to the real parser (finding K04a), chunk lists. *)
Require Import Tac Utf8 Vte Utf8Lemmas VteInv.
Open Scope N_scope.

(* ---------- the repaired parser ---------- *)

Definition advance_partial' (p : pstate) (bs : list N) : pstate * list action * N :=
  let old := len (partial p) in
  let to_copy := N.min (len bs) (4 - old) in
  let buf := partial p ++ firstnN to_copy bs in
  let '(chars, valid, stop) := from_utf8 buf in
  match stop with
  | UOk =>
    let c := hd 0 chars in
    (set_partial p [], [APrint c], utf8_len c - old)
  | _ =>
    if 0 <? valid then (set_partial p [], [APrint (hd 0 chars)], utf8_len (hd 0 chars) - old)
    else match stop with
         | UErr l => (set_partial p [], [APrint REPL], l - old)
         | _ => (set_partial p buf, [], to_copy)
         end
  end.

Definition advance' (p : pstate) (bs : list N) : pstate * list action :=
  match partial p with
  | [] => advance_loop (S (length bs)) p bs []
  | _ =>
    let '(q, a, n) := advance_partial' p bs in
    advance_loop (S (length bs)) q (skipnN n bs) a
  end.

Definition norm (a : action) : action :=
  match a with
  | APrint c => if (128 <=? c) && (c <? 160) then AExecute c else a
  | _ => a
  end.
Definition norms : list action -> list action := map norm.

(* ---------- K04a trigger and relation to the real parser ---------- *)

Definition k04a (p : pstate) (bs : list N) : bool :=
  match partial p with
  | [] => false
  | _ =>
    let old := len (partial p) in
    let to_copy := N.min (len bs) (4 - old) in
    let buf := partial p ++ firstnN to_copy bs in
    let '(chars, valid, stop) := from_utf8 buf in
    match stop with
    | UOk => false
    | _ => (0 <? valid) && (utf8_len (hd 0 chars) <? valid)
    end
  end.

Lemma advance_partial_eq p bs :
  k04a p bs = false -> partial p <> [] -> advance_partial p bs = advance_partial' p bs.
Proof.
  unfold k04a, advance_partial, advance_partial'. intros K Hp.
  destruct (partial p) as [|x l] eqn:Ep; [congruence|].
  destruct (from_utf8 _) as [[chars valid] stop] eqn:F.
  apply from_utf8_spec in F. destruct F as (F1 & F2 & _).
  destruct stop; [reflexivity| |];
  (destruct (N.ltb_spec 0 valid) as [V|V]; [|reflexivity]);
  cbn [andb] in K; rewrite F2 in V; pose proof (sum_len_hd chars V);
  repeat f_equal; lia.
Qed.

Theorem advance_eq_advance' : forall p bs, k04a p bs = false -> advance p bs = advance' p bs.
Proof.
  intros p bs K. unfold advance, advance'.
  destruct (partial p) as [|x l] eqn:Ep; [reflexivity|].
  rewrite advance_partial_eq; auto. congruence.
Qed.

Example k04a_witness :
  exists p a b, pwf p /\
    a = [195] /\ b = [169; 65; 195; 169] /\
    k04a (fst (advance p a)) b = true /\
    snd (advance p a) = [] /\
    snd (advance (fst (advance p a)) b) = [APrint 233; APrint 233] /\
    snd (advance p (a ++ b)) = [APrint 233; APrint 65; APrint 233] /\
    snd (advance' (fst (advance' p a)) b) = [APrint 233; APrint 65; APrint 233] /\
    fst (advance (fst (advance p a)) b) = fst (advance p (a ++ b)).
Proof.
  exists p_init, [195], [169; 65; 195; 169].
  split; [apply pwf_init|]. vm_compute. repeat split; reflexivity.
Qed.


(* ---------- the main loop: accumulator and fuel ---------- *)

Definition cat (a : list action) (X : pstate * list action) : pstate * list action :=
  (fst X, a ++ snd X).

Lemma cat_nil X : cat [] X = X.
Proof. destruct X; reflexivity. Qed.

Lemma cat_cat a b X : cat a (cat b X) = cat (a ++ b) X.
Proof. unfold cat; cbn [fst snd]. now rewrite app_assoc. Qed.

Lemma advance_loop_acc fuel : forall p bs acc,
  advance_loop fuel p bs acc = cat acc (advance_loop fuel p bs []).
Proof.
  induction fuel as [|fuel IH]; intros p bs acc; cbn [advance_loop].
  - unfold cat; cbn. now rewrite app_nil_r.
  - destruct bs as [|b rest]; [unfold cat; cbn; now rewrite app_nil_r|].
    destruct (vst p);
    try (destruct (change_state p b) as [q a]; rewrite (IH _ _ (acc ++ a)), (IH _ _ ([] ++ a));
         cbn [app]; now rewrite cat_cat).
    destruct (advance_ground p (b :: rest)) as [[q a] n].
    rewrite (IH _ _ (acc ++ a)), (IH _ _ ([] ++ a)). cbn [app]. now rewrite cat_cat.
Qed.

Lemma advance_ground_pos p bs q a n : bs <> [] -> advance_ground p bs = (q, a, n) -> 1 <= n.
Proof.
  intros Hne H. unfold advance_ground in H.
  assert (Hlen : 1 <= len bs) by (destruct bs; [congruence|rewrite len_cons; lia]).
  destruct (N.eqb_spec (find_esc bs) 0) as [E0|E0]; [inv H; lia|].
  destruct (from_utf8 _) as [[chars valid] stop] eqn:F.
  apply from_utf8_spec in F. destruct F as (F1 & F2 & F3).
  destruct stop.
  - destruct (_ <? _); inv H; lia.
  - inv H. apply decode1_err_inv in F3. lia.
  - destruct (_ <? _); inv H; lia.
Qed.

Lemma advance_loop_fuel f1 : forall f2 p bs acc,
  (length bs < f1)%nat -> (length bs < f2)%nat ->
  advance_loop f1 p bs acc = advance_loop f2 p bs acc.
Proof.
  induction f1 as [|f1 IH]; intros f2 p bs acc H1 H2; [lia|].
  destruct f2 as [|f2]; [lia|]. cbn [advance_loop].
  destruct bs as [|b rest]; [reflexivity|]. cbn [length] in *.
  destruct (vst p);
  try (destruct (change_state p b) as [q a]; apply IH; lia).
  destruct (advance_ground p (b :: rest)) as [[q a] n] eqn:G.
  apply advance_ground_pos in G; [|discriminate].
  apply IH; unfold skipnN; rewrite skipn_length; cbn [length]; lia.
Qed.

Definition run (p : pstate) (bs : list N) : pstate * list action :=
  advance_loop (S (length bs)) p bs [].

Lemma advance_loop_run fuel p bs acc :
  (length bs < fuel)%nat -> advance_loop fuel p bs acc = cat acc (run p bs).
Proof.
  intros H. rewrite advance_loop_acc. unfold run. f_equal. apply advance_loop_fuel; lia.
Qed.

Lemma advance_loop_S fuel p b rest acc :
  advance_loop (S fuel) p (b :: rest) acc =
  match vst p with
  | Ground =>
    let '(q, a, n) := advance_ground p (b :: rest) in
    advance_loop fuel q (skipnN n (b :: rest)) (acc ++ a)
  | _ =>
    let '(q, a) := change_state p b in
    advance_loop fuel q rest (acc ++ a)
  end.
Proof. reflexivity. Qed.

Lemma run_nil p : run p [] = (p, []).
Proof. reflexivity. Qed.

Lemma run_nonground p b bs : vst p <> Ground ->
  run p (b :: bs) = cat (snd (change_state p b)) (run (fst (change_state p b)) bs).
Proof.
  intros Hg. unfold run at 1. rewrite advance_loop_S.
  destruct (vst p); try congruence;
  destruct (change_state p b) as [q a]; cbn [fst snd app]; apply advance_loop_run; cbn [length]; lia.
Qed.

Lemma run_ground p bs : vst p = Ground -> bs <> [] ->
  run p bs = let '(q, a, n) := advance_ground p bs in cat a (run q (skipnN n bs)).
Proof.
  intros Hg Hne. unfold run at 1. destruct bs as [|b rest]; [congruence|].
  rewrite advance_loop_S. rewrite Hg.
  destruct (advance_ground p (b :: rest)) as [[q a] n] eqn:G.
  apply advance_ground_pos in G; [|discriminate]. cbn [app].
  apply advance_loop_run. unfold skipnN; rewrite skipn_length; cbn [length]; lia.
Qed.

Lemma advance'_run p bs :
  advance' p bs =
  match partial p with
  | [] => run p bs
  | _ => let '(q, a, n) := advance_partial' p bs in cat a (run q (skipnN n bs))
  end.
Proof.
  unfold advance'. destruct (partial p) as [|x0 l0]; [reflexivity|].
  destruct (advance_partial' p bs) as [[q a] n].
  apply advance_loop_run. unfold skipnN; rewrite skipn_length; lia.
Qed.


(* ---------- more list helpers ---------- *)

Lemma nth_skipn' {A} (d : A) (n v : nat) (l : list A) : nth (n + v) l d = nth v (skipn n l) d.
Proof.
  revert l; induction n as [|n IH]; intros l; [reflexivity|].
  destruct l; [destruct v; reflexivity|]. cbn [Nat.add nth skipn]. apply IH.
Qed.

Lemma nth_skipnN (d : N) n v l : nth (N.to_nat (n + v)) l d = nth (N.to_nat v) (skipnN n l) d.
Proof.
  unfold skipnN. rewrite <- nth_skipn'. f_equal. lia.
Qed.

Lemma nth0_hd (l : list N) : nth (N.to_nat 0) l 0 = hd 0 l.
Proof. destruct l; reflexivity. Qed.

Lemma decode1_char_firstn_ge bs c n m :
  decode1 bs = DChar c n -> n <= m -> decode1 (firstnN m bs) = DChar c n.
Proof.
  intros D H. rewrite <- (firstnN_skipnN n (firstnN m bs)).
  rewrite firstnN_firstnN. replace (N.min n m) with n by lia.
  apply decode1_char_app, decode1_char_firstn, D.
Qed.

Lemma decode1_err_firstn_gt bs l m :
  decode1 bs = DErr l -> l < m -> decode1 (firstnN m bs) = DErr l.
Proof.
  intros D H. rewrite <- (firstnN_skipnN (l + 1) (firstnN m bs)).
  rewrite firstnN_firstnN. replace (N.min (l + 1) m) with (l + 1) by lia.
  apply decode1_err_app, decode1_err_firstn, D.
Qed.

Lemma find_esc_char bs c n :
  decode1 bs = DChar c n -> hd 0 bs <> 27 -> find_esc bs = n + find_esc (skipnN n bs).
Proof.
  intros D H27. apply decode1_char_inv in D. destruct D as (I1 & I2 & I3 & I4 & I5).
  destruct I5 as [(-> & I5 & I6)|(I5 & I6 & I7 & I8)].
  - destruct bs as [|b r]; [rewrite len_nil in I2; lia|].
    cbn [hd] in *. cbn [find_esc]. destruct (N.eqb_spec b 27); [congruence|]. reflexivity.
  - rewrite <- (firstnN_skipnN n bs) at 1. rewrite find_esc_hi by exact I8.
    rewrite len_firstnN. f_equal. lia.
Qed.

Lemma find_esc_err bs l :
  decode1 bs = DErr l -> find_esc bs = l + find_esc (skipnN l bs).
Proof.
  intros D. apply decode1_err_inv in D. destruct D as (I1 & I2 & I3 & I4 & _).
  rewrite <- (firstnN_skipnN l bs) at 1. rewrite find_esc_hi by exact I4.
  rewrite len_firstnN. f_equal. lia.
Qed.

Lemma find_esc_all_hi bs : hi bs -> find_esc bs = len bs.
Proof.
  intros H. rewrite <- (app_nil_r bs) at 1. rewrite find_esc_hi by exact H. cbn [find_esc]. lia.
Qed.

Lemma from_utf8_nil : from_utf8 [] = ([], 0, UOk).
Proof. reflexivity. Qed.

(* ---------- advance_ground on a stream starting with ESC / a complete
   character / an invalid sequence / an incomplete sequence ---------- *)

Lemma advance_ground_esc p bs : advance_ground p (27 :: bs) = (enter_escape p, [], 1).
Proof. unfold advance_ground. cbn [find_esc]. gsimp. reflexivity. Qed.

Lemma run_esc p bs : vst p = Ground -> run p (27 :: bs) = run (enter_escape p) bs.
Proof.
  intros Hg. rewrite run_ground by (auto; discriminate). rewrite advance_ground_esc.
  rewrite cat_nil. reflexivity.
Qed.

Lemma advance_ground_char p bs c n :
  decode1 bs = DChar c n -> hd 0 bs <> 27 -> skipnN n bs <> [] ->
  advance_ground p bs =
  let '(q, a, m) := advance_ground p (skipnN n bs) in (q, ground_action c :: a, n + m).
Proof.
  intros D H27 Hne.
  pose proof (decode1_char_inv _ _ _ D) as (I1 & I2 & I3 & I4 & _).
  unfold advance_ground. rewrite (find_esc_char _ _ _ D H27).
  set (rest := skipnN n bs) in *. set (k := find_esc rest).
  assert (Hlen : len bs = n + len rest) by (unfold rest; rewrite len_skipnN; lia).
  assert (Hrest : 1 <= len rest) by (destruct rest; [congruence|rewrite len_cons; lia]).
  pose proof (find_esc_le rest) as Hk. fold k in Hk.
  destruct (N.eqb_spec (n + k) 0) as [|_]; [lia|].
  assert (T : from_utf8 (firstnN (n + k) bs) =
              let '(chars, valid, stop) := from_utf8 (firstnN k rest) in
              (c :: chars, n + valid, stop)).
  { rewrite from_utf8_unfold. rewrite (decode1_char_firstn_ge _ _ _ _ D) by lia.
    rewrite skipnN_firstnN. reflexivity. }
  rewrite T. clear T.
  destruct (N.eqb_spec k 0) as [K0|K0].
  - rewrite K0. change (firstnN 0 rest) with (@nil N). rewrite from_utf8_nil.
    destruct (N.ltb_spec (n + 0) (len bs)); [|lia]. cbn [map]. f_equal. lia.
  - destruct (from_utf8 (firstnN k rest)) as [[chars valid] stop].
    destruct stop.
    + destruct (N.ltb_spec (n + k) (len bs)); destruct (N.ltb_spec k (len rest)); try lia;
        cbn [map]; f_equal; lia.
    + cbn [map app]. rewrite nth_skipnN. fold rest. f_equal. lia.
    + destruct (N.ltb_spec (n + k) (len bs)); destruct (N.ltb_spec k (len rest)); try lia;
        cbn [map app].
      * f_equal. lia.
      * rewrite <- skipnN_skipnN. fold rest. f_equal. lia.
Qed.

Lemma advance_ground_char_end p bs c n :
  decode1 bs = DChar c n -> hd 0 bs <> 27 -> skipnN n bs = [] ->
  advance_ground p bs = (p, [ground_action c], n).
Proof.
  intros D H27 He.
  pose proof (decode1_char_inv _ _ _ D) as (I1 & I2 & I3 & I4 & _).
  unfold advance_ground. rewrite (find_esc_char _ _ _ D H27). rewrite He. cbn [find_esc].
  assert (Hlen : len bs = n).
  { pose proof (len_skipnN n bs) as L. rewrite He, len_nil in L. lia. }
  destruct (N.eqb_spec (n + 0) 0) as [|_]; [lia|].
  rewrite firstnN_all by lia.
  rewrite from_utf8_unfold, D, He, from_utf8_nil.
  destruct (N.ltb_spec (n + 0) (len bs)); [lia|]. cbn [map]. f_equal. lia.
Qed.

Lemma run_char p bs c n :
  vst p = Ground -> decode1 bs = DChar c n -> hd 0 bs <> 27 ->
  run p bs = cat [ground_action c] (run p (skipnN n bs)).
Proof.
  intros Hg D H27.
  pose proof (decode1_char_inv _ _ _ D) as (I1 & I2 & _).
  assert (Hne : bs <> []) by (intros ->; rewrite len_nil in I2; lia).
  rewrite run_ground by auto.
  destruct (skipnN n bs) as [|x r] eqn:Er.
  - rewrite (advance_ground_char_end _ _ _ _ D H27 Er). rewrite Er. reflexivity.
  - rewrite (advance_ground_char _ _ _ _ D H27) by (rewrite Er; discriminate).
    rewrite Er. rewrite (run_ground p (x :: r)) by (auto; discriminate).
    destruct (advance_ground p (x :: r)) as [[q a] m].
    rewrite cat_cat. cbn [app]. rewrite <- Er. rewrite skipnN_skipnN. reflexivity.
Qed.


Definition erract (l : N) (bs : list N) : action :=
  if (l =? 1) && (hd 0 bs <=? 159) then AExecute (hd 0 bs) else APrint REPL.

Lemma run_err p bs l :
  vst p = Ground -> decode1 bs = DErr l ->
  run p bs = cat [erract l bs] (run p (skipnN l bs)).
Proof.
  intros Hg D.
  pose proof (decode1_err_inv _ _ D) as (I1 & I2 & I3 & I4 & I5).
  assert (Hne : bs <> []) by (intros ->; rewrite len_nil in I2; lia).
  rewrite run_ground by auto.
  unfold advance_ground. rewrite (find_esc_err _ _ D).
  set (rest := skipnN l bs) in *. set (k := find_esc rest).
  assert (Hlen : len bs = l + len rest) by (unfold rest; rewrite len_skipnN; lia).
  pose proof (find_esc_le rest) as Hk. fold k in Hk.
  destruct (N.eqb_spec (l + k) 0) as [|_]; [lia|].
  assert (ERR : forall m, decode1 (firstnN m bs) = DErr l ->
     (let '(chars, valid, stop) := from_utf8 (firstnN m bs) in
      let acts := map ground_action chars in
      match stop with
      | UOk => if m <? len bs then (enter_escape p, acts, m + 1) else (p, acts, m)
      | UErr l0 =>
        let b := nth (N.to_nat valid) bs 0 in
        (p, acts ++ [if (l0 =? 1) && (b <=? 159) then AExecute b else APrint REPL], valid + l0)
      | UPartial =>
        if m <? len bs then (enter_escape p, acts ++ [APrint REPL], m + 1)
        else (set_partial p (partial p ++ skipnN valid bs), acts, len bs)
      end) = (p, [erract l bs], l)).
  { intros m Dm. rewrite from_utf8_unfold, Dm. cbn [map app]. rewrite nth0_hd.
    unfold erract. f_equal. }
  destruct (N.eqb_spec k 0) as [K0|K0].
  - rewrite K0. replace (l + 0) with l by lia.
    destruct I5 as [(L1 & I5)|(I5 & I6 & I7)].
    + specialize (ERR l I5). cbv zeta in ERR. cbv zeta.
      destruct (from_utf8 (firstnN l bs)) as [[chars valid] stop].
      rewrite ERR. reflexivity.
    + rewrite from_utf8_unfold, I5. cbn [map app].
      destruct (N.ltb_spec l (len bs)); [|lia].
      unfold erract. destruct (N.leb_spec (hd 0 bs) 159); [lia|]. rewrite andb_false_r.
      f_equal.
      destruct (find_esc_0 rest K0) as [E|[r E]].
      * rewrite E, len_nil in Hlen. lia.
      * rewrite E. rewrite run_esc by auto. f_equal.
        replace (l + 1) with (l + 1) by lia. rewrite <- skipnN_skipnN. fold rest. rewrite E.
        reflexivity.
  - assert (Dm : decode1 (firstnN (l + k) bs) = DErr l)
      by (apply decode1_err_firstn_gt; [exact D|lia]).
    specialize (ERR _ Dm). cbv zeta in ERR. cbv zeta.
    destruct (from_utf8 (firstnN (l + k) bs)) as [[chars valid] stop].
    rewrite ERR. reflexivity.
Qed.

Lemma run_inc p bs :
  vst p = Ground -> partial p = [] -> decode1 bs = DIncomplete ->
  run p bs = (set_partial p bs, []).
Proof.
  intros Hg Hp D.
  pose proof (decode1_inc_inv _ D) as (I1 & I2 & I3).
  assert (Hne : bs <> []) by (intros ->; rewrite len_nil in I1; lia).
  rewrite run_ground by auto.
  unfold advance_ground. rewrite (find_esc_all_hi _ I2).
  destruct (N.eqb_spec (len bs) 0) as [|_]; [lia|].
  rewrite firstnN_all by lia. rewrite from_utf8_unfold, D.
  destruct (N.ltb_spec (len bs) (len bs)); [lia|].
  rewrite Hp. cbn [app map]. rewrite skipnN_0. rewrite skipnN_all by lia.
  rewrite run_nil. reflexivity.
Qed.


(* ---------- equivalence of results modulo [norm] ---------- *)

Definition req (X Y : pstate * list action) : Prop :=
  fst X = fst Y /\ norms (snd X) = norms (snd Y).

Lemma req_refl X : req X X.
Proof. split; reflexivity. Qed.

Lemma req_sym X Y : req X Y -> req Y X.
Proof. intros [A B]; split; congruence. Qed.

Lemma req_trans X Y Z : req X Y -> req Y Z -> req X Z.
Proof. intros [A B] [C D]; split; congruence. Qed.

Lemma norms_app a b : norms (a ++ b) = norms a ++ norms b.
Proof. apply map_app. Qed.

Lemma req_cat a b X Y : norms a = norms b -> req X Y -> req (cat a X) (cat b Y).
Proof.
  intros H [A B]; split; cbn [cat fst snd]; [exact A|]. rewrite !norms_app. congruence.
Qed.

Lemma norm_print_ground c : 128 <= c -> norm (APrint c) = norm (ground_action c).
Proof.
  intros H. unfold ground_action, rng, norm.
  destruct (N.leb_spec c 31); [lia|]. cbn [orb].
  destruct (N.leb_spec 128 c); [|lia]. cbn [andb].
  destruct (N.leb_spec c 159); destruct (N.ltb_spec c 160); try lia; try reflexivity.
  destruct (N.leb_spec 128 c); [|lia]. cbn [andb].
  destruct (N.ltb_spec c 160); try lia; reflexivity.
Qed.

(* ---------- the partial path in terms of the first character ---------- *)

Lemma firstnN_min {A} n (l : list A) : firstnN (N.min (len l) n) l = firstnN n l.
Proof.
  destruct (N.le_gt_cases (len l) n).
  - rewrite !firstnN_all by lia. reflexivity.
  - f_equal. lia.
Qed.

Lemma decode1_firstnN4 l : decode1 (firstnN 4 l) = decode1 l.
Proof. apply decode1_firstn4. Qed.

Lemma set_partial_same p : set_partial p (partial p) = p.
Proof. destruct p; reflexivity. Qed.

Lemma advance_partial'_spec p bs :
  pwf p -> partial p <> [] ->
  advance_partial' p bs =
  match decode1 (partial p ++ bs) with
  | DChar c n => (set_partial p [], [APrint c], n - len (partial p))
  | DErr l => (set_partial p [], [APrint REPL], l - len (partial p))
  | DIncomplete => (set_partial p (partial p ++ bs), [], len bs)
  | DEnd => (p, [], 0)
  end.
Proof.
  intros Hw Hp.
  destruct (pwf_partial p Hw Hp) as [Hg Hd].
  pose proof (decode1_inc_inv _ Hd) as (Hl & _).
  unfold advance_partial'.
  set (old := len (partial p)) in *.
  rewrite firstnN_min.
  assert (B : partial p ++ firstnN (4 - old) bs = firstnN 4 (partial p ++ bs)).
  { rewrite firstnN_app_ge by (fold old; lia). reflexivity. }
  rewrite <- (decode1_firstnN4 (partial p ++ bs)). rewrite <- B.
  set (buf := partial p ++ firstnN (4 - old) bs) in *.
  rewrite (from_utf8_unfold buf).
  destruct (decode1 buf) as [c n|l| |] eqn:D.
  - pose proof (decode1_char_inv _ _ _ D) as (I1 & I2 & I3 & _).
    destruct (from_utf8 (skipnN n buf)) as [[chars valid] stop].
    cbn [hd]. rewrite I3.
    destruct stop; try reflexivity;
      (destruct (N.ltb_spec 0 (n + valid)); [reflexivity|lia]).
  - reflexivity.
  - destruct (N.ltb_spec 0 0); [lia|].
    pose proof (decode1_inc_inv _ D) as (I1 & _).
    unfold buf in I1. rewrite len_app, len_firstnN in I1. fold old in I1.
    assert (L : len bs <= 4 - old) by lia.
    unfold buf. rewrite firstnN_all by lia. f_equal. lia.
  - apply decode1_end in D. unfold buf in D. destruct (partial p); [congruence|discriminate].
Qed.

Lemma advance'_as_run p bs :
  pwf p -> req (advance' p bs) (run (set_partial p []) (partial p ++ bs)).
Proof.
  intros Hw. rewrite advance'_run.
  destruct (partial p) as [|x0 l0] eqn:Ep.
  - cbn [app]. rewrite <- Ep, set_partial_same. apply req_refl.
  - rewrite <- Ep in *.
    assert (Hp : partial p <> []) by (rewrite Ep; discriminate). clear Ep x0 l0.
    destruct (pwf_partial p Hw Hp) as [Hg Hd].
    pose proof (decode1_inc_inv _ Hd) as (Hl & Hh & H194).
    rewrite advance_partial'_spec by auto.
    assert (Hg0 : vst (set_partial p []) = Ground) by exact Hg.
    assert (Hhd : hd 0 (partial p ++ bs) = hd 0 (partial p)) by (apply hd_app; exact Hp).
    destruct (decode1 (partial p ++ bs)) as [c n|l| |] eqn:D.
    + pose proof (decode1_inc_app_char _ _ _ _ Hd D) as Hn.
      pose proof (decode1_char_inv _ _ _ D) as (I1 & I2 & I3 & I4 & I5).
      rewrite (run_char _ _ _ _ Hg0 D) by (rewrite Hhd; lia).
      rewrite skipnN_app_ge by lia.
      apply req_cat; [|apply req_refl].
      cbn [norms map]. f_equal. apply norm_print_ground. lia.
    + pose proof (decode1_inc_app_err _ _ _ Hd D) as Hn.
      rewrite (run_err _ _ _ Hg0 D).
      rewrite skipnN_app_ge by lia.
      unfold erract. rewrite Hhd. destruct (N.leb_spec (hd 0 (partial p)) 159); [lia|].
      rewrite andb_false_r. apply req_refl.
    + rewrite skipnN_all by lia. rewrite run_nil.
      rewrite (run_inc _ _ Hg0 eq_refl D). apply req_refl.
    + apply decode1_end in D. destruct (partial p); [congruence|discriminate].
Qed.

(* ---------- the loop is compositional ---------- *)

Lemma vst_ground_dec p : {vst p = Ground} + {vst p <> Ground}.
Proof. destruct (vst p); (left; reflexivity) || (right; discriminate). Qed.

Lemma skipn_len_lt (n : N) (l : list N) : 1 <= n -> l <> [] ->
  (length (skipnN n l) < length l)%nat.
Proof.
  intros H Hl. unfold skipnN. rewrite skipn_length. destruct l; [congruence|]. cbn [length]. lia.
Qed.

Lemma run_app_aux k : forall a, (length a <= k)%nat -> forall p b, pwf0 p ->
  run p (a ++ b) =
  cat (snd (run p a))
      (run (set_partial (fst (run p a)) []) (partial (fst (run p a)) ++ b)).
Proof.
  induction k as [|k IH]; intros a Hk p b Hw.
  - destruct a; [|cbn [length] in Hk; lia].
    rewrite run_nil. cbn [fst snd app]. rewrite cat_nil.
    rewrite (pwf0_partial p Hw). cbn [app]. rewrite <- (pwf0_partial p Hw), set_partial_same.
    reflexivity.
  - destruct a as [|x a'].
    { rewrite run_nil. cbn [fst snd app]. rewrite cat_nil.
      rewrite (pwf0_partial p Hw). cbn [app]. rewrite <- (pwf0_partial p Hw), set_partial_same.
      reflexivity. }
    cbn [length] in Hk.
    destruct (vst_ground_dec p) as [Hg|Hg].
    2:{ cbn [app]. rewrite !run_nonground by exact Hg.
        pose proof (change_state_pwf0 p x Hw Hg) as Hw'.
        rewrite (IH a' ltac:(lia) _ b Hw').
        cbn [cat fst snd]. rewrite cat_cat. reflexivity. }
    destruct (N.eqb_spec x 27) as [->|Hx].
    { cbn [app]. rewrite !run_esc by exact Hg.
      apply IH; [lia|]. apply pwf0_enter_escape; auto. }
    destruct (decode1 (x :: a')) as [c n|l| |] eqn:D.
    + pose proof (decode1_char_inv _ _ _ D) as (I1 & I2 & _).
      rewrite (run_char p (x :: a') c n Hg D) by (cbn [hd]; exact Hx).
      rewrite (run_char p ((x :: a') ++ b) c n Hg) by (auto using decode1_char_app).
      rewrite skipnN_app_le by lia.
      rewrite (IH (skipnN n (x :: a')) ltac:(pose proof (skipn_len_lt n (x :: a') I1 ltac:(discriminate)); cbn [length] in *; lia) p b Hw).
      cbn [cat fst snd]. rewrite cat_cat. reflexivity.
    + pose proof (decode1_err_inv _ _ D) as (I1 & I2 & _).
      rewrite (run_err p (x :: a') l Hg D).
      rewrite (run_err p ((x :: a') ++ b) l Hg) by (auto using decode1_err_app).
      rewrite skipnN_app_le by lia.
      rewrite (IH (skipnN l (x :: a')) ltac:(pose proof (skipn_len_lt l (x :: a') ltac:(lia) ltac:(discriminate)); cbn [length] in *; lia) p b Hw).
      cbn [cat fst snd]. rewrite cat_cat. reflexivity.
    + rewrite (run_inc p (x :: a') Hg (pwf0_partial p Hw) D).
      cbn [fst snd]. rewrite cat_nil.
      change (set_partial (set_partial p (x :: a')) []) with (set_partial p []).
      change (partial (set_partial p (x :: a'))) with (x :: a').
      rewrite <- (pwf0_partial p Hw), set_partial_same. reflexivity.
    + apply decode1_end in D. discriminate.
Qed.

Lemma run_app p a b : pwf0 p ->
  run p (a ++ b) =
  cat (snd (run p a))
      (run (set_partial (fst (run p a)) []) (partial (fst (run p a)) ++ b)).
Proof. apply (run_app_aux (length a)); lia. Qed.

Lemma run_pwf p bs : pwf0 p -> pwf (fst (run p bs)).
Proof. intros [W W0]. apply advance_loop_pwf; auto. Qed.

Lemma advance'_pwf p bs : pwf p -> pwf (fst (advance' p bs)).
Proof.
  intros Hw. destruct (advance'_as_run p bs Hw) as [E _]. rewrite E.
  apply run_pwf. apply pwf0_clear_partial. exact Hw.
Qed.

Theorem advance'_app : forall p a b, pwf p ->
  let '(q, x) := advance' p a in
  let '(r, y) := advance' q b in
  exists z, advance' p (a ++ b) = (r, z) /\ norms z = norms (x ++ y).
Proof.
  intros p a b Hw.
  pose proof (advance'_pwf p a Hw) as Hq.
  pose proof (advance'_as_run p a Hw) as [A1 A2].
  pose proof (advance'_as_run p (a ++ b) Hw) as [C1 C2].
  destruct (advance' p a) as [q x]. cbn [fst snd] in *.
  pose proof (advance'_as_run q b Hq) as [B1 B2].
  destruct (advance' q b) as [r y]. cbn [fst snd] in *.
  destruct (advance' p (a ++ b)) as [r' z]. cbn [fst snd] in *.
  exists z.
  rewrite app_assoc in C1, C2.
  rewrite run_app in C1, C2 by (apply pwf0_clear_partial; exact Hw).
  rewrite <- A1 in C1, C2. cbn [cat fst snd] in C1, C2.
  split; [f_equal; congruence|].
  rewrite C2. rewrite !norms_app. congruence.
Qed.


(* ---------- chunk lists ---------- *)

Fixpoint advance_chunks (p : pstate) (chunks : list (list N)) : pstate * list action :=
  match chunks with
  | [] => (p, [])
  | c :: cs =>
    let '(q, x) := advance p c in
    let '(r, y) := advance_chunks q cs in
    (r, x ++ y)
  end.

(* no chunk start triggers K04a along the run of the real parser *)
Fixpoint clean (p : pstate) (chunks : list (list N)) : Prop :=
  match chunks with
  | [] => True
  | c :: cs => k04a p c = false /\ clean (fst (advance p c)) cs
  end.

Lemma advance'_nil p : pwf p -> advance' p [] = (p, []).
Proof.
  intros Hw. rewrite advance'_run.
  destruct (partial p) as [|x0 l0] eqn:Ep; [reflexivity|].
  assert (Hp : partial p <> []) by (rewrite Ep; discriminate). clear Ep x0 l0.
  destruct (pwf_partial p Hw Hp) as [Hg Hd].
  rewrite advance_partial'_spec by auto.
  rewrite app_nil_r, Hd. rewrite set_partial_same. reflexivity.
Qed.

Lemma advance_chunks_concat cs : forall p, pwf p -> clean p cs ->
  req (advance_chunks p cs) (advance' p (concat cs)).
Proof.
  induction cs as [|c cs IH]; intros p Hw Hc; cbn [advance_chunks concat].
  - rewrite advance'_nil by exact Hw. apply req_refl.
  - destruct Hc as [K Hc]. rewrite (advance_eq_advance' p c K) in *.
    pose proof (advance'_pwf p c Hw) as Hq.
    pose proof (advance'_app p c (concat cs) Hw) as APP.
    destruct (advance' p c) as [q x]. cbn [fst] in *.
    specialize (IH q Hq Hc). destruct IH as [I1 I2].
    destruct (advance_chunks q cs) as [r y]. cbn [fst snd] in *.
    destruct (advance' q (concat cs)) as [r' y']. cbn [fst snd] in *.
    destruct APP as (z & -> & Hz). split; cbn [fst snd]; [exact I1|].
    rewrite Hz, !norms_app. congruence.
Qed.

Theorem chunking_independent : forall p cs1 cs2,
  pwf p -> concat cs1 = concat cs2 -> clean p cs1 -> clean p cs2 ->
  fst (advance_chunks p cs1) = fst (advance_chunks p cs2) /\
  norms (snd (advance_chunks p cs1)) = norms (snd (advance_chunks p cs2)).
Proof.
  intros p cs1 cs2 Hw E C1 C2.
  destruct (advance_chunks_concat cs1 p Hw C1) as [A1 A2].
  destruct (advance_chunks_concat cs2 p Hw C2) as [B1 B2].
  rewrite E in A1, A2. split; congruence.
Qed.

(* ---------- byte-at-a-time reading (corollary) ---------- *)

Fixpoint advance'_bytes (p : pstate) (bs : list N) : pstate * list action :=
  match bs with
  | [] => (p, [])
  | b :: r =>
    let '(q, x) := advance' p [b] in
    let '(r', y) := advance'_bytes q r in
    (r', x ++ y)
  end.

Corollary advance'_bytes_eq bs : forall p, pwf p ->
  fst (advance'_bytes p bs) = fst (advance' p bs) /\
  norms (snd (advance'_bytes p bs)) = norms (snd (advance' p bs)).
Proof.
  induction bs as [|b r IH]; intros p Hw; cbn [advance'_bytes].
  - rewrite advance'_nil by exact Hw. split; reflexivity.
  - pose proof (advance'_pwf p [b] Hw) as Hq.
    pose proof (advance'_app p [b] r Hw) as APP.
    destruct (advance' p [b]) as [q x]. cbn [fst] in *.
    specialize (IH q Hq). destruct IH as [I1 I2].
    destruct (advance'_bytes q r) as [r1 y1]. cbn [fst snd] in *.
    destruct (advance' q r) as [r2 y2]. cbn [fst snd] in *.
    destruct APP as (z & E & Hz). cbn [app] in E. rewrite E. cbn [fst snd].
    split; [exact I1|]. rewrite Hz, !norms_app. congruence.
Qed.
