(* C15Main.v — property C15: rows_formatted.  (a) one row of a window, (b) the window
   protocol for a proper sub-window, (c) the row-wise full-width protocol. *)
Require Import Tac ListN Utf8 Width Attrs Cell Row Grid Screen Vte Perform Term Emit
  RowInv GridInv TextInv ScreenInv ParseSer CellWf WfGrid WfVte WfInv EraseSpec SgrSpec MoveSpec PrintSpec
  CellBytes EmitSafe WrapInv WrapInvScreen ObsSpec Recv RowPaint Redraw Cursor C01Main.
Open Scope N_scope.

(* ------------------------------------------------------------------ *)
(* (a) one row of an aligned window                                     *)
(* ------------------------------------------------------------------ *)
(* receiver row i is blank from column start on, and not flagged *)
Definition blank_from (start cols : N) (ri : row) : Prop :=
  wrapped ri = false /\ forall k, start <= k < cols -> get (cells ri) k = Some cell_new.

Theorem C15_window_row R l i src start width ri0 :
  cv R l i start -> srow_ok (gcols (g R)) src ->
  start < gcols (g R) -> 1 <= width -> start + width <= gcols (g R) ->
  fc (cells src) start = false -> fw (cells src) (start + width - 1) = false ->
  get l i = Some ri0 -> blank_from start (gcols (g R)) ri0 ->
  exists ts r' c' a' ri,
    row_formatted src start width i false None None = Ok (ts, (r', c'), a') /\
    plays (rcv R l i start dflt) ts (rcv R (set_at l i ri) r' c' a') /\
    cv R (set_at l i ri) r' c' /\ pen_ok a' /\
    wrapped ri = false /\
    (forall k, k < start -> get (cells ri) k = get (cells ri0) k) /\
    (forall k, start <= k < start + width -> get (cells ri) k = get (cells src) k) /\
    (exists ea, forall k, start + width <= k < gcols (g R) -> get (cells ri) k = Some (EraseSpec.blank ea)).
Proof.
  intros H Hs Hst Hw1 Hw2 Al1 Al2 Hg [Hunw Hbl].
  destruct (row_formatted_paints R i src false start l ri0 ri0 i start dflt (cv_r _ _ _ _ H) Hs Hst Al1 H pen_ok_dflt Hg Hbl Hunw
              ltac:(discriminate) width Hw1 Hw2) as (ts & r' & c' & a' & ri & E & P & C & Pa & [U Pre Mid Post] & _ & _).
  assert (fc (cells src) (start + width) = false) as Efc.
  { rewrite <- Al2. replace (start + width) with (start + width - 1 + 1) at 1 by lia.
    symmetry. apply (ok_pair _ (sr_ok _ _ Hs)). }
  rewrite Efc in Mid, Post.
  exists ts, r', c', a', ri. split; [exact E|]. unfold Lfin in P, C. auto 10.
Qed.

(* ------------------------------------------------------------------ *)
(* (b) the window protocol: ESC[m, CUP(i+1, start+1), row bytes, for every row *)
(* ------------------------------------------------------------------ *)
Fixpoint window_protocol (start i : N) (toks : list (list token)) : list token :=
  match toks with
  | [] => []
  | ts :: rest => t_clear_attrs :: TCsi false [i + 1; start + 1] 72 :: ts ++ window_protocol start (i + 1) rest
  end.

Definition aligned (start width : N) (r : row) : Prop :=
  fc (cells r) start = false /\ fw (cells r) (start + width - 1) = false.

Lemma window_rows R vr start width :
  start < gcols (g R) -> 1 <= width -> start + width <= gcols (g R) ->
  Forall (srow_ok (gcols (g R))) vr -> Forall (aligned start width) vr ->
  forall rest i l r c a,
    (forall k, k < len rest -> get rest k = get vr (i + k)) -> i + len rest = grows (g R) ->
    cv R l r c ->
    (forall i', i <= i' < grows (g R) -> exists ri, get l i' = Some ri /\ blank_from start (gcols (g R)) ri) ->
    exists toks l' r' c' a',
      rows_formatted_rows false rest start width i false = Ok toks /\
      plays (rcv R l r c a) (window_protocol start i toks) (rcv R l' r' c' a') /\ cv R l' r' c' /\
      (forall i', i' < i -> get l' i' = get l i') /\
      (forall i', i <= i' < grows (g R) -> exists ri src, get l' i' = Some ri /\ get vr i' = Some src /\
          forall k, start <= k < start + width -> get (cells ri) k = get (cells src) k).
Proof.
  intros Hst Hw1 Hw2 Hsr Hal. induction rest as [|src rest IH]; intros i l r c a Hseg Hlen Hcv Hbl.
  - rewrite len_nil in Hlen. exists [], l, r, c, a. cbn [rows_formatted_rows window_protocol].
    split; [reflexivity|]. split; [apply plays_nil|]. split; [exact Hcv|]. split; [auto|]. intros i' Hi'. lia.
  - rewrite len_cons in *. cbn [rows_formatted_rows].
    pose proof (cv_dims _ _ _ _ Hcv) as [D1 D2].
    assert (get vr i = Some src) as Hsrc.
    { specialize (Hseg 0 ltac:(lia)). replace (i + 0) with i in Hseg by lia. rewrite <- Hseg. reflexivity. }
    assert (i < grows (g R)) as Hi by lia.
    pose proof (Forall_get _ _ _ _ Hsr Hsrc) as Sok. destruct (Forall_get _ _ _ _ Hal Hsrc) as [Al1 Al2].
    destruct (Hbl i ltac:(lia)) as (ri0 & Gri0 & Bl0).
    assert (cv R l i start) as C0 by (eapply cv_pos; eauto; lia).
    destruct (C15_window_row R l i src start width ri0 C0 Sok Hst Hw1 Hw2 Al1 Al2 Gri0 Bl0)
      as (ts & r1 & c1 & a1 & ri & -> & P1 & C1 & Pa1 & U1 & Pre1 & Mid1 & Post1).
    cbn [bind].
    assert (len l = grows (g R)) as Ll by apply Hcv.
    destruct (IH (i + 1) (set_at l i ri) r1 c1 a1) as (toks & l2 & r2 & c2 & a2 & -> & P2 & C2 & Keep2 & Done2); auto.
    { intros k Hk. specialize (Hseg (k + 1) ltac:(lia)). rewrite get_cons in Hseg.
      destruct (N.eqb_spec (k + 1) 0); [lia|]. replace (k + 1 - 1) with k in Hseg by lia.
      replace (i + 1 + k) with (i + (k + 1)) by lia. exact Hseg. }
    { lia. }
    { intros i' Hi'. rewrite get_set_at. destruct (N.eqb_spec i' i); [lia|]. apply Hbl. lia. }
    cbn [bind]. exists (ts :: toks), l2, r2, c2, a2. split; [reflexivity|]. cbn [window_protocol].
    split.
    { eapply plays_cons; [apply plays_clear_attrs|].
      eapply plays_cons; [apply plays_cup_lit; [exact Hcv|exact Hi|exact Hst]|].
      eapply plays_app; [exact P1|exact P2]. }
    split; [exact C2|]. split.
    { intros i' Hi'. rewrite Keep2 by lia. rewrite get_set_at. destruct (N.eqb_spec i' i); [lia|reflexivity]. }
    intros i' Hi'. destruct (N.eq_dec i' i) as [->|Hne]; [|apply Done2; lia].
    exists ri, src. split; [|split; [exact Hsrc|exact Mid1]].
    rewrite Keep2 by lia. rewrite get_set_at. destruct (N.eqb_spec i i); [|lia].
    destruct (N.ltb_spec i (len l)); [reflexivity|lia].
Qed.

(* the whole-screen statement for a proper sub-window *)
Theorem C15_window S R vr start width toks :
  source_ok S vr -> canvas R -> grows (g R) = grows (cur S) -> gcols (g R) = gcols (cur S) ->
  (forall i ri, get (live (g R)) i = Some ri -> blank_from start (gcols (g R)) ri) ->
  start < gcols (cur S) -> 1 <= width -> start + width <= gcols (cur S) ->
  (start =? 0) && (width =? gcols (cur S)) = false ->
  Forall (aligned start width) vr ->
  rows_formatted_t S start width = Ok toks ->
  exists R', play false R (window_protocol start 0 toks) = Ok (R', []) /\ canvas R' /\
    forall i, i < grows (cur S) -> exists ri src,
      get (live (g R')) i = Some ri /\ get vr i = Some src /\
      forall k, start <= k < start + width -> get (cells ri) k = get (cells src) k.
Proof.
  intros [Ok Hvis [Hsr Hwi] Pp] CR Er Ec Hbl Hst Hw1 Hw2 Hnf Hal Et.
  destruct (visible_rows_ok (cur S) (cur_ok _ Ok)) as (vr' & Hv' & Lvr & _). rewrite Hvis in Hv'. inv Hv'.
  unfold rows_formatted_t in Et. rewrite Hvis in Et. cbn [bind] in Et.
  rewrite (gcols_g_cur _ Ok), Hnf in Et.
  pose proof (cv_id R CR) as Hcv. rewrite <- Ec in *. rewrite <- Er in *.
  destruct (window_rows R vr' start width Hst Hw1 Hw2 Hsr Hal vr' 0 (live (g R)) (prow (g R)) (pcol (g R)) (pen R))
    as (toks' & l' & r' & c' & a' & E & P & C & _ & Done); auto.
  { intros i' Hi'. destruct (cv_get _ _ _ _ i' Hcv ltac:(lia)) as (ri & G & _). exists ri. split; [exact G|]. eapply Hbl; eauto. }
  rewrite E in Et. inv Et. rewrite rcv_id in P.
  exists (rcv R l' r' c' a'). split; [exact P|]. split; [now apply cv_canvas_rcv|].
  intros i Hi. apply Done. lia.
Qed.

(* ------------------------------------------------------------------ *)
(* (c) the row-wise full-width protocol (DESIGN 5.2)                    *)
(* ------------------------------------------------------------------ *)
(* ESC [ <i+1> H *)
Lemma plays_cup_row R l r c a tr : cv R l r c -> tr < grows (g R) ->
  plays (rcv R l r c a) [TCsi false [tr + 1] 72] (rcv R l tr 0 a).
Proof.
  intros H Hr. pose proof (cv_dims _ _ _ _ H) as [D1 D2]. unfold MAXDIM in *.
  assert (mv_of_csi (ParseSer.csi_params [tr + 1]) 72 = Some (MCup (tr + 1) 1)) as Em.
  { unfold mv_of_csi, ParseSer.csi_params. cbn [map tl]. gsimp. rewrite canon1_pos1 by lia. reflexivity. }
  pose proof (plays_csi_move R l r c a _ 72 _ H Em) as P.
  cbn [move_spec fst snd c_origin c_rows c_cols] in P.
  replace (N.min (tr + 1 - 1) (grows (g R) - 1)) with tr in P by lia.
  replace (N.min (1 - 1) (gcols (g R) - 1)) with 0 in P by lia. exact P.
Qed.

(* for each row: ESC[m; unless the previous row is wrapped, ESC[<i+1>H; the row's tokens *)
Fixpoint full_rows_protocol (i : N) (prevw : bool) (vr : list row) (toks : list (list token)) : list token :=
  match vr, toks with
  | rw :: vr', ts :: rest =>
      t_clear_attrs :: (if prevw then [] else [TCsi false [i + 1] 72]) ++ ts
        ++ full_rows_protocol (i + 1) (wrapped rw) vr' rest
  | _, _ => []
  end.

Lemma full_rows R vr : canvas R -> vrows_ok (gcols (g R)) vr -> len vr = grows (g R) ->
  forall rest i wrapping l r c a,
    (forall k, k < len rest -> get rest k = get vr (i + k)) -> i + len rest = grows (g R) ->
    cv R l r c -> Jinv R vr i l r c ->
    ((i = 0 /\ wrapping = false) \/ (1 <= i /\ exists src, get vr (i - 1) = Some src /\ wrapping = wrapped src)) ->
    exists toks r' c' a' l',
      rows_formatted_rows true rest 0 (gcols (g R)) i wrapping = Ok toks /\
      plays (rcv R l r c a) (full_rows_protocol i wrapping rest toks) (rcv R l' r' c' a') /\
      cv R l' r' c' /\ Jinv R vr (grows (g R)) l' r' c'.
Proof.
  intros HR Hvr Lvr. induction rest as [|src rest IH]; intros i wrapping l r c a Hseg Hlen Hcv HJ Hwr.
  - rewrite len_nil in Hlen. replace i with (grows (g R)) in HJ by lia.
    exists [], r, c, a, l. cbn [rows_formatted_rows full_rows_protocol].
    split; [reflexivity|]. split; [apply plays_nil|]. auto.
  - rewrite len_cons in *. cbn [rows_formatted_rows].
    assert (get vr i = Some src) as Hsrc.
    { specialize (Hseg 0 ltac:(lia)). replace (i + 0) with i in Hseg by lia. rewrite <- Hseg. reflexivity. }
    assert (i < grows (g R)) as Hi by lia.
    (* where the emitter assumes the cursor to be, and where the protocol has put it *)
    set (r0 := if wrapping then i - 1 else i). set (c0 := if wrapping then gcols (g R) else 0).
    assert (row_formatted src 0 (gcols (g R)) i wrapping None None =
            row_formatted src 0 (gcols (g R)) i wrapping (Some (r0, c0)) (Some dflt)) as Erf.
    { unfold row_formatted, r0, c0. destruct wrapping.
      - destruct Hwr as [[_ D]|(Hi1 & _)]; [discriminate|]. rewrite sub16_ok by lia. cbn [bind].
        unfold row_cols. destruct Hvr as [Hsr _]. now rewrite (sr_len _ _ (Forall_get _ _ _ _ Hsr Hsrc)).
      - reflexivity. }
    assert (plays (rcv R l r c a) (t_clear_attrs :: (if wrapping then [] else [TCsi false [i + 1] 72]))
                  (rcv R l r0 c0 dflt) /\ cv R l r0 c0 /\ Jinv R vr i l r0 c0) as (P0 & C0 & HJ0).
    { unfold r0, c0. destruct (Bool.bool_dec wrapping true) as [Ew|Ew].
      - rewrite Ew. destruct Hwr as [[_ D]|(Hi1 & psrc & Hps & Ewp)]; [congruence|].
        destruct (J_pend _ _ _ _ _ _ HJ psrc Hi1 Hps ltac:(congruence)) as [E1 E2].
        replace (i - 1) with r by lia. rewrite <- E2.
        split; [eapply plays_cons; [apply plays_clear_attrs|apply plays_nil]|]. auto.
      - apply Bool.not_true_is_false in Ew. rewrite Ew.
        split; [eapply plays_cons; [apply plays_clear_attrs|now apply plays_cup_row]|].
        split; [eapply cv_pos; eauto; lia|].
        destruct HJ as [Jd Jb Jp]. split; auto. intros psrc Hi1 Hps Ewp.
        destruct Hwr as [[-> _]|(_ & psrc' & Hps' & Ewp')]; [lia|]. rewrite Hps in Hps'. inv Hps'. congruence. }
    destruct (row_step R vr i wrapping l r0 c0 dflt src HR Hvr Lvr Hsrc Hi C0 pen_ok_dflt HJ0 Hwr)
      as (ts & r1 & c1 & a1 & l1 & E1 & P1 & C1 & Pa1 & HJ1).
    rewrite Erf, E1. cbn [bind].
    destruct (IH (i + 1) (wrapped src) l1 r1 c1 a1) as (toks & r2 & c2 & a2 & l2 & -> & P2 & C2 & HJ2); auto.
    { intros k Hk. specialize (Hseg (k + 1) ltac:(lia)). rewrite get_cons in Hseg.
      destruct (N.eqb_spec (k + 1) 0); [lia|]. replace (k + 1 - 1) with k in Hseg by lia.
      replace (i + 1 + k) with (i + (k + 1)) by lia. exact Hseg. }
    { lia. }
    { right. split; [lia|]. exists src. replace (i + 1 - 1) with i by lia. auto. }
    cbn [bind]. exists (ts :: toks), r2, c2, a2, l2. split; [reflexivity|].
    cbn [full_rows_protocol]. split; [|auto].
    change (t_clear_attrs :: (if wrapping then [] else [TCsi false [i + 1] 72]) ++ ts ++ full_rows_protocol (i + 1) (wrapped src) rest toks)
      with ((t_clear_attrs :: (if wrapping then [] else [TCsi false [i + 1] 72])) ++ ts ++ full_rows_protocol (i + 1) (wrapped src) rest toks).
    eapply plays_app; [exact P0|]. eapply plays_app; [exact P1|exact P2].
Qed.

(* the complete protocol: rows, then ESC[m, cursor_state_formatted, attributes_formatted,
   input_mode_formatted *)
Definition full_protocol (S : screen) (vr : list row) (toks : list (list token)) (ctoks : list token) : list token :=
  full_rows_protocol 0 false vr toks ++ t_clear_attrs :: ctoks ++ attributes_formatted_t S ++ input_mode_formatted_t S.

Theorem C15_full S R vr toks ctoks :
  source_ok S vr -> canvas R -> grows (g R) = grows (cur S) -> gcols (g R) = gcols (cur S) ->
  live (g R) = blank_rows (grows (g R)) (gcols (g R)) ->
  mmode R = MNone -> menc R = EDefault ->
  rows_formatted_t S 0 (gcols (cur S)) = Ok toks -> cursor_state_formatted_t S = Ok ctoks ->
  exists R', play false R (full_protocol S vr toks ctoks) = Ok (R', []) /\ canvas R' /\
             same_obs_minus S R' vr /\ same_modes S R'.
Proof.
  intros [Ok Hvis Hrows Ppen] CR Er Ec Hbl Hm He Et Ect.
  destruct (cur_ok _ Ok) as (K & Hpr & Hpc).
  destruct (visible_rows_ok (cur S) (cur_ok _ Ok)) as (vr' & Hv' & Lvr & _). rewrite Hvis in Hv'. inv Hv'.
  unfold rows_formatted_t in Et. rewrite Hvis in Et. cbn [bind] in Et.
  rewrite (gcols_g_cur _ Ok), !N.eqb_refl in Et. cbn [andb] in Et.
  pose proof (cv_id R CR) as Hcv. rewrite Hbl in Hcv.
  rewrite <- Ec in *. rewrite <- Er in *.
  assert (Jinv R vr' 0 (blank_rows (grows (g R)) (gcols (g R))) (prow (g R)) (pcol (g R))) as HJ0.
  { destruct (Jinv_blank R vr') as [A B C]. split; auto. intros src Hi. lia. }
  destruct (full_rows R vr' CR Hrows Lvr vr' 0 false (blank_rows (grows (g R)) (gcols (g R)))
              (prow (g R)) (pcol (g R)) (pen R)) as (toks' & r1 & c1 & a1 & l1 & E1 & P1 & C1 & HJ); auto.
  rewrite E1 in Et. inv Et. rewrite <- Hbl in P1. rewrite rcv_id in P1.
  (* ESC[m, hide, then the cursor *)
  pose proof (plays_clear_attrs R l1 r1 c1 a1) as P2.
  unfold cursor_state_formatted_t in Ect. bind_inv Ect. inv Ect.
  set (Rh := with_hide R (hide S)).
  assert (cv Rh l1 r1 c1) as C1'.
  { destruct C1; split; auto. now apply canvas_with_hide. }
  destruct (cursor_fixup_gen Rh l1 r1 c1 dflt (cur S) vr' None ltac:(now left) C1' pen_ok_dflt
              (Jinv_agree _ _ _ _ _ HJ) Hrows Lvr Hvis) as (ts2 & R2 & E2 & P3 & C3 & SB); try (cbn [Rh with_hide g]; lia).
  change (cursor_position_formatted (cur S) None (Some dflt)) with (cursor_position_formatted (cur S) None None) in E2.
  rewrite E in E2. inv E2.
  destruct SB as [SBc SBr SBcl SBh SBk SBa SBp SBm SBe].
  set (R4 := rcv R2 l1 (prow (cur S)) (pcol (cur S)) (pen S)).
  exists (with_modes R4 S). split; [|split; [|split]].
  - unfold full_protocol. eapply plays_app; [exact P1|].
    eapply plays_cons; [exact P2|].
    change ((t_hide_cursor (hide S) :: ts2) ++ attributes_formatted_t S ++ input_mode_formatted_t S)
      with ([t_hide_cursor (hide S)] ++ ts2 ++ attributes_formatted_t S ++ input_mode_formatted_t S).
    eapply plays_app; [apply plays_hide|].
    change (with_hide (rcv R l1 r1 c1 dflt) (hide S)) with (rcv Rh l1 r1 c1 dflt).
    eapply plays_app; [exact P3|].
    unfold attributes_formatted_t.
    eapply plays_app.
    + eapply plays_cons; [apply plays_clear_attrs|]. apply plays_attrs_diff. exact Ppen.
    + apply plays_input_modes; [change (mmode R2 = MNone); rewrite SBm|change (menc R2 = EDefault); rewrite SBe]; assumption.
  - apply canvas_with_modes. apply cv_canvas_rcv. exact C3.
  - change (grows (g Rh)) with (grows (g R)) in SBr. change (gcols (g Rh)) with (gcols (g R)) in SBcl.
    change (hide Rh) with (hide S) in SBh.
    split; cbn [with_modes with_menc with_mmode with_paste with_appcur with_keypad R4 rcv with_pen with_g g live
                grows gcols prow pcol with_pos with_live hide pen]; try reflexivity.
    + rewrite SBr. exact Er.
    + rewrite SBcl. exact Ec.
    + rewrite <- Er. intros i Hi. destruct (J_done _ _ _ _ _ _ HJ i Hi) as (ri & src & G1 & G2 & Ecs & Ew).
      exists ri, src. split; [exact G1|]. split; [exact G2|]. split; [exact Ecs|]. rewrite Ew.
      split; intros Hlt.
      * destruct (N.ltb_spec (i + 1) (grows (g R))); [reflexivity|lia].
      * destruct (N.ltb_spec (i + 1) (grows (g R))); [lia|reflexivity].
    + exact SBh.
  - repeat split; reflexivity.
Qed.
