(* DiffRoundK.v — C02 on the complement of the D10 class, byte level, and along chains.
   For reachable P and S of equal size at scrollback offset 0 with k10 P S = false, a fresh parser fed
   the BYTES of P.state_formatted() and then the BYTES of S.state_diff(P) ends with the observation
   of S.  Class W (hence U) lies inside the complement of k10; the D10 witness lies in k10. *)
Require Import Tac ListN Utf8 Width Attrs Cell Row Grid Screen Vte Perform Parser Term Emit.
Require Import RowInv GridInv TextInv ScreenInv ParseSer CellWf WfGrid WfInv WrapInv WrapInvScreen SgrSpec EmitSafe ObsSpec.
Require Import AttrsInv EmitTokens CellInv Recv RowPaint Redraw Cursor C01Main C15Main CapInv Idem LastRow C01Examples Bytes.
Require Import DiffRound DiffPaint DiffGrid DiffMain DiffRoundU DiffWrap DiffK10.
Require Import Chunking PendTok.
Open Scope N_scope.

(* ------------------------------------------------------------------ *)
(* k10 = false gives the Prop form                                      *)
(* ------------------------------------------------------------------ *)
Lemma k10_free P S : source_ok P (live (cur P)) -> source_ok S (live (cur S)) ->
  gcols (cur P) = gcols (cur S) -> k10 P S = false ->
  K10free (gcols (cur S)) (live (cur P)) (live (cur S)).
Proof.
  intros HP HS Ec Hk. unfold k10 in Hk. rewrite Ec in Hk.
  destruct (N.leb_spec 2 (gcols (cur S))) as [H2|H2]; cbn [andb] in Hk.
  - apply k10_rows_free; [exact Hk| |].
    + eapply Forall_impl'; [|apply (proj1 (so_rows _ _ HP))]. intros r Hr. rewrite <- Ec. apply (sr_len _ _ Hr).
    + eapply Forall_impl'; [|apply (proj1 (so_rows _ _ HS))]. intros r Hr. apply (sr_len _ _ Hr).
  - intros i p s p1 s1 _ _ _ _ _ _ H2'. lia.
Qed.

(* ------------------------------------------------------------------ *)
(* one diff step on a parser whose screen shows P                       *)
(* ------------------------------------------------------------------ *)
Lemma diff_step_bytes_K P S r :
  reachable P -> reachable S -> sb_off (cur P) = 0 -> sb_off (cur S) = 0 ->
  grows (cur S) = grows (cur P) -> gcols (cur S) = gcols (cur P) -> k10 P S = false ->
  pend r = [] -> ground (vt r) -> shows P (scr r) (live (cur P)) -> same_modes P (scr r) ->
  exists ts r', state_diff_t S P = Ok ts /\ process r (ser_all ts) = Ok r' /\
    log r' = log r /\ ground (vt r') /\ resizing r' = resizing r /\
    shows S (scr r') (live (cur S)) /\ same_modes S (scr r') /\ obs (scr r') = obs S /\ pend r' = [].
Proof.
  intros RP RS OffP OffS Er Ec Hk Hpd Gr Sh Sm.
  pose proof (reachable_source P RP OffP) as HP. pose proof (reachable_source S RS OffS) as HS.
  pose proof (k10_free P S HP HS (eq_sym Ec) Hk) as HK.
  destruct (reachable_tokens_ok S P 0 0 RS RP) as (_ & _ & _ & _ & (ts & Ets & Tok & _) & _).
  destruct (state_diff_obs_K S P (scr r) ts HS HP HK (reachable_lastu S RS) OffS Er Ec Sh Sm Ets)
    as (R' & P' & C' & Eo & Sh' & Sm').
  destruct (process_tokens r ts R' Hpd Gr Tok P') as (r' & Ep & <- & El & Gq & Rz).
  pose proof (process_ser_all_pend r ts r' Hpd Tok Ep) as Hpd'.
  exists ts, r'. auto 12.
Qed.

(* ------------------------------------------------------------------ *)
(* C02 outside k10                                                      *)
(* ------------------------------------------------------------------ *)
Theorem diff_round_K_strong P S :
  reachable P -> reachable S -> sb_off (cur P) = 0 -> sb_off (cur S) = 0 ->
  grows (cur P) = grows (cur S) -> gcols (cur P) = gcols (cur S) ->
  k10 P S = false ->
  exists r, diff_round P S = Ok r /\ obs (scr r) = obs S /\ log r = [] /\ ground (vt r) /\ canvas (scr r).
Proof.
  intros RP RS OffP OffS Er Ec Hk.
  destruct (reproduce_shows P RP OffP) as (r & Erp & Lr & Gr & Sh & Sm).
  destruct (diff_step_bytes_K P S r RP RS OffP OffS (eq_sym Er) (eq_sym Ec) Hk (reproduce_pend P r RP Erp) Gr Sh Sm)
    as (ts & r' & Ets & Ep & El & Gq & _ & Sh' & _ & Eo & _).
  exists r'. unfold diff_round. rewrite Erp. cbn [bind]. rewrite Ets. cbn [bind].
  split; [exact Ep|]. split; [exact Eo|]. split; [congruence|]. split; [exact Gq|apply Sh'].
Qed.

Theorem diff_round_ok_K P S :
  reachable P -> reachable S -> sb_off (cur P) = 0 -> sb_off (cur S) = 0 ->
  grows (cur P) = grows (cur S) -> gcols (cur P) = gcols (cur S) ->
  k10 P S = false -> diff_round_ok P S.
Proof.
  intros RP RS OffP OffS Er Ec Hk.
  destruct (diff_round_K_strong P S RP RS OffP OffS Er Ec Hk) as (r & E & Eo & _).
  destruct (reachable_inv _ RS) as (I1 & _). destruct (obs_ok S I1) as (o & Ho & _).
  exists r, o. split; [exact E|]. split; [now rewrite Eo|exact Ho].
Qed.

(* ------------------------------------------------------------------ *)
(* chains                                                               *)
(* ------------------------------------------------------------------ *)
Fixpoint chain_K (rows cols : N) (prev : screen) (snaps : list screen) : Prop :=
  match snaps with
  | [] => True
  | s :: rest => reachable s /\ sb_off (cur s) = 0 /\ grows (cur s) = rows /\ gcols (cur s) = cols /\
                 k10 prev s = false /\ chain_K rows cols s rest
  end.

Theorem diff_chain_K rows cols : forall snaps prev r,
  reachable prev -> sb_off (cur prev) = 0 -> grows (cur prev) = rows -> gcols (cur prev) = cols ->
  chain_K rows cols prev snaps ->
  pend r = [] -> ground (vt r) -> shows prev (scr r) (live (cur prev)) -> same_modes prev (scr r) ->
  exists r', diff_chain r prev snaps = Ok r' /\ log r' = log r /\ ground (vt r') /\
             shows (last_snap prev snaps) (scr r') (live (cur (last_snap prev snaps))) /\
             same_modes (last_snap prev snaps) (scr r') /\
             obs (scr r') = obs (last_snap prev snaps).
Proof.
  induction snaps as [|s rest IH]; intros prev r RP Off Pr Pc Hs Hpd Gr Sh Sm.
  - exists r. cbn [diff_chain last_snap]. split; [reflexivity|]. split; [reflexivity|]. split; [exact Gr|].
    split; [exact Sh|]. split; [exact Sm|]. now apply shows_obs.
  - destruct Hs as (RS & OffS & Sr & Sc & Hk & Hrest).
    destruct (diff_step_bytes_K prev s r RP RS Off OffS ltac:(congruence) ltac:(congruence) Hk Hpd Gr Sh Sm)
      as (ts & r1 & Ets & Ep & El & G1 & _ & Sh1 & Sm1 & _ & Pd1).
    destruct (IH s r1 RS OffS Sr Sc Hrest Pd1 G1 Sh1 Sm1) as (r' & E' & L' & G' & Sh' & Sm' & Eo').
    exists r'. cbn [diff_chain last_snap]. rewrite Ets. cbn [bind]. rewrite Ep. cbn [bind].
    split; [exact E'|]. split; [congruence|]. auto.
Qed.

Theorem diff_chain_round_K rows cols S0 snaps :
  reachable S0 -> sb_off (cur S0) = 0 -> grows (cur S0) = rows -> gcols (cur S0) = cols ->
  chain_K rows cols S0 snaps ->
  exists r r', reproduce S0 = Ok r /\ diff_chain r S0 snaps = Ok r' /\
               obs (scr r') = obs (last_snap S0 snaps) /\ log r' = [] /\ ground (vt r').
Proof.
  intros R0 Off Rr Rc Hs.
  destruct (reproduce_shows S0 R0 Off) as (r & Erp & Lr & Gr & Sh & Sm).
  destruct (diff_chain_K rows cols snaps S0 r R0 Off Rr Rc Hs (reproduce_pend S0 r R0 Erp) Gr Sh Sm) as (r' & E' & L' & G' & _ & _ & Eo).
  exists r, r'. split; [exact Erp|]. split; [exact E'|]. split; [exact Eo|]. split; [congruence|exact G'].
Qed.

(* ------------------------------------------------------------------ *)
(* class W lies outside k10                                             *)
(* ------------------------------------------------------------------ *)
Lemma k10_rows_true cols : forall pv sv, k10_rows cols pv sv = true ->
  exists i p s p1 s1, get pv i = Some p /\ get sv i = Some s /\ get pv (i + 1) = Some p1 /\ get sv (i + 1) = Some s1 /\
                      k10_at cols p s p1 s1 = true.
Proof.
  induction pv as [|p0 prest IH]; intros sv Hk; [discriminate|].
  destruct sv as [|s0 srest]; [discriminate|]. cbn [k10_rows] in Hk.
  apply orb_prop in Hk as [Hk|Hk].
  - destruct prest as [|p1 ?]; [discriminate|]. destruct srest as [|s1 ?]; [discriminate|].
    exists 0, p0, s0, p1, s1. repeat split; auto.
  - destruct (IH srest Hk) as (i & p & s & p1 & s1 & G1 & G2 & G3 & G4 & E).
    exists (i + 1), p, s, p1, s1. rewrite !get_cons.
    destruct (N.eqb_spec (i + 1) 0); [lia|]. destruct (N.eqb_spec (i + 1 + 1) 0); [lia|].
    replace (i + 1 - 1) with i by lia. replace (i + 1 + 1 - 1) with (i + 1) by lia. auto.
Qed.

Theorem in_W_not_k10 P S : screen_wf P -> in_W P S -> k10 P S = false.
Proof.
  intros Wf (OffP & OffS & HW). unfold k10.
  destruct (k10_rows (gcols (cur P)) (live (cur P)) (live (cur S))) eqn:Hk; [|apply andb_false_r].
  exfalso. destruct (k10_rows_true _ _ _ Hk) as (i & p & s & p1 & s1 & G1 & G2 & G3 & G4 & E).
  unfold k10_at in E. apply andb_prop in E as [E _]. apply andb_prop in E as [E Enc].
  apply andb_prop in E as [E Ewd]. apply andb_prop in E as [W1 W2].
  destruct (HW i s p G2 G1 (or_introl W2)) as (_ & _ & Ec & _).
  unfold cellat in *. rewrite Ec in Enc.
  destruct (get (cells p) (gcols (cur P) - 2)) as [x|] eqn:Gx; [|discriminate].
  pose proof (Forall_get _ _ _ _ (proj1 (cur_wf _ Wf)) G1) as Wp.
  pose proof (row_wf_get _ _ _ Wp Gx) as Wx.
  rewrite (wf_wide_has_contents _ Wx Ewd) in Enc. discriminate.
Qed.

Corollary in_U_not_k10 P S : screen_wf P -> in_U P -> in_U S -> k10 P S = false.
Proof. intros Wf UP US. apply in_W_not_k10; [exact Wf|now apply in_U_W]. Qed.

(* the D10 witness lies in k10 *)
Definition k10_d10_check : res bool :=
  do Pr <- after 2 2 d10_P; do Sc <- after 2 2 d10_S; Ok (k10 Pr Sc).
Lemma k10_d10 : k10_d10_check = Ok true.
Proof. vm_compute. reflexivity. Qed.
