(* DiffRound.v — the statement of property C02 as an executable round trip, and the
   witness (open finding D10) that the unrestricted statement is false of the model. *)
Require Import Tac ListN Attrs Cell Row Grid Screen Vte Perform Parser Term Emit.
Require Import GridInv ScreenInv ParseSer CellWf WfInv SgrSpec EmitSafe AttrsInv EmitTokens ObsSpec.
Require Import Chunking PendTok.
Open Scope N_scope.

(* a receiver of the same size that reproduces Pr: fresh parser fed Pr.state_formatted() *)
Definition reproduce (Pr : screen) : res parser :=
  do r <- parser_new (grows (cur Pr)) (gcols (cur Pr)) 0 false;
  do ts <- state_formatted_t Pr;
  process r (ser_all ts).

(* ... which is then fed Sc.state_diff(Pr) *)
Definition diff_round (Pr Sc : screen) : res parser :=
  do r <- reproduce Pr;
  do ts <- state_diff_t Sc Pr;
  process r (ser_all ts).

(* the C02 statement for one ordered pair: the receiver's observation is Sc's *)
Definition diff_round_ok (Pr Sc : screen) : Prop :=
  exists r o, diff_round Pr Sc = Ok r /\ obs (scr r) = Ok o /\ obs Sc = Ok o.

(* chains: one receiver fed diff(S1,S0), diff(S2,S1), ... *)
Fixpoint diff_chain (r : parser) (prev : screen) (snaps : list screen) : res parser :=
  match snaps with
  | [] => Ok r
  | Sc :: rest => do ts <- state_diff_t Sc prev; do r' <- process r (ser_all ts); diff_chain r' Sc rest
  end.

(* the screen after a byte history on a fresh rows x cols parser *)
Definition after (rows cols : N) (bs : list N) : res screen :=
  do p <- parser_new rows cols 0 false; do q <- process p bs; Ok (scr q).

Lemma after_reachable rows cols bs s : 1 <= rows <= MAXDIM -> 1 <= cols <= MAXDIM ->
  after rows cols bs = Ok s -> reachable s.
Proof.
  intros Hr Hc E. unfold after in E. binv E as p Ep. binv E as q Eq. inv E.
  exists rows, cols, 0, false, [OpProcess bs], p, q.
  split; [exact Hr|]. split; [exact Hc|]. split; [exact Ep|].
  split; [repeat constructor|]. split; [|reflexivity].
  cbn [run step]. rewrite Eq. reflexivity.
Qed.

(* D10 (repaired): on 2x2,  Pr = "😀l" CUP(1,2)   Sc = Pr then "y".
   Before the repair of Grid::write_contents_diff (Emit.clears_wrap) the receiver lost the wrap flag of
   row 0 on this pair; DiffHistory.v keeps the old loop and the refutation as a regression witness. *)
Definition d10_P : list N := [240;159;152;128;108;27;91;49;59;50;72].
Definition d10_S : list N := d10_P ++ [121].

Definition obs_eqb_rows (a b : list row) : bool :=
  (len a =? len b) && forallb (fun p : row * row => Bool.eqb (wrapped (fst p)) (wrapped (snd p)) &&
     (len (cells (fst p)) =? len (cells (snd p))) &&
     forallb (fun q : cell * cell => cell_eqb (fst q) (snd q)) (zip (cells (fst p)) (cells (snd p)))) (zip a b).

(* rows (cells and flags) of the two observations, and the two lists of wrap flags *)
Definition d10_check : res (bool * list bool * list bool) :=
  do Pr <- after 2 2 d10_P;
  do Sc <- after 2 2 d10_S;
  do r <- diff_round Pr Sc;
  do o1 <- obs (scr r);
  do o2 <- obs Sc;
  Ok (obs_eqb_rows (o_vis o1) (o_vis o2), map wrapped (o_vis o1), map wrapped (o_vis o2)).

(* the witness now round-trips: the receiver keeps the wrap flag of row 0 *)
Lemma d10_check_value : d10_check = Ok (true, [true; false], [true; false]).
Proof. vm_compute. reflexivity. Qed.

Theorem d10_round_trips : exists Pr Sc,
  after 2 2 d10_P = Ok Pr /\ after 2 2 d10_S = Ok Sc /\ reachable Pr /\ reachable Sc /\ diff_round_ok Pr Sc.
Proof.
  destruct (after 2 2 d10_P) as [Pr|] eqn:EP; [|vm_compute in EP; discriminate].
  destruct (after 2 2 d10_S) as [Sc|] eqn:ES; [|vm_compute in ES; discriminate].
  exists Pr, Sc.
  assert (1 <= 2 <= MAXDIM) as H2 by (unfold MAXDIM; lia).
  split; [reflexivity|]. split; [reflexivity|].
  split; [eapply after_reachable; [exact H2|exact H2|exact EP]|].
  split; [eapply after_reachable; [exact H2|exact H2|exact ES]|].
  vm_compute in EP. vm_compute in ES. inv EP. inv ES.
  unfold diff_round_ok. eexists. eexists. split; [vm_compute; reflexivity|]. split; vm_compute; reflexivity.
Qed.

(* ---- equal observations: the diff is empty and the receiver is left alone ---- *)
Lemma process_nil r : partial (vt r) = [] -> pend r = [] -> process r [] = Ok r.
Proof.
  intros E Hp. rewrite (process_clean r [] Hp eq_refl). unfold advance. rewrite E.
  cbn [length advance_loop perform_all bind].
  rewrite app_nil_r. destruct r as [v s l rz pd]. cbn in Hp. subst pd. reflexivity.
Qed.

Lemma parser_new_vt rows cols cap rz p : parser_new rows cols cap rz = Ok p -> vt p = p_init.
Proof. unfold parser_new. intros E. binv E as s Es. inv E. reflexivity. Qed.

Lemma reproduce_ground Pr r : reachable Pr -> reproduce Pr = Ok r -> ground (vt r).
Proof.
  intros HP E. unfold reproduce in E. binv E as r0 E0. binv E as ts Ets.
  destruct (reachable_tokens_ok Pr Pr 0 0 HP HP) as (_ & (ts' & Ets' & _ & Hre) & _).
  rewrite Ets in Ets'. inv Ets'.
  pose proof (parser_new_vt _ _ _ _ _ E0) as Ev. pose proof (parser_new_pend _ _ _ _ _ E0) as Epd.
  destruct (Hre (vt r0)) as (v' & _ & Hg & Hp); [rewrite Ev; apply ground_init|].
  destruct r0 as [v0 s0 l0 z0 pd0]. cbn [vt pend] in *. subst pd0. rewrite Hp in E.
  binv E as pr Epr. destruct pr as [r' evs]. inv E. exact Hg.
Qed.

(* the receiver holds no bytes back: serialised tokens end in a complete character *)
Lemma reproduce_pend Pr r : reachable Pr -> reproduce Pr = Ok r -> pend r = [].
Proof.
  intros HP E. unfold reproduce in E. binv E as r0 E0. binv E as ts Ets.
  destruct (reachable_tokens_ok Pr Pr 0 0 HP HP) as (_ & (ts' & Ets' & Tok & _) & _).
  rewrite Ets in Ets'. inv Ets'.
  exact (process_ser_all_pend r0 ts' r (parser_new_pend _ _ _ _ _ E0) Tok E).
Qed.

Lemma diff_round_equal_obs Pr Sc o r : reachable Sc -> reachable Pr -> obs Sc = Ok o -> obs Pr = Ok o ->
  reproduce Pr = Ok r -> diff_round Pr Sc = Ok r.
Proof.
  intros HS HP ES EP Er. unfold diff_round. rewrite Er. cbn [bind].
  destruct (reachable_inv _ HS) as (KS & WS & _). destruct (reachable_inv _ HP) as (KP & _).
  destruct (ObsSpec.C19_obsdiff Sc Pr o KS WS KP ES EP) as (_ & -> & _). cbn [bind ser_all flat_map].
  apply process_nil; [apply (reproduce_ground Pr r HP Er)|exact (reproduce_pend Pr r HP Er)].
Qed.

(* ---- a non-trivial pair on which the round trip holds ---- *)
(* P: 3x6, red "ab", wide char, text wrapping into row 2;  S: an unrelated history *)
Definition ex_P : list N := [27;91;51;49;109;97;98;228;184;150;99;100;101;102;27;91;50;59;50;72].
Definition ex_S : list N := [120;27;91;49;109;121;13;10;240;159;152;128;122;27;91;63;50;53;108].

Lemma diff_round_example : exists Pr Sc, reachable Pr /\ reachable Sc /\ diff_round_ok Pr Sc.
Proof.
  destruct (after 3 6 ex_P) as [Pr|] eqn:EP; [|vm_compute in EP; discriminate].
  destruct (after 3 6 ex_S) as [Sc|] eqn:ES; [|vm_compute in ES; discriminate].
  exists Pr, Sc.
  assert (1 <= 3 <= MAXDIM) as H3 by (unfold MAXDIM; lia).
  assert (1 <= 6 <= MAXDIM) as H6 by (unfold MAXDIM; lia).
  split; [eapply after_reachable; [exact H3|exact H6|exact EP]|].
  split; [eapply after_reachable; [exact H3|exact H6|exact ES]|].
  vm_compute in EP. vm_compute in ES. inv EP. inv ES.
  unfold diff_round_ok. eexists. eexists. split; [vm_compute; reflexivity|]. split; vm_compute; reflexivity.
Qed.
