(* C01Examples.v — C01 for reachable screens in API terms, and concrete checks (non-vacuity). *)
Require Import Tac ListN Utf8 Width Attrs Cell Row Grid Screen Vte Perform Parser Term Emit.
Require Import RowInv GridInv TextInv ScreenInv ParseSer CellWf WfGrid WfVte WfInv WrapInv WrapInvScreen SgrSpec EmitSafe ObsSpec.
Require Import CellInv Recv RowPaint Redraw Cursor C01Main C15Main CapInv LastRow.
Open Scope N_scope.

(* a fresh parser's screen is a canvas with default mouse modes *)
Lemma fresh_canvas rows cols cap rz r : 1 <= rows <= MAXDIM -> 1 <= cols <= MAXDIM ->
  parser_new rows cols cap rz = Ok r ->
  canvas (scr r) /\ grows (g (scr r)) = rows /\ gcols (g (scr r)) = cols /\
  mmode (scr r) = MNone /\ menc (scr r) = EDefault /\
  live (g (scr r)) = blank_rows rows cols.
Proof.
  intros Hr Hc En.
  destruct (parser_new_ok rows cols cap rz Hr Hc) as (r' & En' & Hok). assert (r' = r) as -> by congruence.
  destruct (parser_new_wf _ _ _ _ _ En) as [Wf _].
  unfold parser_new in En. bind_inv En. inv En. cbn [scr] in *.
  unfold screen_new in E. bind_inv E. bind_inv E. inv E.
  unfold grid_new in E0, E1. bind_inv E0. inv E0. bind_inv E1. inv E1.
  unfold sub16 in E. destruct (N.leb_spec 1 rows); [|lia]. inv E.
  split; [|cbn; auto].
  split; [exact (parser_ok_scr _ Hok)|]. split; [exact Wf|]. cbn. auto.
Qed.

(* C01 in API terms: S is any screen reached from Parser::new by process / write / set_size /
   set_scrollback, looked at with scrollback offset 0; the receiver is a fresh parser of S's size *)
Theorem C01_fresh_reachable rows cols cap rz ops p q cap' rz' r ts :
  1 <= rows <= MAXDIM -> 1 <= cols <= MAXDIM ->
  parser_new rows cols cap rz = Ok p -> Forall op_ok ops -> run p ops = Ok q ->
  sb_off (cur (scr q)) = 0 ->
  parser_new (grows (cur (scr q))) (gcols (cur (scr q))) cap' rz' = Ok r ->
  state_formatted_t (scr q) = Ok ts ->
  exists R', play false (scr r) ts = Ok (R', []) /\ canvas R' /\
             same_obs_minus (scr q) R' (live (cur (scr q))) /\ same_modes (scr q) R'.
Proof.
  intros Hr Hc En Fo E Off Er Ets.
  pose proof (reachable_source_ok rows cols cap rz ops p q Hr Hc En Fo E Off) as Hs.
  destruct (cur_ok _ (so_ok _ _ Hs)) as (K & _).
  destruct (fresh_canvas _ _ cap' rz' r (gk_rows _ K) (gk_cols _ K) Er) as (CR & R1 & R2 & M1 & M2 & _).
  exact (C01_fresh (scr q) (scr r) _ ts Hs CR R1 R2 M1 M2 Ets).
Qed.

(* ... and since the last live row of a reachable screen is never flagged (LastRow.v), the receiver's
   OBSERVATION equals the source's: the headline statement of C01 *)
Theorem C01_reachable_obs rows cols cap rz ops p q cap' rz' r ts :
  1 <= rows <= MAXDIM -> 1 <= cols <= MAXDIM ->
  parser_new rows cols cap rz = Ok p -> Forall op_ok ops -> run p ops = Ok q ->
  sb_off (cur (scr q)) = 0 ->
  parser_new (grows (cur (scr q))) (gcols (cur (scr q))) cap' rz' = Ok r ->
  state_formatted_t (scr q) = Ok ts ->
  exists R', play false (scr r) ts = Ok (R', []) /\ canvas R' /\ obs R' = obs (scr q) /\
             state_formatted_t R' = Ok ts.
Proof.
  intros Hr Hc En Fo E Off Er Ets.
  pose proof (reachable_source_ok rows cols cap rz ops p q Hr Hc En Fo E Off) as Hs.
  destruct (cur_ok _ (so_ok _ _ Hs)) as (K & _).
  destruct (fresh_canvas _ _ cap' rz' r (gk_rows _ K) (gk_cols _ K) Er) as (CR & R1 & R2 & M1 & M2 & _).
  exact (C01_idem (scr q) (scr r) ts Hs Off (history_lastu rows cols cap rz ops p q Hr Hc En Fo E) CR R1 R2 M1 M2 Ets).
Qed.

(* the same for the row-wise protocol of C15 *)
Theorem C15_full_reachable rows cols cap rz ops p q cap' rz' r toks ctoks :
  1 <= rows <= MAXDIM -> 1 <= cols <= MAXDIM ->
  parser_new rows cols cap rz = Ok p -> Forall op_ok ops -> run p ops = Ok q ->
  sb_off (cur (scr q)) = 0 ->
  parser_new (grows (cur (scr q))) (gcols (cur (scr q))) cap' rz' = Ok r ->
  rows_formatted_t (scr q) 0 (gcols (cur (scr q))) = Ok toks -> cursor_state_formatted_t (scr q) = Ok ctoks ->
  exists R', play false (scr r) (full_protocol (scr q) (live (cur (scr q))) toks ctoks) = Ok (R', []) /\ canvas R' /\
             same_obs_minus (scr q) R' (live (cur (scr q))) /\ same_modes (scr q) R'.
Proof.
  intros Hr Hc En Fo E Off Er Et Ect.
  pose proof (reachable_source_ok rows cols cap rz ops p q Hr Hc En Fo E Off) as Hs.
  destruct (cur_ok _ (so_ok _ _ Hs)) as (K & _).
  destruct (fresh_canvas _ _ cap' rz' r (gk_rows _ K) (gk_cols _ K) Er) as (CR & R1 & R2 & M1 & M2 & Bl).
  apply (C15_full (scr q) (scr r) _ toks ctoks Hs CR R1 R2); auto. now rewrite R1, R2.
Qed.

(* ------------------------------------------------------------------ *)
(* concrete checks                                                      *)
(* ------------------------------------------------------------------ *)
Definition ok_or {A} (d : A) (r : res A) : A := match r with Ok a => a | Panic _ => d end.

(* 3 x 4:  ESC[31m "ab" U+4E16(wide) "cd" "e" U+0301 "f"  ESC[?25l ESC[?2004h :
   row 0 = a b 世 (wrapped), row 1 = c d e+U+0301 f ... *)
Definition ex_bytes : list N :=
  [27; 91; 51; 49; 109; 97; 98; 228; 184; 150; 99; 100; 101; 204; 129; 102;
   27; 91; 63; 50; 53; 108; 27; 91; 63; 50; 48; 48; 52; 104].

Definition ex_src : res parser := do p <- parser_new 3 4 0 false; run p [OpProcess ex_bytes].
Definition ex_rcv : res parser := parser_new 3 4 0 false.

(* the source screen: row 0 wrapped, wide character, combining mark, pending-wrap cursor at (1, 4) *)
Example ex_src_shape :
  match ex_src with
  | Ok q => (prow (g (scr q)), pcol (g (scr q)), map wrapped (live (g (scr q))), hide (scr q), paste (scr q))
            = (1, 4, [true; false; false], true, true)
  | Panic _ => False
  end.
Proof. vm_compute. reflexivity. Qed.

(* playing state_formatted of the source on the fresh receiver gives a screen with the same
   observation, and no event *)
Example ex_roundtrip :
  match ex_src, ex_rcv with
  | Ok q, Ok r =>
      match state_formatted_t (scr q) with
      | Ok ts =>
          match play false (scr r) ts with
          | Ok (R', evs) => evs = [] /\ obs R' = obs (scr q)
          | Panic _ => False
          end
      | Panic _ => False
      end
  | _, _ => False
  end.
Proof. vm_compute. split; reflexivity. Qed.

(* a source whose LAST visible row is flagged (scrolled-back view): everything is reproduced
   except that flag.  (After set_size every flag is clear: Row::resize clears it.) *)
Definition ex_src2 : res parser :=
  do p <- parser_new 2 2 5 false; run p [OpProcess [97; 98; 99; 100; 101]; OpSetScrollback 1].

Example ex_last_row_flag :
  match ex_src2, parser_new 2 2 0 false with
  | Ok q, Ok r =>
      match visible_rows (cur (scr q)), state_formatted_t (scr q) with
      | Ok vr, Ok ts =>
          map wrapped vr = [true; true] /\
          match play false (scr r) ts with
          | Ok (R', evs) => evs = [] /\ map wrapped (live (g R')) = [true; false] /\
                            map cells (live (g R')) = map cells vr /\
                            (prow (g R'), pcol (g R')) = (prow (g (scr q)), pcol (g (scr q)))
          | Panic _ => False
          end
      | _, _ => False
      end
  | _, _ => False
  end.
Proof. vm_compute. repeat split; reflexivity. Qed.

(* the row-wise protocol of C15 reproduces the full observation of a reachable screen *)
Theorem C15_full_reachable_obs rows cols cap rz ops p q cap' rz' r toks ctoks :
  1 <= rows <= MAXDIM -> 1 <= cols <= MAXDIM ->
  parser_new rows cols cap rz = Ok p -> Forall op_ok ops -> run p ops = Ok q ->
  sb_off (cur (scr q)) = 0 ->
  parser_new (grows (cur (scr q))) (gcols (cur (scr q))) cap' rz' = Ok r ->
  rows_formatted_t (scr q) 0 (gcols (cur (scr q))) = Ok toks -> cursor_state_formatted_t (scr q) = Ok ctoks ->
  exists R', play false (scr r) (full_protocol (scr q) (live (cur (scr q))) toks ctoks) = Ok (R', []) /\ canvas R' /\
             obs R' = obs (scr q).
Proof.
  intros Hr Hc En Fo E Off Er Et Ect.
  destruct (C15_full_reachable rows cols cap rz ops p q cap' rz' r toks ctoks Hr Hc En Fo E Off Er Et Ect)
    as (R' & P & C' & So & Sm).
  pose proof (reachable_source_ok rows cols cap rz ops p q Hr Hc En Fo E Off) as Hs.
  exists R'. split; [exact P|]. split; [exact C'|].
  apply (same_obs_obs (scr q) R' (so_ok _ _ Hs) C' Off So Sm).
  exact (history_lastu rows cols cap rz ops p q Hr Hc En Fo E).
Qed.
