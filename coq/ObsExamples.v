(* ObsExamples.v — non-vacuity examples for C19 through the real byte-level
   parser: different histories, different internal state, same observation,
   same emitted bytes, empty diffs. *)
Require Import Tac ListN Utf8 Attrs Cell Row Grid Screen Vte Perform Parser Term Emit ObsSpec.
Open Scope N_scope.

Definition screen_after (bs : list N) : option screen :=
  match parser_new 3 10 5 false with
  | Ok p => match process p bs with Ok q => Some (scr q) | Panic _ => None end
  | Panic _ => None
  end.

(* history 1:  "A"
   history 2:  "B" BS "A" ESC 7            (overwrite, then save the cursor at (0,1))
   history 3:  ESC[?47h "A"                (the same picture drawn on the alternate screen) *)
Definition h1 : list N := [65].
Definition h2 : list N := [66; 8; 65; 27; 55].
Definition h3 : list N := [27; 91; 63; 52; 55; 104; 65].

Definition with2 (a b : option screen) (P : screen -> screen -> Prop) : Prop :=
  match a, b with Some s1, Some s2 => P s1 s2 | _, _ => False end.

(* the screens differ in unobservable state *)
Example ex_hidden_state_differs :
  with2 (screen_after h1) (screen_after h2) (fun s1 s2 => spcol (g s1) = 0 /\ spcol (g s2) = 1) /\
  with2 (screen_after h1) (screen_after h3) (fun s1 s2 => altmode s1 = false /\ altmode s2 = true /\
                                                       live (g s2) <> live (g s1)).
Proof. vm_compute. repeat split; discriminate. Qed.

(* but have the same observation *)
Example ex_same_obs :
  with2 (screen_after h1) (screen_after h2) (fun s1 s2 => obs s1 = obs s2 /\ is_ok (obs s1) = true) /\
  with2 (screen_after h1) (screen_after h3) (fun s1 s2 => obs s1 = obs s2).
Proof. vm_compute. repeat split. Qed.

(* and (as the theorems predict) identical bytes and empty diffs *)
Example ex_same_bytes :
  with2 (screen_after h1) (screen_after h2) (fun s1 s2 =>
    res_map ser_all (state_formatted_t s1) = res_map ser_all (state_formatted_t s2) /\
    res_map ser_all (state_formatted_t s1)
      = Ok ([27; 91; 63; 50; 53; 104] ++ [27; 91; 109] ++ [27; 91; 72] ++ [27; 91; 74] ++ [65]
            ++ [27; 62] ++ [27; 91; 63; 49; 108] ++ [27; 91; 63; 50; 48; 48; 52; 108]) /\
    state_diff_t s1 s2 = Ok [] /\ state_diff_t s2 s1 = Ok [] /\
    rows_diff_t s1 s2 0 10 = Ok [[]; []; []]) /\
  with2 (screen_after h1) (screen_after h3) (fun s1 s2 =>
    state_formatted_t s1 = state_formatted_t s2 /\ state_diff_t s1 s2 = Ok [] /\
    rows_formatted_t s1 0 10 = rows_formatted_t s2 0 10).
Proof. vm_compute. repeat split. Qed.

(* a different observation does give a non-empty diff (the theorems are not vacuous the other way) *)
Example ex_diff_nonempty :
  with2 (screen_after [65; 66]) (screen_after h1) (fun s1 s2 =>
    res_map ser_all (contents_diff_t s1 s2) = Ok [66]).
Proof. vm_compute. reflexivity. Qed.
