(* Screen.v — screen.rs state and operations (Screen::text, controls, CSI
   handlers, SGR, DECSET/DECRST).  Functions that can call the `unhandled`
   closure return the number of times they called it. *)
Require Import Base Utf8 Width Attrs Cell Row Grid.

Inductive mouse_mode := MNone | MPress | MPressRelease | MButtonMotion | MAnyMotion.
Inductive mouse_enc := EDefault | EUtf8 | ESgr.

Definition mouse_mode_eqb (a b : mouse_mode) : bool :=
  match a, b with
  | MNone, MNone | MPress, MPress | MPressRelease, MPressRelease
  | MButtonMotion, MButtonMotion | MAnyMotion, MAnyMotion => true
  | _, _ => false
  end.
Definition mouse_enc_eqb (a b : mouse_enc) : bool :=
  match a, b with
  | EDefault, EDefault | EUtf8, EUtf8 | ESgr, ESgr => true
  | _, _ => false
  end.

Record screen := mkScreen {
  g : grid; alt : grid;
  pen : attrs; spen : attrs;
  keypad : bool; appcur : bool; hide : bool; altmode : bool; paste : bool;
  mmode : mouse_mode; menc : mouse_enc }.

Definition with_g (s : screen) (x : grid) : screen :=
  mkScreen x (alt s) (pen s) (spen s) (keypad s) (appcur s) (hide s) (altmode s) (paste s) (mmode s) (menc s).
Definition with_alt (s : screen) (x : grid) : screen :=
  mkScreen (g s) x (pen s) (spen s) (keypad s) (appcur s) (hide s) (altmode s) (paste s) (mmode s) (menc s).
Definition with_pen (s : screen) (a : attrs) : screen :=
  mkScreen (g s) (alt s) a (spen s) (keypad s) (appcur s) (hide s) (altmode s) (paste s) (mmode s) (menc s).
Definition with_spen (s : screen) (a : attrs) : screen :=
  mkScreen (g s) (alt s) (pen s) a (keypad s) (appcur s) (hide s) (altmode s) (paste s) (mmode s) (menc s).
Definition with_keypad (s : screen) (b : bool) : screen :=
  mkScreen (g s) (alt s) (pen s) (spen s) b (appcur s) (hide s) (altmode s) (paste s) (mmode s) (menc s).
Definition with_appcur (s : screen) (b : bool) : screen :=
  mkScreen (g s) (alt s) (pen s) (spen s) (keypad s) b (hide s) (altmode s) (paste s) (mmode s) (menc s).
Definition with_hide (s : screen) (b : bool) : screen :=
  mkScreen (g s) (alt s) (pen s) (spen s) (keypad s) (appcur s) b (altmode s) (paste s) (mmode s) (menc s).
Definition with_altmode (s : screen) (b : bool) : screen :=
  mkScreen (g s) (alt s) (pen s) (spen s) (keypad s) (appcur s) (hide s) b (paste s) (mmode s) (menc s).
Definition with_paste (s : screen) (b : bool) : screen :=
  mkScreen (g s) (alt s) (pen s) (spen s) (keypad s) (appcur s) (hide s) (altmode s) b (mmode s) (menc s).
Definition with_mmode (s : screen) (m : mouse_mode) : screen :=
  mkScreen (g s) (alt s) (pen s) (spen s) (keypad s) (appcur s) (hide s) (altmode s) (paste s) m (menc s).
Definition with_menc (s : screen) (m : mouse_enc) : screen :=
  mkScreen (g s) (alt s) (pen s) (spen s) (keypad s) (appcur s) (hide s) (altmode s) (paste s) (mmode s) m.

(* Screen::new *)
Definition screen_new (rows cols cap : N) : res screen :=
  do g0 <- grid_new rows cols cap;
  do a0 <- grid_new rows cols 0;
  Ok (mkScreen (allocate_rows g0) a0 dflt dflt false false false false false MNone EDefault).

(* grid() / grid_mut() *)
Definition cur (s : screen) : grid := if altmode s then alt s else g s.
Definition with_cur (s : screen) (x : grid) : screen := if altmode s then with_alt s x else with_g s x.
Definition on_cur (s : screen) (f : grid -> res grid) : res screen :=
  do x <- f (cur s); Ok (with_cur s x).

(* Screen::set_size *)
Definition screen_set_size (s : screen) (rows cols : N) : res screen :=
  do g1 <- grid_set_size (g s) rows cols;
  do a1 <- grid_set_size (alt s) rows cols;
  Ok (with_alt (with_g s g1) a1).

Definition screen_set_scrollback (s : screen) (k : N) : screen :=
  with_cur s (grid_set_scrollback (cur s) k).

Definition enter_alternate_grid (s : screen) : screen :=
  let s1 := with_cur s (grid_set_scrollback (cur s) 0) in
  let s2 := with_altmode s1 true in
  with_alt s2 (allocate_rows (alt s2)).
Definition exit_alternate_grid (s : screen) : screen := with_altmode s false.

Definition scr_save_cursor (s : screen) : screen :=
  with_spen (with_cur s (save_cursor (cur s))) (pen s).
Definition scr_restore_cursor (s : screen) : screen :=
  let s1 := with_cur s (restore_cursor (cur s)) in with_pen s1 (spen s1).

Definition clear_mouse_mode (s : screen) (m : mouse_mode) : screen :=
  if mouse_mode_eqb (mmode s) m then with_mmode s MNone else s.
Definition clear_mouse_enc (s : screen) (e : mouse_enc) : screen :=
  if mouse_enc_eqb (menc s) e then with_menc s EDefault else s.

(* ---- Screen::text ---- *)

(* the cell a zero-width character attaches to, given a position whose
   continuation status decides between col and col-1 *)
Definition append_at (x : grid) (r c : N) (ch : N) : res grid :=
  do pc <- unwrap (drawing_cell x r c);
  if ccont pc then
    do c2 <- sub16 c 1;
    do _ <- unwrap (drawing_cell x r c2);
    upd_cell x r c2 (cell_append ch)
  else upd_cell x r c (cell_append ch).

Definition text_zero (x : grid) (ch : N) : res grid :=
  if 0 <? pcol x then
    do c1 <- sub16 (pcol x) 1;
    append_at x (prow x) c1 ch
  else if 0 <? prow x then
    do r1 <- sub16 (prow x) 1;
    do prev_row <- unwrap (drawing_row x r1);
    if wrapped prev_row then
      do c1 <- sub16 (gcols x) 1;
      append_at x r1 c1 ch
    else Ok x
  else Ok x.

Definition text_place (x : grid) (ch width : N) (a : attrs) : res grid :=
  let r := prow x in
  let c := pcol x in
  do c0 <- unwrap (drawing_cell x r c);
  do x1 <- (if ccont c0 then do cm <- sub16 c 1; upd_cell x r cm (cell_clear a) else Ok x);
  do c0' <- unwrap (drawing_cell x1 r c);
  do x2 <- (if cwide c0' then do cp <- add16 c 1; upd_cell x1 r cp (cell_set 32 a) else Ok x1);
  do x3 <- upd_cell x2 r c (cell_set ch a);
  let x4 := col_inc x3 1 in
  if 1 <? width then
    let c' := pcol x4 in
    do n0 <- unwrap (drawing_cell x4 r c');
    do x5 <- (if cwide n0 then
                do cn <- add16 c' 1;
                do x5a <- upd_cell x4 r cn (cell_clear a);
                do lastc <- sub16 (gcols x4) 1;
                if cn =? lastc then upd_row x5a r (fun rw => Ok (row_wrap false rw)) else Ok x5a
              else Ok x4);
    do x6 <- upd_cell x5 r c' (fun cl => cell_set_cont true (cell_clear dflt cl));
    Ok (col_inc x6 1)
  else Ok x4.

Definition grid_text (x : grid) (ch : N) (a : attrs) : res grid :=
  let w := wd ch in
  match w, ch <? 256 with
  | None, true => Ok x
  | _, _ =>
    let width := match w with Some n => n | None => 1 end in
    if gcols x <? width then Ok x       (* D2 repair *)
    else
      do lim <- sub16 (gcols x) width;
      do wrap <- (if lim <? pcol x then
                    do lastc <- sub16 (gcols x) 1;
                    do lc <- unwrap (drawing_cell x (prow x) lastc);
                    Ok (has_contents lc || ccont lc)
                  else Ok false);
      do x1 <- col_wrap x width wrap;
      if width =? 0 then text_zero x1 ch else text_place x1 ch width a
  end.

Definition scr_text (s : screen) (ch : N) : res screen := on_cur s (fun x => grid_text x ch (pen s)).

(* ---- C0 / ESC ---- *)
Definition scr_bs s := on_cur s (fun x => Ok (col_dec x 1)).
Definition scr_tab s := on_cur s col_tab.
Definition scr_lf s := on_cur s (fun x => do '(x1, _) <- row_inc_scroll x 1; Ok x1).
Definition scr_cr s := on_cur s (fun x => col_set x 0).
Definition scr_ri s := on_cur s (fun x => row_dec_scroll x 1).
Definition scr_ris (s : screen) : res screen := screen_new (grows (g s)) (gcols (g s)) (sb_cap (g s)).

(* ---- CSI ---- *)
Definition scr_ich s n := on_cur s (fun x => insert_cells x n).
Definition scr_cuu s n := on_cur s (fun x => Ok (row_dec_clamp x n)).
Definition scr_cud s n := on_cur s (fun x => row_inc_clamp x n).
Definition scr_cuf s n := on_cur s (fun x => col_inc_clamp x n).
Definition scr_cub s n := on_cur s (fun x => Ok (col_dec x n)).
Definition scr_cnl s n := on_cur s (fun x => do x1 <- col_set x 0; row_inc_clamp x1 n).
Definition scr_cpl s n := on_cur s (fun x => do x1 <- col_set x 0; Ok (row_dec_clamp x1 n)).
Definition scr_cha s n := on_cur s (fun x => do c <- sub16 n 1; col_set x c).
Definition scr_cup s r c := on_cur s (fun x => do r1 <- sub16 r 1; do c1 <- sub16 c 1; grid_set_pos x r1 c1).
Definition scr_vpa s n := on_cur s (fun x => do r <- sub16 n 1; row_set x r).
Definition scr_il s n := on_cur s (fun x => insert_lines x n).
Definition scr_dl s n := on_cur s (fun x => delete_lines x n).
Definition scr_dch s n := on_cur s (fun x => delete_cells x n).
Definition scr_su s n := on_cur s (fun x => scroll_up x n).
Definition scr_sd s n := on_cur s (fun x => scroll_down x n).
Definition scr_ech s n := on_cur s (fun x => erase_cells x n (pen s)).
Definition scr_decstbm s t b :=
  on_cur s (fun x => do t1 <- sub16 t 1; do b1 <- sub16 b 1; set_scroll_region x t1 b1).

(* ED / EL: second component = number of `unhandled` calls *)
Definition scr_ed (s : screen) (mode : N) : res (screen * N) :=
  if mode =? 0 then do s1 <- on_cur s (fun x => erase_all_forward x (pen s)); Ok (s1, 0)
  else if mode =? 1 then do s1 <- on_cur s (fun x => erase_all_backward x (pen s)); Ok (s1, 0)
  else if mode =? 2 then do s1 <- on_cur s (fun x => Ok (erase_all x (pen s))); Ok (s1, 0)
  else Ok (s, 1).
Definition scr_el (s : screen) (mode : N) : res (screen * N) :=
  if mode =? 0 then do s1 <- on_cur s (fun x => erase_row_forward x (pen s)); Ok (s1, 0)
  else if mode =? 1 then do s1 <- on_cur s (fun x => erase_row_backward x (pen s)); Ok (s1, 0)
  else if mode =? 2 then do s1 <- on_cur s (fun x => erase_row x (pen s)); Ok (s1, 0)
  else Ok (s, 1).

(* ---- DECSET / DECRST ---- *)
Definition single (p : list N) : option N := match p with [n] => Some n | _ => None end.

Definition decset1 (s : screen) (p : list N) : res (screen * N) :=
  match single p with
  | None => Ok (s, 1)
  | Some n =>
    if n =? 1 then Ok (with_appcur s true, 0)
    else if n =? 6 then do s1 <- on_cur s (fun x => set_origin_mode x true); Ok (s1, 0)
    else if n =? 9 then Ok (with_mmode s MPress, 0)
    else if n =? 25 then Ok (with_hide s false, 0)
    else if n =? 47 then Ok (enter_alternate_grid s, 0)
    else if n =? 1000 then Ok (with_mmode s MPressRelease, 0)
    else if n =? 1002 then Ok (with_mmode s MButtonMotion, 0)
    else if n =? 1003 then Ok (with_mmode s MAnyMotion, 0)
    else if n =? 1005 then Ok (with_menc s EUtf8, 0)
    else if n =? 1006 then Ok (with_menc s ESgr, 0)
    else if n =? 1049 then
      let s1 := scr_save_cursor s in
      do a1 <- grid_clear (alt s1);
      Ok (enter_alternate_grid (with_alt s1 a1), 0)
    else if n =? 2004 then Ok (with_paste s true, 0)
    else Ok (s, 1)
  end.

Definition decrst1 (s : screen) (p : list N) : res (screen * N) :=
  match single p with
  | None => Ok (s, 1)
  | Some n =>
    if n =? 1 then Ok (with_appcur s false, 0)
    else if n =? 6 then do s1 <- on_cur s (fun x => set_origin_mode x false); Ok (s1, 0)
    else if n =? 9 then Ok (clear_mouse_mode s MPress, 0)
    else if n =? 25 then Ok (with_hide s true, 0)
    else if n =? 47 then Ok (exit_alternate_grid s, 0)
    else if n =? 1000 then Ok (clear_mouse_mode s MPressRelease, 0)
    else if n =? 1002 then Ok (clear_mouse_mode s MButtonMotion, 0)
    else if n =? 1003 then Ok (clear_mouse_mode s MAnyMotion, 0)
    else if n =? 1005 then Ok (clear_mouse_enc s EUtf8, 0)
    else if n =? 1006 then Ok (clear_mouse_enc s ESgr, 0)
    else if n =? 1049 then Ok (scr_restore_cursor (exit_alternate_grid s), 0)
    else if n =? 2004 then Ok (with_paste s false, 0)
    else Ok (s, 1)
  end.

Fixpoint fold_params (f : screen -> list N -> res (screen * N)) (ps : list (list N))
         (s : screen) (n : N) : res (screen * N) :=
  match ps with
  | [] => Ok (s, n)
  | p :: ps => do '(s1, k) <- f s p; fold_params f ps s1 (n + k)
  end.
Definition scr_decset s ps := fold_params decset1 ps s 0.
Definition scr_decrst s ps := fold_params decrst1 ps s 0.

(* ---- SGR ---- *)
Definition u8 (n : N) : option N := if n <=? 255 then Some n else None.

Inductive sgr_res :=
| SCont (a : attrs) (rest : list (list N)) (unh : N)
| SStop (a : attrs) (unh : N).

(* the 38 / 48 continuation: [2];[r];[g];[b]  or  [5];[i] *)
Definition ext_color (rest : list (list N)) (a : attrs) (setc : color -> attrs) : sgr_res :=
  match rest with
  | [] => SStop a 0
  | p :: rest1 =>
    match single p with
    | Some n =>
      if n =? 2 then
        match rest1 with
        | [] => SStop a 0
        | pr :: rest2 =>
          match single pr with
          | None => SStop a 0
          | Some r => match u8 r with None => SStop a 0 | Some r =>
            match rest2 with
            | [] => SStop a 0
            | pg :: rest3 =>
              match single pg with
              | None => SStop a 0
              | Some gg => match u8 gg with None => SStop a 0 | Some gg =>
                match rest3 with
                | [] => SStop a 0
                | pb :: rest4 =>
                  match single pb with
                  | None => SStop a 0
                  | Some b => match u8 b with None => SStop a 0 | Some b =>
                      SCont (setc (CRgb r gg b)) rest4 0 end
                  end
                end end
              end
            end end
          end
        end
      else if n =? 5 then
        match rest1 with
        | [] => SStop a 0
        | pi :: rest2 =>
          match single pi with
          | None => SStop a 0
          | Some i => match u8 i with None => SStop a 0 | Some i => SCont (setc (CIdx i)) rest2 0 end
          end
        end
      else SStop a 1
    | None => SStop a 1
    end
  end.

Definition rgb_or_stop (r gg b : N) (a : attrs) (rest : list (list N)) (setc : color -> attrs) : sgr_res :=
  match u8 r with None => SStop a 0 | Some r =>
  match u8 gg with None => SStop a 0 | Some gg =>
  match u8 b with None => SStop a 0 | Some b => SCont (setc (CRgb r gg b)) rest 0 end end end.

Definition sgr1 (p : list N) (rest : list (list N)) (a : attrs) : sgr_res :=
  match p with
  | [n] =>
    if n =? 0 then SCont dflt rest 0
    else if n =? 1 then SCont (set_inten IBold a) rest 0
    else if n =? 2 then SCont (set_inten IDim a) rest 0
    else if n =? 3 then SCont (set_italic true a) rest 0
    else if n =? 4 then SCont (set_underline true a) rest 0
    else if n =? 7 then SCont (set_inverse true a) rest 0
    else if n =? 22 then SCont (set_inten INormal a) rest 0
    else if n =? 23 then SCont (set_italic false a) rest 0
    else if n =? 24 then SCont (set_underline false a) rest 0
    else if n =? 27 then SCont (set_inverse false a) rest 0
    else if (30 <=? n) && (n <=? 37) then SCont (set_fg (CIdx (n - 30)) a) rest 0
    else if n =? 38 then ext_color rest a (fun c => set_fg c a)
    else if n =? 39 then SCont (set_fg CDefault a) rest 0
    else if (40 <=? n) && (n <=? 47) then SCont (set_bg (CIdx (n - 40)) a) rest 0
    else if n =? 48 then ext_color rest a (fun c => set_bg c a)
    else if n =? 49 then SCont (set_bg CDefault a) rest 0
    else if (90 <=? n) && (n <=? 97) then SCont (set_fg (CIdx (n - 82)) a) rest 0
    else if (100 <=? n) && (n <=? 107) then SCont (set_bg (CIdx (n - 92)) a) rest 0
    else SCont a rest 1
  | [x; y; i] =>
    if (x =? 38) && (y =? 5) then
      match u8 i with Some i => SCont (set_fg (CIdx i) a) rest 0 | None => SStop a 0 end
    else if (x =? 48) && (y =? 5) then
      match u8 i with Some i => SCont (set_bg (CIdx i) a) rest 0 | None => SStop a 0 end
    else SCont a rest 1
  | [x; y; r; gg; b] =>
    if (x =? 38) && (y =? 2) then rgb_or_stop r gg b a rest (fun c => set_fg c a)
    else if (x =? 48) && (y =? 2) then rgb_or_stop r gg b a rest (fun c => set_bg c a)
    else SCont a rest 1
  | _ => SCont a rest 1
  end.

Fixpoint sgr_loop (fuel : nat) (ps : list (list N)) (a : attrs) (unh : N) : attrs * N :=
  match fuel with
  | O => (a, unh)
  | S fuel =>
    match ps with
    | [] => (a, unh)
    | p :: rest =>
      match sgr1 p rest a with
      | SCont a' rest' k => sgr_loop fuel rest' a' (unh + k)
      | SStop a' k => (a', unh + k)
      end
    end
  end.

Definition sgr (ps : list (list N)) (a : attrs) : attrs * N :=
  match ps with
  | [] => (dflt, 0)
  | _ => sgr_loop (length ps) ps a 0
  end.

Definition scr_sgr (s : screen) (ps : list (list N)) : screen * N :=
  let '(a, k) := sgr ps (pen s) in (with_pen s a, k).
