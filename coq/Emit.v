(* Emit.v — the emitters of row.rs / grid.rs / screen.rs:
   contents_formatted, contents_diff, rows_formatted, rows_diff, state_*,
   input_mode_*, attributes_formatted, cursor_state_formatted, and the
   plain-text views contents(), rows(), contents_between(). *)
Require Import Base Utf8 Attrs Cell Row Grid Screen Term.

(* emitter state while painting one row *)
Record est := mkE {
  eout : list token;
  er : N; ec : N;                  (* prev_pos *)
  eattrs : attrs;                  (* prev_attrs *)
  eerase : option (N * attrs) }.

Definition e_out (e : est) (ts : list token) : est :=
  mkE (eout e ++ ts) (er e) (ec e) (eattrs e) (eerase e).
Definition e_pos (e : est) (r c : N) : est := mkE (eout e) r c (eattrs e) (eerase e).
Definition e_erase (e : est) (x : option (N * attrs)) : est := mkE (eout e) (er e) (ec e) (eattrs e) x.

(* if &prev_attrs != attrs { attrs.write_escape_code_diff(..); prev_attrs = *attrs } *)
Definition e_attrs (e : est) (a : attrs) : est :=
  if attrs_eqb (eattrs e) a then e
  else mkE (eout e ++ t_attrs_diff a (eattrs e)) (er e) (ec e) a (eerase e).

Definition e_move (e : est) (tr tc : N) : res est :=
  do ts <- t_move_from_to (er e) (ec e) tr tc; Ok (e_out e ts).

Definition wide_n (c : cell) : N := if cwide c then 1 else 0.
Definition adv_n (c : cell) : N := if cwide c then 2 else 1.

(* close an open erase run that started at column pc with attributes a.
   stop = Some col : ECH (col - pc);  None : EL.
   diffmode selects the (repaired) diff variant of the wrap test. *)
Definition flush_erase (diffmode wrapping : bool) (cols rowi : N) (e : est)
           (pc : N) (a : attrs) (stop : option N) : res est :=
  do through <- (if wrapping then
                   do r1 <- add16 (er e) 1;
                   Ok ((r1 =? rowi) && (cols <=? ec e) && (if diffmode then pc =? 0 else true))
                 else Ok false);
  do e1 <- (if through then
              Ok (if 0 <? pc then e_out e [TChars (repeatN 32 pc)]
                  else e_out e [TChars [32]; t_bs])
            else e_move e rowi pc);
  let e2 := e_attrs (e_pos e1 rowi pc) a in
  match stop with
  | Some col => do n <- sub16 col pc; Ok (e_erase (e_out e2 (t_erase_char n)) None)
  | None => Ok (e_erase (e_out e2 [t_clear_row_forward]) None)
  end.

(* one cell of the row loop (the part after the prev_was_wide skip) *)
Definition emit_cell (diffmode wrapping : bool) (cols rowi : N) (e : est)
           (col : N) (c : cell) (skip : bool) : res est :=
  do e1 <- match eerase e with
           | Some (pc, a) =>
             if has_contents c || negb (attrs_eqb (cattrs c) a)
             then flush_erase diffmode wrapping cols rowi e pc a (Some col)
             else Ok e
           | None => Ok e
           end;
  if skip then Ok e1
  else if has_contents c then
    do e2 <- (if (er e1 =? rowi) && (ec e1 =? col) then Ok e1
              else
                do need <- (if wrapping then
                              do r1 <- add16 (er e1) 1;
                              if negb (r1 =? rowi) then Ok true
                              else do lim <- sub16 cols (wide_n c);
                                   Ok ((ec e1 <? lim) || negb (col =? 0))
                            else Ok true);
                do e' <- (if need then e_move e1 rowi col else Ok e1);
                Ok (e_pos e' rowi col));
    let e3 := e_attrs e2 (cattrs c) in
    do nc <- add16 (ec e3) (adv_n c);
    Ok (e_out (e_pos e3 (er e3) nc) [TChars (ctext c)])
  else
    match eerase e1 with
    | None => Ok (e_erase e1 (Some (col, cattrs c)))
    | Some _ => Ok e1
    end.

(* the window loop: cells enumerated, skip(start).take(width), wide halves skipped *)
Fixpoint emit_loop (diffmode wrapping : bool) (cols rowi : N)
         (cs : list (cell * bool)) (col : N) (pw : bool) (e : est) : res est :=
  match cs with
  | [] => Ok e
  | (c, skip) :: rest =>
    if pw then emit_loop diffmode wrapping cols rowi rest (col + 1) false e
    else
      do e1 <- emit_cell diffmode wrapping cols rowi e col c skip;
      emit_loop diffmode wrapping cols rowi rest (col + 1) (cwide c) e1
  end.

Definition window {A} (start width : N) (l : list A) : list A := firstnN width (skipnN start l).

Definition finish_erase (diffmode wrapping : bool) (cols rowi : N) (e : est) : res est :=
  match eerase e with
  | Some (pc, a) => flush_erase diffmode wrapping cols rowi e pc a None
  | None => Ok e
  end.

(* Row::write_contents_formatted *)
Definition row_formatted (r : row) (start width rowi : N) (wrapping : bool)
           (ppos : option (N * N)) (pattrs : option attrs) : res (list token * (N * N) * attrs) :=
  let cols := row_cols r in
  do '(pr, pc) <- match ppos with
                  | Some p => Ok p
                  | None => if wrapping then do r1 <- sub16 rowi 1; Ok (r1, cols) else Ok (rowi, start)
                  end;
  let pa := match pattrs with Some a => a | None => dflt end in
  let e0 := mkE [] pr pc pa None in
  let e1 := match row_get r start with
            | Some fc =>
              if wrapping && cell_eqb fc cell_new then
                let e' := e_attrs e0 dflt in
                e_pos (e_out e' ([TChars [32]; t_bs] ++ t_erase_char 1)) rowi 0
              else e0
            | None => e0
            end in
  let cs := map (fun c => (c, cell_eqb c cell_new)) (window start width (cells r)) in
  do e2 <- emit_loop false wrapping cols rowi cs start false e1;
  do e3 <- finish_erase false wrapping cols rowi e2;
  Ok (eout e3, (er e3, ec e3), eattrs e3).

Fixpoint zip {A B} (a : list A) (b : list B) : list (A * B) :=
  match a, b with
  | x :: a, y :: b => (x, y) :: zip a b
  | _, _ => []
  end.

(* Row::write_contents_diff (after the D4 / D9 repairs) *)
Definition row_diff (r prev : row) (start width rowi : N) (wrapping prev_wrapping : bool)
           (ppos : N * N) (pattrs : attrs) : res (list token * (N * N) * attrs) :=
  let cols := row_cols r in
  match row_get r start, row_get prev start with
  | Some fc, Some pfc =>
    let e0 := mkE [] (fst ppos) (snd ppos) pattrs None in
    do pro <- (if wrapping && negb prev_wrapping && cell_eqb fc pfc then
                 do r1 <- add16 (er e0) 1;
                 if r1 =? rowi then
                   do lim <- sub16 cols (wide_n pfc); Ok (lim <=? ec e0)
                 else Ok false
               else Ok false);
    let e1 := if pro then
                let e' := e_attrs e0 (cattrs fc) in
                let need_erase := negb (has_contents pfc) in
                let txt := if need_erase then [32] else ctext pfc in
                e_pos (e_out e' ([TChars txt; t_bs] ++ (if cwide pfc then [t_bs] else [])
                                 ++ (if need_erase then t_erase_char 1 else []))) rowi 0
              else e0 in
    let cs := map (fun cp => (fst cp, cell_eqb (fst cp) (snd cp)))
                  (window start width (zip (cells r) (cells prev))) in
    do e2 <- emit_loop true wrapping cols rowi cs start false e1;
    do e3 <- finish_erase true wrapping cols rowi e2;
    do e4 <- (if negb (Bool.eqb (wrapped r) (wrapped prev)) then
                do lastc <- sub16 cols 1;
                do lc <- idx (cells r) lastc;
                do endc <- (if ccont lc then sub16 cols 2 else Ok lastc);
                do e' <- e_move e3 rowi endc;
                let e'' := e_pos e' rowi endc in
                let e''' := if negb (wrapped r) then e_out e'' (t_erase_char 1) else e'' in
                do endcell <- idx (cells r) endc;
                if has_contents endcell then
                  let ea := e_attrs e''' (cattrs endcell) in
                  do nc <- add16 (ec ea) (adv_n endcell);
                  Ok (e_pos (e_out ea [TChars (ctext endcell)]) (er ea) nc)
                else Ok e'''
              else Ok e3);
    Ok (eout e4, (er e4, ec e4), eattrs e4)
  | _, _ => Ok ([], ppos, pattrs)
  end.

(* ---- Grid::write_cursor_position_formatted (after the D8 repair) ---- *)
Definition vcell (vr : list row) (r c : N) : cell :=
  match get vr r with
  | Some rw => match row_get rw c with Some x => x | None => cell_new end
  | None => cell_new
  end.

Definition move_opt (ppos : option (N * N)) (tr tc : N) : res (list token) :=
  match ppos with
  | Some (pr, pc) => t_move_from_to pr pc tr tc
  | None => t_move_to tr tc
  end.

Definition redraw_cell (c : cell) (pa : attrs) : list token :=
  t_attrs_diff (cattrs c) pa ++ [TChars (ctext c)] ++ t_attrs_diff pa (cattrs c).

(* search upwards from row i-1 .. 0 for a row whose last cell has contents *)
Fixpoint find_filled (vr : list row) (cols : N) (n : nat) : res (option (N * N * cell)) :=
  match n with
  | O => Ok None
  | S k =>
    let i := N.of_nat k in
    do lastc <- sub16 cols 1;
    do c <- (if ccont (vcell vr i lastc) then sub16 cols 2 else Ok lastc);
    let cl := vcell vr i c in
    if has_contents cl then Ok (Some (i, c, cl)) else find_filled vr cols k
  end.

Definition cursor_position_formatted (x : grid) (ppos : option (N * N)) (pattrs : option attrs)
  : res (list token) :=
  let pa := match pattrs with Some a => a | None => dflt end in
  let same := match ppos with
              | Some (pr, pc) => (pr =? prow x) && (pc =? pcol x)
              | None => false
              end in
  if negb same && (gcols x <=? pcol x) then
    do vr <- visible_rows x;
    do lastc <- sub16 (gcols x) 1;
    do c <- (if ccont (vcell vr (prow x) lastc) then sub16 (gcols x) 2 else Ok lastc);
    let cl := vcell vr (prow x) c in
    if has_contents cl then
      do mv <- move_opt ppos (prow x) c;
      Ok (mv ++ redraw_cell cl pa)
    else
      do found <- find_filled vr (gcols x) (N.to_nat (prow x));
      match found with
      | Some (i, ci, cli) =>
        do pre <- match ppos with
                  | Some (pr, pc) =>
                    if negb (pr =? i) || (pc <? gcols x) then
                      do mv <- t_move_from_to pr pc i ci; Ok (mv ++ redraw_cell cli pa)
                    else Ok []
                  | None => do mv <- t_move_to i ci; Ok (mv ++ redraw_cell cli pa)
                  end;
        Ok (pre ++ repeatN (TCtl 10) (prow x - i))
      | None =>
        do mv <- move_opt ppos (prow x) lastc;
        let endc := vcell vr (prow x) lastc in
        Ok (mv ++ [TChars [32]] ++ t_attrs_diff (cattrs endc) pa
               ++ [t_save_cursor; t_bs] ++ t_erase_char 1 ++ [t_restore_cursor]
               ++ t_attrs_diff pa (cattrs endc))
      end
  else move_opt ppos (prow x) (pcol x).

(* ---- Grid::write_contents_formatted ---- *)
Fixpoint rows_formatted_loop (cols : N) (vr : list row) (i : N) (wrapping : bool)
         (pos : N * N) (a : attrs) (acc : list token) : res (list token * (N * N) * attrs) :=
  match vr with
  | [] => Ok (acc, pos, a)
  | rw :: rest =>
    do '(ts, pos', a') <- row_formatted rw 0 cols i wrapping (Some pos) (Some a);
    rows_formatted_loop cols rest (i + 1) (wrapped rw) pos' a' (acc ++ ts)
  end.

Definition grid_contents_formatted (x : grid) : res (list token * attrs) :=
  do vr <- visible_rows x;
  do '(ts, pos, a) <- rows_formatted_loop (gcols x) vr 0 false (0, 0) dflt [];
  do cur <- cursor_position_formatted x (Some pos) (Some a);
  Ok (t_clear_attrs :: t_clear_screen ++ ts ++ cur, a).

(* after the D10 repair: drawing over a wide character that ends in the last column makes the
   receiver forget that the row was wrapped, so the next row must not assume the flag *)
Definition clears_wrap (cols : N) (rw prw : row) : bool :=
  (2 <=? cols)
  && (match row_get prw (cols - 2) with Some c => cwide c | None => false end)
  && negb (match row_get rw (cols - 2) with Some c => has_contents c | None => false end).

Fixpoint rows_diff_loop (cols : N) (vr : list (row * row)) (i : N) (wrapping pwrapping : bool)
         (pos : N * N) (a : attrs) (acc : list token) : res (list token * (N * N) * attrs) :=
  match vr with
  | [] => Ok (acc, pos, a)
  | (rw, prw) :: rest =>
    do '(ts, pos', a') <- row_diff rw prw 0 cols i wrapping pwrapping pos a;
    rows_diff_loop cols rest (i + 1) (wrapped rw) (wrapped prw && negb (clears_wrap cols rw prw))
                   pos' a' (acc ++ ts)
  end.

Definition grid_contents_diff (x prev : grid) (pattrs : attrs) : res (list token * attrs) :=
  do vr <- visible_rows x;
  do pvr <- visible_rows prev;
  do '(ts, pos, a) <- rows_diff_loop (gcols x) (zip vr pvr) 0 false false
                                     (prow prev, pcol prev) pattrs [];
  do cur <- cursor_position_formatted x (Some pos) (Some a);
  Ok (ts ++ cur, a).

(* ---- Screen level ---- *)
Definition contents_formatted_t (s : screen) : res (list token) :=
  do '(ts, a) <- grid_contents_formatted (cur s);
  Ok (t_hide_cursor (hide s) :: ts ++ t_attrs_diff (pen s) a).

Definition contents_diff_t (s prev : screen) : res (list token) :=
  do '(ts, a) <- grid_contents_diff (cur s) (cur prev) (pen prev);
  Ok ((if Bool.eqb (hide s) (hide prev) then [] else [t_hide_cursor (hide s)])
        ++ ts ++ t_attrs_diff (pen s) a).

Definition t_mouse_mode (m prev : mouse_mode) : list token :=
  if mouse_mode_eqb m prev then []
  else match m with
       | MNone => match prev with
                  | MNone => []
                  | MPress => [TCsi true [9] 108]
                  | MPressRelease => [TCsi true [1000] 108]
                  | MButtonMotion => [TCsi true [1002] 108]
                  | MAnyMotion => [TCsi true [1003] 108]
                  end
       | MPress => [TCsi true [9] 104]
       | MPressRelease => [TCsi true [1000] 104]
       | MButtonMotion => [TCsi true [1002] 104]
       | MAnyMotion => [TCsi true [1003] 104]
       end.

Definition t_mouse_enc (m prev : mouse_enc) : list token :=
  if mouse_enc_eqb m prev then []
  else match m with
       | EDefault => match prev with
                     | EDefault => []
                     | EUtf8 => [TCsi true [1005] 108]
                     | ESgr => [TCsi true [1006] 108]
                     end
       | EUtf8 => [TCsi true [1005] 104]
       | ESgr => [TCsi true [1006] 104]
       end.

Definition input_mode_formatted_t (s : screen) : list token :=
  [t_keypad (keypad s); t_appcur (appcur s); t_paste (paste s)]
    ++ t_mouse_mode (mmode s) MNone ++ t_mouse_enc (menc s) EDefault.

Definition input_mode_diff_t (s prev : screen) : list token :=
  (if Bool.eqb (keypad s) (keypad prev) then [] else [t_keypad (keypad s)])
    ++ (if Bool.eqb (appcur s) (appcur prev) then [] else [t_appcur (appcur s)])
    ++ (if Bool.eqb (paste s) (paste prev) then [] else [t_paste (paste s)])
    ++ t_mouse_mode (mmode s) (mmode prev) ++ t_mouse_enc (menc s) (menc prev).

Definition state_formatted_t (s : screen) : res (list token) :=
  do ts <- contents_formatted_t s; Ok (ts ++ input_mode_formatted_t s).
Definition state_diff_t (s prev : screen) : res (list token) :=
  do ts <- contents_diff_t s prev; Ok (ts ++ input_mode_diff_t s prev).

Definition attributes_formatted_t (s : screen) : list token :=
  t_clear_attrs :: t_attrs_diff (pen s) dflt.

Definition cursor_state_formatted_t (s : screen) : res (list token) :=
  do ts <- cursor_position_formatted (cur s) None None;
  Ok (t_hide_cursor (hide s) :: ts).

(* rows_formatted(start, width): one token list per visible row *)
Fixpoint rows_formatted_rows (fullw : bool) (vr : list row) (start width i : N) (wrapping : bool)
  : res (list (list token)) :=
  match vr with
  | [] => Ok []
  | rw :: rest =>
    do '(ts, _, _) <- row_formatted rw start width i wrapping None None;
    do more <- rows_formatted_rows fullw rest start width (i + 1)
                                   (if fullw then wrapped rw else wrapping);
    Ok (ts :: more)
  end.

Definition rows_formatted_t (s : screen) (start width : N) : res (list (list token)) :=
  do vr <- visible_rows (cur s);
  rows_formatted_rows ((start =? 0) && (width =? gcols (g s))) vr start width 0 false.

Fixpoint rows_diff_rows (vr : list (row * row)) (start width i : N) : res (list (list token)) :=
  match vr with
  | [] => Ok []
  | (rw, prw) :: rest =>
    do '(ts, _, _) <- row_diff rw prw start width i false false (i, start) dflt;
    do more <- rows_diff_rows rest start width (i + 1);
    Ok (ts :: more)
  end.

Definition rows_diff_t (s prev : screen) (start width : N) : res (list (list token)) :=
  do vr <- visible_rows (cur s);
  do pvr <- visible_rows (cur prev);
  rows_diff_rows (zip vr pvr) start width 0.

(* ---- plain text ---- *)
(* Row::write_contents; returns the text and whether prev_col moved *)
Fixpoint row_text_loop (cs : list cell) (col : N) (pw : bool) (pcol : N) (acc : list N)
  : res (list N * N) :=
  match cs with
  | [] => Ok (acc, pcol)
  | c :: rest =>
    if pw then row_text_loop rest (col + 1) false pcol acc
    else if has_contents c then
      do gap <- sub16 col pcol;
      do p1 <- add16 pcol gap;
      do p2 <- add16 p1 (adv_n c);
      row_text_loop rest (col + 1) (cwide c) p2 (acc ++ repeatN 32 gap ++ ctext c)
    else row_text_loop rest (col + 1) (cwide c) pcol acc
  end.

Definition row_text (r : row) (start width : N) (wrapping : bool) : res (list N) :=
  do '(t, pc) <- row_text_loop (window start width (cells r)) start false start [];
  Ok (if (pc =? start) && wrapping then t ++ [10] else t).

Fixpoint strip_nl_rev (l : list N) : list N :=
  match l with
  | c :: rest => if c =? 10 then strip_nl_rev rest else l
  | [] => []
  end.
Definition strip_trailing_nl (l : list N) : list N := rev (strip_nl_rev (rev l)).

Fixpoint contents_loop (cols : N) (vr : list row) (wrapping : bool) (acc : list N) : res (list N) :=
  match vr with
  | [] => Ok acc
  | rw :: rest =>
    do t <- row_text rw 0 cols wrapping;
    contents_loop cols rest (wrapped rw) (acc ++ t ++ (if wrapped rw then [] else [10]))
  end.

Definition contents_text (s : screen) : res (list N) :=
  do vr <- visible_rows (cur s);
  do t <- contents_loop (gcols (cur s)) vr false [];
  Ok (strip_trailing_nl t).

Fixpoint map_res {A B} (f : A -> res B) (l : list A) : res (list B) :=
  match l with
  | [] => Ok []
  | a :: rest => do b <- f a; do bs <- map_res f rest; Ok (b :: bs)
  end.

Definition rows_text (s : screen) (start width : N) : res (list (list N)) :=
  do vr <- visible_rows (cur s);
  map_res (fun rw => row_text rw start width false) vr.

Fixpoint between_loop (cols sr sc er ecol : N) (vr : list row) (i : N) (acc : list N) : res (list N) :=
  match vr with
  | [] => Ok acc
  | rw :: rest =>
    do acc' <-
      (if i =? sr then
         do t <- row_text rw sc (sat_sub16 cols sc) false;
         Ok (acc ++ t ++ (if wrapped rw then [] else [10]))
       else if i =? er then
         do t <- row_text rw 0 ecol false; Ok (acc ++ t)
       else
         do t <- row_text rw 0 cols false;
         Ok (acc ++ t ++ (if wrapped rw then [] else [10])));
    between_loop cols sr sc er ecol rest (i + 1) acc'
  end.

Definition contents_between (s : screen) (sr sc er ecol : N) : res (list N) :=
  if sr <? er then
    do vr <- visible_rows (cur s);
    let sel := firstnN (er - sr + 1) (skipnN sr vr) in
    between_loop (gcols (cur s)) sr sc er ecol sel sr []
  else if sr =? er then
    if sc <? ecol then
      do rs <- rows_text s sc (ecol - sc);
      Ok (match get rs sr with Some t => t | None => [] end)
    else Ok []
  else Ok [].
