(* CostExamples.v — the cost counter evaluated on concrete screens (sanity checks of
   the instrumented model and of the bounds of CostSpec.v). *)
Require Import Tac ListN Grid Screen Vte Perform CostMonad CostModel CostSpec.
Open Scope N_scope.

Definition scr0 (r c : N) : screen :=
  match screen_new r c 0 with Ok s => s | Panic _ =>
    mkScreen (mkGrid 0 0 0 0 0 0 [] 0 0 false false [] 0 0) (mkGrid 0 0 0 0 0 0 [] 0 0 false false [] 0 0)
             Attrs.dflt Attrs.dflt false false false false false MNone EDefault end.

(* IL 3 on 5x10: 1 + 3 * (2*5 + 10 + 1) *)
Example ex_il : action_cost false (scr0 5 10) (ACsi [[3]] [] false 76) = 64.
Proof. vm_compute. reflexivity. Qed.
(* IL 1000 on 24x80: 1 + 1000 * 129 *)
Example ex_il_1000 : action_cost false (scr0 24 80) (ACsi [[1000]] [] false 76) = 129001.
Proof. vm_compute. reflexivity. Qed.
(* SD 7 on 24x80 *)
Example ex_sd : action_cost false (scr0 24 80) (ACsi [[7]] [] false 84) = 904.
Proof. vm_compute. reflexivity. Qed.

(* ICH 65535 at column 0 of a 24x80 screen: 80 iterations on a row growing 80 -> 160 *)
Example ex_ich : action_cost false (scr0 24 80) (ACsi [[65535]] [] false 64) = 9723.
Proof. vm_compute. reflexivity. Qed.
(* the same parameter costs the same as 80 *)
Example ex_ich_80 : action_cost false (scr0 24 80) (ACsi [[80]] [] false 64) = 9723.
Proof. vm_compute. reflexivity. Qed.
(* the unrepaired loop, 2000 iterations on an 80-column row: 2000*81 + 2000*1999/2 + truncate + 1 *)
Example ex_ich_old : snd (insert_cells_old_c (g (scr0 24 80)) 2000) = 2163002.
Proof. vm_compute. reflexivity. Qed.

(* SU / DL / ED / DECSET 1049 with huge parameters: dimensions only *)
Example ex_su : action_cost false (scr0 24 80) (ACsi [[65535]] [] false 83) = 3121.
Proof. vm_compute. reflexivity. Qed.
Example ex_dl : action_cost false (scr0 24 80) (ACsi [[65535]] [] false 77) = 3121.
Proof. vm_compute. reflexivity. Qed.
Example ex_ed2 : action_cost false (scr0 24 80) (ACsi [[2]] [] false 74) = 1921.
Proof. vm_compute. reflexivity. Qed.
Example ex_1049 : action_cost false (scr0 24 80) (ACsi [[1049]] [63] false 104) = 1922.
Proof. vm_compute. reflexivity. Qed.
(* a printable character in the middle of the screen; at the bottom-right corner after a wrap *)
Example ex_print : action_cost false (scr0 24 80) (APrint 65) = 9.
Proof. vm_compute. reflexivity. Qed.
