(* ShiftLines.v — closed forms of the line-shifting operations of Grid.v:
   scroll_up, scroll_down, insert_lines, delete_lines, row_inc_scroll (LF), row_dec_scroll (RI).
   The k-fold loops are shown to be equal to ONE shift of the lines of the region. *)
Require Import Tac ListN Attrs Cell Row Grid RowInv GridInv.
Open Scope N_scope.

(* ------------------------------------------------------------------ *)
(* generic list part                                                   *)
(* ------------------------------------------------------------------ *)

(* lines a..b of l moved down by m (m <= b+1-a): m blanks at a, the last m lines of a..b dropped *)
Definition shift_down (blank : row) (l : list row) (a b m : N) : list row :=
  firstnN a l ++ repeatN blank m ++ firstnN (b + 1 - a - m) (skipnN a l) ++ skipnN (b + 1) l.

(* lines a..b of l moved up by m (m <= b+1-a): the first m lines of a..b dropped, m blanks at the end *)
Definition shift_up (blank : row) (l : list row) (a b m : N) : list row :=
  firstnN a l ++ firstnN (b + 1 - a - m) (skipnN (a + m) l) ++ repeatN blank m ++ skipnN (b + 1) l.

(* the line at index i loses its wrap flag (cells untouched) *)
Definition clear_wrap_at (l : list row) (i : N) : list row :=
  match get l i with Some r => set_at l i (row_wrap false r) | None => l end.

Ltac getnorm :=
  rewrite ?get_app, ?len_app, ?len_cons, ?len_firstnN, ?len_skipnN, ?len_repeatN, ?len_set_at,
          ?get_firstnN, ?get_skipnN, ?get_repeatN, ?get_cons, ?get_set_at.

Ltac lcases :=
  repeat (match goal with
          | |- context[N.eqb ?a ?b] => destruct (N.eqb_spec a b)
          | |- context[N.ltb ?a ?b] => destruct (N.ltb_spec a b)
          | |- context[N.leb ?a ?b] => destruct (N.leb_spec a b)
          end; try lia).

Ltac getclose := try reflexivity; try (f_equal; lia); try lia.

Lemma len_shift_down blank l a b m : a <= b -> b < len l -> m <= b + 1 - a ->
  len (shift_down blank l a b m) = len l.
Proof. intros. unfold shift_down. getnorm. lia. Qed.

Lemma len_shift_up blank l a b m : a <= b -> b < len l -> m <= b + 1 - a ->
  len (shift_up blank l a b m) = len l.
Proof. intros. unfold shift_up. getnorm. lia. Qed.

Lemma get_shift_down blank l a b m j : a <= b -> b < len l -> m <= b + 1 - a ->
  get (shift_down blank l a b m) j =
  if j <? a then get l j else if j <? a + m then Some blank else if j <=? b then get l (j - m) else get l j.
Proof.
  intros Hab Hb Hm. unfold shift_down. getnorm. lcases; getclose.
Qed.

Lemma get_shift_up blank l a b m j : a <= b -> b < len l -> m <= b + 1 - a ->
  get (shift_up blank l a b m) j =
  if j <? a then get l j else if j <? b + 1 - m then get l (j + m) else if j <=? b then Some blank else get l j.
Proof.
  intros Hab Hb Hm. unfold shift_up. getnorm. lcases; getclose.
Qed.

Lemma get_clear_wrap_at l i j :
  get (clear_wrap_at l i) j = if j =? i then option_map (row_wrap false) (get l i) else get l j.
Proof.
  unfold clear_wrap_at. destruct (get l i) as [r|] eqn:E.
  - rewrite get_set_at. destruct (N.eqb_spec j i) as [->|]; [|reflexivity].
    apply get_some_lt in E. destruct (N.ltb_spec i (len l)); [reflexivity|lia].
  - destruct (N.eqb_spec j i) as [->|]; [exact E|reflexivity].
Qed.

Lemma len_clear_wrap_at l i : len (clear_wrap_at l i) = len l.
Proof. unfold clear_wrap_at. destruct (get l i); [apply len_set_at|reflexivity]. Qed.

Lemma wrap_false_at_eq l i : i < len l -> wrap_false_at l i = Ok (clear_wrap_at l i).
Proof.
  intros H. destruct (get_lt_some l i H) as (r & Hg). unfold wrap_false_at, clear_wrap_at.
  rewrite (idx_get _ _ _ Hg), Hg. reflexivity.
Qed.

(* shifting by 0 changes nothing *)
Lemma shift_down_0 blank l a b : a <= b -> b < len l -> shift_down blank l a b 0 = l.
Proof.
  intros Hab Hb. apply list_ext_get. intros j. rewrite get_shift_down by lia. lcases; getclose.
Qed.
Lemma shift_up_0 blank l a b : a <= b -> b < len l -> shift_up blank l a b 0 = l.
Proof.
  intros Hab Hb. apply list_ext_get. intros j. rewrite get_shift_up by lia. lcases; getclose.
Qed.

(* one iteration of the IL / SD / RI loop *)
Definition down_step (blank : row) (a b : N) (l : list row) : res (list row) :=
  do '(_, l1) <- remove_at l b;
  do l2 <- insert_at l1 a blank;
  wrap_false_at l2 b.

(* one iteration of the DL / SU / LF loop (list part) *)
Definition up_step (blank : row) (a b : N) (l : list row) : res (row * list row) :=
  do l1 <- insert_at l (b + 1) blank;
  remove_at l1 a.

Lemma down_step_eq blank a b l : a <= b -> b < len l -> wrapped blank = false ->
  down_step blank a b l = Ok (clear_wrap_at (shift_down blank l a b 1) b).
Proof.
  intros Hab Hb Hw. unfold down_step.
  destruct (get_lt_some l b Hb) as (x & Hx). rewrite (remove_at_ok _ _ _ Hx). cbn [bind].
  set (l1 := firstnN b l ++ skipnN (b + 1) l).
  assert (len l1 = len l - 1) as L1 by (unfold l1; rewrite len_remove; lia).
  rewrite insert_at_ok by lia. cbn [bind].
  set (l2 := firstnN a l1 ++ blank :: skipnN a l1).
  assert (len l2 = len l) as L2 by (unfold l2; rewrite len_insert; lia).
  rewrite wrap_false_at_eq by lia. f_equal.
  apply list_ext_get. intros j. rewrite !get_clear_wrap_at.
  assert (forall i, get l2 i = get (shift_down blank l a b 1) i) as G.
  { intros i. rewrite get_shift_down by lia. unfold l2. rewrite get_insert by lia.
    unfold l1. lcases; try reflexivity; rewrite get_remove by lia; lcases; getclose. }
  rewrite !G. reflexivity.
Qed.

Lemma up_step_eq blank a b l : a <= b -> b < len l ->
  exists x, get l a = Some x /\ up_step blank a b l = Ok (x, shift_up blank l a b 1).
Proof.
  intros Hab Hb. unfold up_step.
  assert (a < len l) as Ha by lia.
  destruct (get_lt_some l a Ha) as (x & Hx). exists x. split; [exact Hx|].
  rewrite insert_at_ok by lia. cbn [bind].
  set (l1 := firstnN (b + 1) l ++ blank :: skipnN (b + 1) l).
  assert (len l1 = len l + 1) as L1 by (unfold l1; rewrite len_insert; lia).
  assert (get l1 a = Some x) as Hx1.
  { unfold l1. rewrite get_insert by lia. lcases. exact Hx. }
  rewrite (remove_at_ok _ _ _ Hx1). f_equal. f_equal.
  apply list_ext_get. intros j. rewrite get_shift_up by lia. rewrite get_remove by lia.
  unfold l1. lcases; rewrite get_insert by lia; lcases; getclose.
Qed.

(* composing shifts *)
Lemma row_wrap_false_idem r : row_wrap false (row_wrap false r) = row_wrap false r.
Proof. reflexivity. Qed.

Lemma shift_down_step blank l a b m : a <= b -> b < len l -> m <= b + 1 - a -> wrapped blank = false ->
  clear_wrap_at (shift_down blank (clear_wrap_at (shift_down blank l a b m) b) a b 1) b =
  clear_wrap_at (shift_down blank l a b (N.min (m + 1) (b + 1 - a))) b.
Proof.
  intros Hab Hb Hm Hw.
  assert (row_wrap false blank = blank) as Hbl by (destruct blank; cbn in *; subst; reflexivity).
  apply list_ext_get. intros j. rewrite !get_clear_wrap_at.
  rewrite !get_shift_down by (rewrite ?len_clear_wrap_at, ?len_shift_down; lia).
  rewrite !get_clear_wrap_at. rewrite !get_shift_down by lia.
  lcases; cbn [option_map]; rewrite ?Hbl; try reflexivity; try (do 2 f_equal; lia); try (f_equal; lia).
Qed.

Lemma shift_up_step blank l a b m : a <= b -> b < len l -> m <= b + 1 - a ->
  shift_up blank (shift_up blank l a b m) a b 1 = shift_up blank l a b (N.min (m + 1) (b + 1 - a)).
Proof.
  intros Hab Hb Hm.
  apply list_ext_get. intros j.
  rewrite !get_shift_up by (rewrite ?len_shift_up; lia).
  lcases; getclose.
Qed.

(* result of n iterations of the down loop *)
Definition down_form (blank : row) (l : list row) (a b n : N) : list row :=
  if n =? 0 then l else clear_wrap_at (shift_down blank l a b (N.min n (b + 1 - a))) b.

Lemma iter_down_eq blank a b l n : a <= b -> b < len l -> wrapped blank = false ->
  iter_res n (down_step blank a b) l = Ok (down_form blank l a b (N.of_nat n)).
Proof.
  intros Hab Hb Hw.
  assert (forall k m, m <= b + 1 - a -> 1 <= m ->
            iter_res k (down_step blank a b) (clear_wrap_at (shift_down blank l a b m) b) =
            Ok (clear_wrap_at (shift_down blank l a b (N.min (m + N.of_nat k) (b + 1 - a))) b)) as G.
  { induction k as [|k IH]; intros m Hm H1; cbn [iter_res].
    - do 3 f_equal. lia.
    - rewrite down_step_eq by (rewrite ?len_clear_wrap_at, ?len_shift_down; first [assumption|lia]). cbn [bind].
      rewrite shift_down_step by first [assumption|lia]. rewrite IH by lia. do 3 f_equal. lia. }
  destruct n as [|n]; [reflexivity|]. cbn [iter_res].
  rewrite down_step_eq by first [assumption|lia]. cbn [bind].
  rewrite G by lia. unfold down_form. destruct (N.eqb_spec (N.of_nat (S n)) 0); [lia|].
  do 3 f_equal. lia.
Qed.

(* ------------------------------------------------------------------ *)
(* grid level                                                          *)
(* ------------------------------------------------------------------ *)

Lemma new_row_wrapped x : wrapped (new_row x) = false.
Proof. reflexivity. Qed.

Lemma with_live_id x : with_live x (live x) = x.
Proof. destruct x; reflexivity. Qed.

(* A.2  scroll_down (SD; also the engine of RI) *)
Theorem scroll_down_closed x n : grid_ok x ->
  scroll_down x n = Ok (with_live x (down_form (row_new (gcols x)) (live x) (top x) (bot x) n)).
Proof.
  intros H. okdims. unfold scroll_down.
  change (fun l => do '(_, l1) <- remove_at l (bot x); do l2 <- insert_at l1 (top x) (new_row x); wrap_false_at l2 (bot x))
    with (down_step (new_row x) (top x) (bot x)).
  rewrite iter_down_eq; [|lia|rewrite (gk_live _ K); lia|reflexivity].
  cbn [bind]. rewrite N2Nat.id. reflexivity.
Qed.

(* A.3  insert_lines (IL), cursor row inside the region *)
Theorem insert_lines_closed x n : grid_ok x -> top x <= prow x <= bot x ->
  insert_lines x n = Ok (with_live x (down_form (row_new (gcols x)) (live x) (prow x) (bot x) n)).
Proof.
  intros H Hin. okdims. unfold insert_lines.
  change (fun l => do '(_, l1) <- remove_at l (bot x); do l2 <- insert_at l1 (prow x) (new_row x); wrap_false_at l2 (bot x))
    with (down_step (new_row x) (prow x) (bot x)).
  rewrite iter_down_eq; [|lia|rewrite (gk_live _ K); lia|reflexivity].
  cbn [bind]. rewrite N2Nat.id. reflexivity.
Qed.

(* the up loop on lists *)
Lemma iter_up_eq blank a b l n : a <= b -> b < len l ->
  iter_res n (fun l => do l1 <- insert_at l (b + 1) blank; do '(_, l2) <- remove_at l1 a; Ok l2) l =
  Ok (shift_up blank l a b (N.min (N.of_nat n) (b + 1 - a))).
Proof.
  intros Hab Hb.
  assert (forall k m, m <= b + 1 - a ->
            iter_res k (fun l => do l1 <- insert_at l (b + 1) blank; do '(_, l2) <- remove_at l1 a; Ok l2)
                     (shift_up blank l a b m) =
            Ok (shift_up blank l a b (N.min (m + N.of_nat k) (b + 1 - a)))) as G.
  { induction k as [|k IH]; intros m Hm; cbn [iter_res].
    - do 2 f_equal. lia.
    - destruct (up_step_eq blank a b (shift_up blank l a b m)) as (x & _ & E); [lia|rewrite len_shift_up; lia|].
      unfold up_step in E.
      destruct (insert_at (shift_up blank l a b m) (b + 1) blank) as [l1|] eqn:E1; [|discriminate].
      cbn [bind] in E |- *. rewrite E. cbn [bind].
      rewrite shift_up_step by lia. rewrite IH by lia. do 2 f_equal. lia. }
  rewrite <- (shift_up_0 blank l a b Hab Hb) at 1. rewrite G by lia. do 2 f_equal.
Qed.

(* A.3  delete_lines (DL), cursor row inside the region.  The loop bound is min n (rows - prow),
   which may exceed the height of [prow, bot]; the extra iterations shift blanks into blanks and
   never touch the lines below bot. *)
Theorem delete_lines_closed x n : grid_ok x -> top x <= prow x <= bot x ->
  delete_lines x n =
  Ok (with_live x (shift_up (row_new (gcols x)) (live x) (prow x) (bot x) (N.min n (bot x + 1 - prow x)))).
Proof.
  intros H Hin. okdims. unfold delete_lines. rewrite sub16_ok by lia. cbn [bind].
  unfold new_row.
  rewrite iter_up_eq; [|lia|rewrite (gk_live _ K); lia].
  cbn [bind]. rewrite N2Nat.id. do 3 f_equal. lia.
Qed.

(* A.1  scroll_up (SU; also the engine of LF).  Indexed invariant for the loop on grids. *)
Lemma iter_res_inv_idx {A} (P : nat -> A -> Prop) (f : A -> res A) n a b :
  iter_res n f a = Ok b -> P O a -> (forall k x y, (k < n)%nat -> f x = Ok y -> P k x -> P (S k) y) -> P n b.
Proof.
  intros E Pa Hf.
  assert (forall m k x, (k + m = n)%nat -> iter_res m f x = Ok b -> P k x -> P n b) as G.
  { induction m as [|m IH]; intros k x Hk Ex Px; cbn [iter_res] in Ex.
    - inv Ex. replace (k + 0)%nat with k by lia. exact Px.
    - bind_inv Ex. apply (IH (S k) v); [lia|exact Ex|]. apply (Hf k x v); [lia|exact E0|exact Px]. }
  apply (G n O a); [lia|exact E|exact Pa].
Qed.

(* everything of a grid except live rows and scrollback *)
Definition same_shape (x y : grid) : Prop :=
  grows y = grows x /\ gcols y = gcols x /\ prow y = prow x /\ pcol y = pcol x /\
  sprow y = sprow x /\ spcol y = spcol x /\ top y = top x /\ bot y = bot x /\
  origin y = origin x /\ sorigin y = sorigin x /\ sb_cap y = sb_cap x.

Lemma same_shape_refl x : same_shape x x.
Proof. unfold same_shape; repeat split. Qed.

Theorem scroll_up_closed x n y : grid_ok x -> scroll_up x n = Ok y ->
  live y = shift_up (row_new (gcols x)) (live x) (top x) (bot x) (N.min n (bot x + 1 - top x)) /\
  same_shape x y.
Proof.
  intros H E. okdims. unfold scroll_up in E. rewrite sub16_ok in E by lia. cbn [bind] in E.
  unfold scroll_region_active in E. rewrite sub16_ok in E by lia. cbn [bind] in E.
  pose proof (gk_live _ K) as HL.
  set (h := bot x + 1 - top x) in *.
  pose proof (iter_res_inv_idx
    (fun k g => live g = shift_up (row_new (gcols x)) (live x) (top x) (bot x) (N.min (N.of_nat k) h) /\ same_shape x g)
    _ _ _ _ E) as G.
  cbv beta in G.
  destruct G as [G1 G2].
  - split; [|apply same_shape_refl]. replace (N.min (N.of_nat 0) h) with 0 by lia.
    symmetry. apply shift_up_0; lia.
  - intros k g g' Hk Eg [L S]. destruct S as (S1 & S2 & S3 & S4 & S5 & S6 & S7 & S8 & S9 & S10 & S11).
    destruct (up_step_eq (new_row g) (top g) (bot g) (live g)) as (r0 & _ & E1).
    { rewrite S7, S8. lia. }
    { rewrite L, len_shift_up, S8; lia. }
    unfold up_step in E1.
    destruct (insert_at (live g) (bot g + 1) (new_row g)) as [l1|] eqn:E2; [|discriminate].
    cbn [bind] in E1, Eg. rewrite E1 in Eg. cbn [bind] in Eg.
    assert (shift_up (new_row g) (live g) (top g) (bot g) 1 =
            shift_up (row_new (gcols x)) (live x) (top x) (bot x) (N.min (N.of_nat (S k)) h)) as L'.
    { unfold new_row. rewrite S2, S7, S8, L. rewrite shift_up_step by (unfold h in *; lia).
      f_equal. unfold h. lia. }
    rewrite L' in Eg.
    destruct ((0 <? sb_cap (with_live g _)) && _) in Eg; inv Eg; cbn; (split; [reflexivity|]);
      unfold same_shape; cbn; repeat split; assumption.
  - split; [|exact G2]. rewrite G1. f_equal. rewrite N2Nat.id. unfold h. lia.
Qed.

(* scrolling by 0 is the identity *)
Lemma scroll_up_0 x : grid_ok x -> scroll_up x 0 = Ok x.
Proof.
  intros H. okdims. unfold scroll_up. rewrite sub16_ok by lia. cbn [bind].
  unfold scroll_region_active. rewrite sub16_ok by lia. cbn [bind].
  replace (N.min 0 (grows x - top x)) with 0 by lia. reflexivity.
Qed.
Lemma scroll_down_0 x : scroll_down x 0 = Ok x.
Proof. unfold scroll_down. cbn. now rewrite with_live_id. Qed.

(* A.4  LF / VT / FF  (row_inc_scroll x 1) *)
Lemma with_prow_same x : with_prow x (prow x) = x.
Proof. destruct x; reflexivity. Qed.
Lemma with_prow_twice x a b : with_prow (with_prow x a) b = with_prow x b.
Proof. destruct x; reflexivity. Qed.

Theorem lf_closed x : grid_ok x ->
  row_inc_scroll x 1 =
  if in_scroll_region x then
    if prow x =? bot x then (do y <- scroll_up x 1; Ok (y, 1))       (* at the bottom margin: scroll, cursor stays *)
    else Ok (with_prow x (prow x + 1), 0)                             (* inside the region: one line down *)
  else if prow x <? grows x - 1 then Ok (with_prow x (prow x + 1), 0) (* outside the region: one line down *)
  else Ok (x, 0).                                                     (* last line of the screen, outside: nothing *)
Proof.
  intros H. okdims. unfold row_inc_scroll.
  rewrite row_clamp_bottom_eq by (cbn; lia). cbn [bind].
  assert (sat_add16 (prow x) 1 = prow x + 1) as ES by (unfold sat_add16, U16MAX, MAXDIM in *; lia).
  rewrite ES. rewrite with_prow_twice.
  change (prow (with_prow x (prow x + 1))) with (prow x + 1).
  change (bot (with_prow x (prow x + 1))) with (bot x).
  change (grows (with_prow x (prow x + 1))) with (grows x).
  destruct (in_scroll_region x) eqn:Ein; unfold in_scroll_region in Ein.
  - assert (top x <= prow x <= bot x) as Hin by lia.
    destruct (N.eqb_spec (prow x) (bot x)) as [Eb|Nb].
    + replace (N.min (prow x + 1) (bot x)) with (prow x) by lia.
      replace (prow x + 1 - bot x) with 1 by lia. rewrite with_prow_same. reflexivity.
    + replace (N.min (prow x + 1) (bot x)) with (prow x + 1) by lia.
      replace (prow x + 1 - bot x) with 0 by lia.
      rewrite scroll_up_0; [reflexivity|]. apply ok_with_pos; auto. lia.
  - destruct (N.ltb_spec (prow x) (grows x - 1)).
    + replace (N.min (prow x + 1) (grows x - 1)) with (prow x + 1) by lia. reflexivity.
    + replace (N.min (prow x + 1) (grows x - 1)) with (prow x) by lia. rewrite with_prow_same. reflexivity.
Qed.

(* A.4  RI  (row_dec_scroll x 1) *)
Theorem ri_closed x : grid_ok x ->
  row_dec_scroll x 1 =
  if in_scroll_region x then
    if prow x =? top x then scroll_down x 1                           (* at the top margin: scroll, cursor stays *)
    else Ok (with_prow x (prow x - 1))                                (* inside the region: one line up *)
  else if 0 <? prow x then Ok (with_prow x (prow x - 1))              (* outside the region: one line up *)
  else scroll_down x 1.                                               (* line 0 above an active region: OUTSIDE THE CONTRACT *)
Proof.
  intros H. okdims. unfold row_dec_scroll. rewrite row_clamp_top_eq.
  unfold sat_sub16. rewrite with_prow_twice.
  change (prow (with_prow x (prow x - 1))) with (prow x - 1).
  change (top (with_prow x (prow x - 1))) with (top x).
  destruct (in_scroll_region x) eqn:Ein; unfold in_scroll_region in Ein.
  - assert (top x <= prow x <= bot x) as Hin by lia.
    destruct (N.eqb_spec (prow x) (top x)) as [Et|Nt].
    + replace (N.max (prow x - 1) (top x)) with (prow x) by lia. rewrite with_prow_same.
      assert (add16 (top x - (prow x - 1)) (if prow x <? 1 then 1 - prow x else 0) = Ok 1) as ->.
      { destruct (N.ltb_spec (prow x) 1); rewrite add16_ok by lia; f_equal; lia. }
      reflexivity.
    + replace (N.max (prow x - 1) (top x)) with (prow x - 1) by lia.
      assert (add16 (top x - (prow x - 1)) (if prow x <? 1 then 1 - prow x else 0) = Ok 0) as ->.
      { destruct (N.ltb_spec (prow x) 1); rewrite add16_ok by lia; f_equal; lia. }
      cbn [bind]. apply scroll_down_0.
  - destruct (N.ltb_spec 0 (prow x)).
    + destruct (N.ltb_spec (prow x) 1); [lia|]. rewrite add16_ok by lia. cbn [bind].
      replace (0 + 0) with 0 by lia. apply scroll_down_0.
    + destruct (N.ltb_spec (prow x) 1); [|lia]. rewrite add16_ok by lia. cbn [bind].
      replace (0 + (1 - prow x)) with 1 by lia.
      replace (prow x - 1) with (prow x) by lia. rewrite with_prow_same. reflexivity.
Qed.
