(* ShiftSpec.v — property-level specification of insert/delete/scroll (C08), derived from the
   closed forms of ShiftLines.v (IL, DL, SU, SD, LF, RI), ShiftCells.v (DCH) and ShiftIns.v (ICH). *)
Require Import Tac ListN Attrs Cell Row Grid Screen RowInv GridInv.
Require Export ShiftLines ShiftCells ShiftIns.
Open Scope N_scope.

(* ------------------------------------------------------------------ *)
(* A. lines                                                            *)
(* ------------------------------------------------------------------ *)

(* l' is l with the lines a..b moved DOWN by m: m blank lines at a, the last m lines of a..b dropped,
   lines outside a..b identical; if clr, the line that ends at index b has lost its wrap flag
   (its cells are untouched); every other moved line is identical to the original *)
Definition lines_down (cols : N) (l l' : list row) (a b m : N) (clr : bool) : Prop :=
  len l' = len l /\
  (forall j, j < a \/ b < j -> get l' j = get l j) /\
  (forall j, a <= j < a + m -> get l' j = Some (row_new cols)) /\
  (forall j, a + m <= j <= b ->
     get l' j = option_map (fun r => if clr && (j =? b) then row_wrap false r else r) (get l (j - m))).

(* l' is l with the lines a..b moved UP by m: the first m lines of a..b dropped, m blank lines at the
   end of a..b, lines outside a..b identical, moved lines identical to the originals *)
Definition lines_up (cols : N) (l l' : list row) (a b m : N) : Prop :=
  len l' = len l /\
  (forall j, j < a \/ b < j -> get l' j = get l j) /\
  (forall j, a <= j -> j + m <= b -> get l' j = get l (j + m)) /\
  (forall j, a <= j -> b < j + m -> j <= b -> get l' j = Some (row_new cols)).

Lemma down_form_lines cols l a b n : a <= b -> b < len l ->
  lines_down cols l (down_form (row_new cols) l a b n) a b (N.min n (b + 1 - a)) (0 <? n).
Proof.
  intros Hab Hb. unfold down_form, lines_down.
  destruct (N.eqb_spec n 0) as [->|Hn].
  - replace (N.min 0 (b + 1 - a)) with 0 by lia. split; [reflexivity|].
    split; [reflexivity|]. split; [intros; lia|].
    intros j Hj. replace (j - 0) with j by lia. cbn [andb]. now destruct (get l j).
  - destruct (N.ltb_spec 0 n); [|lia]. cbn [andb].
    set (m := N.min n (b + 1 - a)).
    split; [rewrite len_clear_wrap_at, len_shift_down; lia|].
    split; [|split].
    + intros j Hj. rewrite get_clear_wrap_at, !get_shift_down by lia. lcases; reflexivity.
    + intros j Hj. rewrite get_clear_wrap_at, !get_shift_down by lia. lcases; reflexivity.
    + intros j Hj. rewrite get_clear_wrap_at, !get_shift_down by lia.
      lcases; subst; try reflexivity; destruct (get l _); reflexivity.
Qed.

Lemma shift_up_lines cols l a b m : a <= b -> b < len l -> m <= b + 1 - a ->
  lines_up cols l (shift_up (row_new cols) l a b m) a b m.
Proof.
  intros Hab Hb Hm. unfold lines_up.
  split; [apply len_shift_up; lia|].
  split; [|split]; intros j; intros; rewrite get_shift_up by lia; lcases; reflexivity.
Qed.

(* SD *)
Theorem sd_spec x n : grid_ok x ->
  exists y, scroll_down x n = Ok y /\ y = with_live x (live y) /\
    lines_down (gcols x) (live x) (live y) (top x) (bot x) (N.min n (bot x + 1 - top x)) (0 <? n).
Proof.
  intros H. okdims. rewrite scroll_down_closed by exact H.
  eexists; split; [reflexivity|]. split; [reflexivity|]. cbn [live with_live].
  apply down_form_lines; [lia|]. rewrite (gk_live _ K). lia.
Qed.

(* IL, cursor row inside the scroll region *)
Theorem il_spec x n : grid_ok x -> top x <= prow x <= bot x ->
  exists y, insert_lines x n = Ok y /\ y = with_live x (live y) /\
    lines_down (gcols x) (live x) (live y) (prow x) (bot x) (N.min n (bot x + 1 - prow x)) (0 <? n).
Proof.
  intros H Hin. okdims. rewrite insert_lines_closed by assumption.
  eexists; split; [reflexivity|]. split; [reflexivity|]. cbn [live with_live].
  apply down_form_lines; [lia|]. rewrite (gk_live _ K). lia.
Qed.

(* DL, cursor row inside the scroll region *)
Theorem dl_spec x n : grid_ok x -> top x <= prow x <= bot x ->
  exists y, delete_lines x n = Ok y /\ y = with_live x (live y) /\
    lines_up (gcols x) (live x) (live y) (prow x) (bot x) (N.min n (bot x + 1 - prow x)).
Proof.
  intros H Hin. okdims. rewrite delete_lines_closed by assumption.
  eexists; split; [reflexivity|]. split; [reflexivity|]. cbn [live with_live].
  apply shift_up_lines; [lia| |lia]. rewrite (gk_live _ K). lia.
Qed.

(* SU: only the live lines and the scrollback can change *)
Theorem su_spec x n : grid_ok x ->
  exists y, scroll_up x n = Ok y /\ grid_ok y /\ same_shape x y /\
    lines_up (gcols x) (live x) (live y) (top x) (bot x) (N.min n (bot x + 1 - top x)).
Proof.
  intros H. okdims. destruct (scroll_up_post x n H) as (y & E & Oy & _).
  destruct (scroll_up_closed x n y H E) as [L S].
  exists y. split; [exact E|]. split; [exact Oy|]. split; [exact S|]. rewrite L.
  apply shift_up_lines; [lia| |lia]. rewrite (gk_live _ K). lia.
Qed.

(* LF (also VT, FF) *)
Theorem lf_spec x : grid_ok x ->
  (* at the bottom margin: the region scrolls up by one, the cursor stays *)
  (top x <= prow x -> prow x = bot x ->
     exists y, row_inc_scroll x 1 = Ok (y, 1) /\ grid_ok y /\ same_shape x y /\
       lines_up (gcols x) (live x) (live y) (top x) (bot x) 1) /\
  (* inside the region above the margin, or outside the region above the last line: one line down *)
  ((top x <= prow x < bot x) \/ ((prow x < top x \/ bot x < prow x) /\ prow x < grows x - 1) ->
     row_inc_scroll x 1 = Ok (with_prow x (prow x + 1), 0)) /\
  (* last line of the screen, outside the region: nothing *)
  (bot x < prow x -> prow x = grows x - 1 -> row_inc_scroll x 1 = Ok (x, 0)).
Proof.
  intros H. okdims. rewrite lf_closed by exact H. unfold in_scroll_region.
  split; [|split].
  - intros Ht Eb. destruct (N.leb_spec (top x) (prow x)); [|lia].
    destruct (N.leb_spec (prow x) (bot x)); [|lia]. cbn [andb].
    destruct (N.eqb_spec (prow x) (bot x)); [|lia].
    destruct (su_spec x 1 H) as (y & E & Oy & S & L). rewrite E. cbn [bind].
    exists y. split; [reflexivity|]. split; [exact Oy|]. split; [exact S|].
    replace (N.min 1 (bot x + 1 - top x)) with 1 in L by lia. exact L.
  - intros [Hin|[Hout Hlt]].
    + destruct (N.leb_spec (top x) (prow x)); [|lia].
      destruct (N.leb_spec (prow x) (bot x)); [|lia]. cbn [andb].
      destruct (N.eqb_spec (prow x) (bot x)); [lia|]. reflexivity.
    + destruct (N.ltb_spec (prow x) (grows x - 1)); [|lia].
      destruct (N.leb_spec (top x) (prow x)), (N.leb_spec (prow x) (bot x)); cbn [andb]; try reflexivity; lia.
  - intros Hb El. destruct (N.ltb_spec (prow x) (grows x - 1)); [lia|].
    destruct (N.leb_spec (top x) (prow x)), (N.leb_spec (prow x) (bot x)); cbn [andb]; try reflexivity; lia.
Qed.

(* RI *)
Theorem ri_spec x : grid_ok x ->
  (* at the top margin (this includes line 0 when top = 0): the region scrolls down by one, the cursor stays *)
  (prow x = top x ->
     exists y, row_dec_scroll x 1 = Ok y /\ y = with_live x (live y) /\
       lines_down (gcols x) (live x) (live y) (top x) (bot x) 1 true) /\
  (* elsewhere, except on line 0: one line up *)
  (prow x <> top x -> 0 < prow x -> row_dec_scroll x 1 = Ok (with_prow x (prow x - 1))).
Proof.
  intros H. okdims. rewrite ri_closed by exact H. unfold in_scroll_region.
  split.
  - intros Et. destruct (N.leb_spec (top x) (prow x)); [|lia].
    destruct (N.leb_spec (prow x) (bot x)); [|lia]. cbn [andb].
    destruct (N.eqb_spec (prow x) (top x)); [|lia].
    destruct (sd_spec x 1 H) as (y & E & Ey & L). exists y. split; [exact E|]. split; [exact Ey|].
    replace (N.min 1 (bot x + 1 - top x)) with 1 in L by lia. exact L.
  - intros Nt Hp. destruct (N.ltb_spec 0 (prow x)); [|lia].
    destruct (N.eqb_spec (prow x) (top x)); [lia|].
    destruct ((top x <=? prow x) && (prow x <=? bot x)); reflexivity.
Qed.

(* outside the contract: RI on line 0 above an active region scrolls the region although the cursor
   is not inside it (the cursor stays on line 0) *)
Remark ri_row0_above_region x : grid_ok x -> prow x = 0 -> 0 < top x ->
  row_dec_scroll x 1 = scroll_down x 1.
Proof.
  intros H E0 Ht. rewrite ri_closed by exact H. unfold in_scroll_region.
  destruct (N.leb_spec (top x) (prow x)); [lia|]. cbn [andb].
  destruct (N.ltb_spec 0 (prow x)); [lia|reflexivity].
Qed.

(* ------------------------------------------------------------------ *)
(* B. cells                                                            *)
(* ------------------------------------------------------------------ *)

(* replacing one live row leaves the other rows, the cursor and everything else alone *)
Lemma set_row_others x r rw' j : j <> r -> get (live (with_live x (set_at (live x) r rw'))) j = get (live x) j.
Proof. intros Hj. cbn [live with_live]. rewrite get_set_at. destruct (N.eqb_spec j r); [lia|reflexivity]. Qed.

Lemma get_dch_cells cs c k j : 1 <= k -> c + k <= len cs ->
  get (dch_cells cs c k) j =
  if j <? c then (if (j =? c - 1) && fc cs c then option_map clear_own (get cs j) else get cs j)
  else if j <? len cs - k then
         (if (j =? c) && fc cs (c + k) then option_map clear_own (get cs (j + k)) else get cs (j + k))
  else if j <? len cs then Some cell_new else None.
Proof.
  intros Hk Hc. unfold dch_cells, del_cells. destruct (N.eqb_spec k 0); [lia|].
  rewrite get_app, len_del_form, get_del_form, get_repeatN by lia. rewrite !get_del_prep by lia.
  destruct (N.ltb_spec j c).
  - destruct (N.ltb_spec j (len cs - k)); [|lia].
    destruct (N.eqb_spec j (c + k)); [lia|]. reflexivity.
  - destruct (N.ltb_spec j (len cs - k)).
    + destruct (N.eqb_spec (j + k) (c - 1)); [lia|]. cbn [andb].
      destruct (N.eqb_spec (j + k) (c + k)), (N.eqb_spec j c); try lia; cbn [andb]; reflexivity.
    + lcases; reflexivity.
Qed.

(* B.1  DCH *)
Theorem dch_spec x n rw : grid_ok x -> get (live x) (prow x) = Some rw ->
  let cs := cells rw in let c := pcol x in let cols := gcols x in let k := N.min n (cols - c) in
  exists rw', delete_cells x n = Ok (with_live x (set_at (live x) (prow x) rw')) /\
    wrapped rw' = false /\ row_ok cols rw' /\
    (k = 0 -> cells rw' = cs) /\
    (1 <= k ->
       (* left of the cursor: untouched, except the first half of a wide character whose second half
          is under the cursor: blanked, keeping its attributes *)
       (forall j, j < c -> j + 1 <> c \/ fc cs c = false -> get (cells rw') j = get cs j) /\
       (fc cs c = true -> get (cells rw') (c - 1) = option_map clear_own (get cs (c - 1))) /\
       (* the cells c+k .. cols-1 move left by k unchanged, except the second half of a wide character
          whose first half is deleted: blanked, keeping its attributes *)
       (forall j, c <= j -> j + k < cols -> j <> c \/ fc cs (c + k) = false -> get (cells rw') j = get cs (j + k)) /\
       (fc cs (c + k) = true -> get (cells rw') c = option_map clear_own (get cs (c + k))) /\
       (* k default blanks at the end *)
       (forall j, cols <= j + k -> j < cols -> get (cells rw') j = Some cell_new)).
Proof.
  intros H Hg cs c cols k. okdims.
  destruct (live_get x (prow x) H Hr) as (rw0 & Hg0 & Hl & Hok).
  assert (rw0 = rw) by congruence; subst rw0.
  destruct (delete_cells_post x n H) as (y & Ey & Oy & _).
  rewrite (delete_cells_closed x n rw H Hg) in Ey |- *. fold cs c cols k in Ey |- *.
  eexists; split; [reflexivity|]. split; [reflexivity|].
  assert (c + k <= len cs) as Hck by (unfold cs, k, c, cols in *; lia).
  split; [|split].
  - inv Ey. destruct Oy as (Ky & _). pose proof (gk_rowsok _ Ky) as F. cbn [live with_live gcols] in F.
    apply (Forall_get _ _ (prow x) _ F). rewrite get_set_at. destruct (N.eqb_spec (prow x) (prow x)); [|lia].
    rewrite (gk_live _ K). destruct (N.ltb_spec (prow x) (grows x)); [reflexivity|lia].
  - intros ->. cbn [cells]. unfold dch_cells, del_cells. change (0 =? 0) with true. cbn. apply app_nil_r.
  - intros Hk. cbn [cells]. fold cols in Hl. fold cs in Hl.
    split; [|split; [|split; [|split]]].
    + intros j Hj Hx. rewrite get_dch_cells by lia. destruct (N.ltb_spec j c); [|lia].
      destruct Hx as [Hx| ->]; [|now rewrite andb_false_r].
      destruct (N.eqb_spec j (c - 1)); [lia|reflexivity].
    + intros Hfc. assert (1 <= c) as Hc1.
      { destruct (N.eqb_spec c 0) as [E0|]; [|lia]. rewrite E0 in Hfc.
        pose proof (ok_first _ Hok) as F0. fold cs in F0. congruence. }
      rewrite get_dch_cells by lia. destruct (N.ltb_spec (c - 1) c); [|lia].
      destruct (N.eqb_spec (c - 1) (c - 1)); [|lia]. rewrite Hfc. reflexivity.
    + intros j Hj1 Hj2 Hx. rewrite get_dch_cells by lia. destruct (N.ltb_spec j c); [lia|].
      destruct (N.ltb_spec j (len cs - k)); [|lia].
      destruct Hx as [Hx| ->]; [|now rewrite andb_false_r].
      destruct (N.eqb_spec j c); [lia|reflexivity].
    + intros Hfc. assert (c + k < len cs) as Hlt.
      { destruct (N.ltb_spec (c + k) (len cs)); [assumption|]. rewrite fc_out in Hfc by lia. discriminate. }
      rewrite get_dch_cells by lia. destruct (N.ltb_spec c c); [lia|].
      destruct (N.ltb_spec c (len cs - k)); [|lia].
      destruct (N.eqb_spec c c); [|lia]. rewrite Hfc. reflexivity.
    + intros j Hj1 Hj2. rewrite get_dch_cells by lia. destruct (N.ltb_spec j c); [lia|].
      destruct (N.ltb_spec j (len cs - k)); [lia|]. destruct (N.ltb_spec j (len cs)); [reflexivity|lia].
Qed.

(* ---- ICH ---- *)
Lemma get_app_cons {A} (a : list A) y b j :
  get (a ++ y :: b) j = if j <? len a then get a j else if j =? len a then Some y else get b (j - len a - 1).
Proof.
  rewrite get_app, get_cons.
  destruct (N.ltb_spec j (len a)); [reflexivity|].
  destruct (N.eqb_spec (j - len a) 0), (N.eqb_spec j (len a)); try lia; reflexivity.
Qed.

Lemma get_ins_plain cs c k j : c <= len cs ->
  get (ins_plain cs c k) j =
  if j <? c then get cs j else if j <? c + k then Some cell_new else get cs (j - k).
Proof.
  intros Hc. unfold ins_plain. rewrite !get_app, len_firstnN, len_repeatN, get_firstnN, get_repeatN, get_skipnN.
  replace (N.min c (len cs)) with c by lia.
  destruct (N.ltb_spec j c); [reflexivity|].
  destruct (N.ltb_spec (j - c) k), (N.ltb_spec j (c + k)); try lia; [reflexivity|]. f_equal. lia.
Qed.

Lemma get_ins_cont cs c k x j : c < len cs -> 1 <= k ->
  get (ins_cont cs c k x) j =
  if j <? c then get cs j else if j =? c then Some cont_blank else if j <? c + k then Some cell_new
  else if j =? c + k then Some (cell_set_cont false x) else get cs (j - k).
Proof.
  intros Hc Hk. unfold ins_cont. rewrite get_app_cons, len_firstnN, get_firstnN.
  replace (N.min c (len cs)) with c by lia.
  destruct (N.ltb_spec j c); [reflexivity|].
  destruct (N.eqb_spec j c); [reflexivity|].
  rewrite get_app_cons, len_repeatN, get_repeatN, get_skipnN.
  destruct (N.ltb_spec (j - c - 1) (k - 1)), (N.ltb_spec j (c + k)); try lia; [reflexivity|].
  destruct (N.eqb_spec (j - c - 1) (k - 1)), (N.eqb_spec j (c + k)); try lia; [reflexivity|]. f_equal. lia.
Qed.

Lemma get_ins_form cs c k j : c < len cs -> 1 <= k ->
  get (ins_form cs c k) j =
  if j <? c then get cs j
  else if j <? c + k then Some (if (j =? c) && fc cs c then cont_blank else cell_new)
  else option_map (fun x => if (j =? c + k) && fc cs c then cell_set_cont false x else x) (get cs (j - k)).
Proof.
  intros Hc Hk. unfold ins_form. destruct (N.eqb_spec k 0); [lia|].
  destruct (get_lt_some cs c Hc) as (x & Hx). rewrite Hx, (fc_get _ _ _ Hx).
  destruct (ccont x) eqn:Ec.
  - rewrite get_ins_cont by lia.
    destruct (N.ltb_spec j c); [reflexivity|].
    destruct (N.eqb_spec j c) as [->|].
    + destruct (N.ltb_spec c (c + k)); [reflexivity|lia].
    + destruct (N.ltb_spec j (c + k)); [reflexivity|]. cbn [andb]. rewrite andb_true_r.
      destruct (N.eqb_spec j (c + k)) as [->|].
      * replace (c + k - k) with c by lia. rewrite Hx. reflexivity.
      * now destruct (get cs (j - k)).
  - rewrite get_ins_plain by lia. rewrite !andb_false_r.
    destruct (N.ltb_spec j c); [reflexivity|]. destruct (N.ltb_spec j (c + k)); [reflexivity|].
    now destruct (get cs (j - k)).
Qed.

Lemma get_cut_wide' cs j :
  get (cut_wide cs) j = option_map (fun x => if (j =? len cs - 1) && cwide x then clear_own x else x) (get cs j).
Proof.
  rewrite get_cut_wide. destruct (N.eqb_spec j (len cs - 1)) as [->|]; cbn [andb].
  - unfold fw. destruct (get cs (len cs - 1)) as [x|]; [|reflexivity]. cbn [option_map]. now destruct (cwide x).
  - now destruct (get cs j).
Qed.

(* what becomes of the old cell x that ends at index j after ICH: a continuation cell under the cursor
   loses its flag (the first blank has taken it over); a wide first half that lands in the last
   column (its second half is pushed out) is blanked, keeping its attributes *)
Definition ich_moved (cs : list cell) (c k j : N) (x : cell) : cell :=
  let x1 := if (j =? c + k) && fc cs c then cell_set_cont false x else x in
  if (j =? len cs - 1) && cwide x1 then clear_own x1 else x1.

(* a moved cell that is not one of the two split cases is unchanged *)
Lemma ich_moved_same cs c k j x :
  j <> c + k \/ fc cs c = false -> j <> len cs - 1 \/ cwide x = false -> ich_moved cs c k j x = x.
Proof.
  intros H1 H2. unfold ich_moved.
  assert ((j =? c + k) && fc cs c = false) as ->.
  { destruct H1 as [H1| ->]; [|apply andb_false_r]. destruct (N.eqb_spec j (c + k)); [lia|reflexivity]. }
  cbv zeta. destruct H2 as [H2| ->]; [|now rewrite andb_false_r].
  destruct (N.eqb_spec j (len cs - 1)); [lia|reflexivity].
Qed.

Lemma get_ich_cells cs c k j : c < len cs -> 1 <= k ->
  get (ich_cells cs c k) j =
  if j <? c then get cs j
  else if j <? c + k then (if j <? len cs then Some (if (j =? c) && fc cs c then cont_blank else cell_new) else None)
  else if j <? len cs then option_map (ich_moved cs c k j) (get cs (j - k)) else None.
Proof.
  intros Hc Hk. unfold ich_cells. rewrite get_cut_wide', get_firstnN, len_firstnN, len_ins_form by lia.
  replace (N.min (len cs) (len cs + k)) with (len cs) by lia.
  rewrite get_ins_form by lia.
  destruct (N.ltb_spec j (len cs)).
  - destruct (N.ltb_spec j c).
    + destruct (N.eqb_spec j (len cs - 1)); [lia|]. cbn [andb]. now destruct (get cs j).
    + destruct (N.ltb_spec j (c + k)).
      * cbn [option_map]. destruct ((j =? c) && fc cs c); cbn; rewrite andb_false_r; reflexivity.
      * unfold ich_moved. now destruct (get cs (j - k)).
  - destruct (N.ltb_spec j c); [lia|]. destruct (N.ltb_spec j (c + k)); reflexivity.
Qed.

Lemma ich_cells_0 cs c : cells_ok cs -> ich_cells cs c 0 = cs.
Proof.
  intros Hok. unfold ich_cells, ins_form. change (0 =? 0) with true. cbv iota.
  replace (firstnN (len cs) cs) with cs; [apply cut_wide_ok; exact Hok|].
  unfold firstnN, len. rewrite Nat2N.id. symmetry. apply firstn_all.
Qed.
Lemma dch_cells_0 cs c : dch_cells cs c 0 = cs.
Proof. unfold dch_cells, del_cells. change (0 =? 0) with true. cbn. apply app_nil_r. Qed.

(* B.2  ICH *)
Theorem ich_spec x n rw : grid_ok x -> get (live x) (prow x) = Some rw -> pcol x < gcols x ->
  let cs := cells rw in let c := pcol x in let cols := gcols x in let k := N.min n (cols - c) in
  exists rw', insert_cells x n = Ok (with_live x (set_at (live x) (prow x) rw')) /\
    wrapped rw' = false /\ row_ok cols rw' /\
    (k = 0 -> cells rw' = cs) /\
    (1 <= k ->
       (* left of the cursor: untouched *)
       (forall j, j < c -> get (cells rw') j = get cs j) /\
       (* k blanks at the cursor; the first one carries the continuation flag when the cursor was on
          the second half of a wide character (which therefore stays whole) *)
       get (cells rw') c = Some (if fc cs c then cont_blank else cell_new) /\
       (forall j, c < j < c + k -> get (cells rw') j = Some cell_new) /\
       (* the old cells c .. cols-1-k move right by k (ich_moved: unchanged except the two split cases) *)
       (forall j, c + k <= j < cols -> get (cells rw') j = option_map (ich_moved cs c k j) (get cs (j - k)))).
Proof.
  intros H Hg Hlt cs c cols k. okdims.
  destruct (live_get x (prow x) H Hr) as (rw0 & Hg0 & Hl & Hok).
  assert (rw0 = rw) by congruence; subst rw0.
  destruct (insert_cells_post x n H) as (y & Ey & Oy & _).
  rewrite (insert_cells_closed x n rw H Hg) in Ey |- *. fold cs c cols k in Ey |- *.
  eexists; split; [reflexivity|]. split; [reflexivity|].
  fold cols in Hl. fold cs in Hl, Hok. fold c cols in Hlt.
  split; [|split].
  - inv Ey. destruct Oy as (Ky & _). pose proof (gk_rowsok _ Ky) as F. cbn [live with_live gcols] in F.
    apply (Forall_get _ _ (prow x) _ F). rewrite get_set_at. destruct (N.eqb_spec (prow x) (prow x)); [|lia].
    rewrite (gk_live _ K). destruct (N.ltb_spec (prow x) (grows x)); [reflexivity|lia].
  - intros ->. cbn [cells]. apply ich_cells_0. exact Hok.
  - intros Hk. cbn [cells]. assert (c + k <= cols) as Hck by (unfold k; lia).
    split; [|split; [|split]].
    + intros j Hj. rewrite get_ich_cells by lia. destruct (N.ltb_spec j c); [reflexivity|lia].
    + rewrite get_ich_cells by lia. destruct (N.ltb_spec c c); [lia|].
      destruct (N.ltb_spec c (c + k)); [|lia]. destruct (N.ltb_spec c (len cs)); [|lia].
      destruct (N.eqb_spec c c); [|lia]. reflexivity.
    + intros j Hj. rewrite get_ich_cells by lia. destruct (N.ltb_spec j c); [lia|].
      destruct (N.ltb_spec j (c + k)); [|lia]. destruct (N.ltb_spec j (len cs)); [|lia].
      destruct (N.eqb_spec j c); [lia|]. reflexivity.
    + intros j Hj. rewrite get_ich_cells by lia. destruct (N.ltb_spec j c); [lia|].
      destruct (N.ltb_spec j (c + k)); [lia|]. destruct (N.ltb_spec j (len cs)); [reflexivity|lia].
Qed.

(* B.3  k = 0 (pending wrap: cursor column = cols; or a count of 0): no cell changes, both clear the wrap flag *)
Theorem ich_dch_k0 x n rw : grid_ok x -> get (live x) (prow x) = Some rw ->
  N.min n (gcols x - pcol x) = 0 ->
  insert_cells x n = Ok (with_live x (set_at (live x) (prow x) (row_wrap false rw))) /\
  delete_cells x n = Ok (with_live x (set_at (live x) (prow x) (row_wrap false rw))).
Proof.
  intros H Hg Hk. okdims.
  destruct (live_get x (prow x) H Hr) as (rw0 & Hg0 & Hl & Hok).
  assert (rw0 = rw) by congruence; subst rw0.
  rewrite (insert_cells_closed x n rw H Hg), (delete_cells_closed x n rw H Hg), Hk.
  rewrite ich_cells_0 by exact Hok. rewrite dch_cells_0.
  split; reflexivity.
Qed.

Corollary ich_dch_pending_wrap x n rw : grid_ok x -> get (live x) (prow x) = Some rw -> pcol x = gcols x ->
  insert_cells x n = Ok (with_live x (set_at (live x) (prow x) (row_wrap false rw))) /\
  delete_cells x n = Ok (with_live x (set_at (live x) (prow x) (row_wrap false rw))).
Proof. intros H Hg E. apply ich_dch_k0; auto. rewrite E. lia. Qed.

(* other rows and the cursor are untouched by ICH / DCH (immediate from the closed forms) *)
Theorem ich_dch_frame x n y : grid_ok x -> insert_cells x n = Ok y \/ delete_cells x n = Ok y ->
  y = with_live x (live y) /\ len (live y) = len (live x) /\
  prow y = prow x /\ pcol y = pcol x /\
  (forall j, j <> prow x -> get (live y) j = get (live x) j).
Proof.
  intros H E. okdims. destruct (live_get x (prow x) H Hr) as (rw & Hg & _).
  rewrite (insert_cells_closed x n rw H Hg), (delete_cells_closed x n rw H Hg) in E.
  destruct E as [E|E]; inv E; cbn [live with_live prow pcol with_live]; rewrite len_set_at;
    (split; [reflexivity|]); (split; [reflexivity|]); (split; [reflexivity|]); (split; [reflexivity|]);
    intros j Hj; rewrite get_set_at; destruct (N.eqb_spec j (prow x)); try lia; reflexivity.
Qed.

(* ------------------------------------------------------------------ *)
(* screen level: every operation acts on the current grid only         *)
(* ------------------------------------------------------------------ *)
Definition noncur (s : screen) : grid := if altmode s then g s else alt s.

Lemma on_cur_ok s f y : f (cur s) = Ok y -> on_cur s f = Ok (with_cur s y).
Proof. intros E. unfold on_cur. rewrite E. reflexivity. Qed.

Lemma on_cur_inv s f s' : on_cur s f = Ok s' -> exists y, f (cur s) = Ok y /\ s' = with_cur s y.
Proof. unfold on_cur. intros E. bind_inv E. inv E. eauto. Qed.

(* with_cur replaces the current grid and nothing else *)
Lemma with_cur_spec s y :
  cur (with_cur s y) = y /\ noncur (with_cur s y) = noncur s /\ altmode (with_cur s y) = altmode s /\
  pen (with_cur s y) = pen s /\ spen (with_cur s y) = spen s /\ keypad (with_cur s y) = keypad s /\
  appcur (with_cur s y) = appcur s /\ hide (with_cur s y) = hide s /\ paste (with_cur s y) = paste s /\
  mmode (with_cur s y) = mmode s /\ menc (with_cur s y) = menc s.
Proof. unfold cur, noncur, with_cur. destruct (altmode s) eqn:E; cbn; rewrite ?E; repeat split. Qed.

(* the eight screen operations of C08 are the grid operations applied to the current grid *)
Lemma scr_ops_on_cur s n :
  scr_il s n = on_cur s (fun x => insert_lines x n) /\
  scr_dl s n = on_cur s (fun x => delete_lines x n) /\
  scr_su s n = on_cur s (fun x => scroll_up x n) /\
  scr_sd s n = on_cur s (fun x => scroll_down x n) /\
  scr_ich s n = on_cur s (fun x => insert_cells x n) /\
  scr_dch s n = on_cur s (fun x => delete_cells x n) /\
  scr_lf s = on_cur s (fun x => do '(x1, _) <- row_inc_scroll x 1; Ok x1) /\
  scr_ri s = on_cur s (fun x => row_dec_scroll x 1).
Proof. repeat split. Qed.
