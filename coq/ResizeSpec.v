(* ResizeSpec.v — the functional specification of set_size (cell clauses and exact clamps of C16):
   closed form of Grid::set_size, the cells of the resized grid, the wrap flags, the clamps of
   cursor / saved cursor / scroll region, the untouched scrollback, the screen level and the
   resize callback (CSI 8 ; r ; c t). *)
Require Import Tac ListN Attrs Cell Row Grid Screen Vte Perform Parser RowInv GridInv TextInv ScreenInv SbFrame.
Open Scope N_scope.

(* ------------------------------------------------------------------------------------------ *)
(* Row::resize                                                                                  *)
(* ------------------------------------------------------------------------------------------ *)

(* what resize does to the cell that ends up in column c of a row of new width n:
   only a wide cell in the new last column is touched (blanked, keeping its own attributes) *)
Definition cut_cell (n c : N) (cl : cell) : cell :=
  if (c =? n - 1) && cwide cl then clear_own cl else cl.

Lemma cut_cell_inner n c cl : c <> n - 1 -> cut_cell n c cl = cl.
Proof. intros H. unfold cut_cell. destruct (N.eqb_spec c (n - 1)); [contradiction|reflexivity]. Qed.
Lemma cut_cell_narrow n c cl : cwide cl = false -> cut_cell n c cl = cl.
Proof. intros H. unfold cut_cell. rewrite H. now rewrite andb_false_r. Qed.
Lemma cut_cell_wide_last n cl : cwide cl = true -> cut_cell n (n - 1) cl = clear_own cl.
Proof. intros H. unfold cut_cell. rewrite H, N.eqb_refl. reflexivity. Qed.
Lemma cut_cell_new n c : cut_cell n c cell_new = cell_new.
Proof. apply cut_cell_narrow. reflexivity. Qed.

(* the blanked cell: no text, no flags, the attributes of the cell it replaces *)
Lemma clear_own_spec cl : clear_own cl = mkCell [] false false (cattrs cl).
Proof. reflexivity. Qed.

Lemma row_resize_wrapped r n c : wrapped (row_resize r n c) = false.
Proof. reflexivity. Qed.

Lemma row_resize_wrap_irrel b r n c : row_resize (row_wrap b r) n c = row_resize r n c.
Proof. reflexivity. Qed.

Lemma len_row_resize r n c : len (cells (row_resize r n c)) = n.
Proof.
  unfold row_resize. cbn [cells].
  set (cs := resize_list (cells r) n c).
  assert (len cs = n) as L by apply len_resize_list.
  destruct (len cs) eqn:E; [congruence|]. rewrite <- E.
  destruct (get cs (len cs - 1)) as [last|]; [|congruence].
  destruct (cwide last); [rewrite len_set_at|]; congruence.
Qed.

(* pointwise: every column of the resized row *)
Lemma get_row_resize r n i : 1 <= n ->
  row_get (row_resize r n cell_new) i =
  if i <? n then
    Some (match row_get r i with Some cl => cut_cell n i cl | None => cell_new end)
  else None.
Proof.
  intros Hn. unfold row_resize, row_get. cbn [cells].
  set (cs := resize_list (cells r) n cell_new).
  assert (len cs = n) as L by apply len_resize_list.
  assert (forall k, get cs k = if k <? n then (if k <? len (cells r) then get (cells r) k else Some cell_new) else None) as G.
  { intros k. unfold cs. apply get_resize_list. }
  (* the value of cs at i, in the shape of the statement *)
  assert (forall k, k < n -> get cs k = Some (match get (cells r) k with Some cl => cl | None => cell_new end)) as G'.
  { intros k Hk. rewrite G. destruct (N.ltb_spec k n); [|lia].
    destruct (N.ltb_spec k (len (cells r))) as [Hl|Hl].
    - destruct (get_lt_some _ _ Hl) as (a & ->). reflexivity.
    - apply get_none_ge in Hl. now rewrite Hl. }
  destruct (len cs) eqn:E; [lia|]. rewrite L. assert (len cs = n) as L' by congruence.
  rewrite (G' (n - 1)) by lia.
  set (last := match get (cells r) (n - 1) with Some cl => cl | None => cell_new end).
  destruct (N.ltb_spec i n) as [Hi|Hi].
  - destruct (cwide last) eqn:W.
    + rewrite get_set_at. rewrite L'.
      destruct (N.eqb_spec i (n - 1)) as [->|Hne].
      * destruct (N.ltb_spec (n - 1) n); [|lia]. f_equal.
        unfold last in *. destruct (get (cells r) (n - 1)) as [cl|].
        -- now rewrite cut_cell_wide_last.
        -- discriminate W.
      * rewrite (G' i Hi). f_equal. destruct (get (cells r) i); [|reflexivity].
        now rewrite cut_cell_inner.
    + rewrite (G' i Hi). f_equal.
      destruct (N.eqb_spec i (n - 1)) as [->|Hne].
      * fold last. unfold last in *. destruct (get (cells r) (n - 1)); [|reflexivity].
        now rewrite cut_cell_narrow.
      * destruct (get (cells r) i); [|reflexivity]. now rewrite cut_cell_inner.
  - assert (get cs i = None) as GN by (apply get_none_ge; lia).
    destruct (cwide last); [|exact GN].
    rewrite get_set_at. destruct (N.eqb_spec i (n - 1)); [lia|exact GN].
Qed.

(* ------------------------------------------------------------------------------------------ *)
(* Grid::set_size: closed form                                                                  *)
(* ------------------------------------------------------------------------------------------ *)

(* the repaired scroll region *)
Definition rs_bot (x : grid) (rows : N) : N :=
  let b1 := if bot x =? grows x - 1 then rows - 1 else bot x in
  if rows <=? b1 then rows - 1 else b1.
Definition rs_top (x : grid) (rows : N) : N :=
  if rs_bot x rows <=? top x then 0 else top x.

(* the resized row list *)
Definition rs_live (x : grid) (rows cols : N) : list row :=
  resize_list (map (fun r => row_resize r cols cell_new) (live x)) rows (row_new cols).

Lemma map_row_resize_wrap l cols :
  map (fun r => row_resize r cols cell_new) (map (row_wrap false) l) = map (fun r => row_resize r cols cell_new) l.
Proof. rewrite map_map. apply map_ext. intros r. apply row_resize_wrap_irrel. Qed.

Theorem grid_set_size_eq x rows cols : 1 <= grows x -> 1 <= rows -> 1 <= cols ->
  grid_set_size x rows cols =
  Ok (mkGrid rows cols
             (N.min (prow x) (rows - 1)) (N.min (pcol x) (cols - 1))
             (N.min (sprow x) (rows - 1)) (N.min (spcol x) (cols - 1))
             (rs_live x rows cols) (rs_top x rows) (rs_bot x rows)
             (origin x) (sorigin x) (sb x) (sb_cap x) (sb_off x)).
Proof.
  intros Hg Hr Hc. unfold grid_set_size.
  rewrite !sub16_ok by lia. cbn [bind].
  rewrite row_clamp_top_eq. rewrite row_clamp_bottom_eq by (cbn; lia). cbn [bind].
  rewrite col_clamp_eq by (cbn; lia). cbn [bind].
  f_equal. unfold with_saved, with_pcol, with_prow, with_pos. cbn.
  unfold rs_live, rs_top, rs_bot.
  destruct (negb (cols =? gcols x)); [rewrite map_row_resize_wrap|]; reflexivity.
Qed.

(* inversion form *)
Lemma grid_set_size_inv x rows cols y : 1 <= grows x -> 1 <= rows -> 1 <= cols ->
  grid_set_size x rows cols = Ok y ->
  y = mkGrid rows cols
             (N.min (prow x) (rows - 1)) (N.min (pcol x) (cols - 1))
             (N.min (sprow x) (rows - 1)) (N.min (spcol x) (cols - 1))
             (rs_live x rows cols) (rs_top x rows) (rs_bot x rows)
             (origin x) (sorigin x) (sb x) (sb_cap x) (sb_off x).
Proof. intros Hg Hr Hc E. rewrite grid_set_size_eq in E by assumption. now inv E. Qed.

Lemma ok0_rows x : grid_ok0 x -> 1 <= grows x.
Proof. intros [Sh _]. apply (sh_rows _ Sh). Qed.

(* ------------------------------------------------------------------------------------------ *)
(* 1. The cells of the resized grid                                                             *)
(* ------------------------------------------------------------------------------------------ *)

Lemma get_rs_live x rows cols r :
  get (rs_live x rows cols) r =
  if r <? rows
  then Some (match get (live x) r with Some rw => row_resize rw cols cell_new | None => row_new cols end)
  else None.
Proof.
  unfold rs_live. rewrite get_resize_list, len_map, get_map.
  destruct (N.ltb_spec r rows); [|reflexivity].
  destruct (N.ltb_spec r (len (live x))) as [Hl|Hl].
  - destruct (get_lt_some _ _ Hl) as (rw & ->). reflexivity.
  - apply get_none_ge in Hl. now rewrite Hl.
Qed.

Lemma row_get_row_new cols c : row_get (row_new cols) c = if c <? cols then Some cell_new else None.
Proof. unfold row_get, row_new. cbn [cells]. apply get_repeatN. Qed.

(* Every cell of the new grid, pointwise and without any invariant: the old cell at the same
   position if there was one (blanked with its own attributes if it is wide and now sits in the
   last column), the default blank cell otherwise. *)
Theorem resize_cell x rows cols y r c : 1 <= grows x -> 1 <= rows -> 1 <= cols ->
  grid_set_size x rows cols = Ok y -> r < rows -> c < cols ->
  drawing_cell y r c =
  Some (match drawing_cell x r c with Some cl => cut_cell cols c cl | None => cell_new end).
Proof.
  intros Hg Hr Hc E Hlt Hct. apply grid_set_size_inv in E; try assumption. subst y.
  unfold drawing_cell, drawing_row. cbn [live]. rewrite get_rs_live.
  destruct (N.ltb_spec r rows); [|lia].
  destruct (get (live x) r) as [rw|].
  - rewrite get_row_resize by exact Hc. destruct (N.ltb_spec c cols); [reflexivity|lia].
  - rewrite row_get_row_new. destruct (N.ltb_spec c cols); [reflexivity|lia].
Qed.

(* there is nothing outside the new dimensions *)
Theorem resize_cell_outside x rows cols y r c : 1 <= grows x -> 1 <= rows -> 1 <= cols ->
  grid_set_size x rows cols = Ok y -> rows <= r \/ cols <= c -> drawing_cell y r c = None.
Proof.
  intros Hg Hr Hc E Hout. apply grid_set_size_inv in E; try assumption. subst y.
  unfold drawing_cell, drawing_row. cbn [live]. rewrite get_rs_live.
  destruct (N.ltb_spec r rows) as [Hlt|Hge]; [|reflexivity].
  destruct (get (live x) r) as [rw|].
  - rewrite get_row_resize by exact Hc. destruct (N.ltb_spec c cols); [lia|reflexivity].
  - rewrite row_get_row_new. destruct (N.ltb_spec c cols); [lia|reflexivity].
Qed.

(* cells of an allocated grid *)
Lemma drawing_cell_some x r c : grid_ok x -> r < grows x -> c < gcols x ->
  exists rw cl, get (live x) r = Some rw /\ row_ok (gcols x) rw /\ get (cells rw) c = Some cl /\
                drawing_cell x r c = Some cl.
Proof.
  intros Hok Hr Hc. destruct (live_get x r Hok Hr) as (rw & Hrw & Ok).
  destruct (get_lt_some (cells rw) c) as (cl & Hcl). { destruct Ok as [-> _]. exact Hc. }
  exists rw, cl. repeat split; try assumption; try apply Ok.
  unfold drawing_cell, drawing_row. rewrite Hrw. exact Hcl.
Qed.

Lemma drawing_cell_none x r c : grid_ok x -> grows x <= r \/ gcols x <= c -> drawing_cell x r c = None.
Proof.
  intros Hok Hout. unfold drawing_cell, drawing_row.
  destruct (get (live x) r) as [rw|] eqn:Hrw; [|reflexivity].
  pose proof (get_some_lt _ _ _ Hrw) as Hlt. destruct Hok as (K & _). rewrite (gk_live _ K) in Hlt.
  pose proof (Forall_get _ _ _ _ (gk_rowsok _ K) Hrw) as [L _].
  unfold row_get. apply get_none_ge. lia.
Qed.

(* 1a. the intersection of the old and the new dimensions *)
Theorem resize_cell_old x rows cols y r c : grid_ok x -> 1 <= rows -> 1 <= cols ->
  grid_set_size x rows cols = Ok y -> r < rows -> c < cols -> r < grows x -> c < gcols x ->
  exists cl, drawing_cell x r c = Some cl /\ drawing_cell y r c = Some (cut_cell cols c cl).
Proof.
  intros Hok Hr Hc E Hlr Hlc Hor Hoc.
  destruct (drawing_cell_some x r c Hok Hor Hoc) as (rw & cl & _ & _ & _ & Hd).
  exists cl. split; [exact Hd|].
  rewrite (resize_cell x rows cols y r c) by (try assumption; apply ok0_rows, grid_ok_ok0, Hok).
  now rewrite Hd.
Qed.

(* 1b. newly exposed cells are default blanks *)
Theorem resize_cell_new x rows cols y r c : grid_ok x -> 1 <= rows -> 1 <= cols ->
  grid_set_size x rows cols = Ok y -> r < rows -> c < cols -> grows x <= r \/ gcols x <= c ->
  drawing_cell y r c = Some cell_new.
Proof.
  intros Hok Hr Hc E Hlr Hlc Hout.
  rewrite (resize_cell x rows cols y r c) by (try assumption; apply ok0_rows, grid_ok_ok0, Hok).
  now rewrite (drawing_cell_none x r c Hok Hout).
Qed.

(* 1c. a grid whose rows were never allocated (the alternate grid before its first use) comes
   out allocated and entirely blank *)
Theorem resize_cell_unalloc x rows cols y r c : 1 <= grows x -> live x = [] -> 1 <= rows -> 1 <= cols ->
  grid_set_size x rows cols = Ok y -> r < rows -> c < cols -> drawing_cell y r c = Some cell_new.
Proof.
  intros Hg Hl Hr Hc E Hlr Hlc.
  rewrite (resize_cell x rows cols y r c) by assumption.
  unfold drawing_cell, drawing_row. rewrite Hl. unfold get. now destruct (N.to_nat r).
Qed.

(* 1d. the only cell of the intersection that can change is a wide cell that lands in the new
   last column, and that happens only when the grid gets narrower: its continuation half is in
   the old column cols, which is cut off *)
Theorem resize_cell_kept x rows cols y r c : grid_ok x -> 1 <= rows -> 1 <= cols ->
  grid_set_size x rows cols = Ok y -> r < rows -> c < cols -> r < grows x -> c < gcols x ->
  c + 1 < cols \/ gcols x <= cols -> drawing_cell y r c = drawing_cell x r c.
Proof.
  intros Hok Hr Hc E Hlr Hlc Hor Hoc Hin.
  destruct (drawing_cell_some x r c Hok Hor Hoc) as (rw & cl & Hrw & [L Ck] & Hcl & Hd).
  rewrite (resize_cell x rows cols y r c) by (try assumption; apply ok0_rows, grid_ok_ok0, Hok).
  rewrite Hd. f_equal.
  destruct (N.eqb_spec c (cols - 1)) as [Heq|Hne]; [|now apply cut_cell_inner].
  apply cut_cell_narrow.
  assert (c = len (cells rw) - 1) as Hlast by lia.
  rewrite Hlast in Hcl. apply (ok_last_not_wide _ _ Ck); [lia|exact Hcl].
Qed.

Theorem resize_cell_cut x rows cols y r cl : grid_ok x -> 1 <= rows -> 1 <= cols ->
  grid_set_size x rows cols = Ok y -> r < rows -> r < grows x ->
  drawing_cell x r (cols - 1) = Some cl -> cwide cl = true ->
  cols < gcols x /\
  (exists d, drawing_cell x r cols = Some d /\ ccont d = true) /\
  drawing_cell y r (cols - 1) = Some (mkCell [] false false (cattrs cl)).
Proof.
  intros Hok Hr Hc E Hlr Hor Hd W.
  assert (cols - 1 < gcols x) as Hoc.
  { destruct (N.ltb_spec (cols - 1) (gcols x)); [assumption|].
    rewrite (drawing_cell_none x r (cols - 1) Hok) in Hd by lia. discriminate. }
  destruct (drawing_cell_some x r (cols - 1) Hok Hor Hoc) as (rw & cl' & Hrw & [L Ck] & Hcl & Hd').
  rewrite Hd in Hd'. inv Hd'.
  destruct (ok_wide_next _ _ _ Ck Hcl W) as (d & Hgd & Hcd & _).
  replace (cols - 1 + 1) with cols in Hgd by lia.
  pose proof (get_some_lt _ _ _ Hgd) as Hlt.
  split; [lia|]. split.
  - exists d. split; [|exact Hcd]. unfold drawing_cell, drawing_row. rewrite Hrw. exact Hgd.
  - rewrite (resize_cell x rows cols y r (cols - 1)) by (try assumption; try lia; apply ok0_rows, grid_ok_ok0, Hok).
    rewrite Hd. now rewrite cut_cell_wide_last.
Qed.

(* 1e. a continuation half that stays inside the new width keeps its wide partner (which is to
   its left, hence inside as well, and not in the last column): no second kind of cut exists *)
Theorem resize_cont_keeps_partner x rows cols y r c cl : grid_ok x -> 1 <= rows -> 1 <= cols ->
  grid_set_size x rows cols = Ok y -> r < rows -> c < cols -> r < grows x ->
  drawing_cell x r c = Some cl -> ccont cl = true ->
  0 < c /\ drawing_cell y r c = Some cl /\
  exists w, cwide w = true /\ drawing_cell x r (c - 1) = Some w /\ drawing_cell y r (c - 1) = Some w.
Proof.
  intros Hok Hr Hc E Hlr Hlc Hor Hd Hcont.
  assert (c < gcols x) as Hoc.
  { destruct (N.ltb_spec c (gcols x)); [assumption|].
    rewrite (drawing_cell_none x r c Hok) in Hd by lia. discriminate. }
  destruct (drawing_cell_some x r c Hok Hor Hoc) as (rw & cl' & Hrw & [L Ck] & Hcl & Hd').
  rewrite Hd in Hd'. inv Hd'.
  destruct (ok_cont_prev _ _ _ Ck Hcl Hcont) as (Hpos & w & Hw & Ww & _ & Wc).
  assert (1 <= grows x) as Hg by (apply ok0_rows, grid_ok_ok0, Hok).
  split; [exact Hpos|]. split.
  - rewrite (resize_cell x rows cols y r c) by assumption. rewrite Hd. f_equal. now apply cut_cell_narrow.
  - exists w. split; [exact Ww|].
    assert (drawing_cell x r (c - 1) = Some w) as Hdw.
    { unfold drawing_cell, drawing_row. rewrite Hrw. exact Hw. }
    split; [exact Hdw|].
    rewrite (resize_cell x rows cols y r (c - 1)) by (try assumption; lia). rewrite Hdw. f_equal.
    apply cut_cell_inner. lia.
Qed.

(* ------------------------------------------------------------------------------------------ *)
(* 2. Wrap flags: EVERY row of the resized grid is unwrapped, whatever changed                   *)
(*    (Row::resize clears the flag unconditionally, also when only the height changes or when   *)
(*    the size does not change at all; the explicit `row.wrap(false)` loop of set_size on a     *)
(*    width change is therefore redundant)                                                      *)
(* ------------------------------------------------------------------------------------------ *)

Theorem resize_unwrapped x rows cols y : 1 <= grows x -> 1 <= rows -> 1 <= cols ->
  grid_set_size x rows cols = Ok y -> Forall (fun rw => wrapped rw = false) (live y).
Proof.
  intros Hg Hr Hc E. apply grid_set_size_inv in E; try assumption. subst y. cbn [live].
  unfold rs_live. apply Forall_resize_list; [|reflexivity].
  apply Forall_map'. intros rw _. reflexivity.
Qed.

Corollary resize_row_unwrapped x rows cols y r rw : 1 <= grows x -> 1 <= rows -> 1 <= cols ->
  grid_set_size x rows cols = Ok y -> drawing_row y r = Some rw -> wrapped rw = false.
Proof.
  intros Hg Hr Hc E Hrw. pose proof (resize_unwrapped x rows cols y Hg Hr Hc E) as F.
  apply (Forall_get _ _ _ _ F Hrw).
Qed.

(* ------------------------------------------------------------------------------------------ *)
(* 3. Exact clamps                                                                              *)
(* ------------------------------------------------------------------------------------------ *)

Theorem resize_clamps x rows cols y : 1 <= grows x -> 1 <= rows -> 1 <= cols ->
  grid_set_size x rows cols = Ok y ->
  grows y = rows /\ gcols y = cols /\
  prow y = N.min (prow x) (rows - 1) /\ pcol y = N.min (pcol x) (cols - 1) /\
  sprow y = N.min (sprow x) (rows - 1) /\ spcol y = N.min (spcol x) (cols - 1) /\
  origin y = origin x /\ sorigin y = sorigin x /\
  bot y = rs_bot x rows /\ top y = rs_top x rows.
Proof.
  intros Hg Hr Hc E. apply grid_set_size_inv in E; try assumption. subst y. cbn. repeat split.
Qed.

(* rs_bot / rs_top unfolded, exactly as in the task statement *)
Lemma rs_region_def x rows :
  let b1 := if bot x =? grows x - 1 then rows - 1 else bot x in
  let b2 := if rows <=? b1 then rows - 1 else b1 in
  rs_bot x rows = b2 /\ rs_top x rows = if b2 <=? top x then 0 else top x.
Proof. split; reflexivity. Qed.

(* a cursor inside the new bounds does not move; a pending-wrap column (pcol = cols) is pulled in *)
Corollary resize_cursor_kept x rows cols y : 1 <= grows x -> 1 <= rows -> 1 <= cols ->
  grid_set_size x rows cols = Ok y -> prow x < rows -> pcol x < cols -> prow y = prow x /\ pcol y = pcol x.
Proof.
  intros Hg Hr Hc E Hpr Hpc. destruct (resize_clamps x rows cols y Hg Hr Hc E) as (_ & _ & -> & -> & _). lia.
Qed.

Corollary resize_pending_wrap_pulled_in x rows y : grid_ok x -> 1 <= rows ->
  grid_set_size x rows (gcols x) = Ok y -> pcol x = gcols x -> pcol y = gcols x - 1.
Proof.
  intros Hok Hr E Hp. destruct Hok as (K & _). pose proof (gk_cols _ K) as Hc. pose proof (gk_rows _ K).
  destruct (resize_clamps x rows (gcols x) y) as (_ & _ & _ & -> & _); try assumption; lia.
Qed.

(* The scroll region in words.  Assumed (where stated): the region invariant of the old grid
   (top < bot < rows, or the full screen). *)

(* a region whose bottom is the bottom line of the screen (in particular the full-screen
   region) follows the new bottom line *)
Theorem resize_region_bottom_anchored x rows : 1 <= rows -> bot x = grows x - 1 ->
  rs_bot x rows = rows - 1 /\ rs_top x rows = if rows - 1 <=? top x then 0 else top x.
Proof.
  intros Hr Hb. unfold rs_top, rs_bot. rewrite Hb, N.eqb_refl.
  destruct (N.leb_spec rows (rows - 1)); [lia|]. split; reflexivity.
Qed.

(* a full-height region stays full-height *)
Theorem resize_region_full x rows : 1 <= rows -> top x = 0 -> bot x = grows x - 1 ->
  rs_top x rows = 0 /\ rs_bot x rows = rows - 1.
Proof.
  intros Hr Ht Hb. destruct (resize_region_bottom_anchored x rows Hr Hb) as [-> ->]. rewrite Ht.
  split; [|reflexivity]. now destruct (rows - 1 <=? 0).
Qed.

(* a proper region that still fits is kept *)
Theorem resize_region_fits x rows : bot x <> grows x - 1 -> top x < bot x -> bot x < rows ->
  rs_top x rows = top x /\ rs_bot x rows = bot x.
Proof.
  intros Hb Ht Hfit. unfold rs_top, rs_bot.
  destruct (N.eqb_spec (bot x) (grows x - 1)); [contradiction|].
  destruct (N.leb_spec rows (bot x)); [lia|].
  destruct (N.leb_spec (bot x) (top x)); [lia|]. split; reflexivity.
Qed.

(* a region whose bottom no longer fits is clamped to the new bottom line; it keeps its top if
   at least two lines remain *)
Theorem resize_region_clamped x rows : 1 <= rows -> rows <= bot x -> top x < rows - 1 ->
  rs_top x rows = top x /\ rs_bot x rows = rows - 1.
Proof.
  intros Hr Hb Ht. unfold rs_top, rs_bot.
  assert ((rows <=? (if bot x =? grows x - 1 then rows - 1 else bot x)) = (negb (bot x =? grows x - 1))) as ->.
  { destruct (N.eqb_spec (bot x) (grows x - 1)); cbn [negb].
    - destruct (N.leb_spec rows (rows - 1)); [lia|reflexivity].
    - destruct (N.leb_spec rows (bot x)); [reflexivity|lia]. }
  assert ((if negb (bot x =? grows x - 1) then rows - 1 else if bot x =? grows x - 1 then rows - 1 else bot x) = rows - 1) as ->.
  { destruct (bot x =? grows x - 1); reflexivity. }
  destruct (N.leb_spec (rows - 1) (top x)); [lia|]. split; reflexivity.
Qed.

(* ... and it is reset to the full screen if it would become empty or a single line *)
Theorem resize_region_reset x rows : 1 <= rows -> rows <= bot x \/ bot x = grows x - 1 -> rows - 1 <= top x ->
  rs_top x rows = 0 /\ rs_bot x rows = rows - 1.
Proof.
  intros Hr Hb Ht. unfold rs_top, rs_bot.
  assert ((if rows <=? (if bot x =? grows x - 1 then rows - 1 else bot x) then rows - 1
           else if bot x =? grows x - 1 then rows - 1 else bot x) = rows - 1) as ->.
  { destruct (N.eqb_spec (bot x) (grows x - 1)).
    - now destruct (rows <=? rows - 1).
    - destruct (N.leb_spec rows (bot x)); [reflexivity|lia]. }
  destruct (N.leb_spec (rows - 1) (top x)); [|lia]. split; reflexivity.
Qed.

(* the five cases above are exhaustive for a grid that satisfies the region invariant *)
Theorem resize_region_cases x rows : 1 <= rows ->
  (top x < bot x \/ (top x = 0 /\ bot x = grows x - 1)) ->
  (bot x = grows x - 1 /\ top x < rows - 1 /\ rs_top x rows = top x /\ rs_bot x rows = rows - 1) \/
  (bot x <> grows x - 1 /\ bot x < rows /\ rs_top x rows = top x /\ rs_bot x rows = bot x) \/
  (bot x <> grows x - 1 /\ rows <= bot x /\ top x < rows - 1 /\ rs_top x rows = top x /\ rs_bot x rows = rows - 1) \/
  (rows - 1 <= top x /\ (rows <= bot x \/ bot x = grows x - 1) /\ rs_top x rows = 0 /\ rs_bot x rows = rows - 1).
Proof.
  intros Hr Hreg.
  destruct (N.eqb_spec (bot x) (grows x - 1)) as [Hb|Hb].
  - destruct (N.ltb_spec (top x) (rows - 1)) as [Ht|Ht].
    + left. destruct (resize_region_bottom_anchored x rows Hr Hb) as [B T].
      repeat split; try assumption. rewrite T. destruct (N.leb_spec (rows - 1) (top x)); [lia|reflexivity].
    + right; right; right. destruct (resize_region_reset x rows Hr (or_intror Hb) Ht). auto.
  - destruct (N.ltb_spec (bot x) rows) as [Hf|Hf].
    + right; left. destruct (resize_region_fits x rows Hb) as [T B]; [lia|assumption|]. auto.
    + destruct (N.ltb_spec (top x) (rows - 1)) as [Ht|Ht].
      * right; right; left. destruct (resize_region_clamped x rows Hr Hf Ht). auto.
      * right; right; right. destruct (resize_region_reset x rows Hr (or_introl Hf) Ht). auto.
Qed.

(* ------------------------------------------------------------------------------------------ *)
(* 4. The scrollback is untouched (rows of other widths stay in the history)                     *)
(* ------------------------------------------------------------------------------------------ *)

Theorem resize_scrollback x rows cols y : grid_set_size x rows cols = Ok y ->
  sb y = sb x /\ sb_off y = sb_off x /\ sb_cap y = sb_cap x.
Proof.
  intros E. destruct (sb_grid_set_size x rows cols y E) as (A & B & C). auto.
Qed.

(* ------------------------------------------------------------------------------------------ *)
(* Summary at the grid level, under the invariant of a reachable grid                           *)
(* ------------------------------------------------------------------------------------------ *)

Theorem grid_set_size_spec x rows cols : grid_ok0 x -> 1 <= rows <= MAXDIM -> 1 <= cols <= MAXDIM ->
  exists y, grid_set_size x rows cols = Ok y /\ grid_ok y /\
    y = mkGrid rows cols
               (N.min (prow x) (rows - 1)) (N.min (pcol x) (cols - 1))
               (N.min (sprow x) (rows - 1)) (N.min (spcol x) (cols - 1))
               (rs_live x rows cols) (rs_top x rows) (rs_bot x rows)
               (origin x) (sorigin x) (sb x) (sb_cap x) (sb_off x) /\
    (forall r c, r < rows -> c < cols ->
       drawing_cell y r c =
       Some (match drawing_cell x r c with Some cl => cut_cell cols c cl | None => cell_new end)) /\
    Forall (fun rw => wrapped rw = false) (live y).
Proof.
  intros H0 Hr Hc. pose proof (ok0_rows _ H0) as Hg.
  destruct (grid_set_size_post x rows cols H0 Hr Hc) as (y & E & Oy & _).
  exists y. split; [exact E|]. split; [exact Oy|]. split; [|split].
  - apply grid_set_size_inv; try assumption; lia.
  - intros r c Hlr Hlc. apply (resize_cell x rows cols y r c); try assumption; lia.
  - apply (resize_unwrapped x rows cols y); try assumption; lia.
Qed.

(* ------------------------------------------------------------------------------------------ *)
(* 5. Screen level: both grids are resized, nothing else changes                                *)
(* ------------------------------------------------------------------------------------------ *)

Theorem screen_set_size_inv s r c s' : screen_set_size s r c = Ok s' ->
  exists g1 a1, grid_set_size (g s) r c = Ok g1 /\ grid_set_size (alt s) r c = Ok a1 /\
    s' = mkScreen g1 a1 (pen s) (spen s) (keypad s) (appcur s) (hide s) (altmode s) (paste s) (mmode s) (menc s).
Proof.
  unfold screen_set_size. intros E. bind_inv E. rename v into g1, E0 into E1.
  bind_inv E. rename v into a1, E0 into E2. inv E.
  exists g1, a1. split; [exact E1|]. split; [exact E2|]. reflexivity.
Qed.

Theorem screen_set_size_spec s r c : screen_ok s -> 1 <= r <= MAXDIM -> 1 <= c <= MAXDIM ->
  exists g1 a1, grid_set_size (g s) r c = Ok g1 /\ grid_set_size (alt s) r c = Ok a1 /\
    grid_ok g1 /\ grid_ok a1 /\
    screen_set_size s r c =
    Ok (mkScreen g1 a1 (pen s) (spen s) (keypad s) (appcur s) (hide s) (altmode s) (paste s) (mmode s) (menc s)) /\
    screen_ok (mkScreen g1 a1 (pen s) (spen s) (keypad s) (appcur s) (hide s) (altmode s) (paste s) (mmode s) (menc s)).
Proof.
  intros H Hr Hc.
  destruct (screen_set_size_ok s r c H Hr Hc) as (s' & E & Os' & _).
  destruct (screen_set_size_inv s r c s' E) as (g1 & a1 & E1 & E2 & ->).
  exists g1, a1. split; [exact E1|]. split; [exact E2|].
  destruct (grid_set_size_post (g s) r c (grid_ok_ok0 _ (so_g _ H)) Hr Hc) as (g1' & E1' & O1 & _).
  destruct (grid_set_size_post (alt s) r c (so_alt _ H) Hr Hc) as (a1' & E2' & O2 & _).
  rewrite E1 in E1'. inv E1'. rewrite E2 in E2'. inv E2'.
  split; [exact O1|]. split; [exact O2|]. split; [exact E|exact Os'].
Qed.

(* ------------------------------------------------------------------------------------------ *)
(* 6. The resize callback: CSI 8 ; r ; c t                                                      *)
(* ------------------------------------------------------------------------------------------ *)

(* the requested size; an absent parameter means the current size *)
Definition req_rows (s : screen) (rest : list (list N)) : N :=
  match rest with (x :: _) :: _ => x | _ => grows (cur s) end.
Definition req_cols (s : screen) (rest : list (list N)) : N :=
  match rest with _ :: (x :: _) :: _ => x | _ => gcols (cur s) end.

(* the resizing policy of the callbacks object (perform's first argument [true]) *)
Definition in_policy (r c : N) : Prop := 1 <= r <= 512 /\ 1 <= c <= 512.

Theorem resize_callback_eq rz s sub1 rest ign :
  perform rz s (ACsi ((8 :: sub1) :: rest) [] ign 116) =
  let r := req_rows s rest in
  let c := req_cols s rest in
  if rz && (1 <=? r) && (r <=? 512) && (1 <=? c) && (c <=? 512)
  then do s1 <- screen_set_size s r c; Ok (s1, [EResize r c])
  else Ok (s, [EResize r c]).
Proof.
  cbn [perform]. unfold do_csi.
  change (116 =? 64) with false. change (116 =? 65) with false. change (116 =? 66) with false.
  change (116 =? 67) with false. change (116 =? 68) with false. change (116 =? 69) with false.
  change (116 =? 70) with false. change (116 =? 71) with false. change (116 =? 72) with false.
  change (116 =? 74) with false. change (116 =? 75) with false. change (116 =? 76) with false.
  change (116 =? 77) with false. change (116 =? 80) with false. change (116 =? 83) with false.
  change (116 =? 84) with false. change (116 =? 88) with false. change (116 =? 100) with false.
  change (116 =? 109) with false. change (116 =? 114) with false. change (116 =? 116) with true.
  change (8 =? 8) with true. cbv iota. reflexivity.
Qed.

Lemma policy_bool r c : ((1 <=? r) && (r <=? 512) && (1 <=? c) && (c <=? 512) = true) <-> in_policy r c.
Proof.
  unfold in_policy.
  destruct (N.leb_spec 1 r); destruct (N.leb_spec r 512); destruct (N.leb_spec 1 c); destruct (N.leb_spec c 512);
    cbn [andb]; split; intros; try discriminate; try reflexivity; lia.
Qed.

(* with the resizing policy and a size inside it: set_size is called *)
Theorem resize_callback_in s sub1 rest ign : screen_ok s ->
  let r := req_rows s rest in let c := req_cols s rest in
  in_policy r c ->
  exists s1, screen_set_size s r c = Ok s1 /\ screen_ok s1 /\
             perform true s (ACsi ((8 :: sub1) :: rest) [] ign 116) = Ok (s1, [EResize r c]).
Proof.
  intros H r c Hp. rewrite resize_callback_eq. fold r c. cbv zeta.
  apply policy_bool in Hp as Hb. cbn [andb]. rewrite Hb.
  destruct Hp as [Hr Hc].
  destruct (screen_set_size_ok s r c H) as (s1 & E & O1 & _); [unfold MAXDIM; lia|unfold MAXDIM; lia|].
  exists s1. split; [exact E|]. split; [exact O1|]. rewrite E. reflexivity.
Qed.

(* outside the policy: only reported *)
Theorem resize_callback_out s sub1 rest ign :
  let r := req_rows s rest in let c := req_cols s rest in
  ~ in_policy r c ->
  perform true s (ACsi ((8 :: sub1) :: rest) [] ign 116) = Ok (s, [EResize r c]).
Proof.
  intros r c Hp. rewrite resize_callback_eq. fold r c. cbv zeta. cbn [andb].
  destruct ((1 <=? r) && (r <=? 512) && (1 <=? c) && (c <=? 512)) eqn:Hb; [|reflexivity].
  apply policy_bool in Hb. contradiction.
Qed.

(* without the resizing policy: only reported *)
Theorem resize_callback_off s sub1 rest ign :
  perform false s (ACsi ((8 :: sub1) :: rest) [] ign 116) = Ok (s, [EResize (req_rows s rest) (req_cols s rest)]).
Proof. rewrite resize_callback_eq. reflexivity. Qed.

(* the "iff": the event is always reported, and the screen is resized exactly when the policy allows *)
Theorem resize_callback_iff s sub1 rest ign s' evs : screen_ok s ->
  let r := req_rows s rest in let c := req_cols s rest in
  perform true s (ACsi ((8 :: sub1) :: rest) [] ign 116) = Ok (s', evs) ->
  evs = [EResize r c] /\
  ((in_policy r c /\ screen_set_size s r c = Ok s') \/ (~ in_policy r c /\ s' = s)).
Proof.
  intros H r c E.
  destruct (N.leb_spec 1 r) as [H1|H1]; [destruct (N.leb_spec r 512) as [H2|H2];
    [destruct (N.leb_spec 1 c) as [H3|H3]; [destruct (N.leb_spec c 512) as [H4|H4]|]|]|].
  - assert (in_policy r c) as Hp by (unfold in_policy; lia).
    destruct (resize_callback_in s sub1 rest ign H Hp) as (s1 & E1 & _ & E2).
    fold r c in E2. rewrite E2 in E. inv E. split; [reflexivity|]. left. auto.
  - assert (~ in_policy r c) as Hp by (unfold in_policy; lia).
    pose proof (resize_callback_out s sub1 rest ign Hp) as E2. fold r c in E2. rewrite E2 in E. inv E. auto.
  - assert (~ in_policy r c) as Hp by (unfold in_policy; lia).
    pose proof (resize_callback_out s sub1 rest ign Hp) as E2. fold r c in E2. rewrite E2 in E. inv E. auto.
  - assert (~ in_policy r c) as Hp by (unfold in_policy; lia).
    pose proof (resize_callback_out s sub1 rest ign Hp) as E2. fold r c in E2. rewrite E2 in E. inv E. auto.
  - assert (~ in_policy r c) as Hp by (unfold in_policy; lia).
    pose proof (resize_callback_out s sub1 rest ign Hp) as E2. fold r c in E2. rewrite E2 in E. inv E. auto.
Qed.

(* any other window operation (first parameter <> 8) is reported as unhandled and changes nothing *)
Theorem window_op_other rz s op sub1 rest ign : op <> 8 ->
  perform rz s (ACsi ((op :: sub1) :: rest) [] ign 116) = Ok (s, [EUnhCsi None None ((op :: sub1) :: rest) 116]).
Proof.
  intros Hop. cbn [perform]. unfold do_csi.
  change (116 =? 64) with false. change (116 =? 65) with false. change (116 =? 66) with false.
  change (116 =? 67) with false. change (116 =? 68) with false. change (116 =? 69) with false.
  change (116 =? 70) with false. change (116 =? 71) with false. change (116 =? 72) with false.
  change (116 =? 74) with false. change (116 =? 75) with false. change (116 =? 76) with false.
  change (116 =? 77) with false. change (116 =? 80) with false. change (116 =? 83) with false.
  change (116 =? 84) with false. change (116 =? 88) with false. change (116 =? 100) with false.
  change (116 =? 109) with false. change (116 =? 114) with false. change (116 =? 116) with true.
  cbv iota. destruct (N.eqb_spec op 8); [contradiction|reflexivity].
Qed.

(* the grid in use (primary or alternate, by the unchanged altmode flag) is resized by Grid::set_size *)
Theorem screen_set_size_cur s r c s' : screen_set_size s r c = Ok s' ->
  altmode s' = altmode s /\ grid_set_size (cur s) r c = Ok (cur s').
Proof.
  intros E. destruct (screen_set_size_inv s r c s' E) as (g1 & a1 & E1 & E2 & ->).
  split; [reflexivity|]. unfold cur. cbn [altmode g alt]. destruct (altmode s); assumption.
Qed.
