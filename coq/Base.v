(* Base.v — result monad with panics as values, checked u16 arithmetic,
   checked list operations (Vec semantics).  Model only: no proofs here. *)
From Coq Require Export List NArith Bool.
Export ListNotations.
Open Scope N_scope.

Arguments N.add : simpl never.
Arguments N.sub : simpl never.
Arguments N.mul : simpl never.
Arguments N.eqb : simpl never.
Arguments N.leb : simpl never.
Arguments N.ltb : simpl never.
Arguments N.min : simpl never.
Arguments N.max : simpl never.
Arguments N.div : simpl never.
Arguments N.modulo : simpl never.

(* kinds of Rust panics the model distinguishes *)
Inductive pk := POverflow | PIndex | PUnwrap | PUnreachable.

Inductive res (A : Type) : Type :=
| Ok (a : A)
| Panic (k : pk).
Arguments Ok {A} a.
Arguments Panic {A} k.

Definition bind {A B} (r : res A) (f : A -> res B) : res B :=
  match r with Ok a => f a | Panic k => Panic k end.
Notation "'do' x <- r ; k" := (bind r (fun x => k))
  (at level 200, x name, r at level 100, k at level 200, right associativity).
Notation "'do' ' p <- r ; k" := (bind r (fun x => let p := x in k))
  (at level 200, p pattern, r at level 100, k at level 200, right associativity).

Definition is_ok {A} (r : res A) : bool := match r with Ok _ => true | Panic _ => false end.

Definition U16MAX : N := 65535.

(* overflow-checked u16 arithmetic *)
Definition sub16 (a b : N) : res N := if b <=? a then Ok (a - b) else Panic POverflow.
Definition add16 (a b : N) : res N := if a + b <=? U16MAX then Ok (a + b) else Panic POverflow.
Definition sat_add16 (a b : N) : N := N.min (a + b) U16MAX.
Definition sat_sub16 (a b : N) : N := a - b.     (* N subtraction truncates at 0 *)
Definition sat_mul16 (a b : N) : N := N.min (a * b) U16MAX.

(* usize arithmetic: unbounded, subtraction checked *)
Definition subz (a b : N) : res N := if b <=? a then Ok (a - b) else Panic POverflow.

Definition unwrap {A} (o : option A) : res A :=
  match o with Some a => Ok a | None => Panic PUnwrap end.

(* ---- lists indexed by N (Vec) ---- *)
Definition len {A} (l : list A) : N := N.of_nat (length l).

Definition get {A} (l : list A) (i : N) : option A := nth_error l (N.to_nat i).

(* v[i] *)
Definition idx {A} (l : list A) (i : N) : res A :=
  match get l i with Some a => Ok a | None => Panic PIndex end.

Fixpoint set_nat {A} (l : list A) (i : nat) (a : A) : list A :=
  match l, i with
  | [], _ => []
  | _ :: t, O => a :: t
  | h :: t, S i => h :: set_nat t i a
  end.
(* no-op when out of range; callers check the index first *)
Definition set_at {A} (l : list A) (i : N) (a : A) : list A := set_nat l (N.to_nat i) a.

(* Vec::insert: panics if i > len *)
Definition insert_at {A} (l : list A) (i : N) (a : A) : res (list A) :=
  if i <=? len l then Ok (firstn (N.to_nat i) l ++ a :: skipn (N.to_nat i) l)
  else Panic PIndex.

(* Vec::remove: panics if i >= len; returns the removed element too *)
Definition remove_at {A} (l : list A) (i : N) : res (A * list A) :=
  match get l i with
  | Some a => Ok (a, firstn (N.to_nat i) l ++ skipn (S (N.to_nat i)) l)
  | None => Panic PIndex
  end.

Definition repeatN {A} (a : A) (n : N) : list A := repeat a (N.to_nat n).

(* Vec::resize / truncate *)
Definition resize_list {A} (l : list A) (n : N) (a : A) : list A :=
  if n <=? len l then firstn (N.to_nat n) l else l ++ repeatN a (n - len l).

Definition firstnN {A} (n : N) (l : list A) := firstn (N.to_nat n) l.
Definition skipnN {A} (n : N) (l : list A) := skipn (N.to_nat n) l.

(* iterate a fallible state transformer n times (for _ in 0..n) *)
Fixpoint iter_res {A} (n : nat) (f : A -> res A) (a : A) : res A :=
  match n with
  | O => Ok a
  | S n => do a' <- f a; iter_res n f a'
  end.

(* for i in lo..hi (ascending) *)
Fixpoint for_range {A} (n : nat) (lo : N) (f : N -> A -> res A) (a : A) : res A :=
  match n with
  | O => Ok a
  | S n => do a' <- f lo a; for_range n (lo + 1) f a'
  end.

Definition lastn_nat {A} (n : nat) (l : list A) : list A :=
  skipn (length l - n) l.

Definition option_eqb {A} (e : A -> A -> bool) (a b : option A) : bool :=
  match a, b with
  | Some x, Some y => e x y
  | None, None => true
  | _, _ => false
  end.

Fixpoint list_eqb {A} (e : A -> A -> bool) (a b : list A) : bool :=
  match a, b with
  | [], [] => true
  | x :: a, y :: b => e x y && list_eqb e a b
  | _, _ => false
  end.
