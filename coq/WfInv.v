(* WfInv.v — cell well-formedness ([cell_wf], CellWf.v) is an invariant of the
   whole terminal: lifted from grids (WfGrid.v) to screens, vte actions
   (WfVte.v), the parser API and arbitrary histories.  Cell clauses of C13. *)
Require Import Tac ListN Utf8 Width Attrs Cell Row Grid Screen Vte Perform Parser.
Require Import RowInv GridInv TextInv ScreenInv Pend Chunking.
Require Export CellWf WfGrid WfVte.
Open Scope N_scope.

(* ------------------------------------------------------------------ *)
(* screens *)

Lemma screen_wf_same s s' : g s' = g s -> alt s' = alt s -> screen_wf s -> screen_wf s'.
Proof. intros E1 E2 [H1 H2]. unfold screen_wf. rewrite E1, E2. split; assumption. Qed.

Lemma cur_wf s : screen_wf s -> grid_wf (cur s).
Proof. intros [H1 H2]. unfold cur. destruct (altmode s); assumption. Qed.

Lemma with_cur_wf s y : screen_wf s -> grid_wf y -> screen_wf (with_cur s y).
Proof. intros [H1 H2] Hy. unfold with_cur. destruct (altmode s); split; cbn; assumption. Qed.

(* "if the computation succeeds, the screen it returns is well formed" *)
Definition wfp {A} (proj : A -> screen) (r : res A) : Prop := forall a, r = Ok a -> screen_wf (proj a).
Definition sid (s : screen) : screen := s.
Notation wfp1 := (wfp sid).
Notation wfp2 := (wfp (@fst screen N)).
Notation wfpe := (wfp (@fst screen (list event))).

Lemma wfp_ok {A} (proj : A -> screen) a : screen_wf (proj a) -> wfp proj (Ok a).
Proof. intros H a' E. inv E. exact H. Qed.

Lemma on_cur_wfp s f : screen_wf s -> (forall y, f (cur s) = Ok y -> grid_wf y) -> wfp1 (on_cur s f).
Proof.
  intros H Hf s' E. unfold on_cur in E. binv E as y Ey. inv E. unfold sid. apply with_cur_wf; [exact H|now apply Hf].
Qed.

Lemma wfp_lift1 {B} r (k : B) : wfp1 r -> wfp (@fst screen B) (do s1 <- r; Ok (s1, k)).
Proof. intros Hr a E. binv E as s1 E1. pose proof (Hr _ E1) as W. inv E. exact W. Qed.

Lemma wfp_noev r : wfp1 r -> wfpe (noev r).
Proof. intros Hr a E. unfold noev in E. binv E as s1 E1. pose proof (Hr _ E1) as W. inv E. exact W. Qed.

Lemma wfp_lift2 r (e : N -> list event) : wfp2 r -> wfpe (do '(s1, k) <- r; Ok (s1, e k)).
Proof. intros Hr a E. binv E as p1 E1. destruct p1 as [s1 k]. pose proof (Hr _ E1) as W. inv E. exact W. Qed.

Lemma screen_new_wf rows cols cap : wfp1 (screen_new rows cols cap).
Proof.
  intros s E. unfold screen_new in E. binv E as g0 Eg. binv E as a0 Ea. inv E.
  split; cbn [sid g alt].
  - apply allocate_rows_wf. eapply grid_new_wf; eauto.
  - eapply grid_new_wf; eauto.
Qed.

Lemma screen_set_size_wf s rows cols : screen_wf s -> wfp1 (screen_set_size s rows cols).
Proof.
  intros [H1 H2] s' E. unfold screen_set_size in E. binv E as g1 Eg. binv E as a1 Ea. inv E.
  split; cbn; eapply grid_set_size_wf; eauto.
Qed.

Lemma screen_set_scrollback_wf s k : screen_wf s -> screen_wf (screen_set_scrollback s k).
Proof.
  intros H. unfold screen_set_scrollback. apply with_cur_wf; [exact H|].
  apply grid_set_scrollback_wf, cur_wf, H.
Qed.

Lemma enter_alternate_grid_wf s : screen_wf s -> screen_wf (enter_alternate_grid s).
Proof.
  intros H. unfold enter_alternate_grid.
  pose proof (screen_set_scrollback_wf s 0 H) as [H1 H2]. unfold screen_set_scrollback in H1, H2.
  split; cbn [g alt with_alt with_altmode]; [exact H1|]. apply allocate_rows_wf. exact H2.
Qed.

Lemma exit_alternate_grid_wf s : screen_wf s -> screen_wf (exit_alternate_grid s).
Proof. apply screen_wf_same; reflexivity. Qed.

Lemma with_pen_wf s a : screen_wf s -> screen_wf (with_pen s a).
Proof. apply screen_wf_same; reflexivity. Qed.
Lemma with_spen_wf s a : screen_wf s -> screen_wf (with_spen s a).
Proof. apply screen_wf_same; reflexivity. Qed.

Lemma scr_save_cursor_wf s : screen_wf s -> screen_wf (scr_save_cursor s).
Proof.
  intros H. unfold scr_save_cursor. apply with_spen_wf. apply with_cur_wf; [exact H|].
  apply save_cursor_wf, cur_wf, H.
Qed.

Lemma scr_restore_cursor_wf s : screen_wf s -> screen_wf (scr_restore_cursor s).
Proof.
  intros H. unfold scr_restore_cursor. apply with_pen_wf. apply with_cur_wf; [exact H|].
  apply restore_cursor_wf, cur_wf, H.
Qed.

Lemma clear_mouse_mode_wf s m : screen_wf s -> screen_wf (clear_mouse_mode s m).
Proof. intros H. unfold clear_mouse_mode. destruct (mouse_mode_eqb _ _); [|exact H]. revert H. apply screen_wf_same; reflexivity. Qed.
Lemma clear_mouse_enc_wf s m : screen_wf s -> screen_wf (clear_mouse_enc s m).
Proof. intros H. unfold clear_mouse_enc. destruct (mouse_enc_eqb _ _); [|exact H]. revert H. apply screen_wf_same; reflexivity. Qed.

(* operations on the current grid *)
Ltac cur_wf_op L :=
  let H := fresh "H" in let y := fresh "y" in let Ey := fresh "Ey" in
  intros H; apply on_cur_wfp; [exact H|]; intros y Ey; cbv beta in Ey;
  first [ eapply L; [exact Ey|apply cur_wf, H]
        | inv Ey; apply L; apply cur_wf, H ].

(* the only place where text is written: needs the structural invariant *)
Lemma scr_text_wf s ch : screen_ok s -> screen_wf s -> is_scalar ch = true -> ch <> 65533 -> wfp1 (scr_text s ch).
Proof.
  intros Hok H Hs Hr. unfold scr_text. apply on_cur_wfp; [exact H|]. intros y Ey.
  eapply grid_text_wf; eauto; [apply cur_wf, H|apply cur_ok, Hok].
Qed.

Lemma scr_bs_wf s : screen_wf s -> wfp1 (scr_bs s). Proof. unfold scr_bs. cur_wf_op col_dec_wf. Qed.
Lemma scr_tab_wf s : screen_wf s -> wfp1 (scr_tab s). Proof. unfold scr_tab. cur_wf_op col_tab_wf. Qed.
Lemma scr_cr_wf s : screen_wf s -> wfp1 (scr_cr s). Proof. unfold scr_cr. cur_wf_op col_set_wf. Qed.
Lemma scr_lf_wf s : screen_wf s -> wfp1 (scr_lf s).
Proof.
  intros H. apply on_cur_wfp; [exact H|]. intros y Ey. binv Ey as p1 E1. destruct p1 as [x1 k]. inv Ey.
  eapply row_inc_scroll_wf; eauto. apply cur_wf, H.
Qed.
Lemma scr_ri_wf s : screen_wf s -> wfp1 (scr_ri s). Proof. unfold scr_ri. cur_wf_op row_dec_scroll_wf. Qed.
Lemma scr_ris_wf s : wfp1 (scr_ris s). Proof. apply screen_new_wf. Qed.

Lemma scr_ich_wf s n : screen_wf s -> wfp1 (scr_ich s n). Proof. unfold scr_ich. cur_wf_op insert_cells_wf. Qed.
Lemma scr_cuu_wf s n : screen_wf s -> wfp1 (scr_cuu s n). Proof. unfold scr_cuu. cur_wf_op row_dec_clamp_wf. Qed.
Lemma scr_cud_wf s n : screen_wf s -> wfp1 (scr_cud s n). Proof. unfold scr_cud. cur_wf_op row_inc_clamp_wf. Qed.
Lemma scr_cuf_wf s n : screen_wf s -> wfp1 (scr_cuf s n). Proof. unfold scr_cuf. cur_wf_op col_inc_clamp_wf. Qed.
Lemma scr_cub_wf s n : screen_wf s -> wfp1 (scr_cub s n). Proof. unfold scr_cub. cur_wf_op col_dec_wf. Qed.
Lemma scr_il_wf s n : screen_wf s -> wfp1 (scr_il s n). Proof. unfold scr_il. cur_wf_op insert_lines_wf. Qed.
Lemma scr_dl_wf s n : screen_wf s -> wfp1 (scr_dl s n). Proof. unfold scr_dl. cur_wf_op delete_lines_wf. Qed.
Lemma scr_dch_wf s n : screen_wf s -> wfp1 (scr_dch s n). Proof. unfold scr_dch. cur_wf_op delete_cells_wf. Qed.
Lemma scr_su_wf s n : screen_wf s -> wfp1 (scr_su s n). Proof. unfold scr_su. cur_wf_op scroll_up_wf. Qed.
Lemma scr_sd_wf s n : screen_wf s -> wfp1 (scr_sd s n). Proof. unfold scr_sd. cur_wf_op scroll_down_wf. Qed.
Lemma scr_ech_wf s n : screen_wf s -> wfp1 (scr_ech s n). Proof. unfold scr_ech. cur_wf_op erase_cells_wf. Qed.

Lemma scr_cnl_wf s n : screen_wf s -> wfp1 (scr_cnl s n).
Proof.
  intros H. apply on_cur_wfp; [exact H|]. intros y Ey. binv Ey as x1 E1.
  eapply row_inc_clamp_wf; eauto. eapply col_set_wf; eauto. apply cur_wf, H.
Qed.
Lemma scr_cpl_wf s n : screen_wf s -> wfp1 (scr_cpl s n).
Proof.
  intros H. apply on_cur_wfp; [exact H|]. intros y Ey. binv Ey as x1 E1. inv Ey.
  apply row_dec_clamp_wf. eapply col_set_wf; eauto. apply cur_wf, H.
Qed.
Lemma scr_cha_wf s n : screen_wf s -> wfp1 (scr_cha s n).
Proof.
  intros H. apply on_cur_wfp; [exact H|]. intros y Ey. binv Ey as c Ec.
  eapply col_set_wf; eauto. apply cur_wf, H.
Qed.
Lemma scr_vpa_wf s n : screen_wf s -> wfp1 (scr_vpa s n).
Proof.
  intros H. apply on_cur_wfp; [exact H|]. intros y Ey. binv Ey as r Er.
  eapply row_set_wf; eauto. apply cur_wf, H.
Qed.
Lemma scr_cup_wf s r c : screen_wf s -> wfp1 (scr_cup s r c).
Proof.
  intros H. apply on_cur_wfp; [exact H|]. intros y Ey. binv Ey as r1 Er. binv Ey as c1 Ec.
  eapply grid_set_pos_wf; eauto. apply cur_wf, H.
Qed.
Lemma scr_decstbm_wf s t b : screen_wf s -> wfp1 (scr_decstbm s t b).
Proof.
  intros H. apply on_cur_wfp; [exact H|]. intros y Ey. binv Ey as t1 Et. binv Ey as b1 Eb.
  eapply set_scroll_region_wf; eauto. apply cur_wf, H.
Qed.

Lemma scr_ed_wf s m : screen_wf s -> wfp2 (scr_ed s m).
Proof.
  intros H. unfold scr_ed.
  destruct (m =? 0); [apply wfp_lift1; revert H; cur_wf_op erase_all_forward_wf|].
  destruct (m =? 1); [apply wfp_lift1; revert H; cur_wf_op erase_all_backward_wf|].
  destruct (m =? 2); [apply wfp_lift1; revert H; cur_wf_op erase_all_wf|].
  now apply wfp_ok.
Qed.
Lemma scr_el_wf s m : screen_wf s -> wfp2 (scr_el s m).
Proof.
  intros H. unfold scr_el.
  destruct (m =? 0); [apply wfp_lift1; revert H; cur_wf_op erase_row_forward_wf|].
  destruct (m =? 1); [apply wfp_lift1; revert H; cur_wf_op erase_row_backward_wf|].
  destruct (m =? 2); [apply wfp_lift1; revert H; cur_wf_op erase_row_wf|].
  now apply wfp_ok.
Qed.

Lemma set_origin_wf s m : screen_wf s -> wfp1 (on_cur s (fun x => set_origin_mode x m)).
Proof. cur_wf_op set_origin_mode_wf. Qed.

Ltac same_wf H := apply wfp_ok; cbn [fst]; revert H; apply screen_wf_same; reflexivity.

Lemma decset1_wf s p : screen_wf s -> wfp2 (decset1 s p).
Proof.
  intros H. unfold decset1. destruct (single p) as [n|]; [|now apply wfp_ok].
  repeat match goal with
  | |- wfp _ (if ?c then _ else _) => destruct c
  end;
  try (now apply wfp_ok); try (same_wf H).
  - apply wfp_lift1. now apply set_origin_wf.
  - apply wfp_ok. cbn [fst]. now apply enter_alternate_grid_wf.
  - (* 1049 *)
    pose proof (scr_save_cursor_wf s H) as [H1 H2].
    intros a E. binv E as a1 Ea. inv E. cbn [fst]. apply enter_alternate_grid_wf.
    split; cbn [g alt with_alt]; [exact H1|]. eapply grid_clear_wf; eauto.
Qed.

Lemma decrst1_wf s p : screen_wf s -> wfp2 (decrst1 s p).
Proof.
  intros H. unfold decrst1. destruct (single p) as [n|]; [|now apply wfp_ok].
  repeat match goal with
  | |- wfp _ (if ?c then _ else _) => destruct c
  end;
  try (now apply wfp_ok); try (same_wf H);
  try (apply wfp_ok; cbn [fst]; first [now apply clear_mouse_mode_wf | now apply clear_mouse_enc_wf]).
  (* (1049 is closed by conversion: restoring the cursor leaves the rows alone) *)
  apply wfp_lift1. now apply set_origin_wf.
Qed.

Lemma fold_params_wf f : (forall s p, screen_wf s -> wfp2 (f s p)) ->
  forall ps s n, screen_wf s -> wfp2 (fold_params f ps s n).
Proof.
  intros Hf. induction ps as [|p ps IH]; intros s n H; cbn [fold_params].
  - now apply wfp_ok.
  - intros a E. binv E as p1 E1. destruct p1 as [s1 k]. eapply IH; [|exact E].
    apply (Hf s p H _ E1).
Qed.

Lemma scr_decset_wf s ps : screen_wf s -> wfp2 (scr_decset s ps).
Proof. intros H. apply fold_params_wf; [apply decset1_wf|exact H]. Qed.
Lemma scr_decrst_wf s ps : screen_wf s -> wfp2 (scr_decrst s ps).
Proof. intros H. apply fold_params_wf; [apply decrst1_wf|exact H]. Qed.

Lemma scr_sgr_wf s ps : screen_wf s -> screen_wf (fst (scr_sgr s ps)).
Proof. intros H. unfold scr_sgr. destruct (sgr ps (pen s)) as [a k]. cbn [fst]. now apply with_pen_wf. Qed.

(* ------------------------------------------------------------------ *)
(* perform *)

Lemma do_execute_wf s b : screen_wf s -> wfpe (do_execute s b).
Proof.
  intros H. unfold do_execute.
  repeat match goal with |- wfp _ (if ?c then _ else _) => destruct c end;
    try (now apply wfp_ok); apply wfp_lift1.
  - now apply scr_bs_wf.
  - now apply scr_tab_wf.
  - now apply scr_lf_wf.
  - now apply scr_cr_wf.
Qed.

(* C1 controls are routed to execute and U+FFFD to a callback, so a scalar
   value is all that is needed here *)
Lemma do_print_wf s c : screen_ok s -> screen_wf s -> is_scalar c = true -> wfpe (do_print s c).
Proof.
  intros Hok H Hs. unfold do_print.
  destruct ((128 <=? c) && (c <? 160)); [now apply do_execute_wf|].
  destruct (N.eqb_spec c REPL) as [|Hne]; [now apply wfp_ok|].
  apply wfp_lift1. now apply scr_text_wf.
Qed.

Lemma do_esc_wf s inter b : screen_wf s -> wfpe (do_esc s inter b).
Proof.
  intros H. unfold do_esc. destruct inter; [|now apply wfp_ok].
  repeat match goal with |- wfp _ (if ?c then _ else _) => destruct c end;
    try (now apply wfp_ok); try (same_wf H).
  - apply wfp_ok. now apply scr_save_cursor_wf.
  - apply wfp_ok. now apply scr_restore_cursor_wf.
  - apply wfp_lift1. now apply scr_ri_wf.
  - apply wfp_lift1. apply scr_ris_wf.
Qed.

Lemma do_csi_wf rz s ps inter c : screen_wf s -> wfpe (do_csi rz s ps inter c).
Proof.
  intros H. unfold do_csi. destruct inter as [|i inter'].
  - repeat match goal with |- wfp _ (if ?c then _ else _) => destruct c end;
      try (now apply wfp_ok);
      try (apply wfp_noev;
           first [ now apply scr_ich_wf | now apply scr_cuu_wf | now apply scr_cud_wf | now apply scr_cuf_wf
                 | now apply scr_cub_wf | now apply scr_cnl_wf | now apply scr_cpl_wf | now apply scr_cha_wf
                 | now apply scr_il_wf | now apply scr_dl_wf | now apply scr_dch_wf | now apply scr_su_wf
                 | now apply scr_sd_wf | now apply scr_ech_wf | now apply scr_vpa_wf ]).
    + (* CUP *) destruct (canon2 ps 1 1) as [r cc]. apply wfp_noev. now apply scr_cup_wf.
    + apply wfp_lift2. now apply scr_ed_wf.
    + apply wfp_lift2. now apply scr_el_wf.
    + (* SGR *) pose proof (scr_sgr_wf s ps H) as O. destruct (scr_sgr s ps) as [s1 k]. now apply wfp_ok.
    + (* DECSTBM *) destruct (canon2 ps 1 (grows (cur s))) as [t b]. apply wfp_noev. now apply scr_decstbm_wf.
    + (* CSI t *) destruct ps as [|[|op sub] rest]; try (now apply wfp_ok).
      destruct (op =? 8); [|now apply wfp_ok].
      match goal with |- wfp _ (if ?c then _ else _) => destruct c end; [|now apply wfp_ok].
      apply wfp_lift1. now apply screen_set_size_wf.
  - destruct (i =? 63); [|now apply wfp_ok].
    repeat match goal with |- wfp _ (if ?c then _ else _) => destruct c end;
      try (now apply wfp_ok); apply wfp_lift2.
    + now apply scr_ed_wf.
    + now apply scr_el_wf.
    + now apply scr_decset_wf.
    + now apply scr_decrst_wf.
Qed.

Lemma do_osc_wf s ps : screen_wf s -> screen_wf (fst (do_osc s ps)).
Proof.
  intros H. unfold do_osc. destruct ps as [|k [|v [|]]]; try exact H.
  repeat match goal with |- context[if ?c then _ else _] => destruct c end; exact H.
Qed.

Theorem perform_wf rz s a s' evs : perform rz s a = Ok (s', evs) ->
  screen_ok s -> screen_wf s -> action_scalar a -> screen_wf s'.
Proof.
  intros E Hok H Ha.
  assert (wfpe (perform rz s a)) as W.
  { destruct a; cbn [perform]; try (now apply wfp_ok).
    - now apply do_print_wf.
    - now apply do_execute_wf.
    - apply wfp_ok. now apply do_osc_wf.
    - now apply do_csi_wf.
    - now apply do_esc_wf. }
  apply (W _ E).
Qed.

Lemma perform_all_wf rz acts : forall s evs s' evs', perform_all rz s acts evs = Ok (s', evs') ->
  screen_ok s -> screen_wf s -> Forall action_scalar acts -> screen_wf s'.
Proof.
  induction acts as [|a r IH]; intros s evs s' evs' E Hok H Ha; cbn [perform_all] in E.
  - now inv E.
  - inv Ha. binv E as p1 E1. destruct p1 as [s1 e].
    destruct (perform_ok rz s a Hok) as (s1' & e' & E1' & Hok1). rewrite E1 in E1'. inv E1'.
    eapply IH; eauto. eapply perform_wf; eauto.
Qed.

(* ------------------------------------------------------------------ *)
(* the parser API *)

Theorem parser_new_wf rows cols cap rz p : parser_new rows cols cap rz = Ok p ->
  screen_wf (scr p) /\ pbytes (vt p).
Proof.
  unfold parser_new. intros E. binv E as s Es. inv E. cbn [scr vt]. split; [|apply pbytes_init].
  apply (screen_new_wf _ _ _ _ Es).
Qed.

(* no hypothesis on the input bytes is needed for the screen part *)
Lemma process_wf p bs q : process p bs = Ok q -> parser_ok p -> screen_wf (scr p) ->
  screen_wf (scr q) /\ vt q = fst (advance (vt p) (delivered p bs)).
Proof.
  rewrite process_unfold. intros E Hok H.
  pose proof (advance_scalar_strong (vt p) (delivered p bs)) as S.
  destruct (advance (vt p) _) as [v acts]. cbn [fst snd] in *.
  binv E as p1 E1. destruct p1 as [s evs]. inv E. cbn [scr vt]. split; [|reflexivity].
  eapply perform_all_wf; eauto. exact (parser_ok_scr _ Hok).
Qed.

(* the held-back bytes are bytes: they are empty or an incomplete utf-8 sequence *)
Lemma parser_ok_pend_bytes p : parser_ok p -> bytes (pend p).
Proof.
  intros Hok. destruct (pend_inv_inc p (parser_ok_pend p Hok)) as [->|I]; [constructor|].
  exact (inc_bytes _ I).
Qed.

Lemma process_wfb p bs q : process p bs = Ok q -> parser_ok p -> screen_wf (scr p) -> pbytes (vt p) -> bytes bs ->
  screen_wf (scr q) /\ pbytes (vt q).
Proof.
  intros E Hok H Hp Hb. destruct (process_wf _ _ _ E Hok H) as [W V]. split; [exact W|].
  rewrite V. apply advance_pbytes; [exact Hp|]. apply Forall_hd_part.
  apply Forall_app. split; [exact (parser_ok_pend_bytes p Hok)|exact Hb].
Qed.

Definition op_bytes (o : api_op) : Prop :=
  match o with
  | OpProcess bs | OpWrite bs => bytes bs
  | _ => True
  end.

Lemma step_wf_strong p o q : step p o = Ok q -> parser_ok p -> screen_wf (scr p) -> screen_wf (scr q).
Proof.
  intros E Hok H. destruct o; cbn [step] in E.
  - eapply process_wf; eauto.
  - unfold write in E. binv E as p1 E1. destruct p1 as [q1 k]. inv E. binv E1 as q2 E2. inv E1.
    eapply process_wf; eauto.
  - binv E as s Es. inv E. cbn [scr]. apply (screen_set_size_wf _ _ _ H _ Es).
  - inv E. cbn [scr]. now apply screen_set_scrollback_wf.
Qed.

Lemma step_wf p o q : step p o = Ok q -> parser_ok p -> screen_wf (scr p) -> pbytes (vt p) -> op_bytes o ->
  screen_wf (scr q) /\ pbytes (vt q).
Proof.
  intros E Hok H Hp Hb. split; [eapply step_wf_strong; eauto|].
  destruct o; cbn [step op_bytes] in *.
  - eapply process_wfb; eauto.
  - unfold write in E. binv E as p1 E1. destruct p1 as [q1 k]. inv E. binv E1 as q2 E2. inv E1.
    eapply process_wfb; eauto.
  - binv E as s Es. inv E. exact Hp.
  - inv E. exact Hp.
Qed.

Theorem run_wf : forall ops p q, parser_ok p -> screen_wf (scr p) -> pbytes (vt p) ->
  Forall op_ok ops -> Forall op_bytes ops -> run p ops = Ok q -> screen_wf (scr q) /\ pbytes (vt q).
Proof.
  induction ops as [|o r IH]; intros p q Hok H Hp Fo Fb E; cbn [run] in E.
  - inv E. split; assumption.
  - inv Fo. inv Fb. binv E as p1 E1.
    destruct (step_ok p o Hok) as (p1' & E1' & Hok1); [assumption|]. rewrite E1 in E1'. inv E1'.
    destruct (step_wf _ _ _ E1 Hok H Hp) as [W1 B1]; [assumption|].
    eapply IH; eauto.
Qed.

(* the screen part alone holds for arbitrary input (elements of the byte lists
   need not even be below 256) *)
Theorem run_wf_strong : forall ops p q, parser_ok p -> screen_wf (scr p) ->
  Forall op_ok ops -> run p ops = Ok q -> screen_wf (scr q).
Proof.
  induction ops as [|o r IH]; intros p q Hok H Fo E; cbn [run] in E.
  - now inv E.
  - inv Fo. binv E as p1 E1.
    destruct (step_ok p o Hok) as (p1' & E1' & Hok1); [assumption|]. rewrite E1 in E1'. inv E1'.
    eapply IH; eauto. eapply step_wf_strong; eauto.
Qed.

(* from a fresh parser *)
Corollary history_wf rows cols cap rz ops p q :
  1 <= rows <= MAXDIM -> 1 <= cols <= MAXDIM ->
  parser_new rows cols cap rz = Ok p -> Forall op_ok ops -> run p ops = Ok q -> screen_wf (scr q).
Proof.
  intros Hr Hc En Fo E.
  destruct (parser_new_ok rows cols cap rz Hr Hc) as (p' & En' & Hok). rewrite En in En'. inv En'.
  destruct (parser_new_wf _ _ _ _ _ En) as [W _].
  eapply run_wf_strong; eauto.
Qed.
