(* TextSpec.v — declarative specification of the plain-text views
   contents(), rows(start,width), contents_between() and the proof that the
   model functions of Emit.v (row_text, contents_text, rows_text,
   contents_between) compute exactly that specification and never panic.

   The specification is stated for ALL rows (no pairing invariant is needed):
   the column arithmetic of the code is captured exactly by saying that a kept
   cell occupies [columns c] columns (2 if flagged wide, else 1) and that an
   empty kept cell is rendered as one space per column it occupies.
   Fine print, proved below:
   - [cells_text_one_space]: when no kept wide cell is empty (the normal case: a
     wide cell holds a wide character), an empty cell is exactly one space;
   - [visible_cells_filter]/[visible_window_filter]: for rows satisfying the
     pairing invariant [cells_ok] of RowInv.v, "drop the cell after a wide cell"
     is the same as "skip the continuation cells". *)
Require Import Tac ListN Attrs Cell Row Grid Screen Emit RowInv.
Open Scope N_scope.

(* ================================================================== *)
(* The specification                                                   *)
(* ================================================================== *)

(* The cells of a window that are looked at: the cell that follows a kept wide
   cell (its continuation half) is dropped, whatever it holds.
   [skip] = the previous kept cell was wide. *)
Fixpoint visible_cells (cs : list cell) (skip : bool) : list cell :=
  match cs with
  | [] => []
  | c :: rest => if skip then visible_cells rest false
                 else c :: visible_cells rest (cwide c)
  end.

(* number of screen columns a kept cell stands for *)
Definition columns (c : cell) : N := if cwide c then 2 else 1.

(* Text of a list of kept cells, left to right: a cell with contents gives its
   contents; an empty cell gives spaces (one per column) if some later cell has
   contents, and nothing otherwise (trailing blanks are dropped). *)
Fixpoint cells_text (cs : list cell) : list N :=
  match cs with
  | [] => []
  | c :: rest =>
    (if has_contents c then ctext c
     else if existsb has_contents rest then repeatN 32 (columns c)
     else [])
    ++ cells_text rest
  end.

(* the text of the column window [start, start+width) of a row *)
Definition row_text_spec (cs : list cell) (start width : N) : list N :=
  cells_text (visible_cells (window start width cs) false).

Definition nilb {A} (l : list A) : bool := match l with [] => true | _ => false end.

(* drop all trailing newlines: if everything from here on is a newline, nothing is left *)
Fixpoint drop_trailing_nl (l : list N) : list N :=
  match l with
  | [] => []
  | c :: rest => if forallb (N.eqb 10) l then [] else c :: drop_trailing_nl rest
  end.

(* text of the row that follows (empty when there is none) *)
Definition next_text (cols : N) (rows : list row) : list N :=
  match rows with
  | r :: _ => row_text_spec (cells r) 0 cols
  | [] => []
  end.

(* every row's text, with a newline after it except when the row is flagged
   wrapped and its successor is non-empty *)
Fixpoint contents_lines (cols : N) (rows : list row) : list N :=
  match rows with
  | [] => []
  | r :: rest =>
    row_text_spec (cells r) 0 cols
    ++ (if wrapped r && negb (nilb (next_text cols rest)) then [] else [10])
    ++ contents_lines cols rest
  end.

Definition contents_spec (rows : list row) (cols : N) : list N :=
  drop_trailing_nl (contents_lines cols rows).

Definition rows_spec (rows : list row) (start width : N) : list (list N) :=
  map (fun r => row_text_spec (cells r) start width) rows.

(* a window of a row followed by a newline unless the row is flagged wrapped *)
Definition line_spec (r : row) (start width : N) : list N :=
  row_text_spec (cells r) start width ++ (if wrapped r then [] else [10]).

Definition between_spec (rows : list row) (cols r1 c1 r2 c2 : N) : list N :=
  if r1 <? r2 then
    (* tail of row r1 from c1 *)
    match get rows r1 with Some ra => line_spec ra c1 (cols - c1) | None => [] end
    (* the whole rows r1+1 .. r2-1 *)
    ++ concat (map (fun r => line_spec r 0 cols) (firstnN (r2 - r1 - 1) (skipnN (r1 + 1) rows)))
    (* row r2 up to c2 *)
    ++ match get rows r2 with Some rb => row_text_spec (cells rb) 0 c2 | None => [] end
  else if r1 =? r2 then
    if c1 <? c2 then
      match get rows r1 with Some r => row_text_spec (cells r) c1 (c2 - c1) | None => [] end
    else []
  else [].

(* ================================================================== *)
(* Row level                                                           *)
(* ================================================================== *)

Lemma sub16_ok a b : b <= a -> sub16 a b = Ok (a - b).
Proof. intros H. unfold sub16. destruct (N.leb_spec b a); [reflexivity|lia]. Qed.
Lemma add16_ok a b : a + b <= 65535 -> add16 a b = Ok (a + b).
Proof. intros H. unfold add16, U16MAX. destruct (N.leb_spec (a + b) 65535); [reflexivity|lia]. Qed.

Lemma repeatN_add {A} (a : A) p q : repeatN a (p + q) = repeatN a p ++ repeatN a q.
Proof. unfold repeatN. rewrite N2Nat.inj_add. apply repeat_app. Qed.
Lemma repeatN_0 {A} (a : A) : repeatN a 0 = [].
Proof. reflexivity. Qed.

Lemma nilb_app_r {A} (a b : list A) : nilb b = false -> nilb (a ++ b) = false.
Proof. destruct a; cbn; auto. Qed.
Lemma nilb_true {A} (l : list A) : nilb l = true -> l = [].
Proof. destruct l; [reflexivity|discriminate]. Qed.

Lemma has_contents_text c : has_contents c = true -> nilb (ctext c) = false.
Proof. unfold has_contents. destruct (ctext c); [discriminate|reflexivity]. Qed.

(* a row's text is empty exactly when no kept cell has contents *)
Lemma cells_text_nilb cs : nilb (cells_text cs) = negb (existsb has_contents cs).
Proof.
  induction cs as [|c rest IH]; [reflexivity|].
  cbn [cells_text existsb]. destruct (has_contents c) eqn:Hc; cbn [orb].
  - apply has_contents_text in Hc. destruct (ctext c); [discriminate|reflexivity].
  - destruct (existsb has_contents rest) eqn:Hr; cbn [negb] in *.
    + now apply nilb_app_r.
    + exact IH.
Qed.

Lemma cells_text_blank cs : existsb has_contents cs = false -> cells_text cs = [].
Proof. intros H. apply nilb_true. now rewrite cells_text_nilb, H. Qed.

(* auxiliary: text with [p] pending columns of blanks *)
Fixpoint text_pend (cs : list cell) (p : N) : list N :=
  match cs with
  | [] => []
  | c :: rest => if has_contents c then repeatN 32 p ++ ctext c ++ text_pend rest 0
                 else text_pend rest (p + columns c)
  end.

Lemma text_pend_spec cs : forall p,
  text_pend cs p = if existsb has_contents cs then repeatN 32 p ++ cells_text cs else [].
Proof.
  induction cs as [|c rest IH]; intros p; [reflexivity|].
  cbn [text_pend cells_text existsb]. destruct (has_contents c) eqn:Hc; cbn [orb].
  - rewrite IH. destruct (existsb has_contents rest) eqn:Hr.
    + reflexivity.
    + now rewrite (cells_text_blank _ Hr).
  - rewrite IH. destruct (existsb has_contents rest) eqn:Hr; [|reflexivity].
    now rewrite repeatN_add, <- app_assoc.
Qed.

Definition b2n (b : bool) : N := if b then 1 else 0.

Lemma row_text_loop_spec cs : forall col pw pcol acc,
  pcol <= col + b2n pw -> col + len cs <= 65534 ->
  exists pc', row_text_loop cs col pw pcol acc
              = Ok (acc ++ text_pend (visible_cells cs pw) (col + b2n pw - pcol), pc')
    /\ (if existsb has_contents (visible_cells cs pw) then pcol < pc' else pc' = pcol).
Proof.
  induction cs as [|c rest IH]; intros col pw pcol acc Hp Hl.
  - exists pcol. destruct pw; cbn [row_text_loop visible_cells text_pend existsb];
      rewrite app_nil_r; split; reflexivity.
  - rewrite len_cons in Hl. cbn [row_text_loop visible_cells].
    destruct pw; cbn [b2n] in *.
    + destruct (IH (col + 1) false pcol acc) as (pc' & E & P); cbn [b2n]; [lia | lia |].
      exists pc'. rewrite E. cbn [b2n].
      replace (col + 1 + 0 - pcol) with (col + 1 - pcol) by lia. split; [reflexivity | exact P].
    + cbn [text_pend existsb]. destruct (has_contents c) eqn:Hc; cbn [orb].
      * assert (adv_n c <= 2) as Ha by (unfold adv_n; destruct (cwide c); lia).
        assert (1 <= adv_n c) as Ha1 by (unfold adv_n; destruct (cwide c); lia).
        rewrite sub16_ok by lia. cbn [bind].
        rewrite add16_ok by lia. cbn [bind].
        rewrite add16_ok by lia. cbn [bind].
        destruct (IH (col + 1) (cwide c) (pcol + (col - pcol) + adv_n c)
                     (acc ++ repeatN 32 (col - pcol) ++ ctext c)) as (pc' & E & P).
        { unfold adv_n, b2n. destruct (cwide c); lia. }
        { lia. }
        exists pc'. rewrite E. split.
        -- replace (col + 1 + b2n (cwide c) - (pcol + (col - pcol) + adv_n c)) with 0
             by (unfold adv_n, b2n; destruct (cwide c); lia).
           replace (col + 0 - pcol) with (col - pcol) by lia.
           rewrite <- !app_assoc. reflexivity.
        -- destruct (existsb has_contents (visible_cells rest (cwide c))); lia.
      * destruct (IH (col + 1) (cwide c) pcol acc) as (pc' & E & P).
        { unfold b2n. destruct (cwide c); lia. }
        { lia. }
        exists pc'. rewrite E. split; [|exact P].
        replace (col + 1 + b2n (cwide c) - pcol) with (col + 0 - pcol + columns c)
          by (unfold columns, b2n; destruct (cwide c); lia).
        reflexivity.
Qed.

Lemma window_nonempty_lt {A} start width (l : list A) :
  window start width l <> [] -> start + len (window start width l) <= len l.
Proof.
  intros H. unfold window in *. rewrite len_firstnN, len_skipnN.
  assert (len (firstnN width (skipnN start l)) <> 0) as H1.
  { destruct (firstnN width (skipnN start l)); [congruence|]. rewrite len_cons. lia. }
  rewrite len_firstnN, len_skipnN in H1. lia.
Qed.

(* Row::write_contents on a window = the specification; [wrapping] only adds a
   newline for an empty row *)
Theorem row_text_ok r start width wrapping : len (cells r) <= 65520 ->
  row_text r start width wrapping
  = Ok (row_text_spec (cells r) start width
        ++ (if wrapping && nilb (row_text_spec (cells r) start width) then [10] else [])).
Proof.
  intros Hl. unfold row_text, row_text_spec.
  destruct (window start width (cells r)) as [|c0 w0] eqn:Ew.
  - cbn [row_text_loop bind visible_cells cells_text nilb]. rewrite N.eqb_refl.
    destruct wrapping; reflexivity.
  - rewrite <- Ew.
    assert (window start width (cells r) <> []) as Hne by (rewrite Ew; discriminate).
    apply window_nonempty_lt in Hne.
    destruct (row_text_loop_spec (window start width (cells r)) start false start [])
      as (pc' & E & P); cbn [b2n]; [lia | lia |].
    rewrite E. cbn [bind app b2n].
    replace (start + 0 - start) with 0 by lia.
    rewrite text_pend_spec, cells_text_nilb.
    destruct (existsb has_contents (visible_cells (window start width (cells r)) false)) eqn:Hx.
    + rewrite repeatN_0. cbn [app negb]. rewrite andb_false_r.
      destruct (N.eqb_spec pc' start); [lia|]. cbn [andb]. now rewrite app_nil_r.
    + subst pc'. rewrite N.eqb_refl, (cells_text_blank _ Hx). cbn [negb andb app].
      rewrite andb_true_r. destruct wrapping; reflexivity.
Qed.

Corollary row_text_ok_nowrap r start width : len (cells r) <= 65520 ->
  row_text r start width false = Ok (row_text_spec (cells r) start width).
Proof. intros H. rewrite row_text_ok by exact H. cbn [andb]. now rewrite app_nil_r. Qed.

(* ================================================================== *)
(* rows(start, width)                                                  *)
(* ================================================================== *)

Definition rows_small (vr : list row) : Prop := Forall (fun r => len (cells r) <= 65520) vr.

Lemma map_res_rows vr start width : rows_small vr ->
  map_res (fun rw => row_text rw start width false) vr = Ok (rows_spec vr start width).
Proof.
  unfold rows_small, rows_spec. induction 1 as [|r rest Hr Hrest IH]; [reflexivity|].
  cbn [map_res map]. rewrite row_text_ok_nowrap by exact Hr. cbn [bind]. rewrite IH. reflexivity.
Qed.

Theorem rows_text_ok s start width vr :
  visible_rows (cur s) = Ok vr -> rows_small vr ->
  rows_text s start width = Ok (rows_spec vr start width).
Proof. intros Hv Hs. unfold rows_text. rewrite Hv. cbn [bind]. now apply map_res_rows. Qed.

(* ================================================================== *)
(* contents()                                                          *)
(* ================================================================== *)

Lemma forallb_app_nl l : forallb (N.eqb 10) (l ++ [10]) = forallb (N.eqb 10) l.
Proof. rewrite forallb_app. cbn [forallb]. rewrite N.eqb_refl. cbn [andb]. now rewrite andb_true_r. Qed.

Lemma drop_trailing_nl_app_nl l : drop_trailing_nl (l ++ [10]) = drop_trailing_nl l.
Proof.
  induction l as [|c rest IH].
  - cbn [app drop_trailing_nl forallb]. rewrite N.eqb_refl. reflexivity.
  - change ((c :: rest) ++ [10]) with (c :: (rest ++ [10])).
    cbn [drop_trailing_nl]. rewrite IH.
    change (c :: (rest ++ [10])) with ((c :: rest) ++ [10]). now rewrite forallb_app_nl.
Qed.

Lemma drop_trailing_nl_app_other l c : c <> 10 -> drop_trailing_nl (l ++ [c]) = l ++ [c].
Proof.
  intros Hc. induction l as [|d rest IH].
  - cbn [app drop_trailing_nl forallb]. destruct (N.eqb_spec 10 c); [congruence|reflexivity].
  - change ((d :: rest) ++ [c]) with (d :: (rest ++ [c])).
    cbn [drop_trailing_nl]. rewrite IH.
    change (d :: (rest ++ [c])) with ((d :: rest) ++ [c]). rewrite forallb_app.
    cbn [forallb]. destruct (N.eqb_spec 10 c); [congruence|]. cbn [andb]. now rewrite andb_false_r.
Qed.

(* the model's strip_trailing_nl is the declarative one *)
Lemma strip_nl_rev_spec l : rev (strip_nl_rev l) = drop_trailing_nl (rev l).
Proof.
  induction l as [|c rest IH]; [reflexivity|].
  cbn [strip_nl_rev rev]. destruct (N.eqb_spec c 10) as [->|Hn].
  - now rewrite drop_trailing_nl_app_nl.
  - rewrite drop_trailing_nl_app_other by exact Hn. reflexivity.
Qed.

Lemma strip_trailing_nl_spec l : strip_trailing_nl l = drop_trailing_nl l.
Proof. unfold strip_trailing_nl. now rewrite strip_nl_rev_spec, rev_involutive. Qed.

(* what drop_trailing_nl is: the unique prefix that does not end in a newline and
   is followed only by newlines *)
Lemma drop_trailing_nl_char l :
  exists k, l = drop_trailing_nl l ++ repeat 10 k
            /\ (forall p, drop_trailing_nl l <> p ++ [10]).
Proof.
  induction l as [|c rest (k & E & Hlast)] using rev_ind.
  - exists 0%nat. split; [reflexivity|]. intros p. cbn [drop_trailing_nl]. now destruct p.
  - destruct (N.eq_dec c 10) as [->|Hn].
    + rewrite drop_trailing_nl_app_nl. exists (S k). split; [|exact Hlast].
      rewrite E at 1. rewrite <- app_assoc. f_equal.
      change [10] with (repeat 10 1). rewrite <- repeat_app. f_equal. lia.
    + rewrite drop_trailing_nl_app_other by exact Hn. exists 0%nat. split.
      * cbn [repeat]. now rewrite app_nil_r.
      * intros p Hp. apply app_inj_tail in Hp. destruct Hp; congruence.
Qed.

(* the text contents_loop appends, as a function of the rows *)
Fixpoint code_lines (cols : N) (vr : list row) (wrapping : bool) : list N :=
  match vr with
  | [] => []
  | r :: rest =>
    let t := row_text_spec (cells r) 0 cols in
    t ++ (if wrapping && nilb t then [10] else [])
      ++ (if wrapped r then [] else [10])
      ++ code_lines cols rest (wrapped r)
  end.

Lemma contents_loop_code cols vr : rows_small vr -> forall wrapping acc,
  contents_loop cols vr wrapping acc = Ok (acc ++ code_lines cols vr wrapping).
Proof.
  unfold rows_small. induction 1 as [|r rest Hr Hrest IH]; intros wrapping acc.
  - cbn [contents_loop code_lines]. now rewrite app_nil_r.
  - cbn [contents_loop code_lines]. rewrite row_text_ok by exact Hr. cbn [bind].
    rewrite IH. rewrite <- !app_assoc. reflexivity.
Qed.

(* flag of the last row (the initial flag if there is none) *)
Fixpoint lastw (vr : list row) (w : bool) : bool :=
  match vr with [] => w | r :: rest => lastw rest (wrapped r) end.

Lemma code_lines_spec cols vr : forall w,
  code_lines cols vr w ++ (if lastw vr w then [10] else [])
  = (if w && nilb (next_text cols vr) then [10] else []) ++ contents_lines cols vr.
Proof.
  induction vr as [|r rest IH]; intros w.
  - cbn [code_lines lastw next_text contents_lines nilb app]. rewrite andb_true_r, app_nil_r.
    reflexivity.
  - cbn [code_lines lastw next_text contents_lines].
    rewrite <- !app_assoc. rewrite IH.
    set (t := row_text_spec (cells r) 0 cols).
    set (n := nilb (next_text cols rest)).
    assert (forall X, (if wrapped r then [] else [10]) ++ (if wrapped r && n then [10] else []) ++ X
            = (if wrapped r && negb n then [] else [10]) ++ X) as ->.
    { intros X. destruct (wrapped r), n; reflexivity. }
    destruct (w && nilb t) eqn:Hw.
    + apply andb_true_iff in Hw as (_ & Ht). apply nilb_true in Ht. rewrite Ht. reflexivity.
    + cbn [app]. reflexivity.
Qed.

Theorem contents_text_ok s vr :
  visible_rows (cur s) = Ok vr -> rows_small vr ->
  contents_text s = Ok (contents_spec vr (gcols (cur s))).
Proof.
  intros Hv Hs. unfold contents_text, contents_spec. rewrite Hv. cbn [bind].
  rewrite contents_loop_code by exact Hs. cbn [bind app]. f_equal.
  rewrite strip_trailing_nl_spec.
  pose proof (code_lines_spec (gcols (cur s)) vr false) as H. cbn [andb app] in H.
  rewrite <- H. destruct (lastw vr false).
  - now rewrite drop_trailing_nl_app_nl.
  - now rewrite app_nil_r.
Qed.

(* ================================================================== *)
(* contents_between()                                                  *)
(* ================================================================== *)

Lemma skipnN_nil {A} n (l : list A) : len l <= n -> skipnN n l = [].
Proof. unfold len, skipnN. intros H. apply skipn_all2. lia. Qed.

Lemma skipn_nth {A} (l : list A) : forall k a, nth_error l k = Some a -> skipn k l = a :: skipn (S k) l.
Proof.
  induction l as [|h t IH]; intros [|k] a H; cbn in H; try discriminate.
  - now inv H.
  - cbn [skipn]. rewrite (IH _ _ H). reflexivity.
Qed.

Lemma skipnN_get {A} n (l : list A) a : get l n = Some a -> skipnN n l = a :: skipnN (n + 1) l.
Proof.
  unfold get, skipnN. intros H. replace (N.to_nat (n + 1)) with (S (N.to_nat n)) by lia.
  now apply skipn_nth.
Qed.

Lemma firstnN_succ_cons {A} n (a : A) l : firstnN (n + 1) (a :: l) = a :: firstnN n l.
Proof. unfold firstnN. replace (N.to_nat (n + 1)) with (S (N.to_nat n)) by lia. reflexivity. Qed.

Lemma firstnN_firstnN {A} a b (l : list A) : a <= b -> firstnN a (firstnN b l) = firstnN a l.
Proof. intros H. unfold firstnN. rewrite firstn_firstn. f_equal. lia. Qed.

Lemma len_0_nil {A} (l : list A) : len l <= 0 -> l = [].
Proof. destruct l; [reflexivity|]. rewrite len_cons. lia. Qed.

(* the loop after the first row: whole rows up to er-1, then row er up to ecol *)
Lemma between_loop_rest cols sr sc er ecol rest : rows_small rest -> forall i acc,
  sr < i -> i <= er -> len rest <= er - i + 1 ->
  between_loop cols sr sc er ecol rest i acc
  = Ok (acc ++ concat (map (fun r => line_spec r 0 cols) (firstnN (er - i) rest))
            ++ match get rest (er - i) with
               | Some rb => row_text_spec (cells rb) 0 ecol
               | None => []
               end).
Proof.
  unfold rows_small. induction 1 as [|rw rest Hrw Hrest IH]; intros i acc Hi Hie Hl.
  - cbn [between_loop]. unfold firstnN. rewrite firstn_nil. cbn [map concat app].
    replace (get [] (er - i)) with (@None row) by (symmetry; apply get_none_ge; rewrite len_nil; lia).
    now rewrite app_nil_r.
  - rewrite len_cons in Hl. cbn [between_loop].
    destruct (N.eqb_spec i sr) as [?|_]; [lia|].
    destruct (N.eqb_spec i er) as [->|Hne].
    + assert (rest = []) as -> by (apply len_0_nil; lia).
      rewrite row_text_ok_nowrap by exact Hrw. cbn [bind between_loop].
      replace (er - er) with 0 by lia. cbn [firstnN N.to_nat firstn map concat app].
      rewrite get_cons. cbn [N.eqb]. reflexivity.
    + rewrite row_text_ok_nowrap by exact Hrw. cbn [bind].
      rewrite IH by lia.
      replace (er - i) with (er - (i + 1) + 1) by lia.
      rewrite firstnN_succ_cons. cbn [map concat]. rewrite get_cons.
      destruct (N.eqb_spec (er - (i + 1) + 1) 0) as [?|_]; [lia|].
      replace (er - (i + 1) + 1 - 1) with (er - (i + 1)) by lia.
      unfold line_spec at 2. rewrite <- !app_assoc. reflexivity.
Qed.

Theorem contents_between_ok s vr r1 c1 r2 c2 :
  visible_rows (cur s) = Ok vr -> rows_small vr ->
  contents_between s r1 c1 r2 c2 = Ok (between_spec vr (gcols (cur s)) r1 c1 r2 c2).
Proof.
  intros Hv Hs. unfold contents_between, between_spec.
  destruct (N.ltb_spec r1 r2) as [Hlt|Hge].
  - rewrite Hv. cbn [bind].
    destruct (get vr r1) as [ra|] eqn:Ea.
    + rewrite (skipnN_get _ _ _ Ea).
      replace (r2 - r1 + 1) with (r2 - r1 - 1 + 1 + 1) by lia.
      rewrite firstnN_succ_cons. cbn [between_loop]. rewrite N.eqb_refl.
      assert (len (cells ra) <= 65520) as Hra by (exact (Forall_get _ _ _ _ Hs Ea)).
      rewrite row_text_ok_nowrap by exact Hra. cbn [bind app].
      rewrite between_loop_rest.
      * unfold sat_sub16. fold (line_spec ra c1 (gcols (cur s) - c1)).
        replace (r2 - (r1 + 1)) with (r2 - r1 - 1) by lia.
        rewrite firstnN_firstnN by lia.
        rewrite get_firstnN. destruct (N.ltb_spec (r2 - r1 - 1) (r2 - r1 - 1 + 1)); [|lia].
        rewrite get_skipnN. replace (r1 + 1 + (r2 - r1 - 1)) with r2 by lia.
        reflexivity.
      * apply Forall_firstnN, Forall_skipnN. exact Hs.
      * lia.
      * lia.
      * rewrite len_firstnN. lia.
    + apply get_none_ge in Ea.
      rewrite skipnN_nil by exact Ea. rewrite skipnN_nil by lia.
      unfold firstnN. rewrite !firstn_nil. cbn [between_loop map concat app].
      replace (get vr r2) with (@None row) by (symmetry; apply get_none_ge; lia).
      reflexivity.
  - destruct (N.eqb_spec r1 r2) as [<-|Hne]; [|reflexivity].
    destruct (N.ltb_spec c1 c2); [|reflexivity].
    rewrite (rows_text_ok _ _ _ _ Hv Hs). cbn [bind]. unfold rows_spec. rewrite get_map.
    destruct (get vr r1); reflexivity.
Qed.

(* ================================================================== *)
(* No panic                                                            *)
(* ================================================================== *)

Corollary rows_text_no_panic s start width vr :
  visible_rows (cur s) = Ok vr -> rows_small vr -> is_ok (rows_text s start width) = true.
Proof. intros Hv Hs. now rewrite (rows_text_ok _ _ _ _ Hv Hs). Qed.
Corollary contents_text_no_panic s vr :
  visible_rows (cur s) = Ok vr -> rows_small vr -> is_ok (contents_text s) = true.
Proof. intros Hv Hs. now rewrite (contents_text_ok _ _ Hv Hs). Qed.
Corollary contents_between_no_panic s vr r1 c1 r2 c2 :
  visible_rows (cur s) = Ok vr -> rows_small vr -> is_ok (contents_between s r1 c1 r2 c2) = true.
Proof. intros Hv Hs. now rewrite (contents_between_ok _ _ r1 c1 r2 c2 Hv Hs). Qed.

(* ================================================================== *)
(* Fine print: reading the specification on well-formed rows           *)
(* ================================================================== *)

(* (a) one space per empty cell when no wide cell is empty *)
Fixpoint cells_text1 (cs : list cell) : list N :=
  match cs with
  | [] => []
  | c :: rest =>
    (if has_contents c then ctext c
     else if existsb has_contents rest then [32]
     else [])
    ++ cells_text1 rest
  end.

Lemma cells_text_one_space cs :
  Forall (fun c => cwide c = true -> has_contents c = true) cs ->
  cells_text cs = cells_text1 cs.
Proof.
  induction 1 as [|c rest Hc Hrest IH]; [reflexivity|].
  cbn [cells_text cells_text1]. rewrite IH. f_equal.
  destruct (has_contents c) eqn:E; [reflexivity|].
  unfold columns. destruct (cwide c); [|reflexivity].
  specialize (Hc eq_refl). discriminate.
Qed.

(* (b) on rows with the pairing invariant the dropped cells are exactly the
   continuation cells *)
Fixpoint paired (cs : list cell) (prev_wide : bool) : Prop :=
  match cs with
  | [] => True
  | c :: rest => ccont c = prev_wide /\ cwide c && ccont c = false /\ paired rest (cwide c)
  end.

Lemma visible_cells_paired cs : forall pw, paired cs pw ->
  visible_cells cs pw = filter (fun c => negb (ccont c)) cs.
Proof.
  induction cs as [|c rest IH]; intros pw H; [reflexivity|].
  cbn [paired] in H. destruct H as (Hc & Hb & Hr).
  cbn [visible_cells filter]. rewrite Hc. destruct pw; cbn [negb].
  - rewrite Hc, andb_true_r in Hb. rewrite Hb in Hr. now apply IH.
  - f_equal. now apply IH.
Qed.

Lemma paired_firstn cs : forall n pw, paired cs pw -> paired (firstn n cs) pw.
Proof.
  induction cs as [|c rest IH]; intros [|n] pw H; cbn [firstn paired]; auto.
  cbn [paired] in H. destruct H as (Hc & Hb & Hr). auto.
Qed.

Lemma fw_cons c rest i : fw (c :: rest) (i + 1) = fw rest i.
Proof. unfold fw. rewrite get_cons. destruct (N.eqb_spec (i + 1) 0); [lia|]. now replace (i + 1 - 1) with i by lia. Qed.
Lemma fc_cons c rest i : fc (c :: rest) (i + 1) = fc rest i.
Proof. unfold fc. rewrite get_cons. destruct (N.eqb_spec (i + 1) 0); [lia|]. now replace (i + 1 - 1) with i by lia. Qed.

Lemma paired_of_flags cs :
  (forall i, fw cs i = fc cs (i + 1)) -> (forall i, fw cs i && fc cs i = false) ->
  paired cs (fc cs 0).
Proof.
  induction cs as [|c rest IH]; intros Hp Hb; [exact I|].
  cbn [paired]. split; [reflexivity|]. split; [exact (Hb 0)|].
  replace (cwide c) with (fc rest 0).
  - apply IH; intros i.
    + rewrite <- (fw_cons c), <- (fc_cons c). apply Hp.
    + rewrite <- (fw_cons c), <- (fc_cons c). apply Hb.
  - rewrite <- (fc_cons c). replace (0 + 1) with (0 + 1) by reflexivity. rewrite <- Hp. reflexivity.
Qed.

Lemma fw_skipnN cs k i : fw (skipnN k cs) i = fw cs (k + i).
Proof. unfold fw. now rewrite get_skipnN. Qed.
Lemma fc_skipnN cs k i : fc (skipnN k cs) i = fc cs (k + i).
Proof. unfold fc. now rewrite get_skipnN. Qed.

Theorem visible_window_filter cs start width :
  cells_ok cs -> fc cs start = false ->
  visible_cells (window start width cs) false
  = filter (fun c => negb (ccont c)) (window start width cs).
Proof.
  intros [H0 Hp Hb] Hs. apply visible_cells_paired. unfold window, firstnN.
  apply paired_firstn. rewrite <- Hs. replace start with (start + 0) at 2 by lia.
  rewrite <- fc_skipnN. apply paired_of_flags; intros i.
  - rewrite fw_skipnN, fc_skipnN. rewrite Hp. f_equal. lia.
  - rewrite fw_skipnN, fc_skipnN. apply Hb.
Qed.

Corollary visible_cells_filter cs width :
  cells_ok cs ->
  visible_cells (window 0 width cs) false = filter (fun c => negb (ccont c)) (window 0 width cs).
Proof. intros H. apply visible_window_filter; [exact H | apply (ok_first _ H)]. Qed.

(* the row text of a well-formed row, window starting on a cell boundary:
   continuation cells skipped, the rest rendered left to right *)
Corollary row_text_spec_ok_row cs start width :
  cells_ok cs -> fc cs start = false ->
  row_text_spec cs start width
  = cells_text (filter (fun c => negb (ccont c)) (window start width cs)).
Proof. intros H Hs. unfold row_text_spec. now rewrite visible_window_filter. Qed.

(* ================================================================== *)
(* Non-vacuity                                                         *)
(* ================================================================== *)

Definition ch (x : N) : cell := mkCell [x] false false dflt.
Definition wch (x : N) : cell := mkCell [x] true false dflt.
Definition cont : cell := mkCell [] false true dflt.

(* "a", a wide U+4E16, two blanks, "b", trailing blank; wrapped *)
Definition ex_row1 : row := mkRow [ch 97; wch 19990; cont; cell_new; cell_new; ch 98; cell_new] true.
(* blank row, wrapped *)
Definition ex_row2 : row := mkRow (repeatN cell_new 7) true.
(* "c", not wrapped *)
Definition ex_row3 : row := mkRow (ch 99 :: repeatN cell_new 6) false.
(* blank row *)
Definition ex_row4 : row := mkRow (repeatN cell_new 7) false.
Definition ex_rows : list row := [ex_row1; ex_row1; ex_row2; ex_row3; ex_row4].

Example ex_rows_ok : Forall (fun r => cells_ok (cells r)) ex_rows.
Proof.
  assert (forall cs, (forall i, 7 <= i -> get cs i = None) ->
            (fc cs 0 = false /\
             (fw cs 0 = fc cs 1 /\ fw cs 1 = fc cs 2 /\ fw cs 2 = fc cs 3 /\ fw cs 3 = fc cs 4 /\
              fw cs 4 = fc cs 5 /\ fw cs 5 = fc cs 6 /\ fw cs 6 = false) /\
             (fw cs 0 && fc cs 0 = false /\ fw cs 1 && fc cs 1 = false /\ fw cs 2 && fc cs 2 = false /\
              fw cs 3 && fc cs 3 = false /\ fw cs 4 && fc cs 4 = false /\ fw cs 5 && fc cs 5 = false /\
              fw cs 6 && fc cs 6 = false)) -> cells_ok cs) as K.
  { intros cs Hout (H0 & (P0 & P1 & P2 & P3 & P4 & P5 & P6) & (B0 & B1 & B2 & B3 & B4 & B5 & B6)).
    assert (forall i, 7 <= i -> fw cs i = false) as Fw by (intros i Hi; unfold fw; now rewrite Hout).
    assert (forall i, 7 <= i -> fc cs i = false) as Fc by (intros i Hi; unfold fc; now rewrite Hout).
    assert (forall i, i = 0 \/ i = 1 \/ i = 2 \/ i = 3 \/ i = 4 \/ i = 5 \/ i = 6 \/ 7 <= i) as Cs by (intros; lia).
    split; [exact H0| |]; intros i;
      destruct (Cs i) as [->|[->|[->|[->|[->|[->|[->|Hi]]]]]]]; auto.
    - rewrite P6. symmetry. apply Fc. lia.
    - rewrite Fw, Fc by lia. reflexivity.
    - rewrite Fw by lia. reflexivity. }
  assert (forall cs : list cell, len cs = 7 -> forall i, 7 <= i -> get cs i = None) as Out.
  { intros cs Hl i Hi. apply get_none_ge. lia. }
  repeat constructor; apply K; try (apply Out; reflexivity); vm_compute; intuition reflexivity.
Qed.

Example ex_rows_spec :
  rows_spec ex_rows 0 7 = [[97; 19990; 32; 32; 98]; [97; 19990; 32; 32; 98]; []; [99]; []]
  /\ rows_spec ex_rows 2 4 = [[32; 32; 32; 98]; [32; 32; 32; 98]; []; []; []]
  /\ contents_spec ex_rows 7
     = [97; 19990; 32; 32; 98] ++ [97; 19990; 32; 32; 98] ++ [10] ++ [99]
  /\ between_spec ex_rows 7 0 1 3 1 = [19990; 32; 32; 98] ++ [97; 19990; 32; 32; 98] ++ [] ++ [99]
  /\ between_spec ex_rows 7 1 1 1 5 = [19990]
  /\ between_spec ex_rows 7 1 1 1 6 = [19990; 32; 32; 98]
  /\ between_spec ex_rows 7 3 0 1 7 = [].
Proof. vm_compute. repeat split. Qed.

(* a screen showing these rows; the model functions compared with the
   specification by evaluation of both sides *)
Definition ex_grid : grid := mkGrid 5 7 0 0 0 0 ex_rows 0 4 false false [] 0 0.
Definition ex_screen : screen :=
  mkScreen ex_grid ex_grid dflt dflt false false false false false MNone EDefault.

Example ex_model_agrees :
  visible_rows (cur ex_screen) = Ok ex_rows
  /\ rows_text ex_screen 2 4 = Ok [[32; 32; 32; 98]; [32; 32; 32; 98]; []; []; []]
  /\ rows_text ex_screen 2 4 = Ok (rows_spec ex_rows 2 4)
  /\ contents_text ex_screen = Ok [97; 19990; 32; 32; 98; 97; 19990; 32; 32; 98; 10; 99]
  /\ contents_text ex_screen = Ok (contents_spec ex_rows 7)
  /\ contents_between ex_screen 0 1 3 1 = Ok [19990; 32; 32; 98; 97; 19990; 32; 32; 98; 99]
  /\ contents_between ex_screen 0 1 3 1 = Ok (between_spec ex_rows 7 0 1 3 1)
  /\ contents_between ex_screen 1 1 1 6 = Ok (between_spec ex_rows 7 1 1 1 6)
  /\ contents_between ex_screen 3 0 1 7 = Ok [].
Proof. vm_compute. repeat split. Qed.

(* the size hypothesis cannot be dropped: a wide character in the last column of a
   65535-cell row overflows prev_col (u16) *)
Example ex_size_needed :
  row_text (mkRow (repeatN cell_new 65534 ++ [wch 19990]) false) 0 65535 false = Panic POverflow.
Proof. vm_compute. reflexivity. Qed.
