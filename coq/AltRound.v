(* AltRound.v — C11, part 3: entering and leaving the alternate screen (DECSET/DECRST 47 and
   1049), closed forms of the four operations and the round trips in all four combinations. *)
Require Import Tac ListN Width Attrs Cell Row Grid Screen Vte Perform Parser RowInv GridInv ScreenInv SbFrame.
Require Import Chunking.
Require Import AltSpec AltSaved.
Open Scope N_scope.

(* CSI ? n h   and   CSI ? n l   as actions *)
Definition ENTER (n : N) (ign : bool) : action := ACsi [[n]] [63] ign 104.
Definition LEAVE (n : N) (ign : bool) : action := ACsi [[n]] [63] ign 108.

(* ------------------------------------------------------------------------------------------ *)
(* the elementary operations *)

Lemma grid_set_scrollback_0 x : grid_set_scrollback x 0 = with_sb x (sb x) 0.
Proof. unfold grid_set_scrollback. rewrite N.min_0_l. reflexivity. Qed.

(* entering from the primary screen: the primary grid only gets its view offset reset, the
   alternate grid gets its rows allocated if it was never shown before, nothing else changes *)
Lemma enter_alternate_grid_primary s : altmode s = false ->
  enter_alternate_grid s =
  mkScreen (with_sb (g s) (sb (g s)) 0) (allocate_rows (alt s)) (pen s) (spen s)
           (keypad s) (appcur s) (hide s) true (paste s) (mmode s) (menc s).
Proof.
  intros Ha. unfold enter_alternate_grid. cbv zeta. unfold with_cur, cur. rewrite Ha.
  rewrite grid_set_scrollback_0. reflexivity.
Qed.

(* what Grid::clear produces *)
Definition cleared (a : grid) : grid :=
  mkGrid (grows a) (gcols a) 0 0 0 0 (map (row_clear dflt) (live a)) 0 (grows a - 1) false false
         (sb a) (sb_cap a) (sb_off a).

Lemma grid_clear_eq a : 1 <= grows a -> grid_clear a = Ok (cleared a).
Proof. intros H. unfold grid_clear. rewrite sub16_ok by lia. reflexivity. Qed.

(* a freshly allocated blank grid without history *)
Definition blank_grid (rows cols : N) : grid :=
  mkGrid rows cols 0 0 0 0 (repeatN (row_new cols) rows) 0 (rows - 1) false false [] 0 0.

Lemma map_cell_clear_dflt cs : map (cell_clear dflt) cs = repeatN cell_new (len cs).
Proof.
  unfold repeatN, len. rewrite Nat2N.id. induction cs as [|c cs IH]; cbn [map length repeat]; [reflexivity|].
  rewrite IH. reflexivity.
Qed.
Lemma row_clear_dflt cols r : len (cells r) = cols -> row_clear dflt r = row_new cols.
Proof. intros H. unfold row_clear, row_new. rewrite map_cell_clear_dflt, H. reflexivity. Qed.
Lemma map_row_clear_dflt cols l : Forall (row_ok cols) l -> map (row_clear dflt) l = repeatN (row_new cols) (len l).
Proof.
  unfold repeatN, len. rewrite Nat2N.id. induction l as [|r l IH]; intros F; cbn [map length repeat]; [reflexivity|].
  inv F. rewrite IH by assumption. destruct H1 as [H1 _]. rewrite (row_clear_dflt cols r H1). reflexivity.
Qed.

(* the alternate grid of a screen satisfying the invariant, once cleared and allocated, is the blank grid *)
Lemma cleared_alt_blank s : screen_ok s ->
  allocate_rows (cleared (alt s)) = blank_grid (grows (g s)) (gcols (g s)).
Proof.
  intros H. destruct H as [Og [Sh Hl] Om Hr Hc Hcap Hsb].
  pose proof (sh_rows _ Sh) as Rr. pose proof (sh_sboff _ Sh) as Ho. rewrite Hsb in Ho. cbn in Ho.
  assert (sb_off (alt s) = 0) as Hoff by lia.
  unfold allocate_rows, cleared, blank_grid. cbn [live gcols grows with_live].
  destruct Hl as [Hl|(K & _)].
  - rewrite Hl. cbn [map with_live grows gcols prow pcol sprow spcol top bot origin sorigin sb sb_cap sb_off].
    rewrite Hsb, Hcap, Hoff, Hr, Hc. reflexivity.
  - rewrite (map_row_clear_dflt (gcols (alt s)) _ (gk_rowsok _ K)), (gk_live _ K).
    destruct (repeatN (row_new (gcols (alt s))) (grows (alt s))) as [|r0 l0] eqn:El.
    + exfalso. pose proof (len_repeatN (row_new (gcols (alt s))) (grows (alt s))) as L. rewrite El in L. cbn in L. lia.
    + rewrite <- El. rewrite Hsb, Hcap, Hoff, Hr, Hc. reflexivity.
Qed.

Lemma decset1_47 s : decset1 s [47] = Ok (enter_alternate_grid s, 0).
Proof. reflexivity. Qed.
Lemma decrst1_47 s : decrst1 s [47] = Ok (exit_alternate_grid s, 0).
Proof. reflexivity. Qed.
Lemma decrst1_1049 s : decrst1 s [1049] = Ok (scr_restore_cursor (exit_alternate_grid s), 0).
Proof. reflexivity. Qed.
Lemma decset1_1049 s : 1 <= grows (alt (scr_save_cursor s)) ->
  decset1 s [1049] = Ok (enter_alternate_grid (with_alt (scr_save_cursor s) (cleared (alt (scr_save_cursor s)))), 0).
Proof.
  intros H. unfold decset1. cbn [single]. gsimp. cbv zeta. rewrite grid_clear_eq by exact H. reflexivity.
Qed.

(* --- entry, from the primary screen --- *)
Theorem enter_47 s : altmode s = false ->
  decset1 s [47] = Ok (mkScreen (with_sb (g s) (sb (g s)) 0) (allocate_rows (alt s)) (pen s) (spen s)
                                (keypad s) (appcur s) (hide s) true (paste s) (mmode s) (menc s), 0).
Proof. intros Ha. rewrite decset1_47, enter_alternate_grid_primary by exact Ha. reflexivity. Qed.

Theorem enter_1049_raw s : altmode s = false -> 1 <= grows (alt s) ->
  decset1 s [1049] = Ok (mkScreen (with_sb (save_cursor (g s)) (sb (g s)) 0) (allocate_rows (cleared (alt s)))
                                  (pen s) (pen s) (keypad s) (appcur s) (hide s) true (paste s) (mmode s) (menc s), 0).
Proof.
  intros Ha Hr.
  assert (scr_save_cursor s = with_spen (with_g s (save_cursor (g s))) (pen s)) as Es.
  { unfold scr_save_cursor, with_cur, cur. rewrite Ha. reflexivity. }
  rewrite decset1_1049 by (rewrite Es; exact Hr).
  rewrite enter_alternate_grid_primary by (rewrite Es; exact Ha).
  rewrite Es. reflexivity.
Qed.

Theorem enter_1049 s : altmode s = false -> screen_ok s ->
  decset1 s [1049] = Ok (mkScreen (with_sb (save_cursor (g s)) (sb (g s)) 0) (blank_grid (grows (g s)) (gcols (g s)))
                                  (pen s) (pen s) (keypad s) (appcur s) (hide s) true (paste s) (mmode s) (menc s), 0).
Proof.
  intros Ha H. rewrite enter_1049_raw; [|exact Ha|].
  - rewrite (cleared_alt_blank s H). reflexivity.
  - destruct (so_alt _ H) as [Sh _]. apply (sh_rows _ Sh).
Qed.

(* the blank grid: every cell is the default blank cell, no row is wrapped *)
Lemma blank_grid_cell rows cols r c : r < rows -> c < cols ->
  drawing_cell (blank_grid rows cols) r c = Some cell_new /\
  option_map wrapped (drawing_row (blank_grid rows cols) r) = Some false.
Proof.
  intros Hr Hc. unfold drawing_cell, drawing_row, blank_grid. cbn [live]. rewrite get_repeatN.
  destruct (N.ltb_spec r rows); [|lia]. cbn [option_map row_new wrapped]. split; [|reflexivity].
  unfold row_get, row_new. cbn [cells]. rewrite get_repeatN. destruct (N.ltb_spec c cols); [reflexivity|lia].
Qed.

(* --- exit --- *)
Theorem leave_47 s : decrst1 s [47] = Ok (with_altmode s false, 0).
Proof. reflexivity. Qed.
Theorem leave_1049 s : decrst1 s [1049] =
  Ok (mkScreen (restore_cursor (g s)) (alt s) (spen s) (spen s) (keypad s) (appcur s) (hide s) false
               (paste s) (mmode s) (menc s), 0).
Proof. reflexivity. Qed.

(* ------------------------------------------------------------------------------------------ *)
(* the actions *)
Lemma perform_ENTER rz s n ign s1 : decset1 s [n] = Ok (s1, 0) -> perform rz s (ENTER n ign) = Ok (s1, []).
Proof.
  intros E. unfold ENTER. cbn [perform]. unfold do_csi. cbn zeta. cbv iota. gsimp.
  unfold scr_decset. cbn [fold_params]. rewrite E. cbn [bind]. reflexivity.
Qed.
Lemma perform_LEAVE rz s n ign s1 : decrst1 s [n] = Ok (s1, 0) -> perform rz s (LEAVE n ign) = Ok (s1, []).
Proof.
  intros E. unfold LEAVE. cbn [perform]. unfold do_csi. cbn zeta. cbv iota. gsimp.
  unfold scr_decrst. cbn [fold_params]. rewrite E. cbn [bind]. reflexivity.
Qed.
Lemma perform_ENTER_inv rz s n ign s1 e : perform rz s (ENTER n ign) = Ok (s1, e) -> exists k, decset1 s [n] = Ok (s1, k).
Proof.
  unfold ENTER. cbn [perform]. unfold do_csi. cbn zeta. cbv iota. gsimp.
  unfold scr_decset. cbn [fold_params]. intros E. bind_inv E. destruct v as [s2 k]. inv E.
  apply bind_ok in E0 as (v & Ed & E0). destruct v as [s3 k3]. inv E0. exists k3. exact Ed.
Qed.

(* ------------------------------------------------------------------------------------------ *)
(* round trips *)
Definition entry_g (e : N) (x : grid) : grid := if e =? 1049 then save_cursor x else x.
Definition exit_g (x : N) (y : grid) : grid := if x =? 1049 then restore_cursor y else y.

(* state after entry from the primary screen: only g, alt, spen and altmode can differ *)
Lemma entry_state s e s1 k : altmode s = false -> e = 47 \/ e = 1049 -> decset1 s [e] = Ok (s1, k) ->
  g s1 = with_sb (entry_g e (g s)) (sb (g s)) 0 /\ altmode s1 = true /\ pen s1 = pen s /\
  spen s1 = (if e =? 1049 then pen s else spen s) /\ k = 0.
Proof.
  intros Ha [-> | ->] E.
  - rewrite enter_47 in E by exact Ha. inv E. auto.
  - assert (1 <= grows (alt s)) as Hr.
    { unfold decset1 in E. cbn [single] in E. revert E. gsimp. cbv zeta. intros E. bind_inv E.
      unfold grid_clear in E0. bind_inv E0. unfold sub16 in E1.
      assert (alt (scr_save_cursor s) = alt s) as Ea.
      { unfold scr_save_cursor, with_cur. rewrite Ha. reflexivity. }
      rewrite Ea in E1. destruct (N.leb_spec 1 (grows (alt s))); [assumption|discriminate]. }
    rewrite enter_1049_raw in E by assumption. inv E. auto.
Qed.

Lemma exit_state s x s3 k : x = 47 \/ x = 1049 -> decrst1 s [x] = Ok (s3, k) ->
  g s3 = exit_g x (g s) /\ altmode s3 = false /\ alt s3 = alt s /\
  pen s3 = (if x =? 1049 then spen s else pen s) /\ spen s3 = spen s /\ k = 0.
Proof. intros [-> | ->] E; [rewrite leave_47 in E|rewrite leave_1049 in E]; inv E; auto 10. Qed.

Lemma perform_LEAVE_inv rz s n ign s1 e : perform rz s (LEAVE n ign) = Ok (s1, e) -> exists k, decrst1 s [n] = Ok (s1, k).
Proof.
  unfold LEAVE. cbn [perform]. unfold do_csi. cbn zeta. cbv iota. gsimp.
  unfold scr_decrst. cbn [fold_params]. intros E. bind_inv E. destruct v as [s2 k]. inv E.
  apply bind_ok in E0 as (v & Ed & E0). destruct v as [s3 k3]. inv E0. exists k3. exact Ed.
Qed.

(* The general round trip: from the primary screen, enter with e, process any list of
   switch-free actions, leave with x.  The primary grid afterwards is the primary grid before,
   with the view offset 0, the cursor saved on entry iff e = 1049, and the cursor restored from the
   saved slot on exit iff x = 1049.  No invariant needed. *)
Theorem round_trip rz s e x i1 i2 acts evs0 s3 evs :
  altmode s = false -> e = 47 \/ e = 1049 -> x = 47 \/ x = 1049 ->
  Forall (fun a => switch_free rz a = true) acts ->
  perform_all rz s (ENTER e i1 :: acts ++ [LEAVE x i2]) evs0 = Ok (s3, evs) ->
  g s3 = exit_g x (with_sb (entry_g e (g s)) (sb (g s)) 0) /\ altmode s3 = false.
Proof.
  intros Ha He Hx F E. cbn [perform_all] in E. bind_inv E. destruct v as [s1 e1].
  rewrite perform_all_app in E. bind_inv E. destruct v as [s2 e2]. cbn [perform_all] in E.
  bind_inv E. destruct v as [s3' e3]. inv E.
  apply perform_ENTER_inv in E0 as (k1 & E0). apply perform_LEAVE_inv in E2 as (k3 & E2).
  destruct (entry_state _ _ _ _ Ha He E0) as (G1 & A1 & _).
  destruct (alt_isolation_all _ _ _ _ _ _ A1 F E1) as (G2 & A2).
  destruct (exit_state _ _ _ _ Hx E2) as (G3 & A3 & _).
  split; [|exact A3]. rewrite G3, G2, G1. reflexivity.
Qed.

(* the pen after the round trip, when the input in between does not contain DECSC either *)
Theorem round_trip_pen rz s e i1 i2 acts evs0 s3 evs :
  altmode s = false -> e = 47 \/ e = 1049 ->
  Forall (fun a => save_free rz a = true) acts ->
  perform_all rz s (ENTER e i1 :: acts ++ [LEAVE 1049 i2]) evs0 = Ok (s3, evs) ->
  pen s3 = (if e =? 1049 then pen s else spen s).
Proof.
  intros Ha He F E. cbn [perform_all] in E. bind_inv E. destruct v as [s1 e1].
  rewrite perform_all_app in E. bind_inv E. destruct v as [s2 e2]. cbn [perform_all] in E.
  bind_inv E. destruct v as [s3' e3]. inv E.
  apply perform_ENTER_inv in E0 as (k1 & E0). apply perform_LEAVE_inv in E2 as (k3 & E2).
  destruct (entry_state _ _ _ _ Ha He E0) as (_ & _ & _ & P1 & _).
  pose proof (svs_perform_all _ _ _ _ _ _ F E1) as (_ & _ & P2).
  destruct (exit_state _ 1049 _ _ (or_intror eq_refl) E2) as (_ & _ & _ & P3 & _).
  rewrite P3, P2, P1. reflexivity.
Qed.

Lemma save_free_switch_free rz acts :
  Forall (fun a => save_free rz a = true) acts -> Forall (fun a => switch_free rz a = true) acts.
Proof. apply Forall_impl. intros a H. now apply save_free_inv in H. Qed.

(* what never changes, in all four combinations *)
Theorem round_trip_common rz s e x i1 i2 acts evs0 s3 evs :
  altmode s = false -> e = 47 \/ e = 1049 -> x = 47 \/ x = 1049 ->
  Forall (fun a => switch_free rz a = true) acts ->
  perform_all rz s (ENTER e i1 :: acts ++ [LEAVE x i2]) evs0 = Ok (s3, evs) ->
  altmode s3 = false /\
  grows (g s3) = grows (g s) /\ gcols (g s3) = gcols (g s) /\
  live (g s3) = live (g s) /\ top (g s3) = top (g s) /\ bot (g s3) = bot (g s) /\
  sb (g s3) = sb (g s) /\ sb_cap (g s3) = sb_cap (g s) /\ sb_off (g s3) = 0.
Proof.
  intros Ha He Hx F E. destruct (round_trip _ _ _ _ _ _ _ _ _ _ Ha He Hx F E) as (G & A).
  split; [exact A|]. rewrite G. unfold exit_g, entry_g, restore_cursor, save_cursor.
  destruct (x =? 1049), (e =? 1049); gproj; auto 10.
Qed.

(* the cursor (position and origin mode) and the saved slot of the primary grid, case by case *)
Theorem round_trip_47_47 rz s i1 i2 acts evs0 s3 evs :
  altmode s = false -> Forall (fun a => switch_free rz a = true) acts ->
  perform_all rz s (ENTER 47 i1 :: acts ++ [LEAVE 47 i2]) evs0 = Ok (s3, evs) ->
  g s3 = with_sb (g s) (sb (g s)) 0.
Proof. intros Ha F E. apply (round_trip _ _ 47 47) in E; auto. apply E. Qed.

Theorem round_trip_1049_47 rz s i1 i2 acts evs0 s3 evs :
  altmode s = false -> Forall (fun a => switch_free rz a = true) acts ->
  perform_all rz s (ENTER 1049 i1 :: acts ++ [LEAVE 47 i2]) evs0 = Ok (s3, evs) ->
  g s3 = with_sb (save_cursor (g s)) (sb (g s)) 0 /\
  prow (g s3) = prow (g s) /\ pcol (g s3) = pcol (g s) /\ origin (g s3) = origin (g s) /\
  sprow (g s3) = prow (g s) /\ spcol (g s3) = pcol (g s) /\ sorigin (g s3) = origin (g s).
Proof.
  intros Ha F E. apply (round_trip _ _ 1049 47) in E; auto. destruct E as (G & _).
  change (g s3 = with_sb (save_cursor (g s)) (sb (g s)) 0) in G. split; [exact G|]. rewrite G. cbn. auto 10.
Qed.

Theorem round_trip_47_1049 rz s i1 i2 acts evs0 s3 evs :
  altmode s = false -> Forall (fun a => switch_free rz a = true) acts ->
  perform_all rz s (ENTER 47 i1 :: acts ++ [LEAVE 1049 i2]) evs0 = Ok (s3, evs) ->
  g s3 = restore_cursor (with_sb (g s) (sb (g s)) 0) /\
  prow (g s3) = sprow (g s) /\ pcol (g s3) = spcol (g s) /\ origin (g s3) = sorigin (g s) /\
  sprow (g s3) = sprow (g s) /\ spcol (g s3) = spcol (g s) /\ sorigin (g s3) = sorigin (g s).
Proof.
  intros Ha F E. apply (round_trip _ _ 47 1049) in E; auto. destruct E as (G & _).
  change (g s3 = restore_cursor (with_sb (g s) (sb (g s)) 0)) in G. split; [exact G|]. rewrite G. cbn. auto 10.
Qed.

Theorem round_trip_1049_1049 rz s i1 i2 acts evs0 s3 evs :
  altmode s = false -> Forall (fun a => switch_free rz a = true) acts ->
  perform_all rz s (ENTER 1049 i1 :: acts ++ [LEAVE 1049 i2]) evs0 = Ok (s3, evs) ->
  g s3 = with_sb (save_cursor (g s)) (sb (g s)) 0 /\
  prow (g s3) = prow (g s) /\ pcol (g s3) = pcol (g s) /\ origin (g s3) = origin (g s) /\
  sprow (g s3) = prow (g s) /\ spcol (g s3) = pcol (g s) /\ sorigin (g s3) = origin (g s).
Proof.
  intros Ha F E. apply (round_trip _ _ 1049 1049) in E; auto. destruct E as (G & _).
  change (g s3 = restore_cursor (with_sb (save_cursor (g s)) (sb (g s)) 0)) in G.
  assert (g s3 = with_sb (save_cursor (g s)) (sb (g s)) 0) as G'.
  { rewrite G. destruct (g s). reflexivity. }
  split; [exact G'|]. rewrite G'. cbn. auto 10.
Qed.

(* with the invariant, nothing panics: the round trip always completes, in a good state *)
Theorem round_trip_total rz s e x i1 i2 acts evs0 : screen_ok s ->
  exists s3 evs, perform_all rz s (ENTER e i1 :: acts ++ [LEAVE x i2]) evs0 = Ok (s3, evs) /\ screen_ok s3.
Proof. intros H. apply perform_all_ok. exact H. Qed.

(* the same at the level of the parser API: a chunk of bytes processed on the alternate screen
   whose actions are switch-free leaves the primary grid alone *)
Theorem process_alt_isolation p bs q : altmode (scr p) = true ->
  Forall (fun a => switch_free (resizing p) a = true) (snd (advance (vt p) (delivered p bs))) ->
  process p bs = Ok q -> g (scr q) = g (scr p) /\ altmode (scr q) = true.
Proof.
  rewrite process_unfold. destruct (advance (vt p) _) as [v acts]. cbn [snd]. intros Ha F E.
  bind_inv E. destruct v0 as [s evs]. inv E. cbn [scr]. eapply alt_isolation_all; eassumption.
Qed.
Theorem process_primary_isolation p bs q : altmode (scr p) = false ->
  Forall (fun a => switch_free (resizing p) a = true) (snd (advance (vt p) (delivered p bs))) ->
  process p bs = Ok q -> alt (scr q) = alt (scr p) /\ altmode (scr q) = false.
Proof.
  rewrite process_unfold. destruct (advance (vt p) _) as [v acts]. cbn [snd]. intros Ha F E.
  bind_inv E. destruct v0 as [s evs]. inv E. cbn [scr]. eapply primary_isolation_all; eassumption.
Qed.

(* the API call Screen::set_scrollback while the alternate screen is shown acts on the alternate
   grid only (where it is a no-op on a grid without history) *)
Theorem set_scrollback_alt_isolation s k : altmode s = true ->
  g (screen_set_scrollback s k) = g s /\ altmode (screen_set_scrollback s k) = true.
Proof. intros Ha. unfold screen_set_scrollback, with_cur. rewrite Ha. auto. Qed.

(* every state reachable through the API from a fresh parser satisfies the invariant *)
Lemma reachable_ok rows cols cap rz p0 ops p :
  1 <= rows <= MAXDIM -> 1 <= cols <= MAXDIM -> parser_new rows cols cap rz = Ok p0 ->
  Forall op_ok ops -> run p0 ops = Ok p -> screen_ok (scr p).
Proof.
  intros Hr Hc E0 F E. destruct (parser_new_ok rows cols cap rz Hr Hc) as (p0' & E0' & O0).
  rewrite E0 in E0'. inv E0'. destruct (run_ok ops _ O0 F) as (q & Eq & Oq). rewrite E in Eq. inv Eq. exact (parser_ok_scr _ Oq).
Qed.

(* the round trip from every reachable primary state, through Parser::process: it never panics,
   and the primary grid afterwards is given by the closed form *)
Theorem round_trip_reachable rows cols cap rz p0 ops p e x i1 i2 acts bs :
  1 <= rows <= MAXDIM -> 1 <= cols <= MAXDIM -> parser_new rows cols cap rz = Ok p0 ->
  Forall op_ok ops -> run p0 ops = Ok p ->
  altmode (scr p) = false -> e = 47 \/ e = 1049 -> x = 47 \/ x = 1049 ->
  snd (advance (vt p) (delivered p bs)) = ENTER e i1 :: acts ++ [LEAVE x i2] ->
  Forall (fun a => switch_free (resizing p) a = true) acts ->
  exists q, process p bs = Ok q /\ screen_ok (scr q) /\ altmode (scr q) = false /\
    g (scr q) = exit_g x (with_sb (entry_g e (g (scr p))) (sb (g (scr p))) 0).
Proof.
  intros Hr Hc E0 Fo E Ha He Hx Eb F. pose proof (reachable_ok _ _ _ _ _ _ _ Hr Hc E0 Fo E) as O.
  rewrite process_unfold. destruct (advance (vt p) _) as [v al]. cbn [snd] in Eb. subst al.
  destruct (round_trip_total (resizing p) (scr p) e x i1 i2 acts [] O) as (s3 & evs & E3 & O3).
  rewrite E3. cbn [bind]. eexists; split; [reflexivity|]. cbn [scr].
  destruct (round_trip _ _ _ _ _ _ _ _ _ _ Ha He Hx F E3) as (G & A). auto.
Qed.
