(* RowInv.v — the wide/continuation pairing invariant of a row and its
   preservation by the row operations of Row.v. *)
Require Import Tac ListN Attrs Cell Row Grid.
Open Scope N_scope.

(* flag of the cell at index i (false outside the row) *)
Definition fw (cs : list cell) (i : N) : bool := match get cs i with Some c => cwide c | None => false end.
Definition fc (cs : list cell) (i : N) : bool := match get cs i with Some c => ccont c | None => false end.

(* a continuation cell exactly after every wide cell, never first, never both flags *)
Record cells_ok (cs : list cell) : Prop := mkCellsOk {
  ok_first : fc cs 0 = false;
  ok_pair : forall i, fw cs i = fc cs (i + 1);
  ok_both : forall i, fw cs i && fc cs i = false }.

Definition row_ok (cols : N) (r : row) : Prop := len (cells r) = cols /\ cells_ok (cells r).

Lemma fw_get cs i c : get cs i = Some c -> fw cs i = cwide c.
Proof. unfold fw; now intros ->. Qed.
Lemma fc_get cs i c : get cs i = Some c -> fc cs i = ccont c.
Proof. unfold fc; now intros ->. Qed.
Lemma fw_true cs i : fw cs i = true -> exists c, get cs i = Some c /\ cwide c = true.
Proof. unfold fw; destruct (get cs i); [eauto|discriminate]. Qed.
Lemma fc_true cs i : fc cs i = true -> exists c, get cs i = Some c /\ ccont c = true.
Proof. unfold fc; destruct (get cs i); [eauto|discriminate]. Qed.

(* consequences used for panic-freedom *)
Lemma ok_wide_next cs i c : cells_ok cs -> get cs i = Some c -> cwide c = true ->
  exists d, get cs (i + 1) = Some d /\ ccont d = true /\ cwide d = false /\ ccont c = false.
Proof.
  intros [H0 Hp Hb] Hg Hw.
  pose proof (Hp i) as P. rewrite (fw_get _ _ _ Hg), Hw in P. symmetry in P.
  apply fc_true in P as (d & Hd & Hc). exists d. repeat split; auto.
  - pose proof (Hb (i + 1)) as B. rewrite (fw_get _ _ _ Hd), (fc_get _ _ _ Hd), Hc in B.
    now rewrite andb_true_r in B.
  - pose proof (Hb i) as B. rewrite (fw_get _ _ _ Hg), (fc_get _ _ _ Hg), Hw in B. exact B.
Qed.

Lemma ok_cont_prev cs i c : cells_ok cs -> get cs i = Some c -> ccont c = true ->
  0 < i /\ exists d, get cs (i - 1) = Some d /\ cwide d = true /\ ccont d = false /\ cwide c = false.
Proof.
  intros [H0 Hp Hb] Hg Hc.
  assert (0 < i) as Hi.
  { destruct (N.eqb_spec i 0) as [->|]; [|lia]. rewrite (fc_get _ _ _ Hg) in H0. congruence. }
  split; [exact Hi|].
  pose proof (Hp (i - 1)) as P. replace (i - 1 + 1) with i in P by lia.
  rewrite (fc_get _ _ _ Hg), Hc in P. apply fw_true in P as (d & Hd & Hw).
  exists d. repeat split; auto.
  - pose proof (Hb (i - 1)) as B. rewrite (fw_get _ _ _ Hd), (fc_get _ _ _ Hd), Hw in B. exact B.
  - pose proof (Hb i) as B. rewrite (fw_get _ _ _ Hg), (fc_get _ _ _ Hg), Hc in B.
    now rewrite andb_true_r in B.
Qed.

Lemma ok_last_not_wide cs c : cells_ok cs -> 0 < len cs -> get cs (len cs - 1) = Some c -> cwide c = false.
Proof.
  intros Hok Hl Hg. destruct (cwide c) eqn:E; [|reflexivity].
  destruct (ok_wide_next _ _ _ Hok Hg E) as (d & Hd & _).
  apply get_some_lt in Hd. lia.
Qed.

(* flags of updated lists *)
Lemma fw_set_at cs j x i :
  fw (set_at cs j x) i = if i =? j then (if j <? len cs then cwide x else false) else fw cs i.
Proof. unfold fw. rewrite get_set_at. destruct (i =? j); [destruct (j <? len cs)|]; reflexivity. Qed.
Lemma fc_set_at cs j x i :
  fc (set_at cs j x) i = if i =? j then (if j <? len cs then ccont x else false) else fc cs i.
Proof. unfold fc. rewrite get_set_at. destruct (i =? j); [destruct (j <? len cs)|]; reflexivity. Qed.

Lemma fw_out cs i : len cs <= i -> fw cs i = false.
Proof. intros H. unfold fw. apply get_none_ge in H. now rewrite H. Qed.
Lemma fc_out cs i : len cs <= i -> fc cs i = false.
Proof. intros H. unfold fc. apply get_none_ge in H. now rewrite H. Qed.

(* a list of cells without flags is ok *)
Lemma cells_ok_noflags cs : (forall i, fw cs i = false) -> (forall i, fc cs i = false) -> cells_ok cs.
Proof. intros W C. split; intros; rewrite ?W, ?C; reflexivity. Qed.

Lemma row_new_ok cols : row_ok cols (row_new cols).
Proof.
  split; cbn [row_new cells]. { apply len_repeatN. }
  apply cells_ok_noflags; intros i; unfold fw, fc; rewrite get_repeatN; destruct (i <? cols); reflexivity.
Qed.

Lemma row_clear_ok cols a r : len (cells r) = cols -> row_ok cols (row_clear a r).
Proof.
  intros H. split; cbn [row_clear cells]. { now rewrite len_map. }
  apply cells_ok_noflags; intros i; unfold fw, fc; rewrite get_map; destruct (get (cells r) i); reflexivity.
Qed.

Lemma row_wrap_ok cols b r : row_ok cols r -> row_ok cols (row_wrap b r).
Proof. intros [H1 H2]. split; assumption. Qed.

(* replacing a cell by one with the same flags *)
Lemma cells_ok_same_flags cs j x c :
  cells_ok cs -> get cs j = Some c -> cwide x = cwide c -> ccont x = ccont c -> cells_ok (set_at cs j x).
Proof.
  intros [H0 Hp Hb] Hg Hw Hc.
  assert (j < len cs) as Hj by (eapply get_some_lt; eauto).
  assert (forall i, fw (set_at cs j x) i = fw cs i) as FW.
  { intros i. rewrite fw_set_at. destruct (N.eqb_spec i j) as [->|]; [|reflexivity].
    destruct (N.ltb_spec j (len cs)); [|lia]. rewrite (fw_get _ _ _ Hg). exact Hw. }
  assert (forall i, fc (set_at cs j x) i = fc cs i) as FC.
  { intros i. rewrite fc_set_at. destruct (N.eqb_spec i j) as [->|]; [|reflexivity].
    destruct (N.ltb_spec j (len cs)); [|lia]. rewrite (fc_get _ _ _ Hg). exact Hc. }
  split; intros; rewrite ?FW, ?FC; auto.
Qed.

Ltac fcases :=
  repeat (match goal with
          | |- context[N.eqb ?a ?b] => destruct (N.eqb_spec a b)
          | |- context[N.ltb ?a ?b] => destruct (N.ltb_spec a b)
          end; try lia).

(* normalise index arithmetic *)
Ltac inorm :=
  repeat match goal with
  | |- context[?k + 1 - 1] => replace (k + 1 - 1) with k in * by lia
  | H : context[?k + 1 - 1] |- _ => replace (k + 1 - 1) with k in * by lia
  | |- context[?k - 1 + 1] => replace (k - 1 + 1) with k in * by lia
  | H : context[?k - 1 + 1] |- _ => replace (k - 1 + 1) with k in * by lia
  end.

(* rewrite with every known boolean fact, then close *)
Ltac bclose :=
  subst; inorm;
  repeat match goal with
         | H : ?t = true |- context[?t] => rewrite H
         | H : ?t = false |- context[?t] => rewrite H
         end;
  try reflexivity; try congruence; auto.

Definition noflags (x : cell) : Prop := cwide x = false /\ ccont x = false.

Lemma clear_noflags a c : noflags (cell_clear a c).
Proof. split; reflexivity. Qed.

(* erasing a narrow cell, or a wide pair, or a continuation with its first half *)
Lemma cells_ok_clear_narrow cs i c x :
  cells_ok cs -> get cs i = Some c -> noflags c -> noflags x -> cells_ok (set_at cs i x).
Proof.
  intros Hok Hg [Hw Hc] [Xw Xc]. eapply cells_ok_same_flags; eauto; congruence.
Qed.

Lemma cells_ok_clear_wide cs i c d x y :
  cells_ok cs -> get cs i = Some c -> cwide c = true -> get cs (i + 1) = Some d ->
  noflags x -> noflags y -> cells_ok (set_at (set_at cs (i + 1) y) i x).
Proof.
  intros Hok Hg Hw Hd [Xw Xc] [Yw Yc].
  destruct (ok_wide_next _ _ _ Hok Hg Hw) as (d' & Hd' & Dc & Dw & Cc).
  rewrite Hd in Hd'; inv Hd'.
  destruct Hok as [H0 Hp Hb].
  assert (i < len cs) as Li by (eapply get_some_lt; eauto).
  assert (i + 1 < len cs) as Lj by (eapply get_some_lt; eauto).
  pose proof (fw_get _ _ _ Hg) as Fwi. pose proof (fc_get _ _ _ Hg) as Fci.
  pose proof (fw_get _ _ _ Hd) as Fwj. pose proof (fc_get _ _ _ Hd) as Fcj.
  rewrite Hw in Fwi. rewrite Cc in Fci. rewrite Dw in Fwj. rewrite Dc in Fcj.
  split.
  - rewrite !fc_set_at, !len_set_at. fcases; bclose.
  - intros k. pose proof (Hp k) as Pk. rewrite !fw_set_at, !fc_set_at, !len_set_at.
    fcases; bclose.
  - intros k. pose proof (Hb k) as Bk. rewrite !fw_set_at, !fc_set_at, !len_set_at.
    fcases; bclose.
Qed.

Lemma cells_ok_clear_cont cs i c d x y :
  cells_ok cs -> get cs i = Some c -> ccont c = true -> get cs (i - 1) = Some d ->
  noflags x -> noflags y -> cells_ok (set_at (set_at cs (i - 1) y) i x).
Proof.
  intros Hok Hg Hc Hd [Xw Xc] [Yw Yc].
  destruct (ok_cont_prev _ _ _ Hok Hg Hc) as (Hi & d' & Hd' & Dw & Dc & Cw).
  rewrite Hd in Hd'; inv Hd'.
  destruct Hok as [H0 Hp Hb].
  assert (i < len cs) as Li by (eapply get_some_lt; eauto).
  pose proof (fw_get _ _ _ Hg) as Fwi. pose proof (fc_get _ _ _ Hg) as Fci.
  pose proof (fw_get _ _ _ Hd) as Fwj. pose proof (fc_get _ _ _ Hd) as Fcj.
  rewrite Cw in Fwi. rewrite Hc in Fci. rewrite Dw in Fwj. rewrite Dc in Fcj.
  split.
  - rewrite !fc_set_at, !len_set_at. fcases; bclose.
  - intros k. pose proof (Hp k) as Pk. rewrite !fw_set_at, !fc_set_at, !len_set_at.
    fcases; bclose.
  - intros k. pose proof (Hb k) as Bk. rewrite !fw_set_at, !fc_set_at, !len_set_at.
    fcases; bclose.
Qed.

Lemma idx_get {A} (l : list A) i a : get l i = Some a -> idx l i = Ok a.
Proof. unfold idx; now intros ->. Qed.

(* Row::clear_wide never panics on an ok row and clears exactly the partner's flags *)
Lemma clear_wide_ok r i c : cells_ok (cells r) -> len (cells r) <= 65535 -> get (cells r) i = Some c ->
  exists r1, clear_wide r i = Ok r1 /\ wrapped r1 = wrapped r /\ len (cells r1) = len (cells r) /\
    get (cells r1) i = Some c /\
    (forall x, noflags x -> cells_ok (set_at (cells r1) i x)).
Proof.
  intros Hok Hlen Hg. unfold clear_wide. rewrite (idx_get _ _ _ Hg). cbn [bind].
  assert (i < len (cells r)) as Li by (eapply get_some_lt; eauto).
  destruct (cwide c) eqn:Ew.
  - destruct (ok_wide_next _ _ _ Hok Hg Ew) as (d & Hd & Dc & Dw & Cc).
    assert (i + 1 < len (cells r)) as Lj by (eapply get_some_lt; eauto).
    unfold add16, U16MAX. destruct (N.leb_spec (i + 1) 65535); [|lia]. cbn [bind].
    rewrite (idx_get _ _ _ Hd). cbn [bind].
    eexists; split; [reflexivity|]; split; [reflexivity|]; split; [|split]; cbn [row_set_cell cells wrapped].
    + apply len_set_at.
    + rewrite get_set_at. destruct (N.eqb_spec i (i + 1)); [lia|exact Hg].
    + intros x Hx. eapply cells_ok_clear_wide; eauto. apply clear_noflags.
  - destruct (ccont c) eqn:Ec.
    + destruct (ok_cont_prev _ _ _ Hok Hg Ec) as (Hi & d & Hd & Dw & Dc & Cw).
      unfold sub16. destruct (N.leb_spec 1 i); [|lia]. cbn [bind].
      rewrite (idx_get _ _ _ Hd). cbn [bind].
      eexists; split; [reflexivity|]; split; [reflexivity|]; split; [|split]; cbn [row_set_cell cells wrapped].
      * apply len_set_at.
      * rewrite get_set_at. destruct (N.eqb_spec i (i - 1)); [lia|exact Hg].
      * intros x Hx. eapply cells_ok_clear_cont; eauto. apply clear_noflags.
    + eexists; split; [reflexivity|]; split; [reflexivity|]; split; [reflexivity|]; split; [exact Hg|].
      intros x Hx. eapply cells_ok_clear_narrow; eauto. split; assumption.
Qed.

Lemma row_erase_ok cols r i a : row_ok cols r -> cols <= 65535 -> i < cols ->
  exists r', row_erase r i a = Ok r' /\ row_ok cols r'.
Proof.
  intros [Hl Hok] Hc Hi. subst cols.
  destruct (get_lt_some _ _ Hi) as (c & Hg).
  unfold row_erase. rewrite (idx_get _ _ _ Hg). cbn [bind].
  destruct (clear_wide_ok r i c Hok Hc Hg) as (r1 & -> & Hwr & Hl1 & Hg1 & Hset). cbn [bind].
  rewrite (idx_get _ _ _ Hg1). cbn [bind].
  unfold row_cols, row_set_cell; cbn [cells]. rewrite len_set_at, Hl1.
  assert (exists lim, sub16 (len (cells r)) (if cwide c then 2 else 1) = Ok lim) as (lim & ->).
  { unfold sub16. destruct (cwide c) eqn:Ew.
    - destruct (ok_wide_next _ _ _ Hok Hg Ew) as (d & Hd & _). apply get_some_lt in Hd.
      destruct (N.leb_spec 2 (len (cells r))); [eauto|lia].
    - destruct (N.leb_spec 1 (len (cells r))); [eauto|lia]. }
  cbn [bind]. eexists; split; [reflexivity|].
  assert (row_ok (len (cells r)) (mkRow (set_at (cells r1) i (cell_clear a c)) (wrapped r1))) as R.
  { split; cbn [cells]. { now rewrite len_set_at. } apply Hset. apply clear_noflags. }
  destruct (i =? lim); [apply row_wrap_ok|]; exact R.
Qed.

(* flags after removing / inserting one element *)
Lemma fw_remove cs i k : i < len cs ->
  fw (firstnN i cs ++ skipnN (i + 1) cs) k = if k <? i then fw cs k else fw cs (k + 1).
Proof. intros H. unfold fw. rewrite get_remove by exact H. destruct (k <? i); reflexivity. Qed.
Lemma fc_remove cs i k : i < len cs ->
  fc (firstnN i cs ++ skipnN (i + 1) cs) k = if k <? i then fc cs k else fc cs (k + 1).
Proof. intros H. unfold fc. rewrite get_remove by exact H. destruct (k <? i); reflexivity. Qed.
Lemma fw_insert cs i x k : i <= len cs ->
  fw (firstnN i cs ++ x :: skipnN i cs) k = if k <? i then fw cs k else if k =? i then cwide x else fw cs (k - 1).
Proof. intros H. unfold fw. rewrite get_insert by exact H. destruct (k <? i); [|destruct (k =? i)]; reflexivity. Qed.
Lemma fc_insert cs i x k : i <= len cs ->
  fc (firstnN i cs ++ x :: skipnN i cs) k = if k <? i then fc cs k else if k =? i then ccont x else fc cs (k - 1).
Proof. intros H. unfold fc. rewrite get_insert by exact H. destruct (k <? i); [|destruct (k =? i)]; reflexivity. Qed.

Lemma cells_ok_remove_noflags cs i x :
  cells_ok cs -> get cs i = Some x -> noflags x -> cells_ok (firstnN i cs ++ skipnN (i + 1) cs).
Proof.
  intros [H0 Hp Hb] Hg [Xw Xc].
  assert (i < len cs) as Li by (eapply get_some_lt; eauto).
  pose proof (fw_get _ _ _ Hg) as Fwi. pose proof (fc_get _ _ _ Hg) as Fci. rewrite Xw in Fwi. rewrite Xc in Fci.
  split.
  - rewrite fc_remove by exact Li. fcases; bclose.
    assert (i = 0) by lia; subst. pose proof (Hp 0) as P. cbn in P. replace (0 + 1) with 1 in * by lia. congruence.
  - intros k. rewrite fw_remove, fc_remove by exact Li. pose proof (Hp k) as Pk. pose proof (Hp (k + 1)) as Pk1.
    fcases; bclose.
    assert (k + 1 = i) by lia; subst. congruence.
  - intros k. rewrite fw_remove, fc_remove by exact Li. pose proof (Hb k). pose proof (Hb (k + 1)). fcases; bclose.
Qed.

Lemma row_remove_ok r i : cells_ok (cells r) -> len (cells r) <= 65535 -> i < len (cells r) ->
  exists r', row_remove r i = Ok r' /\ len (cells r') = len (cells r) - 1 /\ cells_ok (cells r') /\ wrapped r' = false.
Proof.
  intros Hok Hc Hi. destruct (get_lt_some _ _ Hi) as (c & Hg).
  unfold row_remove.
  destruct (clear_wide_ok r i c Hok Hc Hg) as (r1 & -> & Hwr & Hl1 & Hg1 & Hset). cbn [bind].
  rewrite (remove_at_ok _ _ _ Hg1). cbn [bind].
  eexists; split; [reflexivity|]. cbn [cells wrapped].
  split; [|split; [|reflexivity]].
  - rewrite len_remove by lia. lia.
  - rewrite <- (remove_set_at (cells r1) i (cell_clear dflt c)).
    eapply cells_ok_remove_noflags.
    + apply Hset. apply clear_noflags.
    + rewrite get_set_at. destruct (N.eqb_spec i i); [|lia]. destruct (N.ltb_spec i (len (cells r1))); [reflexivity|lia].
    + apply clear_noflags.
Qed.

Lemma cells_ok_insert_noflags cs p x :
  cells_ok cs -> p <= len cs -> fc cs p = false -> noflags x ->
  cells_ok (firstnN p cs ++ x :: skipnN p cs).
Proof.
  intros [H0 Hp Hb] Lp Fp [Xw Xc].
  split.
  - rewrite fc_insert by exact Lp. fcases; bclose.
  - intros k. rewrite fw_insert, fc_insert by exact Lp. pose proof (Hp k) as Pk. pose proof (Hp (k - 1)) as Pk1.
    fcases; bclose.
  - intros k. rewrite fw_insert, fc_insert by exact Lp. pose proof (Hb k). pose proof (Hb (k - 1)). fcases; bclose.
Qed.

Lemma ins_step_ok r p : cells_ok (cells r) -> p < len (cells r) ->
  exists r', ins_step (fc (cells r) p) p r = Ok r' /\ cells_ok (cells r') /\
             len (cells r') = len (cells r) + 1 /\ fc (cells r') p = fc (cells r) p.
Proof.
  intros Hok Lp. destruct (get_lt_some _ _ Lp) as (c & Hg).
  unfold ins_step. rewrite (fc_get _ _ _ Hg).
  destruct (ccont c) eqn:Ec.
  - (* cursor on a continuation cell *)
    destruct (ok_cont_prev _ _ _ Hok Hg Ec) as (Hi & d & Hd & Dw & Dc & Cw).
    unfold row_upd at 1. unfold row_get. rewrite Hg. cbn [unwrap bind].
    unfold row_insert, row_set_cell; cbn [cells wrapped].
    rewrite insert_at_ok by (rewrite len_set_at; lia). cbn [bind].
    unfold row_upd, row_get, row_set_cell; cbn [cells wrapped].
    rewrite get_insert by (rewrite len_set_at; lia).
    destruct (N.ltb_spec p p); [lia|]. destruct (N.eqb_spec p p); [|lia]. cbn [unwrap bind].
    eexists; split; [reflexivity|]. cbn [cells].
    set (c' := cell_set_cont false c). set (x := cell_set_cont true cell_new).
    set (cs := cells r) in *. set (cs1 := set_at cs p c').
    assert (len cs1 = len cs) as L1 by apply len_set_at.
    assert (p <= len cs1) as Lp1 by lia.
    destruct Hok as [H0 Hp Hb].
    pose proof (fw_get _ _ _ Hg) as Fwp. pose proof (fc_get _ _ _ Hg) as Fcp. rewrite Cw in Fwp. rewrite Ec in Fcp.
    pose proof (fw_get _ _ _ Hd) as Fwd. pose proof (fc_get _ _ _ Hd) as Fcd. rewrite Dw in Fwd. rewrite Dc in Fcd.
    assert (cwide c' = false) as C'w by exact Cw.
    assert (ccont c' = false) as C'c by reflexivity.
    assert (cwide x = false) as Xw by reflexivity.
    assert (ccont x = true) as Xc by reflexivity.
    split; [|split].
    + split.
      * rewrite fc_set_at, fc_insert, len_insert by exact Lp1. unfold cs1. rewrite fc_set_at, ?len_set_at. fcases; bclose.
      * intros k. pose proof (Hp k) as Pk. pose proof (Hp (k - 1)) as Pk1.
        rewrite fw_set_at, fc_set_at, fw_insert, fc_insert, len_insert by exact Lp1. unfold cs1. rewrite !fw_set_at, !fc_set_at, ?len_set_at.
        fcases; bclose.
      * intros k. pose proof (Hb k) as Bk. pose proof (Hb (k - 1)) as Bk1.
        rewrite fw_set_at, fc_set_at, fw_insert, fc_insert, len_insert by exact Lp1. unfold cs1. rewrite !fw_set_at, !fc_set_at, ?len_set_at.
        fcases; bclose.
    + rewrite len_set_at, len_insert by exact Lp1. lia.
    + rewrite fc_set_at, len_insert by exact Lp1. unfold cs1. rewrite ?len_set_at. fcases; bclose.
  - (* ordinary cell *)
    cbn [bind]. unfold row_insert. rewrite insert_at_ok by lia. cbn [bind].
    eexists; split; [reflexivity|]. cbn [cells].
    split; [|split].
    + apply cells_ok_insert_noflags; auto; try lia.
      * rewrite (fc_get _ _ _ Hg). exact Ec.
      * split; reflexivity.
    + rewrite len_insert by lia. reflexivity.
    + rewrite fc_insert by lia. fcases; bclose.
Qed.

Lemma fw_firstnN cs n k : fw (firstnN n cs) k = if k <? n then fw cs k else false.
Proof. unfold fw. rewrite get_firstnN. destruct (k <? n); reflexivity. Qed.
Lemma fc_firstnN cs n k : fc (firstnN n cs) k = if k <? n then fc cs k else false.
Proof. unfold fc. rewrite get_firstnN. destruct (k <? n); reflexivity. Qed.

Lemma fw_resize cs n k : fw (resize_list cs n cell_new) k = if k <? n then fw cs k else false.
Proof.
  unfold fw at 1. rewrite get_resize_list. destruct (N.ltb_spec k n); [|reflexivity].
  destruct (N.ltb_spec k (len cs)); [reflexivity|]. rewrite fw_out by lia. reflexivity.
Qed.
Lemma fc_resize cs n k : fc (resize_list cs n cell_new) k = if k <? n then fc cs k else false.
Proof.
  unfold fc at 1. rewrite get_resize_list. destruct (N.ltb_spec k n); [|reflexivity].
  destruct (N.ltb_spec k (len cs)); [reflexivity|]. rewrite fc_out by lia. reflexivity.
Qed.

(* cutting a list after n cells and blanking a wide cell left in the last place *)
Lemma cells_ok_cut (cs cs' : list cell) n :
  cells_ok cs -> 1 <= n ->
  (forall k, fw cs' k = if k <? n then fw cs k else false) ->
  (forall k, fc cs' k = if k <? n then fc cs k else false) ->
  forall x, noflags x ->
  cells_ok (if fw cs' (n - 1) then set_at cs' (n - 1) x else cs') /\
  (len cs' = n -> len (if fw cs' (n - 1) then set_at cs' (n - 1) x else cs') = n).
Proof.
  intros [H0 Hp Hb] Hn FW FC x [Xw Xc].
  destruct (fw cs' (n - 1)) eqn:E.
  - split; [|intros; now rewrite len_set_at].
    assert (n - 1 < len cs') as Ll.
    { apply fw_true in E as (c & Hc & _). eapply get_some_lt; eauto. }
    pose proof E as E'. rewrite FW in E'. destruct (N.ltb_spec (n - 1) n); [|lia].
    pose proof (Hb (n - 1)) as Bn. rewrite E' in Bn. cbn in Bn.
    split.
    + rewrite fc_set_at, FC. fcases; bclose.
    + intros k. pose proof (Hp k) as Pk. rewrite fw_set_at, fc_set_at, !FW, !FC. fcases; bclose.
    + intros k. pose proof (Hb k) as Bk. rewrite fw_set_at, fc_set_at, !FW, !FC. fcases; bclose.
  - split; [|auto].
    rewrite FW in E. destruct (N.ltb_spec (n - 1) n); [|lia].
    split.
    + rewrite FC. fcases; bclose.
    + intros k. pose proof (Hp k) as Pk. rewrite !FW, !FC. fcases; bclose.
      assert (k = n - 1) as -> by lia. exact E.
    + intros k. pose proof (Hb k) as Bk. rewrite !FW, !FC. fcases; bclose.
Qed.

Lemma row_truncate_ok r n : cells_ok (cells r) -> 1 <= n -> n <= len (cells r) ->
  exists r', row_truncate r n = Ok r' /\ row_ok n r' /\ wrapped r' = false.
Proof.
  intros Hok Hn Hl. unfold row_truncate, subz.
  destruct (N.leb_spec 1 n); [|lia]. cbn [bind].
  assert (len (firstnN n (cells r)) = n) as Lf by (rewrite len_firstnN; lia).
  destruct (get_lt_some (firstnN n (cells r)) (n - 1)) as (last & Hlast); [lia|].
  rewrite (idx_get _ _ _ Hlast). cbn [bind].
  eexists; split; [reflexivity|]. split; [|reflexivity].
  pose proof (cells_ok_cut (cells r) (firstnN n (cells r)) n Hok Hn (fw_firstnN _ _) (fc_firstnN _ _)
                           (clear_own last) (clear_noflags _ _)) as [C L].
  rewrite (fw_get _ _ _ Hlast) in C, L.
  split; cbn [cells]; [apply L; exact Lf|exact C].
Qed.

Lemma row_resize_ok r n : cells_ok (cells r) -> 1 <= n -> row_ok n (row_resize r n cell_new).
Proof.
  intros Hok Hn. unfold row_resize.
  destruct n as [|pn]; [lia|]. set (n := N.pos pn) in *.
  set (cs' := resize_list (cells r) n cell_new).
  assert (len cs' = n) as Lc by apply len_resize_list.
  rewrite Lc. unfold n at 2. cbv iota.
  destruct (get_lt_some cs' (n - 1)) as (last & Hlast); [lia|].
  rewrite Hlast.
  pose proof (cells_ok_cut (cells r) cs' n Hok Hn (fw_resize _ _) (fc_resize _ _)
                           (clear_own last) (clear_noflags _ _)) as [C L].
  rewrite (fw_get _ _ _ Hlast) in C, L.
  split; cbn [cells]; [apply L; exact Lc|exact C].
Qed.
