(* Term.v — term.rs: the byte strings the crate emits, as tokens plus a serializer. *)
Require Import Base Utf8 Attrs.

Inductive token :=
| TCsi (priv : bool) (ps : list N) (final : N)   (* ESC [ [?] p1;p2;.. final *)
| TEsc (final : N)                                (* ESC final *)
| TCtl (b : N)                                    (* a C0 control: BS, CR, LF *)
| TChars (cs : list N).                           (* text, UTF-8 encoded *)

Fixpoint digits (fuel : nat) (n : N) (acc : list N) : list N :=
  match fuel with
  | O => acc
  | S fuel => if n <? 10 then (48 + n) :: acc else digits fuel (n / 10) ((48 + n mod 10) :: acc)
  end.
Definition itoa (n : N) : list N := digits 20 n [].

Fixpoint join_params (ps : list N) : list N :=
  match ps with
  | [] => []
  | [p] => itoa p
  | p :: rest => itoa p ++ 59 :: join_params rest
  end.

Definition ser (t : token) : list N :=
  match t with
  | TCsi priv ps f => 27 :: 91 :: (if priv then [63] else []) ++ join_params ps ++ [f]
  | TEsc f => [27; f]
  | TCtl b => [b]
  | TChars cs => encode_str cs
  end.
Definition ser_all (ts : list token) : list N := flat_map ser ts.

Definition t_clear_screen : list token := [TCsi false [] 72; TCsi false [] 74].
Definition t_clear_row_forward : token := TCsi false [] 75.
Definition t_crlf : list token := [TCtl 13; TCtl 10].
Definition t_bs : token := TCtl 8.
Definition t_save_cursor : token := TEsc 55.
Definition t_restore_cursor : token := TEsc 56.
Definition t_clear_attrs : token := TCsi false [] 109.

Definition t_move_to (r c : N) : res (list token) :=
  if (r =? 0) && (c =? 0) then Ok [TCsi false [] 72]
  else do r1 <- add16 r 1; do c1 <- add16 c 1; Ok [TCsi false [r1; c1] 72].

Definition t_move_right (n : N) : list token :=
  if n =? 0 then [] else if n =? 1 then [TCsi false [] 67] else [TCsi false [n] 67].
Definition t_erase_char (n : N) : list token :=
  if n =? 0 then [] else if n =? 1 then [TCsi false [] 88] else [TCsi false [n] 88].
Definition t_hide_cursor (b : bool) : token := TCsi true [25] (if b then 108 else 104).

(* Attrs::write_escape_code_diff *)
Definition t_attrs_diff (self other : attrs) : list token :=
  match sgr_diff self other with
  | None => []
  | Some ps => [TCsi false ps 109]
  end.

(* MoveFromTo *)
Definition t_move_from_to (fr fc tr tc : N) : res (list token) :=
  do fr1 <- add16 fr 1;
  if (tr =? fr1) && (tc =? 0) then Ok t_crlf
  else if (fr =? tr) && (fc <? tc) then Ok (t_move_right (tc - fc))
  else if negb ((tr =? fr) && (tc =? fc)) then t_move_to tr tc
  else Ok [].

Definition t_keypad (b : bool) : token := TEsc (if b then 61 else 62).
Definition t_appcur (b : bool) : token := TCsi true [1] (if b then 104 else 108).
Definition t_paste (b : bool) : token := TCsi true [2004] (if b then 104 else 108).
