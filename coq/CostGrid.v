(* CostGrid.v — bounds on the work counter of the instrumented grid operations
   of CostModel.v, in terms of the grid dimensions only (except IL / SD, whose
   loop runs `count` times).  ABSTRACT WORK UNITS OF THE MODEL, see CostModel.v. *)
Require Import Tac ListN Utf8 Width Attrs Cell Row Grid Screen RowInv GridInv CostMonad CostModel.
Open Scope N_scope.

(* ---- cost of a bind whose head is a lifted model computation ---- *)
Lemma snd_bindc_charge {A B} k (r : res A) (f : A -> cres B) :
  snd (bindc (charge k r) f) = k + match r with Ok a => snd (f a) | Panic _ => 0 end.
Proof. unfold bindc; cbn [fst snd charge]. destruct r; cbn [snd]; lia. Qed.

Lemma snd_bindc_free_eq {A B} (r : res A) (f : A -> cres B) :
  snd (bindc (free r) f) = match r with Ok a => snd (f a) | Panic _ => 0 end.
Proof. unfold bindc; cbn [fst snd free]. destruct r; cbn [snd]; lia. Qed.

Lemma iter_c_inv {A} (I : A -> Prop) (f : A -> cres A) :
  (forall a a', I a -> fst (f a) = Ok a' -> I a') ->
  forall n a b, I a -> fst (iter_c n f a) = Ok b -> I b.
Proof.
  intros Hi n. induction n as [|n IH]; intros a b Ia E; cbn [iter_c] in E.
  - cbn in E. now inv E.
  - rewrite fst_bindc in E. destruct (fst (f a)) as [a'|] eqn:Ea; cbn [bind] in E; [|discriminate].
    eapply IH; [|exact E]. eapply Hi; eauto.
Qed.

Lemma sub16_inv a b v : sub16 a b = Ok v -> v = a - b /\ b <= a.
Proof. unfold sub16. destruct (N.leb_spec b a) as [Hb|Hb]; intros H; inv H. split; [reflexivity|lia]. Qed.

(* ---- lengths after the Vec primitives ---- *)
Lemma remove_at_len {A} (l : list A) i x l1 : remove_at l i = Ok (x, l1) -> len l1 + 1 = len l.
Proof.
  unfold remove_at. destruct (get l i) as [a|] eqn:G; [|discriminate]. intros H.
  pose proof (get_some_lt _ _ _ G) as Hi.
  pose proof (remove_at_ok _ _ _ G) as E. unfold remove_at in E. rewrite G in E.
  rewrite H in E. inv E. rewrite len_remove by lia. lia.
Qed.

Lemma insert_at_len {A} (l : list A) i a l2 : insert_at l i a = Ok l2 -> len l2 = len l + 1.
Proof.
  unfold insert_at. destruct (N.leb_spec i (len l)) as [Hi|Hi]; intros H; inv H.
  apply (len_insert l i a Hi).
Qed.

Lemma wrap_false_at_len l i l' : wrap_false_at l i = Ok l' -> len l' = len l.
Proof. unfold wrap_false_at. intros H. bind_inv H. inv H. apply len_set_at. Qed.

Lemma row_upd_cols r p f r' : row_upd r p f = Ok r' -> row_cols r' = row_cols r.
Proof.
  unfold row_upd. intros H. bind_inv H. inv H. unfold row_cols, row_set_cell. cbn [cells].
  apply len_set_at.
Qed.

Lemma row_insert_cols r p c r' : row_insert r p c = Ok r' -> row_cols r' = row_cols r + 1.
Proof.
  unfold row_insert. intros H. bind_inv H. inv H. unfold row_cols. cbn [cells].
  now apply insert_at_len in E.
Qed.

Lemma clear_wide_cols r i r' : clear_wide r i = Ok r' -> row_cols r' = row_cols r.
Proof.
  unfold clear_wide. intros H. bind_inv H. destruct (cwide v).
  - bind_inv H. bind_inv H. inv H. unfold row_cols, row_set_cell. cbn [cells]. apply len_set_at.
  - destruct (ccont v).
    + bind_inv H. bind_inv H. inv H. unfold row_cols, row_set_cell. cbn [cells]. apply len_set_at.
    + now inv H.
Qed.

Lemma row_remove_cols r i r' : row_remove r i = Ok r' -> row_cols r' + 1 = row_cols r.
Proof.
  unfold row_remove. intros H. bind_inv H. apply clear_wide_cols in E.
  bind_inv H. destruct v0 as [c cs]. inv H. apply remove_at_len in E0.
  unfold row_cols in *. cbn [cells]. lia.
Qed.

Lemma ins_step_cols w p r r' : ins_step w p r = Ok r' -> row_cols r' = row_cols r + 1.
Proof.
  unfold ins_step. intros H. bind_inv H. bind_inv H.
  apply row_insert_cols in E0.
  assert (E1 : row_cols v = row_cols r).
  { destruct w; [now apply row_upd_cols in E|now inv E]. }
  assert (E2 : row_cols r' = row_cols v0).
  { destruct w; [now apply row_upd_cols in H|now inv H]. }
  lia.
Qed.

(* ---- rows: cost of clearing a list of rows of width C ---- *)
Lemma rows_clear_cost a C l : Forall (row_ok C) l ->
  snd (map_c (row_clear a) row_cols l) = len l * C.
Proof.
  intros H. apply snd_map_c_eq. eapply Forall_impl; [|exact H].
  intros r [Hl _]. exact Hl.
Qed.

Lemma Forall_firstn_nat {A} (P : A -> Prop) n l : Forall P l -> Forall P (firstn n l).
Proof. intros H. rewrite <- (firstn_skipn n l) in H. now apply Forall_app in H. Qed.
Lemma Forall_skipn_nat {A} (P : A -> Prop) n l : Forall P l -> Forall P (skipn n l).
Proof. intros H. rewrite <- (firstn_skipn n l) in H. now apply Forall_app in H. Qed.
Lemma len_firstn_le {A} n (l : list A) : len (firstn n l) <= len l.
Proof. unfold len. rewrite firstn_length. lia. Qed.
Lemma len_skipn_le {A} n (l : list A) : len (skipn n l) <= len l.
Proof. unfold len. rewrite skipn_length. lia. Qed.

(* ================= per-operation bounds ================= *)
Lemma gb_live x : grid_ok x -> len (live x) = grows x.
Proof. intros [H _]. exact (gk_live _ H). Qed.
Lemma gb_rows x : grid_ok x -> Forall (row_ok (gcols x)) (live x).
Proof. intros [H _]. exact (gk_rowsok _ H). Qed.
Lemma gb_row x r rw : grid_ok x -> get (live x) r = Some rw -> row_cols rw = gcols x.
Proof. intros Hok G. destruct (Forall_get _ _ _ _ (gb_rows x Hok) G) as [Hl _]. exact Hl. Qed.
Lemma gb_pcol x : grid_ok x -> pcol x <= gcols x.
Proof. intros (_ & _ & H). exact H. Qed.

Lemma upd_row_c_le x r f k :
  (forall rw, get (live x) r = Some rw -> snd (f rw) <= k) -> snd (upd_row_c x r f) <= k + 1.
Proof.
  intros H. unfold upd_row_c. apply snd_bindc_free. intros rw E.
  unfold drawing_row in E. destruct (get (live x) r) as [rw'|] eqn:G; cbn in E; [|discriminate]. inv E.
  apply snd_bindc_le; [now apply H|]. intros; cbn; lia.
Qed.

Lemma erase_all_c_le x a : grid_ok x -> snd (erase_all_c x a) <= grows x * gcols x.
Proof.
  intros Hok. unfold erase_all_c. cbn [snd charge].
  rewrite (rows_clear_cost a _ _ (gb_rows x Hok)), (gb_live x Hok). lia.
Qed.

Lemma for_erase_le n lo a rw :
  snd (for_range_c n lo (fun col r => row_erase_c r col a) rw) <= N.of_nat n.
Proof.
  eapply N.le_trans; [apply (for_range_c_le _ 1)|lia]. intros; cbn; lia.
Qed.

Lemma erase_row_forward_c_le x a : snd (erase_row_forward_c x a) <= gcols x + 1.
Proof.
  unfold erase_row_forward_c. eapply N.le_trans; [apply (upd_row_c_le _ _ _ (gcols x))|lia].
  intros rw _. eapply N.le_trans; [apply for_erase_le|]. lia.
Qed.

Lemma erase_row_backward_c_le x a : snd (erase_row_backward_c x a) <= gcols x + 1.
Proof.
  unfold erase_row_backward_c. apply snd_bindc_free. intros m E. apply sub16_inv in E as [-> E].
  eapply N.le_trans; [apply (upd_row_c_le _ _ _ (gcols x))|lia].
  intros rw _. eapply N.le_trans; [apply for_erase_le|]. lia.
Qed.

Lemma erase_row_c_le x a : grid_ok x -> snd (erase_row_c x a) <= gcols x + 1.
Proof.
  intros Hok. unfold erase_row_c. apply upd_row_c_le. intros rw G. cbn [snd charge].
  rewrite (gb_row _ _ _ Hok G). lia.
Qed.

Lemma erase_cells_c_le x n a : snd (erase_cells_c x n a) <= gcols x + 1.
Proof.
  unfold erase_cells_c. cbv zeta. eapply N.le_trans; [apply (upd_row_c_le _ _ _ (gcols x))|lia].
  intros rw _. eapply N.le_trans; [apply for_erase_le|]. lia.
Qed.

Lemma erase_all_forward_c_le x a : grid_ok x ->
  snd (erase_all_forward_c x a) <= grows x * gcols x + gcols x + 1.
Proof.
  intros Hok. unfold erase_all_forward_c. cbv zeta. rewrite snd_tick.
  pose proof (erase_row_forward_c_le
    (with_live x (firstn (S (N.to_nat (prow x))) (live x) ++
       fst (map_c (row_clear a) row_cols (skipn (S (N.to_nat (prow x))) (live x))))) a) as H1.
  cbn [gcols with_live] in H1.
  rewrite (rows_clear_cost a (gcols x)) by (apply Forall_skipn_nat, gb_rows, Hok).
  pose proof (len_skipn_le (S (N.to_nat (prow x))) (live x)) as H2. rewrite (gb_live x Hok) in H2.
  assert (len (skipn (S (N.to_nat (prow x))) (live x)) * gcols x <= grows x * gcols x)
    by (apply N.mul_le_mono_r; lia).
  lia.
Qed.

Lemma erase_all_backward_c_le x a : grid_ok x ->
  snd (erase_all_backward_c x a) <= grows x * gcols x + gcols x + 1.
Proof.
  intros Hok. unfold erase_all_backward_c. cbv zeta. rewrite snd_tick.
  pose proof (erase_row_backward_c_le
    (with_live x (fst (map_c (row_clear a) row_cols (firstn (N.to_nat (prow x)) (live x))) ++
       skipn (N.to_nat (prow x)) (live x))) a) as H1.
  cbn [gcols with_live] in H1.
  rewrite (rows_clear_cost a (gcols x)) by (apply Forall_firstn_nat, gb_rows, Hok).
  pose proof (len_firstn_le (N.to_nat (prow x)) (live x)) as H2. rewrite (gb_live x Hok) in H2.
  assert (len (firstn (N.to_nat (prow x)) (live x)) * gcols x <= grows x * gcols x)
    by (apply N.mul_le_mono_r; lia).
  lia.
Qed.

(* ---- ICH ---- *)
Lemma ins_step_c_le w p r : snd (ins_step_c w p r) <= row_cols r + 3.
Proof.
  unfold ins_step_c, row_insert_c. destruct w.
  - rewrite snd_bindc_charge. destruct (row_upd r p (cell_set_cont false)) as [r1|] eqn:E1; [|lia].
    apply row_upd_cols in E1. rewrite snd_bindc_charge, E1.
    destruct (row_insert r1 p cell_new); cbn [snd charge]; lia.
  - rewrite snd_bindc_free_eq, snd_bindc_charge.
    destruct (row_insert r p cell_new); cbn [snd free]; lia.
Qed.

Lemma ins_step_c_ge w p r r' : fst (ins_step_c w p r) = Ok r' -> row_cols r + 1 <= snd (ins_step_c w p r).
Proof.
  rewrite fst_ins_step_c. unfold ins_step, ins_step_c, row_insert_c. intros H.
  bind_inv H. bind_inv H. destruct w.
  - rewrite snd_bindc_charge, E. apply row_upd_cols in E. rewrite snd_bindc_charge, E0, E. cbn [snd charge]. lia.
  - inv E. rewrite snd_bindc_free_eq, snd_bindc_charge, E0. lia.
Qed.

Lemma ins_step_c_cols w p r r' : fst (ins_step_c w p r) = Ok r' -> row_cols r' = row_cols r + 1.
Proof. rewrite fst_ins_step_c. apply ins_step_cols. Qed.

Lemma ins_iter_cols w p n : forall r r',
  fst (iter_c n (ins_step_c w p) r) = Ok r' -> row_cols r' = row_cols r + N.of_nat n.
Proof.
  induction n as [|n IH]; intros r r' E; cbn [iter_c] in E.
  - cbn in E. inv E. cbn. lia.
  - rewrite fst_bindc in E. destruct (fst (ins_step_c w p r)) as [r1|] eqn:E1; cbn [bind] in E; [|discriminate].
    apply ins_step_c_cols in E1. apply IH in E. lia.
Qed.

Lemma ins_iter_le w p n : forall r,
  snd (iter_c n (ins_step_c w p) r) <= N.of_nat n * (row_cols r + 3) + N.of_nat n * N.of_nat n.
Proof.
  induction n as [|n IH]; intros r; cbn [iter_c].
  - cbn. lia.
  - eapply N.le_trans.
    + apply (snd_bindc_le _ _ (row_cols r + 3)
               (N.of_nat n * (row_cols r + 1 + 3) + N.of_nat n * N.of_nat n)); [apply ins_step_c_le|].
      intros r1 E1. apply ins_step_c_cols in E1. rewrite <- E1. apply IH.
    + rewrite Nat2N.inj_succ. generalize (N.of_nat n) as m. intros m. lia.
Qed.

(* twice the cost of n unclamped ICH iterations on a row of length L is at
   least 2 n (L+1) + n (n-1): the row grows by one cell per iteration *)
Lemma ins_iter_ge w p n : forall r r', fst (iter_c n (ins_step_c w p) r) = Ok r' ->
  2 * N.of_nat n * (row_cols r + 1) + N.of_nat n * N.of_nat n <=
  2 * snd (iter_c n (ins_step_c w p) r) + N.of_nat n.
Proof.
  induction n as [|n IH]; intros r r' E; cbn [iter_c] in *.
  - cbn. lia.
  - rewrite fst_bindc in E. destruct (fst (ins_step_c w p r)) as [r1|] eqn:E1; cbn [bind] in E; [|discriminate].
    rewrite (snd_bindc_ok _ _ _ E1).
    pose proof (ins_step_c_ge _ _ _ _ E1) as G1. apply ins_step_c_cols in E1.
    specialize (IH _ _ E). rewrite E1 in IH.
    rewrite Nat2N.inj_succ. revert IH G1. generalize (N.of_nat n) as m.
    generalize (snd (iter_c n (ins_step_c w p) r1)) as c1. generalize (snd (ins_step_c w p r)) as c0.
    intros c0 c1 m IH G1. lia.
Qed.

Lemma insert_cells_c_le x n : grid_ok x ->
  snd (insert_cells_c x n) <= 2 * gcols x * gcols x + 4 * gcols x + 2.
Proof.
  intros Hok. unfold insert_cells_c. apply snd_bindc_free. intros wide _.
  apply snd_bindc_free. intros room E. apply sub16_inv in E as [-> E].
  set (k := N.min n (gcols x - pcol x)).
  eapply N.le_trans; [apply (upd_row_c_le _ _ _ (k * (gcols x + 3) + k * k + (k + 1)))|].
  - intros rw G. pose proof (gb_row _ _ _ Hok G) as Hc.
    apply snd_bindc_le.
    + eapply N.le_trans; [apply ins_iter_le|]. rewrite N2Nat.id, Hc. lia.
    + intros rw' E'. apply ins_iter_cols in E'. rewrite N2Nat.id in E'.
      unfold row_truncate_c, absdiff. cbn [snd charge]. fold k in E'. lia.
  - assert (Hk : k <= gcols x) by (unfold k; lia).
    assert (k * (gcols x + 3) <= gcols x * (gcols x + 3)) by (apply N.mul_le_mono_r; lia).
    assert (k * k <= gcols x * gcols x) by (apply N.mul_le_mono; lia).
    lia.
Qed.

(* ---- DCH ---- *)
Lemma delete_cells_c_le x n : grid_ok x ->
  snd (delete_cells_c x n) <= gcols x * gcols x + gcols x + 2.
Proof.
  intros Hok. unfold delete_cells_c. apply snd_bindc_free. intros room E. apply sub16_inv in E as [-> E].
  set (k := N.min n (gcols x - pcol x)).
  assert (Hi : forall a a', row_cols a <= gcols x -> fst (row_remove_c a (pcol x)) = Ok a' -> row_cols a' <= gcols x).
  { intros a a' Ha Ea. cbn in Ea. apply row_remove_cols in Ea. lia. }
  eapply N.le_trans; [apply (upd_row_c_le _ _ _ (k * gcols x + (gcols x + 1)))|].
  - intros rw G. pose proof (gb_row _ _ _ Hok G) as Hc.
    apply snd_bindc_le.
    + eapply N.le_trans; [apply (iter_c_le (fun r => row_cols r <= gcols x) _ (gcols x))|].
      * intros a Ha. cbn. exact Ha.
      * exact Hi.
      * lia.
      * rewrite N2Nat.id. fold k. lia.
    + intros rw' E'. apply (iter_c_inv (fun r => row_cols r <= gcols x)) in E'; [|exact Hi|lia].
      unfold row_resize_cost, absdiff. cbn [snd charge]. lia.
  - assert (Hk : k <= gcols x) by (unfold k; lia).
    assert (k * gcols x <= gcols x * gcols x) by (apply N.mul_le_mono_r; lia).
    lia.
Qed.

(* ---- IL / SD: one iteration, and n iterations ---- *)
Lemma il_step_c_le x pos l : snd (il_step_c x pos l) <= 2 * len l + gcols x + 1.
Proof.
  unfold il_step_c. rewrite snd_bindc_charge.
  destruct (remove_at l (bot x)) as [[r l1]|] eqn:E1; [|lia].
  apply remove_at_len in E1. rewrite snd_bindc_charge.
  destruct (insert_at l1 pos (new_row x)); cbn [snd charge]; lia.
Qed.

Lemma il_step_c_len x pos l l' : fst (il_step_c x pos l) = Ok l' -> len l' = len l.
Proof.
  rewrite fst_il_step_c. intros H. bind_inv H. destruct v as [r l1]. bind_inv H.
  apply remove_at_len in E. apply insert_at_len in E0. apply wrap_false_at_len in H. lia.
Qed.

Lemma il_step_c_eq x pos l l' : fst (il_step_c x pos l) = Ok l' ->
  snd (il_step_c x pos l) = 2 * len l + gcols x + 1.
Proof.
  rewrite fst_il_step_c. intros H. bind_inv H. destruct v as [r l1]. bind_inv H.
  unfold il_step_c. rewrite snd_bindc_charge, E, snd_bindc_charge, E0. cbn [snd charge].
  apply remove_at_len in E. lia.
Qed.

Lemma il_iter_le x pos n l :
  snd (iter_c n (il_step_c x pos) l) <= N.of_nat n * (2 * len l + gcols x + 1).
Proof.
  apply (iter_c_le (fun l0 => len l0 = len l)).
  - intros a Ha. rewrite <- Ha. apply il_step_c_le.
  - intros a a' Ha Ea. apply il_step_c_len in Ea. lia.
  - reflexivity.
Qed.

Lemma il_iter_eq x pos n l l' : fst (iter_c n (il_step_c x pos) l) = Ok l' ->
  snd (iter_c n (il_step_c x pos) l) = N.of_nat n * (2 * len l + gcols x + 1).
Proof.
  intros E. apply N.le_antisymm; [apply il_iter_le|].
  apply (iter_c_ge (fun l0 => len l0 = len l) _ _) with (b := l'); [| |reflexivity|exact E].
  - intros a a' Ha Ea. rewrite (il_step_c_eq _ _ _ _ Ea), Ha. lia.
  - intros a a' Ha Ea. apply il_step_c_len in Ea. lia.
Qed.

Lemma insert_lines_c_le x n : snd (insert_lines_c x n) <= n * (2 * len (live x) + gcols x + 1).
Proof.
  unfold insert_lines_c.
  replace (n * (2 * len (live x) + gcols x + 1)) with (n * (2 * len (live x) + gcols x + 1) + 0) by lia.
  apply snd_bindc_le; [|intros; cbn; lia].
  eapply N.le_trans; [apply il_iter_le|]. rewrite N2Nat.id. lia.
Qed.

Lemma scroll_down_c_le x n : snd (scroll_down_c x n) <= n * (2 * len (live x) + gcols x + 1).
Proof.
  unfold scroll_down_c.
  replace (n * (2 * len (live x) + gcols x + 1)) with (n * (2 * len (live x) + gcols x + 1) + 0) by lia.
  apply snd_bindc_le; [|intros; cbn; lia].
  eapply N.le_trans; [apply il_iter_le|]. rewrite N2Nat.id. lia.
Qed.

(* exact cost of IL / SD when they do not panic: linear in the parameter *)
Lemma insert_lines_c_eq x n y : fst (insert_lines_c x n) = Ok y ->
  snd (insert_lines_c x n) = n * (2 * len (live x) + gcols x + 1).
Proof.
  unfold insert_lines_c. rewrite fst_bindc. intros H.
  destruct (fst (iter_c (N.to_nat n) (il_step_c x (prow x)) (live x))) as [l'|] eqn:E; cbn [bind] in H; [|discriminate].
  rewrite (snd_bindc_ok _ _ _ E), (il_iter_eq _ _ _ _ _ E), N2Nat.id. cbn [snd free]. lia.
Qed.

Lemma scroll_down_c_eq x n y : fst (scroll_down_c x n) = Ok y ->
  snd (scroll_down_c x n) = n * (2 * len (live x) + gcols x + 1).
Proof.
  unfold scroll_down_c. rewrite fst_bindc. intros H.
  destruct (fst (iter_c (N.to_nat n) (il_step_c x (top x)) (live x))) as [l'|] eqn:E; cbn [bind] in H; [|discriminate].
  rewrite (snd_bindc_ok _ _ _ E), (il_iter_eq _ _ _ _ _ E), N2Nat.id. cbn [snd free]. lia.
Qed.

(* ---- DL ---- *)
Lemma dl_step_c_le x l : snd (dl_step_c x l) <= 2 * len l + gcols x + 2.
Proof.
  unfold dl_step_c. rewrite snd_bindc_charge.
  destruct (insert_at l (bot x + 1) (new_row x)) as [l1|] eqn:E1; [|lia].
  apply insert_at_len in E1. rewrite snd_bindc_charge.
  destruct (remove_at l1 (prow x)) as [[r l2]|]; cbn [snd free]; lia.
Qed.

Lemma dl_step_c_len x l l' : fst (dl_step_c x l) = Ok l' -> len l' = len l.
Proof.
  unfold dl_step_c. rewrite fst_bindc, fst_charge. intros H. bind_inv H.
  rewrite fst_bindc, fst_charge in H. bind_inv H. destruct v0 as [r l2]. cbn in H. inv H.
  apply insert_at_len in E. apply remove_at_len in E0. lia.
Qed.

Lemma delete_lines_c_le x n : grid_ok x ->
  snd (delete_lines_c x n) <= grows x * (2 * grows x + gcols x + 2).
Proof.
  intros Hok. unfold delete_lines_c. apply snd_bindc_free. intros room E. apply sub16_inv in E as [-> E].
  replace (grows x * (2 * grows x + gcols x + 2)) with (grows x * (2 * grows x + gcols x + 2) + 0) by lia.
  apply snd_bindc_le; [|intros; cbn; lia].
  eapply N.le_trans.
  - apply (iter_c_le (fun l0 => len l0 = grows x) _ (2 * grows x + gcols x + 2)).
    + intros a Ha. rewrite <- Ha. apply dl_step_c_le.
    + intros a a' Ha Ea. apply dl_step_c_len in Ea. lia.
    + apply gb_live, Hok.
  - rewrite N2Nat.id. apply N.mul_le_mono_r. lia.
Qed.

(* ---- SU ---- *)
Lemma su_step_c_le act y : snd (su_step_c act y) <= 2 * len (live y) + gcols y + 4.
Proof.
  unfold su_step_c. rewrite snd_bindc_charge.
  destruct (insert_at (live y) (bot y + 1) (new_row y)) as [l1|] eqn:E1; [|lia].
  apply insert_at_len in E1. rewrite snd_bindc_charge.
  destruct (remove_at l1 (top y)) as [[r l2]|]; [|lia]. cbv zeta.
  match goal with |- context[if ?c then _ else _] => destruct c end; cbn [snd charge free]; lia.
Qed.

Lemma su_step_c_inv act y y' : fst (su_step_c act y) = Ok y' ->
  len (live y') = len (live y) /\ gcols y' = gcols y.
Proof.
  unfold su_step_c. rewrite fst_bindc, fst_charge. intros H. bind_inv H.
  rewrite fst_bindc, fst_charge in H. bind_inv H. destruct v0 as [r l2]. cbv zeta beta iota in H.
  apply insert_at_len in E. apply remove_at_len in E0.
  match type of H with context[if ?c then _ else _] => destruct c end; cbn in H; inv H; cbn [live gcols with_sb with_live]; lia.
Qed.

Lemma scroll_up_c_le x n :
  snd (scroll_up_c x n) <= N.min n (grows x - top x) * (2 * len (live x) + gcols x + 4).
Proof.
  unfold scroll_up_c. apply snd_bindc_free. intros room E. apply sub16_inv in E as [-> E].
  apply snd_bindc_free. intros act _.
  eapply N.le_trans.
  - apply (iter_c_le (fun y => len (live y) = len (live x) /\ gcols y = gcols x) _
             (2 * len (live x) + gcols x + 4)).
    + intros a [Ha1 Ha2]. rewrite <- Ha1, <- Ha2. apply su_step_c_le.
    + intros a a' [Ha1 Ha2] Ea. apply su_step_c_inv in Ea. lia.
    + auto.
  - rewrite N2Nat.id. lia.
Qed.

(* ---- LF / RI / wrap ---- *)
Lemma row_inc_scroll_c_le x n : prow x <= 65535 ->
  snd (row_inc_scroll_c x n) <= n * (2 * len (live x) + gcols x + 4).
Proof.
  intros Hp. unfold row_inc_scroll_c. cbv zeta. apply snd_bindc_free. intros [g1 lines] E. cbv beta iota.
  destruct (in_scroll_region x) eqn:Hin; [|cbn; lia].
  unfold row_clamp_bottom in E. cbn [bind] in E.
  unfold in_scroll_region in Hin. apply andb_prop in Hin as [_ Hin]. apply N.leb_le in Hin.
  assert (Hl : lines <= n /\ live g1 = live x /\ gcols g1 = gcols x).
  { unfold sat_add16, U16MAX in E. cbn [prow with_prow with_pos bot] in E.
    destruct (N.ltb_spec (bot x) (N.min (prow x + n) 65535)); inv E; cbn [live gcols with_prow with_pos]; repeat split; lia. }
  destruct Hl as (Hl & El & Ec).
  replace (n * (2 * len (live x) + gcols x + 4)) with (n * (2 * len (live x) + gcols x + 4) + 0) by lia.
  apply snd_bindc_le; [|intros; cbn; lia].
  eapply N.le_trans; [apply scroll_up_c_le|]. rewrite El, Ec. apply N.mul_le_mono_r. lia.
Qed.

Lemma row_dec_scroll_c_le x n :
  snd (row_dec_scroll_c x n) <= n * (2 * len (live x) + gcols x + 1).
Proof.
  unfold row_dec_scroll_c. cbv zeta.
  destruct (row_clamp_top (with_prow x (sat_sub16 (prow x) n)) (in_scroll_region x)) as [g1 lines] eqn:E.
  apply snd_bindc_free. intros k Ek.
  unfold add16 in Ek. destruct (lines + (if prow x <? n then n - prow x else 0) <=? U16MAX); inv Ek.
  unfold row_clamp_top, sat_sub16 in E. cbn [prow top with_prow with_pos] in E.
  assert (Hl : lines + (if prow x <? n then n - prow x else 0) <= n /\ live g1 = live x /\ gcols g1 = gcols x).
  { destruct (in_scroll_region x) eqn:Hin; cbn [andb] in E.
    - unfold in_scroll_region in Hin. apply andb_prop in Hin as [Hin _]. apply N.leb_le in Hin.
      destruct (N.ltb_spec (prow x - n) (top x)); inv E; cbn [live gcols with_prow with_pos];
        destruct (N.ltb_spec (prow x) n); repeat split; lia.
    - inv E. cbn [live gcols with_prow with_pos]. destruct (N.ltb_spec (prow x) n); repeat split; try lia. }
  destruct Hl as (Hl & El & Ec).
  eapply N.le_trans; [apply scroll_down_c_le|]. rewrite El, Ec. apply N.mul_le_mono_r. exact Hl.
Qed.

Lemma col_wrap_c_le x w b : prow x <= 65535 ->
  snd (col_wrap_c x w b) <= 2 * len (live x) + gcols x + 5.
Proof.
  intros Hp. unfold col_wrap_c. apply snd_bindc_free. intros lim _.
  destruct (lim <? pcol x); [|cbn; lia]. cbv zeta.
  replace (2 * len (live x) + gcols x + 5) with (1 * (2 * len (live x) + gcols x + 4) + 1) by lia.
  apply snd_bindc_le; [apply (row_inc_scroll_c_le (with_pcol x 0) 1); exact Hp|].
  intros [g1 scrolled] _. cbv beta iota.
  destruct (scrolled <=? prow x); [|cbn; lia].
  apply snd_bindc_free. intros pr1 _. cbn. lia.
Qed.

Lemma grid_text_c_le x ch a : prow x <= 65535 ->
  snd (grid_text_c x ch a) <= 2 * len (live x) + gcols x + 13.
Proof.
  intros Hp. unfold grid_text_c. cbv zeta.
  assert (E : forall width,
    snd (if gcols x <? width then free (Ok x)
         else doc lim <- free (sub16 (gcols x) width);
              doc wrap <- free (if lim <? pcol x then
                    do lastc <- sub16 (gcols x) 1;
                    do lc <- unwrap (drawing_cell x (prow x) lastc);
                    Ok (has_contents lc || ccont lc)
                  else Ok false);
              doc x1 <- col_wrap_c x width wrap;
              if width =? 0 then charge 2 (text_zero x1 ch) else charge 8 (text_place x1 ch width a))
    <= 2 * len (live x) + gcols x + 13).
  { intros width. destruct (gcols x <? width); [cbn; lia|].
    apply snd_bindc_free. intros lim _. apply snd_bindc_free. intros wrap _.
    replace (2 * len (live x) + gcols x + 13) with (2 * len (live x) + gcols x + 5 + 8) by lia.
    apply snd_bindc_le; [now apply col_wrap_c_le|]. intros x1 _.
    destruct (width =? 0); cbn; lia. }
  destruct (wd ch) as [n|]; [apply E|]. destruct (ch <? 256); [cbn; lia|apply E].
Qed.

(* ---- clearing / allocating a grid that may not be allocated yet ---- *)
Lemma grid_clear_c_le x : grid_ok0 x ->
  snd (grid_clear_c x) <= (if len (live x) =? 0 then 0 else grows x * gcols x).
Proof.
  intros [Hs [Hl|Hok]]; unfold grid_clear_c; apply snd_bindc_free; intros b _; cbv zeta; cbn [snd charge].
  - rewrite Hl. cbn. lia.
  - rewrite (rows_clear_cost dflt _ _ (gb_rows x Hok)), (gb_live x Hok).
    destruct (N.eqb_spec (grows x) 0) as [E|E]; [rewrite E|]; lia.
Qed.

Lemma allocate_rows_c_le x :
  snd (allocate_rows_c x) <= (if len (live x) =? 0 then grows x * gcols x else 0).
Proof.
  unfold allocate_rows_c. destruct (live x) as [|r l]; cbn [snd charge free].
  - destruct (N.eqb_spec (len (@nil row)) 0) as [E|E]; [lia|exfalso; apply E; reflexivity].
  - rewrite len_cons. destruct (N.eqb_spec (len l + 1) 0); lia.
Qed.

Lemma grid_clear_len x y : grid_clear x = Ok y ->
  len (live y) = len (live x) /\ grows y = grows x /\ gcols y = gcols x.
Proof.
  unfold grid_clear. intros H. bind_inv H. inv H. cbn [live grows gcols]. rewrite len_map. auto.
Qed.
