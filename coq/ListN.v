(* ListN.v — lemmas about the N-indexed list operations of Base.v. *)
Require Import Tac.
Open Scope N_scope.

Lemma nth_error_firstn' {A} (l : list A) n i : (i < n)%nat -> nth_error (firstn n l) i = nth_error l i.
Proof. revert l i; induction n as [|n IH]; intros [|h t] [|i] H; cbn; try lia; auto. apply IH; lia. Qed.
Lemma nth_error_skipn' {A} (l : list A) n i : nth_error (skipn n l) i = nth_error l (n + i)%nat.
Proof. revert l; induction n as [|n IH]; intros [|h t]; cbn; auto. now destruct i. Qed.

Lemma len_nil {A} : len (@nil A) = 0. Proof. reflexivity. Qed.
Lemma len_cons {A} (a : A) l : len (a :: l) = len l + 1.
Proof. unfold len; cbn [length]; lia. Qed.
Lemma len_app {A} (a b : list A) : len (a ++ b) = len a + len b.
Proof. unfold len; rewrite app_length; lia. Qed.
Lemma len_map {A B} (f : A -> B) l : len (map f l) = len l.
Proof. unfold len; now rewrite map_length. Qed.
Lemma len_repeatN {A} (a : A) n : len (repeatN a n) = n.
Proof. unfold len, repeatN; rewrite repeat_length; lia. Qed.
Lemma len_firstnN {A} n (l : list A) : len (firstnN n l) = N.min n (len l).
Proof. unfold len, firstnN; rewrite firstn_length; lia. Qed.
Lemma len_skipnN {A} n (l : list A) : len (skipnN n l) = len l - n.
Proof. unfold len, skipnN; rewrite skipn_length; lia. Qed.

Lemma get_some_lt {A} (l : list A) i a : get l i = Some a -> i < len l.
Proof. unfold get, len; intros H; apply nth_error_Some_lt in H || (assert (nth_error l (N.to_nat i) <> None) by congruence; apply nth_error_Some in H0; lia). Qed.

Lemma get_lt_some {A} (l : list A) i : i < len l -> exists a, get l i = Some a.
Proof.
  unfold get, len; intros H. destruct (nth_error l (N.to_nat i)) eqn:E; eauto.
  apply nth_error_None in E; lia.
Qed.

Lemma get_none_ge {A} (l : list A) i : get l i = None <-> len l <= i.
Proof. unfold get, len; rewrite nth_error_None; lia. Qed.

Lemma set_nat_length {A} (l : list A) i a : length (set_nat l i a) = length l.
Proof. revert i; induction l as [|h t IH]; intros [|i]; cbn; auto. Qed.
Lemma len_set_at {A} (l : list A) i a : len (set_at l i a) = len l.
Proof. unfold len, set_at; now rewrite set_nat_length. Qed.

Lemma nth_set_nat_eq {A} (l : list A) i a : (i < length l)%nat -> nth_error (set_nat l i a) i = Some a.
Proof. revert i; induction l as [|h t IH]; intros [|i]; cbn; intros; try lia; auto. apply IH; lia. Qed.
Lemma nth_set_nat_neq {A} (l : list A) i j a : i <> j -> nth_error (set_nat l i a) j = nth_error l j.
Proof. revert i j; induction l as [|h t IH]; intros [|i] [|j]; cbn; intros; try congruence; auto. Qed.

Lemma get_set_at {A} (l : list A) i j a :
  get (set_at l i a) j = if j =? i then (if i <? len l then Some a else None) else get l j.
Proof.
  unfold get, set_at, len. destruct (N.eqb_spec j i) as [->|Hn].
  - destruct (N.ltb_spec i (N.of_nat (length l))).
    + apply nth_set_nat_eq; lia.
    + apply nth_error_None. rewrite set_nat_length. lia.
  - apply nth_set_nat_neq. lia.
Qed.

Lemma get_map {A B} (f : A -> B) l i : get (map f l) i = option_map f (get l i).
Proof. unfold get. apply nth_error_map. Qed.

Lemma get_repeatN {A} (a : A) n i : get (repeatN a n) i = if i <? n then Some a else None.
Proof.
  unfold get, repeatN. destruct (N.ltb_spec i n).
  - apply nth_error_repeat; lia.
  - apply nth_error_None. rewrite repeat_length. lia.
Qed.

Lemma get_app {A} (a b : list A) i :
  get (a ++ b) i = if i <? len a then get a i else get b (i - len a).
Proof.
  unfold get, len. destruct (N.ltb_spec i (N.of_nat (length a))).
  - apply nth_error_app1; lia.
  - rewrite nth_error_app2 by lia. f_equal. lia.
Qed.

Lemma get_firstnN {A} n (l : list A) i : get (firstnN n l) i = if i <? n then get l i else None.
Proof.
  unfold get, firstnN. destruct (N.ltb_spec i n).
  - apply nth_error_firstn'; lia.
  - apply nth_error_None. rewrite firstn_length. lia.
Qed.

Lemma get_skipnN {A} n (l : list A) i : get (skipnN n l) i = get l (n + i).
Proof.
  unfold get, skipnN. rewrite nth_error_skipn'. f_equal. lia.
Qed.

Lemma get_cons {A} (a : A) l i : get (a :: l) i = if i =? 0 then Some a else get l (i - 1).
Proof.
  unfold get. destruct (N.eqb_spec i 0) as [->|H]; [reflexivity|].
  replace (N.to_nat i) with (S (N.to_nat (i - 1))) by lia. reflexivity.
Qed.

(* insert_at / remove_at *)
Lemma insert_at_ok {A} (l : list A) i a : i <= len l ->
  insert_at l i a = Ok (firstnN i l ++ a :: skipnN i l).
Proof. unfold insert_at. intros H. destruct (N.leb_spec i (len l)); [reflexivity|lia]. Qed.

Lemma remove_at_ok {A} (l : list A) i x : get l i = Some x ->
  remove_at l i = Ok (x, firstnN i l ++ skipnN (i + 1) l).
Proof.
  unfold remove_at. intros ->. unfold firstnN, skipnN. repeat f_equal. lia.
Qed.

Lemma get_insert {A} (l : list A) i a j : i <= len l ->
  get (firstnN i l ++ a :: skipnN i l) j =
  if j <? i then get l j else if j =? i then Some a else get l (j - 1).
Proof.
  intros H. rewrite get_app, len_firstnN. replace (N.min i (len l)) with i by lia.
  destruct (N.ltb_spec j i).
  - rewrite get_firstnN. destruct (N.ltb_spec j i); [reflexivity|lia].
  - rewrite get_cons. destruct (N.eqb_spec (j - i) 0), (N.eqb_spec j i); try lia; try reflexivity.
    rewrite get_skipnN. f_equal. lia.
Qed.

Lemma get_remove {A} (l : list A) i j : i < len l ->
  get (firstnN i l ++ skipnN (i + 1) l) j = if j <? i then get l j else get l (j + 1).
Proof.
  intros H. rewrite get_app, len_firstnN. replace (N.min i (len l)) with i by lia.
  destruct (N.ltb_spec j i).
  - rewrite get_firstnN. destruct (N.ltb_spec j i); [reflexivity|lia].
  - rewrite get_skipnN. f_equal. lia.
Qed.

Lemma len_insert {A} (l : list A) i a : i <= len l -> len (firstnN i l ++ a :: skipnN i l) = len l + 1.
Proof. intros. rewrite len_app, len_cons, len_firstnN, len_skipnN. lia. Qed.
Lemma len_remove {A} (l : list A) i : i < len l -> len (firstnN i l ++ skipnN (i + 1) l) = len l - 1.
Proof. intros. rewrite len_app, len_firstnN, len_skipnN. lia. Qed.

Lemma len_resize_list {A} (l : list A) n a : len (resize_list l n a) = n.
Proof.
  unfold resize_list. destruct (N.leb_spec n (len l)).
  - unfold len at 1. rewrite firstn_length. unfold len in *. lia.
  - rewrite len_app, len_repeatN. lia.
Qed.

Lemma get_resize_list {A} (l : list A) n a i :
  get (resize_list l n a) i = if i <? n then (if i <? len l then get l i else Some a) else None.
Proof.
  unfold resize_list. destruct (N.leb_spec n (len l)).
  - fold (firstnN n l). rewrite get_firstnN. destruct (N.ltb_spec i n); [|reflexivity].
    destruct (N.ltb_spec i (len l)); [reflexivity|lia].
  - rewrite get_app. destruct (N.ltb_spec i (len l)).
    + destruct (N.ltb_spec i n); [reflexivity|lia].
    + rewrite get_repeatN. destruct (N.ltb_spec (i - len l) (n - len l)), (N.ltb_spec i n); try lia; reflexivity.
Qed.

Lemma idx_ok {A} (l : list A) i a : get l i = Some a -> idx l i = Ok a.
Proof. unfold idx. now intros ->. Qed.


Lemma nth_error_ext' {A} (a b : list A) : (forall n, nth_error a n = nth_error b n) -> a = b.
Proof.
  revert b; induction a as [|x a IH]; intros [|y b] H.
  - reflexivity.
  - specialize (H 0%nat); discriminate.
  - specialize (H 0%nat); discriminate.
  - pose proof (H 0%nat) as H0; cbn in H0; inv H0. f_equal. apply IH. intros n. exact (H (S n)).
Qed.

Lemma list_ext_get {A} (a b : list A) : (forall i, get a i = get b i) -> a = b.
Proof.
  intros H. apply nth_error_ext'. intros n. specialize (H (N.of_nat n)). unfold get in H.
  now rewrite Nat2N.id in H.
Qed.

Lemma remove_set_at {A} (l : list A) i x :
  firstnN i (set_at l i x) ++ skipnN (i + 1) (set_at l i x) = firstnN i l ++ skipnN (i + 1) l.
Proof.
  apply list_ext_get. intros k.
  rewrite !get_app, !len_firstnN, !len_set_at, !get_firstnN, !get_skipnN, !get_set_at.
  repeat match goal with
  | |- context[N.eqb ?a ?b] => destruct (N.eqb_spec a b); try lia
  | |- context[N.ltb ?a ?b] => destruct (N.ltb_spec a b); try lia
  end; reflexivity.
Qed.

(* Forall under the list operations *)
Lemma Forall_get {A} (P : A -> Prop) l i a : Forall P l -> get l i = Some a -> P a.
Proof. intros H G. rewrite Forall_forall in H. apply H. eapply nth_error_In; exact G. Qed.

Lemma Forall_set_nat {A} (P : A -> Prop) l i a : Forall P l -> P a -> Forall P (set_nat l i a).
Proof.
  intros H Pa. revert i; induction H as [|h t Ph Pt IH]; intros [|i]; cbn; constructor; auto.
Qed.
Lemma Forall_set_at {A} (P : A -> Prop) l i a : Forall P l -> P a -> Forall P (set_at l i a).
Proof. intros; now apply Forall_set_nat. Qed.

Lemma Forall_firstnN {A} (P : A -> Prop) n l : Forall P l -> Forall P (firstnN n l).
Proof.
  unfold firstnN. intros H. rewrite Forall_forall in *. intros x Hx. apply H.
  rewrite <- (firstn_skipn (N.to_nat n) l). apply in_or_app; now left.
Qed.
Lemma Forall_skipnN {A} (P : A -> Prop) n l : Forall P l -> Forall P (skipnN n l).
Proof.
  unfold skipnN. intros H. rewrite Forall_forall in *. intros x Hx. apply H.
  rewrite <- (firstn_skipn (N.to_nat n) l). apply in_or_app; now right.
Qed.
Lemma Forall_repeatN {A} (P : A -> Prop) a n : P a -> Forall P (repeatN a n).
Proof. intros H. unfold repeatN. apply Forall_forall. intros x Hx. apply repeat_spec in Hx. now subst. Qed.
Lemma Forall_insert {A} (P : A -> Prop) l i a : Forall P l -> P a -> Forall P (firstnN i l ++ a :: skipnN i l).
Proof. intros H Pa. apply Forall_app; split; [now apply Forall_firstnN|]. constructor; [exact Pa|now apply Forall_skipnN]. Qed.
Lemma Forall_remove {A} (P : A -> Prop) l i : Forall P l -> Forall P (firstnN i l ++ skipnN (i + 1) l).
Proof. intros H. apply Forall_app; split; [now apply Forall_firstnN|now apply Forall_skipnN]. Qed.
Lemma Forall_resize_list {A} (P : A -> Prop) l n a : Forall P l -> P a -> Forall P (resize_list l n a).
Proof.
  intros H Pa. unfold resize_list. destruct (n <=? len l).
  - now apply (Forall_firstnN P n l).
  - apply Forall_app; split; [exact H|now apply Forall_repeatN].
Qed.
Lemma Forall_map' {A B} (P : B -> Prop) (f : A -> B) l : (forall a, In a l -> P (f a)) -> Forall P (map f l).
Proof. intros H. apply Forall_forall. intros x Hx. apply in_map_iff in Hx as (a & <- & Ha). auto. Qed.

Lemma iter_res_ok {A} (P : A -> Prop) (f : A -> res A) n a :
  P a -> (forall x, P x -> exists y, f x = Ok y /\ P y) -> exists b, iter_res n f a = Ok b /\ P b.
Proof.
  intros Pa Hf. revert a Pa. induction n as [|n IH]; intros a Pa; cbn [iter_res].
  - eauto.
  - destruct (Hf a Pa) as (y & -> & Py). cbn [bind]. auto.
Qed.

(* iteration with a measure-like index: invariant may depend on the step number *)
Lemma iter_res_ok_idx {A} (P : nat -> A -> Prop) (f : A -> res A) n a :
  P O a -> (forall k x, (k < n)%nat -> P k x -> exists y, f x = Ok y /\ P (S k) y) ->
  exists b, iter_res n f a = Ok b /\ P n b.
Proof.
  intros Pa Hf.
  assert (forall m k a, (k + m = n)%nat -> P k a -> exists b, iter_res m f a = Ok b /\ P n b) as G.
  { induction m as [|m IH]; intros k x Hk Px; cbn [iter_res].
    - replace n with k by lia. eauto.
    - destruct (Hf k x) as (y & -> & Py); [lia|exact Px|]. cbn [bind]. apply (IH (S k)); [lia|exact Py]. }
  apply (G n O a); [lia|exact Pa].
Qed.

Lemma for_range_ok {A} (P : A -> Prop) (f : N -> A -> res A) n lo a :
  P a -> (forall i x, lo <= i < lo + N.of_nat n -> P x -> exists y, f i x = Ok y /\ P y) ->
  exists b, for_range n lo f a = Ok b /\ P b.
Proof.
  revert lo a. induction n as [|n IH]; intros lo a Pa Hf; cbn [for_range].
  - eauto.
  - destruct (Hf lo a) as (y & -> & Py); [lia|exact Pa|]. cbn [bind].
    apply IH; [exact Py|]. intros i x Hi Px. apply Hf; [lia|exact Px].
Qed.

Lemma iter_res_inv {A} (P : A -> Prop) (f : A -> res A) n a b :
  iter_res n f a = Ok b -> P a -> (forall x y, f x = Ok y -> P x -> P y) -> P b.
Proof.
  revert a. induction n as [|n IH]; intros a E Pa Hf; cbn [iter_res] in E.
  - now inv E.
  - bind_inv E. eapply IH; eauto.
Qed.
