(* WfGrid.v — cell well-formedness ([cell_wf], CellWf.v) is preserved by every
   operation of Row.v and Grid.v, and by the text path of Screen.v.
   Partial-correctness statements: whenever the operation returns [Ok]. *)
Require Import Tac ListN Utf8 Width Attrs Cell Row Grid Screen RowInv GridInv CellWf.
Open Scope N_scope.

(* invert (do x <- r; k) = Ok v, naming the intermediate value and equation *)
Tactic Notation "binv" hyp(H) "as" ident(a) ident(H1) :=
  apply bind_ok in H; destruct H as (a & H1 & H).

(* ------------------------------------------------------------------ *)
(* inversion of the checked list operations *)

Lemma idx_inv {A} (l : list A) i a : idx l i = Ok a -> get l i = Some a.
Proof. unfold idx. destruct (get l i); intros E; inv E. reflexivity. Qed.

Lemma unwrap_inv {A} (o : option A) a : unwrap o = Ok a -> o = Some a.
Proof. destruct o; intros E; inv E. reflexivity. Qed.

Lemma insert_at_inv {A} (l : list A) i a l' :
  insert_at l i a = Ok l' -> i <= len l /\ l' = firstnN i l ++ a :: skipnN i l.
Proof.
  unfold insert_at. destruct (N.leb_spec i (len l)) as [L|L]; intros E; inv E. split; [exact L|reflexivity].
Qed.

Lemma remove_at_inv {A} (l : list A) i a l' :
  remove_at l i = Ok (a, l') -> get l i = Some a /\ l' = firstnN i l ++ skipnN (i + 1) l.
Proof.
  intros E. destruct (get l i) as [x|] eqn:G.
  - rewrite (remove_at_ok _ _ _ G) in E. inv E. split; reflexivity.
  - unfold remove_at in E. rewrite G in E. discriminate.
Qed.

Lemma for_range_inv {A} (P : A -> Prop) (f : N -> A -> res A) n : forall lo a b,
  for_range n lo f a = Ok b -> P a -> (forall i x y, f i x = Ok y -> P x -> P y) -> P b.
Proof.
  induction n as [|n IH]; intros lo a b E Pa Hf; cbn [for_range] in E.
  - now inv E.
  - binv E as a' Ea. eapply IH; eauto.
Qed.

(* Forall over the list operations, in the "inverted" form *)
Lemma Forall_insert_at {A} (P : A -> Prop) l i a l' :
  insert_at l i a = Ok l' -> Forall P l -> P a -> Forall P l'.
Proof. intros E H Pa. apply insert_at_inv in E as [_ ->]. now apply Forall_insert. Qed.

Lemma Forall_remove_at {A} (P : A -> Prop) l i a l' :
  remove_at l i = Ok (a, l') -> Forall P l -> P a /\ Forall P l'.
Proof.
  intros E H. apply remove_at_inv in E as [G ->]. split; [eapply Forall_get; eauto|now apply Forall_remove].
Qed.

Lemma Forall_firstn' {A} (P : A -> Prop) n l : Forall P l -> Forall P (firstn n l).
Proof. intros H. rewrite <- (Nat2N.id n). now apply (Forall_firstnN P (N.of_nat n) l). Qed.
Lemma Forall_skipn' {A} (P : A -> Prop) n l : Forall P l -> Forall P (skipn n l).
Proof. intros H. rewrite <- (Nat2N.id n). now apply (Forall_skipnN P (N.of_nat n) l). Qed.

(* ------------------------------------------------------------------ *)
(* rows *)

Lemma row_wf_get r i c : row_wf r -> get (cells r) i = Some c -> cell_wf c.
Proof. intros H G. eapply Forall_get; eauto. Qed.

Lemma row_new_wf cols : row_wf (row_new cols).
Proof. unfold row_wf, row_new; cbn [cells]. apply Forall_repeatN, cell_new_wf. Qed.

Lemma row_clear_wf a r : row_wf (row_clear a r).
Proof. unfold row_wf, row_clear; cbn [cells]. apply Forall_map'. intros c _. apply cell_clear_wf. Qed.

Lemma row_wrap_wf b r : row_wf r -> row_wf (row_wrap b r).
Proof. intros H; exact H. Qed.

Lemma row_set_cell_wf r i c : row_wf r -> cell_wf c -> row_wf (row_set_cell r i c).
Proof. intros H Hc. unfold row_wf, row_set_cell; cbn [cells]. now apply Forall_set_at. Qed.

Lemma row_upd_wf r i f r' : row_upd r i f = Ok r' -> row_wf r ->
  (forall c, get (cells r) i = Some c -> cell_wf c -> cell_wf (f c)) -> row_wf r'.
Proof.
  unfold row_upd, row_get. intros E H Hf. binv E as c Ec. apply unwrap_inv in Ec. inv E.
  apply row_set_cell_wf; [exact H|]. apply Hf; [exact Ec|]. eapply row_wf_get; eauto.
Qed.

Lemma clear_wide_wf r i r' : clear_wide r i = Ok r' -> row_wf r -> row_wf r'.
Proof.
  unfold clear_wide. intros E H. binv E as c Ec.
  destruct (cwide c).
  - binv E as j Ej. binv E as o Eo. inv E. apply row_set_cell_wf; [exact H|apply clear_own_wf].
  - destruct (ccont c).
    + binv E as j Ej. binv E as o Eo. inv E. apply row_set_cell_wf; [exact H|apply clear_own_wf].
    + now inv E.
Qed.

Lemma row_insert_wf r i c r' : row_insert r i c = Ok r' -> row_wf r -> cell_wf c -> row_wf r'.
Proof.
  unfold row_insert. intros E H Hc. binv E as cs Ecs. inv E. unfold row_wf; cbn [cells].
  eapply Forall_insert_at; eauto.
Qed.

Lemma row_remove_wf r i r' : row_remove r i = Ok r' -> row_wf r -> row_wf r'.
Proof.
  unfold row_remove. intros E H. binv E as r1 E1. apply clear_wide_wf in E1; [|exact H].
  binv E as p Ep. destruct p as [x cs]. inv E. unfold row_wf; cbn [cells].
  eapply Forall_remove_at in Ep; [|exact E1]. apply Ep.
Qed.

Lemma row_erase_wf r i a r' : row_erase r i a = Ok r' -> row_wf r -> row_wf r'.
Proof.
  unfold row_erase. intros E H. binv E as c Ec. binv E as r1 E1. apply clear_wide_wf in E1; [|exact H].
  binv E as c1 Ec1. binv E as lim Elim. inv E.
  assert (row_wf (row_set_cell r1 i (cell_clear a c1))) as W.
  { apply row_set_cell_wf; [exact E1|apply cell_clear_wf]. }
  destruct (i =? lim); [apply row_wrap_wf|]; exact W.
Qed.

Lemma row_truncate_wf r n r' : row_truncate r n = Ok r' -> row_wf r -> row_wf r'.
Proof.
  unfold row_truncate. intros E H. binv E as j Ej. binv E as last Elast. inv E. unfold row_wf; cbn [cells].
  assert (Forall cell_wf (firstnN n (cells r))) as W by (now apply Forall_firstnN).
  destruct (cwide last); [|exact W]. apply Forall_set_at; [exact W|apply clear_own_wf].
Qed.

Lemma row_resize_wf r n c : row_wf r -> cell_wf c -> row_wf (row_resize r n c).
Proof.
  intros H Hc. unfold row_resize, row_wf; cbn [cells].
  assert (Forall cell_wf (resize_list (cells r) n c)) as W by (now apply Forall_resize_list).
  destruct (len (resize_list (cells r) n c)); [exact W|].
  destruct (get _ _) as [last|]; [|exact W].
  destruct (cwide last); [|exact W]. apply Forall_set_at; [exact W|apply clear_own_wf].
Qed.

Lemma ins_step_wf wide p r r' : ins_step wide p r = Ok r' -> row_wf r -> row_wf r'.
Proof.
  unfold ins_step. intros E H. binv E as r1 E1. binv E as r2 E2.
  assert (row_wf r1) as W1.
  { destruct wide; [|now inv E1]. eapply row_upd_wf; eauto. intros c _ Hc. now apply set_cont_false_wf. }
  assert (row_wf r2) as W2 by (eapply row_insert_wf; eauto; apply cell_new_wf).
  destruct wide; [|now inv E].
  eapply row_upd_wf; eauto. intros c G _.
  unfold row_insert in E2. binv E2 as cs Ecs. inv E2. cbn [cells] in G.
  apply insert_at_inv in Ecs as [L ->]. rewrite get_insert in G by exact L.
  destruct (N.ltb_spec p p); [lia|]. destruct (N.eqb_spec p p); [|lia]. inv G. apply cont_of_new_wf.
Qed.

(* ------------------------------------------------------------------ *)
(* grids: operations that leave the cells alone *)

Definition same_cells (x y : grid) : Prop := live y = live x /\ sb y = sb x.

Lemma same_cells_refl x : same_cells x x. Proof. split; reflexivity. Qed.
Lemma same_cells_trans x y z : same_cells x y -> same_cells y z -> same_cells x z.
Proof. intros [a b] [c d]. split; congruence. Qed.

Lemma same_cells_wf x y : same_cells x y -> grid_wf x -> grid_wf y.
Proof. intros [E1 E2] [H1 H2]. unfold grid_wf. rewrite E1, E2. split; assumption. Qed.

Lemma with_pos_cells x r c : same_cells x (with_pos x r c). Proof. split; reflexivity. Qed.
Lemma with_region_cells x t b : same_cells x (with_region x t b). Proof. split; reflexivity. Qed.
Lemma with_origin_cells x o : same_cells x (with_origin x o). Proof. split; reflexivity. Qed.
Lemma with_saved_cells x r c o : same_cells x (with_saved x r c o). Proof. split; reflexivity. Qed.

Lemma row_clamp_top_cells x lim : same_cells x (fst (row_clamp_top x lim)).
Proof. unfold row_clamp_top. destruct (lim && (prow x <? top x)); cbn [fst]; [apply with_pos_cells|apply same_cells_refl]. Qed.

Lemma row_clamp_bottom_cells x lim y k : row_clamp_bottom x lim = Ok (y, k) -> same_cells x y.
Proof.
  unfold row_clamp_bottom. intros E. binv E as m Em.
  destruct (m <? prow x); inv E; [apply with_pos_cells|apply same_cells_refl].
Qed.

Lemma row_clamp_cells x y : row_clamp x = Ok y -> same_cells x y.
Proof.
  unfold row_clamp. intros E. binv E as m Em. destruct (m <? prow x); inv E; [apply with_pos_cells|apply same_cells_refl].
Qed.

Lemma col_clamp_cells x y : col_clamp x = Ok y -> same_cells x y.
Proof.
  unfold col_clamp. intros E. binv E as m Em. destruct (m <? pcol x); inv E; [apply with_pos_cells|apply same_cells_refl].
Qed.

Lemma grid_set_pos_cells x r c y : grid_set_pos x r c = Ok y -> same_cells x y.
Proof.
  unfold grid_set_pos. intros E.
  set (g1 := with_pos x (if origin x then sat_add16 r (top x) else r) c) in *.
  pose proof (row_clamp_top_cells g1 (origin g1)) as C2.
  destruct (row_clamp_top g1 (origin g1)) as [g2 k2]. cbn [fst] in C2.
  binv E as p3 E3. destruct p3 as [g3 k3]. apply row_clamp_bottom_cells in E3. apply col_clamp_cells in E.
  eapply same_cells_trans; [apply with_pos_cells|]. fold g1.
  eapply same_cells_trans; [exact C2|]. eapply same_cells_trans; eauto.
Qed.

Lemma save_cursor_cells x : same_cells x (save_cursor x). Proof. split; reflexivity. Qed.
Lemma restore_cursor_cells x : same_cells x (restore_cursor x). Proof. split; reflexivity. Qed.

Lemma set_scroll_region_cells x t b y : set_scroll_region x t b = Ok y -> same_cells x y.
Proof.
  unfold set_scroll_region. intros E. binv E as m Em. inv E. destruct (t <? N.min b m); split; reflexivity.
Qed.

Lemma set_origin_mode_cells x m y : set_origin_mode x m = Ok y -> same_cells x y.
Proof.
  unfold set_origin_mode. intros E. apply grid_set_pos_cells in E.
  eapply same_cells_trans; [apply with_origin_cells|exact E].
Qed.

Lemma row_inc_clamp_cells x n y : row_inc_clamp x n = Ok y -> same_cells x y.
Proof.
  unfold row_inc_clamp. intros E. binv E as p1 E1. destruct p1 as [g1 k]. inv E.
  apply row_clamp_bottom_cells in E1. eapply same_cells_trans; [apply with_pos_cells|exact E1].
Qed.

Lemma row_dec_clamp_cells x n : same_cells x (row_dec_clamp x n).
Proof.
  unfold row_dec_clamp. eapply same_cells_trans; [apply with_pos_cells|apply row_clamp_top_cells].
Qed.

Lemma row_set_cells x i y : row_set x i = Ok y -> same_cells x y.
Proof. unfold row_set. intros E. apply row_clamp_cells in E. eapply same_cells_trans; [apply with_pos_cells|exact E]. Qed.

Lemma col_inc_cells x n : same_cells x (col_inc x n). Proof. split; reflexivity. Qed.
Lemma col_dec_cells x n : same_cells x (col_dec x n). Proof. split; reflexivity. Qed.
Lemma col_inc_clamp_cells x n y : col_inc_clamp x n = Ok y -> same_cells x y.
Proof. unfold col_inc_clamp. intros E. apply col_clamp_cells in E. eapply same_cells_trans; [apply col_inc_cells|exact E]. Qed.
Lemma col_tab_cells x y : col_tab x = Ok y -> same_cells x y.
Proof. unfold col_tab. intros E. binv E as c Ec. apply col_clamp_cells in E. eapply same_cells_trans; [apply with_pos_cells|exact E]. Qed.
Lemma col_set_cells x i y : col_set x i = Ok y -> same_cells x y.
Proof. unfold col_set. intros E. apply col_clamp_cells in E. eapply same_cells_trans; [apply with_pos_cells|exact E]. Qed.

Lemma grid_set_scrollback_cells x k : same_cells x (grid_set_scrollback x k). Proof. split; reflexivity. Qed.

(* the same facts in the [grid_wf] form *)
Lemma grid_set_pos_wf x r c y : grid_set_pos x r c = Ok y -> grid_wf x -> grid_wf y.
Proof. intros E. apply same_cells_wf. eapply grid_set_pos_cells; eauto. Qed.
Lemma save_cursor_wf x : grid_wf x -> grid_wf (save_cursor x).
Proof. apply same_cells_wf, save_cursor_cells. Qed.
Lemma restore_cursor_wf x : grid_wf x -> grid_wf (restore_cursor x).
Proof. apply same_cells_wf, restore_cursor_cells. Qed.
Lemma set_scroll_region_wf x t b y : set_scroll_region x t b = Ok y -> grid_wf x -> grid_wf y.
Proof. intros E. apply same_cells_wf. eapply set_scroll_region_cells; eauto. Qed.
Lemma set_origin_mode_wf x m y : set_origin_mode x m = Ok y -> grid_wf x -> grid_wf y.
Proof. intros E. apply same_cells_wf. eapply set_origin_mode_cells; eauto. Qed.
Lemma row_inc_clamp_wf x n y : row_inc_clamp x n = Ok y -> grid_wf x -> grid_wf y.
Proof. intros E. apply same_cells_wf. eapply row_inc_clamp_cells; eauto. Qed.
Lemma row_dec_clamp_wf x n : grid_wf x -> grid_wf (row_dec_clamp x n).
Proof. apply same_cells_wf, row_dec_clamp_cells. Qed.
Lemma row_set_wf x i y : row_set x i = Ok y -> grid_wf x -> grid_wf y.
Proof. intros E. apply same_cells_wf. eapply row_set_cells; eauto. Qed.
Lemma col_inc_wf x n : grid_wf x -> grid_wf (col_inc x n).
Proof. apply same_cells_wf, col_inc_cells. Qed.
Lemma col_dec_wf x n : grid_wf x -> grid_wf (col_dec x n).
Proof. apply same_cells_wf, col_dec_cells. Qed.
Lemma col_inc_clamp_wf x n y : col_inc_clamp x n = Ok y -> grid_wf x -> grid_wf y.
Proof. intros E. apply same_cells_wf. eapply col_inc_clamp_cells; eauto. Qed.
Lemma col_tab_wf x y : col_tab x = Ok y -> grid_wf x -> grid_wf y.
Proof. intros E. apply same_cells_wf. eapply col_tab_cells; eauto. Qed.
Lemma col_set_wf x i y : col_set x i = Ok y -> grid_wf x -> grid_wf y.
Proof. intros E. apply same_cells_wf. eapply col_set_cells; eauto. Qed.
Lemma grid_set_scrollback_wf x k : grid_wf x -> grid_wf (grid_set_scrollback x k).
Proof. apply same_cells_wf, grid_set_scrollback_cells. Qed.
Lemma row_clamp_wf x y : row_clamp x = Ok y -> grid_wf x -> grid_wf y.
Proof. intros E. apply same_cells_wf. eapply row_clamp_cells; eauto. Qed.
Lemma col_clamp_wf x y : col_clamp x = Ok y -> grid_wf x -> grid_wf y.
Proof. intros E. apply same_cells_wf. eapply col_clamp_cells; eauto. Qed.

(* ------------------------------------------------------------------ *)
(* grids: operations on the rows *)

Lemma grid_wf_with_live x l : grid_wf x -> Forall row_wf l -> grid_wf (with_live x l).
Proof. intros [_ H2] Hl. split; cbn [with_live live sb]; assumption. Qed.

Lemma grid_wf_live x : grid_wf x -> Forall row_wf (live x).
Proof. intros [H _]; exact H. Qed.

Lemma grid_new_wf rows cols cap x : grid_new rows cols cap = Ok x -> grid_wf x.
Proof. unfold grid_new. intros E. binv E as b Eb. inv E. split; constructor. Qed.

Lemma allocate_rows_wf x : grid_wf x -> grid_wf (allocate_rows x).
Proof.
  intros H. unfold allocate_rows. destruct (live x); [|exact H].
  apply grid_wf_with_live; [exact H|]. apply Forall_repeatN, row_new_wf.
Qed.

Lemma grid_clear_wf x y : grid_clear x = Ok y -> grid_wf x -> grid_wf y.
Proof.
  unfold grid_clear. intros E [H1 H2]. binv E as b Eb. inv E. split; cbn [live sb]; [|exact H2].
  apply Forall_map'. intros r _. apply row_clear_wf.
Qed.

Lemma upd_row_wf x r f y : upd_row x r f = Ok y -> grid_wf x ->
  (forall rw rw', get (live x) r = Some rw -> f rw = Ok rw' -> row_wf rw -> row_wf rw') -> grid_wf y.
Proof.
  unfold upd_row, drawing_row. intros E H Hf. binv E as rw Erw. apply unwrap_inv in Erw. binv E as rw' Erw'. inv E.
  apply grid_wf_with_live; [exact H|]. apply Forall_set_at; [apply (grid_wf_live _ H)|].
  eapply Hf; eauto. eapply Forall_get; [apply (grid_wf_live _ H)|exact Erw].
Qed.

Lemma upd_cell_wf x r c f y : upd_cell x r c f = Ok y -> grid_wf x ->
  (forall cl, drawing_cell x r c = Some cl -> cell_wf cl -> cell_wf (f cl)) -> grid_wf y.
Proof.
  unfold upd_cell, drawing_cell, drawing_row, row_get. intros E H Hf.
  binv E as rw Erw. apply unwrap_inv in Erw. binv E as cl Ecl. apply unwrap_inv in Ecl. inv E.
  assert (row_wf rw) as Wv by (eapply Forall_get; [apply (grid_wf_live _ H)|exact Erw]).
  apply grid_wf_with_live; [exact H|]. apply Forall_set_at; [apply (grid_wf_live _ H)|].
  apply row_set_cell_wf; [exact Wv|]. apply Hf.
  - rewrite Erw. exact Ecl.
  - eapply row_wf_get; eauto.
Qed.

Lemma erase_all_wf x a : grid_wf x -> grid_wf (erase_all x a).
Proof.
  intros H. unfold erase_all. apply grid_wf_with_live; [exact H|].
  apply Forall_map'. intros r _. apply row_clear_wf.
Qed.

Lemma erase_range_wf n lo a rw rw' :
  for_range n lo (fun col r => row_erase r col a) rw = Ok rw' -> row_wf rw -> row_wf rw'.
Proof.
  intros E H. eapply (for_range_inv row_wf); eauto.
  cbv beta. intros i x y Ey Hx. eapply row_erase_wf; eauto.
Qed.

Lemma erase_row_forward_wf x a y : erase_row_forward x a = Ok y -> grid_wf x -> grid_wf y.
Proof.
  unfold erase_row_forward, upd_current_row. intros E H. eapply upd_row_wf; eauto.
  cbv beta. intros rw rw' _ Er Hr. eapply erase_range_wf; eauto.
Qed.

Lemma erase_row_backward_wf x a y : erase_row_backward x a = Ok y -> grid_wf x -> grid_wf y.
Proof.
  unfold erase_row_backward, upd_current_row. intros E H. binv E as m Em. eapply upd_row_wf; eauto.
  cbv beta. intros rw rw' _ Er Hr. eapply erase_range_wf; eauto.
Qed.

Lemma erase_all_forward_wf x a y : erase_all_forward x a = Ok y -> grid_wf x -> grid_wf y.
Proof.
  unfold erase_all_forward. intros E H. eapply erase_row_forward_wf; eauto.
  apply grid_wf_with_live; [exact H|]. apply Forall_app; split.
  - apply Forall_firstn', (grid_wf_live _ H).
  - apply Forall_map'. intros r _. apply row_clear_wf.
Qed.

Lemma erase_all_backward_wf x a y : erase_all_backward x a = Ok y -> grid_wf x -> grid_wf y.
Proof.
  unfold erase_all_backward. intros E H. eapply erase_row_backward_wf; eauto.
  apply grid_wf_with_live; [exact H|]. apply Forall_app; split.
  - apply Forall_map'. intros r _. apply row_clear_wf.
  - apply Forall_skipn', (grid_wf_live _ H).
Qed.

Lemma erase_row_wf x a y : erase_row x a = Ok y -> grid_wf x -> grid_wf y.
Proof.
  unfold erase_row, upd_current_row. intros E H. eapply upd_row_wf; eauto.
  cbv beta. intros rw rw' _ Er _. inv Er. apply row_clear_wf.
Qed.

Lemma erase_cells_wf x n a y : erase_cells x n a = Ok y -> grid_wf x -> grid_wf y.
Proof.
  unfold erase_cells, upd_current_row. intros E H. eapply upd_row_wf; eauto.
  cbv beta. intros rw rw' _ Er Hr. eapply erase_range_wf; eauto.
Qed.

Lemma insert_cells_wf x n y : insert_cells x n = Ok y -> grid_wf x -> grid_wf y.
Proof.
  unfold insert_cells, upd_current_row. intros E H. binv E as wide Ewide. binv E as room Eroom. eapply upd_row_wf; eauto.
  cbv beta. intros rw rw' _ Er Hr. binv Er as rw1 Er1. eapply row_truncate_wf; eauto.
  eapply (iter_res_inv row_wf); eauto. intros r1 r2 E12 H1. eapply ins_step_wf; eauto.
Qed.

Lemma delete_cells_wf x n y : delete_cells x n = Ok y -> grid_wf x -> grid_wf y.
Proof.
  unfold delete_cells, upd_current_row. intros E H. binv E as room Eroom. eapply upd_row_wf; eauto.
  cbv beta. intros rw rw' _ Er Hr. binv Er as rw1 Er1. inv Er. apply row_resize_wf; [|apply cell_new_wf].
  eapply (iter_res_inv row_wf); eauto. cbv beta. intros r1 r2 E12 H1. eapply row_remove_wf; eauto.
Qed.

Lemma new_row_wf x : row_wf (new_row x).
Proof. apply row_new_wf. Qed.

Lemma wrap_false_at_wf l i l' : wrap_false_at l i = Ok l' -> Forall row_wf l -> Forall row_wf l'.
Proof.
  unfold wrap_false_at. intros E H. binv E as r Er. inv E. apply idx_inv in Er.
  apply Forall_set_at; [exact H|]. apply row_wrap_wf. eapply Forall_get; eauto.
Qed.

(* remove one row, insert a fresh one, clear a wrap flag: IL and SD *)
Lemma rotate_down_wf x a b l l' :
  (do '(_, l1) <- remove_at l a; do l2 <- insert_at l1 b (new_row x); wrap_false_at l2 a) = Ok l' ->
  Forall row_wf l -> Forall row_wf l'.
Proof.
  intros E H. binv E as p1 E1. destruct p1 as [rm l1]. binv E as l2 E2.
  eapply Forall_remove_at in E1 as [_ W1]; [|exact H].
  eapply wrap_false_at_wf; eauto. eapply Forall_insert_at; eauto. apply new_row_wf.
Qed.

Lemma insert_lines_wf x n y : insert_lines x n = Ok y -> grid_wf x -> grid_wf y.
Proof.
  unfold insert_lines. intros E H. binv E as l0 El0. inv E. apply grid_wf_with_live; [exact H|].
  eapply (iter_res_inv (Forall row_wf)); eauto; [apply (grid_wf_live _ H)|].
  cbv beta. intros l l' El Hl. eapply rotate_down_wf; eauto.
Qed.

Lemma scroll_down_wf x n y : scroll_down x n = Ok y -> grid_wf x -> grid_wf y.
Proof.
  unfold scroll_down. intros E H. binv E as l0 El0. inv E. apply grid_wf_with_live; [exact H|].
  eapply (iter_res_inv (Forall row_wf)); eauto; [apply (grid_wf_live _ H)|].
  cbv beta. intros l l' El Hl. eapply rotate_down_wf; eauto.
Qed.

Lemma delete_lines_wf x n y : delete_lines x n = Ok y -> grid_wf x -> grid_wf y.
Proof.
  unfold delete_lines. intros E H. binv E as room Eroom. binv E as l0 El0. inv E. apply grid_wf_with_live; [exact H|].
  eapply (iter_res_inv (Forall row_wf)); eauto; [apply (grid_wf_live _ H)|].
  cbv beta. intros l l' El Hl. binv El as l1 E1. binv El as p2 E2. destruct p2 as [rm l2]. inv El.
  eapply Forall_remove_at in E2 as [_ W]; [exact W|].
  eapply Forall_insert_at; eauto. apply new_row_wf.
Qed.

Lemma Forall_trim_front {A} (P : A -> Prop) l cap : Forall P l -> Forall P (trim_front l cap).
Proof. intros H. unfold trim_front. now apply Forall_skipnN. Qed.

(* rows leave the live list at the top and enter the scrollback *)
Lemma scroll_up_wf x n y : scroll_up x n = Ok y -> grid_wf x -> grid_wf y.
Proof.
  unfold scroll_up. intros E H. binv E as room Eroom. binv E as active Eact.
  eapply (iter_res_inv grid_wf); eauto.
  cbv beta. clear E Eroom Eact H. intros g1 g2 E [Hl Hs]. binv E as l1 E1. binv E as p2 E2. destruct p2 as [removed l2].
  eapply Forall_remove_at in E2 as [Wr W2]; [|eapply Forall_insert_at; eauto; apply new_row_wf].
  assert (grid_wf (with_live g1 l2)) as W by (split; cbn [with_live live sb]; assumption).
  destruct ((0 <? sb_cap (with_live g1 l2)) && negb active); inv E; [|exact W].
  split; cbn [with_sb with_live live sb]; [exact W2|].
  apply Forall_trim_front. apply Forall_app; split; [exact Hs|]. constructor; [exact Wr|constructor].
Qed.

Lemma row_inc_scroll_wf x n y k : row_inc_scroll x n = Ok (y, k) -> grid_wf x -> grid_wf y.
Proof.
  unfold row_inc_scroll. intros E H. binv E as p1 E1. destruct p1 as [g1 lines].
  apply row_clamp_bottom_cells in E1.
  assert (grid_wf g1) as W1.
  { eapply same_cells_wf; [|exact H]. eapply same_cells_trans; [apply with_pos_cells|exact E1]. }
  destruct (in_scroll_region x).
  - binv E as g2 E2. inv E. eapply scroll_up_wf; eauto.
  - inv E. exact W1.
Qed.

Lemma row_dec_scroll_wf x n y : row_dec_scroll x n = Ok y -> grid_wf x -> grid_wf y.
Proof.
  unfold row_dec_scroll. intros E H.
  pose proof (row_clamp_top_cells (with_prow x (sat_sub16 (prow x) n)) (in_scroll_region x)) as C.
  destruct (row_clamp_top _ _) as [g1 lines]. cbn [fst] in C.
  binv E as k Ek. eapply scroll_down_wf; eauto.
  eapply same_cells_wf; [|exact H]. eapply same_cells_trans; [apply with_pos_cells|exact C].
Qed.

Lemma col_wrap_wf x width wrap y : col_wrap x width wrap = Ok y -> grid_wf x -> grid_wf y.
Proof.
  unfold col_wrap. intros E H. binv E as lim Elim.
  destruct (lim <? pcol x); [|now inv E].
  binv E as p1 E1. destruct p1 as [g1 scrolled].
  apply row_inc_scroll_wf in E1; [|eapply same_cells_wf; [apply with_pos_cells|exact H]].
  destruct (scrolled <=? prow x); [|now inv E].
  binv E as pr1 Epr1. eapply upd_row_wf; eauto.
  cbv beta. intros rw rw' _ Er Hr. inv Er. now apply row_wrap_wf.
Qed.

Lemma row_clamp_top_false x : row_clamp_top x false = (x, 0).
Proof. reflexivity. Qed.

Lemma grid_set_size_wf x rows cols y : grid_set_size x rows cols = Ok y -> grid_wf x -> grid_wf y.
Proof.
  unfold grid_set_size. intros E [Hl Hs]. binv E as oldm Eoldm. binv E as newm Enewm. binv E as newc Enewc.
  rewrite row_clamp_top_false in E. binv E as p3 E3. destruct p3 as [g3 k3]. binv E as g4 E4. inv E.
  apply row_clamp_bottom_cells in E3. apply col_clamp_cells in E4.
  eapply same_cells_wf; [apply with_saved_cells|].
  eapply same_cells_wf; [exact E4|]. eapply same_cells_wf; [exact E3|].
  split; cbn [live sb]; [|exact Hs].
  apply Forall_resize_list; [|apply row_new_wf].
  apply Forall_map'. intros r Hr. apply row_resize_wf; [|apply cell_new_wf].
  destruct (negb (cols =? gcols x)).
  - apply in_map_iff in Hr as (r0 & <- & Hr0). apply row_wrap_wf.
    rewrite Forall_forall in Hl. now apply Hl.
  - rewrite Forall_forall in Hl. now apply Hl.
Qed.

(* ------------------------------------------------------------------ *)
(* the text path (Screen::text) *)

(* the row holding a drawing cell satisfies the pairing invariant *)
Lemma drawing_cell_row x r c cl : grid_ok x -> drawing_cell x r c = Some cl ->
  exists rw, get (live x) r = Some rw /\ get (cells rw) c = Some cl /\ cells_ok (cells rw).
Proof.
  intros [K _] D. unfold drawing_cell, drawing_row, row_get in D.
  destruct (get (live x) r) as [rw|] eqn:G; [|discriminate].
  exists rw. split; [reflexivity|]. split; [exact D|].
  pose proof (Forall_get _ _ _ _ (gk_rowsok _ K) G) as [_ Hok]. exact Hok.
Qed.

(* a zero-width character is never appended to a continuation cell *)
Lemma append_at_wf x r c ch y : append_at x r c ch = Ok y -> grid_wf x -> grid_ok x ->
  wd ch = Some 0 -> is_scalar ch = true -> grid_wf y.
Proof.
  unfold append_at. intros E H Hok Hw Hs. binv E as pc Epc. apply unwrap_inv in Epc.
  destruct (drawing_cell_row _ _ _ _ Hok Epc) as (rw & Grw & Gpc & Cok).
  destruct (ccont pc) eqn:Ec.
  - binv E as c2 Ec2. binv E as d Ed. apply unwrap_inv in Ed.
    unfold sub16 in Ec2. destruct (N.leb_spec 1 c) as [L|L]; inv Ec2.
    destruct (ok_cont_prev _ _ _ Cok Gpc Ec) as (_ & d' & Gd & _ & Dc & _).
    eapply upd_cell_wf; eauto. intros cl Dcl Wcl.
    unfold drawing_cell, drawing_row, row_get in Dcl. rewrite Grw, Gd in Dcl. inv Dcl.
    now apply cell_append_wf.
  - eapply upd_cell_wf; eauto. intros cl Dcl Wcl. rewrite Epc in Dcl. inv Dcl.
    now apply cell_append_wf.
Qed.

Lemma text_zero_wf x ch y : text_zero x ch = Ok y -> grid_wf x -> grid_ok x ->
  wd ch = Some 0 -> is_scalar ch = true -> grid_wf y.
Proof.
  unfold text_zero. intros E H Hok Hw Hs.
  destruct (0 <? pcol x).
  - binv E as c1 Ec1. eapply append_at_wf; eauto.
  - destruct (0 <? prow x); [|now inv E].
    binv E as r1 Er1. binv E as prev Eprev.
    destruct (wrapped prev); [|now inv E].
    binv E as c1 Ec1. eapply append_at_wf; eauto.
Qed.

Lemma upd_cell_wf' x r c f y : upd_cell x r c f = Ok y -> grid_wf x -> (forall cl, cell_wf (f cl)) -> grid_wf y.
Proof. intros E H Hf. eapply upd_cell_wf; eauto. Qed.

Lemma text_place_wf x ch width a y : text_place x ch width a = Ok y -> grid_wf x ->
  storable ch -> wd ch <> Some 0 -> grid_wf y.
Proof.
  unfold text_place. intros E H Hst Hw.
  binv E as c0 Ec0. binv E as x1 E1.
  assert (grid_wf x1) as W1.
  { destruct (ccont c0); [|now inv E1]. binv E1 as cm Ecm.
    eapply upd_cell_wf'; eauto. intros cl. apply cell_clear_wf. }
  binv E as c0' Ec0'. binv E as x2 E2.
  assert (grid_wf x2) as W2.
  { destruct (cwide c0'); [|now inv E2]. binv E2 as cp Ecp.
    eapply upd_cell_wf'; eauto. intros cl. apply cell_set_32_wf. }
  binv E as x3 E3.
  assert (grid_wf x3) as W3.
  { eapply upd_cell_wf'; eauto. intros cl. now apply cell_set_wf. }
  assert (grid_wf (col_inc x3 1)) as W4 by (now apply col_inc_wf).
  destruct (1 <? width); [|now inv E].
  binv E as n0 En0. binv E as x5 E5.
  assert (grid_wf x5) as W5.
  { destruct (cwide n0); [|now inv E5]. binv E5 as cn Ecn. binv E5 as x5a E5a. binv E5 as lastc Elastc.
    assert (grid_wf x5a) as W5a by (eapply upd_cell_wf'; eauto; intros cl; apply cell_clear_wf).
    destruct (cn =? lastc); [|now inv E5].
    eapply upd_row_wf; eauto. cbv beta. intros rw rw' _ Er Hr. inv Er. now apply row_wrap_wf. }
  binv E as x6 E6. inv E. apply col_inc_wf.
  eapply upd_cell_wf'; eauto. intros cl. apply cont_of_clear_wf.
Qed.

(* Screen::text on a grid: only storable characters are ever stored *)
Theorem grid_text_wf x ch a y : grid_text x ch a = Ok y -> grid_wf x -> grid_ok x ->
  is_scalar ch = true -> ch <> 65533 -> grid_wf y.
Proof.
  unfold grid_text. intros E H Hok Hs Hr.
  set (width := match wd ch with Some n => n | None => 1 end) in *.
  assert ((wd ch = None /\ ch < 256) \/ ~ (wd ch = None /\ ch < 256)) as [[Wn Lt]|Hn].
  { destruct (wd ch); [right; intros [D _]; discriminate|].
    destruct (N.lt_ge_cases ch 256); [left; split; [reflexivity|assumption]|right; intros [_ D]; lia]. }
  { rewrite Wn in E. destruct (N.ltb_spec ch 256); [|lia]. now inv E. }
  assert ((if gcols x <? width then Ok x
           else do lim <- sub16 (gcols x) width;
                do wrap <- (if lim <? pcol x then
                              do lastc <- sub16 (gcols x) 1;
                              do lc <- unwrap (drawing_cell x (prow x) lastc);
                              Ok (has_contents lc || ccont lc)
                            else Ok false);
                do x1 <- col_wrap x width wrap;
                if width =? 0 then text_zero x1 ch else text_place x1 ch width a) = Ok y) as E'.
  { destruct (wd ch) as [w|] eqn:Ew.
    - exact E.
    - destruct (N.ltb_spec ch 256) as [L|L]; [exfalso; apply Hn; split; [reflexivity|exact L]|exact E]. }
  clear E.
  destruct (N.ltb_spec (gcols x) width) as [Lw|Lw]; [now inv E'|].
  binv E' as lim Elim. binv E' as wrap Ewrap. binv E' as x1 E1.
  destruct (col_wrap_post x width wrap Hok Lw) as (x1' & E1' & Ok1 & _).
  rewrite E1 in E1'. inv E1'.
  pose proof (col_wrap_wf _ _ _ _ E1 H) as W1.
  destruct (N.eqb_spec width 0) as [Z|Z].
  - assert (wd ch = Some 0) as Hw0.
    { unfold width in Z. destruct (wd ch) as [w|]; [now subst|discriminate]. }
    eapply text_zero_wf; eauto.
  - eapply text_place_wf; eauto.
    + now apply printable_storable.
    + intros Hw0. apply Z. unfold width. now rewrite Hw0.
Qed.

(* ------------------------------------------------------------------ *)
(* reading cells of a well-formed grid *)

Lemma drawing_cell_wf x r c cl : grid_wf x -> drawing_cell x r c = Some cl -> cell_wf cl.
Proof.
  intros H D. unfold drawing_cell, drawing_row, row_get in D.
  destruct (get (live x) r) as [rw|] eqn:G; [|discriminate].
  eapply row_wf_get; [|exact D]. eapply Forall_get; [apply (grid_wf_live _ H)|exact G].
Qed.

Lemma visible_rows_wf x l : visible_rows x = Ok l -> grid_wf x -> Forall row_wf l.
Proof.
  unfold visible_rows. intros E [Hl Hs]. binv E as k Ek. inv E. apply Forall_app; split.
  - apply Forall_firstnN, Forall_skipnN, Hs.
  - apply Forall_firstnN, Hl.
Qed.

Lemma visible_cell_wf x r c cl : visible_cell x r c = Ok (Some cl) -> grid_wf x -> cell_wf cl.
Proof.
  unfold visible_cell, visible_row. intros E H. binv E as orw Eo. binv Eo as vr Evr. inv Eo. injection E as E'.
  destruct (get vr r) as [rw|] eqn:G; [|discriminate].
  eapply row_wf_get; [|unfold row_get in E'; exact E'].
  eapply Forall_get; [eapply visible_rows_wf; eauto|exact G].
Qed.
