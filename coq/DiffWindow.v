(* DiffWindow.v — the rows_diff clause of property C15 (extra to C02).
   rows_diff(prev, start, width) yields one byte string per visible row; drawing string i at
   (i, start) with default attributes (the window protocol of C15Main: ESC[m, CUP(i+1,start+1),
   row bytes) on a receiver whose row i shows prev's row i turns the cells INSIDE the window into
   the current ones and leaves the cells to the left of the window alone.  Stated for
   unwrapped rows and windows whose first column is not the second half of a wide character in
   either screen.  (Cells to the right of the window may be cleared: as in rows_formatted, a
   trailing erase run is closed with EL, which erases to the end of the line.) *)
Require Import Tac ListN Utf8 Width Attrs Cell Row Grid Screen Vte Perform Term Emit
  RowInv GridInv TextInv ScreenInv ParseSer CellWf WfGrid WfVte WfInv EraseSpec SgrSpec MoveSpec PrintSpec
  CellBytes EmitSafe WrapInv WrapInvScreen ObsSpec Recv RowPaint Redraw Cursor C01Main C15Main
  DiffPaint DiffGrid DiffMain.
Open Scope N_scope.

(* the window starts on a cell boundary of the row *)
Definition lalign (start : N) (r : row) : Prop := fc (cells r) start = false.

(* what row i of the receiver looks like afterwards *)
Definition win_done (start width : N) (ri src prev : row) : Prop :=
  wrapped ri = false /\
  (forall k, k < start -> get (cells ri) k = get (cells prev) k) /\
  (forall k, start <= k < start + width -> get (cells ri) k = get (cells src) k).

(* ---- one row ---- *)
Theorem C15_diff_window_row R l i src prev start width :
  cv R l i start -> srow_ok (gcols (g R)) src -> srow_ok (gcols (g R)) prev ->
  start < gcols (g R) -> 1 <= width -> start + width <= gcols (g R) ->
  lalign start src -> lalign start prev ->
  get l i = Some prev -> wrapped src = false -> wrapped prev = false ->
  exists ts r' c' a' ri,
    row_diff src prev start width i false false (i, start) dflt = Ok (ts, (r', c'), a') /\
    plays (rcv R l i start dflt) ts (rcv R (set_at l i ri) r' c' a') /\
    cv R (set_at l i ri) r' c' /\ pen_ok a' /\ win_done start width ri src prev.
Proof.
  intros H Hs Hp Hst Hw1 Hw2 Al1 Al2 Hg Us Up.
  destruct (row_diff_paints_win R i src prev start l prev i start dflt (cv_r _ _ _ _ H) Hs Hp Hst Al1 Al2 H
              pen_ok_dflt Hg eq_refl Up width Hw1 Hw2 ltac:(congruence))
    as (ts & r' & c' & a' & ri & E & P & C & Pa & [U Pre Mid]).
  exists ts, r', c', a', ri. unfold win_done. auto 10.
Qed.

(* ---- all rows: the window protocol ---- *)
Lemma diff_window_rows R vr pvr start width :
  start < gcols (g R) -> 1 <= width -> start + width <= gcols (g R) ->
  Forall (srow_ok (gcols (g R))) vr -> Forall (srow_ok (gcols (g R))) pvr ->
  Forall (lalign start) vr -> Forall (lalign start) pvr ->
  unwrapped_rows vr -> unwrapped_rows pvr ->
  forall rest prest i l r c a,
    (forall k, k < len rest -> get rest k = get vr (i + k)) ->
    (forall k, k < len rest -> get prest k = get pvr (i + k)) ->
    len prest = len rest -> i + len rest = grows (g R) ->
    cv R l r c ->
    (forall i', i <= i' < grows (g R) -> get l i' = get pvr i') ->
    exists toks l' r' c' a',
      rows_diff_rows (zip rest prest) start width i = Ok toks /\
      plays (rcv R l r c a) (window_protocol start i toks) (rcv R l' r' c' a') /\
      cv R l' r' c' /\
      (forall i', i' < i -> get l' i' = get l i') /\
      (forall i', i <= i' < grows (g R) -> exists ri src prev,
          get l' i' = Some ri /\ get vr i' = Some src /\ get pvr i' = Some prev /\
          win_done start width ri src prev).
Proof.
  intros Hst Hw1 Hw2 Hsr Hpr Hal Hpal Uv Up.
  induction rest as [|src rest IH]; intros prest i l r c a Hseg Hpseg Hlp Hlen Hcv Hshow.
  - rewrite len_nil in Hlen. exists [], l, r, c, a. cbn [zip rows_diff_rows window_protocol].
    split; [reflexivity|]. split; [apply plays_nil|]. split; [exact Hcv|]. split; [auto|]. intros i' Hi'. lia.
  - destruct prest as [|prev prest]; [rewrite len_nil, len_cons in Hlp; lia|].
    rewrite !len_cons in *. cbn [zip rows_diff_rows].
    assert (get vr i = Some src) as Hsrc.
    { specialize (Hseg 0 ltac:(lia)). replace (i + 0) with i in Hseg by lia. rewrite <- Hseg. reflexivity. }
    assert (get pvr i = Some prev) as Hprev.
    { specialize (Hpseg 0 ltac:(lia)). replace (i + 0) with i in Hpseg by lia. rewrite <- Hpseg. reflexivity. }
    assert (i < grows (g R)) as Hi by lia.
    pose proof (Forall_get _ _ _ _ Hsr Hsrc) as Sok. pose proof (Forall_get _ _ _ _ Hpr Hprev) as Pok.
    pose proof (Forall_get _ _ _ _ Hal Hsrc) as Al1. pose proof (Forall_get _ _ _ _ Hpal Hprev) as Al2.
    pose proof (Forall_get _ _ _ _ Uv Hsrc) as Us. pose proof (Forall_get _ _ _ _ Up Hprev) as Upv.
    cbv beta in Us, Upv.
    assert (get l i = Some prev) as Gi by (rewrite Hshow by lia; exact Hprev).
    assert (cv R l i start) as C0 by (eapply cv_pos; eauto; lia).
    destruct (C15_diff_window_row R l i src prev start width C0 Sok Pok Hst Hw1 Hw2 Al1 Al2 Gi Us Upv)
      as (ts & r1 & c1 & a1 & ri & -> & P1 & C1 & Pa1 & Done1).
    cbn [bind].
    assert (len l = grows (g R)) as Ll by apply Hcv.
    destruct (IH prest (i + 1) (set_at l i ri) r1 c1 a1) as (toks & l2 & r2 & c2 & a2 & -> & P2 & C2 & Keep2 & Done2); auto.
    { intros k Hk. specialize (Hseg (k + 1) ltac:(lia)). rewrite get_cons in Hseg.
      destruct (N.eqb_spec (k + 1) 0); [lia|]. replace (k + 1 - 1) with k in Hseg by lia.
      replace (i + 1 + k) with (i + (k + 1)) by lia. exact Hseg. }
    { intros k Hk. specialize (Hpseg (k + 1) ltac:(lia)). rewrite get_cons in Hpseg.
      destruct (N.eqb_spec (k + 1) 0); [lia|]. replace (k + 1 - 1) with k in Hpseg by lia.
      replace (i + 1 + k) with (i + (k + 1)) by lia. exact Hpseg. }
    { lia. } { lia. }
    { intros i' Hi'. rewrite get_set_at. destruct (N.eqb_spec i' i); [lia|]. apply Hshow. lia. }
    cbn [bind]. exists (ts :: toks), l2, r2, c2, a2. split; [reflexivity|]. cbn [window_protocol].
    split.
    { eapply plays_cons; [apply plays_clear_attrs|].
      eapply plays_cons; [apply plays_cup_lit; [exact Hcv|exact Hi|exact Hst]|].
      eapply plays_app; [exact P1|exact P2]. }
    split; [exact C2|]. split.
    { intros i' Hi'. rewrite Keep2 by lia. rewrite get_set_at. destruct (N.eqb_spec i' i); [lia|reflexivity]. }
    intros i' Hi'. destruct (N.eq_dec i' i) as [->|Hne]; [|apply Done2; lia].
    exists ri, src, prev. split; [|auto].
    rewrite Keep2 by lia. rewrite get_set_at. destruct (N.eqb_spec i i); [|lia].
    destruct (N.ltb_spec i (len l)); [reflexivity|lia].
Qed.

(* ---- the whole-screen statement ---- *)
(* R is a canvas of the common size whose live rows are the visible rows of P *)
Theorem C15_diff_window S P R vr pvr start width toks :
  source_ok S vr -> source_ok P pvr -> unwrapped_rows vr -> unwrapped_rows pvr ->
  grows (cur S) = grows (cur P) -> gcols (cur S) = gcols (cur P) ->
  canvas R -> grows (g R) = grows (cur P) -> gcols (g R) = gcols (cur P) -> live (g R) = pvr ->
  start < gcols (cur S) -> 1 <= width -> start + width <= gcols (cur S) ->
  Forall (lalign start) vr -> Forall (lalign start) pvr ->
  rows_diff_t S P start width = Ok toks ->
  exists R', play false R (window_protocol start 0 toks) = Ok (R', []) /\ canvas R' /\
    grows (g R') = grows (g R) /\ gcols (g R') = gcols (g R) /\
    forall i, i < grows (cur S) -> exists ri src prev,
      get (live (g R')) i = Some ri /\ get vr i = Some src /\ get pvr i = Some prev /\
      win_done start width ri src prev.
Proof.
  intros HS HP Uv Up Er Ec CR Rr Rc Rl Hst Hw1 Hw2 Hal Hpal Et.
  destruct (source_dims _ _ HS) as (Lvr & _ & _). destruct (source_dims _ _ HP) as (Lpvr & _ & _).
  unfold rows_diff_t in Et. rewrite (so_vis _ _ HS), (so_vis _ _ HP) in Et. cbn [bind] in Et.
  pose proof (cv_id R CR) as Hcv.
  assert (Forall (srow_ok (gcols (g R))) vr) as Q1 by (rewrite Rc, <- Ec; apply (proj1 (so_rows _ _ HS))).
  assert (Forall (srow_ok (gcols (g R))) pvr) as Q2 by (rewrite Rc; apply (proj1 (so_rows _ _ HP))).
  destruct (diff_window_rows R vr pvr start width ltac:(congruence) Hw1 ltac:(congruence) Q1 Q2 Hal Hpal Uv Up
              vr pvr 0 (live (g R)) (prow (g R)) (pcol (g R)) (pen R))
    as (toks' & l' & r' & c' & a' & E & Pl & C & _ & Done).
  { intros k Hk. replace (0 + k) with k by lia. reflexivity. }
  { intros k Hk. replace (0 + k) with k by lia. reflexivity. }
  { congruence. } { lia. } { exact Hcv. }
  { intros i' Hi'. now rewrite Rl. }
  rewrite E in Et. inv Et. rewrite rcv_id in Pl.
  exists (rcv R l' r' c' a'). split; [exact Pl|]. split; [now apply cv_canvas_rcv|].
  split; [reflexivity|]. split; [reflexivity|].
  intros i Hi. apply Done. lia.
Qed.

(* full width: the receiver's rows become exactly the visible rows of S *)
Corollary C15_diff_full S P R vr pvr toks :
  source_ok S vr -> source_ok P pvr -> unwrapped_rows vr -> unwrapped_rows pvr ->
  grows (cur S) = grows (cur P) -> gcols (cur S) = gcols (cur P) ->
  canvas R -> grows (g R) = grows (cur P) -> gcols (g R) = gcols (cur P) -> live (g R) = pvr ->
  rows_diff_t S P 0 (gcols (cur S)) = Ok toks ->
  exists R', play false R (window_protocol 0 0 toks) = Ok (R', []) /\ canvas R' /\ live (g R') = vr.
Proof.
  intros HS HP Uv Up Er Ec CR Rr Rc Rl Et.
  destruct (source_dims _ _ HS) as (Lvr & _ & _).
  pose proof (canvas_dims _ CR) as (_ & D2 & _).
  assert (Forall (lalign 0) vr) as A1.
  { eapply Forall_impl'; [|apply (proj1 (so_rows _ _ HS))]. intros rw Hrw. apply (ok_first _ (sr_ok _ _ Hrw)). }
  assert (Forall (lalign 0) pvr) as A2.
  { eapply Forall_impl'; [|apply (proj1 (so_rows _ _ HP))]. intros rw Hrw. apply (ok_first _ (sr_ok _ _ Hrw)). }
  destruct (C15_diff_window S P R vr pvr 0 (gcols (cur S)) toks HS HP Uv Up Er Ec CR Rr Rc Rl
              ltac:(lia) ltac:(lia) ltac:(lia) A1 A2 Et) as (R' & Pl & C' & Gr & Gc & Done).
  exists R'. split; [exact Pl|]. split; [exact C'|].
  destruct (canvas_rows_good _ C') as (Ll & Lo & _).
  rewrite Gr, Rr, <- Er in Ll. rewrite Gc, Rc, <- Ec in Lo.
  apply list_ext_get. intros i. destruct (N.lt_ge_cases i (grows (cur S))) as [Hi|Hi].
  - destruct (Done i Hi) as (ri & src & prev & G1 & G2 & _ & U & _ & Mid). rewrite G1, G2. f_equal.
    apply row_ext; [|rewrite U; symmetry; exact (Forall_get _ _ _ _ Uv G2)].
    pose proof (Forall_get _ _ _ _ Lo G1) as [Lri _].
    pose proof (Forall_get _ _ _ _ (proj1 (so_rows _ _ HS)) G2) as Sok.
    apply list_ext_get. intros k. destruct (N.lt_ge_cases k (gcols (cur S))) as [Hk|Hk]; [apply Mid; lia|].
    assert (get (cells ri) k = None) as -> by (apply get_none_ge; lia).
    symmetry. apply get_none_ge. rewrite (sr_len _ _ Sok). lia.
  - assert (get (live (g R')) i = None) as -> by (apply get_none_ge; lia).
    symmetry. apply get_none_ge. lia.
Qed.
