(* Pend.v — Parser.incomplete_tail (the held-back utf-8 tail of Parser.process): specification,
   dependence on the last bytes only, behaviour under appending, and what it means for vte:
   a chunk without an incomplete tail leaves vte's own partial buffer empty. *)
Require Import Tac Utf8 Vte Screen Perform Parser Utf8Lemmas VteInv VteChunk.
Open Scope N_scope.

(* ---------- incomplete sequences ---------- *)

(* [inc l]: l is a non-empty proper prefix of the encoding of some character *)
Definition inc (l : list N) : Prop := decode1 l = DIncomplete.

Definition contb (b : N) : Prop := 128 <= b <= 191.

Lemma inc_prefix a b : inc (a ++ b) -> a <> [] -> inc a.
Proof.
  unfold inc. intros H Ha. destruct (decode1 a) as [c n|k| |] eqn:D.
  - rewrite (decode1_char_app _ b _ _ D) in H. discriminate.
  - rewrite (decode1_err_app _ b _ D) in H. discriminate.
  - reflexivity.
  - apply decode1_end in D. contradiction.
Qed.

Lemma inc_conts l : inc l -> Forall contb (tl l).
Proof.
  unfold inc, contb. intros H; dec_start l; dsplit; try discriminate; okspec; cbn [tl];
  repeat (constructor; [lia|]); constructor.
Qed.

Lemma inc_len l : inc l -> 1 <= len l <= 3.
Proof. intros H. apply decode1_inc_inv in H. tauto. Qed.

Lemma inc_hd l : inc l -> 194 <= hd 0 l.
Proof. intros H. apply decode1_inc_inv in H. tauto. Qed.

Lemma inc_nonnil l : inc l -> l <> [].
Proof. intros H ->. discriminate H. Qed.

(* an incomplete sequence only continues with continuation bytes *)
Lemma inc_mid u t : inc (u ++ t) -> u <> [] -> t <> [] -> contb (hd 0 t).
Proof.
  intros H Hu Ht. apply inc_conts in H.
  destruct u as [|u0 u]; [congruence|]. cbn [app tl] in H.
  apply Forall_app in H. destruct H as [_ H].
  destruct t as [|t0 t]; [congruence|]. inv H. exact H2.
Qed.

(* the bytes of a character after the first are continuation bytes *)
Lemma decode1_char_conts l c n : decode1 l = DChar c n -> Forall contb (tl (firstnN n l)).
Proof.
  unfold contb. intros H; dec_start l; dsplit; try discriminate; inv H; okspec;
  unfold firstnN; nn; cbn [firstn tl];
  repeat (constructor; [lia|]); constructor.
Qed.

(* an incomplete sequence followed by a byte that is not a continuation byte is an error *)
Lemma inc_then_lead u x : inc u -> x <> [] -> ~ contb (hd 0 x) -> exists k, decode1 (u ++ x) = DErr k.
Proof.
  intros Hu Hx Hc. destruct (decode1 (u ++ x)) as [c n|k| |] eqn:D.
  - exfalso. pose proof (decode1_inc_app_char _ _ _ _ Hu D) as Hn.
    pose proof (decode1_char_inv _ _ _ D) as (I1 & I2 & _).
    apply decode1_char_conts in D.
    rewrite firstnN_app_ge in D by lia.
    destruct u as [|u0 u]; [discriminate Hu|]. cbn [app tl] in D.
    apply Forall_app in D. destruct D as [_ D].
    destruct x as [|x0 x]; [congruence|]. rewrite len_cons in Hn.
    unfold firstnN in D. destruct (N.to_nat (n - len (u0 :: u))) eqn:E; [rewrite len_cons in E; lia|].
    cbn [firstn] in D. inv D. apply Hc. exact H1.
  - eauto.
  - exfalso. apply Hc. apply (inc_mid u x D); [apply inc_nonnil; exact Hu|exact Hx].
  - apply decode1_end in D. destruct u; [discriminate Hu|discriminate D].
Qed.

(* ---------- specification of incomplete_tail ---------- *)

Lemma tail_incomplete_spec n bs :
  tail_incomplete n bs = true <-> n <= len bs /\ inc (skipnN (len bs - n) bs).
Proof.
  unfold tail_incomplete, inc. rewrite from_utf8_unfold.
  destruct (N.leb_spec n (len bs)) as [L|L]; cbn [andb]; [|split; [discriminate|lia]].
  destruct (decode1 _) as [c k|k| |] eqn:D.
  - apply decode1_char_inv in D. destruct (from_utf8 _) as [[chars valid] stop].
    destruct (N.eqb_spec (k + valid) 0); [lia|]. cbn [andb].
    split; [discriminate|intros [_ X]; discriminate X].
  - destruct (N.eqb_spec 0 0); cbn [andb]; (split; [discriminate|intros [_ X]; discriminate X]).
  - destruct (N.eqb_spec 0 0); [|lia]. cbn [andb]. tauto.
  - destruct (N.eqb_spec 0 0); cbn [andb]; (split; [discriminate|intros [_ X]; discriminate X]).
Qed.

Lemma skipnN_suffix {A} (a t : list A) : skipnN (len (a ++ t) - len t) (a ++ t) = t.
Proof.
  rewrite len_app. replace (len a + len t - len t) with (len a) by lia.
  rewrite skipnN_app_ge by lia. rewrite N.sub_diag. apply skipnN_0.
Qed.

Lemma tail_incomplete_suffix a t : inc t -> tail_incomplete (len t) (a ++ t) = true.
Proof.
  intros H. apply tail_incomplete_spec. rewrite skipnN_suffix. split; [rewrite len_app; lia|exact H].
Qed.

Lemma incomplete_tail_le3 bs : incomplete_tail bs <= 3.
Proof. unfold incomplete_tail. repeat destruct (tail_incomplete _ _); lia. Qed.

(* a positive result is the length of an incomplete suffix *)
Lemma incomplete_tail_inc bs : 0 < incomplete_tail bs ->
  incomplete_tail bs <= len bs /\ inc (skipnN (len bs - incomplete_tail bs) bs).
Proof.
  unfold incomplete_tail.
  destruct (tail_incomplete 3 bs) eqn:E3; [intros _; now apply tail_incomplete_spec|].
  destruct (tail_incomplete 2 bs) eqn:E2; [intros _; now apply tail_incomplete_spec|].
  destruct (tail_incomplete 1 bs) eqn:E1; [intros _; now apply tail_incomplete_spec|].
  lia.
Qed.

Lemma incomplete_tail_le_len bs : incomplete_tail bs <= len bs.
Proof.
  destruct (N.eq_dec (incomplete_tail bs) 0) as [E|E]; [lia|].
  apply incomplete_tail_inc. lia.
Qed.

(* ... and it is the longest one *)
Lemma incomplete_tail_ge a t : inc t -> len t <= incomplete_tail (a ++ t).
Proof.
  intros H. pose proof (inc_len t H) as L. pose proof (tail_incomplete_suffix a t H) as T.
  unfold incomplete_tail.
  destruct (tail_incomplete 3 (a ++ t)) eqn:E3; [lia|].
  destruct (tail_incomplete 2 (a ++ t)) eqn:E2; [assert (len t <> 3) by congruence; lia|].
  destruct (tail_incomplete 1 (a ++ t)) eqn:E1;
    [assert (len t <> 3) by congruence; assert (len t <> 2) by congruence; lia|].
  assert (len t <> 3) by congruence; assert (len t <> 2) by congruence;
  assert (len t <> 1) by congruence; lia.
Qed.

Lemma incomplete_tail_zero bs : (forall a t, bs = a ++ t -> ~ inc t) -> incomplete_tail bs = 0.
Proof.
  intros H. destruct (N.eq_dec (incomplete_tail bs) 0) as [E|E]; [exact E|].
  destruct (incomplete_tail_inc bs) as [_ I]; [lia|].
  exfalso. apply (H _ _ (eq_sym (firstnN_skipnN (len bs - incomplete_tail bs) bs))). exact I.
Qed.

Lemma incomplete_tail_zero_inv a t : incomplete_tail (a ++ t) = 0 -> ~ inc t.
Proof.
  intros E H. pose proof (incomplete_tail_ge a t H). pose proof (inc_len t H). lia.
Qed.

Lemma incomplete_tail_nil : incomplete_tail [] = 0.
Proof. reflexivity. Qed.

Lemma incomplete_tail_zero_suffix a b : incomplete_tail (a ++ b) = 0 -> incomplete_tail b = 0.
Proof.
  intros E. apply incomplete_tail_zero. intros x t -> I.
  rewrite app_assoc in E. exact (incomplete_tail_zero_inv _ _ E I).
Qed.

(* the whole list is its own incomplete tail iff it is empty or incomplete *)
Lemma incomplete_tail_self l : incomplete_tail l = len l <-> l = [] \/ inc l.
Proof.
  split.
  - intros E. destruct l as [|x l]; [auto|right].
    destruct (incomplete_tail_inc (x :: l)) as [_ I]; [rewrite E, len_cons; lia|].
    rewrite E, N.sub_diag, skipnN_0 in I. exact I.
  - intros [->|I]; [reflexivity|].
    pose proof (incomplete_tail_ge [] l I) as G. cbn [app] in G.
    pose proof (incomplete_tail_le_len l). lia.
Qed.

(* ---------- the split of a buffer into the delivered part and the held-back tail ---------- *)

Definition hd_part (bs : list N) : list N := firstnN (len bs - incomplete_tail bs) bs.
Definition tl_part (bs : list N) : list N := skipnN (len bs - incomplete_tail bs) bs.

Lemma hd_tl_part bs : hd_part bs ++ tl_part bs = bs.
Proof. apply firstnN_skipnN. Qed.

Lemma len_tl_part bs : len (tl_part bs) = incomplete_tail bs.
Proof. unfold tl_part. rewrite len_skipnN. pose proof (incomplete_tail_le_len bs). lia. Qed.

Lemma len_hd_part bs : len (hd_part bs) = len bs - incomplete_tail bs.
Proof. unfold hd_part. rewrite len_firstnN. lia. Qed.

Lemma tl_part_inc bs : tl_part bs = [] \/ inc (tl_part bs).
Proof.
  destruct (N.eq_dec (incomplete_tail bs) 0) as [E|E].
  - left. apply len_0. rewrite len_tl_part. exact E.
  - right. apply incomplete_tail_inc. lia.
Qed.

(* suffixes of a ++ b: inside b, or reaching into a *)
Lemma suffix_cases {A} (a b x w : list A) : a ++ b = x ++ w ->
  (exists x', b = x' ++ w) \/ (exists w', w' <> [] /\ w = w' ++ b /\ a = x ++ w').
Proof.
  intros E. apply app_eq_app in E. destruct E as (l & [[-> ->]|[-> ->]]).
  - destruct l as [|l0 l]; [left; exists []; reflexivity|right; exists (l0 :: l)].
    split; [discriminate|split; reflexivity].
  - left. eauto.
Qed.

(* KEY: the tail of bs ++ c is determined by the tail of bs and c *)
Lemma incomplete_tail_app bs c : incomplete_tail (bs ++ c) = incomplete_tail (tl_part bs ++ c).
Proof.
  apply N.le_antisymm.
  - destruct (N.eq_dec (incomplete_tail (bs ++ c)) 0) as [E|E]; [lia|].
    destruct (incomplete_tail_inc (bs ++ c)) as [L I]; [lia|].
    set (K := incomplete_tail (bs ++ c)) in *.
    set (w := skipnN (len (bs ++ c) - K) (bs ++ c)) in *.
    assert (Lw : len w = K) by (unfold w; rewrite len_skipnN; lia).
    assert (S : hd_part bs ++ (tl_part bs ++ c) = firstnN (len (bs ++ c) - K) (bs ++ c) ++ w).
    { rewrite app_assoc, hd_tl_part. symmetry. apply firstnN_skipnN. }
    apply suffix_cases in S. destruct S as [(x' & S)|(w' & Hw' & S & Sh)].
    + rewrite S, <- Lw. apply incomplete_tail_ge. exact I.
    + (* w reaches over the tail of bs: then bs had a longer incomplete suffix *)
      exfalso. rewrite app_assoc in S. rewrite S in I. apply inc_prefix in I.
      2:{ destruct w'; [congruence|discriminate]. }
      pose proof (incomplete_tail_ge (firstnN (len (bs ++ c) - K) (bs ++ c)) _ I) as G.
      rewrite app_assoc, <- Sh, hd_tl_part in G.
      rewrite len_app, len_tl_part in G.
      assert (1 <= len w') by (destruct w'; [congruence|rewrite len_cons; lia]). lia.
  - destruct (N.eq_dec (incomplete_tail (tl_part bs ++ c)) 0) as [E|E]; [lia|].
    destruct (incomplete_tail_inc (tl_part bs ++ c)) as [L I]; [lia|].
    set (k := incomplete_tail (tl_part bs ++ c)) in *.
    set (w := skipnN (len (tl_part bs ++ c) - k) (tl_part bs ++ c)) in *.
    assert (Lw : len w = k) by (unfold w; rewrite len_skipnN; lia).
    pose proof (firstnN_skipnN (len (tl_part bs ++ c) - k) (tl_part bs ++ c)) as S. fold w in S.
    rewrite <- (hd_tl_part bs) at 1. rewrite <- app_assoc, <- S, app_assoc, <- Lw.
    apply incomplete_tail_ge. exact I.
Qed.

Lemma skipnN_split {A} (h x : list A) k : k <= len x ->
  skipnN (len (h ++ x) - k) (h ++ x) = skipnN (len x - k) x.
Proof.
  intros L. rewrite len_app. rewrite skipnN_app_ge by lia. f_equal. lia.
Qed.

Lemma firstnN_split {A} (h x : list A) k : k <= len x ->
  firstnN (len (h ++ x) - k) (h ++ x) = h ++ firstnN (len x - k) x.
Proof.
  intros L. rewrite len_app. rewrite firstnN_app_ge by lia. f_equal. f_equal. lia.
Qed.

Lemma tl_part_app bs c : tl_part (bs ++ c) = tl_part (tl_part bs ++ c).
Proof.
  unfold tl_part at 1 3. rewrite (incomplete_tail_app bs c).
  pose proof (incomplete_tail_le_len (tl_part bs ++ c)) as L.
  replace (bs ++ c) with (hd_part bs ++ (tl_part bs ++ c)) by (now rewrite app_assoc, hd_tl_part).
  apply skipnN_split. exact L.
Qed.

Lemma hd_part_app bs c : hd_part (bs ++ c) = hd_part bs ++ hd_part (tl_part bs ++ c).
Proof.
  unfold hd_part at 1 3. rewrite (incomplete_tail_app bs c).
  pose proof (incomplete_tail_le_len (tl_part bs ++ c)) as L.
  replace (bs ++ c) with (hd_part bs ++ (tl_part bs ++ c)) by (now rewrite app_assoc, hd_tl_part).
  apply firstnN_split. exact L.
Qed.

Lemma tl_part_idem bs : incomplete_tail (tl_part bs) = len (tl_part bs).
Proof.
  rewrite len_tl_part. pose proof (incomplete_tail_app bs []) as E. rewrite !app_nil_r in E. auto.
Qed.

Lemma hd_part_zero bs : incomplete_tail bs = 0 -> hd_part bs = bs.
Proof. intros E. unfold hd_part. rewrite E. apply firstnN_all. lia. Qed.

Lemma tl_part_zero bs : incomplete_tail bs = 0 -> tl_part bs = [].
Proof. intros E. unfold tl_part. rewrite E. apply skipnN_all. lia. Qed.

Lemma hd_part_self l : incomplete_tail l = len l -> hd_part l = [].
Proof. intros E. unfold hd_part. rewrite E, N.sub_diag. reflexivity. Qed.

Lemma tl_part_self l : incomplete_tail l = len l -> tl_part l = l.
Proof. intros E. unfold tl_part. rewrite E, N.sub_diag. apply skipnN_0. Qed.

(* ---------- sufficient conditions for "no incomplete tail" ---------- *)

(* b does not start with a continuation byte *)
Definition starts_ok (b : list N) : Prop := b <> [] /\ ~ contb (hd 0 b).

Lemma incomplete_tail_zero_app a b :
  incomplete_tail b = 0 -> starts_ok b -> incomplete_tail (a ++ b) = 0.
Proof.
  intros E [Hb Hc]. apply incomplete_tail_zero. intros x w S I.
  apply suffix_cases in S. destruct S as [(x' & ->)|(w' & Hw' & -> & _)].
  - exact (incomplete_tail_zero_inv _ _ E I).
  - apply Hc. exact (inc_mid _ _ I Hw' Hb).
Qed.

(* a single complete character (ASCII or multi-byte) *)
Lemma incomplete_tail_char t c : decode1 t = DChar c (len t) -> incomplete_tail t = 0.
Proof.
  intros D. apply incomplete_tail_zero. intros a w -> I.
  destruct a as [|a0 a].
  - cbn [app] in D. unfold inc in I. congruence.
  - apply decode1_char_conts in D. rewrite firstnN_all in D by lia. cbn [app tl] in D.
    apply Forall_app in D. destruct D as [_ D].
    pose proof (inc_hd w I). destruct w as [|w0 w]; [discriminate I|].
    inv D. cbn [hd] in *. unfold contb in *. lia.
Qed.

Lemma starts_ok_char t c n : decode1 t = DChar c n -> starts_ok t.
Proof.
  intros D. pose proof (decode1_char_inv _ _ _ D) as (I1 & I2 & _ & _ & I5).
  split; [intros ->; rewrite len_nil in I2; lia|]. unfold contb.
  destruct I5 as [(_ & <- & I5)|(_ & _ & I5 & _)]; lia.
Qed.

Lemma incomplete_tail_app_char xs t c :
  decode1 t = DChar c (len t) -> incomplete_tail (xs ++ t) = 0.
Proof.
  intros D. apply incomplete_tail_zero_app; [exact (incomplete_tail_char _ _ D)|exact (starts_ok_char _ _ _ D)].
Qed.

Lemma incomplete_tail_app_ascii xs b : b < 128 -> incomplete_tail (xs ++ [b]) = 0.
Proof.
  intros H. apply (incomplete_tail_app_char xs [b] b).
  unfold decode1. destruct (N.ltb_spec b 128); [reflexivity|lia].
Qed.

(* byte strings made of complete characters: closed under ++, no incomplete tail *)
Inductive u8ok : list N -> Prop :=
| u8ok_nil : u8ok []
| u8ok_snoc l t c : u8ok l -> decode1 t = DChar c (len t) -> u8ok (l ++ t).

Lemma u8ok_app a b : u8ok a -> u8ok b -> u8ok (a ++ b).
Proof.
  intros Ha Hb. induction Hb as [|l t c _ IH D]; [now rewrite app_nil_r|].
  rewrite app_assoc. econstructor; eauto.
Qed.

Lemma u8ok_char t c : decode1 t = DChar c (len t) -> u8ok t.
Proof. intros D. apply (u8ok_snoc [] t c); [constructor|exact D]. Qed.

Lemma u8ok_ascii l : Forall (fun b => b < 128) l -> u8ok l.
Proof.
  induction 1 as [|b l Hb _ IH]; [constructor|].
  change (b :: l) with ([b] ++ l). apply u8ok_app; [|exact IH].
  apply (u8ok_char [b] b). unfold decode1. destruct (N.ltb_spec b 128); [reflexivity|lia].
Qed.

Lemma u8ok_tail l : u8ok l -> incomplete_tail l = 0.
Proof. intros [|l0 t c _ D]; [reflexivity|]. exact (incomplete_tail_app_char _ _ _ D). Qed.

Lemma u8ok_tail_app xs l : u8ok l -> l <> [] -> incomplete_tail (xs ++ l) = 0.
Proof.
  intros [|l0 t c _ D] Hl; [congruence|]. rewrite app_assoc. exact (incomplete_tail_app_char _ _ _ D).
Qed.

(* ---------- vte: a chunk without an incomplete tail leaves [partial] empty ---------- *)

Lemma run_partial_nil_aux k : forall bs, (length bs <= k)%nat -> forall p, pwf0 p ->
  incomplete_tail bs = 0 -> partial (fst (run p bs)) = [].
Proof.
  induction k as [|k IH]; intros bs Hk p Hw E.
  - destruct bs; [|cbn [length] in Hk; lia]. rewrite run_nil. exact (pwf0_partial p Hw).
  - destruct bs as [|x a']; [rewrite run_nil; exact (pwf0_partial p Hw)|].
    cbn [length] in Hk.
    destruct (vst_ground_dec p) as [Hg|Hg].
    2:{ rewrite run_nonground by exact Hg. cbn [cat fst].
        apply IH; [lia|exact (change_state_pwf0 p x Hw Hg)|].
        exact (incomplete_tail_zero_suffix [x] a' E). }
    destruct (N.eqb_spec x 27) as [->|Hx].
    { rewrite run_esc by exact Hg. apply IH; [lia|apply pwf0_enter_escape; auto|].
      exact (incomplete_tail_zero_suffix [27] a' E). }
    destruct (decode1 (x :: a')) as [c n|l| |] eqn:D.
    + pose proof (decode1_char_inv _ _ _ D) as (I1 & I2 & _).
      rewrite (run_char p (x :: a') c n Hg D) by (cbn [hd]; exact Hx). cbn [cat fst].
      apply IH; [|exact Hw|].
      * pose proof (skipn_len_lt n (x :: a') I1 ltac:(discriminate)). cbn [length] in *. lia.
      * apply (incomplete_tail_zero_suffix (firstnN n (x :: a'))). now rewrite firstnN_skipnN.
    + pose proof (decode1_err_inv _ _ D) as (I1 & I2 & _).
      rewrite (run_err p (x :: a') l Hg D). cbn [cat fst].
      apply IH; [|exact Hw|].
      * pose proof (skipn_len_lt l (x :: a') ltac:(lia) ltac:(discriminate)). cbn [length] in *. lia.
      * apply (incomplete_tail_zero_suffix (firstnN l (x :: a'))). now rewrite firstnN_skipnN.
    + exfalso. exact (incomplete_tail_zero_inv [] (x :: a') E D).
    + apply decode1_end in D. discriminate.
Qed.

Lemma run_partial_nil p bs : pwf0 p -> incomplete_tail bs = 0 -> partial (fst (run p bs)) = [].
Proof. apply (run_partial_nil_aux (length bs)); lia. Qed.

(* started with an empty partial buffer *)
Theorem advance_partial_nil v bs :
  pwf v -> partial v = [] -> incomplete_tail bs = 0 -> partial (fst (advance v bs)) = [].
Proof.
  intros W Hp E. unfold advance. rewrite Hp. apply (run_partial_nil v bs); [split; assumption|exact E].
Qed.

(* K04a cannot trigger when the chunk starts with a byte that is not a continuation byte *)
Lemma k04a_lead v d : pwf v -> (d = [] \/ ~ contb (hd 0 d)) -> k04a v d = false.
Proof.
  intros W Hd. unfold k04a. destruct (partial v) as [|u0 u] eqn:Ep; [reflexivity|].
  rewrite <- Ep.
  assert (Hp : partial v <> []) by (rewrite Ep; discriminate).
  destruct (pwf_partial v W Hp) as [_ I]. pose proof (inc_len _ I) as L.
  rewrite firstnN_min.
  destruct d as [|d0 d].
  - assert (F0 : firstnN (4 - len (partial v)) (@nil N) = []) by (unfold firstnN; now rewrite firstn_nil).
    rewrite F0, app_nil_r, from_utf8_unfold, I.
    destruct (N.ltb_spec 0 0); [lia|reflexivity].
  - destruct Hd as [Hd|Hd]; [discriminate|].
    destruct (inc_then_lead (partial v) (firstnN (4 - len (partial v)) (d0 :: d)) I) as (k & D).
    + unfold firstnN. destruct (N.to_nat (4 - len (partial v))) eqn:E4; [lia|]. discriminate.
    + rewrite hd_firstnN by lia. exact Hd.
    + rewrite from_utf8_unfold, D. destruct (N.ltb_spec 0 0); [lia|reflexivity].
Qed.

(* the partial buffer is also emptied when it is followed by a chunk that starts with a
   non-continuation byte and has no incomplete tail *)
Theorem advance_partial_nil_lead v bs :
  pwf v -> starts_ok bs -> incomplete_tail bs = 0 -> partial (fst (advance v bs)) = [].
Proof.
  intros W S E. rewrite advance_eq_advance' by (apply k04a_lead; [exact W|right; apply S]).
  destruct (advance'_as_run v bs W) as [-> _].
  apply run_partial_nil; [apply pwf0_clear_partial; exact W|].
  apply incomplete_tail_zero_app; assumption.
Qed.

(* the bytes of an incomplete sequence are bytes *)
Lemma inc_bytes l : inc l -> Forall (fun b => b < 256) l.
Proof.
  unfold inc. intros H; dec_start l; dsplit; try discriminate; okspec;
  repeat (constructor; [lia|]); constructor.
Qed.

Lemma Forall_hd_part (P : N -> Prop) bs : Forall P bs -> Forall P (hd_part bs).
Proof. intros H. rewrite <- (hd_tl_part bs) in H. apply Forall_app in H. tauto. Qed.

Lemma Forall_tl_part (P : N -> Prop) bs : Forall P bs -> Forall P (tl_part bs).
Proof. intros H. rewrite <- (hd_tl_part bs) in H. apply Forall_app in H. tauto. Qed.

(* byte strings whose last byte is ASCII (escape sequences end in their final byte) *)
Definition ends_ascii (l : list N) : Prop := exists xs b, l = xs ++ [b] /\ b < 128.

Lemma ends_ascii_one b : b < 128 -> ends_ascii [b].
Proof. intros H. exists [], b. auto. Qed.
Lemma ends_ascii_app a l : ends_ascii l -> ends_ascii (a ++ l).
Proof. intros (xs & b & -> & H). exists (a ++ xs), b. now rewrite app_assoc. Qed.
Lemma ends_ascii_cons x l : ends_ascii l -> ends_ascii (x :: l).
Proof. apply (ends_ascii_app [x]). Qed.
Lemma ends_ascii_tail l : ends_ascii l -> incomplete_tail l = 0.
Proof. intros (xs & b & -> & H). now apply incomplete_tail_app_ascii. Qed.
