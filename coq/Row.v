(* Row.v — row.rs state operations (emitters are in Emit.v). *)
Require Import Base Attrs Cell.

Record row := mkRow { cells : list cell; wrapped : bool }.

Definition row_new (cols : N) : row := mkRow (repeatN cell_new cols) false.
Definition row_cols (r : row) : N := len (cells r).
Definition row_clear (a : attrs) (r : row) : row := mkRow (map (cell_clear a) (cells r)) false.
Definition row_get (r : row) (col : N) : option cell := get (cells r) col.
Definition row_wrap (b : bool) (r : row) : row := mkRow (cells r) b.
Definition row_set_cell (r : row) (col : N) (c : cell) : row := mkRow (set_at (cells r) col c) (wrapped r).

(* get_mut(col).unwrap() followed by an update *)
Definition row_upd (r : row) (col : N) (f : cell -> cell) : res row :=
  do c <- unwrap (row_get r col); Ok (row_set_cell r col (f c)).

Definition clear_own (c : cell) : cell := cell_clear (cattrs c) c.

(* Row::clear_wide *)
Definition clear_wide (r : row) (col : N) : res row :=
  do c <- idx (cells r) col;
  if cwide c then
    do j <- add16 col 1;
    do o <- idx (cells r) j;
    Ok (row_set_cell r j (clear_own o))
  else if ccont c then
    do j <- sub16 col 1;
    do o <- idx (cells r) j;
    Ok (row_set_cell r j (clear_own o))
  else Ok r.

(* Row::insert *)
Definition row_insert (r : row) (i : N) (c : cell) : res row :=
  do cs <- insert_at (cells r) i c; Ok (mkRow cs false).

(* Row::remove *)
Definition row_remove (r : row) (i : N) : res row :=
  do r1 <- clear_wide r i;
  do '(_, cs) <- remove_at (cells r1) i;
  Ok (mkRow cs false).

(* Row::erase *)
Definition row_erase (r : row) (i : N) (a : attrs) : res row :=
  do c <- idx (cells r) i;
  let wide := cwide c in
  do r1 <- clear_wide r i;
  do c1 <- idx (cells r1) i;
  let r2 := row_set_cell r1 i (cell_clear a c1) in
  do lim <- sub16 (row_cols r2) (if wide then 2 else 1);
  Ok (if i =? lim then row_wrap false r2 else r2).

(* Row::truncate *)
Definition row_truncate (r : row) (n : N) : res row :=
  let cs := firstnN n (cells r) in
  do j <- subz n 1;
  do last <- idx cs j;
  Ok (mkRow (if cwide last then set_at cs j (clear_own last) else cs) false).

(* Row::resize (after the D6 repair: a wide cell left in the last column is blanked) *)
Definition row_resize (r : row) (n : N) (c : cell) : row :=
  let cs := resize_list (cells r) n c in
  let cs' :=
    match len cs with
    | 0 => cs
    | _ => let j := len cs - 1 in
           match get cs j with
           | Some last => if cwide last then set_at cs j (clear_own last) else cs
           | None => cs
           end
    end in
  mkRow cs' false.
