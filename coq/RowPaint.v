(* RowPaint.v — Stage 2/3 of C01/C15: the row painter.  Playing the tokens of
   Row::write_contents_formatted for one source row on a canvas receiver whose
   row i is blank from the window start re-creates the row (Appendix A of DESIGN). *)
Require Import Tac ListN Utf8 Width Attrs Cell Row Grid Screen Vte Perform Term Emit
  RowInv GridInv TextInv ScreenInv ParseSer CellWf WfGrid WfVte WfInv EraseSpec SgrSpec MoveSpec PrintSpec
  CellBytes EmitSafe Recv.
Open Scope N_scope.

(* a source row: shape, pairing, cell well-formedness, capacity, colour ranges *)
Record srow_ok (cols : N) (src : row) : Prop := mkSrow {
  sr_len : len (cells src) = cols;
  sr_ok : cells_ok (cells src);
  sr_wf : row_wf src;
  sr_cap : Forall cell_cap (cells src);
  sr_pen : Forall (fun c => pen_ok (cattrs c)) (cells src) }.

Lemma eout_e_attrs_plays R l r c e a : pen_ok a ->
  exists ts, eout (e_attrs e a) = eout e ++ ts /\ toks_scalar ts /\
             plays (rcv R l r c (eattrs e)) ts (rcv R l r c (eattrs (e_attrs e a))) /\
             eattrs (e_attrs e a) = a.
Proof.
  intros P. unfold e_attrs. destruct (attrs_eqb (eattrs e) a) eqn:E.
  - apply attrs_eqb_eq in E. exists [].
    split; [now rewrite app_nil_r|]. split; [constructor|]. split; [apply plays_nil|exact E].
  - exists (t_attrs_diff a (eattrs e)). cbn [eout eattrs].
    split; [reflexivity|]. split; [|split; [now apply plays_attrs_diff|reflexivity]].
    apply toks_scalar_nochars. intros cs Hin. unfold t_attrs_diff in Hin.
    destruct (sgr_diff a (eattrs e)); cbn in Hin; intuition discriminate.
Qed.

Lemma erase_toks_scalar n : toks_scalar (t_erase_char n).
Proof.
  apply toks_scalar_nochars. intros cs Hin. unfold t_erase_char in Hin.
  destruct (n =? 0); [destruct Hin|]. destruct (n =? 1); cbn in Hin; intuition discriminate.
Qed.

(* a cell with contents is its own painting *)
Lemma painted_self c : cell_wf c -> has_contents c = true -> painted c (cattrs c) = c.
Proof.
  intros W Hc. unfold painted. destruct c as [t w k a]. cbn [ctext cwide cattrs]. f_equal.
  destruct k; [|reflexivity]. pose proof (wf_cont_no_contents _ W eq_refl) as E. cbn in *. congruence.
Qed.

(* the second half of a wide cell of a well-formed, well-paired row *)
Lemma wf_cont_cell c : cell_wf c -> ccont c = true -> c = cont_cell.
Proof.
  intros W Hc. destruct W as (W1 & W2 & W3 & _). destruct c as [t w k a]. cbn in *. subst k.
  rewrite (W1 eq_refl), (W2 eq_refl), (W3 (W1 eq_refl)). reflexivity.
Qed.

(* an empty cell that is not a continuation *)
Lemma wf_empty_blank c : cell_wf c -> has_contents c = false -> ccont c = false -> c = EraseSpec.blank (cattrs c).
Proof.
  intros W Hc Hk. destruct W as (_ & _ & W3 & _). destruct c as [t w k a]. cbn in *. subst k.
  unfold has_contents in Hc. cbn in Hc. destruct t; [|discriminate]. rewrite (W3 eq_refl). reflexivity.
Qed.

Section RowPaint.
Variable R : screen.
Variable i : N.
Variable src : row.
Variable wrapping : bool.
Variable start : N.
Variable l0 : list row.
Variables ri0 rprev : row.
Variables r0 c0 : N.
Variable a0 : attrs.

Local Notation cols := (gcols (g R)).
Local Notation rows := (grows (g R)).
Local Notation sc := (cells src).

Hypothesis Hi : i < rows.
Hypothesis Hsrc : srow_ok cols src.
Hypothesis Hstart : start < cols.
Hypothesis Halign : fc sc start = false.
Hypothesis Hcv0 : cv R l0 r0 c0.
Hypothesis Hpen0 : pen_ok a0.
Hypothesis Hri0 : get l0 i = Some ri0.
Hypothesis Hblank0 : forall k, start <= k < cols -> get (cells ri0) k = Some cell_new.
Hypothesis Hunw0 : wrapped ri0 = false.
Hypothesis Hwrap : wrapping = true ->
  start = 0 /\ r0 + 1 = i /\ c0 = cols /\ get l0 r0 = Some rprev /\
  exists lc, get (cells rprev) (cols - 1) = Some lc /\ has_contents lc || ccont lc = true.

Definition flagged : list row := set_at l0 (i - 1) (row_wrap true rprev).
Definition Lof (e : est) : list row := if wrapping && (er e =? i) then flagged else l0.
Definition bnd (j : N) (pw : bool) (e : est) : N :=
  match eerase e with Some (pc, _) => pc | None => if pw then j + 1 else j end.

Record rowinv (ri : row) (b : N) : Prop := mkRowinv {
  rv_unw : wrapped ri = false;
  rv_pre : forall k, k < start -> get (cells ri) k = get (cells ri0) k;
  rv_mid : forall k, start <= k < b -> get (cells ri) k = get sc k;
  rv_post : forall k, b <= k < cols -> get (cells ri) k = Some cell_new }.

Definition erun_ok (j : N) (e : est) : Prop :=
  match eerase e with
  | Some (pc, ea) => start <= pc /\ pc < j /\ pen_ok ea /\
                     forall k, pc <= k < j -> get sc k = Some (EraseSpec.blank ea)
  | None => True
  end.

Definition occ (j : N) : bool :=
  match get sc (j - 1) with Some c => has_contents c || ccont c | None => false end.

Definition pinv (j : N) (pw : bool) (e : est) : Prop :=
  exists ri,
    plays (rcv R l0 r0 c0 a0) (eout e) (rcv R (set_at (Lof e) i ri) (er e) (ec e) (eattrs e)) /\
    cv R (set_at (Lof e) i ri) (er e) (ec e) /\
    rowinv ri (bnd j pw e) /\ pen_ok (eattrs e) /\ erun_ok j e /\
    (wrapping = true -> er e = i \/ (er e + 1 = i /\ ec e = cols /\ bnd j pw e = 0 /\
                                      (eerase e = None -> get sc 0 <> Some cell_new))) /\
    fc sc j = pw /\ start <= j /\ bnd j pw e <= cols /\ (pw = true -> eerase e = None) /\
    (start < j -> occ j = true -> eerase e = None -> er e = i /\ ec e = (if pw then j + 1 else j)).

Lemma rp_dims : 1 <= rows <= MAXDIM /\ 1 <= cols <= MAXDIM.
Proof. exact (cv_dims _ _ _ _ Hcv0). Qed.

Lemma get_Lof_i e ri : get (set_at (Lof e) i ri) i = Some ri.
Proof.
  rewrite get_set_at. destruct (N.eqb_spec i i); [|lia].
  assert (len (Lof e) = rows) as ->.
  { unfold Lof, flagged. destruct (_ && _); rewrite ?len_set_at; apply Hcv0. }
  destruct (N.ltb_spec i rows); [reflexivity|lia].
Qed.

Lemma set_Lof_twice e ri ri' : set_at (set_at (Lof e) i ri) i ri' = set_at (Lof e) i ri'.
Proof. apply set_at_set_at. Qed.

Lemma src_get j : j < cols -> exists c, get sc j = Some c /\ cell_wf c /\ cell_cap c /\ pen_ok (cattrs c).
Proof.
  intros Hj. destruct Hsrc as [L O W C P]. destruct (get_lt_some sc j) as (c & Hc); [lia|].
  exists c. split; [exact Hc|]. split; [eapply row_wf_get; eauto|].
  split; [exact (Forall_get _ _ _ _ C Hc)|exact (Forall_get _ _ _ _ P Hc)].
Qed.


Definition Lfin : list row := if wrapping then flagged else l0.

Lemma Lof_arrived e : er e = i -> Lof e = Lfin.
Proof. intros E. unfold Lof, Lfin. rewrite E, N.eqb_refl, andb_true_r. reflexivity. Qed.

Lemma Lof_nowrap e : wrapping = false -> Lof e = l0.
Proof. intros E. unfold Lof. now rewrite E. Qed.

Lemma Lof_pending e : er e + 1 = i -> Lof e = l0.
Proof. intros E. unfold Lof. destruct (N.eqb_spec (er e) i); [lia|]. now rewrite andb_false_r. Qed.

Lemma len_Lfin : len Lfin = rows.
Proof. unfold Lfin, flagged. destruct wrapping; rewrite ?len_set_at; apply Hcv0. Qed.

Lemma get_Lfin_i ri : get (set_at Lfin i ri) i = Some ri.
Proof.
  rewrite get_set_at. destruct (N.eqb_spec i i); [|lia]. rewrite len_Lfin.
  destruct (N.ltb_spec i rows); [reflexivity|lia].
Qed.

(* moving to (i, tc) from an arrived or non-wrapping state *)
Lemma arrive_move e ri tc : cv R (set_at (Lof e) i ri) (er e) (ec e) ->
  (wrapping = true -> er e = i) -> tc < cols ->
  exists ts, e_move e i tc = Ok (e_out e ts) /\ toks_scalar ts /\
    plays (rcv R (set_at (Lof e) i ri) (er e) (ec e) (eattrs e)) ts (rcv R (set_at Lfin i ri) i tc (eattrs e)) /\
    cv R (set_at Lfin i ri) i tc.
Proof.
  intros Hcv Hw Htc. destruct rp_dims as [D1 D2]. unfold MAXDIM in *.
  pose proof (cv_r _ _ _ _ Hcv) as Hr. pose proof (cv_c _ _ _ _ Hcv) as Hc.
  unfold e_move.
  destruct (t_move_from_to_ok (er e) (ec e) i tc) as (ts & Ets); try (unfold POSMAX; lia).
  rewrite Ets. cbn [bind]. exists ts. split; [reflexivity|].
  split; [eapply move_toks_scalar; eauto|].
  assert (Lof e = Lfin) as EL.
  { destruct wrapping eqn:Ew; [apply Lof_arrived; auto|]. unfold Lfin. rewrite Ew. now apply Lof_nowrap. }
  rewrite EL in *.
  split; [eapply plays_move_from_to; eauto|]. eapply cv_pos; eauto. lia.
Qed.

(* the receiver row while an erase run starting at pc is about to be flushed: painted before pc,
   flag-free cells from pc on, blank after pc *)
Record preflush (ri1 : row) (pc : N) : Prop := mkPreflush {
  pf_unw : wrapped ri1 = false;
  pf_pre : forall k, k < start -> get (cells ri1) k = get (cells ri0) k;
  pf_mid : forall k, start <= k < pc -> get (cells ri1) k = get sc k;
  pf_at : exists x, get (cells ri1) pc = Some x /\ cwide x = false /\ ccont x = false;
  pf_post : forall k, pc < k < cols -> get (cells ri1) k = Some cell_new }.

Lemma rowinv_preflush ri pc : pc < cols -> rowinv ri pc -> preflush ri pc.
Proof.
  intros Hpc [U P M Q]. split; auto.
  - exists cell_new. split; [apply Q; lia|split; reflexivity].
  - intros k Hk. apply Q. lia.
Qed.

(* first part of flush_erase: get the cursor to (i, pc), possibly through the pending wrap *)
Lemma flush_arrive e ri pc (K : est -> res est) :
  plays (rcv R l0 r0 c0 a0) (eout e) (rcv R (set_at (Lof e) i ri) (er e) (ec e) (eattrs e)) ->
  cv R (set_at (Lof e) i ri) (er e) (ec e) -> rowinv ri pc -> pc < cols -> start <= pc ->
  (wrapping = true -> er e = i \/ (er e + 1 = i /\ ec e = cols /\ pc = 0)) ->
  exists ts ri1,
    (do through <- (if wrapping then
                      do r1 <- add16 (er e) 1;
                      Ok ((r1 =? i) && (cols <=? ec e) && true)
                    else Ok false);
     do e1 <- (if through then
                 Ok (if 0 <? pc then e_out e [TChars (repeatN 32 pc)]
                     else e_out e [TChars [32]; t_bs])
               else e_move e i pc);
     K e1) = K (e_out e ts) /\
    plays (rcv R l0 r0 c0 a0) (eout e ++ ts) (rcv R (set_at Lfin i ri1) i pc (eattrs e)) /\
    cv R (set_at Lfin i ri1) i pc /\ preflush ri1 pc.
Proof.
  intros Hp Hcv Hri Hpc Hst Hw. destruct rp_dims as [D1 D2]. unfold MAXDIM in *.
  pose proof (cv_r _ _ _ _ Hcv) as Hr.
  assert ((wrapping = true -> er e = i) \/ (wrapping = true /\ er e + 1 = i /\ ec e = cols /\ pc = 0)) as [Ha|(Ew & E1 & E2 & E3)].
  { destruct wrapping; [|left; discriminate]. destruct (Hw eq_refl) as [Ha|Hb]; [left; auto|right; auto]. }
  - (* move *)
    destruct (arrive_move e ri pc Hcv Ha Hpc) as (ts & Em & Sc & Pm & Cm).
    exists ts, ri.
    assert ((if wrapping then
               do r1 <- add16 (er e) 1;
               Ok ((r1 =? i) && (cols <=? ec e) && true)
             else Ok false) = Ok false) as ->.
    { destruct wrapping; [|reflexivity]. rewrite add16_ok by lia. cbn [bind].
      rewrite (Ha eq_refl). destruct (N.eqb_spec (i + 1) i); [lia|reflexivity]. }
    cbn [bind]. rewrite Em. cbn [bind]. split; [reflexivity|].
    split; [eapply plays_app; eauto|]. split; [exact Cm|]. now apply rowinv_preflush.
  - (* through the pending wrap *)
    subst pc. destruct (Hwrap Ew) as (S0 & Er0 & Ec0 & Hprev & lc & Hlc & Occ).
    assert (er e = r0) as Ere by lia.
    exists [TChars [32]; t_bs], (put_cell ri 0 sp_cell (eattrs e)).
    rewrite Ew. rewrite add16_ok by lia. cbn [bind].
    rewrite E1, E2, N.eqb_refl. destruct (N.leb_spec cols cols); [|lia]. cbn [andb bind].
    change (0 <? 0) with false. cbv iota. split; [reflexivity|].
    rewrite (Lof_pending e E1) in *.
    assert (get (set_at l0 i ri) (er e) = Some rprev) as G1.
    { rewrite get_set_at. destruct (N.eqb_spec (er e) i); [lia|]. now rewrite Ere. }
    assert (get (set_at l0 i ri) (er e + 1) = Some ri) as G2.
    { rewrite E1. rewrite get_set_at. destruct (N.eqb_spec i i); [|lia].
      assert (len l0 = rows) as -> by apply Hcv0. destruct (N.ltb_spec i rows); [reflexivity|lia]. }
    assert (get (cells ri) 0 = Some cell_new) as C0 by (apply (rv_post _ _ Hri); lia).
    rewrite E2 in Hcv, Hp.
    pose proof (plays_cell_wraps R (set_at l0 i ri) (er e) (eattrs e) rprev ri sp_cell lc Hcv ltac:(lia) G1 G2 Hlc Occ
                  sp_cell_wf sp_cell_cap eq_refl ltac:(cbn; lia)) as P1.
    assert (slot_ok (cells ri) 0 (cwide sp_cell)) as Slot.
    { unfold slot_ok, fc, fw. rewrite C0. cbn. repeat split; auto; discriminate. }
    specialize (P1 Slot). cbn [ctext sp_cell] in P1.
    assert (set_at (set_at (set_at l0 i ri) (er e) (row_wrap true rprev)) (er e + 1) (put_cell ri 0 sp_cell (eattrs e))
            = set_at Lfin i (put_cell ri 0 sp_cell (eattrs e))) as EL.
    { rewrite E1. unfold Lfin, flagged. rewrite Ew. replace (i - 1) with (er e) by lia.
      rewrite (set_at_comm l0 i (er e)) by lia. apply set_at_set_at. }
    rewrite EL, E1 in P1. change (adv_n sp_cell) with 1 in P1.
    assert (cv R (set_at Lfin i (put_cell ri 0 sp_cell (eattrs e))) i 1) as C1.
    { eapply plays_cv; [exact Hcv|exact P1|]. apply toks_scalar_chars. constructor; [apply storable_32|constructor]. }
    pose proof (plays_bs R _ i 1 (eattrs e) C1) as P2. change (1 - 1) with 0 in P2.
    split; [|split].
    + eapply plays_app; [exact Hp|]. eapply plays_cons; [exact P1|exact P2].
    + eapply cv_pos; eauto. lia.
    + destruct Hri as [U P M Q]. split.
      * unfold put_cell. now rewrite put_raw_wrapped.
      * intros k Hk. lia.
      * intros k Hk. lia.
      * exists (painted sp_cell (eattrs e)). unfold put_cell. rewrite put_raw_cells.
        -- cbn. auto.
        -- cbn [cwide sp_cell]. destruct (cv_get _ _ _ _ i Hcv Hi) as (rwi & Gi & (Li & _) & _).
           rewrite E1 in G2. rewrite G2 in Gi. inv Gi. lia.
      * intros k Hk. unfold put_cell. rewrite put_raw_cells.
        -- destruct (N.eqb_spec k 0); [lia|]. cbn [cwide sp_cell]. rewrite andb_false_r. apply Q. lia.
        -- cbn [cwide sp_cell]. destruct (cv_get _ _ _ _ i Hcv Hi) as (rwi & Gi & (Li & _) & _).
           rewrite E1 in G2. rewrite G2 in Gi. inv Gi. lia.
Qed.

(* the row after the flush *)
Record flushed (ri' : row) (pc hi : N) (ea : attrs) : Prop := mkFlushed {
  fl_unw : wrapped ri' = false;
  fl_pre : forall k, k < start -> get (cells ri') k = get (cells ri0) k;
  fl_mid : forall k, start <= k < pc -> get (cells ri') k = get sc k;
  fl_run : forall k, pc <= k < hi -> get (cells ri') k = Some (EraseSpec.blank ea);
  fl_post : forall k, hi <= k < cols -> get (cells ri') k = Some cell_new }.

Lemma flush_gen e ri pc ea stop hi :
  plays (rcv R l0 r0 c0 a0) (eout e) (rcv R (set_at (Lof e) i ri) (er e) (ec e) (eattrs e)) ->
  cv R (set_at (Lof e) i ri) (er e) (ec e) -> rowinv ri pc -> start <= pc -> pen_ok ea ->
  (wrapping = true -> er e = i \/ (er e + 1 = i /\ ec e = cols /\ pc = 0)) ->
  (stop = Some hi /\ pc < hi <= cols) \/ (stop = None /\ hi = cols /\ pc < cols) ->
  exists e' ri',
    flush_erase false wrapping cols i e pc ea stop = Ok e' /\
    plays (rcv R l0 r0 c0 a0) (eout e') (rcv R (set_at Lfin i ri') i pc ea) /\
    cv R (set_at Lfin i ri') i pc /\
    er e' = i /\ ec e' = pc /\ eattrs e' = ea /\ eerase e' = None /\
    flushed ri' pc hi ea.
Proof.
  intros Hp Hcv Hri Hst Pea Hw Hstop. destruct rp_dims as [D1 D2]. unfold MAXDIM in *.
  assert (pc < cols) as Hpc by (destruct Hstop as [(_ & ?)|(_ & _ & ?)]; lia).
  set (K := fun e1 : est =>
              let e2 := e_attrs (e_pos e1 i pc) ea in
              match stop with
              | Some col => do n <- sub16 col pc; Ok (e_erase (e_out e2 (t_erase_char n)) None)
              | None => Ok (e_erase (e_out e2 [t_clear_row_forward]) None)
              end).
  destruct (flush_arrive e ri pc K Hp Hcv Hri Hpc Hst Hw) as (ts & ri1 & Efl & P1 & C1 & [U1 Pre1 Mid1 (x & Hx & Xw & Xc) Post1]).
  assert (flush_erase false wrapping cols i e pc ea stop = K (e_out e ts)) as -> by exact Efl.
  unfold K. clear Efl K.
  cbv beta zeta.
  set (e1 := e_pos (e_out e ts) i pc).
  destruct (eout_e_attrs_plays R (set_at Lfin i ri1) i pc e1 ea Pea) as (ts2 & Eo2 & Sc2 & P2 & Ea2).
  change (eattrs e1) with (eattrs e) in P2. change (eout e1) with (eout e ++ ts) in Eo2.
  rewrite Ea2 in P2.
  pose proof (get_Lfin_i ri1) as Gi.
  destruct (cv_get _ _ _ _ i C1 Hi) as (rwi & Gi' & (Li & Oki) & Wi). rewrite Gi in Gi'. inv Gi'.
  assert (fc (cells rwi) pc = false) as F1 by (unfold fc; rewrite Hx; exact Xc).
  destruct Hstop as [(-> & Hhi)|(-> & -> & _)].
  - (* ECH *)
    rewrite sub16_ok by lia. cbn [bind].
    destruct (plays_ech R (set_at Lfin i rwi) i pc ea (hi - pc) rwi C1 Gi Wi ltac:(lia))
      as (rw' & Er & Ok' & W' & P3).
    replace (N.min (pc + (hi - pc)) cols) with hi in Er by lia.
    rewrite set_at_set_at in P3.
    assert (fw (cells rwi) (hi - 1) = false) as F2.
    { unfold fw. destruct (N.eq_dec (hi - 1) pc) as [->|Hn]; [rewrite Hx; exact Xw|].
      rewrite Post1 by lia. reflexivity. }
    destruct (erased_nocut _ _ _ _ _ _ Er F1 F2) as [EC EW].
    eexists _, rw'. split; [reflexivity|].
    cbn [e_erase e_out eout er ec eattrs eerase]. rewrite er_e_attrs, ec_e_attrs, Ea2, Eo2.
    split; [|split; [|repeat split; try reflexivity]].
    + rewrite <- app_assoc. eapply plays_app; [exact P1|]. eapply plays_app; [exact P2|exact P3].
    + eapply plays_cv; [exact C1|exact P3|apply erase_toks_scalar].
    + rewrite EW, U1. destruct (in_rng pc hi (cols - 1)); reflexivity.
    + intros k Hk. rewrite EC. unfold in_rng. destruct (N.leb_spec pc k); [lia|]. cbn [andb]. now apply Pre1.
    + intros k Hk. rewrite EC. unfold in_rng. destruct (N.leb_spec pc k); [lia|]. cbn [andb]. now apply Mid1.
    + intros k Hk. rewrite EC. unfold in_rng. destruct (N.leb_spec pc k), (N.ltb_spec k hi); try lia. reflexivity.
    + intros k Hk. rewrite EC. unfold in_rng. destruct (N.leb_spec pc k), (N.ltb_spec k hi); try lia. cbn [andb].
      apply Post1. lia.
  - (* EL *)
    destruct (plays_el0 R (set_at Lfin i rwi) i pc ea rwi C1 Gi Wi) as (rw' & Er & Ok' & W' & P3).
    rewrite set_at_set_at in P3.
    assert (fw (cells rwi) (cols - 1) = false) as F2.
    { unfold fw. destruct (N.eq_dec (cols - 1) pc) as [->|Hn]; [rewrite Hx; exact Xw|].
      rewrite Post1 by lia. reflexivity. }
    destruct (erased_nocut _ _ _ _ _ _ Er F1 F2) as [EC EW].
    eexists _, rw'. split; [reflexivity|].
    cbn [e_erase e_out eout er ec eattrs eerase]. rewrite er_e_attrs, ec_e_attrs, Ea2, Eo2.
    split; [|split; [|repeat split; try reflexivity]].
    + rewrite <- app_assoc. eapply plays_app; [exact P1|]. eapply plays_app; [exact P2|exact P3].
    + eapply plays_cv; [exact C1|exact P3|]. apply toks_scalar_nochars. intros cs Hin. cbn in Hin; intuition discriminate.
    + rewrite EW, U1. destruct (in_rng pc cols (cols - 1)); reflexivity.
    + intros k Hk. rewrite EC. unfold in_rng. destruct (N.leb_spec pc k); [lia|]. cbn [andb]. now apply Pre1.
    + intros k Hk. rewrite EC. unfold in_rng. destruct (N.leb_spec pc k); [lia|]. cbn [andb]. now apply Mid1.
    + intros k Hk. rewrite EC. unfold in_rng. destruct (N.leb_spec pc k), (N.ltb_spec k cols); try lia. reflexivity.
    + intros k Hk. lia.
Qed.

Lemma occ_blank j ea : get sc (j - 1) = Some (EraseSpec.blank ea) -> occ j = false.
Proof. intros H. unfold occ. rewrite H. reflexivity. Qed.

(* closing the run at column j keeps the invariant *)
Lemma flush_inv j e pc ea : pinv j false e -> eerase e = Some (pc, ea) -> j <= cols ->
  exists e', flush_erase false wrapping cols i e pc ea (Some j) = Ok e' /\ pinv j false e' /\ eerase e' = None.
Proof.
  intros (ri & Hp & Hcv & Hri & Pa & Hrun & Hw & Hfc & Hst & Hb & Hpw & Hocc) Ee Hj.
  unfold erun_ok in Hrun. unfold bnd in Hri, Hw, Hb. rewrite Ee in Hrun, Hri, Hw, Hb.
  destruct Hrun as (R1 & R2 & R3 & R4).
  destruct (flush_gen e ri pc ea (Some j) j Hp Hcv Hri R1 R3) as (e' & ri' & Ef & P' & C' & E1 & E2 & E3 & E4 & [U Pre Mid Run Post]).
  { intros Ew. destruct (Hw Ew) as [?|(? & ? & ? & _)]; auto. }
  { left. split; [reflexivity|lia]. }
  exists e'. split; [exact Ef|]. split; [|exact E4].
  exists ri'. rewrite (Lof_arrived e' E1), E1, E2, E3. unfold bnd, erun_ok. rewrite E4.
  split; [exact P'|]. split; [exact C'|]. split; [|split; [exact R3|split; [exact I|]]].
  - split; auto. intros k Hk. destruct (N.lt_ge_cases k pc); [apply Mid; lia|].
    rewrite Run by lia. symmetry. apply R4. lia.
  - split; [intros _; now left|]. split; [exact Hfc|]. split; [exact Hst|]. split; [lia|].
    split; [discriminate|]. intros Hsj Ho. rewrite (occ_blank j ea) in Ho; [discriminate|]. apply R4. lia.
Qed.

(* the first phase of emit_cell *)
Lemma cell_phase1 j e c : pinv j false e -> get sc j = Some c -> j < cols ->
  exists e1,
    match eerase e with
    | Some (pc, a) =>
        if has_contents c || negb (attrs_eqb (cattrs c) a)
        then flush_erase false wrapping cols i e pc a (Some j) else Ok e
    | None => Ok e
    end = Ok e1 /\ pinv j false e1 /\
    (eerase e1 = None \/ exists pc, eerase e1 = Some (pc, cattrs c) /\ has_contents c = false).
Proof.
  intros Hinv Hc Hj. destruct (eerase e) as [[pc a]|] eqn:Ee.
  - destruct (has_contents c) eqn:Hhc; cbn [orb].
    + destruct (flush_inv j e pc a Hinv Ee ltac:(lia)) as (e' & Ef & Hi' & En). exists e'. auto.
    + destruct (attrs_eqb (cattrs c) a) eqn:Ea; cbn [negb].
      * apply attrs_eqb_eq in Ea. subst a. exists e. split; [reflexivity|]. split; [exact Hinv|]. right. eauto.
      * destruct (flush_inv j e pc a Hinv Ee ltac:(lia)) as (e' & Ef & Hi' & En). exists e'. auto.
  - exists e. auto.
Qed.

Lemma fc_next j c : get sc j = Some c -> fc sc (j + 1) = cwide c.
Proof. intros H. rewrite <- (ok_pair _ (sr_ok _ _ Hsrc) j). now apply fw_get. Qed.

(* a skipped (default) cell *)
Lemma cell_skip j e : pinv j false e -> get sc j = Some cell_new -> j < cols ->
  (eerase e = None \/ exists pc, eerase e = Some (pc, dflt)) -> pinv (j + 1) false e.
Proof.
  intros (ri & Hp & Hcv & Hri & Pa & Hrun & Hw & Hfc & Hst & Hb & Hpw & Hocc) Hc Hj Hcase.
  exists ri. split; [exact Hp|]. split; [exact Hcv|].
  destruct Hcase as [En|(pc & Ee)].
  - unfold bnd, erun_ok in *. rewrite En in *.
    split; [|split; [exact Pa|split; [exact I|]]].
    + destruct Hri as [U P M Q]. split; auto.
      * intros k Hk. destruct (N.eq_dec k j) as [->|]; [|apply M; lia]. rewrite Hc. apply Q. lia.
      * intros k Hk. apply Q. lia.
    + split.
      { intros Ew. destruct (Hw Ew) as [?|(E1 & E2 & E3 & E4)]; [now left|]. subst j. exfalso. now apply E4. }
      split; [rewrite (fc_next j _ Hc); reflexivity|]. split; [lia|]. split; [lia|]. split; [discriminate|].
      intros _ Ho. unfold occ in Ho. replace (j + 1 - 1) with j in Ho by lia. rewrite Hc in Ho. discriminate.
  - unfold bnd, erun_ok in *. rewrite Ee in *. destruct Hrun as (R1 & R2 & R3 & R4).
    split; [exact Hri|]. split; [exact Pa|]. split.
    { split; [exact R1|]. split; [lia|]. split; [exact R3|]. intros k Hk.
      destruct (N.eq_dec k j) as [->|]; [exact Hc|apply R4; lia]. }
    split.
    { intros Ew. destruct (Hw Ew) as [?|(E1 & E2 & E3 & E4)]; [now left|]. right. repeat split; auto; discriminate. }
    split; [rewrite (fc_next j _ Hc); reflexivity|]. split; [lia|]. split; [lia|]. split; [discriminate|].
    intros _ Ho. unfold occ in Ho. replace (j + 1 - 1) with j in Ho by lia. rewrite Hc in Ho. discriminate.
Qed.

(* an empty, non-default cell: opens or continues an erase run *)
Lemma cell_run j e c : pinv j false e -> get sc j = Some c -> j < cols -> has_contents c = false ->
  cell_wf c -> pen_ok (cattrs c) ->
  (eerase e = None \/ exists pc, eerase e = Some (pc, cattrs c)) ->
  pinv (j + 1) false (match eerase e with None => e_erase e (Some (j, cattrs c)) | Some _ => e end).
Proof.
  intros (ri & Hp & Hcv & Hri & Pa & Hrun & Hw & Hfc & Hst & Hb & Hpw & Hocc) Hc Hj Hhc Wc Pc Hcase.
  assert (ccont c = false) as Hk by (rewrite <- (fc_get _ _ _ Hc); exact Hfc).
  pose proof (wf_empty_blank c Wc Hhc Hk) as Eb.
  assert (occ (j + 1) = false) as Ho.
  { unfold occ. replace (j + 1 - 1) with j by lia. rewrite Hc, Hhc, Hk. reflexivity. }
  assert (fc sc (j + 1) = false) as Hfc'.
  { rewrite (fc_next j _ Hc). rewrite Eb. reflexivity. }
  destruct Hcase as [En|(pc & Ee)].
  - rewrite En. exists ri. unfold bnd, erun_ok in *. rewrite En in *.
    change (Lof (e_erase e (Some (j, cattrs c)))) with (Lof e). cbn [e_erase eout er ec eattrs eerase].
    split; [exact Hp|]. split; [exact Hcv|]. split; [exact Hri|]. split; [exact Pa|]. split.
    { split; [exact Hst|]. split; [lia|]. split; [exact Pc|]. intros k Hk'. assert (k = j) as -> by lia. now rewrite Hc, Eb at 1. }
    split.
    { intros Ew. destruct (Hw Ew) as [?|(E1 & E2 & E3 & E4)]; [now left|]. right. repeat split; auto; discriminate. }
    split; [exact Hfc'|]. split; [lia|]. split; [lia|]. split; [discriminate|]. intros _ Ho'. congruence.
  - rewrite Ee. exists ri. unfold bnd, erun_ok in *. rewrite Ee in *. destruct Hrun as (R1 & R2 & R3 & R4).
    split; [exact Hp|]. split; [exact Hcv|]. split; [exact Hri|]. split; [exact Pa|]. split.
    { split; [exact R1|]. split; [lia|]. split; [exact R3|]. intros k Hk'.
      destruct (N.eq_dec k j) as [->|]; [now rewrite Hc, Eb at 1|apply R4; lia]. }
    split.
    { intros Ew. destruct (Hw Ew) as [?|(E1 & E2 & E3 & E4)]; [now left|]. right. repeat split; auto; discriminate. }
    split; [exact Hfc'|]. split; [lia|]. split; [lia|]. split; [discriminate|]. intros _ Ho'. congruence.
Qed.

(* getting the cursor to (i, j) before printing cell c; either it is moved there, or the pending
   wrap will take it there *)
Lemma print_arrive e ri j c (K : est -> res est) :
  plays (rcv R l0 r0 c0 a0) (eout e) (rcv R (set_at (Lof e) i ri) (er e) (ec e) (eattrs e)) ->
  cv R (set_at (Lof e) i ri) (er e) (ec e) -> j < cols ->
  (wrapping = true -> er e = i \/ (er e + 1 = i /\ ec e = cols /\ j = 0)) ->
  exists e2,
    (do e2 <- (if (er e =? i) && (ec e =? j) then Ok e
               else
                 do need <- (if wrapping then
                               do r1 <- add16 (er e) 1;
                               if negb (r1 =? i) then Ok true
                               else do lim <- sub16 cols (wide_n c);
                                    Ok ((ec e <? lim) || negb (j =? 0))
                             else Ok true);
                 do e' <- (if need then e_move e i j else Ok e);
                 Ok (e_pos e' i j));
     K e2) = K e2 /\
    er e2 = i /\ ec e2 = j /\ eattrs e2 = eattrs e /\ eerase e2 = eerase e /\
    ((plays (rcv R l0 r0 c0 a0) (eout e2) (rcv R (set_at Lfin i ri) i j (eattrs e)) /\ cv R (set_at Lfin i ri) i j) \/
     (wrapping = true /\ j = 0 /\ eout e2 = eout e /\ er e + 1 = i /\ ec e = cols)).
Proof.
  intros Hp Hcv Hj Hw. destruct rp_dims as [D1 D2]. unfold MAXDIM in *.
  pose proof (cv_r _ _ _ _ Hcv) as Hr.
  destruct (N.eqb_spec (er e) i) as [Ei|Ni]; [destruct (N.eqb_spec (ec e) j) as [Ej|Nj]|]; cbn [andb].
  - (* already there *)
    exists e. cbn [bind]. split; [reflexivity|]. repeat split; auto. left.
    rewrite (Lof_arrived e Ei), Ei, Ej in *. auto.
  - (* same row, other column *)
    destruct (arrive_move e ri j Hcv ltac:(auto) Hj) as (ts & Em & Sc & Pm & Cm).
    exists (e_pos (e_out e ts) i j).
    assert ((if wrapping then
               do r1 <- add16 (er e) 1;
               if negb (r1 =? i) then Ok true
               else do lim <- sub16 cols (wide_n c); Ok ((ec e <? lim) || negb (j =? 0))
             else Ok true) = Ok true) as ->.
    { destruct wrapping; [|reflexivity]. rewrite add16_ok by lia. cbn [bind].
      rewrite Ei. destruct (N.eqb_spec (i + 1) i); [lia|reflexivity]. }
    cbn [bind]. rewrite Em. cbn [bind]. split; [reflexivity|]. repeat split; auto. left.
    split; [eapply plays_app; eauto|exact Cm].
  - destruct (Bool.bool_dec wrapping true) as [Ew|Ew].
    + destruct (Hw Ew) as [?|(E1 & E2 & E3)]; [contradiction|]. subst j.
      exists (e_pos e i 0). rewrite Ew. rewrite add16_ok by lia. cbn [bind].
      rewrite E1, N.eqb_refl. cbn [negb].
      rewrite sub16_ok by (unfold wide_n; destruct (cwide c); lia). cbn [bind].
      rewrite E2. destruct (N.ltb_spec cols (cols - wide_n c)); [lia|]. cbn [orb negb bind].
      split; [reflexivity|]. split; [reflexivity|]. split; [reflexivity|]. split; [reflexivity|].
      split; [reflexivity|]. right. repeat split; auto.
    + apply Bool.not_true_is_false in Ew.
      destruct (arrive_move e ri j Hcv ltac:(rewrite Ew; discriminate) Hj) as (ts & Em & Sc & Pm & Cm).
      exists (e_pos (e_out e ts) i j). rewrite Ew. cbn [bind]. rewrite Em. cbn [bind].
      split; [reflexivity|]. repeat split; auto. left.
      split; [eapply plays_app; eauto|exact Cm].
Qed.

(* a cell with contents *)
Lemma cell_print j e c : pinv j false e -> eerase e = None -> get sc j = Some c -> j < cols ->
  has_contents c = true -> cell_wf c -> cell_cap c -> pen_ok (cattrs c) ->
  exists e',
    (do e2 <- (if (er e =? i) && (ec e =? j) then Ok e
               else
                 do need <- (if wrapping then
                               do r1 <- add16 (er e) 1;
                               if negb (r1 =? i) then Ok true
                               else do lim <- sub16 cols (wide_n c);
                                    Ok ((ec e <? lim) || negb (j =? 0))
                             else Ok true);
                 do e' <- (if need then e_move e i j else Ok e);
                 Ok (e_pos e' i j));
     let e3 := e_attrs e2 (cattrs c) in
     do nc <- add16 (ec e3) (adv_n c);
     Ok (e_out (e_pos e3 (er e3) nc) [TChars (ctext c)])) = Ok e' /\
    pinv (j + 1) (cwide c) e'.
Proof.
  intros (ri & Hp & Hcv & Hri & Pa & Hrun & Hw & Hfc & Hst & Hb & Hpw & Hocc) En Hc Hj Hhc Wc Cc Pc.
  destruct rp_dims as [D1 D2]. unfold MAXDIM in *.
  unfold bnd in Hri, Hw, Hb. rewrite En in Hri, Hw, Hb.
  pose proof (adv_fits _ _ _ (sr_ok _ _ Hsrc) Hc) as Hfit. rewrite (sr_len _ _ Hsrc) in Hfit.
  set (K := fun e2 : est =>
              let e3 := e_attrs e2 (cattrs c) in
              do nc <- add16 (ec e3) (adv_n c);
              Ok (e_out (e_pos e3 (er e3) nc) [TChars (ctext c)])).
  destruct (print_arrive e ri j c K Hp Hcv Hj) as (e2 & EK & E1 & E2 & E3 & E4 & Hcase).
  { intros Ew. destruct (Hw Ew) as [?|(? & ? & ? & _)]; auto. }
  match goal with |- exists e', ?lhs = Ok e' /\ _ => assert (lhs = K e2) as -> by exact EK end.
  unfold K. clear EK K. cbv zeta.
  rewrite ec_e_attrs, er_e_attrs, E1, E2. rewrite add16_ok by (pose proof (adv_n_le c); lia). cbn [bind].
  eexists; split; [reflexivity|].
  (* the row after printing *)
  set (ri' := put_cell ri j c (cattrs c)).
  assert (slot_ok (cells ri) j (cwide c)) as Slot.
  { destruct Hri as [U P M Q]. unfold slot_ok, fc, fw. rewrite (Q j) by lia.
    split; [reflexivity|]. split; [reflexivity|]. intros Hwide. unfold adv_n in Hfit. rewrite Hwide in Hfit.
    rewrite (Q (j + 1)) by lia. reflexivity. }
  assert (rowinv ri' (j + adv_n c)) as Hri'.
  { destruct Hri as [U P M Q].
    assert (len (cells ri) = cols) as Lri.
    { pose proof (get_Lof_i e ri) as Gi. destruct (cv_get _ _ _ _ i Hcv Hi) as (x & Gx & (Lx & _) & _). congruence. }
    assert (j + (if cwide c then 2 else 1) <= len (cells ri)) as Hfit' by (unfold adv_n in Hfit; rewrite Lri; exact Hfit).
    unfold ri', put_cell. split.
    - now rewrite put_raw_wrapped.
    - intros k Hk. rewrite put_raw_cells by exact Hfit'.
      destruct (N.eqb_spec k j); [lia|]. destruct (N.eqb_spec k (j + 1)); [lia|]. cbn [andb]. apply P, Hk.
    - intros k Hk. rewrite put_raw_cells by exact Hfit'.
      destruct (N.eqb_spec k j) as [->|Nk]; [rewrite (painted_self c Wc Hhc); now rewrite Hc|].
      destruct (N.eqb_spec k (j + 1)) as [->|Nk1]; cbn [andb].
      + destruct (cwide c) eqn:Ewd.
        * destruct (ok_wide_next _ _ _ (sr_ok _ _ Hsrc) Hc Ewd) as (d & Hd & Dc & _). rewrite Hd. f_equal. symmetry.
          apply wf_cont_cell; [|exact Dc]. eapply row_wf_get; [apply (sr_wf _ _ Hsrc)|exact Hd].
        * unfold adv_n in Hk. rewrite Ewd in Hk. lia.
      + apply M. unfold adv_n in Hk. destruct (cwide c); lia.
    - intros k Hk. rewrite put_raw_cells by exact Hfit'. pose proof (adv_n_le c).
      destruct (N.eqb_spec k j); [lia|]. destruct (N.eqb_spec k (j + 1)) as [->|]; cbn [andb].
      + destruct (cwide c) eqn:Ewd; [unfold adv_n in Hk; rewrite Ewd in Hk; lia|]. apply Q. lia.
      + apply Q. lia. }
  (* pen *)
  destruct (eout_e_attrs_plays R (set_at Lfin i ri) i j e2 (cattrs c) Pc) as (ts2 & Eo2 & Sc2 & P2 & Ea2).
  exists ri'. rewrite Lof_arrived by reflexivity. unfold bnd, erun_ok.
  cbn [e_out e_pos eout er ec eattrs eerase]. rewrite !eerase_e_attrs, !E4, !En.
  rewrite Ea2, Eo2.
  assert (plays (rcv R l0 r0 c0 a0) ((eout e2 ++ ts2) ++ [TChars (ctext c)])
                (rcv R (set_at Lfin i ri') i (j + adv_n c) (cattrs c)) /\
          cv R (set_at Lfin i ri') i (j + adv_n c)) as [Pfin Cfin].
  { destruct Hcase as [[Pn Cn]|(Ew & -> & Eo & Er1 & Ec1)].
    - (* printed at (i, j) *)
      rewrite E3, Ea2 in P2.
      pose proof (plays_cell R (set_at Lfin i ri) i j (cattrs c) ri c Cn (get_Lfin_i ri) Wc Cc Hhc Hfit Slot) as P3.
      rewrite set_at_set_at in P3. fold ri' in P3.
      split.
      + eapply plays_app; [eapply plays_app; [exact Pn|exact P2]|exact P3].
      + eapply plays_cv; [exact Cn|exact P3|]. apply toks_scalar_chars, (wf_storable _ Wc).
    - (* printed through the pending wrap *)
      destruct (Hwrap Ew) as (S0 & Er0 & Ec0 & Hprev & lc & Hlc & Occ).
      assert (er e = r0) as Ere by lia.
      rewrite (Lof_pending e Er1) in *. rewrite Ec1 in *.
      assert (get (set_at l0 i ri) (er e) = Some rprev) as G1.
      { rewrite get_set_at. destruct (N.eqb_spec (er e) i); [lia|]. now rewrite Ere. }
      assert (get (set_at l0 i ri) (er e + 1) = Some ri) as G2.
      { rewrite Er1. rewrite get_set_at. destruct (N.eqb_spec i i); [|lia].
        assert (len l0 = rows) as -> by apply Hcv0. destruct (N.ltb_spec i rows); [reflexivity|lia]. }
      pose proof (eout_e_attrs_plays R (set_at l0 i ri) (er e) cols e2 (cattrs c) Pc) as (ts2' & Eo2' & _ & P2' & _).
      rewrite Eo2 in Eo2'. apply app_inv_head in Eo2'. subst ts2'. rewrite Ea2, E3 in P2'.
      assert (cv R (set_at l0 i ri) (er e) cols) as Hcv' by exact Hcv.
      pose proof (plays_cell_wraps R (set_at l0 i ri) (er e) (cattrs c) rprev ri c lc Hcv' ltac:(lia) G1 G2 Hlc Occ
                    Wc Cc Hhc ltac:(lia) Slot) as P3.
      assert (set_at (set_at (set_at l0 i ri) (er e) (row_wrap true rprev)) (er e + 1) (put_cell ri 0 c (cattrs c))
              = set_at Lfin i ri') as EL.
      { rewrite Er1. unfold Lfin, flagged, ri'. rewrite Ew. replace (i - 1) with (er e) by lia.
        rewrite (set_at_comm l0 i (er e)) by lia. apply set_at_set_at. }
      rewrite EL, Er1 in P3. rewrite Eo. split.
      + eapply plays_app; [eapply plays_app; [exact Hp|exact P2']|exact P3].
      + eapply plays_cv; [exact Hcv'|exact P3|]. apply toks_scalar_chars, (wf_storable _ Wc). }
  split; [exact Pfin|]. split; [exact Cfin|].
  assert ((if cwide c then j + 1 + 1 else j + 1) = j + adv_n c) as Eb by (unfold adv_n; destruct (cwide c); lia).
  rewrite Eb. split; [exact Hri'|]. split; [exact Pc|]. split; [exact I|].
  split; [intros _; now left|]. split; [apply (fc_next j c Hc)|]. split; [lia|]. split; [lia|].
  split; [reflexivity|]. intros _ _ _. split; [reflexivity|]. unfold adv_n. destruct (cwide c); lia.
Qed.

(* one cell of the loop *)
Lemma emit_cell_inv j e c : pinv j false e -> get sc j = Some c -> j < cols ->
  exists e', emit_cell false wrapping cols i e j c (cell_eqb c cell_new) = Ok e' /\ pinv (j + 1) (cwide c) e'.
Proof.
  intros Hinv Hc Hj. destruct (src_get j Hj) as (c' & Hc' & Wc & Cc & Pc). rewrite Hc in Hc'. inv Hc'.
  unfold emit_cell.
  destruct (cell_phase1 j e c' Hinv Hc Hj) as (e1 & -> & Hinv1 & Hcase). cbn [bind].
  destruct (cell_eqb c' cell_new) eqn:Esk.
  - apply cell_eqb_eq in Esk. subst c'. eexists; split; [reflexivity|]. cbn [cwide cell_new].
    apply cell_skip; auto. destruct Hcase as [?|(pc & ? & _)]; [now left|right; eauto].
  - destruct (has_contents c') eqn:Hhc.
    + destruct Hcase as [En|(pc & _ & ?)]; [|discriminate].
      exact (cell_print j e1 c' Hinv1 En Hc Hj Hhc Wc Cc Pc).
    + assert (cwide c' = false) as ->.
      { destruct Wc as (_ & _ & W3 & _). apply W3. unfold has_contents in Hhc. destruct (ctext c'); [reflexivity|discriminate]. }
      pose proof (cell_run j e1 c' Hinv1 Hc Hj Hhc Wc Pc) as Hr.
      destruct (eerase e1) as [[pc a]|] eqn:Ee1.
      * eexists; split; [reflexivity|]. apply Hr. destruct Hcase as [?|(pc' & E & _)]; [discriminate|]. right. inv E. eauto.
      * eexists; split; [reflexivity|]. apply Hr. now left.
Qed.

(* the second half of a wide cell is skipped by the loop *)
Lemma cont_skip j e : pinv j true e -> j < cols -> pinv (j + 1) false e.
Proof.
  intros (ri & Hp & Hcv & Hri & Pa & Hrun & Hw & Hfc & Hst & Hb & Hpw & Hocc) Hj.
  pose proof (Hpw eq_refl) as En. unfold bnd, erun_ok in *. rewrite En in *.
  apply fc_true in Hfc as (d & Hd & Dc).
  destruct (ok_cont_prev _ _ _ (sr_ok _ _ Hsrc) Hd Dc) as (Hpos & d' & Hd' & Dw' & _ & Dw).
  assert (start < j) as Hsj.
  { destruct (N.eq_dec j start) as [->|]; [|lia]. rewrite (fc_get _ _ _ Hd) in Halign. congruence. }
  assert (occ j = true) as Ho.
  { unfold occ. rewrite Hd'. rewrite wf_wide_has_contents; auto. eapply row_wf_get; [apply (sr_wf _ _ Hsrc)|exact Hd']. }
  exists ri. unfold bnd, erun_ok. rewrite !En.
  split; [exact Hp|]. split; [exact Hcv|]. split; [exact Hri|]. split; [exact Pa|]. split; [exact I|].
  split; [exact Hw|]. split; [rewrite (fc_next j d Hd); exact Dw|]. split; [lia|]. split; [exact Hb|].
  split; [discriminate|]. intros _ _ _. apply (Hocc Hsj Ho eq_refl).
Qed.

Lemma emit_loop_inv : forall cs j pw e, pinv j pw e ->
  (forall k, k < len cs -> get sc (j + k) = get cs k) -> j + len cs <= cols ->
  exists e' pw', emit_loop false wrapping cols i (map (fun c => (c, cell_eqb c cell_new)) cs) j pw e = Ok e' /\
                 pinv (j + len cs) pw' e'.
Proof.
  induction cs as [|c cs IH]; intros j pw e Hinv Hseg Hlen.
  - exists e, pw. split; [reflexivity|]. rewrite len_nil. replace (j + 0) with j by lia. exact Hinv.
  - rewrite len_cons in *. cbn [map emit_loop].
    assert (get sc j = Some c) as Hc.
    { specialize (Hseg 0 ltac:(lia)). replace (j + 0) with j in Hseg by lia. exact Hseg. }
    assert (forall k, k < len cs -> get sc (j + 1 + k) = get cs k) as Hseg'.
    { intros k Hk. specialize (Hseg (k + 1) ltac:(lia)). rewrite get_cons in Hseg.
      destruct (N.eqb_spec (k + 1) 0); [lia|]. replace (k + 1 - 1) with k in Hseg by lia.
      replace (j + 1 + k) with (j + (k + 1)) by lia. exact Hseg. }
    destruct pw.
    + destruct (IH (j + 1) false e (cont_skip j e Hinv ltac:(lia)) Hseg' ltac:(lia)) as (e' & pw' & E & Hi').
      exists e', pw'. split; [exact E|]. replace (j + (len cs + 1)) with (j + 1 + len cs) by lia. exact Hi'.
    + destruct (emit_cell_inv j e c Hinv Hc ltac:(lia)) as (e1 & -> & Hi1). cbn [bind].
      destruct (IH (j + 1) (cwide c) e1 Hi1 Hseg' ltac:(lia)) as (e' & pw' & E & Hi').
      exists e', pw'. split; [exact E|]. replace (j + (len cs + 1)) with (j + 1 + len cs) by lia. exact Hi'.
Qed.

(* the receiver row at the end: the window [start, hi) reproduced, the rest of the line blank
   (with some attributes: EL carries the pen of the last erase run) *)
Record painted_row (ri : row) (hi : N) : Prop := mkPainted {
  pr_unw : wrapped ri = false;
  pr_pre : forall k, k < start -> get (cells ri) k = get (cells ri0) k;
  pr_mid : forall k, start <= k < hi -> get (cells ri) k = get sc k;
  pr_post : exists ea, forall k, hi <= k < cols -> get (cells ri) k = Some (EraseSpec.blank ea) }.

Lemma finish_inv j pw e : pinv j pw e -> start < j -> j <= cols ->
  exists e' ri, finish_erase false wrapping cols i e = Ok e' /\
    plays (rcv R l0 r0 c0 a0) (eout e') (rcv R (set_at Lfin i ri) (er e') (ec e') (eattrs e')) /\
    cv R (set_at Lfin i ri) (er e') (ec e') /\ pen_ok (eattrs e') /\
    painted_row ri (if pw then j + 1 else j) /\
    (wrapping = true -> er e' = i) /\
    (occ j = true -> er e' = i /\ ec e' = (if pw then j + 1 else j)).
Proof.
  intros (ri & Hp & Hcv & Hri & Pa & Hrun & Hw & Hfc & Hst & Hb & Hpw & Hocc) Hsj Hj.
  unfold finish_erase. destruct (eerase e) as [[pc ea]|] eqn:Ee.
  - unfold erun_ok, bnd in *. rewrite Ee in *. destruct Hrun as (R1 & R2 & R3 & R4).
    destruct (flush_gen e ri pc ea None cols Hp Hcv Hri R1 R3) as (e' & ri' & Ef & P' & C' & E1 & E2 & E3 & E4 & [U Pre Mid Run Post]).
    { intros Ew. destruct (Hw Ew) as [?|(? & ? & ? & _)]; auto. }
    { right. repeat split; auto. lia. }
    assert (pw = false) as -> by (destruct pw; [discriminate (Hpw eq_refl)|reflexivity]).
    exists e', ri'. split; [exact Ef|]. rewrite E1, E2, E3.
    split; [exact P'|]. split; [exact C'|]. split; [exact R3|]. split.
    { split; auto.
      - intros k Hk. destruct (N.lt_ge_cases k pc); [apply Mid; lia|]. rewrite Run by lia. symmetry. apply R4. lia.
      - exists ea. intros k Hk. apply Run. lia. }
    split; [reflexivity|]. intros Ho. rewrite (occ_blank j ea) in Ho; [discriminate|]. apply R4. lia.
  - exists e, ri. split; [reflexivity|]. unfold bnd, erun_ok in *. rewrite Ee in *.
    assert (Lof e = Lfin /\ (wrapping = true -> er e = i)) as [EL Harr].
    { destruct (Bool.bool_dec wrapping true) as [Ew|Ew].
      - destruct (Hw Ew) as [Ei|(_ & _ & E3 & _)]; [split; [now apply Lof_arrived|auto]|]. destruct pw; lia.
      - apply Bool.not_true_is_false in Ew. split; [unfold Lfin; rewrite Ew; now apply Lof_nowrap|]. rewrite Ew. discriminate. }
    rewrite EL in *. split; [exact Hp|]. split; [exact Hcv|]. split; [exact Pa|]. split.
    { destruct Hri as [U P M Q]. split; auto. exists dflt. intros k Hk. apply Q. lia. }
    split; [exact Harr|]. intros Ho. apply (Hocc Hsj Ho eq_refl).
Qed.

Definition est0 : est := mkE [] r0 c0 a0 None.

(* the initial state without the first-cell trick *)
Lemma inv_init : (wrapping = true -> get sc 0 <> Some cell_new) -> pinv start false est0.
Proof.
  intros Hne. exists ri0.
  assert (Lof est0 = l0) as EL.
  { unfold Lof, est0. cbn [er]. destruct (Bool.bool_dec wrapping true) as [Ew|Ew].
    - destruct (Hwrap Ew) as (_ & E & _). destruct (N.eqb_spec r0 i); [lia|]. now rewrite andb_false_r.
    - apply Bool.not_true_is_false in Ew. now rewrite Ew. }
  rewrite EL. rewrite (set_at_self _ _ _ Hri0). unfold bnd, erun_ok, est0. cbn [eout er ec eattrs eerase].
  split; [apply plays_nil|]. split; [exact Hcv0|]. split.
  { split; auto. intros k Hk. lia. }
  split; [exact Hpen0|]. split; [exact I|]. split.
  { intros Ew. right. destruct (Hwrap Ew) as (S0 & E1 & E2 & _). repeat split; auto. }
  split; [exact Halign|]. split; [lia|]. split; [lia|]. split; [discriminate|]. intros Hlt. lia.
Qed.

(* the first-cell trick: ESC[m? SP BS ESC[X from the pending position *)
Lemma inv_trick : wrapping = true -> get sc 0 = Some cell_new ->
  pinv start false (e_pos (e_out (e_attrs est0 dflt) ([TChars [32]; t_bs] ++ t_erase_char 1)) i 0).
Proof.
  intros Ew Hc0. destruct (Hwrap Ew) as (S0 & Er0 & Ec0 & Hprev & lc & Hlc & Occ).
  destruct rp_dims as [D1 D2]. unfold MAXDIM in *.
  destruct (eout_e_attrs_plays R l0 r0 c0 est0 dflt pen_ok_dflt) as (ts1 & Eo1 & Sc1 & P1 & Ea1).
  cbn [eout eattrs est0] in Eo1, P1.
  assert (cv R l0 r0 cols) as Hcv by (rewrite <- Ec0; exact Hcv0).
  assert (get l0 (r0 + 1) = Some ri0) as G2 by (rewrite Er0; exact Hri0).
  assert (get (cells ri0) 0 = Some cell_new) as C0 by (apply Hblank0; lia).
  assert (slot_ok (cells ri0) 0 (cwide sp_cell)) as Slot.
  { unfold slot_ok, fc, fw. rewrite C0. cbn. repeat split; auto; discriminate. }
  pose proof (plays_cell_wraps R l0 r0 dflt rprev ri0 sp_cell lc Hcv ltac:(lia) Hprev G2 Hlc Occ
                sp_cell_wf sp_cell_cap eq_refl ltac:(cbn; lia) Slot) as P2.
  cbn [ctext sp_cell] in P2. change (adv_n sp_cell) with 1 in P2. rewrite Er0 in P2.
  replace r0 with (i - 1) in P2 at 2 by lia. fold flagged in P2.
  set (ri1 := put_cell ri0 0 sp_cell dflt) in *.
  assert (cv R (set_at flagged i ri1) i 1) as C2.
  { eapply plays_cv; [exact Hcv|exact P2|]. apply toks_scalar_chars. constructor; [apply storable_32|constructor]. }
  pose proof (plays_bs R _ i 1 dflt C2) as P3. change (1 - 1) with 0 in P3.
  assert (cv R (set_at flagged i ri1) i 0) as C3 by (eapply cv_pos; eauto; lia).
  assert (get (set_at flagged i ri1) i = Some ri1) as Gi.
  { rewrite get_set_at. destruct (N.eqb_spec i i); [|lia]. unfold flagged. rewrite len_set_at.
    assert (len l0 = rows) as -> by apply Hcv0. destruct (N.ltb_spec i rows); [reflexivity|lia]. }
  destruct (cv_get _ _ _ _ i C3 Hi) as (x & Gx & (Lx & Okx) & Wx). rewrite Gi in Gx. inv Gx.
  destruct (plays_ech R (set_at flagged i ri1) i 0 dflt 1 ri1 C3 Gi Wx ltac:(lia)) as (rw' & Er & Ok' & W' & P4).
  replace (N.min (0 + 1) cols) with 1 in Er by lia. rewrite set_at_set_at in P4.
  assert (len (cells ri0) = cols) as Lri0.
  { destruct (cv_get _ _ _ _ i Hcv0 Hi) as (y & Gy & (Ly & _) & _). congruence. }
  assert (forall k, get (cells ri1) k = if k =? 0 then Some (painted sp_cell dflt) else get (cells ri0) k) as Hx.
  { intros k. unfold ri1, put_cell. rewrite put_raw_cells by (cbn [cwide sp_cell]; lia).
    cbn [cwide sp_cell]. rewrite andb_false_r. reflexivity. }
  assert (fc (cells ri1) 0 = false) as F1 by (unfold fc; rewrite Hx; reflexivity).
  assert (fw (cells ri1) (1 - 1) = false) as F2 by (unfold fw; change (1 - 1) with 0; rewrite Hx; reflexivity).
  destruct (erased_nocut _ _ _ _ _ _ Er F1 F2) as [EC EW].
  exists rw'. rewrite Lof_arrived by reflexivity. unfold Lfin. rewrite Ew.
  unfold bnd, erun_ok. cbn [e_pos e_out eout er ec eattrs eerase]. rewrite eerase_e_attrs, Ea1, Eo1. cbn [eerase est0].
  split.
  { eapply plays_app; [exact P1|]. rewrite Ea1 in *. rewrite Ec0.
    eapply plays_cons; [exact P2|]. eapply plays_cons; [exact P3|exact P4]. }
  split; [eapply plays_cv; [exact C3|exact P4|apply erase_toks_scalar]|].
  split.
  { split.
    - rewrite EW. unfold ri1, put_cell. rewrite put_raw_wrapped, Hunw0. destruct (in_rng 0 1 (cols - 1)); reflexivity.
    - intros k Hk. lia.
    - intros k Hk. lia.
    - intros k Hk. rewrite EC. unfold in_rng. destruct (N.leb_spec 0 k); [|lia].
      destruct (N.ltb_spec k 1); cbn [andb]; [reflexivity|].
      rewrite Hx. destruct (N.eqb_spec k 0); [lia|]. apply Hblank0. lia. }
  split; [exact pen_ok_dflt|]. split; [exact I|]. split; [intros _; now left|].
  split; [exact Halign|]. split; [lia|]. split; [lia|]. split; [discriminate|]. intros Hlt. lia.
Qed.

Lemma window_seg width k : start + width <= cols -> k < len (window start width sc) ->
  get sc (start + k) = get (window start width sc) k.
Proof.
  intros Hw Hk. unfold window in *. rewrite get_firstnN, get_skipnN.
  rewrite len_firstnN, len_skipnN in Hk. destruct (N.ltb_spec k width); [reflexivity|lia].
Qed.

Lemma len_window width : start + width <= cols -> len (window start width sc) = width.
Proof. intros Hw. unfold window. rewrite len_firstnN, len_skipnN, (sr_len _ _ Hsrc). lia. Qed.

(* ------------------------------------------------------------------ *)
(* the row painter                                                      *)
(* ------------------------------------------------------------------ *)
Theorem row_formatted_paints width : 1 <= width -> start + width <= cols ->
  exists ts r' c' a' ri,
    row_formatted src start width i wrapping (Some (r0, c0)) (Some a0) = Ok (ts, (r', c'), a') /\
    plays (rcv R l0 r0 c0 a0) ts (rcv R (set_at Lfin i ri) r' c' a') /\
    cv R (set_at Lfin i ri) r' c' /\ pen_ok a' /\
    painted_row ri (if fc sc (start + width) then start + width + 1 else start + width) /\
    (wrapping = true -> r' = i) /\
    (occ (start + width) = true ->
       r' = i /\ c' = (if fc sc (start + width) then start + width + 1 else start + width)).
Proof.
  intros Hw1 Hw2. destruct (src_get start Hstart) as (cs0 & Hcs0 & _).
  unfold row_formatted. unfold row_cols. rewrite (sr_len _ _ Hsrc). cbn [bind].
  unfold row_get. rewrite Hcs0. fold est0.
  set (e1 := if wrapping && cell_eqb cs0 cell_new
             then e_pos (e_out (e_attrs est0 dflt) ([TChars [32]; t_bs] ++ t_erase_char 1)) i 0 else est0).
  assert (pinv start false e1) as Hinv1.
  { unfold e1. destruct (Bool.bool_dec wrapping true) as [Ew|Ew].
    - destruct (Hwrap Ew) as (S0 & _). rewrite Ew. cbn [andb].
      destruct (cell_eqb cs0 cell_new) eqn:Eq.
      + apply cell_eqb_eq in Eq. subst cs0. apply inv_trick; [exact Ew|]. rewrite <- S0. exact Hcs0.
      + apply inv_init. intros _ Hc. rewrite <- S0, Hcs0 in Hc. inv Hc.
        assert (cell_eqb cell_new cell_new = true) by (apply cell_eqb_eq; reflexivity). congruence.
    - apply Bool.not_true_is_false in Ew. rewrite Ew. cbn [andb]. apply inv_init. rewrite Ew. discriminate. }
  destruct (emit_loop_inv (window start width sc) start false e1 Hinv1) as (e2 & pw' & -> & Hinv2).
  { intros k Hk. now apply window_seg. }
  { rewrite len_window by exact Hw2. exact Hw2. }
  cbn [bind]. rewrite len_window in Hinv2 by exact Hw2.
  assert (fc sc (start + width) = pw') as Hpw.
  { destruct Hinv2 as (ri & _ & _ & _ & _ & _ & _ & Hfc & _). exact Hfc. }
  destruct (finish_inv (start + width) pw' e2 Hinv2 ltac:(lia) Hw2) as (e3 & ri & -> & P3 & C3 & Pa3 & Hpr & Harr & Hocc3).
  cbn [bind]. exists (eout e3), (er e3), (ec e3), (eattrs e3), ri. rewrite Hpw.
  split; [reflexivity|]. auto 10.
Qed.

End RowPaint.
