(* Cell.v — cell.rs on abstract cells: text as a list of scalar values, the two
   flag bits, attributes.  CellBytes.v relates this to the 22-byte buffer. *)
Require Import Base Utf8 Width Attrs.

Record cell := mkCell {
  ctext : list N;     (* code points; [] = no contents *)
  cwide : bool;       (* IS_WIDE *)
  ccont : bool;       (* IS_WIDE_CONTINUATION *)
  cattrs : attrs }.

Definition cell_new : cell := mkCell [] false false dflt.

Definition text_len (t : list N) : N := fold_right (fun c n => utf8_len c + n) 0 t.
Definition cell_len (c : cell) : N := text_len (ctext c).

Definition has_contents (c : cell) : bool := match ctext c with [] => false | _ => true end.

Definition char_is_wide (ch : N) : bool :=
  match wd ch with Some w => 1 <? w | None => false end.

(* Cell::set: len = 0 clears both flags, then set_wide *)
Definition cell_set (ch : N) (a : attrs) (c : cell) : cell :=
  mkCell [ch] (char_is_wide ch) false a.

(* Cell::append: CONTENT_BYTES - 4 = 18 *)
Definition cell_append (ch : N) (c : cell) : cell :=
  let l := cell_len c in
  if 18 <=? l then c
  else if l =? 0 then mkCell [32; ch] (cwide c) (ccont c) (cattrs c)
  else mkCell (ctext c ++ [ch]) (cwide c) (ccont c) (cattrs c).

(* Cell::clear *)
Definition cell_clear (a : attrs) (c : cell) : cell := mkCell [] false false a.

Definition cell_set_cont (b : bool) (c : cell) : cell :=
  mkCell (ctext c) (cwide c) b (cattrs c).

Definition cell_eqb (a b : cell) : bool :=
  list_eqb N.eqb (ctext a) (ctext b) && Bool.eqb (cwide a) (cwide b)
  && Bool.eqb (ccont a) (ccont b) && attrs_eqb (cattrs a) (cattrs b).
